import Ivg.Lemmas.Decoder
/-!
# Decoder lemmas, part 2: the metadata section (decode.go:119 chunk loop, :145 decodeMetadataChunk)

Byte accounting / prefix stability of `decodePaletteColors`, `decodeMetadataChunk`, `decodeChunks`,
an inversion lemma describing every accepted chunk, the rejection lemmas, and the palette facts
needed by property C13.
-/
namespace Ivg.DecL
open Ivg Num Dec Codec

@[simp] theorem isInstrKind_magic : isInstrKind .magic = false := rfl
@[simp] theorem isInstrKind_nChunks (n : Nat) : isInstrKind (.nChunks n) = false := rfl
@[simp] theorem isInstrKind_chunkLen (n : Nat) : isInstrKind (.chunkLen n) = false := rfl
@[simp] theorem isInstrKind_mid (n : Nat) : isInstrKind (.mid n) = false := rfl
@[simp] theorem isInstrKind_palHeader (a b : Nat) : isInstrKind (.palHeader a b) = false := rfl
@[simp] theorem isInstrKind_palColor (c : RGBA) : isInstrKind (.palColor c) = false := rfl

/-! ## `Color.toRGBA` : what `c.RGBA()` stores into the palette -/

theorem toRGBA_validPremul (c : Color) : c.toRGBA.1.validPremul = true := by
  unfold Color.toRGBA
  split
  · decide
  · rename_i h
    simp only [not_or, Decidable.not_not, Bool.not_eq_eq_eq_not, Bool.not_true,
      Bool.not_eq_false] at h
    simpa using h.2

theorem toRGBA_direct {c : Color} (h1 : c.typ = .rgba) (h2 : c.data.validPremul = true) :
    c.toRGBA.1 = c.data := by
  simp [Color.toRGBA, h1, h2]

theorem toRGBA_black {c : Color} (h : c.typ ≠ .rgba ∨ c.data.validPremul = false) :
    c.toRGBA.1 = RGBA.black := by
  unfold Color.toRGBA
  rcases h with h | h
  · simp [h]
  · simp [h]

/-! ## palette slots -/

theorem getElem_set6 (pal : Palette) (i : Nat) (hi : i < 64) (c : RGBA) (j : Nat) (hj : j < 64) :
    (pal.set6 (UInt8.ofNat i) c)[j] = if i = j then c else pal[j] := by
  unfold Regs.set6
  rw [Vector.getElem_set]
  have : (UInt8.ofNat i).toNat % 64 = i := by
    simp only [UInt8.toNat_ofNat']; omega
  simp only [this]

/-- `n` colours decoded in sequence (specification of what the palette loop reads) -/
def decodeColors (dec : Bytes → Option (Color × Bytes)) : Nat → Bytes → Option (List Color × Bytes)
  | 0, src => some ([], src)
  | n + 1, src =>
    match dec src with
    | none => none
    | some (c, rest) =>
      match decodeColors dec n rest with
      | none => none
      | some (cs, rest') => some (c :: cs, rest')

theorem decodePaletteColors_some {dec} (hd : ColDec dec) :
    ∀ (n i : Nat) (pal : Palette) {src : Bytes} {its : List Item} {pal' : Palette} {rest : Bytes},
    i + n ≤ 64 → decodePaletteColors dec n i pal src = some (its, pal', rest) →
    ∃ pre cols, src = pre ++ rest ∧ bytesOf its = pre ∧ callsOf its = [] ∧ instrCount its = 0 ∧
      n ≤ pre.length ∧ decodeColors dec n src = some (cols, rest) ∧ cols.length = n ∧
      (∀ j (hj : j < 64), ¬ (i ≤ j ∧ j < i + n) → pal'[j] = pal[j]) ∧
      (∀ t (ht : t < cols.length) (hj : i + t < 64), pal'[i + t] = cols[t].toRGBA.1) ∧
      ∀ k, decodePaletteColors dec n i pal (src ++ k) = some (its, pal', rest ++ k)
  | 0, i, pal, src, its, pal', rest, _, h => by
    simp [decodePaletteColors] at h
    obtain ⟨rfl, rfl, rfl⟩ := h
    exact ⟨[], [], rfl, rfl, rfl, rfl, Nat.le_refl _, rfl, rfl, fun _ _ _ => rfl,
      fun t ht => absurd ht (Nat.not_lt_zero _), fun k => by simp [decodePaletteColors]⟩
  | n + 1, i, pal, src, its, pal', rest, hin, h => by
    unfold decodePaletteColors at h
    rcases h1 : dec src with _ | ⟨c, r1⟩ <;> rw [h1] at h <;> simp only at h
    · contradiction
    · rcases h2 : decodePaletteColors dec n (i + 1) (pal.set6 (UInt8.ofNat i) c.toRGBA.1) r1 with
        _ | ⟨its', pal2, rest2⟩ <;> rw [h2] at h <;> simp only at h
      · contradiction
      · simp at h
        obtain ⟨rfl, rfl, rfl⟩ := h
        obtain ⟨p1, hne, rfl⟩ := hd.split h1
        obtain ⟨p2, cols, rfl, hb, hc, hi, hl, hdc, hcl, hpa, hpb, happ⟩ :=
          decodePaletteColors_some hd n (i + 1) _ (by omega) h2
        have l1 : 0 < p1.length := List.length_pos_iff.mpr hne
        refine ⟨p1 ++ p2, c :: cols, by simp, by simp [hb], by simpa using hc, ?_, by simp; omega, ?_,
          by simp [hcl], ?_, ?_, ?_⟩
        · rw [instrCount_line, hi]; rfl
        · simp [decodeColors, h1, hdc]
        · intro j hj hno
          rw [hpa j hj (by omega), getElem_set6 _ _ (by omega) _ _ hj, if_neg (by omega)]
        · intro t ht hj
          cases t with
          | zero =>
            simp only [Nat.add_zero, List.getElem_cons_zero]
            rw [hpa i (by omega) (by omega), getElem_set6 _ _ (by omega) _ _ (by omega)]
            simp
          | succ t =>
            have := hpb t (by simpa using ht) (by omega)
            simp only [show i + (t + 1) = i + 1 + t by omega, List.getElem_cons_succ]
            exact this
        · intro k
          unfold decodePaletteColors
          rw [hd.app h1 k]
          simp only
          rw [happ k]
          simp

theorem decodePaletteColors_none_of_short {dec} (hd : ColDec dec) :
    ∀ (n i : Nat) (pal : Palette) (src : Bytes), src.length < n → decodePaletteColors dec n i pal src = none
  | 0, _, _, _, h => absurd h (Nat.not_lt_zero _)
  | n + 1, i, pal, src, h => by
    unfold decodePaletteColors
    rcases h1 : dec src with _ | ⟨c, r1⟩ <;> simp only
    obtain ⟨p1, hne, rfl⟩ := hd.split h1
    have l1 : 0 < p1.length := List.length_pos_iff.mpr hne
    rw [decodePaletteColors_none_of_short hd n _ _ r1 (by simp at h; omega)]

/-! ## the four palette formats -/

def palDec (format : Nat) : Bytes → Option (Color × Bytes) :=
  match format with
  | 0 => Dec.decodeColor1 | 1 => decodeColor2 | 2 => decodeColor3Direct | _ => decodeColor4

theorem palDec_colDec (format : Nat) : ColDec (palDec format) := by
  unfold palDec; split
  · exact colDec_1
  · exact colDec_2
  · exact colDec_3d
  · exact colDec_4

/-- no palette format can produce an indirect colour: they are all direct RGBA values -/
theorem palDec_rgba {format : Nat} {src : Bytes} {c : Color} {rest : Bytes}
    (h : palDec format src = some (c, rest)) : format ≠ 0 → c.typ = .rgba := by
  intro hf
  unfold palDec at h
  split at h
  · exact absurd rfl hf
  · unfold decodeColor2 at h; split at h <;> simp at h; obtain ⟨rfl, _⟩ := h; rfl
  · unfold decodeColor3Direct at h; split at h <;> simp at h; obtain ⟨rfl, _⟩ := h; rfl
  · unfold decodeColor4 at h; split at h <;> simp at h; obtain ⟨rfl, _⟩ := h; rfl


/-! ## `decodeMetadataChunk`: complete characterisation of the accepted chunks -/

/-- An accepted chunk is either a viewBox chunk (identifier 0, only allowed first) with four
    coordinates forming a non-inverted finite box, or a suggested-palette chunk (identifier 1) with a
    header byte `h` followed by `1 + (h & 0x3f)` colours in format `h >> 6`; in both cases the
    declared length equals the number of bytes between the length field and the end of the chunk. -/
inductive ChunkOk (m : Metadata) (minMID : Nat) (src : Bytes) : List Item → Metadata → Nat → Bytes → Prop
  | viewBox {length w : Nat} {src1 : Bytes} {w2 : Nat} {src2 : Bytes} {its4 : List Item} {a b c d : F32}
      {rest : Bytes} :
      decodeNatural src = some (length, w, src1) → decodeNatural src1 = some (0, w2, src2) → minMID = 0 →
      decodeCoordinates 4 src2 = (its4, some ([a, b, c, d], rest)) →
      ¬ c < a → ¬ d < b → isNaNOrInfinity a = false → isNaNOrInfinity b = false →
      isNaNOrInfinity c = false → isNaNOrInfinity d = false →
      src1.length = length + rest.length →
      ChunkOk m minMID src
        (.line ⟨consumed src src1, .chunkLen length⟩ :: .line ⟨consumed src1 src2, .mid 0⟩ :: its4)
        { m with viewBox := ⟨a, b, c, d⟩ } 1 rest
  | palette {length w : Nat} {src1 : Bytes} {w2 : Nat} {h : UInt8} {src3 : Bytes} {its4 : List Item}
      {pal' : Palette} {rest : Bytes} :
      decodeNatural src = some (length, w, src1) → decodeNatural src1 = some (1, w2, h :: src3) →
      minMID ≤ 1 →
      decodePaletteColors (palDec (h >>> 6).toNat) (1 + (h &&& 0x3f).toNat) 0 m.palette src3 =
        some (its4, pal', rest) →
      src1.length = length + rest.length →
      ChunkOk m minMID src
        (.line ⟨consumed src src1, .chunkLen length⟩ :: .line ⟨consumed src1 (h :: src3), .mid 1⟩ ::
          .line ⟨[h], .palHeader (1 + (h &&& 0x3f).toNat) (1 + (h >>> 6).toNat)⟩ :: its4)
        { m with palette := pal' } 2 rest

theorem decodeMetadataChunk_ok {m : Metadata} {minMID : Nat} {src : Bytes} {its : List Item}
    {m' : Metadata} {mm' : Nat} {rest : Bytes}
    (h : decodeMetadataChunk m minMID src = (its, .ok (m', mm', rest))) :
    ChunkOk m minMID src its m' mm' rest := by
  unfold decodeMetadataChunk at h
  split at h
  · simp at h
  · rename_i length w src1 h1
    simp only at h
    split at h
    · simp at h
    · rename_i mid w2 src2 h2
      split at h
      · simp at h
      · split at h
        · simp at h
        · rename_i hm2 hmin
          split at h
          · rename_i hm0
            subst hm0
            split at h
            · rename_i its4 a b c d src3 h4
              split at h
              · simp at h
              · rename_i hbox
                split at h
                · simp at h
                · rename_i hlen
                  simp at h
                  obtain ⟨rfl, rfl, rfl, rfl⟩ := h
                  simp only [not_or, Bool.not_eq_true] at hbox
                  obtain ⟨q1, q2, q3, q4, q5, q6⟩ := hbox
                  exact .viewBox h1 h2 (by omega) h4 q1 q2 q3 q4 q5 q6 (by omega)
            · simp at h
          · rename_i hm0
            have hm1 : mid = 1 := by omega
            subst hm1
            split at h
            · simp at h
            · rename_i hb src3
              split at h
              · simp at h
              · rename_i its4 pal' rest' h4
                split at h
                · simp at h
                · rename_i hlen
                  simp at h
                  obtain ⟨rfl, rfl, rfl, rfl⟩ := h
                  exact .palette h1 h2 (by omega) h4 (by omega)


theorem decodeMetadataChunk_of_ok {m : Metadata} {minMID : Nat} {src : Bytes} {its : List Item}
    {m' : Metadata} {mm' : Nat} {rest : Bytes} (h : ChunkOk m minMID src its m' mm' rest) :
    decodeMetadataChunk m minMID src = (its, .ok (m', mm', rest)) := by
  cases h with
  | viewBox h1 h2 hmin h4 q1 q2 q3 q4 q5 q6 hlen =>
    subst hmin
    unfold decodeMetadataChunk
    rw [h1]; simp only
    rw [h2]; simp only
    rw [h4]
    simp [q1, q2, q3, q4, q5, q6]
    omega
  | palette h1 h2 hmin h4 hlen =>
    rename_i length w src1 w2 hb src3 its4 pal'
    unfold decodeMetadataChunk
    rw [h1]; simp only
    rw [h2]; simp only
    generalize hX : decodePaletteColors _ (1 + (hb &&& 63).toNat) 0 m.palette src3 = X
    have hX' : X = some (its4, pal', rest) := by rw [← hX]; exact h4
    subst hX'
    have e : (rest.length : Int) = (src1.length : Int) - (length : Int) := by omega
    simp [show ¬ 1 < minMID by omega, e]

/-- a chunk is accepted exactly if it has one of the two valid shapes -/
theorem decodeMetadataChunk_ok_iff {m : Metadata} {minMID : Nat} {src : Bytes} {its : List Item}
    {m' : Metadata} {mm' : Nat} {rest : Bytes} :
    decodeMetadataChunk m minMID src = (its, .ok (m', mm', rest)) ↔ ChunkOk m minMID src its m' mm' rest :=
  ⟨decodeMetadataChunk_ok, decodeMetadataChunk_of_ok⟩

theorem and63_le (h : UInt8) : (h &&& 0x3f).toNat ≤ 63 := by
  rw [UInt8.toNat_and]
  exact Nat.and_le_right

/-- accounting for an accepted chunk: it consumed a non-empty prefix, which is what its lines show -/
theorem ChunkOk.consumes {m : Metadata} {minMID : Nat} {src : Bytes} {its : List Item}
    {m' : Metadata} {mm' : Nat} {rest : Bytes} (h : ChunkOk m minMID src its m' mm' rest) :
    ∃ pre, pre ≠ [] ∧ src = pre ++ rest ∧ bytesOf its = pre ∧ callsOf its = [] ∧ instrCount its = 0 := by
  cases h with
  | viewBox h1 h2 hmin h4 q1 q2 q3 q4 q5 q6 hlen =>
    obtain ⟨p1, hne1, rfl⟩ := decodeNatural_split h1
    obtain ⟨p2, hne2, rfl⟩ := decodeNatural_split h2
    obtain ⟨p3, rfl, hb, hc, _, _, hk, _⟩ := decodeCoordinates_some 4 h4
    refine ⟨p1 ++ (p2 ++ p3), by simp [hne1], by simp, by simp [hb], by simp [hc], ?_⟩
    simp [instrCount_of_numbers hk]
  | palette h1 h2 hmin h4 hlen =>
    rename_i length w src1 w2 hb src3 its4 pal'
    obtain ⟨p1, hne1, rfl⟩ := decodeNatural_split h1
    obtain ⟨p2, hne2, h2'⟩ := decodeNatural_split h2
    have := and63_le hb
    obtain ⟨p3, cols, rfl, hb3, hc, hi, _⟩ :=
      decodePaletteColors_some (palDec_colDec _) _ 0 _ (by omega) h4
    refine ⟨p1 ++ (p2 ++ (hb :: p3)), by simp [hne1], ?_, ?_, by simp [hc], ?_⟩
    · rw [h2']; simp
    · rw [h2']; simp [hb3]
    · simp [hi]

/-- an accepted chunk is accepted identically whatever follows it -/
theorem ChunkOk.append {m : Metadata} {minMID : Nat} {src : Bytes} {its : List Item}
    {m' : Metadata} {mm' : Nat} {rest : Bytes} (h : ChunkOk m minMID src its m' mm' rest) (k : Bytes) :
    ChunkOk m minMID (src ++ k) its m' mm' (rest ++ k) := by
  cases h with
  | viewBox h1 h2 hmin h4 q1 q2 q3 q4 q5 q6 hlen =>
    obtain ⟨p1, hne1, rfl⟩ := decodeNatural_split h1
    obtain ⟨p2, hne2, rfl⟩ := decodeNatural_split h2
    obtain ⟨p3, rfl, hb, hc, _, _, hk, happ⟩ := decodeCoordinates_some 4 h4
    have := ChunkOk.viewBox (m := m) (decodeNatural_append h1 k) (decodeNatural_append h2 k) hmin (happ k)
      q1 q2 q3 q4 q5 q6 (by simp at hlen ⊢; omega)
    simpa [consumed_append_right] using this
  | palette h1 h2 hmin h4 hlen =>
    rename_i length w src1 w2 hb src3 its4 pal'
    obtain ⟨p1, hne1, rfl⟩ := decodeNatural_split h1
    obtain ⟨p2, hne2, h2'⟩ := decodeNatural_split h2
    have := and63_le hb
    obtain ⟨p3, cols, rfl, hb3, hc, hi, _, _, _, _, _, happ⟩ :=
      decodePaletteColors_some (palDec_colDec _) _ 0 _ (by omega) h4
    have := ChunkOk.palette (m := m) (decodeNatural_append h1 k) (decodeNatural_append h2 k) hmin (happ k)
      (by simp at hlen ⊢; omega)
    rw [h2'] at this ⊢
    simpa [consumed_append_right] using this

theorem decodeMetadataChunk_append {m : Metadata} {minMID : Nat} {src : Bytes} {its : List Item}
    {m' : Metadata} {mm' : Nat} {rest : Bytes}
    (h : decodeMetadataChunk m minMID src = (its, .ok (m', mm', rest))) (k : Bytes) :
    decodeMetadataChunk m minMID (src ++ k) = (its, .ok (m', mm', rest ++ k)) :=
  decodeMetadataChunk_of_ok ((decodeMetadataChunk_ok h).append k)

theorem decodeMetadataChunk_consumes {m : Metadata} {minMID : Nat} {src : Bytes} {its : List Item}
    {m' : Metadata} {mm' : Nat} {rest : Bytes}
    (h : decodeMetadataChunk m minMID src = (its, .ok (m', mm', rest))) :
    ∃ pre, pre ≠ [] ∧ src = pre ++ rest ∧ bytesOf its = pre ∧ callsOf its = [] ∧ instrCount its = 0 :=
  (decodeMetadataChunk_ok h).consumes

theorem decodePaletteColors_calls {dec} : ∀ (n i : Nat) (pal : Palette) {src : Bytes} {its : List Item}
    {pal' : Palette} {rest : Bytes}, decodePaletteColors dec n i pal src = some (its, pal', rest) →
    callsOf its = []
  | 0, i, pal, src, its, pal', rest, h => by
    simp [decodePaletteColors] at h
    obtain ⟨rfl, _, _⟩ := h; rfl
  | n + 1, i, pal, src, its, pal', rest, h => by
    unfold decodePaletteColors at h
    rcases h1 : dec src with _ | ⟨c, r1⟩ <;> rw [h1] at h <;> simp only at h
    · contradiction
    · rcases h2 : decodePaletteColors dec n (i + 1) (pal.set6 (UInt8.ofNat i) c.toRGBA.1) r1 with
        _ | ⟨its', pal2, rest2⟩ <;> rw [h2] at h <;> simp only at h
      · contradiction
      · simp at h
        obtain ⟨rfl, _, _⟩ := h
        simpa using decodePaletteColors_calls n _ _ h2

/-- nothing is ever delivered while decoding a chunk, accepted or not -/
theorem decodeMetadataChunk_calls (m : Metadata) (minMID : Nat) (src : Bytes) :
    callsOf (decodeMetadataChunk m minMID src).1 = [] := by
  unfold decodeMetadataChunk
  split
  · rfl
  · simp only
    split
    · rfl
    · rename_i src2 _
      split
      · rfl
      · split
        · rfl
        · split
          · have hc := (decodeCoordinates_calls 4 src2).1
            split
            · rename_i h4
              rw [h4] at hc
              split
              · simpa using hc
              · split <;> simpa using hc
            · rename_i h4
              rw [h4] at hc
              simpa using hc
          · split
            · rfl
            · split
              · rfl
              · rename_i h4
                have hc := decodePaletteColors_calls _ _ _ h4
                split <;> simpa using hc


/-! ## the chunk loop -/

theorem decodeChunks_calls : ∀ (f n : Nat) (m : Metadata) (mm : Nat) (src : Bytes),
    callsOf (decodeChunks f n m mm src).1 = []
  | _, 0, _, _, _ => by simp [decodeChunks]
  | 0, _ + 1, _, _, _ => by simp [decodeChunks]
  | f + 1, n + 1, m, mm, src => by
    unfold decodeChunks
    have hc := decodeMetadataChunk_calls m mm src
    rcases h1 : decodeMetadataChunk m mm src with ⟨its, (e | ⟨m', mm', rest⟩)⟩ <;> rw [h1] at hc <;> simp only
    · exact hc
    · have := decodeChunks_calls f n m' mm' rest
      simp [hc, this]

theorem decodeChunks_ok : ∀ (f n : Nat) (m : Metadata) (mm : Nat) {src : Bytes} {its : List Item}
    {m' : Metadata} {rest : Bytes}, decodeChunks f n m mm src = (its, .ok (m', rest)) →
    ∃ pre, src = pre ++ rest ∧ bytesOf its = pre ∧ instrCount its = 0 ∧ n ≤ pre.length ∧
      ∀ f' k, f ≤ f' → decodeChunks f' n m mm (src ++ k) = (its, .ok (m', rest ++ k))
  | f, 0, m, mm, src, its, m', rest, h => by
    have : decodeChunks f 0 m mm src = ([], .ok (m, src)) := by cases f <;> rfl
    rw [this] at h
    simp at h
    obtain ⟨rfl, rfl, rfl⟩ := h
    refine ⟨[], rfl, rfl, rfl, Nat.le_refl _, ?_⟩
    intro f' k _
    cases f' <;> rfl
  | 0, n + 1, m, mm, src, its, m', rest, h => by simp [decodeChunks] at h
  | f + 1, n + 1, m, mm, src, its, m', rest, h => by
    unfold decodeChunks at h
    rcases h1 : decodeMetadataChunk m mm src with ⟨its1, (e | ⟨m1, mm1, r1⟩)⟩ <;> rw [h1] at h <;>
      simp only at h
    · simp at h
    · rcases h2 : decodeChunks f n m1 mm1 r1 with ⟨its2, r⟩
      rw [h2] at h
      simp at h
      obtain ⟨rfl, rfl⟩ := h
      obtain ⟨p1, hne, rfl, hb1, _, hi1⟩ := decodeMetadataChunk_consumes h1
      obtain ⟨p2, rfl, hb2, hi2, hl2, happ2⟩ := decodeChunks_ok f n m1 mm1 h2
      have l1 : 0 < p1.length := List.length_pos_iff.mpr hne
      refine ⟨p1 ++ p2, by simp, by simp [hb1, hb2], by simp [hi1, hi2], by simp; omega, ?_⟩
      intro f' k hf
      cases f' with
      | zero => omega
      | succ f' =>
        unfold decodeChunks
        rw [decodeMetadataChunk_append h1 k]
        simp only
        rw [happ2 f' k (by omega)]

/-- with more fuel than input bytes the chunk loop never runs out of fuel -/
theorem decodeChunks_fuel_irrelevant : ∀ (f1 f2 n : Nat) (m : Metadata) (mm : Nat) (src : Bytes),
    src.length < f1 → src.length < f2 → decodeChunks f1 n m mm src = decodeChunks f2 n m mm src
  | f1, f2, 0, m, mm, src, _, _ => by cases f1 <;> cases f2 <;> rfl
  | 0, _, _ + 1, _, _, _, h, _ => absurd h (Nat.not_lt_zero _)
  | _ + 1, 0, _ + 1, _, _, _, _, h => absurd h (Nat.not_lt_zero _)
  | f1 + 1, f2 + 1, n + 1, m, mm, src, h1, h2 => by
    unfold decodeChunks
    rcases hc : decodeMetadataChunk m mm src with ⟨its1, (e | ⟨m1, mm1, r1⟩)⟩ <;> simp only
    obtain ⟨p1, hne, rfl, _⟩ := decodeMetadataChunk_consumes hc
    have l1 : 0 < p1.length := List.length_pos_iff.mpr hne
    simp only [List.length_append] at h1 h2
    rw [decodeChunks_fuel_irrelevant f1 f2 n m1 mm1 r1 (by omega) (by omega)]

/-- the identifiers of accepted chunks are strictly increasing and below 2, so at most two chunks
    (a viewBox chunk, then a suggested-palette chunk) are ever accepted -/
theorem decodeChunks_count : ∀ (f n : Nat) (m : Metadata) (mm : Nat) {src : Bytes} {its : List Item}
    {m' : Metadata} {rest : Bytes}, mm ≤ 2 → decodeChunks f n m mm src = (its, .ok (m', rest)) → mm + n ≤ 2
  | f, 0, m, mm, src, its, m', rest, hmm, h => hmm
  | 0, n + 1, m, mm, src, its, m', rest, hmm, h => by simp [decodeChunks] at h
  | f + 1, n + 1, m, mm, src, its, m', rest, hmm, h => by
    unfold decodeChunks at h
    rcases h1 : decodeMetadataChunk m mm src with ⟨its1, (e | ⟨m1, mm1, r1⟩)⟩ <;> rw [h1] at h <;>
      simp only at h
    · simp at h
    · rcases h2 : decodeChunks f n m1 mm1 r1 with ⟨its2, r⟩
      rw [h2] at h
      simp at h
      obtain ⟨rfl, rfl⟩ := h
      have hck := decodeMetadataChunk_ok h1
      have : mm < mm1 ∧ mm1 ≤ 2 := by
        cases hck <;> omega
      have := decodeChunks_count f n m1 mm1 this.2 h2
      omega


theorem decodeChunks_zero_ok {f : Nat} {m : Metadata} {mm : Nat} {src : Bytes} {its : List Item}
    {m' : Metadata} {rest : Bytes} (h : decodeChunks f 0 m mm src = (its, .ok (m', rest))) :
    its = [] ∧ m' = m ∧ rest = src := by
  have : decodeChunks f 0 m mm src = ([], .ok (m, src)) := by cases f <;> rfl
  rw [this] at h
  simp at h
  obtain ⟨rfl, rfl, rfl⟩ := h
  exact ⟨rfl, rfl, rfl⟩

theorem decodeChunks_succ_ok {f n : Nat} {m : Metadata} {mm : Nat} {src : Bytes} {its : List Item}
    {m' : Metadata} {rest : Bytes} (h : decodeChunks f (n + 1) m mm src = (its, .ok (m', rest))) :
    ∃ its1 m1 mm1 r1 its2 f', f = f' + 1 ∧ decodeMetadataChunk m mm src = (its1, .ok (m1, mm1, r1)) ∧
      decodeChunks f' n m1 mm1 r1 = (its2, .ok (m', rest)) ∧ its = its1 ++ its2 := by
  cases f with
  | zero => simp [decodeChunks] at h
  | succ f =>
    unfold decodeChunks at h
    rcases h1 : decodeMetadataChunk m mm src with ⟨its1, (e | ⟨m1, mm1, r1⟩)⟩ <;> rw [h1] at h <;>
      simp only at h
    · simp at h
    · rcases h2 : decodeChunks f n m1 mm1 r1 with ⟨its2, r⟩
      rw [h2] at h
      simp at h
      obtain ⟨rfl, rfl⟩ := h
      exact ⟨its1, m1, mm1, r1, its2, f, rfl, rfl, h2, rfl⟩

/-- complete description of a valid metadata section: no chunk; one chunk (viewBox or palette); or a
    viewBox chunk followed by a palette chunk -/
theorem decodeChunks_shapes {f n : Nat} {m0 : Metadata} {src : Bytes} {its : List Item} {m : Metadata}
    {rest : Bytes} (h : decodeChunks f n m0 0 src = (its, .ok (m, rest))) :
    (n = 0 ∧ m = m0 ∧ its = [] ∧ rest = src) ∨
    (n = 1 ∧ ∃ mm', ChunkOk m0 0 src its m mm' rest) ∨
    (n = 2 ∧ ∃ its1 m1 r1 its2, ChunkOk m0 0 src its1 m1 1 r1 ∧ ChunkOk m1 1 r1 its2 m 2 rest ∧
      its = its1 ++ its2) := by
  have hn := decodeChunks_count f n m0 0 (by omega) h
  match n, h with
  | 0, h =>
    obtain ⟨rfl, rfl, rfl⟩ := decodeChunks_zero_ok h
    exact .inl ⟨rfl, rfl, rfl, rfl⟩
  | 1, h =>
    obtain ⟨its1, m1, mm1, r1, its2, f', rfl, h1, h2, rfl⟩ := decodeChunks_succ_ok h
    obtain ⟨rfl, rfl, rfl⟩ := decodeChunks_zero_ok h2
    exact .inr (.inl ⟨rfl, mm1, by simpa using decodeMetadataChunk_ok h1⟩)
  | 2, h =>
    obtain ⟨its1, m1, mm1, r1, its2, f', rfl, h1, h2, rfl⟩ := decodeChunks_succ_ok h
    obtain ⟨its3, m2, mm2, r2, its4, f'', rfl, h3, h4, rfl⟩ := decodeChunks_succ_ok h2
    obtain ⟨rfl, rfl, rfl⟩ := decodeChunks_zero_ok h4
    have c1 := decodeMetadataChunk_ok h1
    have c2 := decodeMetadataChunk_ok h3
    refine .inr (.inr ⟨rfl, its1, m1, r1, its3, ?_, ?_, by simp⟩)
    · cases c1 with
      | viewBox => exact .viewBox ‹_› ‹_› ‹_› ‹_› ‹_› ‹_› ‹_› ‹_› ‹_› ‹_› ‹_›
      | palette => cases c2 <;> omega
    · cases c1 with
      | viewBox =>
        cases c2 with
        | viewBox => omega
        | palette => exact .palette ‹_› ‹_› ‹_› ‹_› ‹_›
      | palette => cases c2 <;> omega
  | n + 3, _ => omega

/-! ## C13: what the chunks store -/

/-- every entry is a valid alpha-premultiplied colour -/
def PalValid (p : Palette) : Prop := ∀ j (hj : j < 64), p[j].validPremul = true

theorem defaultPalette_getElem (j : Nat) (hj : j < 64) : defaultPalette[j] = RGBA.black := by
  simp [defaultPalette, Regs.const]

theorem defaultPalette_valid : PalValid defaultPalette := by
  intro j hj
  rw [defaultPalette_getElem j hj]
  decide

/-- a viewBox chunk stores the four coordinates, which form a non-inverted box of finite numbers,
    and leaves the palette alone -/
theorem ChunkOk.viewBox_spec {m : Metadata} {minMID : Nat} {src : Bytes} {its : List Item}
    {m' : Metadata} {rest : Bytes} (h : ChunkOk m minMID src its m' 1 rest) :
    m'.palette = m.palette ∧ minMID = 0 ∧
    ¬ m'.viewBox.maxX < m'.viewBox.minX ∧ ¬ m'.viewBox.maxY < m'.viewBox.minY ∧
    isNaNOrInfinity m'.viewBox.minX = false ∧ isNaNOrInfinity m'.viewBox.minY = false ∧
    isNaNOrInfinity m'.viewBox.maxX = false ∧ isNaNOrInfinity m'.viewBox.maxY = false ∧
    ∃ length w src1 w2 src2 its4, decodeNatural src = some (length, w, src1) ∧
      decodeNatural src1 = some (0, w2, src2) ∧
      decodeCoordinates 4 src2 =
        (its4, some ([m'.viewBox.minX, m'.viewBox.minY, m'.viewBox.maxX, m'.viewBox.maxY], rest)) := by
  generalize hone : (1 : Nat) = one at h
  cases h with
  | viewBox h1 h2 hmin h4 q1 q2 q3 q4 q5 q6 hlen =>
    exact ⟨rfl, hmin, q1, q2, q3, q4, q5, q6, _, _, _, _, _, _, h1, h2, h4⟩
  | palette => omega

/-- a palette chunk with header byte `hb` stores the `N+1 = 1 + (hb & 0x3f)` colours that follow
    (converted by `Color.RGBA()`: indirect and non-premultiplied colours become opaque black) into
    entries `0..N` and leaves the entries above `N` and the viewBox alone -/
theorem ChunkOk.palette_spec {m : Metadata} {minMID : Nat} {src : Bytes} {its : List Item}
    {m' : Metadata} {rest : Bytes} (h : ChunkOk m minMID src its m' 2 rest) :
    m'.viewBox = m.viewBox ∧
    ∃ length w src1 w2 hb src3 cols, decodeNatural src = some (length, w, src1) ∧
      decodeNatural src1 = some (1, w2, hb :: src3) ∧
      decodeColors (palDec (hb >>> 6).toNat) (1 + (hb &&& 0x3f).toNat) src3 = some (cols, rest) ∧
      cols.length = 1 + (hb &&& 0x3f).toNat ∧
      (∀ j (hj : j < 64), 1 + (hb &&& 0x3f).toNat ≤ j → m'.palette[j] = m.palette[j]) ∧
      (∀ t (ht : t < cols.length) (hj : t < 64), m'.palette[t] = cols[t].toRGBA.1) ∧
      ∃ l0 l1 its4, its = l0 :: l1 ::
        .line ⟨[hb], .palHeader (1 + (hb &&& 0x3f).toNat) (1 + (hb >>> 6).toNat)⟩ :: its4 := by
  generalize htwo : (2 : Nat) = two at h
  cases h with
  | viewBox => omega
  | @palette length w src1 w2 hb src3 its4 pal' _ h1 h2 hmin h4 hlen =>
    have := and63_le hb
    obtain ⟨p3, cols, _, _, _, _, _, hdc, hcl, hpa, hpb, _⟩ :=
      decodePaletteColors_some (palDec_colDec _) _ 0 _ (by omega) h4
    refine ⟨rfl, length, w, src1, w2, hb, src3, cols, h1, h2, hdc, hcl, ?_, ?_, _, _, _, rfl⟩
    · intro j hj hle
      exact hpa j hj (by omega)
    · intro t ht hj
      have := hpb t ht (by omega)
      simpa using this

theorem ChunkOk.palValid {m : Metadata} {minMID : Nat} {src : Bytes} {its : List Item}
    {m' : Metadata} {mm' : Nat} {rest : Bytes} (h : ChunkOk m minMID src its m' mm' rest)
    (hv : PalValid m.palette) : PalValid m'.palette := by
  cases h with
  | viewBox => exact hv
  | palette h1 h2 hmin h4 hlen =>
    rename_i length w src1 w2 hb src3 its4 pal'
    have := and63_le hb
    obtain ⟨p3, cols, _, _, _, _, _, hdc, hcl, hpa, hpb, _⟩ :=
      decodePaletteColors_some (palDec_colDec _) _ 0 _ (by omega) h4
    intro j hj
    by_cases hjc : j < 1 + (hb &&& 0x3f).toNat
    · have := hpb j (by omega) (by omega)
      simp only [Nat.zero_add] at this
      show pal'[j].validPremul = true
      rw [this]
      exact toRGBA_validPremul _
    · show pal'[j].validPremul = true
      rw [hpa j hj (by omega)]
      exact hv j hj

theorem decodeChunks_palValid : ∀ (f n : Nat) (m : Metadata) (mm : Nat) {src : Bytes} {its : List Item}
    {m' : Metadata} {rest : Bytes}, decodeChunks f n m mm src = (its, .ok (m', rest)) →
    PalValid m.palette → PalValid m'.palette
  | f, 0, m, mm, src, its, m', rest, h, hv => by
    obtain ⟨_, rfl, _⟩ := decodeChunks_zero_ok h
    exact hv
  | f, n + 1, m, mm, src, its, m', rest, h, hv => by
    obtain ⟨its1, m1, mm1, r1, its2, f', rfl, h1, h2, rfl⟩ := decodeChunks_succ_ok h
    exact decodeChunks_palValid f' n m1 mm1 h2 ((decodeMetadataChunk_ok h1).palValid hv)

theorem sanitizePalette_valid (p : Palette) : PalValid (sanitizePalette p) := by
  intro j hj
  unfold sanitizePalette
  rw [Vector.getElem_map]
  split
  · assumption
  · decide

theorem applyOptions_palValid (m : Metadata) (opts : List DecodeOption) (hv : PalValid m.palette) :
    PalValid (applyOptions m opts).palette := by
  unfold applyOptions
  cases opts with
  | nil => simpa using hv
  | cons o os =>
    simp only [List.isEmpty_cons, Bool.false_eq_true, if_false]
    exact sanitizePalette_valid _

theorem applyOptions_nil (m : Metadata) : applyOptions m [] = m := rfl

/-! ## C13: rejections -/

theorem chunk_unknown_mid {m : Metadata} {minMID : Nat} {src : Bytes} {length w : Nat} {src1 : Bytes}
    {mid w2 : Nat} {src2 : Bytes} (h1 : decodeNatural src = some (length, w, src1))
    (h2 : decodeNatural src1 = some (mid, w2, src2)) (h : 2 ≤ mid) :
    (decodeMetadataChunk m minMID src).2 = .error .unsupportedMetadataIdentifier := by
  unfold decodeMetadataChunk
  rw [h1]; simp only
  rw [h2]; simp only
  rw [if_pos h]

theorem chunk_mid_order {m : Metadata} {minMID : Nat} {src : Bytes} {length w : Nat} {src1 : Bytes}
    {mid w2 : Nat} {src2 : Bytes} (h1 : decodeNatural src = some (length, w, src1))
    (h2 : decodeNatural src1 = some (mid, w2, src2)) (h : mid < 2) (ho : mid < minMID) :
    (decodeMetadataChunk m minMID src).2 = .error .metadataIdentifierOrder := by
  unfold decodeMetadataChunk
  rw [h1]; simp only
  rw [h2]; simp only
  rw [if_neg (by omega), if_pos ho]

theorem chunk_viewBox_rejected {m : Metadata} {src : Bytes} {length w : Nat} {src1 : Bytes}
    {w2 : Nat} {src2 : Bytes} {its4 : List Item} {a b c d : F32} {rest : Bytes}
    (h1 : decodeNatural src = some (length, w, src1)) (h2 : decodeNatural src1 = some (0, w2, src2))
    (h4 : decodeCoordinates 4 src2 = (its4, some ([a, b, c, d], rest)))
    (hbad : c < a ∨ d < b ∨ isNaNOrInfinity a = true ∨ isNaNOrInfinity b = true ∨
      isNaNOrInfinity c = true ∨ isNaNOrInfinity d = true) :
    (decodeMetadataChunk m 0 src).2 = .error .invalidViewBox := by
  unfold decodeMetadataChunk
  rw [h1]; simp only
  rw [h2]; simp only
  rw [if_neg (by omega), if_neg (by omega), if_pos trivial, h4]
  simp only
  rw [if_pos hbad]

theorem chunk_viewBox_length_rejected {m : Metadata} {src : Bytes} {length w : Nat} {src1 : Bytes}
    {w2 : Nat} {src2 : Bytes} {its4 : List Item} {a b c d : F32} {rest : Bytes}
    (h1 : decodeNatural src = some (length, w, src1)) (h2 : decodeNatural src1 = some (0, w2, src2))
    (h4 : decodeCoordinates 4 src2 = (its4, some ([a, b, c, d], rest)))
    (hgood : ¬ (c < a ∨ d < b ∨ isNaNOrInfinity a = true ∨ isNaNOrInfinity b = true ∨
      isNaNOrInfinity c = true ∨ isNaNOrInfinity d = true))
    (hlen : src1.length ≠ length + rest.length) :
    (decodeMetadataChunk m 0 src).2 = .error .inconsistentMetadataChunkLength := by
  unfold decodeMetadataChunk
  rw [h1]; simp only
  rw [h2]; simp only
  rw [if_neg (by omega), if_neg (by omega), if_pos trivial, h4]
  simp only
  rw [if_neg hgood, if_pos (by omega)]

theorem chunk_palette_length_rejected {m : Metadata} {minMID : Nat} {src : Bytes} {length w : Nat}
    {src1 : Bytes} {w2 : Nat} {hb : UInt8} {src3 : Bytes} {its4 : List Item} {pal' : Palette} {rest : Bytes}
    (h1 : decodeNatural src = some (length, w, src1)) (h2 : decodeNatural src1 = some (1, w2, hb :: src3))
    (hmin : minMID ≤ 1)
    (h4 : decodePaletteColors (palDec (hb >>> 6).toNat) (1 + (hb &&& 0x3f).toNat) 0 m.palette src3 =
      some (its4, pal', rest))
    (hlen : src1.length ≠ length + rest.length) :
    (decodeMetadataChunk m minMID src).2 = .error .inconsistentMetadataChunkLength := by
  unfold decodeMetadataChunk
  rw [h1]; simp only
  rw [h2]; simp only
  generalize hX : decodePaletteColors _ (1 + (hb &&& 63).toNat) 0 m.palette src3 = X
  have hX' : X = some (its4, pal', rest) := by rw [← hX]; exact h4
  subst hX'
  have e : ¬ (rest.length : Int) = (src1.length : Int) - (length : Int) := by omega
  simp [show ¬ 1 < minMID by omega, e]

/-- after an accepted chunk with identifier `mid`, only identifiers above `mid` are allowed -/
theorem ChunkOk.next_mid {m : Metadata} {minMID : Nat} {src : Bytes} {its : List Item}
    {m' : Metadata} {mm' : Nat} {rest : Bytes} (h : ChunkOk m minMID src its m' mm' rest) :
    ∃ length w src1 mid w2 src2, decodeNatural src = some (length, w, src1) ∧
      decodeNatural src1 = some (mid, w2, src2) ∧ minMID ≤ mid ∧ mid < 2 ∧ mm' = mid + 1 := by
  cases h with
  | viewBox h1 h2 hmin => exact ⟨_, _, _, 0, _, _, h1, h2, by omega, by omega, rfl⟩
  | palette h1 h2 hmin => exact ⟨_, _, _, 1, _, _, h1, h2, hmin, by omega, rfl⟩

/-- the declared chunk length is the number of bytes between the length field and the end of the
    chunk, whatever the declared length is -/
theorem ChunkOk.length_consistent {m : Metadata} {minMID : Nat} {src : Bytes} {its : List Item}
    {m' : Metadata} {mm' : Nat} {rest : Bytes} (h : ChunkOk m minMID src its m' mm' rest) :
    ∃ length w src1 body, decodeNatural src = some (length, w, src1) ∧ src1 = body ++ rest ∧
      body.length = length := by
  cases h with
  | viewBox h1 h2 hmin h4 q1 q2 q3 q4 q5 q6 hlen =>
    obtain ⟨p2, _, rfl⟩ := decodeNatural_split h2
    obtain ⟨p3, rfl, _⟩ := decodeCoordinates_some 4 h4
    exact ⟨_, _, _, p2 ++ p3, h1, by simp, by simp at hlen ⊢; omega⟩
  | @palette length w src1 w2 hb src3 its4 pal' _ h1 h2 hmin h4 hlen =>
    obtain ⟨p2, _, h2'⟩ := decodeNatural_split h2
    have := and63_le hb
    obtain ⟨p3, cols, rfl, _⟩ := decodePaletteColors_some (palDec_colDec _) _ 0 _ (by omega) h4
    refine ⟨_, _, _, p2 ++ hb :: p3, h1, by rw [h2']; simp, ?_⟩
    rw [h2'] at hlen
    simp at hlen ⊢; omega

/-! ## float order -/

theorem notNaN_of_finite {a : F32} (h : isNaNOrInfinity a = false) : Num.isNaN .f32 a.nb = false := by
  unfold isNaNOrInfinity at h
  simp only [beq_eq_false_iff_ne, ne_eq] at h
  have hb : a.bits.toNat < 4294967296 := a.bits.toNat_lt
  have e1 : Fmt.f32.signBit = 2147483648 := by decide
  have e2 : Fmt.f32.infBits = 2139095040 := by decide
  simp only [Num.isNaN, e1, e2, F32.nb, decide_eq_false_iff_not]
  omega

theorem toOrd_some {b : Nat} (h : Num.isNaN .f32 b = false) : ∃ x, Num.toOrd .f32 b = some x := by
  unfold Num.toOrd
  rw [h]
  simp only [Bool.false_eq_true, if_false]
  split <;> exact ⟨_, rfl⟩

/-- for finite numbers, "not `c < a`" is `a ≤ c` in the IEEE order -/
theorem le_of_not_lt {a c : F32} (ha : isNaNOrInfinity a = false) (hc : isNaNOrInfinity c = false)
    (h : ¬ c < a) : a ≤ c := by
  obtain ⟨x, hx⟩ := toOrd_some (notNaN_of_finite ha)
  obtain ⟨y, hy⟩ := toOrd_some (notNaN_of_finite hc)
  show F32.le a c = true
  have h' : ¬ F32.lt c a = true := h
  unfold F32.lt Num.lt at h'
  unfold F32.le Num.le
  rw [hx, hy] at h'
  rw [hx, hy]
  simp only [decide_eq_true_eq] at h' ⊢
  omega

end Ivg.DecL
