import Ivg.Lemmas.Pow2F32b
/-!
# C16 (b) at float32, stage 4: a whole path re-expressed at another power-of-two scale

`ScaledF n z z'` — the float analogue of `ScaleQ.Scaled k z z'` for `k = 2^n`; `scaleCallF n` multiplies the
viewBox of `Reset` and every coordinate operand by `2^n` (`scale2 n`); `SafeCall n z c` is a DECIDABLE predicate on
the intermediate values of the step `c` from state `z` (no operand, sum, product, extent or quotient is subnormal
or leaves the normal range, before or after the scaling); `SafeRun` collects it along the run of the ORIGINAL
program.  Under it, the scaled program makes IDENTICAL rasteriser calls, bit for bit (`pow2_scaling_f32`).

Scope: `Reset`, all styling calls (with the SAME operands: number registers are not re-expressed, so paths must
select flat colours — `FlatSel`), `StartPath`, `ClosePathEndPath` and the sixteen line / curve verbs, absolute
and relative, smooth curves included.  Arcs are EXCLUDED (`SafeCall` is `False` for them): `AbsArcTo` goes through
float64 trigonometry and a viewBox-space → pixel-space conversion that is not analysed here.
-/
namespace Ivg.Pow2F32
open Ivg Num Ren FloatOrder32 FloatMono32 FloatSpecial32
open Ivg.Lemmas.RendererVM
set_option linter.unusedSimpArgs false
set_option linter.constructorNameAsVariable false
set_option linter.unusedVariables false

/-! ## the relation between the two Renderers, the scaled call -/

/-- `z'` is `z` re-expressed at scale `2^n` -/
def ScaledF (n : Int) (z z' : Renderer F32 F64) : Prop := z' = scF n z

/-- `ScaledF`, field by field: same rectangle, pen, sub-path start, smooth point, registers, selectors, palette,
    LOD, flags and paint; viewBox edges `· 2^n`, scale `/ 2^n`, bias `· 2^n` -/
theorem scaledF_iff (n : Int) (z z' : Renderer F32 F64) :
    ScaledF n z z' ↔
      (z'.r = z.r ∧ z'.viewBox = scaleVBF n z.viewBox ∧
       z'.scaleX = scale2 (-n) z.scaleX ∧ z'.biasX = scale2 n z.biasX ∧
       z'.scaleY = scale2 (-n) z.scaleY ∧ z'.biasY = scale2 n z.biasY ∧
       z'.palette = z.palette ∧ z'.lod0 = z.lod0 ∧ z'.lod1 = z.lod1 ∧ z'.cSel = z.cSel ∧ z'.nSel = z.nSel ∧
       z'.disabled = z.disabled ∧ z'.prevSmoothType = z.prevSmoothType ∧ z'.prevSmoothX = z.prevSmoothX ∧
       z'.prevSmoothY = z.prevSmoothY ∧ z'.fill = z.fill ∧ z'.cReg = z.cReg ∧ z'.nReg = z.nReg ∧
       z'.penX = z.penX ∧ z'.penY = z.penY ∧ z'.firstX = z.firstX ∧ z'.firstY = z.firstY) := by
  rcases z with ⟨r, sx, bx, sy, by_, vb, pal, l0, l1, cs, ns, dis, pst, psx, psy, fill, cr, nr, px, py, fx, fy⟩
  rcases z' with ⟨r', sx', bx', sy', by', vb', pal', l0', l1', cs', ns', dis', pst', psx', psy', fill', cr', nr', px', py', fx', fy'⟩
  simp only [ScaledF, scF, Renderer.mk.injEq]
  constructor
  · rintro ⟨h1, h2, h3, h4, h5, h6, h7, h8, h9, h10, h11, h12, h13, h14, h15, h16, h17, h18, h19, h20, h21, h22⟩
    exact ⟨h1, h6, h2, h3, h4, h5, h7, h8, h9, h10, h11, h12, h13, h14, h15, h16, h17, h18, h19, h20, h21, h22⟩
  · rintro ⟨h1, h6, h2, h3, h4, h5, h7, h8, h9, h10, h11, h12, h13, h14, h15, h16, h17, h18, h19, h20, h21, h22⟩
    exact ⟨h1, h2, h3, h4, h5, h6, h7, h8, h9, h10, h11, h12, h13, h14, h15, h16, h17, h18, h19, h20, h21, h22⟩

/-- the call with the viewBox of `Reset` and every coordinate operand (absolute or relative; arc radii and end
    point, not the rotation and flags) multiplied by `2^n`; styling calls are left alone -/
def scaleCallF (n : Int) : Call F32 → Call F32
  | .reset vb pal => .reset (scaleVBF n vb) pal
  | .startPath adj x y => .startPath adj (scale2 n x) (scale2 n y)
  | .d1 v x => .d1 v (scale2 n x)
  | .d2 v x y => .d2 v (scale2 n x) (scale2 n y)
  | .d4 v x1 y1 x y => .d4 v (scale2 n x1) (scale2 n y1) (scale2 n x) (scale2 n y)
  | .d6 v x1 y1 x2 y2 x y => .d6 v (scale2 n x1) (scale2 n y1) (scale2 n x2) (scale2 n y2) (scale2 n x) (scale2 n y)
  | .arc rel rx ry rot la sw x y => .arc rel (scale2 n rx) (scale2 n ry) rot la sw (scale2 n x) (scale2 n y)
  | c => c

/-! ## the safety predicate of one call -/

def Verb2.rel : Verb2 → Bool
  | .L | .T | .Y => false
  | .l | .t | .y => true
def Verb4.rel : Verb4 → Bool
  | .Q | .S => false
  | .q | .s => true
def Verb6.rel : Verb6 → Bool
  | .C => false
  | .c => true

/-- one point: relative (`scale · x`) or absolute (`scale · (x + bias)`), both axes -/
def PtSafe (n : Int) (z : Renderer F32 F64) (rel : Bool) (x y : F32) : Prop :=
  if rel then RelSafe n z.scaleX x ∧ RelSafe n z.scaleY y
  else AbsSafe n z.scaleX z.biasX x ∧ AbsSafe n z.scaleY z.biasY y
instance (n : Int) (z : Renderer F32 F64) (rel : Bool) (x y : F32) : Decidable (PtSafe n z rel x y) := by
  unfold PtSafe; infer_instance

/-- the one coordinate of `H h V v` -/
def Safe1 (n : Int) (z : Renderer F32 F64) : Verb1 → F32 → Prop
  | .H, x => AbsSafe n z.scaleX z.biasX x
  | .h, x => RelSafe n z.scaleX x
  | .V, y => AbsSafe n z.scaleY z.biasY y
  | .v, y => RelSafe n z.scaleY y
instance (n : Int) (z : Renderer F32 F64) (v : Verb1) (x : F32) : Decidable (Safe1 n z v x) := by
  cases v <;> simp only [Safe1] <;> infer_instance

/-- the colour register a `StartPath` selects holds a flat colour or no paint at all (not a gradient value) -/
def FlatSel (z : Renderer F32 F64) (adj : UInt8) : Prop :=
  (z.cReg.get6 (z.cSel - adj)).validPremul = true ∨ (z.cReg.get6 (z.cSel - adj)).validGradient = false
instance (z : Renderer F32 F64) (adj : UInt8) : Decidable (FlatSel z adj) := by unfold FlatSel; infer_instance

/-- **`SafeCall n z c`**: the intermediate values of the step `c` from `z` are safe for the scaling by `2^n`.
    Nothing is required of a drawing call made while the path is disabled (nothing is computed), of
    `ClosePathEndPath`, nor of the styling calls; arcs are excluded. -/
def SafeCall (n : Int) (z : Renderer F32 F64) : Call F32 → Prop
  | .reset vb _ => TransformSafe n z.r vb
  | .startPath adj x y => FlatSel z adj ∧ ((choose z adj).2 = true ∨ ¬ lodOK z ∨ PtSafe n z false x y)
  | .d1 v x => z.disabled = true ∨ Safe1 n z v x
  | .d2 v x y => z.disabled = true ∨ PtSafe n z (Verb2.rel v) x y
  | .d4 v x1 y1 x y => z.disabled = true ∨ (PtSafe n z (Verb4.rel v) x1 y1 ∧ PtSafe n z (Verb4.rel v) x y)
  | .d6 v x1 y1 x2 y2 x y => z.disabled = true ∨
      (PtSafe n z (Verb6.rel v) x1 y1 ∧ PtSafe n z (Verb6.rel v) x2 y2 ∧ PtSafe n z (Verb6.rel v) x y)
  | .arc .. => False
  | _ => True
instance (n : Int) (z : Renderer F32 F64) (c : Call F32) : Decidable (SafeCall n z c) := by
  cases c <;> simp only [SafeCall] <;> infer_instance

/-! ## coordinates, in the notation the Renderer uses -/

theorem abs_core (n : Int) (s b x : F32) (h : AbsSafe n s b x) :
    scale2 (-n) s * (scale2 n x + scale2 n b) = s * (x + b) := abs_scale2 n s b x h
theorem rel_core (n : Int) (s x : F32) (h : RelSafe n s x) :
    scale2 (-n) s * scale2 n x = s * x := rel_scale2 n s x h

/-! ## one call -/

theorem step_d1 (n : Int) (arc : ArcFn F32 F64) (posInf : F32) (z : Renderer F32 F64) (v : Verb1) (x : F32)
    (h : SafeCall n z (.d1 v x)) :
    (scF n z).step arc posInf (scaleCallF n (.d1 v x)) =
      (scF n (z.step arc posInf (.d1 v x)).1, (z.step arc posInf (.d1 v x)).2) := by
  by_cases hd : z.disabled = true
  · cases v <;> simp only [scaleCallF, Renderer.step, scF, hd, if_true]
  · have h := (show z.disabled = true ∨ Safe1 n z v x from h).resolve_left hd
    cases v <;> simp only [Safe1] at h <;>
    first
    | simp only [scaleCallF, Renderer.step, scF, hd, Bool.false_eq_true, if_false, Renderer.lineTo, Renderer.absX,
        Renderer.absY, Renderer.relX, Renderer.relY, abs_core n _ _ _ h]
    | simp only [scaleCallF, Renderer.step, scF, hd, Bool.false_eq_true, if_false, Renderer.lineTo, Renderer.absX,
        Renderer.absY, Renderer.relX, Renderer.relY, rel_core n _ _ h]

theorem step_d2 (n : Int) (arc : ArcFn F32 F64) (posInf : F32) (z : Renderer F32 F64) (v : Verb2) (x y : F32)
    (h : SafeCall n z (.d2 v x y)) :
    (scF n z).step arc posInf (scaleCallF n (.d2 v x y)) =
      (scF n (z.step arc posInf (.d2 v x y)).1, (z.step arc posInf (.d2 v x y)).2) := by
  by_cases hd : z.disabled = true
  · cases v <;> simp only [scaleCallF, Renderer.step, scF, hd, if_true]
  · have h := (show z.disabled = true ∨ PtSafe n z (Verb2.rel v) x y from h).resolve_left hd
    cases v <;> simp only [PtSafe, Verb2.rel, if_true, if_false, Bool.false_eq_true] at h <;>
    obtain ⟨h1, h2⟩ := h <;>
    first
    | simp only [scaleCallF, Renderer.step, scF, hd, Bool.false_eq_true, if_false, Renderer.lineTo, Renderer.quadTo,
        Renderer.closePath, Renderer.moveTo, Renderer.setSmooth, Renderer.implicitSmoothPoint, Renderer.relVecX,
        Renderer.relVecY, Renderer.absX, Renderer.absY, Renderer.relX, Renderer.relY,
        abs_core n _ _ _ h1, abs_core n _ _ _ h2]
    | simp only [scaleCallF, Renderer.step, scF, hd, Bool.false_eq_true, if_false, Renderer.lineTo, Renderer.quadTo,
        Renderer.closePath, Renderer.moveTo, Renderer.setSmooth, Renderer.implicitSmoothPoint, Renderer.relVecX,
        Renderer.relVecY, Renderer.absX, Renderer.absY, Renderer.relX, Renderer.relY,
        rel_core n _ _ h1, rel_core n _ _ h2]

theorem step_d4 (n : Int) (arc : ArcFn F32 F64) (posInf : F32) (z : Renderer F32 F64) (v : Verb4)
    (x1 y1 x y : F32) (h : SafeCall n z (.d4 v x1 y1 x y)) :
    (scF n z).step arc posInf (scaleCallF n (.d4 v x1 y1 x y)) =
      (scF n (z.step arc posInf (.d4 v x1 y1 x y)).1, (z.step arc posInf (.d4 v x1 y1 x y)).2) := by
  by_cases hd : z.disabled = true
  · cases v <;> simp only [scaleCallF, Renderer.step, scF, hd, if_true]
  · have h := (show z.disabled = true ∨ (PtSafe n z (Verb4.rel v) x1 y1 ∧ PtSafe n z (Verb4.rel v) x y)
      from h).resolve_left hd
    cases v <;> simp only [PtSafe, Verb4.rel, if_true, if_false, Bool.false_eq_true] at h <;>
    obtain ⟨⟨h1, h2⟩, h3, h4⟩ := h <;>
    first
    | simp only [scaleCallF, Renderer.step, scF, hd, Bool.false_eq_true, if_false, Renderer.lineTo, Renderer.quadTo,
        Renderer.cubeTo, Renderer.closePath, Renderer.moveTo, Renderer.setSmooth, Renderer.implicitSmoothPoint,
        Renderer.relVecX, Renderer.relVecY, Renderer.absX, Renderer.absY, Renderer.relX, Renderer.relY,
        abs_core n _ _ _ h1, abs_core n _ _ _ h2, abs_core n _ _ _ h3, abs_core n _ _ _ h4]
    | simp only [scaleCallF, Renderer.step, scF, hd, Bool.false_eq_true, if_false, Renderer.lineTo, Renderer.quadTo,
        Renderer.cubeTo, Renderer.closePath, Renderer.moveTo, Renderer.setSmooth, Renderer.implicitSmoothPoint,
        Renderer.relVecX, Renderer.relVecY, Renderer.absX, Renderer.absY, Renderer.relX, Renderer.relY,
        rel_core n _ _ h1, rel_core n _ _ h2, rel_core n _ _ h3, rel_core n _ _ h4]

theorem step_d6 (n : Int) (arc : ArcFn F32 F64) (posInf : F32) (z : Renderer F32 F64) (v : Verb6)
    (x1 y1 x2 y2 x y : F32) (h : SafeCall n z (.d6 v x1 y1 x2 y2 x y)) :
    (scF n z).step arc posInf (scaleCallF n (.d6 v x1 y1 x2 y2 x y)) =
      (scF n (z.step arc posInf (.d6 v x1 y1 x2 y2 x y)).1, (z.step arc posInf (.d6 v x1 y1 x2 y2 x y)).2) := by
  by_cases hd : z.disabled = true
  · cases v <;> simp only [scaleCallF, Renderer.step, scF, hd, if_true]
  · have h := (show z.disabled = true ∨ (PtSafe n z (Verb6.rel v) x1 y1 ∧ PtSafe n z (Verb6.rel v) x2 y2 ∧
      PtSafe n z (Verb6.rel v) x y) from h).resolve_left hd
    cases v <;> simp only [PtSafe, Verb6.rel, if_true, if_false, Bool.false_eq_true] at h <;>
    obtain ⟨⟨h1, h2⟩, ⟨h3, h4⟩, h5, h6⟩ := h <;>
    first
    | simp only [scaleCallF, Renderer.step, scF, hd, Bool.false_eq_true, if_false, Renderer.cubeTo, Renderer.setSmooth,
        Renderer.relVecX, Renderer.relVecY, Renderer.absX, Renderer.absY, Renderer.relX, Renderer.relY,
        abs_core n _ _ _ h1, abs_core n _ _ _ h2, abs_core n _ _ _ h3, abs_core n _ _ _ h4,
        abs_core n _ _ _ h5, abs_core n _ _ _ h6]
    | simp only [scaleCallF, Renderer.step, scF, hd, Bool.false_eq_true, if_false, Renderer.cubeTo, Renderer.setSmooth,
        Renderer.relVecX, Renderer.relVecY, Renderer.absX, Renderer.absY, Renderer.relX, Renderer.relY,
        rel_core n _ _ h1, rel_core n _ _ h2, rel_core n _ _ h3, rel_core n _ _ h4,
        rel_core n _ _ h5, rel_core n _ _ h6]

theorem step_closeEnd (n : Int) (arc : ArcFn F32 F64) (posInf : F32) (z : Renderer F32 F64) :
    (scF n z).step arc posInf (scaleCallF n .closeEnd) =
      (scF n (z.step arc posInf .closeEnd).1, (z.step arc posInf .closeEnd).2) := by
  by_cases hd : z.disabled = true
  · simp only [scaleCallF, Renderer.step, scF, hd, if_true]
  · simp only [scaleCallF, Renderer.step, scF, hd, Bool.false_eq_true, if_false, Renderer.closePath]

/-- the transform after `Reset` with the scaled viewBox, from the re-expressed state -/
theorem step_reset (n : Int) (arc : ArcFn F32 F64) (posInf : F32) (z : Renderer F32 F64) (vb : ViewBox F32)
    (pal : Palette) (h : TransformSafe n z.r vb) :
    (scF n z).step arc posInf (scaleCallF n (.reset vb pal)) = (scF n (z.reset posInf vb pal), []) := by
  obtain ⟨hx, hy⟩ := h
  have ex := scale_scale2 n z.r.dx vb.minX vb.maxX hx
  have ey := scale_scale2 n z.r.dy vb.minY vb.maxY hy
  have hbx := neg_scale2 n vb.minX
  have hby := neg_scale2 n vb.minY
  rcases z with ⟨r, sx, bx, sy, by_, vb0, pal0, l0, l1, cs, ns, dis, pst, psx, psy, fill, cr, nr, px, py, fx, fy⟩
  simp only [scaleCallF, Renderer.step, Renderer.reset, Renderer.recalcTransform, scF, scaleVBF, Prod.mk.injEq,
    Renderer.mk.injEq, true_and, and_true]
  exact ⟨ex, hbx, ey, hby⟩

/-- … and from the SAME state (a whole graphic starts with `Reset`, whatever the Renderer did before) -/
theorem reset_same (n : Int) (posInf : F32) (z : Renderer F32 F64) (vb : ViewBox F32) (pal : Palette)
    (h : TransformSafe n z.r vb) :
    z.reset posInf (scaleVBF n vb) pal = scF n (z.reset posInf vb pal) := by
  obtain ⟨hx, hy⟩ := h
  have ex := scale_scale2 n z.r.dx vb.minX vb.maxX hx
  have ey := scale_scale2 n z.r.dy vb.minY vb.maxY hy
  have hbx := neg_scale2 n vb.minX
  have hby := neg_scale2 n vb.minY
  rcases z with ⟨r, sx, bx, sy, by_, vb0, pal0, l0, l1, cs, ns, dis, pst, psx, psy, fill, cr, nr, px, py, fx, fy⟩
  simp only [Renderer.reset, Renderer.recalcTransform, scF, scaleVBF, Renderer.mk.injEq, true_and, and_true]
  exact ⟨ex, hbx, ey, hby⟩

theorem choose_scF (n : Int) (z : Renderer F32 F64) (adj : UInt8) (hf : FlatSel z adj) :
    choose (scF n z) adj = choose z adj := by
  have e1 : (scF n z).cReg = z.cReg := rfl
  have e2 : (scF n z).cSel = z.cSel := rfl
  have e3 : (scF n z).fill = z.fill := rfl
  unfold choose
  simp only [e1, e2, e3]
  rcases hf with hp | hv
  · simp only [hp, if_true]
  · by_cases hp : (z.cReg.get6 (z.cSel - adj)).validPremul = true
    · simp only [hp, if_true]
    · simp only [hp, hv, Bool.false_eq_true, if_false]

theorem step_startPath (n : Int) (arc : ArcFn F32 F64) (posInf : F32) (z : Renderer F32 F64) (adj : UInt8)
    (x y : F32) (h : SafeCall n z (.startPath adj x y)) :
    (scF n z).step arc posInf (scaleCallF n (.startPath adj x y)) =
      (scF n (z.step arc posInf (.startPath adj x y)).1, (z.step arc posInf (.startPath adj x y)).2) := by
  obtain ⟨hf, hs⟩ : FlatSel z adj ∧ ((choose z adj).2 = true ∨ ¬ lodOK z ∨ PtSafe n z false x y) := h
  show (scF n z).startPath adj (scale2 n x) (scale2 n y) = (scF n (z.startPath adj x y).1, (z.startPath adj x y).2)
  rw [startPath_eq, startPath_eq z, choose_scF n z adj hf]
  by_cases hc : (choose z adj).2 = true ∨ ¬ lodOK z
  · have hc' : (choose z adj).2 = true ∨ ¬ lodOK (scF n z) := hc
    rw [if_pos hc, if_pos hc']
    rfl
  · have hc' : ¬ ((choose z adj).2 = true ∨ ¬ lodOK (scF n z)) := hc
    rw [if_neg hc, if_neg hc']
    have hs' : PtSafe n z false x y := by
      rcases hs with hs | hs | hs
      · exact absurd (Or.inl hs) hc
      · exact absurd (Or.inr hs) hc
      · exact hs
    simp only [PtSafe, Bool.false_eq_true, if_false] at hs'
    obtain ⟨h1, h2⟩ := hs'
    simp only [Renderer.absX, Renderer.absY, scF, abs_core n _ _ _ h1, abs_core n _ _ _ h2]

/-- **`step_scF`, equational form**: for every call `c` that is safe from `z`, the re-expressed state takes the
    scaled call to the re-expressed successor state and makes IDENTICAL rasteriser calls -/
theorem step_scF (n : Int) (arc : ArcFn F32 F64) (posInf : F32) (z : Renderer F32 F64) (c : Call F32)
    (h : SafeCall n z c) :
    (scF n z).step arc posInf (scaleCallF n c) = (scF n (z.step arc posInf c).1, (z.step arc posInf c).2) := by
  cases c with
  | reset vb pal => exact step_reset n arc posInf z vb pal h
  | setNReg adj incr f => cases incr <;> rfl
  | setCSel v => rfl
  | setNSel v => rfl
  | setLOD a b => rfl
  | setCReg adj incr col => cases incr <;> rfl
  | startPath adj x y => exact step_startPath n arc posInf z adj x y h
  | closeEnd => exact step_closeEnd n arc posInf z
  | d1 v x => exact step_d1 n arc posInf z v x h
  | d2 v x y => exact step_d2 n arc posInf z v x y h
  | d4 v a b x y => exact step_d4 n arc posInf z v a b x y h
  | d6 v a b c d x y => exact step_d6 n arc posInf z v a b c d x y h
  | arc rel rx ry rot la sw x y => exact absurd h (by simp only [SafeCall, not_false_eq_true])

/-- **`step_scaledF`**: from states related by `ScaledF n`, a safe call `c` and its scaled form `scaleCallF n c`
    make IDENTICAL rasteriser calls and lead to related states -/
theorem step_scaledF (n : Int) (arc : ArcFn F32 F64) (posInf : F32) (z z' : Renderer F32 F64) (hz : ScaledF n z z')
    (c : Call F32) (h : SafeCall n z c) :
    (z'.step arc posInf (scaleCallF n c)).2 = (z.step arc posInf c).2 ∧
    ScaledF n (z.step arc posInf c).1 (z'.step arc posInf (scaleCallF n c)).1 := by
  unfold ScaledF at hz; subst hz
  rw [step_scF n arc posInf z c h]
  exact ⟨rfl, rfl⟩

/-! ## programs -/

/-- `SafeCall` along the run of the ORIGINAL program from `z` -/
def SafeRun (n : Int) (arc : ArcFn F32 F64) (posInf : F32) : Renderer F32 F64 → List (Call F32) → Prop
  | _, [] => True
  | z, c :: cs => SafeCall n z c ∧ SafeRun n arc posInf (z.step arc posInf c).1 cs

instance SafeRun.dec (n : Int) (arc : ArcFn F32 F64) (posInf : F32) :
    ∀ (z : Renderer F32 F64) (cs : List (Call F32)), Decidable (SafeRun n arc posInf z cs)
  | _, [] => isTrue trivial
  | z, c :: cs =>
    have := SafeRun.dec n arc posInf (z.step arc posInf c).1 cs
    inferInstanceAs (Decidable (SafeCall n z c ∧ SafeRun n arc posInf (z.step arc posInf c).1 cs))

theorem run_scF (n : Int) (arc : ArcFn F32 F64) (posInf : F32) (cs : List (Call F32)) :
    ∀ z : Renderer F32 F64, SafeRun n arc posInf z cs →
      (scF n z).run arc posInf (cs.map (scaleCallF n)) = (scF n (z.run arc posInf cs).1, (z.run arc posInf cs).2) := by
  induction cs with
  | nil => intro z _; rfl
  | cons c cs ih =>
    intro z h
    obtain ⟨h1, h2⟩ := h
    rw [List.map_cons, run_cons, run_cons, step_scF n arc posInf z c h1, ih _ h2]

/-- **`pow2_scaling_f32`.**  From states related by `ScaledF n`, a program `cs` that is safe along its run and the
    program with every call scaled by `2^n` make IDENTICAL rasteriser calls — the same `Reset(w, h)`, bit-identical
    float32 path coordinates, the same `Draw`s with the same paints — and end in related states. -/
theorem pow2_scaling_f32 (n : Int) (arc : ArcFn F32 F64) (posInf : F32) (z z' : Renderer F32 F64)
    (hz : ScaledF n z z') (cs : List (Call F32)) (h : SafeRun n arc posInf z cs) :
    (z'.run arc posInf (cs.map (scaleCallF n))).2 = (z.run arc posInf cs).2 ∧
    ScaledF n (z.run arc posInf cs).1 (z'.run arc posInf (cs.map (scaleCallF n))).1 := by
  unfold ScaledF at hz; subst hz
  rw [run_scF n arc posInf cs z h]
  exact ⟨rfl, rfl⟩

/-- **`pow2_scaling_f32_program`.**  A whole graphic `Reset vb pal :: body` delivered to a Renderer in ANY state
    `z0` (any rectangle, any earlier history), and the same graphic with the viewBox and every coordinate
    multiplied by `2^n`, make IDENTICAL rasteriser calls, provided the run of the original is safe. -/
theorem pow2_scaling_f32_program (n : Int) (arc : ArcFn F32 F64) (posInf : F32) (z0 : Renderer F32 F64)
    (vb : ViewBox F32) (pal : Palette) (body : List (Call F32))
    (h : SafeRun n arc posInf z0 (.reset vb pal :: body)) :
    (z0.run arc posInf ((Call.reset vb pal :: body).map (scaleCallF n))).2 =
      (z0.run arc posInf (.reset vb pal :: body)).2 := by
  obtain ⟨h1, h2⟩ := h
  have e1 : z0.step arc posInf (.reset (scaleVBF n vb) pal) = (z0.reset posInf (scaleVBF n vb) pal, []) := rfl
  have e2 : z0.step arc posInf (.reset vb pal) = (z0.reset posInf vb pal, []) := rfl
  have e3 : scaleCallF n (.reset vb pal) = .reset (scaleVBF n vb) pal := rfl
  rw [e2] at h2
  rw [List.map_cons, e3, run_cons, run_cons, e1, e2, reset_same n posInf z0 vb pal h1,
    run_scF n arc posInf body _ h2]

/-! ## a concrete instance: viewBox (−32, −32, 32, 32) re-expressed as (−64, −64, 64, 64), 48 × 48 pixels -/
namespace Ex
open Ivg.Lemmas.RendererVM.Ex (posInf)

/-- integers as float32 -/
def i (k : Int) : F32 := F32.ofInt k

/-- a Renderer in the state left by an EARLIER graphic: pointed at a 48 × 48 rectangle at offset (10, 20), reset
    with the default viewBox -/
def z0 : Renderer F32 F64 :=
  ((Renderer.zero (α := F32) (β := F64)).setRasterizer ⟨10, 20, 58, 68⟩).reset posInf defaultViewBox defaultPalette

/-- a graphic over viewBox (−32, −32, 32, 32): a path that starts on the left edge (`x + bias = 0`), with absolute
    and relative lines (1.5, −7.25, zero offsets), a relative and a smooth quadratic, absolute and relative cubics
    (one smooth), close-and-move both ways; a second path selected through another colour register -/
def prog : List (Call F32) :=
  [ .reset vb32 defaultPalette,
    .startPath 0 (i (-32)) (i 8), .d2 .L c1_5 cm7_25, .d1 .H c12_75, .d1 .v cm7_25, .d2 .l c3 (i 0),
    .d4 .q (i 1) (i 2) c3 (i 4), .d2 .T (i (-5)) c1_5, .d2 .t c1_5 c1_5,
    .d6 .C (i 1) (i 1) (i 2) cm7_25 c3 (i 0), .d4 .S (i 4) (i 4) (i 10) (i (-10)), .d4 .s c1_5 c1_5 c3 c3,
    .d6 .c (i 1) (i (-1)) (i 2) (i 2) c3 (i 0), .d2 .Y (i 20) (i 20), .d1 .h cm7_25, .d1 .V (i 31),
    .d2 .y c1_5 c3, .d4 .Q c1_5 (i 30) (i (-30)) (i 30), .closeEnd,
    .setCSel 3, .setCReg 0 false (Color.rgbaColor ⟨0x40, 0, 0, 0x80⟩), .setLOD (i 16) (i 100),
    .startPath 0 c1_5 cm7_25, .d2 .L c12_75 c12_75, .d2 .l cm7_25 c1_5, .closeEnd ]

set_option maxRecDepth 100000 in
/-- the hypothesis of `pow2_scaling_f32_program` holds for `prog`, scaling by `2^1` (and by `2^(−3)`, `2^40`) -/
theorem prog_safe : SafeRun 1 arcF32 posInf z0 prog ∧ SafeRun (-3) arcF32 posInf z0 prog ∧
    SafeRun 40 arcF32 posInf z0 prog := by decide +kernel

set_option maxRecDepth 100000 in
/-- … and fails where it must: scaling by `2^125` overflows the viewBox extent (64 · 2^125 ≥ 2^128) -/
theorem prog_not_safe_125 : ¬ SafeRun 125 arcF32 posInf z0 prog := by decide +kernel

set_option maxRecDepth 100000 in
/-- the scaled graphic is the graphic over (−64, −64, 64, 64) with every coordinate doubled -/
theorem prog_scaled_shape : (prog.map (scaleCallF 1)).take 4 =
    [.reset vb64 defaultPalette, .startPath 0 (i (-64)) (i 16), .d2 .L c3 ⟨0xc1680000⟩, .d1 .H ⟨0x41cc0000⟩] := by
  decide +kernel

set_option maxRecDepth 100000 in
/-- both paths are drawn: 2 resets, 2 draws, 28 rasteriser calls in all -/
theorem prog_ops : ((z0.run arcF32 posInf prog).2.length,
    ((z0.run arcF32 posInf prog).2.filter fun o => match o with | .draw .. => true | _ => false).length) = (28, 2) := by
  decide +kernel

/-- the theorem applied: the two graphics make identical rasteriser calls -/
theorem prog_same : (z0.run arcF32 posInf (prog.map (scaleCallF 1))).2 = (z0.run arcF32 posInf prog).2 :=
  pow2_scaling_f32_program 1 arcF32 posInf z0 vb32 defaultPalette _ prog_safe.1

set_option maxRecDepth 100000 in
/-- one step from related states: `SafeCall` for a relative cubic from the state after the first `StartPath` -/
theorem step_safe : SafeCall 1 ((z0.run arcF32 posInf (prog.take 2)).1) (.d6 .c (i 1) (i (-1)) (i 2) (i 2) c3 (i 0)) := by
  decide +kernel
end Ex

end Ivg.Pow2F32
