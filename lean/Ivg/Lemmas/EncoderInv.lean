import Ivg.Lemmas.RoundTrip
/-!
# The Encoder invariant behind C01: what is already in `buf` decodes to the calls made so far

`Dc m src` is what the decoder's instruction loop delivers for `src` started in mode `m`.
The two facts about the loop this file needs (`DStep`: one instruction then the rest; `Dc_nil`)
are taken as hypotheses here and discharged in `Ivg/Props/C01.lean` from the decoder lemmas.
-/
namespace Ivg.EncoderInv
open Ivg Num Enc Dec Codec ColorCodec RoundTrip

/-- calls and error delivered by the instruction loop -/
def Dc (m : DMode) (src : Bytes) : List (Call F32) × Option DecErr :=
  (callsOf (loop (src.length + 1) m src).1, (loop (src.length + 1) m src).2)

/-- the loop fact: an instruction that leaves a shorter rest is followed by the loop on the rest -/
def DStep : Prop :=
  ∀ (m : DMode) (src : Bytes) (cs : List (Call F32)) (m' : DMode) (k : Bytes),
    Step m src cs m' k → k.length < src.length → Dc m src = (cs ++ (Dc m' k).1, (Dc m' k).2)


theorem len_lt_append (a k : Bytes) (h : a ≠ []) : k.length < (a ++ k).length := by
  cases a with
  | nil => exact absurd rfl h
  | cons x xs => simp; omega

/-- flushing a buffered run: the chunks decode to the quantised calls -/
theorem chunks_dec (hD : DStep) (hi : Bool) (d : DrawOp) (hz : d ≠ .Z) :
    ∀ (fuel : Nat) (cs : List (Call F32)) (k : Bytes), cs.length ≤ fuel →
      (∀ c ∈ cs, drawOpOf c = some d) →
      Dc .drawing (chunks hi d fuel (cs.map groupOf) ++ k) =
        (cs.map (Q hi) ++ (Dc .drawing k).1, (Dc .drawing k).2) := by
  intro fuel
  induction fuel with
  | zero =>
    intro cs k h _
    have : cs = [] := by cases cs <;> simp_all
    subst this; simp [chunks]
  | succ fuel ih =>
    intro cs k hlen hcs
    cases cs with
    | nil => simp [chunks]
    | cons c cs' =>
      simp only [chunks, List.map_cons]
      generalize hm : min ((groupOf c :: List.map groupOf cs').length) (opInfo d).maxRepCount = m
      have hmaxpos : 0 < (opInfo d).maxRepCount := by
        cases d with
        | v1 v => cases v <;> simp [opInfo]
        | v2 v => cases v <;> simp [opInfo]
        | v4 v => cases v <;> simp [opInfo]
        | v6 v => cases v <;> simp [opInfo]
        | _ => simp [opInfo]
      have hmpos : 0 < m := by rw [← hm]; simp; omega
      have hmle : m ≤ (c :: cs').length := by rw [← hm]; simp; omega
      have hmmax : m ≤ (opInfo d).maxRepCount := by rw [← hm]; omega
      -- the groups of this chunk are those of the first m calls
      have htake : (groupOf c :: List.map groupOf cs').take m = ((c :: cs').take m).map groupOf := by
        rw [← List.map_cons, List.map_take]
      have hdrop : (groupOf c :: List.map groupOf cs').drop m = ((c :: cs').drop m).map groupOf := by
        rw [← List.map_cons, List.map_drop]
      rw [htake, hdrop]
      have htl : ((c :: cs').take m).length = m := by rw [List.length_take]; omega
      have hcs1 : ∀ c' ∈ (c :: cs').take m, drawOpOf c' = some d := fun c' h => hcs c' (List.mem_of_mem_take h)
      have hcs2 : ∀ c' ∈ (c :: cs').drop m, drawOpOf c' = some d := fun c' h => hcs c' (List.mem_of_mem_drop h)
      have hrest : ((c :: cs').drop m).length ≤ fuel := by rw [List.length_drop]; simp at hlen ⊢; omega
      have hstep : Step .drawing
          ([(opInfo d).opcodeBase + UInt8.ofNat m - 1] ++ encRun hi d ((c :: cs').take m) ++
            (chunks hi d fuel (((c :: cs').drop m).map groupOf) ++ k))
          (((c :: cs').take m).map (Q hi)) .drawing
          (chunks hi d fuel (((c :: cs').drop m).map groupOf) ++ k) := by
        cases hr : repOf d with
        | some r =>
          have := step_chunk hi d r hr ((c :: cs').take m) hcs1 (by omega) (by omega)
            (chunks hi d fuel (((c :: cs').drop m).map groupOf) ++ k)
          rw [htl] at this; exact this
        | none =>
          -- maxRepCount = 1: a single call
          have hmax1 : (opInfo d).maxRepCount = 1 := by
            cases d with
            | v1 v => cases v <;> simp [opInfo]
            | v2 v => cases v <;> simp_all [repOf, opInfo]
            | v4 v => cases v <;> simp_all [repOf, opInfo]
            | v6 v => cases v <;> simp_all [repOf, opInfo]
            | _ => simp_all [repOf, opInfo]
          have hm1 : m = 1 := by omega
          subst hm1
          have ht : (c :: cs').take 1 = [c] := by simp
          rw [ht]
          have := step_single hi c d (hcs c (by simp)) hr hz
            (chunks hi d fuel (((c :: cs').drop 1).map groupOf) ++ k)
          simpa [encRun] using this
      have hne : ([(opInfo d).opcodeBase + UInt8.ofNat m - 1] ++ encRun hi d ((c :: cs').take m)) ≠ [] := by simp
      have := hD _ _ _ _ _ hstep (by
        have := len_lt_append _ (chunks hi d fuel (((c :: cs').drop m).map groupOf) ++ k) hne
        simpa [List.append_assoc] using this)
      have hbytes : [(opInfo d).opcodeBase + UInt8.ofNat m - 1] ++
          List.flatMap (encGroup hi d) (List.map groupOf (List.take m (c :: cs'))) ++
          chunks hi d fuel (List.map groupOf (List.drop m (c :: cs'))) ++ k =
          [(opInfo d).opcodeBase + UInt8.ofNat m - 1] ++ encRun hi d ((c :: cs').take m) ++
            (chunks hi d fuel (((c :: cs').drop m).map groupOf) ++ k) := by
        simp [encRun, List.append_assoc]
      rw [hbytes, this, ih _ k hrest hcs2]
      simp only [← List.append_assoc, ← List.map_append, List.take_append_drop]
      simp

/-! ## protocol-respecting programs -/

/-- a call is acceptable in styling mode / drawing mode -/
def StylingOK : Call F32 → Prop
  | .setCSel _ | .setNSel _ | .setLOD _ _ => True
  | .setCReg adj incr c => adj.toNat ≤ 6 ∧ (incr = true → adj = 0) ∧ c.WF
  | .setNReg adj incr _ => adj.toNat ≤ 6 ∧ (incr = true → adj = 0)
  | _ => False

def IsDrawing (c : Call F32) : Prop := ∃ d, drawOpOf c = some d ∧ d ≠ .Z

/-- `Proto inPath p endPath`: `p` obeys the styling/drawing protocol from mode `inPath`, contains no
    Reset, and ends in mode `endPath` -/
def Proto : Bool → List (Call F32) → Bool → Prop
  | inPath, [], endPath => inPath = endPath
  | false, c :: cs, endPath =>
    (StylingOK c ∧ Proto false cs endPath) ∨
      (∃ adj x y, c = .startPath adj x y ∧ adj.toNat ≤ 6 ∧ Proto true cs endPath)
  | true, c :: cs, endPath => (IsDrawing c ∧ Proto true cs endPath) ∨ (c = .closeEnd ∧ Proto false cs endPath)

/-- every path ended -/
def Closed (inPath : Bool) (p : List (Call F32)) : Prop := Proto inPath p false

def modeOf (inPath : Bool) : DMode := if inPath then .drawing else .styling

/-- the invariant: `done` are the calls made so far (after the header `hdr`) -/
structure Inv (hi : Bool) (hdr : Bytes) (e : Encoder) (done : List (Call F32)) (inPath : Bool) : Prop where
  noerr : e.err = none
  mode : e.mode = if inPath then Mode.drawing else Mode.styling
  hires : e.hiRes = hi
  hiresLocal : inPath = true → e.hiResLocal = hi
  idle : inPath = false → e.drawOp = none
  notZ : e.drawOp ≠ some .Z
  pend : ∃ (flushed pending : List (Call F32)) (body : Bytes),
    done = flushed ++ pending ∧ e.buf = hdr ++ body ∧ e.drawArgs = pending.map groupOf ∧
    (e.drawOp = none → pending = []) ∧
    (∀ d, e.drawOp = some d → ∀ c ∈ pending, drawOpOf c = some d) ∧
    ∀ k, Dc .styling (body ++ k) =
      (flushed.map (Q hi) ++ (Dc (modeOf inPath) k).1, (Dc (modeOf inPath) k).2)

/-- flushing moves the pending run into the flushed part -/
theorem inv_flush (hD : DStep) {hi hdr e done} (h : Inv hi hdr e done true) :
    Inv hi hdr e.flushDrawOps done true ∧ e.flushDrawOps.drawOp = none ∧ e.flushDrawOps.drawArgs = [] ∧
      e.flushDrawOps.mode = e.mode ∧ e.flushDrawOps.hiRes = e.hiRes ∧ e.flushDrawOps.hiResLocal = e.hiResLocal := by
  obtain ⟨noerr, mode, hires, hiresLocal, idle, notZ, flushed, pending, body, hdone, hbuf, hargs, hnone, hall, hdec⟩ := h
  cases hop : e.drawOp with
  | none =>
    have : e.flushDrawOps = e := by simp [Encoder.flushDrawOps, hop]
    rw [this]
    have hp := hnone hop
    subst hp
    exact ⟨⟨noerr, mode, hires, hiresLocal, idle, notZ, flushed, [], body, hdone, hbuf, hargs, hnone, hall, hdec⟩,
      hop, by simpa using hargs, rfl, rfl, rfl⟩
  | some d =>
    have hz : d ≠ .Z := by intro h; subst h; exact notZ hop
    have hn : (opInfo d).nArgs ≠ 0 := by
      cases d with
      | v1 v => cases v <;> simp [opInfo]
      | v2 v => cases v <;> simp [opInfo]
      | v4 v => cases v <;> simp [opInfo]
      | v6 v => cases v <;> simp [opInfo]
      | Z => exact absurd rfl hz
      | _ => simp [opInfo]
    have hfl : e.flushDrawOps = { e with buf := e.buf ++ chunks e.hiResLocal d e.drawArgs.length e.drawArgs,
                                          drawOp := none, drawArgs := [] } := by
      simp [Encoder.flushDrawOps, hop, hn]
    rw [hfl]
    have hl : e.hiResLocal = hi := hiresLocal rfl
    refine ⟨⟨noerr, mode, hires, hiresLocal, by simp, by simp, flushed ++ pending, [],
      body ++ chunks hi d e.drawArgs.length e.drawArgs, by simp [hdone], by simp [hbuf, hl, List.append_assoc], by simp,
      by simp, by simp, ?_⟩, rfl, rfl, rfl, rfl, rfl⟩
    intro k
    rw [List.append_assoc, hdec]
    have hm : modeOf true = DMode.drawing := rfl
    rw [hm, hargs, chunks_dec hD hi d hz _ pending k (by simp) (hall d hop)]
    simp [List.append_assoc]

/-- appending one instruction in styling mode -/
theorem inv_append_styling (hD : DStep) {hi hdr} {e : Encoder} {done} (h : Inv hi hdr e done false)
    (instr : Bytes) (hne : instr ≠ []) (c : Call F32) (m' : Bool)
    (hstep : ∀ k, Step .styling (instr ++ k) [Q hi c] (modeOf m') k)
    (e' : Encoder) (hbuf : e'.buf = e.buf ++ instr) (herr : e'.err = none)
    (hmode : e'.mode = if m' then Mode.drawing else Mode.styling) (hhi : e'.hiRes = hi)
    (hloc : m' = true → e'.hiResLocal = hi) (hop : e'.drawOp = none) (hargs : e'.drawArgs = []) :
    Inv hi hdr e' (done ++ [c]) m' := by
  obtain ⟨noerr, mode, hires, hiresLocal, idle, notZ, flushed, pending, body, hdone, hb, ha, hnone, hall, hdec⟩ := h
  have hp : pending = [] := hnone (idle rfl)
  subst hp
  refine ⟨herr, hmode, hhi, hloc, fun _ => hop, by simp [hop], flushed ++ [c], [], body ++ instr,
    by simp [hdone], by simp [hbuf, hb, List.append_assoc], by simp [hargs], by simp, by simp, ?_⟩
  intro k
  rw [List.append_assoc, hdec]
  have hm : modeOf false = DMode.styling := rfl
  rw [hm, hD _ _ _ _ _ (hstep k) (len_lt_append instr k hne)]
  simp [List.append_assoc]

theorem checkModeStyling_id {e : Encoder} (h : e.mode = .styling) : e.checkModeStyling = e := by
  simp [Encoder.checkModeStyling, h]

theorem not_gt6 {adj : UInt8} (h : adj.toNat ≤ 6) : ¬ adj > 6 := by
  intro hgt
  have := UInt8.lt_iff_toNat_lt.mp hgt
  simp at this; omega

theorem adj_ne7 {adj : UInt8} (h : adj.toNat ≤ 6) : (adj == 7) = false := by
  apply Bool.eq_false_iff.mpr
  intro h7; have := eq_of_beq h7; subst this; simp at h

theorem setCReg_eq {e : Encoder} (hmode : e.mode = .styling) (herr : e.err = none) {adj : UInt8} {incr : Bool}
    (hadj : adj.toNat ≤ 6) (hincr : incr = true → adj = 0) (c : Color) :
    e.setCReg adj incr c =
      { e with cSel := if incr then (e.cSel + 1) &&& 0x3f else e.cSel,
               buf := e.buf ++ [(if incr then 7 else adj) ||| (cregForm c).1] ++ (cregForm c).2 } := by
  have h6 := not_gt6 hadj
  cases incr
  · simp [Encoder.setCReg, checkModeStyling_id hmode, herr, h6]
  · have := hincr rfl; subst this
    simp [Encoder.setCReg, checkModeStyling_id hmode, herr]

theorem setNReg_eq {e : Encoder} (hmode : e.mode = .styling) (herr : e.err = none) {adj : UInt8} {incr : Bool}
    (hadj : adj.toNat ≤ 6) (hincr : incr = true → adj = 0) (f : F32) :
    e.setNReg adj incr f =
      { e with nSel := if incr then (e.nSel + 1) &&& 0x3f else e.nSel,
               buf := e.buf ++ [(if incr then 7 else adj) ||| (nregForm f).1] ++ (nregForm f).2 } := by
  have h6 := not_gt6 hadj
  cases incr
  · simp [Encoder.setNReg, checkModeStyling_id hmode, herr, h6]
  · have := hincr rfl; subst this
    simp [Encoder.setNReg, checkModeStyling_id hmode, herr]

/-- what the decoder makes of the opcode's low three bits -/
theorem adj_roundtrip {adj : UInt8} {incr : Bool} (hadj : adj.toNat ≤ 6) (hincr : incr = true → adj = 0) :
    (if incr then (7 : UInt8) else adj).toNat < 8 ∧
    (if ((if incr then (7 : UInt8) else adj) == 7) = true then 0 else (if incr then (7 : UInt8) else adj)) = adj ∧
    ((if incr then (7 : UInt8) else adj) == 7) = incr := by
  cases incr
  · have := adj_ne7 hadj
    refine ⟨by simp; omega, by simp [this], by simp [this]⟩
  · have := hincr rfl; subst this
    refine ⟨by decide, by simp, by simp⟩

/-- a styling call in styling mode -/
theorem inv_styling (hD : DStep) {hi hdr} {e : Encoder} {done} (h : Inv hi hdr e done false)
    (c : Call F32) (hc : StylingOK c) : Inv hi hdr (e.step c) (done ++ [c]) false := by
  have hmode : e.mode = .styling := by simpa using h.mode
  have hnoerr := h.noerr
  have hop := h.idle rfl
  have hargs : e.drawArgs = [] := by
    obtain ⟨_, _, _, _, _, _, flushed, pending, body, _, _, ha, hnone, _, _⟩ := h
    rw [ha, hnone hop]; rfl
  cases c with
  | setCSel v =>
    refine inv_append_styling hD h [v &&& 0x3f] (by simp) _ false (fun k => by simpa [Q, modeOf] using step_setCSel v k)
      _ ?_ ?_ ?_ ?_ (by simp) ?_ ?_ <;>
      simp [Encoder.step, Encoder.setCSel, checkModeStyling_id hmode, hnoerr, hmode, h.hires, hop, hargs]
  | setNSel v =>
    refine inv_append_styling hD h [(v &&& 0x3f) ||| 0x40] (by simp) _ false
      (fun k => by simpa [Q, modeOf] using step_setNSel v k) _ ?_ ?_ ?_ ?_ (by simp) ?_ ?_ <;>
      simp [Encoder.step, Encoder.setNSel, checkModeStyling_id hmode, hnoerr, hmode, h.hires, hop, hargs]
  | setLOD a b =>
    refine inv_append_styling hD h ([0xc7] ++ encodeReal a ++ encodeReal b) (by simp) _ false
      (fun k => by simpa [Q, modeOf, List.append_assoc] using step_setLOD a b k) _ ?_ ?_ ?_ ?_ (by simp) ?_ ?_ <;>
      simp [Encoder.step, Encoder.setLOD, checkModeStyling_id hmode, hnoerr, hmode, h.hires, hop, hargs, List.append_assoc]
  | setCReg adj incr col =>
    obtain ⟨hadj, hincr, hwf⟩ := hc
    obtain ⟨h8, hA, hI⟩ := adj_roundtrip hadj hincr
    have hstep := fun k => step_setCReg (if incr then 7 else adj) h8 col hwf k
    rw [hA, hI] at hstep
    have heq : e.step (.setCReg adj incr col) = _ := setCReg_eq hmode hnoerr hadj hincr col
    rw [heq]
    refine inv_append_styling hD h ([(if incr then 7 else adj) ||| (cregForm col).1] ++ (cregForm col).2) (by simp) _ false
      (fun k => by simpa [Q, modeOf, List.append_assoc] using hstep k) _ ?_ ?_ ?_ ?_ (by simp) ?_ ?_ <;>
      simp [hnoerr, hmode, h.hires, hop, hargs, List.append_assoc]
  | setNReg adj incr f =>
    obtain ⟨hadj, hincr⟩ := hc
    obtain ⟨h8, hA, hI⟩ := adj_roundtrip hadj hincr
    have hstep := fun k => step_setNReg (if incr then 7 else adj) h8 f k
    rw [hA, hI] at hstep
    have heq : e.step (.setNReg adj incr f) = _ := setNReg_eq hmode hnoerr hadj hincr f
    rw [heq]
    refine inv_append_styling hD h ([(if incr then 7 else adj) ||| (nregForm f).1] ++ (nregForm f).2) (by simp) _ false
      (fun k => by simpa [Q, modeOf, List.append_assoc] using hstep k) _ ?_ ?_ ?_ ?_ (by simp) ?_ ?_ <;>
      simp [hnoerr, hmode, h.hires, hop, hargs, List.append_assoc]
  | _ => exact absurd hc (by simp [StylingOK])

/-- StartPath in styling mode -/
theorem inv_startPath (hD : DStep) {hi hdr} {e : Encoder} {done} (h : Inv hi hdr e done false)
    (adj : UInt8) (x y : F32) (hadj : adj.toNat ≤ 6) :
    Inv hi hdr (e.step (.startPath adj x y)) (done ++ [.startPath adj x y]) true := by
  have hmode : e.mode = .styling := by simpa using h.mode
  have hnoerr := h.noerr
  have hop := h.idle rfl
  have hhi := h.hires
  have hargs : e.drawArgs = [] := by
    obtain ⟨_, _, _, _, _, _, flushed, pending, body, _, _, ha, hnone, _, _⟩ := h
    rw [ha, hnone hop]; rfl
  have h6 := not_gt6 hadj
  refine inv_append_styling hD h ([0xc0 + adj] ++ encodeCoordinate (quantize hi x) ++ encodeCoordinate (quantize hi y))
    (by simp) _ true
    (fun k => by simpa [Q, modeOf, List.append_assoc] using step_startPath hi adj (by omega) x y k)
    _ ?_ ?_ ?_ ?_ ?_ ?_ ?_ <;>
    simp [Encoder.step, Encoder.startPath, checkModeStyling_id hmode, hnoerr, hmode, hhi, hop, hargs, h6, List.append_assoc]

theorem nArgs_ne_zero {d : DrawOp} (hz : d ≠ .Z) : (opInfo d).nArgs ≠ 0 := by
  cases d with
  | v1 v => cases v <;> simp [opInfo]
  | v2 v => cases v <;> simp [opInfo]
  | v4 v => cases v <;> simp [opInfo]
  | v6 v => cases v <;> simp [opInfo]
  | Z => exact absurd rfl hz
  | _ => simp [opInfo]

/-- buffering one more drawing call (no flush of the new call yet) -/
theorem inv_buffer (hD : DStep) {hi hdr} {e : Encoder} {done} (h : Inv hi hdr e done true)
    (c : Call F32) (d : DrawOp) (hd : drawOpOf c = some d) (hz : d ≠ .Z) :
    let e1 := if e.drawOp ≠ some d then e.flushDrawOps else e
    Inv hi hdr { e1 with drawOp := some d, drawArgs := e1.drawArgs ++ [groupOf c] } (done ++ [c]) true := by
  intro e1
  by_cases hsame : e.drawOp = some d
  · have he1 : e1 = e := by simp [e1, hsame]
    rw [he1]
    obtain ⟨noerr, mode, hires, hiresLocal, idle, notZ, flushed, pending, body, hdone, hb, ha, hnone, hall, hdec⟩ := h
    refine ⟨noerr, mode, hires, hiresLocal, by simp, by simpa using hz, flushed, pending ++ [c], body,
      by simp [hdone], hb, by simp [ha], by simp, ?_, hdec⟩
    intro d' hd' c' hc'
    simp only [Option.some.injEq] at hd'; subst hd'
    rcases List.mem_append.mp hc' with h1 | h1
    · exact hall d hsame c' h1
    · simp at h1; subst h1; exact hd
  · have he1 : e1 = e.flushDrawOps := by simp [e1, hsame]
    rw [he1]
    obtain ⟨hinv, hop, hargs, hm, hh, hl⟩ := inv_flush hD h
    obtain ⟨noerr, mode, hires, hiresLocal, idle, notZ, flushed, pending, body, hdone, hb, ha, hnone, hall, hdec⟩ := hinv
    have hp : pending = [] := hnone hop
    subst hp
    refine ⟨noerr, mode, hires, hiresLocal, by simp, by simpa using hz, flushed, [c], body,
      by simp [hdone], hb, by simp [hargs], by simp, ?_, hdec⟩
    intro d' hd' c' hc'
    simp only [Option.some.injEq] at hd'; subst hd'
    simp at hc'; subst hc'; exact hd

theorem draw_eq {e : Encoder} (herr : e.err = none) (hmode : e.mode = .drawing) (d : DrawOp) (hz : d ≠ .Z)
    (g : List F32) :
    e.draw d g =
      (let e1 := if e.drawOp ≠ some d then e.flushDrawOps else e
       let e2 : Encoder := { e1 with drawOp := some d, drawArgs := e1.drawArgs ++ [g] }
       if d = .v2 .Y ∨ d = .v2 .y then e2.flushDrawOps else e2) := by
  have hn := nArgs_ne_zero hz
  unfold Encoder.draw
  simp only [herr, Option.isSome_none, Bool.false_eq_true, if_false, hmode, ne_eq, not_true_eq_false, hn]
  cases d with
  | v2 v => cases v <;> simp
  | Z => exact absurd rfl hz
  | _ => simp

/-- a drawing call (not the end of the path) in drawing mode -/
theorem inv_draw (hD : DStep) {hi hdr} {e : Encoder} {done} (h : Inv hi hdr e done true)
    (c : Call F32) (hc : IsDrawing c) : Inv hi hdr (e.step c) (done ++ [c]) true := by
  obtain ⟨d, hd, hz⟩ := hc
  have hmode : e.mode = .drawing := by simpa using h.mode
  rw [step_eq_draw e c d hd, draw_eq h.noerr hmode d hz]
  have hb := inv_buffer hD h c d hd hz
  simp only at hb ⊢
  split
  · exact (inv_flush hD hb).1
  · exact hb

/-- ClosePathEndPath in drawing mode -/
theorem inv_closeEnd (hD : DStep) {hi hdr} {e : Encoder} {done} (h : Inv hi hdr e done true) :
    Inv hi hdr (e.step .closeEnd) (done ++ [.closeEnd]) false := by
  have hmode : e.mode = .drawing := by simpa using h.mode
  obtain ⟨hinv, hop, hargs, hm, hh, hl⟩ := inv_flush hD h
  have hne : e.drawOp ≠ some .Z := h.notZ
  have hstep : e.step .closeEnd =
      { e.flushDrawOps with buf := e.flushDrawOps.buf ++ [0xe1], mode := .styling, drawOp := none, drawArgs := [] } := by
    simp only [Encoder.step, Encoder.draw, h.noerr, Option.isSome_none, Bool.false_eq_true, if_false, hmode,
      ne_eq, not_true_eq_false, hne, not_false_eq_true, if_true, opInfo]
    generalize e.flushDrawOps = e1
    simp [Encoder.flushDrawOps, opInfo]
  rw [hstep]
  obtain ⟨noerr, mode, hires, hiresLocal, idle, notZ, flushed, pending, body, hdone, hb, ha, hnone, hall, hdec⟩ := hinv
  have hp : pending = [] := hnone hop
  subst hp
  refine ⟨noerr, by simp, hires, by simp, by simp, by simp, flushed ++ [.closeEnd], [], body ++ [0xe1],
    by simp [hdone], by simp [hb, List.append_assoc], by simp, by simp, by simp, ?_⟩
  intro k
  rw [List.append_assoc, hdec]
  have hm1 : modeOf true = DMode.drawing := rfl
  have hm2 : modeOf false = DMode.styling := rfl
  rw [hm1, hm2, hD _ _ _ _ _ (step_Z k) (by simp)]
  simp [Q, List.append_assoc]

/-- the invariant along a protocol-respecting program -/
theorem inv_run (hD : DStep) {hi hdr} : ∀ (p : List (Call F32)) (e : Encoder) (done : List (Call F32))
    (inPath endPath : Bool),
    Inv hi hdr e done inPath → Proto inPath p endPath → Inv hi hdr (e.run p) (done ++ p) endPath := by
  intro p
  induction p with
  | nil =>
    intro e done inPath endPath h hc
    simp only [Proto] at hc; subst hc
    simpa [Encoder.run] using h
  | cons c cs ih =>
    intro e done inPath endPath h hc
    have hrun : e.run (c :: cs) = (e.step c).run cs := by simp [Encoder.run]
    rw [hrun]
    have happ : done ++ c :: cs = (done ++ [c]) ++ cs := by simp
    rw [happ]
    cases inPath with
    | false =>
      simp only [Proto] at hc
      rcases hc with ⟨hs, hrest⟩ | ⟨adj, x, y, rfl, hadj, hrest⟩
      · exact ih _ _ _ _ (inv_styling hD h c hs) hrest
      · exact ih _ _ _ _ (inv_startPath hD h adj x y hadj) hrest
    | true =>
      simp only [Proto] at hc
      rcases hc with ⟨hd, hrest⟩ | ⟨rfl, hrest⟩
      · exact ih _ _ _ _ (inv_draw hD h c hd) hrest
      · exact ih _ _ _ _ (inv_closeEnd hD h) hrest

/-- `Bytes()`: flush what is pending; the invariant then speaks about the whole program -/
theorem inv_bytes (hD : DStep) {hi hdr} {e : Encoder} {done} {inPath : Bool} (h : Inv hi hdr e done inPath) :
    ∃ body, e.bytes.2 = .ok (hdr ++ body) ∧
      Dc .styling body = (done.map (Q hi) ++ (Dc (modeOf inPath) []).1, (Dc (modeOf inPath) []).2) := by
  have hne : e.mode ≠ .initial := by rw [h.mode]; split <;> simp
  have hb : e.bytes = (e.flushDrawOps, .ok e.flushDrawOps.buf) := by
    simp [Encoder.bytes, h.noerr, hne]
  cases inPath with
  | true =>
    obtain ⟨hinv, hop, _⟩ := inv_flush hD h
    obtain ⟨_, _, _, _, _, _, flushed, pending, body, hdone, hbuf, _, hnone, _, hdec⟩ := hinv
    have hp := hnone hop; subst hp
    refine ⟨body, by rw [hb, hbuf], ?_⟩
    have := hdec []
    simpa [hdone] using this
  | false =>
    have hop := h.idle rfl
    have hfl : e.flushDrawOps = e := by simp [Encoder.flushDrawOps, hop]
    obtain ⟨_, _, _, _, _, _, flushed, pending, body, hdone, hbuf, _, hnone, _, hdec⟩ := h
    have hp := hnone hop; subst hp
    refine ⟨body, by rw [hb, hfl, hbuf], ?_⟩
    have := hdec []
    simpa [hdone] using this

end Ivg.EncoderInv
