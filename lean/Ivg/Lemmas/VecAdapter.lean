import Ivg.Model.VecAdapter
namespace Ivg.Vec
variable {H : Type}

theorem draws_dst (z : Adapter H) (ds : List (DrawArgs H)) : (z.draws ds).dst = z.dst := by
  induction ds generalizing z with
  | nil => rfl
  | cons d ds ih => simp only [Adapter.draws, List.foldl_cons] at *; rw [ih]; rfl

/-- every history of Draw calls: the library is asked exactly `expected` — the configured operator once, source-over
    afterwards; rectangle, source and source point untouched; the destination never changes -/
theorem draws_inner (z : Adapter H) (ds : List (DrawArgs H)) :
    (z.draws ds).inner = z.inner ++ expected z.dst z.drawOp ds := by
  induction ds generalizing z with
  | nil => simp [Adapter.draws, expected]
  | cons d ds ih =>
    simp only [Adapter.draws, List.foldl_cons] at *
    rw [ih]
    simp [Adapter.draw, expected, List.append_assoc]

/-- after any non-empty history the operator is source-over again — whatever the rectangles were (empty ones included) -/
theorem draws_op (z : Adapter H) (ds : List (DrawArgs H)) (h : ds ≠ []) : (z.draws ds).drawOp = over := by
  induction ds generalizing z with
  | nil => exact absurd rfl h
  | cons d ds ih =>
    simp only [Adapter.draws, List.foldl_cons] at *
    cases ds with
    | nil => rfl
    | cons d' ds' => exact ih _ (by simp)

/-- reuse (C17): what a used adapter asks of the library for a later history `B` is what a fresh adapter with the operator
    the used one has by then asks — and that operator is source-over once anything was drawn -/
theorem draws_append (z : Adapter H) (a b : List (DrawArgs H)) :
    (z.draws (a ++ b)).inner = (z.draws a).inner ++ expected z.dst (z.draws a).drawOp b := by
  have : z.draws (a ++ b) = (z.draws a).draws b := by simp [Adapter.draws, List.foldl_append]
  rw [this, draws_inner, draws_dst]

theorem reuse_after_drawing (z : Adapter H) (a b : List (DrawArgs H)) (h : a ≠ []) :
    (z.draws (a ++ b)).inner = (z.draws a).inner ++ expected z.dst over b := by
  rw [draws_append, draws_op z a h]

/-- the hypotheses are satisfiable and the statement is not trivial: two draws, the first into an empty rectangle -/
example : ((⟨7, 1, []⟩ : Adapter Nat).draws [⟨⟨0, 0, 0, 0⟩, 3, 0, 0⟩, ⟨⟨0, 0, 4, 4⟩, 5, 0, 0⟩]).inner =
    [.setOp 1, .draw 7 ⟨0, 0, 0, 0⟩ 3 0 0, .setOp 0, .draw 7 ⟨0, 0, 4, 4⟩ 5 0 0] := by decide

end Ivg.Vec
