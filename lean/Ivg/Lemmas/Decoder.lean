import Ivg.Lemmas.Codec
/-!
# Decoder lemmas, part 1 (decode/decode.go): byte accounting, termination (fuel irrelevance)

For every sub-decoder of `Dec.stepDec` / `Dec.decodeMetadataChunk` we prove one "specification"
lemma for the successful case:

* the input splits as `src = pre ++ rest` with `pre` the concatenated byte columns of the
  disassembly lines produced (`bytesOf its = pre`), hence every instruction consumes ≥ 1 byte;
* the same result is produced on `src ++ k` with remainder `rest ++ k` (prefix stability);
* counting facts about the delivered calls.
-/
namespace Ivg.DecL
open Ivg Num Dec Codec

deriving instance DecidableEq for Ivg.Dec.Item
deriving instance DecidableEq for Ivg.Dec.Metadata
deriving instance DecidableEq for Except

/-- concatenated byte columns of the disassembly lines among `its` -/
def bytesOf (its : List Item) : Bytes := (linesOf its).flatMap (·.bytes)

/-! ## `callsOf`, `linesOf`, `bytesOf` are monoid morphisms -/

@[simp] theorem callsOf_nil : callsOf [] = [] := rfl
@[simp] theorem callsOf_line (l : Line) (r : List Item) : callsOf (.line l :: r) = callsOf r := rfl
@[simp] theorem callsOf_call (c : Call F32) (r : List Item) : callsOf (.call c :: r) = c :: callsOf r := rfl
@[simp] theorem linesOf_nil : linesOf [] = [] := rfl
@[simp] theorem linesOf_line (l : Line) (r : List Item) : linesOf (.line l :: r) = l :: linesOf r := rfl
@[simp] theorem linesOf_call (c : Call F32) (r : List Item) : linesOf (.call c :: r) = linesOf r := rfl

@[simp] theorem callsOf_append (a b : List Item) : callsOf (a ++ b) = callsOf a ++ callsOf b := by
  induction a with
  | nil => rfl
  | cons x a ih => cases x <;> simp [ih]

@[simp] theorem linesOf_append (a b : List Item) : linesOf (a ++ b) = linesOf a ++ linesOf b := by
  induction a with
  | nil => rfl
  | cons x a ih => cases x <;> simp [ih]

@[simp] theorem bytesOf_nil : bytesOf [] = [] := rfl
@[simp] theorem bytesOf_line (l : Line) (r : List Item) : bytesOf (.line l :: r) = l.bytes ++ bytesOf r := by
  simp [bytesOf]
@[simp] theorem bytesOf_call (c : Call F32) (r : List Item) : bytesOf (.call c :: r) = bytesOf r := by
  simp [bytesOf]
@[simp] theorem bytesOf_append (a b : List Item) : bytesOf (a ++ b) = bytesOf a ++ bytesOf b := by
  simp [bytesOf]

/-! ## `consumed` -/

@[simp] theorem consumed_append (pre rest : Bytes) : consumed (pre ++ rest) rest = pre := by
  simp [consumed]

theorem consumed_append_right (pre rest k : Bytes) :
    consumed (pre ++ rest ++ k) (rest ++ k) = pre := by
  rw [List.append_assoc]; exact consumed_append pre (rest ++ k)

/-- a successful number decoder splits its input -/
theorem ConsumesNum.split {b rest : Bytes} (h : ConsumesNum b rest) :
    ∃ pre, pre ≠ [] ∧ b = pre ++ rest := by
  obtain ⟨n, hn, hl, he⟩ := h
  refine ⟨b.take n, ?_, he⟩
  intro h0
  have : (b.take n).length = 0 := by rw [h0]; rfl
  rw [List.length_take] at this
  omega

theorem decodeNatural_split {b : Bytes} {u n : Nat} {rest : Bytes}
    (h : decodeNatural b = some (u, n, rest)) : ∃ pre, pre ≠ [] ∧ b = pre ++ rest :=
  ConsumesNum.split ⟨n, decodeNatural_consumes h⟩

/-- the three coordinate/real/zero-to-one decoders, abstractly: what we need of a number decoder -/
structure NumDec (dnf : Bytes → Option (F32 × Bytes)) : Prop where
  split : ∀ {b f rest}, dnf b = some (f, rest) → ∃ pre, pre ≠ [] ∧ b = pre ++ rest
  app : ∀ {b f rest}, dnf b = some (f, rest) → ∀ k, dnf (b ++ k) = some (f, rest ++ k)

theorem numDec_coordinate : NumDec decodeCoordinate :=
  ⟨fun h => ConsumesNum.split (decodeCoordinate_consumes h), fun h k => decodeCoordinate_append h k⟩
theorem numDec_real : NumDec decodeReal :=
  ⟨fun h => ConsumesNum.split (decodeReal_consumes h), fun h k => decodeReal_append h k⟩
theorem numDec_zeroToOne : NumDec decodeZeroToOne :=
  ⟨fun h => ConsumesNum.split (decodeZeroToOne_consumes h), fun h k => decodeZeroToOne_append h k⟩

/-- same for the five colour decoders -/
structure ColDec (dec : Bytes → Option (Color × Bytes)) : Prop where
  split : ∀ {b c rest}, dec b = some (c, rest) → ∃ pre, pre ≠ [] ∧ b = pre ++ rest
  app : ∀ {b c rest}, dec b = some (c, rest) → ∀ k, dec (b ++ k) = some (c, rest ++ k)

theorem split_of_take {b rest : Bytes} {n : Nat} (hn : 0 < n)
    (h : b.length = n + rest.length ∧ b = b.take n ++ rest) : ∃ pre, pre ≠ [] ∧ b = pre ++ rest := by
  refine ⟨b.take n, ?_, h.2⟩
  intro h0
  have : (b.take n).length = 0 := by rw [h0]; rfl
  rw [List.length_take] at this
  omega

theorem colDec_1 : ColDec Dec.decodeColor1 :=
  ⟨fun h => split_of_take (by decide) (decodeColor1_consumes h), fun h k => decodeColor1_append h k⟩
theorem colDec_2 : ColDec Dec.decodeColor2 :=
  ⟨fun h => split_of_take (by decide) (decodeColor2_consumes h), fun h k => decodeColor2_append h k⟩
theorem colDec_3d : ColDec Dec.decodeColor3Direct :=
  ⟨fun h => split_of_take (by decide) (decodeColor3Direct_consumes h),
   fun h k => decodeColor3Direct_append h k⟩
theorem colDec_4 : ColDec Dec.decodeColor4 :=
  ⟨fun h => split_of_take (by decide) (decodeColor4_consumes h), fun h k => decodeColor4_append h k⟩
theorem colDec_3i : ColDec Dec.decodeColor3Indirect :=
  ⟨fun h => split_of_take (by decide) (decodeColor3Indirect_consumes h),
   fun h k => decodeColor3Indirect_append h k⟩

/-! ## `decodeNumber` -/

theorem decodeNumber_some {dnf} (hd : NumDec dnf) {src : Bytes} {it : Item} {x : F32} {rest : Bytes}
    (h : decodeNumber dnf src = some (it, x, rest)) :
    ∃ pre, pre ≠ [] ∧ src = pre ++ rest ∧ it = .line ⟨pre, .number x⟩ ∧ dnf src = some (x, rest) ∧
      ∀ k, decodeNumber dnf (src ++ k) = some (it, x, rest ++ k) := by
  unfold decodeNumber at h
  split at h
  · contradiction
  · rename_i x' rest' hx
    simp at h; obtain ⟨rfl, rfl, rfl⟩ := h
    obtain ⟨pre, hne, rfl⟩ := hd.split hx
    refine ⟨pre, hne, rfl, by simp, hx, ?_⟩
    intro k
    unfold decodeNumber
    rw [hd.app hx k]
    simp

theorem decodeNumber_none {dnf} {src : Bytes} (h : decodeNumber dnf src = none) : dnf src = none := by
  unfold decodeNumber at h
  split at h
  · assumption
  · contradiction


/-! ## the disassembly "reader": which call a group of lines (instruction line + operand lines) denotes

`callOfLines` looks only at the printed content of the lines (`LineKind`).  The agreement theorems
say that the call the decoder delivers is the one the reader reconstructs from the lines printed for
the same instruction, i.e. the operand values printed are the values delivered. -/

/-- instruction lines: one per delivered operation (explicit or implicit repeat) -/
def isInstrKind : LineKind → Bool
  | .setCSel _ | .setNSel _ | .setCReg _ _ _ _ | .setNReg _ _ _ | .startPath _ | .setLOD
  | .drawHdr _ _ | .implicit _ | .closeEnd | .closeAbs | .closeRel | .absH | .relH | .absV | .relV => true
  | _ => false

def _root_.Ivg.Dec.Line.isInstr (l : Line) : Bool := isInstrKind l.kind

def kindsOf (its : List Item) : List LineKind := (linesOf its).map (·.kind)

/-- number of instruction lines among `its` -/
def instrCount (its : List Item) : Nat := ((linesOf its).filter Line.isInstr).length

def numbersOf : List LineKind → Option (List F32)
  | [] => some []
  | .number f :: r => (numbersOf r).map (f :: ·)
  | _ => none

def arcCall (rel : Bool) : List LineKind → Option (Call F32)
  | [.number rx, .number ry, .angle rot, .arcFlags fl, .number x, .number y] =>
    some (.arc rel rx ry rot (fl % 2 != 0) (fl / 2 % 2 != 0) x y)
  | _ => none

/-- the call denoted by the operand lines of one repetition of `op` -/
def repCall (op : RepOp) (ks : List LineKind) : Option (Call F32) :=
  match op with
  | .A => arcCall false ks
  | .a => arcCall true ks
  | op => (numbersOf ks).bind op.mkCall

/-- the call denoted by an instruction line followed by its operand lines -/
def callOfLines : List LineKind → Option (Call F32)
  | [.setCSel v] => some (.setCSel v)
  | [.setNSel v] => some (.setNSel v)
  | [.setCReg adj incr _ _, .color c] => some (.setCReg adj incr c)
  | [.setNReg adj incr _, .nregNumber f] => some (.setNReg adj incr f)
  | [.startPath adj, .number x, .number y] => some (.startPath adj x y)
  | [.setLOD, .number a, .number b] => some (.setLOD a b)
  | [.closeEnd] => some .closeEnd
  | [.closeAbs, .number x, .number y] => some (.d2 .Y x y)
  | [.closeRel, .number x, .number y] => some (.d2 .y x y)
  | [.absH, .number x] => some (.d1 .H x)
  | [.relH, .number x] => some (.d1 .h x)
  | [.absV, .number x] => some (.d1 .V x)
  | [.relV, .number x] => some (.d1 .v x)
  | .drawHdr op _ :: ops => repCall op ops
  | .implicit op :: ops => repCall op ops
  | _ => none

theorem callOfLines_implicit (op : RepOp) (ops : List LineKind) :
    callOfLines (.implicit op :: ops) = repCall op ops := by
  rfl
theorem callOfLines_drawHdr (op : RepOp) (m : Nat) (ops : List LineKind) :
    callOfLines (.drawHdr op m :: ops) = repCall op ops := by
  rfl

def isReset : Call F32 → Bool
  | .reset _ _ => true
  | _ => false

@[simp] theorem isInstrKind_number (f : F32) : isInstrKind (.number f) = false := rfl
@[simp] theorem isInstrKind_nregNumber (f : F32) : isInstrKind (.nregNumber f) = false := rfl
@[simp] theorem isInstrKind_angle (f : F32) : isInstrKind (.angle f) = false := rfl
@[simp] theorem isInstrKind_arcFlags (x : Nat) : isInstrKind (.arcFlags x) = false := rfl
@[simp] theorem isInstrKind_color (c : Color) : isInstrKind (.color c) = false := rfl
@[simp] theorem isInstrKind_implicit (op : RepOp) : isInstrKind (.implicit op) = true := rfl
@[simp] theorem isInstrKind_drawHdr (op : RepOp) (n : Nat) : isInstrKind (.drawHdr op n) = true := rfl
@[simp] theorem kindsOf_nil : kindsOf [] = [] := rfl
@[simp] theorem kindsOf_line (l : Line) (r : List Item) : kindsOf (.line l :: r) = l.kind :: kindsOf r := rfl
@[simp] theorem kindsOf_call (c : Call F32) (r : List Item) : kindsOf (.call c :: r) = kindsOf r := rfl
@[simp] theorem kindsOf_append (a b : List Item) : kindsOf (a ++ b) = kindsOf a ++ kindsOf b := by
  simp [kindsOf]
@[simp] theorem instrCount_nil : instrCount [] = 0 := rfl
@[simp] theorem instrCount_line (l : Line) (r : List Item) :
    instrCount (.line l :: r) = (if isInstrKind l.kind then 1 else 0) + instrCount r := by
  unfold instrCount
  rw [linesOf_line, List.filter_cons]
  by_cases h : l.isInstr = true
  · have h' : isInstrKind l.kind = true := h
    simp [h, h']; omega
  · have h' : ¬ isInstrKind l.kind = true := h
    simp [h, h']
@[simp] theorem instrCount_call (c : Call F32) (r : List Item) : instrCount (.call c :: r) = instrCount r := rfl
@[simp] theorem instrCount_append (a b : List Item) : instrCount (a ++ b) = instrCount a + instrCount b := by
  simp [instrCount]

/-- an item list without calls is the list of its lines -/
theorem map_line_linesOf : ∀ {its : List Item}, callsOf its = [] → (linesOf its).map Item.line = its
  | [], _ => rfl
  | .line l :: r, h => by simp at h ⊢; exact map_line_linesOf h
  | .call c :: r, h => by simp at h

theorem numbersOf_map (xs : List F32) : numbersOf (xs.map LineKind.number) = some xs := by
  induction xs with
  | nil => rfl
  | cons x xs ih => simp [numbersOf, ih]

/-! ## `decodeCoordinates` -/

theorem decodeCoordinates_some : ∀ (n : Nat) {src : Bytes} {its : List Item} {xs : List F32} {rest : Bytes},
    decodeCoordinates n src = (its, some (xs, rest)) →
    ∃ pre, src = pre ++ rest ∧ bytesOf its = pre ∧ callsOf its = [] ∧ xs.length = n ∧ n ≤ pre.length ∧
      kindsOf its = xs.map LineKind.number ∧
      ∀ k, decodeCoordinates n (src ++ k) = (its, some (xs, rest ++ k))
  | 0, src, its, xs, rest, h => by
    simp [decodeCoordinates] at h
    obtain ⟨rfl, rfl, rfl⟩ := h
    exact ⟨[], rfl, rfl, rfl, rfl, Nat.le_refl _, rfl, fun k => by simp [decodeCoordinates]⟩
  | n + 1, src, its, xs, rest, h => by
    unfold decodeCoordinates at h
    split at h
    · simp at h
    · rename_i it x r1 h1
      obtain ⟨p1, hne, rfl, rfl, _, happ⟩ := decodeNumber_some numDec_coordinate h1
      split at h
      · simp at h
      · rename_i its' xs' rest' h2
        simp at h
        obtain ⟨rfl, rfl, rfl⟩ := h
        obtain ⟨p2, rfl, hb, hc, hl, hn, hk, happ2⟩ := decodeCoordinates_some n h2
        refine ⟨p1 ++ p2, by simp, by simp [hb], by simp [hc], by simp [hl], ?_, by simp [hk], ?_⟩
        · have : 0 < p1.length := List.length_pos_iff.mpr hne
          simp; omega
        · intro k
          unfold decodeCoordinates
          rw [happ k]
          simp only
          rw [happ2 k]

/-- `decodeCoordinates` emits lines only, none of them an instruction line -/
theorem decodeCoordinates_calls : ∀ (n : Nat) (src : Bytes),
    callsOf (decodeCoordinates n src).1 = [] ∧ instrCount (decodeCoordinates n src).1 = 0
  | 0, src => ⟨rfl, rfl⟩
  | n + 1, src => by
    unfold decodeCoordinates
    split
    · exact ⟨rfl, rfl⟩
    · rename_i it x r1 h1
      obtain ⟨p1, hne, rfl, rfl, _, happ⟩ := decodeNumber_some numDec_coordinate h1
      have ih := decodeCoordinates_calls n r1
      split <;> rename_i h2 <;> rw [h2] at ih <;> simp at ih ⊢ <;> exact ih

theorem instrCount_of_numbers {its : List Item} {xs : List F32}
    (h : kindsOf its = xs.map LineKind.number) : instrCount its = 0 := by
  induction its generalizing xs with
  | nil => rfl
  | cons it its ih =>
    cases it with
    | call c => simp at h ⊢; exact ih h
    | line l =>
      cases xs with
      | nil => simp at h
      | cons x xs =>
        simp only [kindsOf_line, List.map_cons, List.cons.injEq] at h
        rw [instrCount_line, h.1, ih h.2]; rfl


/-! ## one repetition -/

theorem decodeArcRep_some {rel : Bool} {src : Bytes} {its : List Item} {c : Call F32} {rest : Bytes}
    (h : decodeArcRep rel src = (its, some (c, rest))) :
    ∃ pre, src = pre ++ rest ∧ bytesOf its = pre ∧ callsOf its = [] ∧ 6 ≤ pre.length ∧
      arcCall rel (kindsOf its) = some c ∧ instrCount its = 0 ∧
      ∀ k, decodeArcRep rel (src ++ k) = (its, some (c, rest ++ k)) := by
  unfold decodeArcRep at h
  split at h
  · rename_i its1 rx ry src1 h1
    obtain ⟨p1, rfl, hb1, hc1, _, hn1, hk1, happ1⟩ := decodeCoordinates_some 2 h1
    split at h
    · simp at h
    · rename_i rot src2 h2
      obtain ⟨p2, hne2, rfl⟩ := numDec_zeroToOne.split h2
      split at h
      · simp at h
      · rename_i fl w src3 h3
        obtain ⟨p3, hne3, rfl⟩ := decodeNatural_split h3
        split at h
        · rename_i its2 x y src4 h4
          obtain ⟨p4, rfl, hb4, hc4, _, hn4, hk4, happ4⟩ := decodeCoordinates_some 2 h4
          simp at h
          obtain ⟨rfl, rfl, rfl⟩ := h
          have l2 : 0 < p2.length := List.length_pos_iff.mpr hne2
          have l3 : 0 < p3.length := List.length_pos_iff.mpr hne3
          refine ⟨p1 ++ (p2 ++ (p3 ++ p4)), by simp, by simp [hb1, hb4], by simp [hc1, hc4],
            by simp; omega, by simp [hk1, hk4, arcCall], ?_, ?_⟩
          · simp [instrCount_of_numbers hk1, instrCount_of_numbers hk4]
          · intro k
            unfold decodeArcRep
            rw [happ1 k]
            simp only
            rw [numDec_zeroToOne.app h2 k]
            simp only
            rw [decodeNatural_append h3 k]
            simp only
            rw [happ4 k]
            simp
        · simp at h
  · simp at h

theorem decodeArcRep_calls (rel : Bool) (src : Bytes) : callsOf (decodeArcRep rel src).1 = [] := by
  have c1 := (decodeCoordinates_calls 2 src).1
  unfold decodeArcRep
  split
  · rename_i its1 rx ry src1 h1
    rw [h1] at c1
    split
    · exact c1
    · split
      · simpa using c1
      · rename_i src3 _
        have c2 := (decodeCoordinates_calls 2 src3).1
        split <;> rename_i h4 <;> rw [h4] at c2 <;> simp at c1 c2 ⊢ <;> simp [c1, c2]
  · rename_i h1
    rw [h1] at c1; exact c1


theorem mkCall_some {op : RepOp} {cs : List F32} {c : Call F32} (h : op.mkCall cs = some c) :
    cs.length = op.nCoords ∧ op ≠ .A ∧ op ≠ .a ∧ isReset c = false := by
  unfold RepOp.mkCall at h
  split at h <;> simp at h <;> subst h <;> simp [RepOp.nCoords, isReset]

theorem decodeRep_some {op : RepOp} {src : Bytes} {its : List Item} {c : Call F32} {rest : Bytes}
    (h : decodeRep op src = (its, some (c, rest))) :
    ∃ pre, src = pre ++ rest ∧ bytesOf its = pre ∧ callsOf its = [] ∧ 2 ≤ pre.length ∧
      repCall op (kindsOf its) = some c ∧ instrCount its = 0 ∧ isReset c = false ∧
      ∀ k, decodeRep op (src ++ k) = (its, some (c, rest ++ k)) := by
  have arc : ∀ rel, decodeArcRep rel src = (its, some (c, rest)) →
      ∃ pre, src = pre ++ rest ∧ bytesOf its = pre ∧ callsOf its = [] ∧ 2 ≤ pre.length ∧
      arcCall rel (kindsOf its) = some c ∧ instrCount its = 0 ∧ isReset c = false ∧
      ∀ k, decodeArcRep rel (src ++ k) = (its, some (c, rest ++ k)) := by
    intro rel h
    obtain ⟨pre, h1, h2, h3, h4, h5, h6, h7⟩ := decodeArcRep_some h
    refine ⟨pre, h1, h2, h3, by omega, h5, h6, ?_, h7⟩
    unfold arcCall at h5
    split at h5 <;> simp at h5
    subst h5; rfl
  unfold decodeRep at h
  split at h
  · simpa [decodeRep, repCall] using arc false h
  · simpa [decodeRep, repCall] using arc true h
  · rename_i hA ha
    split at h
    · simp at h
    · rename_i its' cs rest' h1
      split at h
      · simp at h
      · rename_i c' hm
        simp at h
        obtain ⟨rfl, rfl, rfl⟩ := h
        obtain ⟨pre, rfl, hb, hc, hl, hn, hk, happ⟩ := decodeCoordinates_some _ h1
        obtain ⟨hlen, _, _, hr⟩ := mkCall_some hm
        refine ⟨pre, rfl, hb, hc, ?_, ?_, instrCount_of_numbers hk, hr, ?_⟩
        · have : 2 ≤ op.nCoords := by cases op <;> simp_all [RepOp.nCoords]
          omega
        · rw [hk]
          cases op <;> simp_all [repCall, numbersOf_map]
        · intro k
          cases op <;> simp_all [decodeRep]

theorem decodeRep_calls (op : RepOp) (src : Bytes) : callsOf (decodeRep op src).1 = [] := by
  unfold decodeRep
  split
  · exact decodeArcRep_calls _ _
  · exact decodeArcRep_calls _ _
  · have c1 := (decodeCoordinates_calls op.nCoords src).1
    split <;> rename_i h1 <;> rw [h1] at c1
    · exact c1
    · split <;> exact c1

/-! ## grouping of an item list into instructions -/

@[simp] theorem callsOf_map_line (ls : List Line) : callsOf (ls.map Item.line) = [] := by
  induction ls with
  | nil => rfl
  | cons l ls ih => simpa using ih

/-- the line kinds of one group: an instruction line followed by operand (non-instruction) lines -/
def GroupShape (g : List LineKind) : Prop :=
  ∃ k ops, g = k :: ops ∧ isInstrKind k = true ∧ ∀ o ∈ ops, isInstrKind o = false

theorem kinds_noninstr : ∀ {its : List Item}, instrCount its = 0 → ∀ o ∈ kindsOf its, isInstrKind o = false
  | [], _, o, ho => by simp at ho
  | .call c :: r, h, o, ho => kinds_noninstr (its := r) (by simpa using h) o (by simpa using ho)
  | .line l :: r, h, o, ho => by
    rw [instrCount_line] at h
    have h1 : isInstrKind l.kind = false := by
      cases hk : isInstrKind l.kind
      · rfl
      · rw [hk] at h; simp at h
    have h2 : instrCount r = 0 := by omega
    simp only [kindsOf_line, List.mem_cons] at ho
    rcases ho with rfl | ho
    · exact h1
    · exact kinds_noninstr h2 o ho

theorem GroupShape.of_instr {k : LineKind} {its : List Item} (hk : isInstrKind k = true)
    (hi : instrCount its = 0) : GroupShape ([k] ++ kindsOf its) :=
  ⟨k, kindsOf its, rfl, hk, kinds_noninstr hi⟩

/-- `Grouped pend its`: `its` is a sequence of groups `lines ++ [call c]`; each group consists of one
    instruction line followed by operand lines, and its call is the one the reader `callOfLines`
    reconstructs from the printed lines of the group (and is not a `Reset`); `pend` are line kinds of
    the first group that were emitted before `its`. -/
inductive Grouped : List LineKind → List Item → Prop
  | nil : Grouped [] []
  | cons {pend : List LineKind} {ls : List Line} {c : Call F32} {rest : List Item} :
      GroupShape (pend ++ ls.map (·.kind)) →
      callOfLines (pend ++ ls.map (·.kind)) = some c → isReset c = false → Grouped [] rest →
      Grouped pend (ls.map Item.line ++ .call c :: rest)

theorem Grouped.append {pend : List LineKind} {a b : List Item} (ha : Grouped pend a) (hb : Grouped [] b) :
    Grouped pend (a ++ b) := by
  induction ha with
  | nil => exact hb
  | cons hs h hr _ ih =>
    rw [List.append_assoc, List.cons_append]
    exact .cons hs h hr ih

theorem Grouped.line {pend : List LineKind} {l : Line} {its : List Item}
    (h : Grouped (pend ++ [l.kind]) its) : Grouped pend (.line l :: its) := by
  generalize hp : pend ++ [l.kind] = p at h
  cases h with
  | nil => simp at hp
  | cons hs hc hn hr =>
    rename_i ls c rest
    subst hp
    have := @Grouped.cons pend (l :: ls) c rest (by simpa using hs) (by simpa using hc) hn hr
    simpa using this

/-- a group from call-free items followed by the call -/
theorem Grouped.single {pend : List LineKind} {its : List Item} {c : Call F32}
    (hc : callsOf its = []) (hs : GroupShape (pend ++ kindsOf its))
    (h : callOfLines (pend ++ kindsOf its) = some c) (hn : isReset c = false) :
    Grouped pend (its ++ [.call c]) := by
  have := @Grouped.cons pend (linesOf its) c [] (by simpa [kindsOf] using hs)
    (by simpa [kindsOf] using h) hn .nil
  rwa [map_line_linesOf hc] at this

theorem Grouped.no_reset {pend : List LineKind} {its : List Item} (h : Grouped pend its) :
    ∀ c ∈ callsOf its, isReset c = false := by
  induction h with
  | nil => simp
  | cons _ hc hn _ ih =>
    intro c' hc'
    simp at hc'
    rcases hc' with rfl | hc'
    · exact hn
    · exact ih _ hc'

/-! ## the repeat loop -/

theorem callsOf_implicitPre (first : Bool) (op : RepOp) :
    callsOf (if first then [] else [Item.line ⟨[], .implicit op⟩]) = [] := by
  cases first <;> rfl

theorem decodeReps_ok (op : RepOp) : ∀ (n : Nat) (first : Bool) {src : Bytes} {its : List Item} {rest : Bytes},
    decodeReps op n first src = (its, .ok rest) →
    ∃ pre, src = pre ++ rest ∧ bytesOf its = pre ∧ (callsOf its).length = n ∧ 2 * n ≤ pre.length ∧
      instrCount its = n - (if first then 1 else 0) ∧
      (first = false → Grouped [] its) ∧ (first = true → n ≠ 0 → ∀ m, Grouped [.drawHdr op m] its) ∧
      ∀ k, decodeReps op n first (src ++ k) = (its, .ok (rest ++ k))
  | 0, first, src, its, rest, h => by
    simp [decodeReps] at h
    obtain ⟨rfl, rfl⟩ := h
    exact ⟨[], rfl, rfl, rfl, Nat.le_refl _, by simp, fun _ => .nil, fun _ h => absurd rfl h,
      fun k => by simp [decodeReps]⟩
  | n + 1, first, src, its, rest, h => by
    unfold decodeReps at h
    rcases h1 : decodeRep op src with ⟨its1, _ | ⟨c, r1⟩⟩ <;> rw [h1] at h <;> simp only at h
    · simp at h
    · obtain ⟨p1, rfl, hb1, hc1, hl1, hk1, hi1, hr1, happ1⟩ := decodeRep_some h1
      rcases h2 : decodeReps op n false r1 with ⟨its', r⟩
      rw [h2] at h
      simp at h
      obtain ⟨rfl, rfl⟩ := h
      obtain ⟨p2, rfl, hb2, hc2, hl2, hi2, hg2, _, happ2⟩ := decodeReps_ok op n false h2
      have hg2 := hg2 rfl
      refine ⟨p1 ++ p2, by simp, ?_, ?_, by simp; omega, ?_, ?_, ?_, ?_⟩
      · cases first <;> simp [hb1, hb2]
      · simp [callsOf_implicitPre, hc1, hc2]
      · cases first <;> simp [hi1, hi2]; omega
      · rintro rfl
        simp only [Bool.false_eq_true, if_false, List.cons_append, List.nil_append]
        apply Grouped.line
        have e : its1 ++ Item.call c :: its' = (its1 ++ [.call c]) ++ its' := by simp
        rw [e]
        exact (Grouped.single hc1 (GroupShape.of_instr rfl hi1)
          (by simpa [callOfLines_implicit] using hk1) hr1).append hg2
      · rintro rfl _ m
        simp only [if_true, List.nil_append]
        have e : its1 ++ Item.call c :: its' = (its1 ++ [.call c]) ++ its' := by simp
        rw [e]
        exact (Grouped.single hc1 (GroupShape.of_instr rfl hi1)
          (by simpa [callOfLines_drawHdr] using hk1) hr1).append hg2
      · intro k
        unfold decodeReps
        simp only
        rw [happ1 k]
        simp only
        rw [happ2 k]
        simp

theorem decodeReps_error (op : RepOp) : ∀ (n : Nat) (first : Bool) {src : Bytes} {its : List Item} {e : DecErr},
    decodeReps op n first src = (its, .error e) →
    2 * (callsOf its).length ≤ src.length ∧ (∀ c ∈ callsOf its, isReset c = false) ∧ e = .invalidNumber ∧
      ∀ k, callsOf its <+: callsOf (decodeReps op n first (src ++ k)).1
  | 0, first, src, its, e, h => by simp [decodeReps] at h
  | n + 1, first, src, its, e, h => by
    unfold decodeReps at h
    rcases h1 : decodeRep op src with ⟨its1, _ | ⟨c, r1⟩⟩ <;> rw [h1] at h <;> simp only at h
    · simp at h
      obtain ⟨rfl, rfl⟩ := h
      have hc1 : callsOf its1 = [] := by have := decodeRep_calls op src; rwa [h1] at this
      simp [callsOf_implicitPre, hc1]
    · obtain ⟨p1, rfl, hb1, hc1, hl1, hk1, hi1, hr1, happ1⟩ := decodeRep_some h1
      rcases h2 : decodeReps op n false r1 with ⟨its', r⟩
      rw [h2] at h
      simp at h
      obtain ⟨rfl, rfl⟩ := h
      obtain ⟨hl2, hn2, he2, hp2⟩ := decodeReps_error op n false h2
      refine ⟨?_, ?_, he2, ?_⟩
      · simp [callsOf_implicitPre, hc1]; omega
      · intro c' hc'
        simp [callsOf_implicitPre, hc1] at hc'
        rcases hc' with rfl | hc'
        · exact hr1
        · exact hn2 _ hc'
      · intro k
        unfold decodeReps
        simp only
        rw [happ1 k]
        simp only
        rcases hq : decodeReps op n false (r1 ++ k) with ⟨q1, q2⟩
        have := hp2 k
        rw [hq] at this
        simpa [callsOf_implicitPre, hc1] using this


/-! ## single instructions -/

abbrev StepFn := Bytes → List Item × Except DecErr (DMode × Bytes)

/-- what a successful instruction decoder `f` guarantees: it consumed the non-empty prefix `pre`, the
    byte columns of its lines are exactly `pre`, it delivered between 1 and `|pre|` calls, as many as
    it printed instruction lines, each call is the one denoted by its group of lines, and the result
    is the same whatever follows the instruction. -/
def OkSpec (f : StepFn) (src : Bytes) (its : List Item) (m' : DMode) (rest : Bytes) : Prop :=
  ∃ pre, pre ≠ [] ∧ src = pre ++ rest ∧ bytesOf its = pre ∧ 1 ≤ (callsOf its).length ∧
    (callsOf its).length ≤ pre.length ∧ instrCount its = (callsOf its).length ∧ Grouped [] its ∧
    ∀ k, f (src ++ k) = (its, .ok (m', rest ++ k))

/-- what a failing instruction decoder guarantees about the calls it delivered before failing -/
def ErrSpec (f : StepFn) (src : Bytes) (its : List Item) : Prop :=
  (callsOf its).length ≤ src.length ∧ (∀ c ∈ callsOf its, isReset c = false) ∧
    ∀ k, callsOf its <+: callsOf (f (src ++ k)).1

def StepSpec (f : StepFn) (src : Bytes) : Prop :=
  match f src with
  | (its, .ok (m', rest)) => OkSpec f src its m' rest
  | (its, .error _) => ErrSpec f src its

theorem ErrSpec.of_nil {f : StepFn} {src : Bytes} {its : List Item} (h : callsOf its = []) :
    ErrSpec f src its := by
  simp [ErrSpec, h]

/-- instructions made of the opcode line, call-free operand lines and one call -/
def InstrSpec (opcode : UInt8) (kind : LineKind) (g : StepFn) (rest0 : Bytes) : Prop :=
  match g rest0 with
  | (its, .ok (m', rest)) =>
    ∃ ops c pre, its = .line ⟨[opcode], kind⟩ :: ops ++ [.call c] ∧ rest0 = pre ++ rest ∧ bytesOf ops = pre ∧
      callsOf ops = [] ∧ instrCount ops = 0 ∧ callOfLines (kind :: kindsOf ops) = some c ∧
      isReset c = false ∧ ∀ k, g (rest0 ++ k) = (its, .ok (m', rest ++ k))
  | (its, .error _) => callsOf its = []

theorem StepSpec.of_instr {f g : StepFn} {opcode : UInt8} {kind : LineKind} {rest0 : Bytes}
    (hk : isInstrKind kind = true) (hf : ∀ r, f (opcode :: r) = g r) (h : InstrSpec opcode kind g rest0) :
    StepSpec f (opcode :: rest0) := by
  unfold StepSpec
  unfold InstrSpec at h
  rw [hf]
  rcases hg : g rest0 with ⟨its, (e | ⟨m', rest⟩)⟩ <;> rw [hg] at h <;> simp only at h ⊢
  · exact .of_nil h
  · obtain ⟨ops, c, pre, rfl, rfl, hb, hc, hi, hcl, hr, happ⟩ := h
    refine ⟨opcode :: pre, by simp, by simp, by simp [hb], by simp [hc], by simp [hc], ?_, ?_, ?_⟩
    · simp [hc, hi, hk]
    · apply Grouped.line
      exact Grouped.single hc (GroupShape.of_instr hk hi) (by simpa using hcl) hr
    · intro k
      rw [List.cons_append, hf]
      exact happ k

def cregSel (sel : Nat) : Nat × Nat × (Bytes → Option (Color × Bytes)) :=
  match sel with
  | 0 => (1, 0, Dec.decodeColor1)
  | 1 => (2, 0, decodeColor2)
  | 2 => (3, 1, decodeColor3Direct)
  | 3 => (4, 0, decodeColor4)
  | _ => (3, 2, decodeColor3Indirect)

def nregSel (sel : Nat) : Nat × (Bytes → Option (F32 × Bytes)) :=
  match sel with
  | 0 => (0, decodeReal)
  | 1 => (1, decodeCoordinate)
  | _ => (2, decodeZeroToOne)

theorem cregSel_colDec (sel : Nat) : ColDec (cregSel sel).2.2 := by
  unfold cregSel; split
  · exact colDec_1
  · exact colDec_2
  · exact colDec_3d
  · exact colDec_4
  · exact colDec_3i

theorem nregSel_numDec (sel : Nat) : NumDec (nregSel sel).2 := by
  unfold nregSel; split
  · exact numDec_real
  · exact numDec_coordinate
  · exact numDec_zeroToOne

/-- the ADJ value a SetCReg/SetNReg opcode carries (7 means "increment": ADJ 0) -/
def adjOf (opcode : UInt8) : UInt8 := if (opcode &&& 0x07 == 7) = true then 0 else opcode &&& 0x07

def cregBody (opcode : UInt8) (rest : Bytes) : List Item × Except DecErr (DMode × Bytes) :=
  let T := cregSel ((opcode - 0x80) >>> 3).toNat
  let l0 : Item := .line ⟨[opcode], .setCReg (adjOf opcode) (opcode &&& 0x07 == 7) T.1 T.2.1⟩
  match T.2.2 rest with
  | none => ([l0], .error .invalidColor)
  | some (c, rest') =>
    ([l0, .line ⟨consumed rest rest', .color c⟩, .call (.setCReg (adjOf opcode) (opcode &&& 0x07 == 7) c)],
     .ok (.styling, rest'))

def nregBody (opcode : UInt8) (rest : Bytes) : List Item × Except DecErr (DMode × Bytes) :=
  let T := nregSel ((opcode - 0xa8) >>> 3).toNat
  let l0 : Item := .line ⟨[opcode], .setNReg (adjOf opcode) (opcode &&& 0x07 == 7) T.1⟩
  match T.2 rest with
  | none => ([l0], .error .invalidNumber)
  | some (f, rest') =>
    ([l0, .line ⟨consumed rest rest', .nregNumber f⟩, .call (.setNReg (adjOf opcode) (opcode &&& 0x07 == 7) f)],
     .ok (.styling, rest'))

def twoNum (dnf : Bytes → Option (F32 × Bytes)) (l0 : Item) (mk : F32 → F32 → Call F32) (m : DMode)
    (rest : Bytes) : List Item × Except DecErr (DMode × Bytes) :=
  match decodeNumber dnf rest with
  | none => ([l0], .error .invalidNumber)
  | some (lx, x, rest1) =>
    match decodeNumber dnf rest1 with
    | none => ([l0, lx], .error .invalidNumber)
    | some (ly, y, rest2) => ([l0, lx, ly, .call (mk x y)], .ok (m, rest2))

theorem decodeStyling_creg (opcode : UInt8) (rest : Bytes) (h1 : ¬ opcode < 0x80) (h2 : opcode < 0xa8) :
    decodeStyling (opcode :: rest) = cregBody opcode rest := by
  simp only [decodeStyling, h1, h2, if_true, if_false]
  rfl

theorem decodeStyling_nreg (opcode : UInt8) (rest : Bytes) (h1 : ¬ opcode < 0x80) (h2 : ¬ opcode < 0xa8)
    (h3 : opcode < 0xc0) : decodeStyling (opcode :: rest) = nregBody opcode rest := by
  simp only [decodeStyling, h1, h2, h3, if_true, if_false]
  rfl

theorem decodeStyling_startPath (opcode : UInt8) (rest : Bytes) (h1 : ¬ opcode < 0x80) (h2 : ¬ opcode < 0xa8)
    (h3 : ¬ opcode < 0xc0) (h4 : opcode < 0xc7) :
    decodeStyling (opcode :: rest) =
      twoNum decodeCoordinate (.line ⟨[opcode], .startPath (opcode &&& 0x07)⟩)
        (fun x y => .startPath (opcode &&& 0x07) x y) .drawing rest := by
  simp only [decodeStyling, h1, h2, h3, h4, if_true, if_false]
  rfl

theorem decodeStyling_setLOD (rest : Bytes) :
    decodeStyling (0xc7 :: rest) =
      twoNum decodeReal (.line ⟨[0xc7], .setLOD⟩) (fun x y => .setLOD x y) .styling rest := by
  rfl

theorem cregBody_spec (opcode : UInt8) (rest0 : Bytes) :
    InstrSpec opcode (.setCReg (adjOf opcode) (opcode &&& 0x07 == 7)
      (cregSel ((opcode - 0x80) >>> 3).toNat).1 (cregSel ((opcode - 0x80) >>> 3).toNat).2.1)
      (cregBody opcode) rest0 := by
  have hd := cregSel_colDec ((opcode - 0x80) >>> 3).toNat
  unfold InstrSpec cregBody
  generalize cregSel ((opcode - 0x80) >>> 3).toNat = T at hd ⊢
  rcases hdec : T.2.2 rest0 with _ | ⟨c, rest'⟩
  · simp [hdec]
  · obtain ⟨pre, hne, rfl⟩ := hd.split hdec
    simp only [hdec]
    refine ⟨[.line ⟨pre, .color c⟩], _, pre, by simp, rfl, by simp, rfl, by simp, rfl, rfl, ?_⟩
    intro k
    rw [hd.app hdec k]
    simp

theorem nregBody_spec (opcode : UInt8) (rest0 : Bytes) :
    InstrSpec opcode (.setNReg (adjOf opcode) (opcode &&& 0x07 == 7)
      (nregSel ((opcode - 0xa8) >>> 3).toNat).1) (nregBody opcode) rest0 := by
  have hd := nregSel_numDec ((opcode - 0xa8) >>> 3).toNat
  unfold InstrSpec nregBody
  generalize nregSel ((opcode - 0xa8) >>> 3).toNat = T at hd ⊢
  rcases hdec : T.2 rest0 with _ | ⟨c, rest'⟩
  · simp [hdec]
  · obtain ⟨pre, hne, rfl⟩ := hd.split hdec
    simp only [hdec]
    refine ⟨[.line ⟨pre, .nregNumber c⟩], _, pre, by simp, rfl, by simp, rfl, by simp, rfl, rfl, ?_⟩
    intro k
    rw [hd.app hdec k]
    simp

theorem twoNum_spec {dnf} (hd : NumDec dnf) (opcode : UInt8) (kind : LineKind) (mk : F32 → F32 → Call F32)
    (m : DMode) (hk : ∀ x y, callOfLines [kind, .number x, .number y] = some (mk x y))
    (hr : ∀ x y, isReset (mk x y) = false) (rest0 : Bytes) :
    InstrSpec opcode kind (twoNum dnf (.line ⟨[opcode], kind⟩) mk m) rest0 := by
  unfold InstrSpec
  rcases h1 : decodeNumber dnf rest0 with _ | ⟨lx, x, rest1⟩
  · simp [twoNum, h1]
  · obtain ⟨p1, _, rfl, rfl, _, happ1⟩ := decodeNumber_some hd h1
    rcases h2 : decodeNumber dnf rest1 with _ | ⟨ly, y, rest2⟩
    · simp [twoNum, h1, h2]
    · obtain ⟨p2, _, rfl, rfl, _, happ2⟩ := decodeNumber_some hd h2
      simp only [twoNum, h1, h2]
      refine ⟨[.line ⟨p1, .number x⟩, .line ⟨p2, .number y⟩], _, p1 ++ p2, by simp, by simp, by simp, rfl,
        by simp, hk x y, hr x y, ?_⟩
      intro k
      simp only [happ1 k, happ2 k]

theorem single2_spec (opcode : UInt8) (kind : LineKind) (mk : F32 → F32 → Call F32)
    (hk : ∀ x y, callOfLines [kind, .number x, .number y] = some (mk x y))
    (hr : ∀ x y, isReset (mk x y) = false) (rest0 : Bytes) :
    InstrSpec opcode kind (single2 opcode kind mk) rest0 := by
  unfold InstrSpec single2
  rcases h1 : decodeCoordinates 2 rest0 with ⟨its, _ | ⟨xs, rest'⟩⟩
  · have hc := (decodeCoordinates_calls 2 rest0).1
    rw [h1] at hc
    simpa using hc
  · obtain ⟨pre, rfl, hb, hc, hl, _, hkk, happ⟩ := decodeCoordinates_some 2 h1
    obtain ⟨x, y, rfl⟩ : ∃ x y, xs = [x, y] := by
      match xs, hl with
      | [x, y], _ => exact ⟨x, y, rfl⟩
    simp only
    refine ⟨its, _, pre, by simp, rfl, hb, hc, instrCount_of_numbers hkk, by rw [hkk]; exact hk x y,
      hr x y, ?_⟩
    intro k
    rw [happ k]

theorem single1_spec (opcode : UInt8) (kind : LineKind) (mk : F32 → Call F32)
    (hk : ∀ x, callOfLines [kind, .number x] = some (mk x))
    (hr : ∀ x, isReset (mk x) = false) (rest0 : Bytes) :
    InstrSpec opcode kind (single1 opcode kind mk) rest0 := by
  unfold InstrSpec single1
  rcases h1 : decodeCoordinates 1 rest0 with ⟨its, _ | ⟨xs, rest'⟩⟩
  · have hc := (decodeCoordinates_calls 1 rest0).1
    rw [h1] at hc
    simpa using hc
  · obtain ⟨pre, rfl, hb, hc, hl, _, hkk, happ⟩ := decodeCoordinates_some 1 h1
    obtain ⟨x, rfl⟩ : ∃ x, xs = [x] := by
      match xs, hl with
      | [x], _ => exact ⟨x, rfl⟩
    simp only
    refine ⟨its, _, pre, by simp, rfl, hb, hc, instrCount_of_numbers hkk, by rw [hkk]; exact hk x,
      hr x, ?_⟩
    intro k
    rw [happ k]


/-! ## `decodeStyling`, `decodeDrawing`, `stepDec` -/

theorem decodeStyling_spec (src : Bytes) : StepSpec decodeStyling src := by
  cases src with
  | nil => exact ErrSpec.of_nil rfl
  | cons opcode rest0 =>
    by_cases h1 : opcode < 0x80
    · by_cases h2 : opcode < 0x40
      · refine StepSpec.of_instr (kind := .setCSel (opcode &&& 0x3f))
          (g := fun r => ([.line ⟨[opcode], .setCSel (opcode &&& 0x3f)⟩, .call (.setCSel (opcode &&& 0x3f))],
            .ok (.styling, r))) rfl (fun r => by simp [decodeStyling, h1, h2]) ?_
        exact ⟨[], _, [], rfl, rfl, rfl, rfl, rfl, rfl, rfl, fun k => rfl⟩
      · refine StepSpec.of_instr (kind := .setNSel (opcode &&& 0x3f))
          (g := fun r => ([.line ⟨[opcode], .setNSel (opcode &&& 0x3f)⟩, .call (.setNSel (opcode &&& 0x3f))],
            .ok (.styling, r))) rfl (fun r => by simp [decodeStyling, h1, h2]) ?_
        exact ⟨[], _, [], rfl, rfl, rfl, rfl, rfl, rfl, rfl, fun k => rfl⟩
    · by_cases h2 : opcode < 0xa8
      · exact StepSpec.of_instr rfl (fun r => decodeStyling_creg opcode r h1 h2) (cregBody_spec opcode rest0)
      · by_cases h3 : opcode < 0xc0
        · exact StepSpec.of_instr rfl (fun r => decodeStyling_nreg opcode r h1 h2 h3)
            (nregBody_spec opcode rest0)
        · by_cases h4 : opcode < 0xc7
          · exact StepSpec.of_instr rfl (fun r => decodeStyling_startPath opcode r h1 h2 h3 h4)
              (twoNum_spec numDec_coordinate opcode _ _ _ (fun _ _ => rfl) (fun _ _ => rfl) rest0)
          · by_cases h5 : opcode = 0xc7
            · subst h5
              exact StepSpec.of_instr rfl (fun r => decodeStyling_setLOD r)
                (twoNum_spec numDec_real _ _ _ _ (fun _ _ => rfl) (fun _ _ => rfl) rest0)
            · have : decodeStyling (opcode :: rest0) = ([], .error .unsupportedStylingOpcode) := by
                simp [decodeStyling, h1, h2, h3, h4, h5]
              unfold StepSpec
              rw [this]
              exact ErrSpec.of_nil rfl

theorem decodeDrawing_reps (opcode : UInt8) (rest : Bytes) (h : opcode < 0xe0) :
    decodeDrawing (opcode :: rest) =
      (let hi := (opcode >>> 4).toNat
       let nReps := if hi < 4 then 1 + (opcode &&& 0x1f).toNat else 1 + (opcode &&& 0x0f).toNat
       let l0 : Item := .line ⟨[opcode], .drawHdr (repOpOf hi) nReps⟩
       match decodeReps (repOpOf hi) nReps true rest with
       | (its, .error e) => (l0 :: its, .error e)
       | (its, .ok rest') => (l0 :: its, .ok (.drawing, rest'))) := by
  simp only [decodeDrawing, h, if_true]
  rfl

theorem decodeDrawing_spec (src : Bytes) : StepSpec decodeDrawing src := by
  cases src with
  | nil => exact ErrSpec.of_nil rfl
  | cons opcode rest0 =>
    by_cases h1 : opcode < 0xe0
    · unfold StepSpec
      rw [decodeDrawing_reps opcode rest0 h1]
      simp only
      generalize hop : repOpOf (opcode >>> 4).toNat = op
      generalize hn : (if (opcode >>> 4).toNat < 4 then 1 + (opcode &&& 0x1f).toNat
        else 1 + (opcode &&& 0x0f).toNat) = n
      have hn0 : n ≠ 0 := by rw [← hn]; split <;> omega
      rcases hr : decodeReps op n true rest0 with ⟨its, (e | rest)⟩ <;> simp only
      · obtain ⟨hl, hnr, _, hp⟩ := decodeReps_error op n true hr
        refine ⟨by simp; omega, by simpa using hnr, ?_⟩
        intro k
        rw [List.cons_append, decodeDrawing_reps opcode _ h1]
        simp only [hop, hn]
        have := hp k
        rcases hq : decodeReps op n true (rest0 ++ k) with ⟨q1, (e' | q2)⟩ <;> rw [hq] at this <;>
          simpa using this
      · obtain ⟨pre, rfl, hb, hc, hl, hi, _, hg, happ⟩ := decodeReps_ok op n true hr
        refine ⟨opcode :: pre, by simp, by simp, by simp [hb], by simp [hc]; omega,
          by simp [hc]; omega, ?_, ?_, ?_⟩
        · simp [hi, hc]; omega
        · exact Grouped.line (hg rfl hn0 n)
        · intro k
          rw [List.cons_append, decodeDrawing_reps opcode _ h1]
          simp only [hop, hn, happ k]
    · have e1 : ∀ r, decodeDrawing (0xe1 :: r) = ([.line ⟨[0xe1], .closeEnd⟩, .call .closeEnd], .ok (.styling, r)) :=
        fun r => rfl
      by_cases h2 : opcode = 0xe1
      · subst h2
        refine StepSpec.of_instr (kind := .closeEnd) rfl e1 ?_
        exact ⟨[], _, [], rfl, rfl, rfl, rfl, rfl, rfl, rfl, fun k => rfl⟩
      · by_cases h3 : opcode = 0xe2
        · subst h3
          exact StepSpec.of_instr rfl (fun r => rfl) (single2_spec _ _ _ (fun _ _ => rfl) (fun _ _ => rfl) rest0)
        · by_cases h4 : opcode = 0xe3
          · subst h4
            exact StepSpec.of_instr rfl (fun r => rfl) (single2_spec _ _ _ (fun _ _ => rfl) (fun _ _ => rfl) rest0)
          · by_cases h5 : opcode = 0xe6
            · subst h5
              exact StepSpec.of_instr rfl (fun r => rfl) (single1_spec _ _ _ (fun _ => rfl) (fun _ => rfl) rest0)
            · by_cases h6 : opcode = 0xe7
              · subst h6
                exact StepSpec.of_instr rfl (fun r => rfl) (single1_spec _ _ _ (fun _ => rfl) (fun _ => rfl) rest0)
              · by_cases h7 : opcode = 0xe8
                · subst h7
                  exact StepSpec.of_instr rfl (fun r => rfl)
                    (single1_spec _ _ _ (fun _ => rfl) (fun _ => rfl) rest0)
                · by_cases h8 : opcode = 0xe9
                  · subst h8
                    exact StepSpec.of_instr rfl (fun r => rfl)
                      (single1_spec _ _ _ (fun _ => rfl) (fun _ => rfl) rest0)
                  · have : decodeDrawing (opcode :: rest0) = ([], .error .unsupportedDrawingOpcode) := by
                      simp [decodeDrawing, h1, h2, h3, h4, h5, h6, h7, h8]
                    unfold StepSpec
                    rw [this]
                    exact ErrSpec.of_nil rfl

theorem stepDec_spec (m : DMode) (src : Bytes) : StepSpec (stepDec m) src := by
  cases m
  · exact decodeStyling_spec src
  · exact decodeDrawing_spec src

theorem stepDec_ok {m : DMode} {src : Bytes} {its : List Item} {m' : DMode} {rest : Bytes}
    (h : stepDec m src = (its, .ok (m', rest))) : OkSpec (stepDec m) src its m' rest := by
  have := stepDec_spec m src
  unfold StepSpec at this
  rw [h] at this
  exact this

theorem stepDec_error {m : DMode} {src : Bytes} {its : List Item} {e : DecErr}
    (h : stepDec m src = (its, .error e)) : ErrSpec (stepDec m) src its := by
  have := stepDec_spec m src
  unfold StepSpec at this
  rw [h] at this
  exact this


/-- each instruction consumes at least one byte (the termination argument of the Go loop), and the
    byte columns of its lines are exactly the consumed bytes, in order -/
theorem stepDec_consumes {m : DMode} {src : Bytes} {its : List Item} {m' : DMode} {rest : Bytes}
    (h : stepDec m src = (its, .ok (m', rest))) :
    ∃ pre, pre ≠ [] ∧ src = pre ++ rest ∧ bytesOf its = pre := by
  obtain ⟨pre, h1, h2, h3, _⟩ := stepDec_ok h
  exact ⟨pre, h1, h2, h3⟩

theorem stepDec_rest_lt {m : DMode} {src : Bytes} {its : List Item} {m' : DMode} {rest : Bytes}
    (h : stepDec m src = (its, .ok (m', rest))) : rest.length < src.length := by
  obtain ⟨pre, h1, rfl, _⟩ := stepDec_consumes h
  have : 0 < pre.length := List.length_pos_iff.mpr h1
  simp; omega

/-! ## the instruction loop: fuel is irrelevant -/

theorem loop_nil (fuel : Nat) (m : DMode) : loop fuel m [] = ([], none) := by
  cases fuel <;> rfl

/-- with more fuel than input bytes the loop never runs out of fuel: the result does not depend on it -/
theorem loop_fuel_irrelevant : ∀ (f1 f2 : Nat) (m : DMode) (src : Bytes),
    src.length < f1 → src.length < f2 → loop f1 m src = loop f2 m src
  | 0, _, _, _, h, _ => absurd h (Nat.not_lt_zero _)
  | _ + 1, 0, _, _, _, h => absurd h (Nat.not_lt_zero _)
  | f1 + 1, f2 + 1, m, [], _, _ => rfl
  | f1 + 1, f2 + 1, m, x :: s, h1, h2 => by
    unfold loop
    rcases hs : stepDec m (x :: s) with ⟨its, (e | ⟨m', rest⟩)⟩
    · rfl
    · simp only
      have hl := stepDec_rest_lt hs
      simp only [List.length_cons] at hl h1 h2
      rw [loop_fuel_irrelevant f1 f2 m' rest (by omega) (by omega)]

/-- the loop with canonical fuel -/
def run (m : DMode) (src : Bytes) : List Item × Option DecErr := loop (src.length + 1) m src

theorem loop_eq_run {fuel : Nat} {m : DMode} {src : Bytes} (h : src.length < fuel) :
    loop fuel m src = run m src :=
  loop_fuel_irrelevant _ _ m src h (Nat.lt_succ_self _)

@[simp] theorem run_nil (m : DMode) : run m [] = ([], none) := rfl

/-- one instruction, then the rest -/
theorem run_step {m : DMode} {src : Bytes} (hne : src ≠ []) :
    run m src = match stepDec m src with
      | (its, .error e) => (its, some e)
      | (its, .ok (m', rest)) => (its ++ (run m' rest).1, (run m' rest).2) := by
  cases src with
  | nil => exact absurd rfl hne
  | cons x s =>
    conv => lhs; unfold run; rw [List.length_cons]; unfold loop
    rcases hs : stepDec m (x :: s) with ⟨its, (e | ⟨m', rest⟩)⟩
    · rfl
    · simp only
      have hl := stepDec_rest_lt hs
      simp only [List.length_cons] at hl
      rw [loop_eq_run (by omega)]

theorem loop_step {m : DMode} {src : Bytes} (hne : src ≠ []) :
    loop (src.length + 1) m src = match stepDec m src with
      | (its, .error e) => (its, some e)
      | (its, .ok (m', rest)) =>
        (its ++ (loop (rest.length + 1) m' rest).1, (loop (rest.length + 1) m' rest).2) :=
  run_step hne

theorem run_step_error {m : DMode} {src : Bytes} {its : List Item} {e : DecErr} (hne : src ≠ [])
    (h : stepDec m src = (its, .error e)) : run m src = (its, some e) := by
  rw [run_step hne, h]

theorem run_step_ok {m : DMode} {src : Bytes} {its : List Item} {m' : DMode} {rest : Bytes}
    (h : stepDec m src = (its, .ok (m', rest))) :
    run m src = (its ++ (run m' rest).1, (run m' rest).2) := by
  have hne : src ≠ [] := by
    obtain ⟨pre, h1, rfl, _⟩ := stepDec_consumes h
    simpa using fun h => absurd h h1
  rw [run_step hne, h]

/-- induction over the instructions of a run -/
theorem run_induction {P : DMode → Bytes → List Item × Option DecErr → Prop}
    (hnil : ∀ m, P m [] ([], none))
    (herr : ∀ m src its e, src ≠ [] → stepDec m src = (its, .error e) → P m src (its, some e))
    (hok : ∀ m src its m' rest, stepDec m src = (its, .ok (m', rest)) → P m' rest (run m' rest) →
      P m src (its ++ (run m' rest).1, (run m' rest).2)) :
    ∀ m src, P m src (run m src) := by
  suffices ∀ n m src, src.length = n → P m src (run m src) from fun m src => this _ m src rfl
  intro n
  induction n using Nat.strongRecOn with
  | _ n ih =>
    intro m src hn
    by_cases hne : src = []
    · subst hne; exact hnil m
    · rcases hs : stepDec m src with ⟨its, (e | ⟨m', rest⟩)⟩
      · rw [run_step_error hne hs]; exact herr m src its e hne hs
      · rw [run_step_ok hs]
        have hl := stepDec_rest_lt hs
        exact hok m src its m' rest hs (ih rest.length (by omega) m' rest rfl)

end Ivg.DecL
