import Ivg.Spec.VM
import Ivg.Model.Renderer
import Ivg.Model.Arc
import Ivg.Model.VecRaster
/-!
# The Renderer model refines the specification's virtual machine (C04, and the colour part of C16)
-/
namespace Ivg.Lemmas.RendererVM
open Ivg Ivg.Ren Ivg.Grad Ivg.Spec.VM

variable {α β : Type} [Arith α] [Arith β] [Wide α β]
set_option linter.unusedSectionVars false
set_option linter.constructorNameAsVariable false

/-! ## indices -/

theorem wrap_val (i : Int) : (wrap i).val = (i % 64).toNat := rfl

/-- `(sel - adj) & 0x3f` on `uint8` is `CSEL - ADJ` modulo 64, for every selector byte and adjustment -/
theorem sel_index (c a : UInt8) :
    (c - a).toNat % 64 = (sub ⟨c.toNat % 64, Nat.mod_lt _ (by decide)⟩ a).val := by
  simp only [sub, wrap_val, UInt8.toNat_sub]
  have := c.toNat_lt; have := a.toNat_lt
  omega

theorem mask_index (v : UInt8) : (v &&& 0x3f).toNat = v.toNat % 64 := by
  rw [UInt8.toNat_and]
  exact Nat.and_two_pow_sub_one_eq_mod v.toNat 6

theorem incr_index (c : UInt8) :
    ((c + 1) &&& 0x3f).toNat % 64 = (wrap (((c.toNat % 64 : Nat) : Int) + 1)).val := by
  rw [mask_index, wrap_val, UInt8.toNat_add]
  have := c.toNat_lt
  simp
  omega


/-! ## abstraction -/

/-- the machine state a Renderer represents (selectors are read modulo 64; `sel_bounds` shows they
    are in fact always below 64 after `Reset`) -/
def absVM (z : Renderer α β) : VM α :=
  { palette := z.palette
    cReg := fun i => z.cReg[i.val]
    nReg := fun i => z.nReg[i.val]
    cSel := ⟨z.cSel.toNat % 64, Nat.mod_lt _ (by decide)⟩
    nSel := ⟨z.nSel.toNat % 64, Nat.mod_lt _ (by decide)⟩
    lod0 := z.lod0
    lod1 := z.lod1 }

theorem get6_abs_c (z : Renderer α β) (i : UInt8) :
    z.cReg.get6 i = (absVM z).cReg ⟨i.toNat % 64, Nat.mod_lt _ (by decide)⟩ := rfl
theorem get6_abs_n (z : Renderer α β) (i : UInt8) :
    z.nReg.get6 i = (absVM z).nReg ⟨i.toNat % 64, Nat.mod_lt _ (by decide)⟩ := rfl

theorem dc1Table_eq_chan5 (i : Nat) : dc1Table i = chan5 i :=
  match i with
  | 0 => rfl | 1 => rfl | 2 => rfl | 3 => rfl | _ + 4 => rfl

theorem blendChan_eq_blend1 : @blendChan = @blend1 := rfl

/-- the specification's 1-byte colour table, resolved, is what `DecodeColor1` + `Resolve` compute -/
theorem color1_eq (z : Renderer α β) (x : UInt8) :
    (decodeColor1 x).resolve1 z.palette z.cReg = (absVM z).color1 x := by
  unfold decodeColor1 VM.color1
  have hx := x.toNat_lt
  simp only [ge_iff_le, UInt8.le_iff_toNat_le]
  by_cases h80 : (0x80 : UInt8).toNat ≤ x.toNat
  · have h80' : 128 ≤ x.toNat := h80
    rw [if_pos h80]
    by_cases hc0 : (0xc0 : UInt8).toNat ≤ x.toNat
    · have hc0' : 192 ≤ x.toNat := hc0
      rw [if_pos hc0]
      simp only [Color.cRegColor, Color.resolve1, Regs.get6]
      have hi : ((x &&& 0x3f) &&& 0x3f).toNat % 64 = x.toNat - 192 := by
        rw [mask_index, mask_index]; omega
      rw [if_neg (by omega), if_neg (by omega), if_neg (by omega), if_neg (by omega), dif_neg (by omega)]
      simp only [absVM]
      exact getElem_congr_idx hi
    · have hc0' : x.toNat < 192 := Nat.lt_of_not_le hc0
      rw [if_neg hc0]
      simp only [Color.paletteIndexColor, Color.resolve1, Regs.get6]
      have hi : ((x &&& 0x3f) &&& 0x3f).toNat % 64 = x.toNat - 128 := by
        rw [mask_index, mask_index]; omega
      rw [if_neg (by omega), if_neg (by omega), if_neg (by omega), if_neg (by omega), dif_pos hc0']
      simp only [absVM]
      exact getElem_congr_idx hi
  · have h80' : x.toNat < 128 := Nat.lt_of_not_le h80
    rw [if_neg h80]
    by_cases h125 : x = 125
    · subst h125; rfl
    by_cases h126 : x = 126
    · subst h126; rfl
    by_cases h127 : x = 127
    · subst h127; rfl
    rw [if_neg h125, if_neg h126, if_neg h127]
    have n125 : x.toNat ≠ 125 := fun h => h125 (UInt8.toNat_inj.mp h)
    have n126 : x.toNat ≠ 126 := fun h => h126 (UInt8.toNat_inj.mp h)
    have n127 : x.toNat ≠ 127 := fun h => h127 (UInt8.toNat_inj.mp h)
    rw [if_pos (by omega)]
    simp only [Color.rgbaColor, Color.resolve1, dc1Table_eq_chan5]

/-- colour resolution at store time: `Color.Resolve` is the specification's resolution -/
theorem resolve_eq (z : Renderer α β) (c : Color) :
    c.resolve z.palette z.cReg = (absVM z).resolve c := by
  unfold Color.resolve VM.resolve
  cases h : c.typ
  · simp only [Color.resolve1, h]
  · simp only [Color.resolve1, h, Regs.get6]
    apply getElem_congr_idx
    rw [mask_index]; omega
  · simp only [Color.resolve1, h, Regs.get6, absVM]
    apply getElem_congr_idx
    rw [mask_index]; omega
  · simp only [color1_eq, blendChan_eq_blend1]


/-! ## styling calls -/

/-- the six styling methods of `ivg.Destination` (including `Reset`) -/
def isStyling : Call α → Bool
  | .reset .. | .setCSel _ | .setNSel _ | .setCReg .. | .setNReg .. | .setLOD .. => true
  | _ => false

/-- the drawing methods other than `ClosePathEndPath` -/
def isSegment : Call α → Bool
  | .d1 .. | .d2 .. | .d4 .. | .d6 .. | .arc .. => true
  | _ => false

theorem set6_abs {γ : Type} (v : Regs γ) (i : UInt8) (x : γ) (j : Fin 64) :
    (v.set6 i x)[j.val] = upd (fun k : Fin 64 => v[k.val]) ⟨i.toNat % 64, Nat.mod_lt _ (by decide)⟩ x j := by
  simp only [Regs.set6, upd, Vector.getElem_set]
  by_cases h : i.toNat % 64 = j.val
  · rw [if_pos h, if_pos (Fin.ext h.symm)]
  · rw [if_neg h, if_neg (fun e => h (by rw [e]))]

theorem abs_reset (z : Renderer α β) (posInf : α) (vb : ViewBox α) (pal : Palette) :
    absVM (z.reset posInf vb pal) = VM.init posInf pal := by
  simp only [absVM, Renderer.reset, Renderer.recalcTransform, VM.init, Regs.const, Vector.getElem_replicate]
  rfl

theorem abs_setCSel (z : Renderer α β) (v : UInt8) :
    absVM { z with cSel := v &&& 0x3f } = { absVM z with cSel := wrap v.toNat } := by
  simp only [absVM, VM.mk.injEq, true_and, and_true]
  apply Fin.ext
  simp only [wrap_val, mask_index]; omega

theorem abs_setNSel (z : Renderer α β) (v : UInt8) :
    absVM { z with nSel := v &&& 0x3f } = { absVM z with nSel := wrap v.toNat } := by
  simp only [absVM, VM.mk.injEq, true_and, and_true]
  apply Fin.ext
  simp only [wrap_val, mask_index]; omega

/-- 1. every styling call emits no rasteriser call and commutes with the abstraction -/
theorem styling_refines (arc : ArcFn α β) (posInf : α) (z : Renderer α β) (c : Call α)
    (hc : isStyling c = true) :
    (z.step arc posInf c).2 = [] ∧ absVM (z.step arc posInf c).1 = (absVM z).step posInf c := by
  cases c <;> simp only [isStyling, Bool.false_eq_true] at hc
  case reset vb pal => exact ⟨rfl, abs_reset z posInf vb pal⟩
  case setCSel v => exact ⟨rfl, abs_setCSel z v⟩
  case setNSel v => exact ⟨rfl, abs_setNSel z v⟩
  case setLOD l0 l1 => exact ⟨rfl, rfl⟩
  case setCReg adj incr col =>
    refine ⟨by simp only [Renderer.step], ?_⟩
    have hstore : (fun j : Fin 64 => (z.cReg.set6 (z.cSel - adj) (col.resolve z.palette z.cReg))[j.val]) =
        upd (absVM z).cReg (sub (absVM z).cSel adj) ((absVM z).resolve col) := by
      funext j
      rw [set6_abs, resolve_eq]
      congr 1
      exact Fin.ext (sel_index z.cSel adj)
    cases incr
    · simp only [Renderer.step, VM.step, Bool.false_eq_true, if_false]
      simp only [absVM, VM.mk.injEq, true_and, and_true]
      exact hstore
    · simp only [Renderer.step, VM.step, if_true]
      simp only [absVM, VM.mk.injEq, true_and, and_true]
      exact ⟨hstore, Fin.ext (incr_index z.cSel)⟩
  case setNReg adj incr f =>
    refine ⟨by simp only [Renderer.step], ?_⟩
    have hstore : (fun j : Fin 64 => (z.nReg.set6 (z.nSel - adj) f)[j.val]) =
        upd (absVM z).nReg (sub (absVM z).nSel adj) f := by
      funext j
      rw [set6_abs]
      congr 1
      exact Fin.ext (sel_index z.nSel adj)
    cases incr
    · simp only [Renderer.step, VM.step, Bool.false_eq_true, if_false]
      simp only [absVM, VM.mk.injEq, true_and, and_true]
      exact hstore
    · simp only [Renderer.step, VM.step, if_true]
      simp only [absVM, VM.mk.injEq, true_and, and_true]
      exact ⟨hstore, Fin.ext (incr_index z.nSel)⟩


/-! ## validity predicates and gradient decoding -/

private theorem forall_u8 {p : UInt8 → Prop} : (∀ x, p x) ↔ ∀ i : Fin 256, p (UInt8.ofNat i.val) := by
  constructor
  · intro h i; exact h _
  · intro h x
    have := h ⟨x.toNat, x.toNat_lt⟩
    simpa using this

/-- `decide` can enumerate all 256 bytes -/
local instance decForallU8 {p : UInt8 → Prop} [DecidablePred p] : Decidable (∀ x, p x) :=
  decidable_of_iff _ forall_u8.symm

theorem validPremul_iff (c : RGBA) : c.validPremul = true ↔ premul c := by
  simp only [RGBA.validPremul, premul, Bool.and_eq_true, decide_eq_true_eq, UInt8.le_iff_toNat_le, and_assoc]

set_option maxRecDepth 100000 in
theorem topBit (b : UInt8) : (b &&& 0x80 != 0) = decide (128 ≤ b.toNat) := by
  revert b; decide +kernel

theorem validGradient_iff (c : RGBA) : c.validGradient = true ↔ isGradient c := by
  simp only [RGBA.validGradient, isGradient, Bool.and_eq_true, topBit, decide_eq_true_eq, beq_iff_eq,
    ← UInt8.toNat_inj]
  rfl

set_option maxRecDepth 100000 in
theorem shapeBits (b : UInt8) : (b >>> 6) &&& 0x01 = UInt8.ofNat (b.toNat / 64 % 2) := by
  revert b; decide +kernel
set_option maxRecDepth 100000 in
theorem spreadBits (g : UInt8) : (g >>> 6) &&& 0x03 = UInt8.ofNat (g.toNat / 64) := by
  revert g; decide +kernel

/-- a premultiplied colour is never a gradient (alpha 0 forces blue 0) -/
theorem premul_not_gradient (c : RGBA) (h : premul c) : ¬ isGradient c := by
  intro ⟨ha, hb⟩; have := h.2.2; omega

/-! ## gradient stops -/

theorem increasing_tail {a : α} {l : List α} (h : increasing (a :: l)) : increasing l := by
  cases l with
  | nil => trivial
  | cons b rest => exact h.2

theorem stopsValid_nil : stopsValid ([] : List (α × RGBA)) := by
  refine ⟨?_, ?_, trivial⟩ <;> intro s hs <;> cases hs

theorem stopsValid_cons (s : α × RGBA) (l : List (α × RGBA)) :
    stopsValid (s :: l) ↔
      premul s.2 ∧ (num0 ≤ s.1 ∧ s.1 ≤ num1) ∧ stopsValid l ∧ increasing (s.1 :: l.map (·.1)) := by
  simp only [stopsValid, List.forall_mem_cons, List.map_cons]
  constructor
  · rintro ⟨⟨h1, h2⟩, ⟨h3, h4⟩, h5⟩
    exact ⟨h1, h3, ⟨h2, h4, increasing_tail h5⟩, h5⟩
  · rintro ⟨h1, h3, ⟨h2, h4, _⟩, h5⟩
    exact ⟨⟨h1, h2⟩, ⟨h3, h4⟩, h5⟩

/-- the stop list the specification describes: offsets `NREG[NBASE+i]`, colours `CREG[CBASE+i]`,
    for `i = k, …, k+n-1` -/
def specStops (cReg : Regs RGBA) (nReg : Regs α) (cBase nBase : Nat) (k n : Nat) : List (α × RGBA) :=
  (List.range' k n).map fun i : Nat =>
    (nReg[(wrap ((nBase : Int) + (i : Int))).val], cReg[(wrap ((cBase : Int) + (i : Int))).val])

/-- a stop as the Renderer hands it to `Gradient.Init`: offset widened to float64, colour channels
    multiplied by `0x101` -/
def stopOf (s : α × RGBA) : Stop β := ⟨Wide.widen s.1, rgba64Of s.2⟩

theorem add_index (b i : UInt8) :
    (b + i).toNat % 64 = (wrap ((b.toNat : Int) + (i.toNat : Int))).val := by
  rw [wrap_val, UInt8.toNat_add]
  have := b.toNat_lt; have := i.toNat_lt
  omega

theorem sub_index (b k : UInt8) :
    (b - k).toNat % 64 = (wrap ((b.toNat : Int) + (-(k.toNat : Int)))).val := by
  rw [wrap_val, UInt8.toNat_sub]
  have := b.toNat_lt; have := k.toNat_lt
  omega

/-- the stop loop of `initGradient` accepts exactly the valid stop lists (each offset compared with
    its predecessor; `first` = there is no predecessor) and returns the specification's stops -/
theorem collectStops_spec (cReg : Regs RGBA) (nReg : Regs α) (cBase nBase : UInt8) :
    ∀ (n : Nat) (i : UInt8) (prev : α) (first : Bool), i.toNat + n < 256 →
      collectStops (β := β) cReg nReg cBase nBase n i prev first =
        if stopsValid (specStops cReg nReg cBase.toNat nBase.toNat i.toNat n) ∧
            (first = true ∨
              increasing (prev :: (specStops cReg nReg cBase.toNat nBase.toNat i.toNat n).map (·.1)))
        then some ((specStops cReg nReg cBase.toNat nBase.toNat i.toNat n).map stopOf) else none := by
  intro n
  induction n with
  | zero =>
    intro i prev first _
    simp only [collectStops, specStops, List.range'_zero, List.map_nil]
    rw [if_pos ⟨stopsValid_nil, Or.inr trivial⟩]
  | succ n ih =>
    intro i prev first hi
    have hi1 : (i + 1).toNat = i.toNat + 1 := by
      rw [UInt8.toNat_add]; have := i.toNat_lt; simp; omega
    have hrec := ih (i + 1) (nReg.get6 (nBase + i)) false (by rw [hi1]; omega)
    rw [hi1] at hrec
    have hc : cReg.get6 (cBase + i) = cReg[(wrap ((cBase.toNat : Int) + (i.toNat : Int))).val] :=
      getElem_congr_idx (add_index cBase i)
    have hn : nReg.get6 (nBase + i) = nReg[(wrap ((nBase.toNat : Int) + (i.toNat : Int))).val] :=
      getElem_congr_idx (add_index nBase i)
    have hcons : specStops cReg nReg cBase.toNat nBase.toNat i.toNat (n + 1) =
        (nReg.get6 (nBase + i), cReg.get6 (cBase + i)) ::
          specStops cReg nReg cBase.toNat nBase.toNat (i.toNat + 1) n := by
      simp only [specStops, List.range'_succ, List.map_cons, hc, hn]
    rw [hcons]
    simp only [collectStops]
    rw [hrec]
    generalize specStops cReg nReg cBase.toNat nBase.toNat (i.toNat + 1) n = rest
    generalize nReg.get6 (nBase + i) = v
    generalize cReg.get6 (cBase + i) = c
    simp only [stopsValid_cons, List.map_cons, Bool.false_eq_true, false_or]
    have hinc : increasing (prev :: v :: rest.map (·.1)) ↔ prev < v ∧ increasing (v :: rest.map (·.1)) :=
      Iff.rfl
    by_cases hp : c.validPremul = true
    · have hp' := (validPremul_iff c).mp hp
      simp only [hp, Bool.not_true, Bool.false_eq_true, if_false]
      by_cases hr : zeroA ≤ v ∧ v ≤ Arith.ofInt 1
      · have hr' : num0 ≤ v ∧ v ≤ num1 := hr
        by_cases hf : first = true ∨ prev < v
        · rw [if_neg (fun h => h.elim (fun a => a hr) (fun b => b hf))]
          by_cases hq : stopsValid rest ∧ increasing (v :: rest.map (·.1))
          · rw [if_pos hq,
              if_pos ⟨⟨hp', hr', hq.1, hq.2⟩, hf.elim Or.inl (fun h => Or.inr ⟨h, hq.2⟩)⟩]
            rfl
          · rw [if_neg hq, if_neg (fun h => hq ⟨h.1.2.2.1, h.1.2.2.2⟩)]
        · rw [if_pos (Or.inr hf), if_neg (fun h => hf (h.2.elim Or.inl (fun h' => Or.inr (hinc.mp h').1)))]
      · rw [if_pos (Or.inl hr), if_neg (fun h => hr h.1.2.1)]
    · have hp2 : c.validPremul = false := by simpa using hp
      simp only [hp2, Bool.not_false, if_true]
      rw [if_neg (fun h => hp ((validPremul_iff c).mpr h.1.1))]


/-! ## the paint of a path -/

/-- the pixel-space matrix `initGradient` derives from the specification's matrix `[a b c; d e f]`
    (viewBox space → gradient space) and the Renderer's viewBox-to-pixel transform -/
def pix2Grad (z : Renderer α β) (g : GradSpec α) : Aff3 β :=
  let one : β := Arith.ofInt 1
  let invZSX := one / Wide.widen z.scaleX
  let invZSY := one / Wide.widen z.scaleY
  let zBX : β := Wide.widen z.biasX
  let zBY : β := Wide.widen z.biasY
  let a : β := Wide.widen g.a
  let b : β := Wide.widen g.b
  let c : β := Wide.widen g.c
  let d : β := Wide.widen g.d
  let e : β := Wide.widen g.e
  let f : β := Wide.widen g.f
  ⟨a * invZSX, b * invZSY, c - a * zBX - b * zBY, d * invZSX, e * invZSY, f - d * zBX - e * zBY⟩

/-- the `image.Image` that realises a paint of the specification: the uniform colour itself, or the
    gradient `Gradient.Init` builds from the specification's shape, spread and stops (offsets widened,
    colours ×0x101) with the matrix moved to pixel space -/
def realise (z : Renderer α β) : PaintSpec α → Paint β
  | .flat c => .flat c
  | .gradient g => .gradient (Gradient.init g.shape g.spread (pix2Grad z g) (g.stops.map stopOf)).1

theorem init_ok (shape spread : UInt8) (m : Aff3 β) (stops : List (Stop β)) :
    (Gradient.init shape spread m stops).2 = decide (2 ≤ stops.length) := by
  match stops with
  | [] => rfl
  | [_] => rfl
  | _ :: _ :: _ => simp [Gradient.init, appendRanges]

theorem matrix_index (b k : UInt8) (K : Int) (hK : K = -(k.toNat : Int)) :
    ((b &&& 0x3f) - k).toNat % 64 = (wrap (((b.toNat % 64 : Nat) : Int) + K)).val := by
  rw [sub_index, mask_index, hK]

theorem specStops_gradSpec (z : Renderer α β) (g : RGBA) :
    specStops z.cReg z.nReg (decodeGradient g).cBase.toNat (decodeGradient g).nBase.toNat (0 : UInt8).toNat
      (decodeGradient g).nStops.toNat = ((absVM z).gradSpec g).stops := by
  simp only [specStops, VM.gradSpec, decodeGradient, mask_index, absVM, List.range_eq_range']
  rfl

/-- `initGradient` succeeds exactly on gradients with valid stops (and at least two of them), and
    then builds the gradient the specification describes -/
theorem initGradient_spec (z : Renderer α β) (g : RGBA) :
    z.initGradient g =
      if stopsValid ((absVM z).gradSpec g).stops ∧ 2 ≤ ((absVM z).gradSpec g).stops.length
      then some (Gradient.init ((absVM z).gradSpec g).shape ((absVM z).gradSpec g).spread
        (pix2Grad z ((absVM z).gradSpec g)) (((absVM z).gradSpec g).stops.map stopOf)).1
      else none := by
  unfold Renderer.initGradient
  simp only
  rw [collectStops_spec _ _ _ _ _ _ _ _ (by have := (decodeGradient g).nStops.toNat_lt; simp; omega),
    specStops_gradSpec]
  simp only [true_or, and_true]
  have ha : z.nReg.get6 ((decodeGradient g).nBase - 6) = ((absVM z).gradSpec g).a :=
    getElem_congr_idx (matrix_index g.b 6 (-6) rfl)
  have hb : z.nReg.get6 ((decodeGradient g).nBase - 5) = ((absVM z).gradSpec g).b :=
    getElem_congr_idx (matrix_index g.b 5 (-5) rfl)
  have hc : z.nReg.get6 ((decodeGradient g).nBase - 4) = ((absVM z).gradSpec g).c :=
    getElem_congr_idx (matrix_index g.b 4 (-4) rfl)
  have hd : z.nReg.get6 ((decodeGradient g).nBase - 3) = ((absVM z).gradSpec g).d :=
    getElem_congr_idx (matrix_index g.b 3 (-3) rfl)
  have he : z.nReg.get6 ((decodeGradient g).nBase - 2) = ((absVM z).gradSpec g).e :=
    getElem_congr_idx (matrix_index g.b 2 (-2) rfl)
  have hf : z.nReg.get6 ((decodeGradient g).nBase - 1) = ((absVM z).gradSpec g).f :=
    getElem_congr_idx (matrix_index g.b 1 (-1) rfl)
  have hsh : (decodeGradient g).shape = ((absVM z).gradSpec g).shape := shapeBits g.b
  have hsp : (decodeGradient g).spread = ((absVM z).gradSpec g).spread := spreadBits g.g
  rw [ha, hb, hc, hd, he, hf, hsh, hsp]
  generalize (absVM z).gradSpec g = gs
  by_cases hv : stopsValid gs.stops
  · rw [if_pos hv]
    simp only [init_ok, List.length_map, decide_eq_true_eq, hv, true_and]
    rfl
  · rw [if_neg hv, if_neg (fun h => hv h.1)]


theorem flat_index (z : Renderer α β) (adj : UInt8) :
    z.cReg.get6 (z.cSel - adj) = (absVM z).cReg (sub (absVM z).cSel adj) :=
  getElem_congr_idx (sel_index z.cSel adj)

/-- the `switch` of `StartPath`: the fill and the `disabled` flag before the level-of-detail test -/
def choose (z : Renderer α β) (adj : UInt8) : Paint β × Bool :=
  let flat := z.cReg.get6 (z.cSel - adj)
  if flat.validPremul then (.flat flat, flat.a == 0)
  else if flat.validGradient then
    match z.initGradient flat with
    | some g => (.gradient g, false)
    | none => (z.fill, true)
  else (z.fill, true)

/-- the level-of-detail test of `StartPath` -/
def lodOK (z : Renderer α β) : Prop :=
  z.lod0 ≤ (Arith.ofInt z.r.dy : α) ∧ (Arith.ofInt z.r.dy : α) < z.lod1
instance (z : Renderer α β) : Decidable (lodOK z) := by unfold lodOK; exact inferInstance

/-- `StartPath` after its `switch` (checked against the model by `startPath_with`) -/
def startPathWith (z : Renderer α β) (ch : Paint β × Bool) (x y : α) : Out α β :=
  let (fill, disabled) := ch
  let h : α := Arith.ofInt z.r.dy
  let disabled := disabled || !(decide (z.lod0 ≤ h) && decide (h < z.lod1))
  let z := { z with fill := fill, disabled := disabled }
  if disabled then (z, [])
  else
    let z := { z with penX := zeroA, penY := zeroA, firstX := zeroA, firstY := zeroA, prevSmoothType := 0 }
    let (z, ops) := z.moveTo (z.absX x) (z.absY y)
    (z, .reset z.r.dx z.r.dy :: ops)

theorem startPath_with (z : Renderer α β) (adj : UInt8) (x y : α) :
    z.startPath adj x y = startPathWith z (choose z adj) x y := rfl

theorem startPath_eq (z : Renderer α β) (adj : UInt8) (x y : α) :
    z.startPath adj x y =
      if (choose z adj).2 = true ∨ ¬ lodOK z then
        ({ z with fill := (choose z adj).1, disabled := true }, [])
      else
        ({ z with fill := (choose z adj).1, disabled := false, prevSmoothType := 0,
                  penX := z.absX x, penY := z.absY y, firstX := z.absX x, firstY := z.absY y },
         [.reset z.r.dx z.r.dy, .moveTo (z.absX x) (z.absY y)]) := by
  rw [startPath_with]
  generalize choose z adj = ch
  obtain ⟨f, d⟩ := ch
  by_cases hl : lodOK z
  · have h1 : decide (z.lod0 ≤ (Arith.ofInt z.r.dy : α)) = true := decide_eq_true hl.1
    have h2 : decide ((Arith.ofInt z.r.dy : α) < z.lod1) = true := decide_eq_true hl.2
    cases d
    · simp only [startPathWith, h1, h2, Bool.and_self, Bool.not_true, Bool.or_self, Bool.false_eq_true,
        if_false, false_or, hl, not_true_eq_false, Renderer.moveTo, Renderer.absX, Renderer.absY]
    · simp only [startPathWith, Bool.true_or, if_true, true_or]
  · have h12 : (decide (z.lod0 ≤ (Arith.ofInt z.r.dy : α)) && decide ((Arith.ofInt z.r.dy : α) < z.lod1)) = false := by
      rw [Bool.and_eq_false_iff]
      by_cases h : z.lod0 ≤ (Arith.ofInt z.r.dy : α)
      · exact Or.inr (decide_eq_false (fun h' => hl ⟨h, h'⟩))
      · exact Or.inl (decide_eq_false h)
    simp only [startPathWith, h12, Bool.not_false, Bool.or_true, if_true, hl, not_false_eq_true, or_true]


theorem choose_spec (z : Renderer α β) (adj : UInt8) :
    choose z adj =
      (let c := (absVM z).cReg (sub (absVM z).cSel adj)
       let gs := (absVM z).gradSpec c
       if premul c then (.flat c, c.a == 0)
       else if isGradient c then
         (if stopsValid gs.stops ∧ 2 ≤ gs.stops.length then (realise z (.gradient gs), false)
          else (z.fill, true))
       else (z.fill, true)) := by
  unfold choose
  simp only [flat_index, initGradient_spec]
  generalize (absVM z).cReg (sub (absVM z).cSel adj) = c
  by_cases hp : premul c
  · rw [if_pos hp, if_pos ((validPremul_iff c).mpr hp)]
  · rw [if_neg hp, if_neg (fun h => hp ((validPremul_iff c).mp h))]
    by_cases hg : isGradient c
    · rw [if_pos hg, if_pos ((validGradient_iff c).mpr hg)]
      by_cases hv : stopsValid ((absVM z).gradSpec c).stops ∧ 2 ≤ ((absVM z).gradSpec c).stops.length
      · simp only [if_pos hv, realise]
      · simp only [if_neg hv]
    · rw [if_neg hg, if_neg (fun h => hg ((validGradient_iff c).mp h))]

theorem paintChoice_none_iff (z : Renderer α β) (adj : UInt8) :
    (absVM z).paintChoice z.r.dy adj = none ↔ ((choose z adj).2 = true ∨ ¬ lodOK z) := by
  rw [choose_spec]
  unfold VM.paintChoice
  simp only
  generalize (absVM z).cReg (sub (absVM z).cSel adj) = c
  by_cases hl : lodOK z
  · have hl' : (absVM z).lod0 ≤ (Arith.ofInt z.r.dy : α) ∧ (Arith.ofInt z.r.dy : α) < (absVM z).lod1 := hl
    rw [if_neg (not_not_intro hl')]
    simp only [hl, not_true_eq_false, or_false]
    by_cases hp : premul c
    · simp only [if_pos hp]
      by_cases ha : c.a = 0
      · simp [ha]
      · simp [ha]
    · simp only [if_neg hp]
      by_cases hg : isGradient c
      · simp only [if_pos hg]
        by_cases hv : stopsValid ((absVM z).gradSpec c).stops ∧ 2 ≤ ((absVM z).gradSpec c).stops.length
        · simp [if_pos hv]
        · simp [if_neg hv]
      · simp [if_neg hg]
  · have hl' : ¬ ((absVM z).lod0 ≤ (Arith.ofInt z.r.dy : α) ∧ (Arith.ofInt z.r.dy : α) < (absVM z).lod1) := hl
    rw [if_pos hl']
    simp [hl]

theorem paintChoice_some (z : Renderer α β) (adj : UInt8) (p : PaintSpec α)
    (h : (absVM z).paintChoice z.r.dy adj = some p) : (choose z adj).1 = realise z p := by
  rw [choose_spec]
  unfold VM.paintChoice at h
  simp only at h ⊢
  generalize (absVM z).cReg (sub (absVM z).cSel adj) = c at h ⊢
  split at h
  · cases h
  · by_cases hp : premul c
    · rw [if_pos hp] at h ⊢
      split at h
      · cases h
      · cases h; rfl
    · rw [if_neg hp] at h ⊢
      by_cases hg : isGradient c
      · rw [if_pos hg] at h ⊢
        by_cases hv : stopsValid ((absVM z).gradSpec c).stops ∧ 2 ≤ ((absVM z).gradSpec c).stops.length
        · rw [if_pos hv] at h ⊢
          cases h; rfl
        · rw [if_neg hv] at h; cases h
      · rw [if_neg hg] at h; cases h

/-- the Renderer after an enabled `StartPath`: paint stored, pen and sub-path start at the (transformed)
    start point, no previous smooth point -/
def started (z : Renderer α β) (f : Paint β) (x y : α) : Renderer α β :=
  { z with fill := f, disabled := false, prevSmoothType := 0,
           penX := z.absX x, penY := z.absY y, firstX := z.absX x, firstY := z.absY y }

/-- the four reasons for which the machine prescribes no paint -/
theorem paintChoice_none_causes (m : VM α) (H : Int) (adj : UInt8) :
    m.paintChoice H adj = none ↔
      (¬ (m.lod0 ≤ (Arith.ofInt H : α) ∧ (Arith.ofInt H : α) < m.lod1)) ∨
      (premul (m.cReg (sub m.cSel adj)) ∧ (m.cReg (sub m.cSel adj)).a = 0) ∨
      (¬ premul (m.cReg (sub m.cSel adj)) ∧ ¬ isGradient (m.cReg (sub m.cSel adj))) ∨
      (isGradient (m.cReg (sub m.cSel adj)) ∧
        ¬ (stopsValid (m.gradSpec (m.cReg (sub m.cSel adj))).stops ∧
           2 ≤ (m.gradSpec (m.cReg (sub m.cSel adj))).stops.length)) := by
  unfold VM.paintChoice
  simp only
  generalize m.cReg (sub m.cSel adj) = c
  by_cases hl : m.lod0 ≤ (Arith.ofInt H : α) ∧ (Arith.ofInt H : α) < m.lod1
  · rw [if_neg (not_not_intro hl)]
    by_cases hp : premul c
    · have hg := premul_not_gradient c hp
      rw [if_pos hp]
      by_cases ha : c.a = 0
      · simp [ha, hp]
      · simp [ha, hp, hl, hg]
    · rw [if_neg hp]
      by_cases hg : isGradient c
      · rw [if_pos hg]
        by_cases hv : stopsValid (m.gradSpec c).stops ∧ 2 ≤ (m.gradSpec c).stops.length
        · rw [if_pos hv]; simp [hl, hp, hg, hv]
        · rw [if_neg hv]; simp [hg, hv]
      · rw [if_neg hg]; simp [hp, hg]
  · rw [if_pos hl]; simp [hl]

/-- a premultiplied register value is painted flat or not at all — never as a gradient -/
theorem premul_paint_flat (m : VM α) (H : Int) (adj : UInt8) (h : premul (m.cReg (sub m.cSel adj))) :
    m.paintChoice H adj = none ∨ m.paintChoice H adj = some (.flat (m.cReg (sub m.cSel adj))) := by
  unfold VM.paintChoice
  simp only
  split
  · exact Or.inl rfl
  · split
    · exact Or.inl rfl
    · exact Or.inr rfl

/-- 2a. When the machine prescribes a paint, `StartPath` resets the rasteriser to the rectangle's
    size, moves to the start point, leaves the Renderer enabled and stores exactly that paint. -/
theorem startPath_enabled (z : Renderer α β) (adj : UInt8) (x y : α) (p : PaintSpec α)
    (h : (absVM z).paintChoice z.r.dy adj = some p) :
    z.startPath adj x y =
      (started z (realise z p) x y, [.reset z.r.dx z.r.dy, .moveTo (z.absX x) (z.absY y)]) := by
  have hn : ¬ ((choose z adj).2 = true ∨ ¬ lodOK z) := by
    rw [← paintChoice_none_iff, h]; exact fun h => by cases h
  rw [startPath_eq, if_neg hn, paintChoice_some z adj p h]
  rfl

/-- 2b. When the machine prescribes none, `StartPath` makes no rasteriser call at all and disables
    the Renderer; only `fill` and `disabled` change. -/
theorem startPath_disabled (z : Renderer α β) (adj : UInt8) (x y : α)
    (h : (absVM z).paintChoice z.r.dy adj = none) :
    z.startPath adj x y = ({ z with fill := (choose z adj).1, disabled := true }, []) := by
  rw [startPath_eq, if_pos ((paintChoice_none_iff z adj).mp h)]


/-- 2. `StartPath` follows the machine's choice: a prescribed paint ⇒ rasteriser reset, move to the
    start point, paint stored, enabled; none ⇒ disabled and NO rasteriser call. -/
theorem startPath_paint (z : Renderer α β) (adj : UInt8) (x y : α) :
    match (absVM z).paintChoice z.r.dy adj with
    | some p => z.startPath adj x y =
        (started z (realise z p) x y, [.reset z.r.dx z.r.dy, .moveTo (z.absX x) (z.absY y)])
    | none => z.startPath adj x y = ({ z with fill := (choose z adj).1, disabled := true }, []) := by
  cases h : (absVM z).paintChoice z.r.dy adj with
  | none => exact startPath_disabled z adj x y h
  | some p => exact startPath_enabled z adj x y p h

/-- the Renderer is enabled after `StartPath` exactly when the machine prescribes a paint -/
theorem startPath_enabled_iff (z : Renderer α β) (adj : UInt8) (x y : α) :
    (z.startPath adj x y).1.disabled = false ↔ ((absVM z).paintChoice z.r.dy adj).isSome = true := by
  cases h : (absVM z).paintChoice z.r.dy adj with
  | none => rw [startPath_disabled z adj x y h]; simp
  | some p => rw [startPath_enabled z adj x y p h]; simp [started]

/-! ## what a realised gradient contains, read back through `StopOffsets` / `StopColors` -/

/-- `StopColors` narrows a 16-bit channel back to 8 bits -/
def c8 (c : RGBA64) : RGBA :=
  ⟨UInt8.ofNat (c.r / 256), UInt8.ofNat (c.g / 256), UInt8.ofNat (c.b / 256), UInt8.ofNat (c.a / 256)⟩

theorem c8_rgba64Of (c : RGBA) : c8 (rgba64Of c) = c := by
  have key : ∀ u : UInt8, UInt8.ofNat (u.toNat * 0x101 / 256) = u := by
    intro u
    apply UInt8.toNat_inj.mp
    have hu := u.toNat_lt
    have h : u.toNat * 0x101 = u.toNat + 256 * u.toNat := by omega
    rw [UInt8.toNat_ofNat', h, Nat.add_mul_div_left _ _ (by decide : 0 < 256),
      Nat.div_eq_of_lt (by omega), Nat.zero_add, Nat.mod_eq_of_lt (by omega)]
  simp only [c8, rgba64Of, key]

theorem appendRanges_offsets : ∀ (s0 s1 : Stop β) (rest : List (Stop β)),
    (appendRanges (s0 :: s1 :: rest)).map (·.offset0) ++
        [match (appendRanges (s0 :: s1 :: rest)).getLast? with | some r => r.offset1 | none => zeroB] =
      (s0 :: s1 :: rest).map (·.offset) := by
  intro s0 s1 rest
  induction rest generalizing s0 s1 with
  | nil => simp [appendRanges, makeRange]
  | cons s2 rest ih =>
    have h := ih s1 s2
    rw [show appendRanges (s0 :: s1 :: s2 :: rest) = makeRange s0 s1 :: appendRanges (s1 :: s2 :: rest) from rfl]
    have hne : appendRanges (s1 :: s2 :: rest) ≠ [] := by simp [appendRanges]
    rw [List.getLast?_cons_of_ne_nil hne]
    simp only [List.map_cons, List.cons_append] at h ⊢
    rw [h]
    rfl

theorem appendRanges_colors : ∀ (s0 s1 : Stop β) (rest : List (Stop β)),
    (appendRanges (s0 :: s1 :: rest)).map (fun r => c8 r.c0) ++
        [c8 (match (s0 :: s1 :: rest).getLast? with | some s => s.color | none => ⟨0, 0, 0, 0⟩)] =
      (s0 :: s1 :: rest).map (fun s => c8 s.color) := by
  intro s0 s1 rest
  induction rest generalizing s0 s1 with
  | nil => simp [appendRanges, makeRange]
  | cons s2 rest ih =>
    have h := ih s1 s2
    rw [show appendRanges (s0 :: s1 :: s2 :: rest) = makeRange s0 s1 :: appendRanges (s1 :: s2 :: rest) from rfl]
    rw [show (s0 :: s1 :: s2 :: rest).getLast? = (s1 :: s2 :: rest).getLast? from
      List.getLast?_cons_of_ne_nil (by simp)]
    simp only [List.map_cons, List.cons_append] at h ⊢
    rw [h]
    rfl

theorem init_stopOffsets (sh sp : UInt8) (m : Aff3 β) (s0 s1 : Stop β) (rest : List (Stop β)) :
    (Gradient.init sh sp m (s0 :: s1 :: rest)).1.stopOffsets = (s0 :: s1 :: rest).map (·.offset) := by
  have h := appendRanges_offsets s0 s1 rest
  simp only [Gradient.stopOffsets, Gradient.init]
  rw [show appendRanges (s0 :: s1 :: rest) = makeRange s0 s1 :: appendRanges (s1 :: rest) from rfl] at h ⊢
  exact h

theorem init_stopColors (sh sp : UInt8) (m : Aff3 β) (s0 s1 : Stop β) (rest : List (Stop β)) :
    (Gradient.init sh sp m (s0 :: s1 :: rest)).1.stopColors = (s0 :: s1 :: rest).map (fun s => c8 s.color) := by
  have h := appendRanges_colors s0 s1 rest
  simp only [Gradient.stopColors, Gradient.init]
  rw [show appendRanges (s0 :: s1 :: rest) = makeRange s0 s1 :: appendRanges (s1 :: rest) from rfl] at h ⊢
  exact h

/-- A realised gradient paint, read back with the Renderer's own accessors (`Gradient.StopOffsets`,
    `Gradient.StopColors`): same shape and spread, the stop offsets are the (widened) `NREG` values and
    the stop colours are the `CREG` values the machine prescribes. -/
theorem realise_gradient (z : Renderer α β) (g : GradSpec α) (h2 : 2 ≤ g.stops.length) :
    ∃ G : Gradient β, realise z (.gradient g) = .gradient G ∧ G.shape = g.shape ∧ G.spread = g.spread ∧
      G.pix2Grad = pix2Grad z g ∧
      G.stopOffsets = g.stops.map (fun s => (Wide.widen s.1 : β)) ∧ G.stopColors = g.stops.map (·.2) := by
  refine ⟨_, rfl, rfl, rfl, rfl, ?_, ?_⟩
  · match hs : g.stops, h2 with
    | s0 :: s1 :: rest, _ =>
      simp only [List.map_cons, init_stopOffsets, List.map_map]
      rfl
  · match hs : g.stops, h2 with
    | s0 :: s1 :: rest, _ =>
      have hc : ∀ s : α × RGBA, c8 (stopOf (β := β) s).color = s.2 := fun s => c8_rgba64Of s.2
      simp only [List.map_cons, init_stopColors, List.map_map, Function.comp_def, hc]

/-! ## frames: what the drawing calls leave alone -/

/-- everything the styling calls, `SetRasterizer` and `Reset` determine -/
def regs (z : Renderer α β) :=
  (z.r, z.scaleX, z.biasX, z.scaleY, z.biasY, z.viewBox, z.palette, z.lod0, z.lod1, z.cSel, z.nSel,
   z.cReg, z.nReg)

/-- what `StartPath` decides -/
def paintSt (z : Renderer α β) := (z.fill, z.disabled)

theorem regs_abs {z z' : Renderer α β} (h : regs z' = regs z) : absVM z' = absVM z := by
  simp only [regs, Prod.mk.injEq] at h
  obtain ⟨_, _, _, _, _, _, h1, h2, h3, h4, h5, h6, h7⟩ := h
  simp only [absVM, h1, h2, h3, h4, h5, h6, h7]

theorem regs_r {z z' : Renderer α β} (h : regs z' = regs z) : z'.r = z.r := by
  simp only [regs, Prod.mk.injEq] at h; exact h.1

theorem regs_realise {z z' : Renderer α β} (h : regs z' = regs z) : realise z' = realise z := by
  simp only [regs, Prod.mk.injEq] at h
  obtain ⟨_, h1, h2, h3, h4, _⟩ := h
  funext p
  cases p <;> simp only [realise, pix2Grad, h1, h2, h3, h4]

/-- rasteriser calls that only extend the current path -/
def isPathOp : RasterOp α β → Bool
  | .moveTo .. | .lineTo .. | .quadTo .. | .cubeTo .. | .closePath => true
  | _ => false

/-- what is assumed of the arc parameter: `AbsArcTo` only adds segments to the path (it calls
    `LineTo`/`CubeTo`, never `Reset` or `Draw`); proved for the model's `arcF32` in `Props/C04.lean` -/
def ArcPure (arc : ArcFn α β) : Prop :=
  ∀ z rx ry rot la sw x y, ∀ op ∈ arc z rx ry rot la sw x y, isPathOp op = true

theorem foldl_frame (f : Renderer α β → RasterOp α β → Renderer α β)
    (hf : ∀ z op, regs (f z op) = regs z ∧ paintSt (f z op) = paintSt z) :
    ∀ (ops : List (RasterOp α β)) (z : Renderer α β),
      regs (ops.foldl f z) = regs z ∧ paintSt (ops.foldl f z) = paintSt z := by
  intro ops
  induction ops with
  | nil => intro z; exact ⟨rfl, rfl⟩
  | cons op ops ih =>
    intro z
    rw [List.foldl_cons]
    exact ⟨(ih (f z op)).1.trans (hf z op).1, (ih (f z op)).2.trans (hf z op).2⟩

/-- 3. while disabled, every drawing call (including `ClosePathEndPath`) does nothing at all -/
theorem disabled_silent (arc : ArcFn α β) (posInf : α) (z : Renderer α β) (c : Call α)
    (hd : z.disabled = true) (hc : isSegment c = true ∨ c = .closeEnd) :
    z.step arc posInf c = (z, []) := by
  rcases hc with hc | rfl
  · cases c <;> simp only [isSegment, Bool.false_eq_true] at hc
    case d1 v x => cases v <;> simp only [Renderer.step, hd, if_true]
    case d2 v x y => cases v <;> simp only [Renderer.step, hd, if_true]
    case d4 v x1 y1 x y => cases v <;> simp only [Renderer.step, hd, if_true]
    case d6 v x1 y1 x2 y2 x y => cases v <;> simp only [Renderer.step, hd, if_true]
    case arc rel rx ry rot la sw x y => simp only [Renderer.step, hd, if_true]
  · simp only [Renderer.step, hd, if_true]

/-- the drawing calls other than `ClosePathEndPath` only extend the current path: registers,
    rectangle, transform, `fill` and `disabled` are untouched and no `Reset`/`Draw` is emitted -/
theorem segment_frame (arc : ArcFn α β) (posInf : α) (z : Renderer α β) (c : Call α)
    (hc : isSegment c = true) :
    regs (z.step arc posInf c).1 = regs z ∧ paintSt (z.step arc posInf c).1 = paintSt z ∧
      (ArcPure arc → ∀ op ∈ (z.step arc posInf c).2, isPathOp op = true) := by
  by_cases hd : z.disabled = true
  · rw [disabled_silent arc posInf z c hd (Or.inl hc)]
    exact ⟨rfl, rfl, fun _ _ h => by cases h⟩
  · cases c <;> simp only [isSegment, Bool.false_eq_true] at hc
    case d1 v x =>
      cases v <;> simp only [Renderer.step, if_neg hd, Renderer.lineTo] <;>
        exact ⟨rfl, rfl, fun _ => by simp [isPathOp]⟩
    case d2 v x y =>
      cases v <;>
        simp only [Renderer.step, if_neg hd, Renderer.lineTo, Renderer.quadTo,
          Renderer.setSmooth, Renderer.closePath, Renderer.moveTo] <;>
        exact ⟨rfl, rfl, fun _ => by simp [isPathOp]⟩
    case d4 v x1 y1 x y =>
      cases v <;>
        simp only [Renderer.step, if_neg hd, Renderer.quadTo, Renderer.cubeTo,
          Renderer.setSmooth] <;>
        exact ⟨rfl, rfl, fun _ => by simp [isPathOp]⟩
    case d6 v x1 y1 x2 y2 x y =>
      cases v <;>
        simp only [Renderer.step, if_neg hd, Renderer.cubeTo, Renderer.setSmooth] <;>
        exact ⟨rfl, rfl, fun _ => by simp [isPathOp]⟩
    case arc rel rx ry rot la sw x y =>
      simp only [Renderer.step, if_neg hd]
      refine ⟨?_, ?_, fun hArc op h => hArc _ _ _ _ _ _ _ _ op h⟩
      · refine ((foldl_frame _ ?_ _ _).1).trans rfl
        intro z op; cases op <;> exact ⟨rfl, rfl⟩
      · refine ((foldl_frame _ ?_ _ _).2).trans rfl
        intro z op; cases op <;> exact ⟨rfl, rfl⟩


/-! ## running programs -/

theorem run_cons (arc : ArcFn α β) (posInf : α) (z : Renderer α β) (c : Call α) (cs : List (Call α)) :
    z.run arc posInf (c :: cs) =
      (((z.step arc posInf c).1.run arc posInf cs).1,
       (z.step arc posInf c).2 ++ ((z.step arc posInf c).1.run arc posInf cs).2) := rfl

theorem run_append (arc : ArcFn α β) (posInf : α) (a b : List (Call α)) :
    ∀ z : Renderer α β, z.run arc posInf (a ++ b) =
      (((z.run arc posInf a).1.run arc posInf b).1,
       (z.run arc posInf a).2 ++ ((z.run arc posInf a).1.run arc posInf b).2) := by
  induction a with
  | nil => intro z; simp [Renderer.run]
  | cons c cs ih =>
    intro z
    rw [List.cons_append, run_cons, ih, run_cons]
    simp only [List.append_assoc]

/-- the `Draw` calls among the rasteriser calls: destination rectangle and paint -/
def drawsOf : List (RasterOp α β) → List (Rect × Paint β)
  | [] => []
  | .draw r p :: ops => (r, p) :: drawsOf ops
  | _ :: ops => drawsOf ops

theorem drawsOf_append (a b : List (RasterOp α β)) : drawsOf (a ++ b) = drawsOf a ++ drawsOf b := by
  induction a with
  | nil => rfl
  | cons op ops ih => cases op <;> simp [drawsOf, ih]

theorem drawsOf_pathOps (a : List (RasterOp α β)) (h : ∀ op ∈ a, isPathOp op = true) : drawsOf a = [] := by
  induction a with
  | nil => rfl
  | cons op ops ih =>
    have h1 := h op (List.mem_cons_self ..)
    have h2 := ih (fun o ho => h o (List.mem_cons_of_mem _ ho))
    cases op <;> simp [isPathOp] at h1 <;> simpa [drawsOf] using h2

/-- a run of drawing calls other than `ClosePathEndPath` -/
theorem segs_frame (arc : ArcFn α β) (hArc : ArcPure arc) (posInf : α) (segs : List (Call α))
    (hs : ∀ s ∈ segs, isSegment s = true) :
    ∀ z : Renderer α β, regs (z.run arc posInf segs).1 = regs z ∧
      paintSt (z.run arc posInf segs).1 = paintSt z ∧
      ∀ op ∈ (z.run arc posInf segs).2, isPathOp op = true := by
  induction segs with
  | nil => intro z; exact ⟨rfl, rfl, fun _ h => by cases h⟩
  | cons c cs ih =>
    intro z
    have h1 := segment_frame arc posInf z c (hs c (List.mem_cons_self ..))
    have h2 := ih (fun s h => hs s (List.mem_cons_of_mem _ h)) (z.step arc posInf c).1
    rw [run_cons]
    refine ⟨h2.1.trans h1.1, h2.2.1.trans h1.2.1, ?_⟩
    intro op hop
    rcases List.mem_append.mp hop with h | h
    · exact h1.2.2 hArc op h
    · exact h2.2.2 op h

theorem segs_disabled (arc : ArcFn α β) (posInf : α) (segs : List (Call α))
    (hs : ∀ s ∈ segs, isSegment s = true) (z : Renderer α β) (hd : z.disabled = true) :
    z.run arc posInf segs = (z, []) := by
  induction segs with
  | nil => rfl
  | cons c cs ih =>
    rw [run_cons, disabled_silent arc posInf z c hd (Or.inl (hs c (List.mem_cons_self ..)))]
    simp only [ih (fun s h => hs s (List.mem_cons_of_mem _ h)), List.append_nil]

/-! ## paths -/

/-- 4. An enabled path `StartPath, segments, ClosePathEndPath`: the rasteriser is reset to the
    rectangle's size, the path is built, closed, and drawn exactly once — last, into the Renderer's
    rectangle, with the paint the machine prescribed at `StartPath`.  Registers are unchanged. -/
theorem path_drawn_once (arc : ArcFn α β) (hArc : ArcPure arc) (posInf : α) (z : Renderer α β)
    (adj : UInt8) (x y : α) (segs : List (Call α)) (hs : ∀ s ∈ segs, isSegment s = true)
    (p : PaintSpec α) (h : (absVM z).paintChoice z.r.dy adj = some p) :
    ∃ mid : List (RasterOp α β), (∀ op ∈ mid, isPathOp op = true) ∧
      (z.run arc posInf (.startPath adj x y :: (segs ++ [.closeEnd]))).2 =
        .reset z.r.dx z.r.dy :: .moveTo (z.absX x) (z.absY y) :: (mid ++ [.closePath, .draw z.r (realise z p)]) ∧
      regs (z.run arc posInf (.startPath adj x y :: (segs ++ [.closeEnd]))).1 = regs z := by
  rw [run_cons, run_append]
  have hstep : z.step arc posInf (.startPath adj x y) = z.startPath adj x y := rfl
  rw [hstep, startPath_enabled z adj x y p h]
  simp only
  generalize hz1 : started z (realise z p) x y = z1
  have hr1 : regs z1 = regs z := by rw [← hz1]; rfl
  have hp1 : paintSt z1 = (realise z p, false) := by rw [← hz1]; rfl
  obtain ⟨hr2, hp2, hops⟩ := segs_frame arc hArc posInf segs hs z1
  generalize z1.run arc posInf segs = out at hr2 hp2 hops
  obtain ⟨z2, mid⟩ := out
  simp only at hr2 hp2 hops
  have hd2 : z2.disabled = false := by
    have := congrArg Prod.snd (hp2.trans hp1); exact this
  have hf2 : z2.fill = realise z p := by
    have := congrArg Prod.fst (hp2.trans hp1); exact this
  have hrr : z2.r = z.r := regs_r (hr2.trans hr1)
  refine ⟨mid, hops, ?_, ?_⟩
  · simp only [Renderer.run, Renderer.step, hd2, Bool.false_eq_true, if_false, Renderer.closePath,
      List.append_nil, hf2, hrr, List.cons_append, List.nil_append]
  · simp only [Renderer.run, Renderer.step, hd2, Bool.false_eq_true, if_false, Renderer.closePath]
    exact hr2.trans hr1

/-- A disabled path: no rasteriser call at all; afterwards only `fill` and `disabled` differ. -/
theorem path_silent (arc : ArcFn α β) (posInf : α) (z : Renderer α β)
    (adj : UInt8) (x y : α) (segs : List (Call α)) (hs : ∀ s ∈ segs, isSegment s = true)
    (h : (absVM z).paintChoice z.r.dy adj = none) :
    z.run arc posInf (.startPath adj x y :: (segs ++ [.closeEnd])) =
      ({ z with fill := (choose z adj).1, disabled := true }, []) := by
  rw [run_cons, run_append]
  have hstep : z.step arc posInf (.startPath adj x y) = z.startPath adj x y := rfl
  rw [hstep, startPath_disabled z adj x y h]
  simp only
  rw [segs_disabled arc posInf segs hs _ rfl]
  simp only [Renderer.run, Renderer.step, if_true, List.append_nil]


/-! ## the protocol and the headline -/

/-- the register-setting calls: the styling calls other than `Reset` -/
def isRegCall : Call α → Bool
  | .setCSel _ | .setNSel _ | .setCReg .. | .setNReg .. | .setLOD .. => true
  | _ => false

theorem regCall_styling {c : Call α} (h : isRegCall c = true) : isStyling c = true := by
  cases c <;> simp_all [isRegCall, isStyling]

/-- The call sequences `decode.Decode` delivers after the initial `Reset` (and the instruction
    sequences of the specification): in styling mode register-setting calls, and paths
    `StartPath, drawing calls …, ClosePathEndPath` (only `ClosePathEndPath` leaves drawing mode). -/
inductive Body : List (Call α) → Prop
  | nil : Body []
  | styling (c : Call α) (cs : List (Call α)) : isRegCall c = true → Body cs → Body (c :: cs)
  | path (adj : UInt8) (x y : α) (segs cs : List (Call α)) :
      (∀ s ∈ segs, isSegment s = true) → Body cs → Body (.startPath adj x y :: (segs ++ .closeEnd :: cs))

/-- a whole graphic: `Reset` with the metadata, then the body -/
def Program (p : List (Call α)) : Prop := ∃ vb pal body, p = .reset vb pal :: body ∧ Body body

theorem regCall_frame (arc : ArcFn α β) (posInf : α) (z : Renderer α β) (c : Call α)
    (hc : isRegCall c = true) :
    (z.step arc posInf c).1.r = z.r ∧ realise (z.step arc posInf c).1 = realise z ∧
      paintSt (z.step arc posInf c).1 = paintSt z := by
  have key : ∀ z' : Renderer α β, z'.r = z.r → z'.scaleX = z.scaleX → z'.biasX = z.biasX →
      z'.scaleY = z.scaleY → z'.biasY = z.biasY → realise z' = realise z := by
    intro z' _ h1 h2 h3 h4
    funext p
    cases p <;> simp only [realise, pix2Grad, h1, h2, h3, h4]
  cases c <;> simp only [isRegCall, Bool.false_eq_true] at hc
  case setCSel v => exact ⟨rfl, key _ rfl rfl rfl rfl rfl, rfl⟩
  case setNSel v => exact ⟨rfl, key _ rfl rfl rfl rfl rfl, rfl⟩
  case setLOD a b => exact ⟨rfl, key _ rfl rfl rfl rfl rfl, rfl⟩
  case setCReg adj incr col =>
    cases incr <;> exact ⟨rfl, key _ rfl rfl rfl rfl rfl, rfl⟩
  case setNReg adj incr f =>
    cases incr <;> exact ⟨rfl, key _ rfl rfl rfl rfl rfl, rfl⟩

theorem choices_notStart (posInf : α) (H : Int) (m : VM α) (c : Call α) (cs : List (Call α))
    (hc : ∀ adj x y, c ≠ .startPath adj x y) :
    VM.choices posInf H m (c :: cs) = VM.choices posInf H (m.step posInf c) cs := by
  cases c <;> first | rfl | exact absurd rfl (hc _ _ _)

theorem choices_segs (posInf : α) (H : Int) (m : VM α) (segs rest : List (Call α))
    (hs : ∀ s ∈ segs, isSegment s = true) :
    VM.choices posInf H m (segs ++ rest) = VM.choices posInf H m rest := by
  induction segs with
  | nil => rfl
  | cons c cs ih =>
    have hc := hs c (List.mem_cons_self ..)
    rw [List.cons_append, choices_notStart posInf H m c _ (by intro a x y h; subst h; cases hc)]
    have hstep : m.step posInf c = m := by
      cases c <;> first | rfl | cases hc
    rw [hstep]
    exact ih (fun s h => hs s (List.mem_cons_of_mem _ h))

theorem choices_path (posInf : α) (H : Int) (m : VM α) (adj : UInt8) (x y : α) (segs cs : List (Call α))
    (hs : ∀ s ∈ segs, isSegment s = true) :
    VM.choices posInf H m (.startPath adj x y :: (segs ++ .closeEnd :: cs)) =
      m.paintChoice H adj :: VM.choices posInf H m cs := by
  have h1 : VM.choices posInf H m (.startPath adj x y :: (segs ++ .closeEnd :: cs)) =
      m.paintChoice H adj :: VM.choices posInf H m (segs ++ .closeEnd :: cs) := rfl
  rw [h1, choices_segs posInf H m segs _ hs]
  rfl

theorem body_refines (arc : ArcFn α β) (hArc : ArcPure arc) (posInf : α) (body : List (Call α))
    (hb : Body body) : ∀ z : Renderer α β,
      drawsOf (z.run arc posInf body).2 =
        (VM.paints posInf z.r.dy (absVM z) body).map (fun p => (z.r, realise z p)) := by
  induction hb with
  | nil => intro z; rfl
  | styling c cs hc _ ih =>
    intro z
    obtain ⟨hops, habs⟩ := styling_refines arc posInf z c (regCall_styling hc)
    obtain ⟨hr, hre, _⟩ := regCall_frame arc posInf z c hc
    have hns : ∀ adj x y, c ≠ .startPath adj x y := by
      intro a x y h; subst h; cases hc
    rw [run_cons, hops, List.nil_append, ih, hr, hre, habs]
    simp only [VM.paints, choices_notStart posInf z.r.dy (absVM z) c cs hns]
  | path adj x y segs cs hs _ ih =>
    intro z
    have hl : (Call.startPath adj x y :: (segs ++ .closeEnd :: cs)) =
        (Call.startPath adj x y :: (segs ++ [.closeEnd])) ++ cs := by simp
    have hvm : VM.paints posInf z.r.dy (absVM z) (.startPath adj x y :: (segs ++ .closeEnd :: cs)) =
        ((absVM z).paintChoice z.r.dy adj).toList ++ VM.paints posInf z.r.dy (absVM z) cs := by
      simp only [VM.paints, choices_path posInf z.r.dy (absVM z) adj x y segs cs hs]
      cases (absVM z).paintChoice z.r.dy adj <;> simp
    rw [hvm, hl, run_append]
    simp only [drawsOf_append]
    cases hp : (absVM z).paintChoice z.r.dy adj with
    | none =>
      rw [path_silent arc posInf z adj x y segs hs hp]
      simp only [ih]
      have hr : regs ({ z with fill := (choose z adj).1, disabled := true } : Renderer α β) = regs z := rfl
      rw [regs_abs hr, regs_r hr, regs_realise hr]
      simp [drawsOf]
    | some p =>
      obtain ⟨mid, hmid, hops, hr⟩ := path_drawn_once arc hArc posInf z adj x y segs hs p hp
      rw [hops, ih, regs_abs hr, regs_r hr, regs_realise hr]
      simp [drawsOf, drawsOf_append, drawsOf_pathOps mid hmid]

/-- 5. **Headline.**  For every program that respects the protocol (`Reset`, then register-setting calls
    and paths), every Renderer state it is delivered to (any rectangle, any earlier history) and every
    arc implementation that only adds path segments: the `Draw` calls made on the rasteriser are, in
    order, exactly the paints the specification's machine prescribes for the paths — drawn into the
    Renderer's rectangle; paths for which the machine prescribes none contribute no `Draw`
    (`path_silent`: no call at all). -/
theorem render_refines_vm (arc : ArcFn α β) (hArc : ArcPure arc) (posInf : α) (z0 : Renderer α β)
    (vb : ViewBox α) (pal : Palette) (body : List (Call α)) (hb : Body body) :
    drawsOf (z0.run arc posInf (.reset vb pal :: body)).2 =
      (VM.paints posInf z0.r.dy (VM.init posInf pal) body).map
        (fun p => (z0.r, realise (z0.reset posInf vb pal) p)) := by
  rw [run_cons]
  have h1 : z0.step arc posInf (.reset vb pal) = (z0.reset posInf vb pal, []) := rfl
  rw [h1, List.nil_append, body_refines arc hArc posInf body hb, abs_reset]
  rfl


/-- a path that is never closed (the byte stream ends in drawing mode) is never drawn -/
theorem open_path_no_draw (arc : ArcFn α β) (hArc : ArcPure arc) (posInf : α) (z : Renderer α β)
    (adj : UInt8) (x y : α) (segs : List (Call α)) (hs : ∀ s ∈ segs, isSegment s = true) :
    drawsOf (z.run arc posInf (.startPath adj x y :: segs)).2 = [] := by
  rw [run_cons, drawsOf_append,
    drawsOf_pathOps _ (segs_frame arc hArc posInf segs hs _).2.2, List.append_nil]
  have hstep : z.step arc posInf (.startPath adj x y) = z.startPath adj x y := rfl
  rw [hstep, startPath_eq]
  split <;> rfl

/-- Headline for a truncated graphic: `Reset`, a body, and a last path that is started but never
    closed.  The draws are those of the body. -/
theorem render_refines_vm_open (arc : ArcFn α β) (hArc : ArcPure arc) (posInf : α) (z0 : Renderer α β)
    (vb : ViewBox α) (pal : Palette) (body : List (Call α)) (hb : Body body)
    (adj : UInt8) (x y : α) (segs : List (Call α)) (hs : ∀ s ∈ segs, isSegment s = true) :
    drawsOf (z0.run arc posInf (.reset vb pal :: (body ++ .startPath adj x y :: segs))).2 =
      (VM.paints posInf z0.r.dy (VM.init posInf pal) body).map
        (fun p => (z0.r, realise (z0.reset posInf vb pal) p)) := by
  have hl : (Call.reset vb pal :: (body ++ .startPath adj x y :: segs)) =
      (Call.reset vb pal :: body) ++ (.startPath adj x y :: segs) := by simp
  rw [hl, run_append, drawsOf_append, render_refines_vm arc hArc posInf z0 vb pal body hb,
    open_path_no_draw arc hArc posInf _ adj x y segs hs, List.append_nil]

/-! ## complete shape of the rasteriser traffic -/

/-- The rasteriser calls of a program are the concatenation, over the paths for which the machine
    prescribes a paint, of blocks `Reset(w,h), MoveTo, path segments…, ClosePath, Draw(r, paint)`;
    a path for which the machine prescribes `none` contributes nothing. -/
inductive Blocks (w h : Int) (r : Rect) (real : PaintSpec α → Paint β) :
    List (Option (PaintSpec α)) → List (RasterOp α β) → Prop
  | nil : Blocks w h r real [] []
  | silent (cs ops) : Blocks w h r real cs ops → Blocks w h r real (none :: cs) ops
  | block (p : PaintSpec α) (x y : α) (mid : List (RasterOp α β)) (cs ops) :
      (∀ op ∈ mid, isPathOp op = true) → Blocks w h r real cs ops →
      Blocks w h r real (some p :: cs)
        (.reset w h :: .moveTo x y :: (mid ++ .closePath :: .draw r (real p) :: ops))

theorem body_blocks (arc : ArcFn α β) (hArc : ArcPure arc) (posInf : α) (body : List (Call α))
    (hb : Body body) : ∀ z : Renderer α β,
      Blocks z.r.dx z.r.dy z.r (realise z) (VM.choices posInf z.r.dy (absVM z) body)
        (z.run arc posInf body).2 := by
  induction hb with
  | nil => intro z; exact .nil
  | styling c cs hc _ ih =>
    intro z
    obtain ⟨hops, habs⟩ := styling_refines arc posInf z c (regCall_styling hc)
    obtain ⟨hr, hre, _⟩ := regCall_frame arc posInf z c hc
    have hns : ∀ adj x y, c ≠ .startPath adj x y := by
      intro a x y h; subst h; cases hc
    have := ih (z.step arc posInf c).1
    rw [hr, hre, habs] at this
    rw [run_cons, hops, List.nil_append, choices_notStart posInf z.r.dy (absVM z) c cs hns]
    exact this
  | path adj x y segs cs hs _ ih =>
    intro z
    have hl : (Call.startPath adj x y :: (segs ++ .closeEnd :: cs)) =
        (Call.startPath adj x y :: (segs ++ [.closeEnd])) ++ cs := by simp
    rw [choices_path posInf z.r.dy (absVM z) adj x y segs cs hs, hl, run_append]
    cases hp : (absVM z).paintChoice z.r.dy adj with
    | none =>
      rw [path_silent arc posInf z adj x y segs hs hp]
      have hr : regs ({ z with fill := (choose z adj).1, disabled := true } : Renderer α β) = regs z := rfl
      have := ih ({ z with fill := (choose z adj).1, disabled := true } : Renderer α β)
      rw [regs_abs hr, regs_r hr, regs_realise hr] at this
      exact .silent _ _ this
    | some p =>
      obtain ⟨mid, hmid, hops, hr⟩ := path_drawn_once arc hArc posInf z adj x y segs hs p hp
      have := ih (z.run arc posInf (.startPath adj x y :: (segs ++ [.closeEnd]))).1
      rw [regs_abs hr, regs_r hr, regs_realise hr] at this
      rw [hops]
      simp only [List.cons_append, List.append_assoc, List.nil_append]
      exact .block p _ _ mid _ _ hmid this

/-- 5′. Headline, complete form: the whole rasteriser traffic of a program has the block shape
    prescribed by the machine's choices (see `Blocks`). -/
theorem render_blocks (arc : ArcFn α β) (hArc : ArcPure arc) (posInf : α) (z0 : Renderer α β)
    (vb : ViewBox α) (pal : Palette) (body : List (Call α)) (hb : Body body) :
    Blocks z0.r.dx z0.r.dy z0.r (realise (z0.reset posInf vb pal))
      (VM.choices posInf z0.r.dy (VM.init posInf pal) body)
      (z0.run arc posInf (.reset vb pal :: body)).2 := by
  rw [run_cons]
  have h1 : z0.step arc posInf (.reset vb pal) = (z0.reset posInf vb pal, []) := rfl
  rw [h1, List.nil_append]
  have := body_blocks arc hArc posInf body hb (z0.reset posInf vb pal)
  rw [abs_reset] at this
  exact this

/-- if the machine prescribes no paint for any path, the rasteriser is never called -/
theorem blocks_all_none {w h : Int} {r : Rect} {real : PaintSpec α → Paint β}
    {cs : List (Option (PaintSpec α))} {ops : List (RasterOp α β)} (hb : Blocks w h r real cs ops)
    (hn : ∀ c ∈ cs, c = none) : ops = [] := by
  induction hb with
  | nil => rfl
  | silent cs ops _ ih => exact ih (fun c h => hn c (List.mem_cons_of_mem _ h))
  | block p x y mid cs ops _ _ _ => exact absurd (hn _ (List.mem_cons_self ..)) (by simp)

/-! ## every call commutes with the abstraction; selectors stay within 6 bits -/

theorem step_regs (arc : ArcFn α β) (posInf : α) (z : Renderer α β) (c : Call α)
    (hc : isStyling c = false) : regs (z.step arc posInf c).1 = regs z := by
  cases c <;> simp only [isStyling, Bool.true_eq_false] at hc
  case startPath adj x y =>
    have hstep : z.step arc posInf (.startPath adj x y) = z.startPath adj x y := rfl
    rw [hstep, startPath_eq]
    split <;> rfl
  case closeEnd =>
    by_cases hd : z.disabled = true
    · simp only [Renderer.step, if_pos hd]
    · simp only [Renderer.step, if_neg hd, Renderer.closePath]; rfl
  case d1 v x => exact (segment_frame arc posInf z _ rfl).1
  case d2 v x y => exact (segment_frame arc posInf z _ rfl).1
  case d4 v a b x y => exact (segment_frame arc posInf z _ rfl).1
  case d6 v a b c d x y => exact (segment_frame arc posInf z _ rfl).1
  case arc rel rx ry rot la sw x y => exact (segment_frame arc posInf z _ rfl).1

/-- every Destination call commutes with the abstraction (the machine ignores path calls) -/
theorem step_abs (arc : ArcFn α β) (posInf : α) (z : Renderer α β) (c : Call α) :
    absVM (z.step arc posInf c).1 = (absVM z).step posInf c := by
  cases hc : isStyling c
  · rw [regs_abs (step_regs arc posInf z c hc)]
    cases c <;> first | rfl | cases hc
  · exact (styling_refines arc posInf z c hc).2

/-- the selectors are 6-bit values (what `CSel()`/`NSel()` return) -/
def SelBounds (z : Renderer α β) : Prop := z.cSel.toNat < 64 ∧ z.nSel.toNat < 64

theorem selBounds_reset (z : Renderer α β) (posInf : α) (vb : ViewBox α) (pal : Palette) :
    SelBounds (z.reset posInf vb pal) := by
  constructor <;> simp [Renderer.reset, Renderer.recalcTransform]

theorem selBounds_step (arc : ArcFn α β) (posInf : α) (z : Renderer α β) (c : Call α)
    (h : SelBounds z) : SelBounds (z.step arc posInf c).1 := by
  have hm : ∀ v : UInt8, (v &&& 0x3f).toNat < 64 := fun v => by rw [mask_index]; omega
  cases hc : isStyling c
  · have hr := step_regs arc posInf z c hc
    simp only [regs, Prod.mk.injEq] at hr
    obtain ⟨_, _, _, _, _, _, _, _, _, h1, h2, _⟩ := hr
    exact ⟨by rw [h1]; exact h.1, by rw [h2]; exact h.2⟩
  · cases c <;> simp only [isStyling, Bool.false_eq_true] at hc
    case reset vb pal => exact selBounds_reset z posInf vb pal
    case setCSel v => exact ⟨hm v, h.2⟩
    case setNSel v => exact ⟨h.1, hm v⟩
    case setLOD a b => exact h
    case setCReg adj incr col =>
      cases incr
      · exact h
      · exact ⟨hm _, h.2⟩
    case setNReg adj incr f =>
      cases incr
      · exact h
      · exact ⟨h.1, hm _⟩

theorem selBounds_run (arc : ArcFn α β) (posInf : α) (p : List (Call α)) :
    ∀ z : Renderer α β, SelBounds z → SelBounds (z.run arc posInf p).1 := by
  induction p with
  | nil => intro z h; exact h
  | cons c cs ih => intro z h; rw [run_cons]; exact ih _ (selBounds_step arc posInf z c h)

/-- under `SelBounds` the abstraction reads the selectors as they are -/
theorem abs_sel (z : Renderer α β) (h : SelBounds z) :
    (absVM z).cSel.val = z.cSel.toNat ∧ (absVM z).nSel.val = z.nSel.toNat :=
  ⟨Nat.mod_eq_of_lt h.1, Nat.mod_eq_of_lt h.2⟩


/-! ## C16 (c): colours through palette indices, registers and blends vs. direct colours -/

/-- replace the colour operand of every `SetCReg` by the direct RGBA colour the machine resolves it
    to at that point of the program -/
def directify (posInf : α) : VM α → List (Call α) → List (Call α)
  | _, [] => []
  | m, .setCReg adj incr c :: cs =>
    .setCReg adj incr (Color.rgbaColor (m.resolve c)) ::
      directify posInf (m.step posInf (.setCReg adj incr c)) cs
  | m, c :: cs => c :: directify posInf (m.step posInf c) cs

theorem directify_cons (posInf : α) (m : VM α) (c : Call α) (cs : List (Call α))
    (hc : ∀ adj incr col, c ≠ .setCReg adj incr col) :
    directify posInf m (c :: cs) = c :: directify posInf (m.step posInf c) cs := by
  cases c <;> first | rfl | exact absurd rfl (hc _ _ _)

/-- The Renderer stores only resolved colours: a program and its direct-colour version drive the
    Renderer through the same states and make the same rasteriser calls (any program, any arc). -/
theorem colour_indirection (arc : ArcFn α β) (posInf : α) (p : List (Call α)) :
    ∀ z : Renderer α β, z.run arc posInf (directify posInf (absVM z) p) = z.run arc posInf p := by
  induction p with
  | nil => intro z; rfl
  | cons c cs ih =>
    intro z
    by_cases hc : ∃ adj incr col, c = .setCReg adj incr col
    · obtain ⟨adj, incr, col, rfl⟩ := hc
      have hd : directify posInf (absVM z) (.setCReg adj incr col :: cs) =
          .setCReg adj incr (Color.rgbaColor ((absVM z).resolve col)) ::
            directify posInf ((absVM z).step posInf (.setCReg adj incr col)) cs := rfl
      have hs : z.step arc posInf (.setCReg adj incr (Color.rgbaColor ((absVM z).resolve col))) =
          z.step arc posInf (.setCReg adj incr col) := by
        simp only [Renderer.step, ← resolve_eq]
        rfl
      rw [hd, run_cons, run_cons, hs, ← step_abs arc posInf z, ih]
    · have hc' : ∀ adj incr col, c ≠ .setCReg adj incr col := fun a i k h => hc ⟨a, i, k, h⟩
      rw [directify_cons posInf _ c cs hc', run_cons, run_cons, ← step_abs arc posInf z, ih]

/-! ## C16 (a): the destination rectangle's offset -/

/-- how the pen follows the calls an arc makes -/
def penStep (z : Renderer α β) : RasterOp α β → Renderer α β
  | .lineTo x y => { z with penX := x, penY := y }
  | .cubeTo _ _ _ _ x y => { z with penX := x, penY := y }
  | _ => z

/-- the end point `RelArcTo` hands to `AbsArcTo` -/
def arcTarget (z : Renderer α β) (rel : Bool) (x y : α) : α × α :=
  if rel then (z.unabsX (z.relVecX x), z.unabsY (z.relVecY y)) else (x, y)

theorem step_arc (arc : ArcFn α β) (posInf : α) (z : Renderer α β) (rel : Bool) (rx ry rot : α)
    (la sw : Bool) (x y : α) :
    z.step arc posInf (.arc rel rx ry rot la sw x y) =
      if z.disabled = true then (z, []) else
        ((arc { z with prevSmoothType := 0 } rx ry rot la sw (arcTarget z rel x y).1
            (arcTarget z rel x y).2).foldl penStep { z with prevSmoothType := 0 },
         arc { z with prevSmoothType := 0 } rx ry rot la sw (arcTarget z rel x y).1 (arcTarget z rel x y).2) := by
  simp only [Renderer.step]
  split
  · rfl
  · congr 1

/-- redirect `Draw` calls to another rectangle -/
def retarget (r' : Rect) : RasterOp α β → RasterOp α β
  | .draw _ p => .draw r' p
  | op => op

/-- what is assumed of the arc parameter for offset independence: it does not look at the
    rectangle (the Go `AbsArcTo` uses the transform and the pen only); proved for `arcF32` below -/
def ArcRectIndep (arc : ArcFn α β) : Prop :=
  ∀ (z : Renderer α β) (r' : Rect) rx ry rot la sw x y,
    arc { z with r := r' } rx ry rot la sw x y = arc z rx ry rot la sw x y

theorem map_retarget_pathOps (r' : Rect) (ops : List (RasterOp α β)) (h : ∀ op ∈ ops, isPathOp op = true) :
    ops.map (retarget r') = ops := by
  induction ops with
  | nil => rfl
  | cons op ops ih =>
    have h1 := h op (List.mem_cons_self ..)
    rw [List.map_cons, ih (fun o ho => h o (List.mem_cons_of_mem _ ho))]
    cases op <;> first | rfl | simp [isPathOp] at h1

theorem foldl_setR (f : Renderer α β → RasterOp α β → Renderer α β) (r' : Rect)
    (hf : ∀ z op, f { z with r := r' } op = { f z op with r := r' }) :
    ∀ (ops : List (RasterOp α β)) (z : Renderer α β),
      ops.foldl f { z with r := r' } = { ops.foldl f z with r := r' } := by
  intro ops
  induction ops with
  | nil => intro z; rfl
  | cons op ops ih => intro z; rw [List.foldl_cons, List.foldl_cons, hf, ih]

theorem choose_setR (z : Renderer α β) (r' : Rect) (adj : UInt8) :
    choose ({ z with r := r' } : Renderer α β) adj = choose z adj := rfl

/-- one call, delivered to the same Renderer pointed at a rectangle of the same size -/
theorem step_setR (arc : ArcFn α β) (hArc : ArcRectIndep arc) (hPure : ArcPure arc) (posInf : α)
    (z : Renderer α β) (r' : Rect) (hx : r'.dx = z.r.dx) (hy : r'.dy = z.r.dy) (c : Call α) :
    Renderer.step arc posInf { z with r := r' } c =
      ({ (z.step arc posInf c).1 with r := r' }, (z.step arc posInf c).2.map (retarget r')) := by
  cases c
  case reset vb pal => simp only [Renderer.step, Renderer.reset, Renderer.recalcTransform, hx, hy, List.map_nil]
  case setCSel v => rfl
  case setNSel v => rfl
  case setLOD a b => rfl
  case setCReg adj incr col => cases incr <;> rfl
  case setNReg adj incr f => cases incr <;> rfl
  case startPath adj x y =>
    have h1 : ∀ z : Renderer α β, z.step arc posInf (.startPath adj x y) = z.startPath adj x y := fun _ => rfl
    rw [h1, h1, startPath_eq, startPath_eq z, choose_setR]
    have hl : lodOK ({ z with r := r' } : Renderer α β) ↔ lodOK z := by
      simp only [lodOK, hy]
    by_cases hd : (choose z adj).2 = true ∨ ¬ lodOK z
    · rw [if_pos hd, if_pos (by rw [hl]; exact hd)]; rfl
    · rw [if_neg hd, if_neg (by rw [hl]; exact hd)]
      simp only [hx, hy, List.map_cons, List.map_nil, retarget]
      rfl
  case closeEnd =>
    by_cases hd : z.disabled = true
    · simp only [Renderer.step, if_pos hd, List.map_nil]
    · simp only [Renderer.step, if_neg hd, Renderer.closePath, List.map_append, List.map_cons,
        List.map_nil, retarget]
  case d1 v x =>
    have hp := (segment_frame arc posInf z (.d1 v x) rfl).2.2 hPure
    rw [map_retarget_pathOps r' _ hp]
    by_cases hd : z.disabled = true
    · cases v <;> simp only [Renderer.step, if_pos hd]
    · cases v <;> simp only [Renderer.step, if_neg hd, Renderer.lineTo] <;> rfl
  case d2 v x y =>
    have hp := (segment_frame arc posInf z (.d2 v x y) rfl).2.2 hPure
    rw [map_retarget_pathOps r' _ hp]
    by_cases hd : z.disabled = true
    · cases v <;> simp only [Renderer.step, if_pos hd]
    · cases v <;>
        simp only [Renderer.step, if_neg hd, Renderer.lineTo, Renderer.quadTo, Renderer.setSmooth,
          Renderer.closePath, Renderer.moveTo] <;> rfl
  case d4 v a b x y =>
    have hp := (segment_frame arc posInf z (.d4 v a b x y) rfl).2.2 hPure
    rw [map_retarget_pathOps r' _ hp]
    by_cases hd : z.disabled = true
    · cases v <;> simp only [Renderer.step, if_pos hd]
    · cases v <;>
        simp only [Renderer.step, if_neg hd, Renderer.quadTo, Renderer.cubeTo, Renderer.setSmooth] <;> rfl
  case d6 v a b c d x y =>
    have hp := (segment_frame arc posInf z (.d6 v a b c d x y) rfl).2.2 hPure
    rw [map_retarget_pathOps r' _ hp]
    by_cases hd : z.disabled = true
    · cases v <;> simp only [Renderer.step, if_pos hd]
    · cases v <;> simp only [Renderer.step, if_neg hd, Renderer.cubeTo, Renderer.setSmooth] <;> rfl
  case arc rel rx ry rot la sw x y =>
    have hp := (segment_frame arc posInf z (.arc rel rx ry rot la sw x y) rfl).2.2 hPure
    rw [map_retarget_pathOps r' _ hp]
    by_cases hd : z.disabled = true
    · simp only [Renderer.step, if_pos hd]
    · rw [step_arc, step_arc, if_neg hd, if_neg hd]
      have ha := hArc ({ z with prevSmoothType := 0 } : Renderer α β) r'
      have ht : arcTarget ({ z with r := r' } : Renderer α β) rel x y = arcTarget z rel x y := rfl
      have hz : ({ ({ z with r := r' } : Renderer α β) with prevSmoothType := 0 } : Renderer α β) =
          { ({ z with prevSmoothType := 0 } : Renderer α β) with r := r' } := rfl
      rw [ht, hz, ha]
      congr 1
      apply foldl_setR
      intro z op; cases op <;> rfl

theorem run_setR (arc : ArcFn α β) (hArc : ArcRectIndep arc) (hPure : ArcPure arc) (posInf : α)
    (r' : Rect) (p : List (Call α)) :
    ∀ z : Renderer α β, r'.dx = z.r.dx → r'.dy = z.r.dy →
      Renderer.run arc posInf { z with r := r' } p =
        ({ (z.run arc posInf p).1 with r := r' }, (z.run arc posInf p).2.map (retarget r')) := by
  induction p with
  | nil => intro z _ _; rfl
  | cons c cs ih =>
    intro z hx hy
    have hr : (z.step arc posInf c).1.r = z.r := by
      cases hc : isStyling c
      · exact regs_r (step_regs arc posInf z c hc)
      · cases c <;> simp only [isStyling, Bool.false_eq_true] at hc
        case reset vb pal => rfl
        case setCSel v => rfl
        case setNSel v => rfl
        case setLOD a b => rfl
        case setCReg adj incr col => cases incr <;> rfl
        case setNReg adj incr f => cases incr <;> rfl
    rw [run_cons, step_setR arc hArc hPure posInf z r' hx hy c]
    simp only
    rw [ih (z.step arc posInf c).1 (by rw [hr]; exact hx) (by rw [hr]; exact hy), run_cons]
    simp only [List.map_append]

/-- a rectangle moved by `(ox, oy)` -/
def Rect.translate (r : Rect) (ox oy : Int) : Rect := ⟨r.minX + ox, r.minY + oy, r.maxX + ox, r.maxY + oy⟩

/-- the rectangle `SetRasterizer` stores (an empty one becomes the zero rectangle) -/
def Rect.norm (r : Rect) : Rect := if r.empty then ⟨0, 0, 0, 0⟩ else r

/-- **C16 (a).**  Rendering the same call sequence into a rectangle at another offset makes exactly
    the same rasteriser calls, except that each `Draw` goes to the moved rectangle. -/
theorem origin_independent (arc : ArcFn α β) (hArc : ArcRectIndep arc) (hPure : ArcPure arc) (posInf : α)
    (z0 : Renderer α β) (r : Rect) (ox oy : Int) (p : List (Call α)) :
    ((z0.setRasterizer (Rect.translate r ox oy)).run arc posInf p).2 =
      ((z0.setRasterizer r).run arc posInf p).2.map (retarget (Rect.norm (Rect.translate r ox oy))) := by
  have he : (Rect.translate r ox oy).empty = r.empty := by
    simp only [Rect.empty, Rect.translate, ge_iff_le, Int.add_le_add_iff_right]
  have hx : (Rect.norm (Rect.translate r ox oy)).dx = (Rect.norm r).dx := by
    simp only [Rect.norm, he]; split <;> simp only [Rect.dx, Rect.translate] <;> omega
  have hy : (Rect.norm (Rect.translate r ox oy)).dy = (Rect.norm r).dy := by
    simp only [Rect.norm, he]; split <;> simp only [Rect.dy, Rect.translate] <;> omega
  have hset : z0.setRasterizer (Rect.translate r ox oy) =
      { z0.setRasterizer r with r := Rect.norm (Rect.translate r ox oy) } := by
    have h1 : ∀ q : Rect, z0.setRasterizer q =
        ({ z0 with r := Rect.norm q, penX := zeroA, penY := zeroA, firstX := zeroA, firstY := zeroA } :
          Renderer α β).recalcTransform := fun _ => rfl
    rw [h1, h1]
    simp only [Renderer.recalcTransform, hx, hy]
  have hr : (z0.setRasterizer r).r = Rect.norm r := rfl
  rw [hset, run_setR arc hArc hPure posInf _ p (z0.setRasterizer r) (by rw [hr]; exact hx)
    (by rw [hr]; exact hy)]


/-! ## the hypotheses on the arc parameter hold for the model of `AbsArcTo` -/

section ArcF32
open Ivg.Num

theorem arcSegments_pure (z : Renderer F32 F64) (cx cy t1 dt rx ry c s : F64) (n : Int) :
    ∀ (fuel : Nat) (i : Int), ∀ op ∈ arcSegments z cx cy t1 dt rx ry c s n fuel i, isPathOp op = true := by
  intro fuel
  induction fuel with
  | zero => intro i op h; simp [arcSegments] at h
  | succ k ih =>
    intro i op h
    unfold arcSegments at h
    split at h
    · rcases List.mem_cons.mp h with rfl | h
      · rfl
      · exact ih _ _ h
    · cases h

/-- `AbsArcTo` makes only `LineTo`/`CubeTo` calls -/
theorem arcF32_pure : ArcPure arcF32 := by
  intro z rx ry rot la sw x y op h
  unfold arcF32 at h
  dsimp only at h
  split at h
  · rcases List.mem_singleton.mp h with rfl; rfl
  · exact arcSegments_pure _ _ _ _ _ _ _ _ _ _ _ _ _ h

theorem arcSegment_setR (z : Renderer F32 F64) (r' : Rect) (cx cy t1 t2 rx ry c s : F64) :
    arcSegment { z with r := r' } cx cy t1 t2 rx ry c s = arcSegment z cx cy t1 t2 rx ry c s := rfl

theorem arcSegments_setR (z : Renderer F32 F64) (r' : Rect) (cx cy t1 dt rx ry c s : F64) (n : Int) :
    ∀ (fuel : Nat) (i : Int), arcSegments { z with r := r' } cx cy t1 dt rx ry c s n fuel i =
      arcSegments z cx cy t1 dt rx ry c s n fuel i := by
  intro fuel
  induction fuel with
  | zero => intro i; rfl
  | succ k ih =>
    intro i
    unfold arcSegments
    rw [arcSegment_setR, ih]

/-- `AbsArcTo` does not look at the destination rectangle -/
theorem arcF32_rectIndep : ArcRectIndep arcF32 := by
  intro z r' rx ry rot la sw x y
  unfold arcF32
  simp only [arcSegments_setR, Renderer.absX, Renderer.absY, Renderer.unabsX, Renderer.unabsY]
  rfl

end ArcF32


/-! ## C16: the configured compositing operator applies to the first drawn path only -/

section VecRaster
open Ivg.VecRaster

theorem vec_run_over (cs : List RCall) : ∀ z : Rasterizer, z.drawOp = .over →
    z.run cs = List.replicate (cs.count .draw) .over := by
  induction cs with
  | nil => intro z _; rfl
  | cons c cs ih =>
    intro z hz
    cases c
    · exact ih z.reset hz
    · exact ih z hz
    · have h1 : z.run (.draw :: cs) = z.drawOp :: (z.draw).1.run cs := rfl
      rw [h1, ih _ rfl, hz]
      simp [List.replicate_succ]

/-- Over any sequence of rasteriser calls — resets, path operations, draws — starting with
    `DrawOp = op`, the operators used by the successive draws are `op, Over, Over, …`. -/
theorem drawop_first_only (z : Rasterizer) (cs : List RCall) :
    z.run cs = match cs.count .draw with
      | 0 => []
      | n + 1 => z.drawOp :: List.replicate n .over := by
  induction cs generalizing z with
  | nil => rfl
  | cons c cs ih =>
    cases c
    · exact ih z.reset
    · exact ih z
    · have h1 : z.run (.draw :: cs) = z.drawOp :: (z.draw).1.run cs := rfl
      rw [h1, vec_run_over cs _ rfl]
      simp

/-- the `raster.Rasterizer` call a Renderer operation is -/
def toRCall : RasterOp α β → RCall
  | .reset .. => .reset
  | .draw .. => .draw
  | _ => .pathOp

theorem count_draw (ops : List (RasterOp α β)) :
    (ops.map toRCall).count .draw = (drawsOf ops).length := by
  induction ops with
  | nil => rfl
  | cons op ops ih => cases op <;> simp [toRCall, drawsOf, ih]

end VecRaster


/-! ## concrete instances used by the non-vacuity examples of the property files -/

namespace Ex
open Ivg.Num

/-- float32 +Inf -/
def posInf : F32 := ⟨0x7f800000⟩
def n (i : Int) : F32 := F32.ofInt i

/-- a fresh Renderer pointed at a 24×24 rectangle at offset (10, 20), after `Reset` with the default
    metadata -/
def z24 : Renderer F32 F64 :=
  ((Renderer.zero (α := F32) (β := F64)).setRasterizer ⟨10, 20, 34, 44⟩).reset posInf defaultViewBox defaultPalette

/-- a body with: a two-stop linear gradient path; a fully transparent path; a path outside the LOD
    range; a flat path painted through a palette index, a register reference and a blend -/
def body : List (Call F32) :=
  [ .setCSel 10, .setCReg 0 true (Color.rgbaColor ⟨0xff, 0, 0, 0xff⟩),
    .setCReg 0 true (Color.rgbaColor ⟨0, 0, 0xff, 0xff⟩),
    .setNSel 10, .setNReg 0 true (n 0), .setNReg 0 true (n 1),
    .setCSel 0, .setCReg 0 false (Color.rgbaColor (encodeGradient 10 10 0 1 2)),
    .startPath 0 (n 0) (n 0), .d2 .L (n 1) (n 1), .d1 .H (n 3), .closeEnd,
    .setCReg 1 false (Color.rgbaColor ⟨0, 0, 0, 0⟩),
    .startPath 1 (n 0) (n 0), .d2 .L (n 1) (n 1), .closeEnd,
    .setLOD (n 32) (n 64),
    .startPath 2 (n 0) (n 0), .d4 .Q (n 1) (n 1) (n 2) (n 0), .closeEnd,
    .setLOD (n 0) posInf,
    .setCReg 3 false (Color.paletteIndexColor 5), .setCReg 4 false (Color.cRegColor 61),
    .setCReg 5 false (Color.blendColor 0x40 0x7f 0x85),
    .startPath 5 (n 0) (n 0), .arc false (n 1) (n 1) (n 0) true false (n 2) (n 2), .closeEnd ]

theorem body_ok : Body body := by
  refine .styling _ _ rfl <| .styling _ _ rfl <| .styling _ _ rfl <| .styling _ _ rfl <|
    .styling _ _ rfl <| .styling _ _ rfl <| .styling _ _ rfl <| .styling _ _ rfl <|
    .path 0 _ _ [_, _] _ (by decide) <| .styling _ _ rfl <|
    .path 1 _ _ [_] _ (by decide) <| .styling _ _ rfl <|
    .path 2 _ _ [_] _ (by decide) <| .styling _ _ rfl <| .styling _ _ rfl <| .styling _ _ rfl <|
    .styling _ _ rfl <| .path 5 _ _ [_] _ (by decide) .nil

/-- what the machine prescribes for the four paths of `body` at height 24: a 2-stop gradient, nothing,
    nothing, a flat colour -/
def kinds : List (Option (PaintSpec F32)) → List Nat
  | [] => []
  | some (.gradient g) :: r => g.stops.length :: kinds r
  | some (.flat c) :: r => (1000 + c.a.toNat) :: kinds r
  | none :: r => 0 :: kinds r

set_option maxRecDepth 100000 in
theorem body_kinds : kinds (VM.choices posInf 24 (VM.init posInf defaultPalette) body) = [2, 0, 0, 1064] := by
  decide +kernel

end Ex

end Ivg.Lemmas.RendererVM
