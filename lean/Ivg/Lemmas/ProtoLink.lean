import Ivg.Lemmas.EncoderInv
import Ivg.Spec.Protocol
/-!
# The protocol automaton of C10 and the predicate `Proto` of the round-trip proof (C01) agree

`Spec.Protocol.prun` is the specification automaton written from the text of C10; `EncoderInv.Proto`
is the inductive shape under which `encode_decode` is proved.  For Reset-free programs whose colours
a Go program can construct they accept the same programs and end in the same mode.
-/
set_option linter.constructorNameAsVariable false
namespace Ivg.ProtoLink
open Ivg Num Enc EncoderInv RoundTrip Spec.Protocol

def st (inPath : Bool) : PState := if inPath then .drawing else .styling

theorem prun_cons (s : PState) (op : Op) (ops : List Op) : prun s (op :: ops) = prun (pstep s op) ops := rfl

theorem prun_failed (k : Kind) (ops : List Op) (h : ∀ op ∈ ops, op ≠ .reset) : prun (.failed k) ops = .failed k := by
  induction ops with
  | nil => rfl
  | cons op ops ih =>
    rw [prun_cons, show pstep (.failed k) op = .failed k from by
      cases op <;> first | rfl | exact absurd rfl (h _ (by simp))]
    exact ih (fun o ho => h o (by simp [ho]))

theorem st_ne_failed (b : Bool) (k : Kind) : PState.failed k ≠ st b := by cases b <;> simp [st]

theorem checkAdj_ok (adj : UInt8) (incr : Bool) (ok s : PState) (hs : ∀ k, s ≠ .failed k) (h : checkAdj adj incr ok = s) :
    adj.toNat ≤ 6 ∧ (incr = true → adj = 0) ∧ ok = s := by
  unfold checkAdj at h
  split at h
  · exact absurd h.symm (hs _)
  · split at h
    · exact absurd h.symm (hs _)
    · rename_i h1 h2
      refine ⟨?_, ?_, h⟩
      · have : ¬ (6 : UInt8) < adj := h1
        rw [UInt8.lt_iff_toNat_lt] at this; simp at this; omega
      · intro hi
        by_cases h0 : adj = 0
        · exact h0
        · exact absurd ⟨hi, h0⟩ h2

/-- from the automaton to `Proto` -/
theorem proto_of_prun (p : List (Call F32)) : ∀ (inPath endPath : Bool)
    (_ : ∀ c ∈ p, classifyCall c ≠ .reset)
    (_ : ∀ adj incr c, Call.setCReg adj incr c ∈ p → c.WF)
    (_ : prun (st inPath) (p.map classifyCall) = st endPath), Proto inPath p endPath := by
  induction p with
  | nil =>
    intro inPath endPath _ _ h
    cases inPath <;> cases endPath <;> simp_all [Proto, prun, st]
  | cons c cs ih =>
    intro inPath endPath hnr hwf h
    have hnr' : ∀ c ∈ cs, classifyCall c ≠ .reset := fun c hc => hnr c (by simp [hc])
    have hnrOps : ∀ op ∈ cs.map classifyCall, op ≠ .reset := by
      intro op hop; simp at hop; obtain ⟨c, hc, rfl⟩ := hop; exact hnr' c hc
    have hwf' : ∀ adj incr c, Call.setCReg adj incr c ∈ cs → c.WF := fun a i c hc => hwf a i c (by simp [hc])
    simp only [List.map_cons, prun_cons] at h
    -- a failing first step contradicts `h`
    have hfail : ∀ k, pstep (st inPath) (classifyCall c) = .failed k → False := by
      intro k hk; rw [hk, prun_failed k _ hnrOps] at h; exact st_ne_failed _ _ h
    cases inPath with
    | false =>
      cases c with
      | reset vb pal => exact absurd rfl (hnr (.reset vb pal) (by simp))
      | setCSel v => exact Or.inl ⟨trivial, ih false endPath hnr' hwf' h⟩
      | setNSel v => exact Or.inl ⟨trivial, ih false endPath hnr' hwf' h⟩
      | setLOD a b => exact Or.inl ⟨trivial, ih false endPath hnr' hwf' h⟩
      | setCReg adj incr col =>
        have hs : ∀ k, pstep (st false) (classifyCall (Call.setCReg (α := F32) adj incr col)) ≠ .failed k :=
          fun k hk => hfail k hk
        obtain ⟨h1, h2, h3⟩ := checkAdj_ok adj incr .styling _ hs rfl
        refine Or.inl ⟨⟨h1, h2, hwf adj incr col (by simp)⟩, ih false endPath hnr' hwf' ?_⟩
        rw [← h3] at h; exact h
      | setNReg adj incr f =>
        have hs : ∀ k, pstep (st false) (classifyCall (Call.setNReg adj incr f)) ≠ .failed k :=
          fun k hk => hfail k hk
        obtain ⟨h1, h2, h3⟩ := checkAdj_ok adj incr .styling _ hs rfl
        refine Or.inl ⟨⟨h1, h2⟩, ih false endPath hnr' hwf' ?_⟩
        rw [← h3] at h; exact h
      | startPath adj x y =>
        have hs : ∀ k, pstep (st false) (classifyCall (Call.startPath adj x y)) ≠ .failed k :=
          fun k hk => hfail k hk
        obtain ⟨h1, _, h3⟩ := checkAdj_ok adj false .drawing _ hs rfl
        refine Or.inr ⟨adj, x, y, rfl, h1, ih true endPath hnr' hwf' ?_⟩
        rw [← h3] at h; exact h
      | closeEnd => exact (hfail .drawingInStyling rfl).elim
      | d1 v x => exact (hfail .drawingInStyling rfl).elim
      | d2 v x y => exact (hfail .drawingInStyling rfl).elim
      | d4 v a b x y => exact (hfail .drawingInStyling rfl).elim
      | d6 v a b c d x y => exact (hfail .drawingInStyling rfl).elim
      | arc rel rx ry rot la sw x y => exact (hfail .drawingInStyling rfl).elim
    | true =>
      cases c with
      | reset vb pal => exact absurd rfl (hnr (.reset vb pal) (by simp))
      | setCSel v => exact (hfail .stylingInDrawing rfl).elim
      | setNSel v => exact (hfail .stylingInDrawing rfl).elim
      | setLOD a b => exact (hfail .stylingInDrawing rfl).elim
      | setCReg adj incr col => exact (hfail .stylingInDrawing rfl).elim
      | setNReg adj incr f => exact (hfail .stylingInDrawing rfl).elim
      | startPath adj x y => exact (hfail .stylingInDrawing rfl).elim
      | closeEnd => exact Or.inr ⟨rfl, ih false endPath hnr' hwf' h⟩
      | d1 v x => exact Or.inl ⟨⟨_, rfl, by simp⟩, ih true endPath hnr' hwf' h⟩
      | d2 v x y => exact Or.inl ⟨⟨_, rfl, by simp⟩, ih true endPath hnr' hwf' h⟩
      | d4 v a b x y => exact Or.inl ⟨⟨_, rfl, by simp⟩, ih true endPath hnr' hwf' h⟩
      | d6 v a b c d x y => exact Or.inl ⟨⟨_, rfl, by simp⟩, ih true endPath hnr' hwf' h⟩
      | arc rel rx ry rot la sw x y =>
        exact Or.inl ⟨⟨_, rfl, by cases rel <;> simp⟩, ih true endPath hnr' hwf' h⟩

/-- … and back: a `Proto` program drives the automaton without violation to the matching mode -/
theorem prun_of_proto (p : List (Call F32)) : ∀ (inPath endPath : Bool) (_ : Proto inPath p endPath),
    prun (st inPath) (p.map classifyCall) = st endPath := by
  induction p with
  | nil => intro inPath endPath h; cases inPath <;> cases endPath <;> simp_all [Proto, prun, st]
  | cons c cs ih =>
    intro inPath endPath h
    simp only [List.map_cons, prun_cons]
    cases inPath with
    | false =>
      rcases h with ⟨hs, hr⟩ | ⟨adj, x, y, rfl, hadj, hr⟩
      · cases c with
        | setCSel v => exact ih false endPath hr
        | setNSel v => exact ih false endPath hr
        | setLOD a b => exact ih false endPath hr
        | setCReg adj incr col =>
          obtain ⟨h1, h2, _⟩ := hs
          have : pstep (st false) (classifyCall (Call.setCReg (α := F32) adj incr col)) = .styling := by
            show checkAdj adj incr .styling = .styling
            unfold checkAdj
            rw [if_neg (by show ¬ (6 : UInt8) < adj; rw [UInt8.lt_iff_toNat_lt]; simp; omega), if_neg (fun ⟨a, b⟩ => b (h2 a))]
          rw [this]; exact ih false endPath hr
        | setNReg adj incr f =>
          obtain ⟨h1, h2⟩ := hs
          have : pstep (st false) (classifyCall (Call.setNReg adj incr f)) = .styling := by
            show checkAdj adj incr .styling = .styling
            unfold checkAdj
            rw [if_neg (by show ¬ (6 : UInt8) < adj; rw [UInt8.lt_iff_toNat_lt]; simp; omega), if_neg (fun ⟨a, b⟩ => b (h2 a))]
          rw [this]; exact ih false endPath hr
        | _ => exact hs.elim
      · have : pstep (st false) (classifyCall (Call.startPath adj x y)) = .drawing := by
          show checkAdj adj false .drawing = .drawing
          unfold checkAdj
          rw [if_neg (by show ¬ (6 : UInt8) < adj; rw [UInt8.lt_iff_toNat_lt]; simp; omega), if_neg (by simp)]
        rw [this]; exact ih true endPath hr
    | true =>
      rcases h with ⟨⟨d, hd, hz⟩, hr⟩ | ⟨rfl, hr⟩
      · cases c <;> simp [drawOpOf] at hd
        · exact absurd hd.symm hz
        all_goals exact ih true endPath hr
      · exact ih false endPath hr

end Ivg.ProtoLink
