import Ivg.Lemmas.Decoder
import Ivg.Lemmas.EncoderInv
/-!
# The decoder loop facts used by C01: fuel irrelevance and `DStep`
-/
namespace Ivg.LoopC01
open Ivg Num Enc Dec RoundTrip EncoderInv

theorem stepDec_shorter {m : DMode} {src : Bytes} {its : List Item} {m' : DMode} {rest : Bytes}
    (h : stepDec m src = (its, .ok (m', rest))) : rest.length < src.length := by
  obtain ⟨pre, hne, hsrc, _⟩ := DecL.stepDec_ok h
  rw [hsrc]
  exact len_lt_append pre rest hne

/-- fuel above the input length is irrelevant: the Go loop terminates -/
theorem loop_fuel : ∀ (n : Nat) (src : Bytes) (m : DMode) (f1 f2 : Nat),
    src.length ≤ n → src.length < f1 → src.length < f2 → loop f1 m src = loop f2 m src := by
  intro n
  induction n with
  | zero =>
    intro src m f1 f2 hn h1 h2
    have : src = [] := by cases src <;> simp_all
    subst this
    cases f1 <;> cases f2 <;> simp_all [loop]
  | succ n ih =>
    intro src m f1 f2 hn h1 h2
    cases f1 with
    | zero => omega
    | succ f1 =>
      cases f2 with
      | zero => omega
      | succ f2 =>
        cases src with
        | nil => simp [loop]
        | cons b src =>
          simp only [loop]
          rcases hs : stepDec m (b :: src) with ⟨its, r⟩
          cases r with
          | error e => rfl
          | ok p =>
            obtain ⟨m', rest⟩ := p
            have hl := stepDec_shorter hs
            simp only
            rw [ih rest m' f1 f2 (by simp at hl hn; omega) (by simp at hl h1; omega) (by simp at hl h2; omega)]

theorem dstep : DStep := by
  intro m src cs m' k hstep hlen
  obtain ⟨h1, h2⟩ := hstep
  cases src with
  | nil => simp at hlen
  | cons b src =>
    rcases hs : stepDec m (b :: src) with ⟨its, r⟩
    rw [hs] at h1 h2
    simp only at h1 h2
    subst h1
    unfold Dc
    simp only [List.length_cons, loop, hs]
    rw [loop_fuel k.length k m' (src.length + 1) (k.length + 1) (Nat.le_refl _) (by simp at hlen; omega) (by omega)]
    simp [callsOf_append, h2]

theorem Dc_nil (m : DMode) : Dc m [] = ([], none) := by
  simp [Dc, loop]

end Ivg.LoopC01
