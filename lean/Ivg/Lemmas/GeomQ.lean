import Ivg.Lemmas.RatInst
import Ivg.Model.Renderer
import Ivg.Spec.Path
import Mathlib.Tactic.Ring
import Mathlib.Tactic.FieldSimp
import Mathlib.Tactic.Linarith
/-!
# C05 at exact arithmetic: the renderer's drawing methods refine SVG path semantics

`Ivg/Spec/Path.lean` gives the meaning of the drawing calls in viewBox space.  Here the Renderer model
(`Ivg/Model/Renderer.lean`) instantiated at `ℚ` is shown to emit, call by call, the specification's segments
mapped by the affine map `T z : (x, y) ↦ (scaleX·(x + biasX), scaleY·(y + biasY))`, which after
`SetRasterizer r; Reset vb` is `(dx·(x − minX)/(maxX − minX), dy·(y − minY)/(maxY − minY))` and takes the
viewBox onto the target rectangle.  Arcs are not covered here.
-/
open Ivg Ren RatInst
open Ivg.Spec.Path (Pt Seg Ctrl State)

namespace Ivg.GeomQ
set_option linter.constructorNameAsVariable false
set_option linter.unusedSectionVars false
section exact
variable [SqrtQ]

/-- the affine map of a renderer: viewBox space to rasteriser (pixel) space -/
def T (z : Renderer ℚ ℚ) (p : Pt ℚ) : Pt ℚ := ⟨z.scaleX * (p.x + z.biasX), z.scaleY * (p.y + z.biasY)⟩

def toOp : Seg ℚ → RasterOp ℚ ℚ
  | .move p => .moveTo p.x p.y
  | .line p => .lineTo p.x p.y
  | .quad c p => .quadTo c.x c.y p.x p.y
  | .cube c1 c2 p => .cubeTo c1.x c1.y c2.x c2.y p.x p.y
  | .close => .closePath

/-- the smooth-point bookkeeping of the renderer mirrors the specification's last control point -/
def SmoothInv (z : Renderer ℚ ℚ) : Ctrl ℚ → Prop
  | .none => z.prevSmoothType = 0
  | .quad c => z.prevSmoothType = 1 ∧ z.prevSmoothX = (T z c).x ∧ z.prevSmoothY = (T z c).y
  | .cube c => z.prevSmoothType = 2 ∧ z.prevSmoothX = (T z c).x ∧ z.prevSmoothY = (T z c).y

def Inv (z : Renderer ℚ ℚ) (s : State ℚ) : Prop :=
  z.disabled = false ∧
  (z.penX = (T z s.pen).x ∧ z.penY = (T z s.pen).y) ∧
  (z.firstX = (T z s.start).x ∧ z.firstY = (T z s.start).y) ∧
  SmoothInv z s.ctrl

/-- the part of the state drawing calls never touch -/
def frame (z : Renderer ℚ ℚ) := (z.r, z.scaleX, z.biasX, z.scaleY, z.biasY, z.viewBox, z.palette, z.lod0, z.lod1,
  z.cSel, z.nSel, z.disabled, z.cReg, z.nReg, z.fill)

macro "geom_finish" : tactic => `(tactic| (
  (try simp only [List.cons.injEq, RasterOp.lineTo.injEq, RasterOp.quadTo.injEq, RasterOp.cubeTo.injEq,
    RasterOp.moveTo.injEq, and_true, true_and]) <;>
  (try ((repeat' apply And.intro) <;> first | trivial | ring))))

omit [SqrtQ] in
theorem two_eq : (two : ℚ) = 2 := by show ((2 : ℤ) : ℚ) = 2; norm_num

set_option linter.unusedSimpArgs false in
theorem step_refines (arc : ArcFn ℚ ℚ) (posInf : ℚ) (z : Renderer ℚ ℚ) (s : State ℚ) (h : Inv z s)
    (c : Call ℚ) (hc : Spec.Path.isSeg c = true) :
    (z.step arc posInf c).2 = ((Spec.Path.step s c).2.map (Seg.map (T z))).map toOp ∧
    Inv (z.step arc posInf c).1 (Spec.Path.step s c).1 ∧
    frame (z.step arc posInf c).1 = frame z := by
  obtain ⟨pen, start, ctrl⟩ := s
  obtain ⟨hen, ⟨hpx, hpy⟩, ⟨hfx, hfy⟩, hsm⟩ := h
  simp only [T] at hpx hpy hfx hfy
  cases c with
  | d1 v x =>
    cases v <;> cases ctrl <;>
    simp only [Renderer.step, hen, Bool.false_eq_true, if_false, Renderer.lineTo, Spec.Path.step, Spec.Path.lineTo,
      List.map, Seg.map, toOp, T, Renderer.absX, Renderer.absY, Renderer.relX, Renderer.relY, frame, and_true,
      SmoothInv, Inv, hpx, hpy, hfx, hfy, true_and] <;>
    geom_finish
  | d2 v x y =>
    cases v <;> cases ctrl <;> simp only [SmoothInv, T] at hsm <;>
    simp only [Renderer.step, hen, Bool.false_eq_true, if_false, Renderer.lineTo, Renderer.quadTo, Renderer.cubeTo,
      Renderer.closePath, Renderer.moveTo, Renderer.setSmooth, Renderer.implicitSmoothPoint, Renderer.relVecX,
      Renderer.relVecY, Spec.Path.step, Spec.Path.lineTo, Spec.Path.quadTo, Spec.Path.cubeTo, Spec.Path.closeMove,
      Spec.Path.smoothQuad, Spec.Path.smoothCube, Spec.Path.reflect, Spec.Path.Pt.off, two_eq,
      List.map, List.append, List.cons_append, List.nil_append, Seg.map, toOp, T, Renderer.absX, Renderer.absY,
      Renderer.relX, Renderer.relY, frame, and_true,
      SmoothInv, Inv, hpx, hpy, hfx, hfy, hsm, true_and, ne_eq, not_true_eq_false, not_false_eq_true, if_true,
      (by decide : ((0 : ℕ) = 1) = False), (by decide : ((2 : ℕ) = 1) = False),
      (by decide : ((0 : ℕ) = 2) = False), (by decide : ((1 : ℕ) = 2) = False)] <;>
    geom_finish
  | d4 v x1 y1 x y =>
    cases v <;> cases ctrl <;> simp only [SmoothInv, T] at hsm <;>
    simp only [Renderer.step, hen, Bool.false_eq_true, if_false, Renderer.lineTo, Renderer.quadTo, Renderer.cubeTo,
      Renderer.closePath, Renderer.moveTo, Renderer.setSmooth, Renderer.implicitSmoothPoint, Renderer.relVecX,
      Renderer.relVecY, Spec.Path.step, Spec.Path.lineTo, Spec.Path.quadTo, Spec.Path.cubeTo, Spec.Path.closeMove,
      Spec.Path.smoothQuad, Spec.Path.smoothCube, Spec.Path.reflect, Spec.Path.Pt.off, two_eq,
      List.map, List.append, List.cons_append, List.nil_append, Seg.map, toOp, T, Renderer.absX, Renderer.absY,
      Renderer.relX, Renderer.relY, frame, and_true,
      SmoothInv, Inv, hpx, hpy, hfx, hfy, hsm, true_and, ne_eq, not_true_eq_false, not_false_eq_true, if_true,
      (by decide : ((0 : ℕ) = 1) = False), (by decide : ((2 : ℕ) = 1) = False),
      (by decide : ((0 : ℕ) = 2) = False), (by decide : ((1 : ℕ) = 2) = False)] <;>
    geom_finish
  | d6 v x1 y1 x2 y2 x y =>
    cases v <;> cases ctrl <;> simp only [SmoothInv, T] at hsm <;>
    simp only [Renderer.step, hen, Bool.false_eq_true, if_false, Renderer.lineTo, Renderer.quadTo, Renderer.cubeTo,
      Renderer.closePath, Renderer.moveTo, Renderer.setSmooth, Renderer.implicitSmoothPoint, Renderer.relVecX,
      Renderer.relVecY, Spec.Path.step, Spec.Path.lineTo, Spec.Path.quadTo, Spec.Path.cubeTo, Spec.Path.closeMove,
      Spec.Path.smoothQuad, Spec.Path.smoothCube, Spec.Path.reflect, Spec.Path.Pt.off, two_eq,
      List.map, List.append, List.cons_append, List.nil_append, Seg.map, toOp, T, Renderer.absX, Renderer.absY,
      Renderer.relX, Renderer.relY, frame, and_true,
      SmoothInv, Inv, hpx, hpy, hfx, hfy, hsm, true_and, ne_eq, not_true_eq_false, not_false_eq_true, if_true,
      (by decide : ((0 : ℕ) = 1) = False), (by decide : ((2 : ℕ) = 1) = False),
      (by decide : ((0 : ℕ) = 2) = False), (by decide : ((1 : ℕ) = 2) = False)] <;>
    geom_finish
  | _ => simp [Spec.Path.isSeg] at hc

theorem T_frame {z z' : Renderer ℚ ℚ} (h : frame z' = frame z) : T z' = T z := by
  simp only [frame, Prod.mk.injEq] at h
  obtain ⟨-, h1, h2, h3, h4, -⟩ := h
  funext p; simp only [T, h1, h2, h3, h4]

theorem run_cons (arc : ArcFn ℚ ℚ) (posInf : ℚ) (z : Renderer ℚ ℚ) (c : Call ℚ) (cs : List (Call ℚ)) :
    z.run arc posInf (c :: cs) =
      (((z.step arc posInf c).1.run arc posInf cs).1, (z.step arc posInf c).2 ++ ((z.step arc posInf c).1.run arc posInf cs).2) := rfl

/-- a whole arc-free body: the rasteriser calls are the specification's segments, mapped by `T` -/
theorem run_refines (arc : ArcFn ℚ ℚ) (posInf : ℚ) (body : List (Call ℚ)) :
    ∀ (z : Renderer ℚ ℚ) (s : State ℚ), Inv z s → (∀ c ∈ body, Spec.Path.isSeg c = true) →
    (z.run arc posInf body).2 = ((Spec.Path.run s body).2.map (Seg.map (T z))).map toOp ∧
    Inv (z.run arc posInf body).1 (Spec.Path.run s body).1 ∧
    frame (z.run arc posInf body).1 = frame z := by
  induction body with
  | nil => intro z s h _; exact ⟨rfl, h, rfl⟩
  | cons c cs ih =>
    intro z s h hall
    obtain ⟨h1, h2, h3⟩ := step_refines arc posInf z s h c (hall c (by simp))
    obtain ⟨i1, i2, i3⟩ := ih _ _ h2 (fun c hc => hall c (List.mem_cons_of_mem _ hc))
    rw [run_cons]
    simp only [Spec.Path.run]
    refine ⟨?_, i2, i3.trans h3⟩
    rw [h1, i1, T_frame h3, List.map_append, List.map_append]

/-- `StartPath` either disables the renderer and draws nothing, or leaves it enabled, resets the
    rasteriser to the size of the target rectangle and moves to `T (x, y)`; the state then corresponds to
    the start of a path at `(x, y)` -/
theorem startPath_cases (z : Renderer ℚ ℚ) (adj : UInt8) (x y : ℚ) :
    ((z.startPath adj x y).1.disabled = true ∧ (z.startPath adj x y).2 = []) ∨
    ((z.startPath adj x y).1.disabled = false ∧
      (z.startPath adj x y).2 = [.reset z.r.dx z.r.dy, toOp (.move (T z ⟨x, y⟩))] ∧
      Inv (z.startPath adj x y).1 (Spec.Path.start ⟨x, y⟩) ∧
      (z.startPath adj x y).1.r = z.r ∧ T (z.startPath adj x y).1 = T z) := by
  unfold Renderer.startPath
  dsimp only
  generalize (if (z.cReg.get6 (z.cSel - adj)).validPremul = true then _ else _ : Paint ℚ × Bool) = fd
  obtain ⟨fill, dis⟩ := fd
  dsimp only
  generalize (dis || !(decide (z.lod0 ≤ Arith.ofInt z.r.dy) && decide (Arith.ofInt z.r.dy < z.lod1))) = d
  cases d
  · right
    simp only [Bool.false_eq_true, if_false, Renderer.moveTo, toOp, T, Renderer.absX, Renderer.absY, Inv, SmoothInv,
      Spec.Path.start, and_true, true_and]
    rfl
  · left
    simp only [if_true, and_self]

theorem startPath_enabled (z : Renderer ℚ ℚ) (adj : UInt8) (x y : ℚ)
    (hen : (z.startPath adj x y).1.disabled = false) :
    (z.startPath adj x y).2 = [.reset z.r.dx z.r.dy, toOp (.move (T z ⟨x, y⟩))] ∧
    Inv (z.startPath adj x y).1 (Spec.Path.start ⟨x, y⟩) ∧
    (z.startPath adj x y).1.r = z.r ∧ T (z.startPath adj x y).1 = T z := by
  rcases startPath_cases z adj x y with ⟨h, -⟩ | ⟨-, h⟩
  · rw [h] at hen; cases hen
  · exact h

/-- `ClosePathEndPath` on an enabled renderer: one `closePath`, then exactly one `draw`, over the target
    rectangle, with the path's paint -/
theorem closeEnd_enabled (arc : ArcFn ℚ ℚ) (posInf : ℚ) (z : Renderer ℚ ℚ) (hen : z.disabled = false) :
    (z.step arc posInf .closeEnd).2 = [.closePath, .draw z.r z.fill] := by
  simp only [Renderer.step, hen, Bool.false_eq_true, if_false, Renderer.closePath, List.cons_append, List.nil_append]

theorem run_append (arc : ArcFn ℚ ℚ) (posInf : ℚ) (a b : List (Call ℚ)) : ∀ (z : Renderer ℚ ℚ),
    z.run arc posInf (a ++ b) =
      (((z.run arc posInf a).1.run arc posInf b).1, (z.run arc posInf a).2 ++ ((z.run arc posInf a).1.run arc posInf b).2) := by
  induction a with
  | nil => intro z; rfl
  | cons c cs ih =>
    intro z
    rw [List.cons_append, run_cons, run_cons, ih]
    simp only [List.append_assoc]

theorem run_single (arc : ArcFn ℚ ℚ) (posInf : ℚ) (z : Renderer ℚ ℚ) (c : Call ℚ) :
    (z.run arc posInf [c]).2 = (z.step arc posInf c).2 := by
  rw [run_cons]; simp [Renderer.run]

/-- Headline: a whole enabled path `StartPath(adj, x, y); body; ClosePathEndPath` with an arc-free body
    reaches the rasteriser as: `Reset` to the size of the target rectangle, then exactly the
    specification's segments of the path (move, body, close) mapped by the affine map `T z`, then exactly
    one `Draw`, over the target rectangle `z.r`, with the paint `StartPath` selected -/
theorem geometry_refines (arc : ArcFn ℚ ℚ) (posInf : ℚ) (z : Renderer ℚ ℚ) (adj : UInt8) (x y : ℚ)
    (body : List (Call ℚ)) (hbody : ∀ c ∈ body, Spec.Path.isSeg c = true)
    (hen : (z.startPath adj x y).1.disabled = false) :
    (z.run arc posInf (.startPath adj x y :: body ++ [.closeEnd])).2 =
      .reset z.r.dx z.r.dy ::
        ((Spec.Path.pathSegs x y body).map (Seg.map (T z))).map toOp ++
        [.draw z.r (z.startPath adj x y).1.fill] := by
  obtain ⟨hops, hinv, hr, hT⟩ := startPath_enabled z adj x y hen
  have hstep : z.step arc posInf (.startPath adj x y) = z.startPath adj x y := rfl
  obtain ⟨b1, b2, b3⟩ := run_refines arc posInf body _ _ hinv hbody
  rw [List.cons_append, run_cons, run_append, hstep, hops]
  simp only
  rw [b1, run_single, closeEnd_enabled arc posInf _ b2.1, hT]
  have hr' : ((z.startPath adj x y).1.run arc posInf body).1.r = z.r := by
    have := congrArg (fun f => f.1) b3
    simp only [frame] at this
    rw [this, hr]
  have hf : ((z.startPath adj x y).1.run arc posInf body).1.fill = (z.startPath adj x y).1.fill := by
    have := congrArg (fun f => f.2.2.2.2.2.2.2.2.2.2.2.2.2.2) b3
    simpa only [frame] using this
  rw [hr', hf]
  simp only [Spec.Path.pathSegs, List.map_cons, List.map_append, List.map_nil, List.cons_append, List.nil_append,
    Seg.map, toOp, List.append_assoc]

/-! ## the affine map takes the viewBox onto the target rectangle -/

/-- after `SetRasterizer r` (non-empty `r`) and `Reset vb pal`, the transform is the one of `vb` and `r` -/
theorem transform_after_reset (z0 : Renderer ℚ ℚ) (r : Rect) (posInf : ℚ) (vb : ViewBox ℚ) (pal : Palette)
    (hr : r.empty = false) :
    let z := (z0.setRasterizer r).reset posInf vb pal
    z.r = r ∧ z.viewBox = vb ∧
    z.scaleX = (r.dx : ℚ) / (vb.maxX - vb.minX) ∧ z.biasX = -vb.minX ∧
    z.scaleY = (r.dy : ℚ) / (vb.maxY - vb.minY) ∧ z.biasY = -vb.minY := by
  simp only [Renderer.setRasterizer, Renderer.reset, Renderer.recalcTransform, hr, Bool.false_eq_true, if_false,
    true_and]
  exact ⟨rfl, rfl, trivial⟩

/-- `T` in closed form: `x ↦ dx·(x − minX)/(maxX − minX)`, `y ↦ dy·(y − minY)/(maxY − minY)` —
    independent x and y scale -/
theorem T_closed (z : Renderer ℚ ℚ) (dx dy : ℚ) (vb : ViewBox ℚ)
    (hsx : z.scaleX = dx / (vb.maxX - vb.minX)) (hbx : z.biasX = -vb.minX)
    (hsy : z.scaleY = dy / (vb.maxY - vb.minY)) (hby : z.biasY = -vb.minY) (p : Pt ℚ) :
    T z p = ⟨dx * (p.x - vb.minX) / (vb.maxX - vb.minX), dy * (p.y - vb.minY) / (vb.maxY - vb.minY)⟩ := by
  simp only [T, hsx, hbx, hsy, hby]
  congr 1 <;> ring

/-- the two together: after `SetRasterizer r; Reset vb` the map is the one of `vb` and `r` -/
theorem T_after_reset (z0 : Renderer ℚ ℚ) (r : Rect) (posInf : ℚ) (vb : ViewBox ℚ) (pal : Palette)
    (hr : r.empty = false) (p : Pt ℚ) :
    T ((z0.setRasterizer r).reset posInf vb pal) p =
      ⟨(r.dx : ℚ) * (p.x - vb.minX) / (vb.maxX - vb.minX), (r.dy : ℚ) * (p.y - vb.minY) / (vb.maxY - vb.minY)⟩ := by
  obtain ⟨-, -, h1, h2, h3, h4⟩ := transform_after_reset z0 r posInf vb pal hr
  exact T_closed _ _ _ vb h1 h2 h3 h4 p

/-- `T` maps the viewBox's corners to the corners of the target rectangle `[0,dx] × [0,dy]` -/
theorem T_corners (z : Renderer ℚ ℚ) (dx dy : ℚ) (vb : ViewBox ℚ)
    (hsx : z.scaleX = dx / (vb.maxX - vb.minX)) (hbx : z.biasX = -vb.minX)
    (hsy : z.scaleY = dy / (vb.maxY - vb.minY)) (hby : z.biasY = -vb.minY)
    (hx : vb.minX < vb.maxX) (hy : vb.minY < vb.maxY) :
    T z ⟨vb.minX, vb.minY⟩ = ⟨0, 0⟩ ∧ T z ⟨vb.maxX, vb.maxY⟩ = ⟨dx, dy⟩ := by
  have hW : vb.maxX - vb.minX ≠ 0 := by linarith [sub_pos.mpr hx]
  have hH : vb.maxY - vb.minY ≠ 0 := by linarith [sub_pos.mpr hy]
  rw [T_closed z dx dy vb hsx hbx hsy hby, T_closed z dx dy vb hsx hbx hsy hby]
  constructor
  · congr 1 <;> simp
  · congr 1
    · field_simp
    · field_simp

/-- `unabsX`/`unabsY` (used for relative arcs and for gradients) invert `T` when the scale is non-zero -/
theorem unabs_abs (z : Renderer ℚ ℚ) (hsx : z.scaleX ≠ 0) (hsy : z.scaleY ≠ 0) (p : Pt ℚ) :
    z.unabsX (T z p).x = p.x ∧ z.unabsY (T z p).y = p.y := by
  have ex : ∀ a, z.unabsX a = a / z.scaleX - z.biasX := fun _ => rfl
  have ey : ∀ a, z.unabsY a = a / z.scaleY - z.biasY := fun _ => rfl
  simp only [T, ex, ey]
  constructor <;> field_simp <;> ring
end exact

/-! ## facts that hold for every number type -/
section generic
variable {α β : Type} [Arith α] [Arith β] [Wide α β]

/-- the kind of a rasteriser call / of a segment, forgetting the coordinates -/
inductive Kind | move | line | quad | cube | close | other
deriving DecidableEq, Repr

def opKind : RasterOp α β → Kind
  | .moveTo _ _ => .move | .lineTo _ _ => .line | .quadTo _ _ _ _ => .quad | .cubeTo _ _ _ _ _ _ => .cube
  | .closePath => .close | _ => .other

def segKind : Seg α → Kind
  | .move _ => .move | .line _ => .line | .quad _ _ => .quad | .cube _ _ _ => .cube | .close => .close

/-- for every number type: an enabled renderer makes, for each non-arc drawing call, rasteriser calls of
    exactly the kinds the specification prescribes (one line / quadratic / cubic, or close then move) -/
theorem step_kinds (arc : ArcFn α β) (posInf : α) (z : Renderer α β) (s : State α) (hen : z.disabled = false)
    (c : Call α) (hc : Spec.Path.isSeg c = true) :
    (z.step arc posInf c).2.map opKind = (Spec.Path.step s c).2.map segKind := by
  cases c with
  | d1 v x => cases v <;> simp [Renderer.step, hen, Renderer.lineTo, Spec.Path.step, Spec.Path.lineTo, opKind, segKind]
  | d2 v x y =>
    cases v <;> simp [Renderer.step, hen, Renderer.lineTo, Renderer.quadTo, Renderer.closePath, Renderer.moveTo,
      Spec.Path.step, Spec.Path.lineTo, Spec.Path.quadTo, Spec.Path.closeMove, opKind, segKind]
  | d4 v x1 y1 x y =>
    cases v <;> simp [Renderer.step, hen, Renderer.quadTo, Renderer.cubeTo, Spec.Path.step, Spec.Path.quadTo,
      Spec.Path.cubeTo, opKind, segKind]
  | d6 v x1 y1 x2 y2 x y =>
    cases v <;> simp [Renderer.step, hen, Renderer.cubeTo, Spec.Path.step, Spec.Path.cubeTo, opKind, segKind]
  | _ => simp [Spec.Path.isSeg] at hc

/-- for every number type: a disabled renderer makes no rasteriser call for any drawing call -/
theorem step_disabled (arc : ArcFn α β) (posInf : α) (z : Renderer α β) (hd : z.disabled = true)
    (c : Call α) (hc : Spec.Path.isSeg c = true ∨ c = .closeEnd) : (z.step arc posInf c).2 = [] := by
  rcases hc with hc | rfl
  · cases c with
    | d1 v x => cases v <;> simp [Renderer.step, hd]
    | d2 v x y => cases v <;> simp [Renderer.step, hd]
    | d4 v x1 y1 x y => cases v <;> simp [Renderer.step, hd]
    | d6 v x1 y1 x2 y2 x y => cases v <;> simp [Renderer.step, hd]
    | _ => simp [Spec.Path.isSeg] at hc
  · simp [Renderer.step, hd]

/-- for every number type: the relative close-and-move is relative to the SUB-PATH START, because
    `ClosePath` has moved the pen there before the offset is added; the absolute one moves to the mapped point -/
theorem closeMove_generic (arc : ArcFn α β) (posInf : α) (z : Renderer α β) (hen : z.disabled = false) (x y : α) :
    (z.step arc posInf (.d2 .y x y)).2 =
      [.closePath, .moveTo (z.firstX + z.scaleX * x) (z.firstY + z.scaleY * y)] ∧
    (z.step arc posInf (.d2 .Y x y)).2 =
      [.closePath, .moveTo (z.scaleX * (x + z.biasX)) (z.scaleY * (y + z.biasY))] := by
  constructor <;>
  simp [Renderer.step, hen, Renderer.closePath, Renderer.moveTo, Renderer.relVecX, Renderer.relVecY, Renderer.relX,
    Renderer.relY, Renderer.absX, Renderer.absY]

/-- for every number type: `ClosePathEndPath` on an enabled renderer closes the path and draws exactly once,
    over the target rectangle -/
theorem closeEnd_generic (arc : ArcFn α β) (posInf : α) (z : Renderer α β) (hen : z.disabled = false) :
    (z.step arc posInf .closeEnd).2 = [.closePath, .draw z.r z.fill] := by
  simp [Renderer.step, hen, Renderer.closePath]
end generic


/-- non-vacuity of `geometry_refines`: the renderer after `SetRasterizer 64×64; Reset (−32,−32,32,32)` with
    the default palette is enabled by `StartPath 0` (CREG[0] is opaque black; 0 ≤ 64 < the LOD bound 100);
    stated for the default `SqrtQ` instance (no gradient is involved) -/
theorem example_enabled :
    ((((Renderer.zero (α := ℚ) (β := ℚ)).setRasterizer ⟨0, 0, 64, 64⟩).reset 100 ⟨-32, -32, 32, 32⟩
      defaultPalette).startPath 0 (-16) 8).1.disabled = false := by
  decide +kernel

end Ivg.GeomQ
