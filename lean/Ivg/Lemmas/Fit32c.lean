import Ivg.Lemmas.Fit32b
import Ivg.Lemmas.FitQ
/-!
# C12 at `F32`: the headline theorems about the model functions
-/
namespace Ivg.Fit32
open Ivg Num FloatOrder32 FloatMono32 FloatErr

/-! ## the model functions in terms of `meetSize` / `sliceSize` / `place` -/

theorem aspectMeet_eq32 (v : ViewBox F32) (dx dy ax ay : F32) :
    v.aspectMeet dx dy ax ay =
      ((place dx (meetSize v.size.1 v.size.2 dx dy).1 ax).1, (place dy (meetSize v.size.1 v.size.2 dx dy).2 ay).1,
       (place dx (meetSize v.size.1 v.size.2 dx dy).1 ax).2, (place dy (meetSize v.size.1 v.size.2 dx dy).2 ay).2) := by
  unfold ViewBox.aspectMeet meetSize place ViewBox.size
  simp only

theorem aspectSlice_eq32 (v : ViewBox F32) (dx dy ax ay : F32) :
    v.aspectSlice dx dy ax ay =
      ((placeS dx (sliceSize v.size.1 v.size.2 dx dy).1 ax).1, (placeS dy (sliceSize v.size.1 v.size.2 dx dy).2 ay).1,
       (placeS dx (sliceSize v.size.1 v.size.2 dx dy).1 ax).2, (placeS dy (sliceSize v.size.1 v.size.2 dx dy).2 ay).2) := by
  unfold ViewBox.aspectSlice sliceSize placeS one32 ViewBox.size
  simp only

theorem aspectMeet_eqQ (v : ViewBox ℚ) (dx dy ax ay : ℚ) :
    v.aspectMeet dx dy ax ay =
      ((dx - (meetSizeQ (v.maxX - v.minX) (v.maxY - v.minY) dx dy).1) * ax,
       (dy - (meetSizeQ (v.maxX - v.minX) (v.maxY - v.minY) dx dy).2) * ay,
       (dx - (meetSizeQ (v.maxX - v.minX) (v.maxY - v.minY) dx dy).1) * ax +
         (meetSizeQ (v.maxX - v.minX) (v.maxY - v.minY) dx dy).1,
       (dy - (meetSizeQ (v.maxX - v.minX) (v.maxY - v.minY) dx dy).2) * ay +
         (meetSizeQ (v.maxX - v.minX) (v.maxY - v.minY) dx dy).2) := by
  rw [FitQ.aspectMeet_def]; rfl

theorem aspectSlice_eqQ (v : ViewBox ℚ) (dx dy ax ay : ℚ) :
    v.aspectSlice dx dy ax ay =
      ((dx - (sliceSizeQ (v.maxX - v.minX) (v.maxY - v.minY) dx dy).1) * ax,
       (dy - (sliceSizeQ (v.maxX - v.minX) (v.maxY - v.minY) dx dy).2) * ay,
       (dx - (sliceSizeQ (v.maxX - v.minX) (v.maxY - v.minY) dx dy).1) * ax +
         (sliceSizeQ (v.maxX - v.minX) (v.maxY - v.minY) dx dy).1,
       (dy - (sliceSizeQ (v.maxX - v.minX) (v.maxY - v.minY) dx dy).2) * ay +
         (sliceSizeQ (v.maxX - v.minX) (v.maxY - v.minY) dx dy).2) := by
  rw [FitQ.aspectSlice_def]; simp only [FitQ.far_edge]; rfl


/-! ## one dimension -/

/-- what is proved of one placed side: computed `(mn, mx)`, exact target side `D`, alignment `A`, side `S` -/
structure Placed (mn mx : F32) (D A S : ℚ) : Prop where
  fmn : Fn mn
  fmx : Fn mx
  /-- alignment: the minimum is `A·(D − S)` up to `6u·(D + S)` -/
  amin : |val mn - A * (D - S)| ≤ 6 * u * (D + S)
  /-- … and the maximum `A·(D − S) + S` up to `7u·(D + S)` -/
  amax : |val mx - (A * (D - S) + S)| ≤ 7 * u * (D + S)
  /-- if the exact side fits: within the target enlarged by `4u·D` below, `5u·D` above -/
  inside : S ≤ D → -(4 * u * D) ≤ val mn ∧ val mx ≤ (1 + 5 * u) * D

theorem place_close {d s a : F32} {S : ℚ} (fd : Fn d) (nd : NR (val d)) (fa : Fn a) (ha0 : 0 ≤ val a)
    (ha1 : val a ≤ 1) (hs : Close3 s S) (nS : NR S) :
    Placed (place d s a).1 (place d s a).2 (val d) (val a) S := by
  have hS := nS.pos
  have hd := nd.pos
  have hsS := hs.abs hS.le
  obtain ⟨s1, s2⟩ := abs_le.1 hsS
  have hmax := maxv_pos
  have hsp : 0 < val s := hs.2.pos (by unfold u; norm_num) hS
  have hsum : val d + val s ≤ maxv / 3 := by
    have := nd.2; have := nS.2
    unfold u at *; linarith
  have hN : minN ≤ val d := by have := nd.1; have := minN_pos; linarith
  obtain ⟨f1, f2, hq⟩ := place_float fd hs.1 fa hd hsp ha0 ha1 hsum
  obtain ⟨a1, a2⟩ := hq.align hd hsp ha0 ha1 hN hS hsS
  exact ⟨f1, f2, a1, a2, fun h => hq.inside hd hsp hS hsS h⟩

/-- what is proved of one side placed by slice -/
structure PlacedS (mn mx : F32) (d s : F32) (A S : ℚ) : Prop where
  fmn : Fn mn
  fmx : Fn mx
  /-- alignment: the minimum is `A·(D − S)` up to `6u·(D + S)` -/
  amin : |val mn - A * (val d - S)| ≤ 6 * u * (val d + S)
  /-- … and the maximum `A·(D − S) + S` up to `8u·(D + S)` -/
  amax : |val mx - (A * (val d - S) + S)| ≤ 8 * u * (val d + S)
  /-- if the exact side covers: up to `4u`/`5u` of the TARGET side -/
  covers : val d ≤ S → val mn ≤ 4 * u * val d ∧ (1 - 5 * u) * val d ≤ val mx
  /-- if the FLOAT side covers: exactly -/
  covers_exact : val d ≤ val s → val mn ≤ 0 ∧ val d ≤ val mx
  /-- if the float side is short by at most `2u` of the target side: up to `3u`/`4u` of it -/
  covers_ulp : (1 - 2 * u) * val d ≤ val s → val mn ≤ 3 * u * val d ∧ (1 - 4 * u) * val d ≤ val mx

theorem placeS_close {d s a : F32} {S : ℚ} (fd : Fn d) (nd : NR (val d)) (fa : Fn a) (ha0 : 0 ≤ val a)
    (ha1 : val a ≤ 1) (hs : Close3 s S) (nS : NR S) :
    PlacedS (placeS d s a).1 (placeS d s a).2 d s (val a) S := by
  have hS := nS.pos
  have hd := nd.pos
  have hsS := hs.abs hS.le
  obtain ⟨s1, s2⟩ := abs_le.1 hsS
  have hmax := maxv_pos
  have hsp : 0 < val s := hs.2.pos (by unfold u; norm_num) hS
  have hsum : val d + val s ≤ maxv / 3 := by
    have := nd.2; have := nS.2
    unfold u at *; linarith
  have hN : minN ≤ val d := by have := nd.1; have := minN_pos; linarith
  obtain ⟨f1, f2, hq⟩ := placeS_float fd hs.1 fa hd hsp ha0 ha1 hsum
  obtain ⟨a1, a2⟩ := hq.align hd hsp ha0 ha1 hN hS hsS
  exact ⟨f1, f2, a1, a2, fun h => hq.covers hd hsp hS hsS h, fun h => hq.covers_exact hd hsp h,
    fun h => hq.covers_ulp hd hsp h⟩

/-! ## exact facts about the fitted size -/

theorem meetSizeQ_facts {vw vh dx dy : ℚ} (hvw : 0 < vw) (hvh : 0 < vh) (_hdx : 0 < dx) (hdy : 0 < dy)
    (hr : InRange vw vh dx dy) :
    NR (meetSizeQ vw vh dx dy).1 ∧ NR (meetSizeQ vw vh dx dy).2 ∧
    (meetSizeQ vw vh dx dy).1 ≤ dx ∧ (meetSizeQ vw vh dx dy).2 ≤ dy := by
  have pr : 0 < vw / vh := div_pos hvw hvh
  unfold meetSizeQ
  by_cases h : dx / dy < vw / vh
  · rw [if_pos h]
    refine ⟨hr.tx, hr.fh, le_refl _, ?_⟩
    rw [div_lt_iff₀ hdy] at h
    rw [div_le_iff₀ pr]; linarith
  · rw [if_neg h]
    refine ⟨hr.fw, hr.ty, ?_, le_refl _⟩
    rw [not_lt, le_div_iff₀ hdy] at h
    linarith

theorem sliceSizeQ_facts {vw vh dx dy : ℚ} (hvw : 0 < vw) (hvh : 0 < vh) (_hdx : 0 < dx) (hdy : 0 < dy)
    (hr : InRange vw vh dx dy) :
    NR (sliceSizeQ vw vh dx dy).1 ∧ NR (sliceSizeQ vw vh dx dy).2 ∧
    dx ≤ (sliceSizeQ vw vh dx dy).1 ∧ dy ≤ (sliceSizeQ vw vh dx dy).2 := by
  have pr : 0 < vw / vh := div_pos hvw hvh
  unfold sliceSizeQ
  by_cases h : dx / dy < vw / vh
  · rw [if_pos h]
    refine ⟨hr.fw, hr.ty, ?_, le_refl _⟩
    rw [div_lt_iff₀ hdy] at h
    linarith
  · rw [if_neg h]
    refine ⟨hr.tx, hr.fh, le_refl _, ?_⟩
    rw [not_lt, le_div_iff₀ hdy] at h
    rw [le_div_iff₀ pr]; linarith

/-! ## the hypotheses -/

/-- alignment fraction: finite, in `[0,1]` -/
def Frac (a : F32) : Prop := Fn a ∧ 0 ≤ val a ∧ val a ≤ 1

/-- the hypotheses of the `F32` theorems, in terms of the FLOAT width and height `vw, vh` of the viewBox
    (what `Size()` returns and the code works with) -/
structure Hyp (vw vh dx dy ax ay : F32) : Prop where
  hvw : FP vw
  hvh : FP vh
  hdx : FP dx
  hdy : FP dy
  hax : Frac ax
  hay : Frac ay
  range : InRange (val vw) (val vh) (val dx) (val dy)

/-! ## headline: meet -/

/-- everything proved about `AspectMeet` at `F32`; `W, H` the exact fitted size -/
structure MeetF32 (dx dy ax ay : F32) (W H : ℚ) (w h x0 y0 x1 y1 : F32) : Prop where
  /-- (b) the size the code chose is the exact fitted size up to relative `3u` -/
  size : Close3 w W ∧ Close3 h H
  /-- (c) and one of its components is the target's own, bit for bit -/
  size_touch : w = dx ∨ h = dy
  /-- (c) in that dimension the returned interval is `[±0, target]` exactly -/
  touch : (val x0 = 0 ∧ x1 = dx) ∨ (val y0 = 0 ∧ y1 = dy)
  x : Placed x0 x1 (val dx) (val ax) W
  y : Placed y0 y1 (val dy) (val ay) H
  /-- (d) the exact rectangle fits, hence the `inside` clauses of `x` and `y` apply -/
  fits : W ≤ val dx ∧ H ≤ val dy

theorem meet_f32 {vw vh dx dy ax ay : F32} (h : Hyp vw vh dx dy ax ay) :
    MeetF32 dx dy ax ay (meetSizeQ (val vw) (val vh) (val dx) (val dy)).1
      (meetSizeQ (val vw) (val vh) (val dx) (val dy)).2
      (meetSize vw vh dx dy).1 (meetSize vw vh dx dy).2
      (place dx (meetSize vw vh dx dy).1 ax).1 (place dy (meetSize vw vh dx dy).2 ay).1
      (place dx (meetSize vw vh dx dy).1 ax).2 (place dy (meetSize vw vh dx dy).2 ay).2 := by
  obtain ⟨c1, c2, c3⟩ := meetSize_close h.hvw h.hvh h.hdx h.hdy h.range
  obtain ⟨n1, n2, l1, l2⟩ := meetSizeQ_facts h.hvw.2 h.hvh.2 h.hdx.2 h.hdy.2 h.range
  refine ⟨⟨c1, c2⟩, c3, ?_, place_close h.hdx.1 h.range.tx h.hax.1 h.hax.2.1 h.hax.2.2 c1 n1,
    place_close h.hdy.1 h.range.ty h.hay.1 h.hay.2.1 h.hay.2.2 c2 n2, ⟨l1, l2⟩⟩
  rcases c3 with e | e
  · left; rw [e]; exact place_touch h.hdx.1 h.hax.1 h.hdx.2 h.hax.2.1 h.hax.2.2
  · right; rw [e]; exact place_touch h.hdy.1 h.hay.1 h.hdy.2 h.hay.2.1 h.hay.2.2

/-! ## headline: slice -/

structure SliceF32 (dx dy ax ay : F32) (W H : ℚ) (w h x0 y0 x1 y1 : F32) : Prop where
  size : Close3 w W ∧ Close3 h H
  size_touch : w = dx ∨ h = dy
  touch : (val x0 = 0 ∧ x1 = dx) ∨ (val y0 = 0 ∧ y1 = dy)
  x : PlacedS x0 x1 dx w (val ax) W
  y : PlacedS y0 y1 dy h (val ay) H
  /-- (d) the exact rectangle covers, hence the `covers` clauses of `x` and `y` apply -/
  covers : val dx ≤ W ∧ val dy ≤ H

theorem slice_f32 {vw vh dx dy ax ay : F32} (h : Hyp vw vh dx dy ax ay) :
    SliceF32 dx dy ax ay (sliceSizeQ (val vw) (val vh) (val dx) (val dy)).1
      (sliceSizeQ (val vw) (val vh) (val dx) (val dy)).2
      (sliceSize vw vh dx dy).1 (sliceSize vw vh dx dy).2
      (placeS dx (sliceSize vw vh dx dy).1 ax).1 (placeS dy (sliceSize vw vh dx dy).2 ay).1
      (placeS dx (sliceSize vw vh dx dy).1 ax).2 (placeS dy (sliceSize vw vh dx dy).2 ay).2 := by
  obtain ⟨c1, c2, c3⟩ := sliceSize_close h.hvw h.hvh h.hdx h.hdy h.range
  obtain ⟨n1, n2, l1, l2⟩ := sliceSizeQ_facts h.hvw.2 h.hvh.2 h.hdx.2 h.hdy.2 h.range
  refine ⟨⟨c1, c2⟩, c3, ?_, placeS_close h.hdx.1 h.range.tx h.hax.1 h.hax.2.1 h.hax.2.2 c1 n1,
    placeS_close h.hdy.1 h.range.ty h.hay.1 h.hay.2.1 h.hay.2.2 c2 n2, ⟨l1, l2⟩⟩
  rcases c3 with e | e
  · left; rw [e]; exact placeS_touch h.hdx.1 h.hax.1 h.hdx.2 h.hax.2.1 h.hax.2.2
  · right; rw [e]; exact placeS_touch h.hdy.1 h.hay.1 h.hdy.2 h.hay.2.1 h.hay.2.2

/-- **`slice_covers_exact`** — the point of measuring the far edges from the target's far edges.
    With `(w, h) = sliceSize vw vh dx dy` and the four returned corners:
    * in the branch `dx/dy < vw/vh` (float test): `dx ≤ w` and `h = dy` as floats, and the result covers the target
      EXACTLY in both dimensions: `minX ≤ 0`, `dx ≤ maxX`, `minY = ±0`, `maxY = dy`;
    * in the other branch: `w = dx`, `minX = ±0`, `maxX = dx` exactly; the float height `h = rnd(dx/vbAR)` satisfies
      `(1 − 2u)·dy ≤ h`; if `dy ≤ h` the result covers exactly in y too, and in any case
      `minY ≤ 3u·dy` and `(1 − 4u)·dy ≤ maxY`. -/
theorem slice_covers_exact {vw vh dx dy ax ay : F32} (h : Hyp vw vh dx dy ax ay) :
    (dx / dy < vw / vh →
      val dx ≤ val (sliceSize vw vh dx dy).1 ∧ (sliceSize vw vh dx dy).2 = dy ∧
      val (placeS dx (sliceSize vw vh dx dy).1 ax).1 ≤ 0 ∧ val dx ≤ val (placeS dx (sliceSize vw vh dx dy).1 ax).2 ∧
      val (placeS dy (sliceSize vw vh dx dy).2 ay).1 = 0 ∧ (placeS dy (sliceSize vw vh dx dy).2 ay).2 = dy) ∧
    (¬ dx / dy < vw / vh →
      (sliceSize vw vh dx dy).1 = dx ∧ (1 - 2 * u) * val dy ≤ val (sliceSize vw vh dx dy).2 ∧
      val (placeS dx (sliceSize vw vh dx dy).1 ax).1 = 0 ∧ (placeS dx (sliceSize vw vh dx dy).1 ax).2 = dx ∧
      (val dy ≤ val (sliceSize vw vh dx dy).2 →
        val (placeS dy (sliceSize vw vh dx dy).2 ay).1 ≤ 0 ∧ val dy ≤ val (placeS dy (sliceSize vw vh dx dy).2 ay).2) ∧
      val (placeS dy (sliceSize vw vh dx dy).2 ay).1 ≤ 3 * u * val dy ∧
      (1 - 4 * u) * val dy ≤ val (placeS dy (sliceSize vw vh dx dy).2 ay).2) := by
  have M := slice_f32 h
  have R := ratios h.hvw h.hvh h.hdx h.hdy h.range
  constructor
  · intro hb
    have e : sliceSize vw vh dx dy = (dy * (vw / vh), dy) := by unfold sliceSize; rw [if_pos hb]
    have fw : Fn (dy * (vw / vh)) := by have := M.size.1.1; rw [e] at this; exact this
    have hge := slice_w_ge h.hdx h.hdy R.fR R.fC fw hb
    have hx := M.x.covers_exact
    rw [e] at hx ⊢
    obtain ⟨x1, x2⟩ := hx hge
    obtain ⟨t1, t2⟩ := placeS_touch h.hdy.1 h.hay.1 h.hdy.2 h.hay.2.1 h.hay.2.2
    exact ⟨hge, rfl, x1, x2, t1, t2⟩
  · intro hb
    have e : sliceSize vw vh dx dy = (dx, dx / (vw / vh)) := by unfold sliceSize; rw [if_neg hb]
    obtain ⟨_, hn⟩ := slice_h_near h.hvw h.hvh h.hdx h.hdy h.range hb
    have hy1 := M.y.covers_exact
    have hy2 := M.y.covers_ulp
    rw [e] at hy1 hy2 ⊢
    obtain ⟨t1, t2⟩ := placeS_touch h.hdx.1 h.hax.1 h.hdx.2 h.hax.2.1 h.hax.2.2
    obtain ⟨y1, y2⟩ := hy2 hn
    exact ⟨rfl, hn, t1, t2, hy1, y1, y2⟩

/-! ## a concrete sufficient condition: all four sizes in `[2^-30, 2^30]` -/

theorem two_minN_le : 2 * minN ≤ 1 / 1237940039285380274899124224 := by
  unfold minN pow2; norm_num

theorem le_maxv8 : (1237940039285380274899124224 : ℚ) ≤ maxv / 8 := by
  unfold maxv pow2; norm_num

theorem div_bounds {a b la ha lb hb : ℚ} (h0 : 0 ≤ la) (hlb : 0 < lb) (h1 : la ≤ a) (h2 : a ≤ ha)
    (h3 : lb ≤ b) (h4 : b ≤ hb) : la / hb ≤ a / b ∧ a / b ≤ ha / lb := by
  have hb0 : 0 < b := lt_of_lt_of_le hlb h3
  have hhb : 0 < hb := lt_of_lt_of_le hb0 h4
  constructor
  · rw [div_le_div_iff₀ hhb hb0]; exact mul_le_mul h1 h4 hb0.le (le_trans h0 h1)
  · rw [div_le_div_iff₀ hb0 hlb]; exact mul_le_mul h2 h3 hlb.le (le_trans (le_trans h0 h1) h2)

theorem mul_bounds {a b la ha lb hb : ℚ} (h0 : 0 ≤ la) (hlb : 0 ≤ lb) (h1 : la ≤ a) (h2 : a ≤ ha)
    (h3 : lb ≤ b) (h4 : b ≤ hb) : la * lb ≤ a * b ∧ a * b ≤ ha * hb :=
  ⟨mul_le_mul h1 h3 hlb (le_trans h0 h1), mul_le_mul h2 h4 (le_trans hlb h3) (le_trans (le_trans h0 h1) h2)⟩

/-- `2^-30 ≤ x ≤ 2^30` -/
def In30 (x : ℚ) : Prop := 1 / 1073741824 ≤ x ∧ x ≤ 1073741824

/-- **the range hypothesis follows from all four sizes lying in `[2^-30, 2^30]`** -/
theorem inRange_of_in30 {vw vh dx dy : ℚ} (h1 : In30 vw) (h2 : In30 vh) (h3 : In30 dx) (h4 : In30 dy) :
    InRange vw vh dx dy := by
  have a := two_minN_le
  have b := le_maxv8
  unfold In30 at *
  have r := div_bounds (by norm_num) (by norm_num) h1.1 h1.2 h2.1 h2.2
  have c := div_bounds (by norm_num) (by norm_num) h3.1 h3.2 h4.1 h4.2
  have fh := div_bounds (by norm_num) (by norm_num) h3.1 h3.2 r.1 r.2
  have fw := mul_bounds (by norm_num) (by norm_num) h4.1 h4.2 r.1 r.2
  norm_num at r c fh fw
  refine ⟨⟨?_, ?_⟩, ⟨?_, ?_⟩, ⟨?_, ?_⟩, ⟨?_, ?_⟩, ⟨?_, ?_⟩, ⟨?_, ?_⟩⟩ <;> linarith [r.1, r.2, c.1, c.2, fh.1, fh.2, fw.1, fw.2]

/-! ### … as a decidable condition on bit patterns -/

/-- bit pattern of a positive normal float in `[2^-30, 2^30]`: `0x30800000 ≤ bits ≤ 0x4E800000` -/
def Sized (a : F32) : Prop := 813694976 ≤ a.nb ∧ a.nb ≤ 1317011456
instance (a : F32) : Decidable (Sized a) := by unfold Sized; infer_instance

/-- bit pattern of a float in `[+0, 1]`: `bits ≤ 0x3F800000` -/
def FracB (a : F32) : Prop := a.nb ≤ 1065353216
instance (a : F32) : Decidable (FracB a) := by unfold FracB; infer_instance

theorem bval_lo30 : bval 813694976 = 1 / 1073741824 := by
  have h1 : negB32 813694976 = false := by decide
  have h2 : mantB 813694976 = 8388608 := by decide
  have h3 : expB 813694976 = -53 := by decide
  unfold bval sval; rw [h1, h2, h3]; unfold pow2; norm_num

theorem bval_hi30 : bval 1317011456 = 1073741824 := by
  have h1 : negB32 1317011456 = false := by decide
  have h2 : mantB 1317011456 = 8388608 := by decide
  have h3 : expB 1317011456 = 7 := by decide
  unfold bval sval; rw [h1, h2, h3]; unfold pow2; norm_num

theorem key_pos (b : Nat) (h : b < 2147483648) : key b = b := by unfold key; rw [if_neg (by omega)]

theorem sized_spec {a : F32} (h : Sized a) : FP a ∧ In30 (val a) := by
  obtain ⟨h1, h2⟩ := h
  have fa : Fn a := by unfold Fn FloatMono32.Fin FinB; omega
  have f1 : FinB 813694976 := by decide
  have f2 : FinB 1317011456 := by decide
  have k1 := (key_le_iff 813694976 a.nb (by norm_num) (nb_lt a) f1 fa).1
    (by rw [key_pos _ (by norm_num), key_pos _ (by omega)]; exact_mod_cast h1)
  have k2 := (key_le_iff a.nb 1317011456 (nb_lt a) (by norm_num) fa f2).1
    (by rw [key_pos _ (by omega), key_pos _ (by norm_num)]; exact_mod_cast h2)
  rw [bval_lo30] at k1; rw [bval_hi30] at k2
  exact ⟨⟨fa, lt_of_lt_of_le (by norm_num) k1⟩, k1, k2⟩

theorem fracB_spec {a : F32} (h : FracB a) : Frac a := by
  unfold FracB at h
  have fa : Fn a := by unfold Fn FloatMono32.Fin FinB; omega
  have f0 : FinB 0 := by decide
  have f1 : FinB 1065353216 := by decide
  have k1 := (key_le_iff 0 a.nb (by norm_num) (nb_lt a) f0 fa).1
    (by rw [key_pos _ (by norm_num), key_pos _ (by omega)]; exact_mod_cast Nat.zero_le _)
  have k2 := (key_le_iff a.nb 1065353216 (nb_lt a) (by norm_num) fa f1).1
    (by rw [key_pos _ (by omega), key_pos _ (by norm_num)]; exact_mod_cast h)
  rw [bval_zero0] at k1; rw [bval_one] at k2
  exact ⟨fa, k1, k2⟩

/-- all hypotheses from the decidable conditions -/
theorem hyp_of_sized {vw vh dx dy ax ay : F32} (h1 : Sized vw) (h2 : Sized vh) (h3 : Sized dx) (h4 : Sized dy)
    (h5 : FracB ax) (h6 : FracB ay) : Hyp vw vh dx dy ax ay :=
  ⟨(sized_spec h1).1, (sized_spec h2).1, (sized_spec h3).1, (sized_spec h4).1, fracB_spec h5, fracB_spec h6,
    inRange_of_in30 (sized_spec h1).2 (sized_spec h2).2 (sized_spec h3).2 (sized_spec h4).2⟩


/-! ## the headline theorems about `ViewBox.aspectMeet` / `aspectSlice` at `F32` against the `ℚ` instance -/

/-- the exact reference: a rational viewBox whose width and height are the VALUES of the float width and
    height `Size()` returns (so the comparison isolates the error of the fitting code) -/
def Ref (v : ViewBox F32) (vq : ViewBox ℚ) : Prop :=
  vq.maxX - vq.minX = val v.size.1 ∧ vq.maxY - vq.minY = val v.size.2

/-- (c) "equals the target in at least one dimension", bit for bit: the minimum has value `0` (it is `+0` or
    `-0`) and the maximum IS the target dimension -/
def Touches (r : F32 × F32 × F32 × F32) (dx dy : F32) : Prop :=
  (val r.1 = 0 ∧ r.2.2.1 = dx) ∨ (val r.2.1 = 0 ∧ r.2.2.2 = dy)

/-- all four results finite -/
def Fin4 (r : F32 × F32 × F32 × F32) : Prop := Fn r.1 ∧ Fn r.2.1 ∧ Fn r.2.2.1 ∧ Fn r.2.2.2

/-- (d, alignment) each computed corner is the exact corner up to `6u` (minima) / `7u` (maxima) times
    `target side + exact fitted side`, `u = 2^-24` -/
def CornersNear (r : F32 × F32 × F32 × F32) (q : ℚ × ℚ × ℚ × ℚ) (dx dy : ℚ) : Prop :=
  |val r.1 - q.1| ≤ 6 * u * (dx + (q.2.2.1 - q.1)) ∧ |val r.2.2.1 - q.2.2.1| ≤ 7 * u * (dx + (q.2.2.1 - q.1)) ∧
  |val r.2.1 - q.2.1| ≤ 6 * u * (dy + (q.2.2.2 - q.2.1)) ∧ |val r.2.2.2 - q.2.2.2| ≤ 7 * u * (dy + (q.2.2.2 - q.2.1))

/-- (d, meet) the computed rectangle lies within the target enlarged by `4u` of its size at the minima and
    `5u` at the maxima -/
def InsideNear (r : F32 × F32 × F32 × F32) (dx dy : ℚ) : Prop :=
  -(4 * u * dx) ≤ val r.1 ∧ val r.2.2.1 ≤ (1 + 5 * u) * dx ∧ -(4 * u * dy) ≤ val r.2.1 ∧ val r.2.2.2 ≤ (1 + 5 * u) * dy

/-- (d, alignment, slice) as `CornersNear` with `8u` at the maxima (three roundings behind the far edge) -/
def CornersNearS (r : F32 × F32 × F32 × F32) (q : ℚ × ℚ × ℚ × ℚ) (dx dy : ℚ) : Prop :=
  |val r.1 - q.1| ≤ 6 * u * (dx + (q.2.2.1 - q.1)) ∧ |val r.2.2.1 - q.2.2.1| ≤ 8 * u * (dx + (q.2.2.1 - q.1)) ∧
  |val r.2.1 - q.2.1| ≤ 6 * u * (dy + (q.2.2.2 - q.2.1)) ∧ |val r.2.2.2 - q.2.2.2| ≤ 8 * u * (dy + (q.2.2.2 - q.2.1))

/-- (d, slice) the computed rectangle covers the target shrunk by `4u` of its size at the minima and `5u` at
    the maxima — relative to the TARGET size -/
def CoversNear (r : F32 × F32 × F32 × F32) (dx dy : ℚ) : Prop :=
  val r.1 ≤ 4 * u * dx ∧ (1 - 5 * u) * dx ≤ val r.2.2.1 ∧ val r.2.1 ≤ 4 * u * dy ∧ (1 - 5 * u) * dy ≤ val r.2.2.2

theorem aspectMeet_f32 (v : ViewBox F32) (vq : ViewBox ℚ) (dx dy ax ay : F32) (href : Ref v vq)
    (h : Hyp v.size.1 v.size.2 dx dy ax ay) :
    Fin4 (v.aspectMeet dx dy ax ay) ∧
    CornersNear (v.aspectMeet dx dy ax ay) (vq.aspectMeet (val dx) (val dy) (val ax) (val ay)) (val dx) (val dy) ∧
    InsideNear (v.aspectMeet dx dy ax ay) (val dx) (val dy) ∧
    Touches (v.aspectMeet dx dy ax ay) dx dy := by
  have M := meet_f32 h
  rw [aspectMeet_eq32, aspectMeet_eqQ, href.1, href.2]
  unfold Fin4 CornersNear InsideNear Touches
  simp only [add_sub_cancel_left, mul_comm _ (val ax), mul_comm _ (val ay)]
  obtain ⟨i1, i2⟩ := M.x.inside M.fits.1
  obtain ⟨j1, j2⟩ := M.y.inside M.fits.2
  exact ⟨⟨M.x.fmn, M.y.fmn, M.x.fmx, M.y.fmx⟩, ⟨M.x.amin, M.x.amax, M.y.amin, M.y.amax⟩, ⟨i1, i2, j1, j2⟩, M.touch⟩

theorem aspectSlice_f32 (v : ViewBox F32) (vq : ViewBox ℚ) (dx dy ax ay : F32) (href : Ref v vq)
    (h : Hyp v.size.1 v.size.2 dx dy ax ay) :
    Fin4 (v.aspectSlice dx dy ax ay) ∧
    CornersNearS (v.aspectSlice dx dy ax ay) (vq.aspectSlice (val dx) (val dy) (val ax) (val ay)) (val dx) (val dy) ∧
    CoversNear (v.aspectSlice dx dy ax ay) (val dx) (val dy) ∧
    Touches (v.aspectSlice dx dy ax ay) dx dy := by
  have M := slice_f32 h
  rw [aspectSlice_eq32, aspectSlice_eqQ, href.1, href.2]
  unfold Fin4 CornersNearS CoversNear Touches
  simp only [add_sub_cancel_left, mul_comm _ (val ax), mul_comm _ (val ay)]
  obtain ⟨i1, i2⟩ := M.x.covers M.covers.1
  obtain ⟨j1, j2⟩ := M.y.covers M.covers.2
  exact ⟨⟨M.x.fmn, M.y.fmn, M.x.fmx, M.y.fmx⟩, ⟨M.x.amin, M.x.amax, M.y.amin, M.y.amax⟩, ⟨i1, i2, j1, j2⟩, M.touch⟩

theorem zero32_fin : Fn (0 : F32) := by decide
theorem zero32_val : val (0 : F32) = 0 := by
  have : (0 : F32).nb = 0 := by decide
  unfold val; rw [this]; exact bval_zero0

/-- **exact covering by the model function, as float comparisons** (no tolerance): in the branch
    `dx/dy < vbAR` the returned rectangle covers the target in both dimensions; in the other branch it covers it
    in x, and in y whenever the float height `rnd(dx/vbAR)` is at least `dy` — otherwise up to `3u·dy` below and
    `4u·dy` above (the float height is then short of `dy` by at most `2u·dy`). -/
theorem aspectSlice_covers_exact (v : ViewBox F32) (dx dy ax ay : F32)
    (h : Hyp v.size.1 v.size.2 dx dy ax ay) :
    (dx / dy < v.size.1 / v.size.2 →
      (v.aspectSlice dx dy ax ay).1 ≤ 0 ∧ dx ≤ (v.aspectSlice dx dy ax ay).2.2.1 ∧
      (v.aspectSlice dx dy ax ay).2.1 ≤ 0 ∧ dy ≤ (v.aspectSlice dx dy ax ay).2.2.2) ∧
    (¬ dx / dy < v.size.1 / v.size.2 →
      (v.aspectSlice dx dy ax ay).1 ≤ 0 ∧ dx ≤ (v.aspectSlice dx dy ax ay).2.2.1 ∧
      (dy ≤ dx / (v.size.1 / v.size.2) →
        (v.aspectSlice dx dy ax ay).2.1 ≤ 0 ∧ dy ≤ (v.aspectSlice dx dy ax ay).2.2.2) ∧
      val (v.aspectSlice dx dy ax ay).2.1 ≤ 3 * u * val dy ∧
      (1 - 4 * u) * val dy ≤ val (v.aspectSlice dx dy ax ay).2.2.2) := by
  have M := slice_f32 h
  obtain ⟨c1, c2⟩ := slice_covers_exact h
  rw [aspectSlice_eq32]
  simp only
  have z := zero32_val
  constructor
  · intro hb
    obtain ⟨_, _, x1, x2, y1, y2⟩ := c1 hb
    refine ⟨(le_iff_val M.x.fmn zero32_fin).2 (by rw [z]; exact x1), (le_iff_val h.hdx.1 M.x.fmx).2 x2,
      (le_iff_val M.y.fmn zero32_fin).2 (by rw [z]; exact le_of_eq y1), ?_⟩
    rw [y2]; exact (le_iff_val h.hdy.1 h.hdy.1).2 (le_refl _)
  · intro hb
    obtain ⟨e, _, x1, x2, y1, y2, y3⟩ := c2 hb
    have e2 : (sliceSize v.size.1 v.size.2 dx dy).2 = dx / (v.size.1 / v.size.2) := by
      unfold sliceSize; rw [if_neg hb]
    have fh : Fn (dx / (v.size.1 / v.size.2)) := by rw [← e2]; exact M.size.2.1
    refine ⟨(le_iff_val M.x.fmn zero32_fin).2 (by rw [z]; exact le_of_eq x1), ?_, ?_, y2, y3⟩
    · rw [x2]; exact (le_iff_val h.hdx.1 h.hdx.1).2 (le_refl _)
    · intro hge
      have hv : val dy ≤ val (sliceSize v.size.1 v.size.2 dx dy).2 := by
        rw [e2]; exact (le_iff_val h.hdy.1 fh).1 hge
      obtain ⟨q1, q2⟩ := y1 hv
      exact ⟨(le_iff_val M.y.fmn zero32_fin).2 (by rw [z]; exact q1), (le_iff_val h.hdy.1 M.y.fmx).2 q2⟩

/-- the returned width and height (`max − min` of the float corners, exactly) against the exact ones -/
theorem CornersNear.size {r : F32 × F32 × F32 × F32} {q : ℚ × ℚ × ℚ × ℚ} {dx dy : ℚ} (h : CornersNear r q dx dy) :
    |(val r.2.2.1 - val r.1) - (q.2.2.1 - q.1)| ≤ 13 * u * (dx + (q.2.2.1 - q.1)) ∧
    |(val r.2.2.2 - val r.2.1) - (q.2.2.2 - q.2.1)| ≤ 13 * u * (dy + (q.2.2.2 - q.2.1)) := by
  obtain ⟨h1, h2, h3, h4⟩ := h
  obtain ⟨a1, a2⟩ := abs_le.1 h1
  obtain ⟨b1, b2⟩ := abs_le.1 h2
  obtain ⟨c1, c2⟩ := abs_le.1 h3
  obtain ⟨d1, d2⟩ := abs_le.1 h4
  constructor
  · exact abs_le.2 ⟨by linarith, by linarith⟩
  · exact abs_le.2 ⟨by linarith, by linarith⟩

theorem CornersNearS.size {r : F32 × F32 × F32 × F32} {q : ℚ × ℚ × ℚ × ℚ} {dx dy : ℚ} (h : CornersNearS r q dx dy) :
    |(val r.2.2.1 - val r.1) - (q.2.2.1 - q.1)| ≤ 14 * u * (dx + (q.2.2.1 - q.1)) ∧
    |(val r.2.2.2 - val r.2.1) - (q.2.2.2 - q.2.1)| ≤ 14 * u * (dy + (q.2.2.2 - q.2.1)) := by
  obtain ⟨h1, h2, h3, h4⟩ := h
  obtain ⟨a1, a2⟩ := abs_le.1 h1
  obtain ⟨b1, b2⟩ := abs_le.1 h2
  obtain ⟨c1, c2⟩ := abs_le.1 h3
  obtain ⟨d1, d2⟩ := abs_le.1 h4
  constructor
  · exact abs_le.2 ⟨by linarith, by linarith⟩
  · exact abs_le.2 ⟨by linarith, by linarith⟩

/-- (b) in the `|·|` form: `|w − W| ≤ 3u·W`, `|h − H| ≤ 3u·H` for the size the code chooses -/
theorem meet_size_err {vw vh dx dy ax ay : F32} (h : Hyp vw vh dx dy ax ay) :
    |val (meetSize vw vh dx dy).1 - (meetSizeQ (val vw) (val vh) (val dx) (val dy)).1| ≤
      3 * u * (meetSizeQ (val vw) (val vh) (val dx) (val dy)).1 ∧
    |val (meetSize vw vh dx dy).2 - (meetSizeQ (val vw) (val vh) (val dx) (val dy)).2| ≤
      3 * u * (meetSizeQ (val vw) (val vh) (val dx) (val dy)).2 := by
  obtain ⟨n1, n2, _, _⟩ := meetSizeQ_facts h.hvw.2 h.hvh.2 h.hdx.2 h.hdy.2 h.range
  have M := meet_f32 h
  exact ⟨M.size.1.abs n1.pos.le, M.size.2.abs n2.pos.le⟩

theorem slice_size_err {vw vh dx dy ax ay : F32} (h : Hyp vw vh dx dy ax ay) :
    |val (sliceSize vw vh dx dy).1 - (sliceSizeQ (val vw) (val vh) (val dx) (val dy)).1| ≤
      3 * u * (sliceSizeQ (val vw) (val vh) (val dx) (val dy)).1 ∧
    |val (sliceSize vw vh dx dy).2 - (sliceSizeQ (val vw) (val vh) (val dx) (val dy)).2| ≤
      3 * u * (sliceSizeQ (val vw) (val vh) (val dx) (val dy)).2 := by
  obtain ⟨n1, n2, _, _⟩ := sliceSizeQ_facts h.hvw.2 h.hvh.2 h.hdx.2 h.hdy.2 h.range
  have M := slice_f32 h
  exact ⟨M.size.1.abs n1.pos.le, M.size.2.abs n2.pos.le⟩

/-! ## `Size` -/

/-- the float width and height are the correctly rounded differences: relative error `u`, never affected by
    gradual underflow; finite when the exact difference does not exceed the largest float -/
theorem size_f32 (v : ViewBox F32) (f1 : Fn v.minX) (f2 : Fn v.minY) (f3 : Fn v.maxX) (f4 : Fn v.maxY)
    (hx : |val v.maxX - val v.minX| ≤ maxv) (hy : |val v.maxY - val v.minY| ≤ maxv) :
    (Fn v.size.1 ∧ |val v.size.1 - (val v.maxX - val v.minX)| ≤ u * |val v.maxX - val v.minX|) ∧
    (Fn v.size.2 ∧ |val v.size.2 - (val v.maxY - val v.minY)| ≤ u * |val v.maxY - val v.minY|) :=
  ⟨sub_err f3 f1 hx, sub_err f4 f2 hy⟩

end Ivg.Fit32
