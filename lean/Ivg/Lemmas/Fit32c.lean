import Ivg.Lemmas.Fit32b
import Ivg.Lemmas.FitQ
/-!
# C12 at `F32`: the headline theorems about the model functions
-/
namespace Ivg.Fit32
open Ivg Num FloatOrder32 FloatMono32 FloatErr

/-! ## the model functions in terms of `meetSize` / `sliceSize` / `place` -/

theorem aspectMeet_eq32 (v : ViewBox F32) (dx dy ax ay : F32) :
    v.aspectMeet dx dy ax ay =
      ((place dx (meetSize v.size.1 v.size.2 dx dy).1 ax).1, (place dy (meetSize v.size.1 v.size.2 dx dy).2 ay).1,
       (place dx (meetSize v.size.1 v.size.2 dx dy).1 ax).2, (place dy (meetSize v.size.1 v.size.2 dx dy).2 ay).2) := by
  unfold ViewBox.aspectMeet meetSize place ViewBox.size
  simp only

theorem aspectSlice_eq32 (v : ViewBox F32) (dx dy ax ay : F32) :
    v.aspectSlice dx dy ax ay =
      ((place dx (sliceSize v.size.1 v.size.2 dx dy).1 ax).1, (place dy (sliceSize v.size.1 v.size.2 dx dy).2 ay).1,
       (place dx (sliceSize v.size.1 v.size.2 dx dy).1 ax).2, (place dy (sliceSize v.size.1 v.size.2 dx dy).2 ay).2) := by
  unfold ViewBox.aspectSlice sliceSize place ViewBox.size
  simp only

theorem aspectMeet_eqQ (v : ViewBox ℚ) (dx dy ax ay : ℚ) :
    v.aspectMeet dx dy ax ay =
      ((dx - (meetSizeQ (v.maxX - v.minX) (v.maxY - v.minY) dx dy).1) * ax,
       (dy - (meetSizeQ (v.maxX - v.minX) (v.maxY - v.minY) dx dy).2) * ay,
       (dx - (meetSizeQ (v.maxX - v.minX) (v.maxY - v.minY) dx dy).1) * ax +
         (meetSizeQ (v.maxX - v.minX) (v.maxY - v.minY) dx dy).1,
       (dy - (meetSizeQ (v.maxX - v.minX) (v.maxY - v.minY) dx dy).2) * ay +
         (meetSizeQ (v.maxX - v.minX) (v.maxY - v.minY) dx dy).2) := by
  rw [FitQ.aspectMeet_def]; rfl

theorem aspectSlice_eqQ (v : ViewBox ℚ) (dx dy ax ay : ℚ) :
    v.aspectSlice dx dy ax ay =
      ((dx - (sliceSizeQ (v.maxX - v.minX) (v.maxY - v.minY) dx dy).1) * ax,
       (dy - (sliceSizeQ (v.maxX - v.minX) (v.maxY - v.minY) dx dy).2) * ay,
       (dx - (sliceSizeQ (v.maxX - v.minX) (v.maxY - v.minY) dx dy).1) * ax +
         (sliceSizeQ (v.maxX - v.minX) (v.maxY - v.minY) dx dy).1,
       (dy - (sliceSizeQ (v.maxX - v.minX) (v.maxY - v.minY) dx dy).2) * ay +
         (sliceSizeQ (v.maxX - v.minX) (v.maxY - v.minY) dx dy).2) := by
  rw [FitQ.aspectSlice_def]; rfl


/-! ## one dimension -/

/-- what is proved of one placed side: computed `(mn, mx)`, exact target side `D`, alignment `A`, side `S` -/
structure Placed (mn mx : F32) (D A S : ℚ) : Prop where
  fmn : Fn mn
  fmx : Fn mx
  /-- alignment: the minimum is `A·(D − S)` up to `6u·(D + S)` -/
  amin : |val mn - A * (D - S)| ≤ 6 * u * (D + S)
  /-- … and the maximum `A·(D − S) + S` up to `7u·(D + S)` -/
  amax : |val mx - (A * (D - S) + S)| ≤ 7 * u * (D + S)
  /-- if the exact side fits: within the target enlarged by `4u·D` below, `5u·D` above -/
  inside : S ≤ D → -(4 * u * D) ≤ val mn ∧ val mx ≤ (1 + 5 * u) * D
  /-- if the exact side covers: the minimum is at most `4u·D`, the maximum at least `D − 6u·(D + S)` -/
  covers : D ≤ S → val mn ≤ 4 * u * D ∧ D - 6 * u * (D + S) ≤ val mx

theorem place_close {d s a : F32} {S : ℚ} (fd : Fn d) (nd : NR (val d)) (fa : Fn a) (ha0 : 0 ≤ val a)
    (ha1 : val a ≤ 1) (hs : Close3 s S) (nS : NR S) :
    Placed (place d s a).1 (place d s a).2 (val d) (val a) S := by
  have hS := nS.pos
  have hd := nd.pos
  have hsS := hs.abs hS.le
  obtain ⟨s1, s2⟩ := abs_le.1 hsS
  have hmax := maxv_pos
  have hsp : 0 < val s := hs.2.pos (by unfold u; norm_num) hS
  have hsum : val d + val s ≤ maxv / 3 := by
    have := nd.2; have := nS.2
    unfold u at *; linarith
  have hN : minN ≤ val d := by have := nd.1; have := minN_pos; linarith
  obtain ⟨f1, f2, hq⟩ := place_float fd hs.1 fa hd hsp ha0 ha1 hsum
  obtain ⟨a1, a2⟩ := hq.align hd hsp ha0 ha1 hN hS hsS
  exact ⟨f1, f2, a1, a2, fun h => hq.inside hd hsp hS hsS h, fun h => hq.covers hd hsp hS hsS h⟩

/-! ## exact facts about the fitted size -/

theorem meetSizeQ_facts {vw vh dx dy : ℚ} (hvw : 0 < vw) (hvh : 0 < vh) (_hdx : 0 < dx) (hdy : 0 < dy)
    (hr : InRange vw vh dx dy) :
    NR (meetSizeQ vw vh dx dy).1 ∧ NR (meetSizeQ vw vh dx dy).2 ∧
    (meetSizeQ vw vh dx dy).1 ≤ dx ∧ (meetSizeQ vw vh dx dy).2 ≤ dy := by
  have pr : 0 < vw / vh := div_pos hvw hvh
  unfold meetSizeQ
  by_cases h : dx / dy < vw / vh
  · rw [if_pos h]
    refine ⟨hr.tx, hr.fh, le_refl _, ?_⟩
    rw [div_lt_iff₀ hdy] at h
    rw [div_le_iff₀ pr]; linarith
  · rw [if_neg h]
    refine ⟨hr.fw, hr.ty, ?_, le_refl _⟩
    rw [not_lt, le_div_iff₀ hdy] at h
    linarith

theorem sliceSizeQ_facts {vw vh dx dy : ℚ} (hvw : 0 < vw) (hvh : 0 < vh) (_hdx : 0 < dx) (hdy : 0 < dy)
    (hr : InRange vw vh dx dy) :
    NR (sliceSizeQ vw vh dx dy).1 ∧ NR (sliceSizeQ vw vh dx dy).2 ∧
    dx ≤ (sliceSizeQ vw vh dx dy).1 ∧ dy ≤ (sliceSizeQ vw vh dx dy).2 := by
  have pr : 0 < vw / vh := div_pos hvw hvh
  unfold sliceSizeQ
  by_cases h : dx / dy < vw / vh
  · rw [if_pos h]
    refine ⟨hr.fw, hr.ty, ?_, le_refl _⟩
    rw [div_lt_iff₀ hdy] at h
    linarith
  · rw [if_neg h]
    refine ⟨hr.tx, hr.fh, le_refl _, ?_⟩
    rw [not_lt, le_div_iff₀ hdy] at h
    rw [le_div_iff₀ pr]; linarith

/-! ## the hypotheses -/

/-- alignment fraction: finite, in `[0,1]` -/
def Frac (a : F32) : Prop := Fn a ∧ 0 ≤ val a ∧ val a ≤ 1

/-- the hypotheses of the `F32` theorems, in terms of the FLOAT width and height `vw, vh` of the viewBox
    (what `Size()` returns and the code works with) -/
structure Hyp (vw vh dx dy ax ay : F32) : Prop where
  hvw : FP vw
  hvh : FP vh
  hdx : FP dx
  hdy : FP dy
  hax : Frac ax
  hay : Frac ay
  range : InRange (val vw) (val vh) (val dx) (val dy)

/-! ## headline: meet -/

/-- everything proved about `AspectMeet` at `F32`; `W, H` the exact fitted size -/
structure MeetF32 (dx dy ax ay : F32) (W H : ℚ) (w h x0 y0 x1 y1 : F32) : Prop where
  /-- (b) the size the code chose is the exact fitted size up to relative `3u` -/
  size : Close3 w W ∧ Close3 h H
  /-- (c) and one of its components is the target's own, bit for bit -/
  size_touch : w = dx ∨ h = dy
  /-- (c) in that dimension the returned interval is `[±0, target]` exactly -/
  touch : (val x0 = 0 ∧ x1 = dx) ∨ (val y0 = 0 ∧ y1 = dy)
  x : Placed x0 x1 (val dx) (val ax) W
  y : Placed y0 y1 (val dy) (val ay) H
  /-- (d) the exact rectangle fits, hence the `inside` clauses of `x` and `y` apply -/
  fits : W ≤ val dx ∧ H ≤ val dy

theorem meet_f32 {vw vh dx dy ax ay : F32} (h : Hyp vw vh dx dy ax ay) :
    MeetF32 dx dy ax ay (meetSizeQ (val vw) (val vh) (val dx) (val dy)).1
      (meetSizeQ (val vw) (val vh) (val dx) (val dy)).2
      (meetSize vw vh dx dy).1 (meetSize vw vh dx dy).2
      (place dx (meetSize vw vh dx dy).1 ax).1 (place dy (meetSize vw vh dx dy).2 ay).1
      (place dx (meetSize vw vh dx dy).1 ax).2 (place dy (meetSize vw vh dx dy).2 ay).2 := by
  obtain ⟨c1, c2, c3⟩ := meetSize_close h.hvw h.hvh h.hdx h.hdy h.range
  obtain ⟨n1, n2, l1, l2⟩ := meetSizeQ_facts h.hvw.2 h.hvh.2 h.hdx.2 h.hdy.2 h.range
  refine ⟨⟨c1, c2⟩, c3, ?_, place_close h.hdx.1 h.range.tx h.hax.1 h.hax.2.1 h.hax.2.2 c1 n1,
    place_close h.hdy.1 h.range.ty h.hay.1 h.hay.2.1 h.hay.2.2 c2 n2, ⟨l1, l2⟩⟩
  rcases c3 with e | e
  · left; rw [e]; exact place_touch h.hdx.1 h.hax.1 h.hdx.2 h.hax.2.1 h.hax.2.2
  · right; rw [e]; exact place_touch h.hdy.1 h.hay.1 h.hdy.2 h.hay.2.1 h.hay.2.2

/-! ## headline: slice -/

structure SliceF32 (dx dy ax ay : F32) (W H : ℚ) (w h x0 y0 x1 y1 : F32) : Prop where
  size : Close3 w W ∧ Close3 h H
  size_touch : w = dx ∨ h = dy
  touch : (val x0 = 0 ∧ x1 = dx) ∨ (val y0 = 0 ∧ y1 = dy)
  x : Placed x0 x1 (val dx) (val ax) W
  y : Placed y0 y1 (val dy) (val ay) H
  /-- (d) the exact rectangle covers, hence the `covers` clauses of `x` and `y` apply -/
  covers : val dx ≤ W ∧ val dy ≤ H

theorem slice_f32 {vw vh dx dy ax ay : F32} (h : Hyp vw vh dx dy ax ay) :
    SliceF32 dx dy ax ay (sliceSizeQ (val vw) (val vh) (val dx) (val dy)).1
      (sliceSizeQ (val vw) (val vh) (val dx) (val dy)).2
      (sliceSize vw vh dx dy).1 (sliceSize vw vh dx dy).2
      (place dx (sliceSize vw vh dx dy).1 ax).1 (place dy (sliceSize vw vh dx dy).2 ay).1
      (place dx (sliceSize vw vh dx dy).1 ax).2 (place dy (sliceSize vw vh dx dy).2 ay).2 := by
  obtain ⟨c1, c2, c3⟩ := sliceSize_close h.hvw h.hvh h.hdx h.hdy h.range
  obtain ⟨n1, n2, l1, l2⟩ := sliceSizeQ_facts h.hvw.2 h.hvh.2 h.hdx.2 h.hdy.2 h.range
  refine ⟨⟨c1, c2⟩, c3, ?_, place_close h.hdx.1 h.range.tx h.hax.1 h.hax.2.1 h.hax.2.2 c1 n1,
    place_close h.hdy.1 h.range.ty h.hay.1 h.hay.2.1 h.hay.2.2 c2 n2, ⟨l1, l2⟩⟩
  rcases c3 with e | e
  · left; rw [e]; exact place_touch h.hdx.1 h.hax.1 h.hdx.2 h.hax.2.1 h.hax.2.2
  · right; rw [e]; exact place_touch h.hdy.1 h.hay.1 h.hdy.2 h.hay.2.1 h.hay.2.2

end Ivg.Fit32
