import Ivg.Lemmas.FloatMono32
import Ivg.Lemmas.FloatRound
/-!
# binary32: exact packing, `ofInt`, `truncInt` and the amd64 conversions `int32(f)`, `uint32(f)`, `uint8(f)`

The binary32 instance of the first half of `FloatRound` (same proofs with the binary32 constants), then the
conversions of `Ivg/Num/F32.lean`.
-/
namespace Ivg.FloatRound32
open Ivg Num FloatOrder32 FloatMono32

/-! ## decoding a packed pattern -/

theorem pow2_succ (e : Int) : pow2 (e + 1) = 2 * pow2 e := by
  rw [pow2_add]; simp [pow2]; ring

/-- a (non-overflowing) packed magnitude `2^23·(fe+149) + q` with `q ≤ 2^24`, normalised or subnormal, decodes
    to `q·2^fe` -/
theorem bval_pk (s : Bool) (fe : Int) (q : Nat) (hfe : -149 ≤ fe) (hq : q ≤ 16777216)
    (hn : 8388608 ≤ q ∨ fe = -149)
    (hlt : 8388608 * (fe + 149).toNat + q < 2139095040) :
    FinB (withSign .f32 s (8388608 * (fe + 149).toNat + q)) ∧
    negB32 (withSign .f32 s (8388608 * (fe + 149).toNat + q)) = s ∧
    bval (withSign .f32 s (8388608 * (fe + 149).toNat + q)) = sval s q fe := by
  rw [withSign32]
  generalize ht : (fe + 149).toNat = t at *
  have hsg : negB32 ((if s = true then 2147483648 else 0) + (8388608 * t + q)) = s := by
    unfold negB32; cases s <;> simp <;> omega
  have hF : FinB ((if s = true then 2147483648 else 0) + (8388608 * t + q)) := by
    unfold FinB; cases s <;> simp <;> omega
  refine ⟨hF, hsg, ?_⟩
  unfold bval
  rw [hsg]
  rcases Nat.lt_or_ge q 8388608 with h1 | h1
  · -- subnormal
    have hfe' : fe = -149 := by omega
    have ht0 : t = 0 := by omega
    have hm : mantB ((if s = true then 2147483648 else 0) + (8388608 * t + q)) = q := by
      unfold mantB; cases s <;> simp <;> split <;> omega
    have he : expB ((if s = true then 2147483648 else 0) + (8388608 * t + q)) = fe := by
      unfold expB; cases s <;> simp <;> split <;> omega
    rw [hm, he]
  · rcases Nat.lt_or_ge q 16777216 with h2 | h2
    · have hm : mantB ((if s = true then 2147483648 else 0) + (8388608 * t + q)) = q := by
        unfold mantB; cases s <;> simp <;> split <;> omega
      have he : expB ((if s = true then 2147483648 else 0) + (8388608 * t + q)) = fe := by
        unfold expB; cases s <;> simp <;> split <;> omega
      rw [hm, he]
    · -- carry into the exponent
      have hq' : q = 16777216 := by omega
      have hm : mantB ((if s = true then 2147483648 else 0) + (8388608 * t + q)) =
          8388608 := by
        unfold mantB; cases s <;> simp <;> split <;> omega
      have he : expB ((if s = true then 2147483648 else 0) + (8388608 * t + q)) = fe + 1 := by
        unfold expB; cases s <;> simp <;> split <;> omega
      rw [hm, he, hq']
      unfold sval; rw [pow2_succ]; push_cast; ring

/-! ## packing without rounding -/

theorem sval_scale (s : Bool) (n j : Nat) (e : Int) : sval s (n * 2 ^ j) (e - j) = sval s n e := by
  unfold sval
  have := pow2_split e (e - j) (by omega)
  have hk : (e - (e - (j : Int))).toNat = j := by omega
  rw [hk] at this
  rw [this]; push_cast; ring

/-- normalisation of a mantissa of at most 24 bits -/
theorem norm_exists (n : Nat) (e : Int) (hn0 : 0 < n) (hn : n < 16777216) (he : -149 ≤ e) :
    ∃ j : Nat, n * 2 ^ j < 16777216 ∧ -149 ≤ e - j ∧
      (8388608 ≤ n * 2 ^ j ∨ e - j = -149) ∧ (e - j ≤ e + bitLen n - 24 ∨ e - j = -149) := by
  obtain ⟨h1, h2, h3⟩ := bitLen_bounds hn0
  have hL : bitLen n ≤ 24 := bitLen_le (k := 24) (by omega)
  have c24 : (2:Nat) ^ 24 = 16777216 := by decide
  have c23 : (2:Nat) ^ 23 = 8388608 := by decide
  by_cases hc : (24 - bitLen n : Nat) ≤ (e + 149).toNat
  · refine ⟨24 - bitLen n, ?_, by omega, Or.inl ?_, Or.inl (by omega)⟩
    · have : n * 2 ^ (24 - bitLen n) < 2 ^ bitLen n * 2 ^ (24 - bitLen n) :=
        (Nat.mul_lt_mul_right (Nat.two_pow_pos _)).2 h2
      rw [← Nat.pow_add, show bitLen n + (24 - bitLen n) = 24 by omega, c24] at this
      exact this
    · have : 2 ^ (bitLen n - 1) * 2 ^ (24 - bitLen n) ≤ n * 2 ^ (24 - bitLen n) :=
        Nat.mul_le_mul_right _ h1
      rw [← Nat.pow_add, show bitLen n - 1 + (24 - bitLen n) = 23 by omega, c23] at this
      exact this
  · refine ⟨(e + 149).toNat, ?_, by omega, Or.inr (by omega), Or.inr (by omega)⟩
    have : n * 2 ^ (e + 149).toNat < 2 ^ bitLen n * 2 ^ (e + 149).toNat :=
      (Nat.mul_lt_mul_right (Nat.two_pow_pos _)).2 h2
    rw [← Nat.pow_add] at this
    have h4 : (2:Nat) ^ (bitLen n + (e + 149).toNat) ≤ 2 ^ 24 := Nat.pow_le_pow_right (by omega) (by omega)
    omega

/-- **exact packing**: `±n·2^e` with `n < 2^24`, `e ≥ -149` and `n·2^e < 2^128` is representable and
    `roundPack` returns its pattern unrounded -/
theorem roundPack_exact (s : Bool) (n : Nat) (e : Int) (hn : n < 16777216) (he : -149 ≤ e)
    (hhi : e + bitLen n ≤ 128) :
    FinB (roundPack .f32 s n e) ∧ negB32 (roundPack .f32 s n e) = s ∧
    bval (roundPack .f32 s n e) = sval s n e ∧ roundPack .f32 s n e < 4294967296 := by
  rcases Nat.eq_zero_or_pos n with rfl | hn0
  · have h0 : roundPack .f32 s 0 e = withSign .f32 s 0 := by simp [roundPack]
    have := bval_pk s (-149) 0 (by omega) (by omega) (Or.inr rfl) (by decide)
    simp only [show ((-149 : Int) + 149).toNat = 0 by decide, Nat.mul_zero, Nat.add_zero] at this
    rw [h0]
    refine ⟨this.1, this.2.1, ?_, ?_⟩
    · rw [this.2.2]; simp [sval]
    · rw [withSign32]; split <;> omega
  · obtain ⟨j, j1, j2, j3, j4⟩ := norm_exists n e hn0 hn he
    have hpos : 0 < n * 2 ^ j := Nat.mul_pos hn0 (Nat.two_pow_pos j)
    have hr : roundMag .f32 n e = pk (e - j) (n * 2 ^ j) := by
      rw [← roundMag_scale n j e hn0]
      exact roundMag_exact _ _ hpos j1 j2 j3
    have hno : 8388608 * (e - j + 149).toNat + n * 2 ^ j < 2139095040 := by omega
    have hpk : pk (e - j) (n * 2 ^ j) = 8388608 * (e - j + 149).toNat + n * 2 ^ j := by
      unfold pk; rw [if_neg (by omega)]
    have := bval_pk s (e - j) (n * 2 ^ j) j2 (by omega) j3 hno
    rw [roundPack_pos _ _ _ _ (by omega), hr, hpk]
    refine ⟨this.1, this.2.1, ?_, ?_⟩
    · rw [this.2.2]; exact sval_scale s n j e
    · rw [withSign32]; split <;> omega

/-! ## floor of a quotient (ℚ level) -/

/-- the value `±m·2^e`, `e ≥ 0`, is an integer -/
theorem sval_int (s : Bool) (m : Nat) (e : Int) (he : 0 ≤ e) :
    sval s m e = (((if s then -((m * 2 ^ e.toNat : Nat) : Int) else ((m * 2 ^ e.toNat : Nat) : Int)) : Int) : ℚ) := by
  have := sval_split s m e 0 he
  rw [pow2_zero, mul_one] at this
  rw [this]; simp

/-- `m·2^(-sh) · 2^sh = m` -/
theorem pow2_neg_mul (sh : Nat) : pow2 (-(sh : Int)) * ((2 ^ sh : Nat) : ℚ) = 1 := by
  have := pow2_split 0 (-(sh : Int)) (by omega)
  rw [pow2_zero, show ((0 : Int) - -(sh : Int)).toNat = sh by omega] at this
  rw [mul_comm]; exact this.symm

/-- floor of `±m / 2^sh` from the integer quotient and remainder -/
theorem floor_quot (s : Bool) (m sh : Nat) :
    ⌊sval s m (-(sh : Int))⌋ =
      if s then -(((if m % 2 ^ sh ≠ 0 then m / 2 ^ sh + 1 else m / 2 ^ sh : Nat)) : Int)
      else ((m / 2 ^ sh : Nat) : Int) := by
  have hP : (0 : ℚ) < ((2 ^ sh : Nat) : ℚ) := by exact_mod_cast Nat.two_pow_pos sh
  have h1 := pow2_neg_mul sh
  have hdm : ((2 ^ sh : Nat) : ℚ) * ((m / 2 ^ sh : Nat) : ℚ) + ((m % 2 ^ sh : Nat) : ℚ) = (m : ℚ) := by
    exact_mod_cast Nat.div_add_mod m (2 ^ sh)
  have hr : ((m % 2 ^ sh : Nat) : ℚ) < ((2 ^ sh : Nat) : ℚ) := by
    exact_mod_cast Nat.mod_lt m (Nat.two_pow_pos sh)
  have hr0 : (0 : ℚ) ≤ ((m % 2 ^ sh : Nat) : ℚ) := Nat.cast_nonneg _
  generalize ((2 ^ sh : Nat) : ℚ) = P at *
  generalize hq : ((m / 2 ^ sh : Nat) : ℚ) = q at *
  have hvP : (m : ℚ) * pow2 (-(sh : Int)) * P = m := by rw [mul_assoc, h1, mul_one]
  generalize hv : (m : ℚ) * pow2 (-(sh : Int)) = v at *
  unfold sval
  rw [hv, Int.floor_eq_iff]
  cases s
  · simp only [Bool.false_eq_true, if_false, one_mul]
    rw [Int.cast_natCast, hq]
    constructor
    · apply le_of_mul_le_mul_right _ hP; rw [hvP, ← hdm]; nlinarith
    · apply lt_of_mul_lt_mul_right _ (le_of_lt hP); rw [hvP, ← hdm]; nlinarith
  · simp only [if_true, neg_one_mul]
    by_cases h0 : m % 2 ^ sh = 0
    · have : ¬ (m % 2 ^ sh ≠ 0) := by simpa using h0
      rw [if_neg this, Int.cast_neg, Int.cast_natCast, hq]
      rw [h0] at hdm
      simp only [Nat.cast_zero, add_zero] at hdm
      have : v = q := by
        apply mul_right_cancel₀ (ne_of_gt hP); rw [hvP, ← hdm]; ring
      rw [this]; constructor <;> linarith
    · rw [if_pos h0, Int.cast_neg, Int.cast_natCast]
      push_cast
      rw [hq]
      have hrp : (0 : ℚ) < ((m % 2 ^ sh : Nat) : ℚ) := by
        have : 0 < m % 2 ^ sh := by omega
        exact_mod_cast this
      constructor
      · have : v ≤ q + 1 := by
          apply le_of_mul_le_mul_right _ hP; rw [hvP, ← hdm]; nlinarith
        linarith
      · have : q < v := by
          apply lt_of_mul_lt_mul_right _ (le_of_lt hP); rw [hvP, ← hdm]; nlinarith
        linarith

def InfB (a : Nat) : Prop := NNB a ∧ ¬ FinB a
instance (a : Nat) : Decidable (InfB a) := by unfold InfB; infer_instance

theorem unpack_inf (a : Nat) (h : InfB a) : unpack .f32 a = .inf (negB32 a) := by
  obtain ⟨h1, h2⟩ := h
  unfold NNB at h1; unfold FinB at h2
  rw [unpack_f32, if_pos (by omega), if_pos (by omega)]

theorem InfB_cases (a : Nat) (ha : a < 4294967296) (h : InfB a) :
    a = 0x7F800000 ∨ a = 0xFF800000 := by
  obtain ⟨h1, h2⟩ := h
  unfold NNB at h1; unfold FinB at h2
  omega

theorem quiet_f32 (b : Nat) :
    quiet .f32 b = if b / 4194304 % 2 = 1 then b else b + 4194304 := by
  have : Fmt.f32.quietBit = 4194304 := by decide
  unfold quiet; rw [this]; simp

/-! ## `ofInt` -/

/-- **integer → binary32 is correctly rounded** -/
theorem ofInt_Rnd (i : Int) : Rnd (i : ℚ) (Num.ofInt .f32 i) := by
  unfold Num.ofInt
  by_cases h0 : i = 0
  · subst h0; left; simp
  · have : (i == 0) = false := by simp [h0]
    rw [this]
    simp only [Bool.false_eq_true, if_false]
    have h := Rnd_int (decide (i < 0)) i.natAbs 0 (by omega)
    rw [pow2_zero, mul_one] at h
    rw [int_cast_signed i]; exact h

/-- **exact below `2^24`** -/
theorem ofInt_exact (i : Int) (h : i.natAbs < 16777216) :
    FinB (Num.ofInt .f32 i) ∧ bval (Num.ofInt .f32 i) = (i : ℚ) := by
  unfold Num.ofInt
  by_cases h0 : i = 0
  · subst h0
    refine ⟨by decide, ?_⟩
    simp only [BEq.rfl, if_true, Int.cast_zero]
    exact bval_zero 0 (by decide)
  · have : (i == 0) = false := by simp [h0]
    rw [this]
    simp only [Bool.false_eq_true, if_false]
    have hL := bitLen_le (k := 24) h
    obtain ⟨r1, _, r3, _⟩ := roundPack_exact (decide (i < 0)) i.natAbs 0 h (by omega) (by omega)
    refine ⟨r1, ?_⟩
    rw [r3, int_cast_signed i]; unfold sval; rw [pow2_zero, mul_one]

theorem ofInt_lt (i : Int) : Num.ofInt .f32 i < 4294967296 := (Rnd_lt _ _ (ofInt_Rnd i)).2

theorem ofInt_nb (i : Int) : (F32.ofInt i).nb = Num.ofInt .f32 i := nb_ofNatBits _ (ofInt_lt i)

/-- `F32` form: `float64(i)` -/
theorem ofInt_F32 (i : Int) : Rnd (i : ℚ) (F32.ofInt i).nb := by rw [ofInt_nb]; exact ofInt_Rnd i

theorem ofInt_F32_exact (i : Int) (h : i.natAbs < 16777216) :
    FloatMono32.Fin (F32.ofInt i) ∧ val (F32.ofInt i) = (i : ℚ) := by
  unfold FloatMono32.Fin val; rw [ofInt_nb]; exact ofInt_exact i h
/-! ## `truncInt` -/

theorem sval_false_nonneg (m : Nat) (e : Int) : 0 ≤ sval false m e := by
  unfold sval
  have := pow2_pos e
  simp only [Bool.false_eq_true, if_false, one_mul]
  positivity

theorem sval_true (m : Nat) (e : Int) : sval true m e = - sval false m e := by
  unfold sval; simp

/-- **`truncInt` of a finite operand is the truncation toward zero of its value** -/
theorem truncInt_spec (a : Nat) (fa : FinB a) : Num.truncInt .f32 a = some (FloatRound.tr (bval a)) := by
  have hva : bval a = sval (negB32 a) (mantB a) (expB a) := rfl
  rw [hva]
  unfold Num.truncInt
  rw [unpack_fin a fa]
  simp only []
  generalize negB32 a = s
  generalize mantB a = m
  generalize expB a = e
  congr 1
  -- the non-negative case
  have hpos : FloatRound.tr (sval false m e) = ((if e ≥ 0 then m * 2 ^ e.toNat else m / 2 ^ (-e).toNat : Nat) : Int) := by
    unfold FloatRound.tr
    rw [if_pos (sval_false_nonneg m e)]
    split
    · rename_i he
      rw [sval_int _ _ _ he, Int.floor_intCast]; simp
    · rename_i he
      have he' : e = -(((-e).toNat : Nat) : Int) := by omega
      generalize (-e).toNat = sh at *
      rw [he', floor_quot]; simp
  cases s
  · rw [hpos]; simp
  · rw [sval_true, FloatRound.tr_neg, hpos]; simp

theorem truncInt_none (a : Nat) (h : ¬ FinB a) : Num.truncInt .f32 a = none := by
  unfold FinB at h
  unfold Num.truncInt
  rw [unpack_f32, if_pos (by omega)]
  by_cases h0 : a % 8388608 = 0
  · rw [if_pos h0]
  · rw [if_neg h0]

/-! ## the amd64 conversions of `F32` -/
open Ivg.FloatRound (tr tr_bound tr_nonneg)

/-- Go `int32(f)` on amd64 (CVTTSS2SL), in range: truncation toward zero -/
theorem toInt32_inrange (a : F32) (fa : FloatMono32.Fin a) (h1 : -(2:Int)^31 ≤ tr (val a)) (h2 : tr (val a) < (2:Int)^31) :
    a.toInt32 = tr (val a) := by
  unfold F32.toInt32 val
  rw [truncInt_spec a.nb fa]
  simp only []
  rw [if_neg (by unfold val at h1 h2; omega)]

/-- … out of range, infinite or NaN: the "integer indefinite" value `-2^31` -/
theorem toInt32_indefinite (a : F32)
    (h : ¬ FloatMono32.Fin a ∨ tr (val a) < -(2:Int)^31 ∨ (2:Int)^31 ≤ tr (val a)) : a.toInt32 = -(2:Int)^31 := by
  unfold F32.toInt32
  by_cases fa : FloatMono32.Fin a
  · rw [truncInt_spec a.nb fa]
    simp only []
    rw [if_pos (by unfold val at h; tauto)]
  · rw [truncInt_none a.nb fa]

theorem toInt32_val (a : F32) (fa : FloatMono32.Fin a) (h1 : -(2:ℚ)^31 < val a) (h2 : val a < (2:ℚ)^31) :
    a.toInt32 = tr (val a) := by
  have := tr_bound (val a) ((2:Int)^31) (by decide) (by push_cast; exact h1) (by push_cast; exact h2)
  exact toInt32_inrange a fa this.1 this.2

/-- Go `uint32(f)` on amd64: the low 32 bits of the 64-bit conversion CVTTSS2SQ -/
theorem toUInt32_spec (a : F32) (fa : FloatMono32.Fin a) (h1 : -(2:Int)^63 ≤ tr (val a)) (h2 : tr (val a) < (2:Int)^63) :
    a.toUInt32.toNat = (tr (val a) % (2:Int)^32).toNat := by
  unfold F32.toUInt32 val
  rw [truncInt_spec a.nb fa]
  simp only []
  rw [if_neg (by unfold val at h1 h2; omega), UInt32.toNat_ofNat']
  apply Nat.mod_eq_of_lt
  have : (2:Int)^32 = 4294967296 := by decide
  have h32 : (2:Nat)^32 = 4294967296 := by decide
  rw [this, h32]; omega

/-- … out of the 64-bit range, infinite or NaN: the low half of the indefinite value, `0` -/
theorem toUInt32_indefinite (a : F32)
    (h : ¬ FloatMono32.Fin a ∨ tr (val a) < -(2:Int)^63 ∨ (2:Int)^63 ≤ tr (val a)) : a.toUInt32 = 0 := by
  unfold F32.toUInt32
  by_cases fa : FloatMono32.Fin a
  · rw [truncInt_spec a.nb fa]
    simp only []
    rw [if_pos (by unfold val at h; tauto)]
  · rw [truncInt_none a.nb fa]

/-- … for `0 ≤ val a < 2^32` it is the truncation itself -/
theorem toUInt32_inrange (a : F32) (fa : FloatMono32.Fin a) (h0 : 0 ≤ val a) (h1 : val a < 4294967296) :
    (a.toUInt32.toNat : Int) = ⌊val a⌋ := by
  have ht : tr (val a) = ⌊val a⌋ := tr_nonneg _ h0
  have hf0 : (0:Int) ≤ ⌊val a⌋ := Int.floor_nonneg.2 h0
  have hf1 : ⌊val a⌋ < 4294967296 := by rw [Int.floor_lt]; push_cast; exact h1
  have c63 : (2:Int)^63 = 9223372036854775808 := by decide
  have c32 : (2:Int)^32 = 4294967296 := by decide
  rw [toUInt32_spec a fa (by rw [ht, c63]; omega) (by rw [ht, c63]; omega), ht, c32]
  omega

/-- Go `uint8(f)`: the low 8 bits of the 32-bit conversion -/
theorem toUInt8_spec (a : F32) : a.toUInt8.toNat = (a.toInt32 % 256).toNat := by
  unfold F32.toUInt8
  rw [UInt8.toNat_ofNat']
  have : (a.toInt32 % 256).toNat < 256 := by omega
  exact Nat.mod_eq_of_lt this

/-- … for `0 ≤ val a < 256` it is the truncation itself -/
theorem toUInt8_inrange (a : F32) (fa : FloatMono32.Fin a) (h0 : 0 ≤ val a) (h1 : val a < 256) :
    (a.toUInt8.toNat : Int) = ⌊val a⌋ := by
  have ht : tr (val a) = ⌊val a⌋ := tr_nonneg _ h0
  have hf0 : (0:Int) ≤ ⌊val a⌋ := Int.floor_nonneg.2 h0
  have hf1 : ⌊val a⌋ < 256 := by rw [Int.floor_lt]; push_cast; exact h1
  have c31 : (2:Int)^31 = 2147483648 := by decide
  rw [toUInt8_spec, toInt32_inrange a fa (by rw [ht, c31]; omega) (by rw [ht, c31]; omega), ht]
  omega

-- non-vacuity
example : Num.ofInt .f32 (-3) = 0xC0400000 := by decide +kernel
example : Num.ofInt .f32 16777217 = 0x4B800000 := by decide +kernel        -- 2^24+1 rounds to even
example : (⟨0xC0200000⟩ : F32).toInt32 = -2 := by decide +kernel             -- int32(-2.5)
example : (⟨0x4F000000⟩ : F32).toInt32 = -(2:Int)^31 := by decide +kernel    -- int32(2^31): indefinite
example : (⟨0x4F000000⟩ : F32).toUInt32 = 2147483648 := by decide +kernel    -- uint32(2^31) is in the 64-bit range
example : (⟨0x5F000000⟩ : F32).toUInt32 = 0 := by decide +kernel             -- uint32(2^63): indefinite, low half
example : (⟨0x437F8000⟩ : F32).toUInt8 = 255 := by decide +kernel            -- uint8(255.5)
example : (⟨0x43808000⟩ : F32).toUInt8 = 1 := by decide +kernel              -- uint8(257.0) wraps
example : (⟨0x7FC00000⟩ : F32).toUInt8 = 0 := by decide +kernel              -- NaN

end Ivg.FloatRound32
