import Ivg.Lemmas.MdParse
/-!
# C20, parsing clauses — the converter's loop (`Md.pathLoop`) and `ParsePathData` on printed path data
-/
namespace Ivg.MdParse
open Ivg Gen Spec.PathData PathParse
variable {α : Type} [Arith α]

/-! ## one iteration -/

theorem step_explicit (adj : UInt8) (size offX offY outSize : α) (k : Nat) (started : Bool) (op : Option Char)
    (v : Char) (n : Nat) (hv : Md.opArgCount v = some n) (g : List CTok) (hlen : g.length = n)
    (hg : ∀ t ∈ g, TokOKmd t) (sp : List Char) (hsp : ∀ c ∈ sp, c = ' ') (X : List Char)
    (hch : ChainTo g (X.headD 'z')) :
    Md.pathLoop adj size offX offY outSize (k + 1) started op (v :: (sp ++ g.flatMap CTok.render ++ X)) =
      (match Md.pathLoop adj size offX offY outSize k true (some v) (trail g sp ++ X) with
       | .error e => .error e
       | .ok cs => .ok (Md.emitOp v started adj
           (Md.normalizeArgs (g.map fun t => t.tok.value32) n v size offX offY outSize (isRel v)) ++ cs)) := by
  obtain ⟨h1, h2, _⟩ := op_letter v (by rw [hv]; simp)
  have hs := scan_group (α := α) g hg X hch sp hsp
  rw [hlen] at hs
  have hl : ¬ ((trail g sp ++ X).length ≥ (v :: (sp ++ g.flatMap CTok.render ++ X)).length) := by
    have := trail_len g sp
    simp only [List.length_append, List.length_cons]; omega
  simp only [Md.pathLoop, h1, ↓reduceIte, h2, hv, hs, hl]
  rfl

theorem step_implicit (adj : UInt8) (size offX offY outSize : α) (k : Nat) (o : Char) (n : Nat)
    (ho : Md.opArgCount o = some n) (g : List CTok) (hne : g ≠ []) (hlen : g.length = n)
    (hg : ∀ t ∈ g, TokOKmd t) (X : List Char) (hch : ChainTo g (X.headD 'z')) :
    Md.pathLoop adj size offX offY outSize (k + 1) true (some o) (g.flatMap CTok.render ++ X) =
      (match Md.pathLoop adj size offX offY outSize k true (some o) (trail g [] ++ X) with
       | .error e => .error e
       | .ok cs => .ok (Md.emitOp o true adj
           (Md.normalizeArgs (g.map fun t => t.tok.value32) n o size offX offY outSize (isRel o)) ++ cs)) := by
  have hs := scan_group (α := α) g hg X hch [] (fun _ h => by cases h)
  rw [hlen, List.nil_append] at hs
  have hl : ¬ ((trail g [] ++ X).length ≥ (g.flatMap CTok.render ++ X).length) := by
    have := trail_lt g hne hg []
    simp only [List.length_append]; omega
  obtain ⟨w, TL, hD, hw1, hw2⟩ : ∃ w TL, g.flatMap CTok.render ++ X = w :: TL ∧ w ≠ ' ' ∧
      ¬ (('A' ≤ w ∧ w ≤ 'Z') ∨ ('a' ≤ w ∧ w ≤ 'z')) := by
    cases g with
    | nil => exact absurd rfl hne
    | cons t r =>
      obtain ⟨w, tl, hr, h1, h2⟩ := tok_first_md t.tok (hg t List.mem_cons_self).1
      exact ⟨w, _, by simp [CTok.render, hr]; rfl, h1, h2⟩
  rw [hD] at hs hl ⊢
  simp only [Md.pathLoop, hw1, ↓reduceIte, hw2, ho, hs, hl]
  rfl

/-- spaces between commands and groups: one iteration each -/
theorem loop_spaces (adj : UInt8) (size offX offY outSize : α) (op : Option Char) (D : List Char)
    (R : Except Md.MdErr (List (Call α)))
    (hk : ∀ k > D.length, Md.pathLoop adj size offX offY outSize k true op D = R)
    (sp : List Char) (hsp : ∀ c ∈ sp, c = ' ') :
    ∀ k > (sp ++ D).length, Md.pathLoop adj size offX offY outSize k true op (sp ++ D) = R := by
  induction sp with
  | nil => simpa using hk
  | cons c sp ih =>
    intro k hk'
    have hc : c = ' ' := hsp c List.mem_cons_self
    subst hc
    obtain ⟨k', rfl⟩ : ∃ k', k = k' + 1 := ⟨k - 1, by simp at hk'; omega⟩
    simp only [List.cons_append, Md.pathLoop, ↓reduceIte]
    exact ih (fun c' h' => hsp c' (List.mem_cons_of_mem _ h')) k' (by simp at hk' ⊢; omega)

/-! ## the operand groups that follow the first one (implicit repetition) -/

theorem loop_groups (adj : UInt8) (size offX offY outSize : α) (o : Char) (n : Nat)
    (ho : Md.opArgCount o = some n) (hn : n ≠ 0) (hM : o ≠ 'M') (X : List Char) (rest : List (Call α))
    (hk : ∀ k > X.length, Md.pathLoop adj size offX offY outSize k true (some o) X = .ok rest) :
    ∀ gs : List (List CTok), (∀ g ∈ gs, g.length = n ∧ ∀ t ∈ g, TokOKmd t) →
      ChainTo gs.flatten (X.headD 'z') →
    ∀ k > (gs.flatten.flatMap CTok.render ++ X).length,
      Md.pathLoop adj size offX offY outSize k true (some o) (gs.flatten.flatMap CTok.render ++ X) =
        .ok (gs.flatMap (fun g => draw o
          (Md.normalizeArgs (g.map fun t => t.tok.value32) n o size offX offY outSize (isRel o))) ++ rest) := by
  intro gs
  induction gs with
  | nil => intro _ _ k hk'; simpa using hk k (by simpa using hk')
  | cons g gs ih =>
    intro hall hch k hk'
    obtain ⟨hglen, hgok⟩ := hall g List.mem_cons_self
    have hgne : g ≠ [] := by intro h; rw [h] at hglen; exact hn hglen.symm
    rw [List.flatten_cons] at hch
    obtain ⟨hc1, hc2⟩ := chainTo_append g gs.flatten _ hch
    rw [← headD_append] at hc1
    have hih := ih (fun g' h' => hall g' (List.mem_cons_of_mem _ h')) hc2
    have hstr : (g :: gs).flatten.flatMap CTok.render ++ X =
        g.flatMap CTok.render ++ (gs.flatten.flatMap CTok.render ++ X) := by
      simp [List.flatMap_append]
    rw [hstr] at hk' ⊢
    obtain ⟨k', rfl⟩ : ∃ k', k = k' + 1 := ⟨k - 1, by omega⟩
    have hsp := loop_spaces adj size offX offY outSize (some o) _ _ hih (trail g [])
      (trail_spaces g hgok [] (fun _ h => by cases h)) k' (by
        have := trail_lt g hgne hgok []
        simp only [List.length_append] at hk' ⊢; omega)
    rw [step_implicit adj size offX offY outSize k' o n ho g hgne hglen hgok _ hc1, hsp,
      emit_draw_md o n ho hn true adj _ (by rw [md_normalize_length, List.length_map, hglen])]
    simp [hM]

/-! ## one command -/

/-- the calls of one command in the converter: only the very first `M` starts the path -/
theorem loop_cmd (adj : UInt8) (size offX offY outSize : α) (started : Bool) (v : Char) (lead : Nat) (n : Nat)
    (hv : Md.opArgCount v = some n) (hn : n ≠ 0) (g : List CTok) (gs : List (List CTok))
    (hall : ∀ g' ∈ g :: gs, g'.length = n ∧ ∀ t ∈ g', TokOKmd t) (hmove : isMove v = true → gs = [])
    (X : List Char) (hch : ChainTo (g :: gs).flatten (X.headD 'z')) (rest : List (Call α))
    (hk : ∀ k > X.length, ∀ op, Md.pathLoop adj size offX offY outSize k true op X = .ok rest) :
    ∀ k > (renderMdCmd ⟨⟨v, g :: gs⟩, lead⟩ ++ X).length, ∀ op,
      Md.pathLoop adj size offX offY outSize k started op (renderMdCmd ⟨⟨v, g :: gs⟩, lead⟩ ++ X) =
        .ok ((if v = 'M' ∧ started = false then
                start adj (Md.normalizeArgs (g.map fun t => t.tok.value32) n v size offX offY outSize (isRel v))
              else draw v (Md.normalizeArgs (g.map fun t => t.tok.value32) n v size offX offY outSize (isRel v))) ++
          gs.flatMap (fun g => draw v
            (Md.normalizeArgs (g.map fun t => t.tok.value32) n v size offX offY outSize (isRel v))) ++ rest) := by
  intro k hk' op
  obtain ⟨hglen, hgok⟩ := hall g List.mem_cons_self
  rw [List.flatten_cons] at hch
  obtain ⟨hc1, hc2⟩ := chainTo_append g gs.flatten _ hch
  rw [← headD_append] at hc1
  have hstr : renderMdCmd ⟨⟨v, g :: gs⟩, lead⟩ ++ X =
      v :: (List.replicate lead ' ' ++ g.flatMap CTok.render ++ (gs.flatten.flatMap CTok.render ++ X)) := by
    simp [renderMdCmd, flatMap_flatten_render]
  rw [hstr] at hk' ⊢
  obtain ⟨k', rfl⟩ : ∃ k', k = k' + 1 := ⟨k - 1, by omega⟩
  have hlead : ∀ c ∈ List.replicate lead ' ', c = ' ' := fun c hc => (List.mem_replicate.mp hc).2
  -- the groups after the first
  have hgroups : ∀ k > (gs.flatten.flatMap CTok.render ++ X).length,
      Md.pathLoop adj size offX offY outSize k true (some v) (gs.flatten.flatMap CTok.render ++ X) =
        .ok (gs.flatMap (fun g => draw v
          (Md.normalizeArgs (g.map fun t => t.tok.value32) n v size offX offY outSize (isRel v))) ++ rest) := by
    by_cases hm : isMove v = true
    · have := hmove hm; subst this
      intro k hk''
      simpa using hk k (by simpa using hk'') (some v)
    · have hM : v ≠ 'M' := by
        intro h; subst h; exact hm (by decide)
      exact loop_groups adj size offX offY outSize v n hv hn hM X rest (fun k hk'' => hk k hk'' _) gs
        (fun g' h' => hall g' (List.mem_cons_of_mem _ h')) hc2
  have hsp := loop_spaces adj size offX offY outSize (some v) _ _ hgroups (trail g (List.replicate lead ' '))
    (trail_spaces g hgok _ hlead) k' (by
      have := trail_len g (List.replicate lead ' ')
      simp only [List.length_append, List.length_cons] at hk' ⊢; omega)
  rw [step_explicit adj size offX offY outSize k' started op v n hv g hglen hgok _ hlead _ hc1, hsp,
    emit_draw_md v n hv hn started adj _ (by rw [md_normalize_length, List.length_map, hglen])]
  simp

/-- `z` / `Z` in the middle: no call -/
theorem loop_cmd_z (adj : UInt8) (size offX offY outSize : α) (v : Char) (lead : Nat)
    (hv : Md.opArgCount v = some 0) (X : List Char) (rest : List (Call α))
    (hk : ∀ k > X.length, ∀ op, Md.pathLoop adj size offX offY outSize k true op X = .ok rest) :
    ∀ k > (renderMdCmd ⟨⟨v, []⟩, lead⟩ ++ X).length, ∀ started op,
      Md.pathLoop adj size offX offY outSize k started op (renderMdCmd ⟨⟨v, []⟩, lead⟩ ++ X) = .ok rest := by
  intro k hk' started op
  have hstr : renderMdCmd ⟨⟨v, []⟩, lead⟩ ++ X =
      v :: (List.replicate lead ' ' ++ ([] : List CTok).flatMap CTok.render ++ X) := by
    simp [renderMdCmd]
  rw [hstr] at hk' ⊢
  obtain ⟨k', rfl⟩ : ∃ k', k = k' + 1 := ⟨k - 1, by omega⟩
  have hlead : ∀ c ∈ List.replicate lead ' ', c = ' ' := fun c hc => (List.mem_replicate.mp hc).2
  have hsp := loop_spaces adj size offX offY outSize (some v) X _ (fun k hk'' => hk k hk'' (some v))
    (List.replicate lead ' ') hlead k' (by simp at hk' ⊢; omega)
  rw [step_explicit adj size offX offY outSize k' started op v 0 hv [] rfl (fun _ h => by cases h) _ hlead X trivial]
  simp only [trail, hsp, List.map_nil]
  rw [show Md.normalizeArgs ([] : List α) 0 v size offX offY outSize (isRel v) = [] by simp [Md.normalizeArgs],
    emit_z_md v hv]
  rfl

end Ivg.MdParse
