import Ivg.Lemmas.FloatMono
import Mathlib.Tactic.NormNum
/-!
# Error of one correctly rounded binary64 operation (the standard model)

On top of `FloatOrder.Rnd v b` ("the bit pattern `b` is the correct rounding of the rational `v`") and
`FloatMono.add_Rnd … div_Rnd` (the soft-float operations return the correct rounding):

* `Rnd_err`      : `Rnd v b`, `b` finite  ⟹  `|val b − v| ≤ 2^-53·|v|`  ∨  (`|v| < 2^-1022` ∧ `|val b − v| ≤ 2^-1075`)
* `Rnd_rel_err`  : `2^-1022 ≤ |v| < ovf = 2^1024 − 2^970`  ⟹  `b` finite ∧ `|val b − v| ≤ 2^-53·|v|`
* `Rnd_abs_err`  : `|v| < 2^-1022`  ⟹  `b` finite ∧ `|val b − v| ≤ 2^-1075`
* `Rnd_fin_ovf`, `Rnd_fin` : no overflow below the threshold / up to the largest finite number `maxv`
* `Rnd_unique`, `Rnd_repr` : the rounding of a representable number is that number
* `Rnd_le_repr`, `Rnd_ge_repr`, `Rnd_le_val` : monotonicity against representable bounds
* `Rnd_err_grid` : a rounded point of the grid `2^-1074·ℤ` (every sum or difference of floats) has relative
  error `2^-53` with no exception for gradual underflow
* `F64` level (`u = 2^-53`, `minN = 2^-1022`): `add_err`, `sub_err`, `mul_err`, `div_err`, `abs_val_le_maxv`.

The proof goes through the implementation of `roundMag`: the kept digits `qOf` at the working exponent `fe64`
are within half a unit (`qOf_err`; `qOf_err_odd` for the truncated quotient with sticky bit of `Num.div`),
and the packed pattern `pk fe q` has the value `q·2^fe` (`bval_pk`).
This file is `FloatErr.lean` (binary32) with the constants of binary64 substituted mechanically
(`sed`; prec 24 → 53, emin −149 → −1074, …): `u = 2^-53`, `minN = 2^-1022`, `ovf = 2^1024 − 2^970`.
-/
namespace Ivg.FloatErr64
open Ivg Num FloatOrder FloatMono

/-! ## `Nat` level: round-to-nearest-even of `m / 2^s` is within half a unit -/

theorem rneShift_err (m s : Nat) (hs : 1 ≤ s) :
    2 * (rneShift m s * 2^s) ≤ 2 * m + 2^s ∧ 2 * m ≤ 2 * (rneShift m s * 2^s) + 2^s := by
  unfold rneShift
  have hP : 2^s = 2 * 2^(s-1) := by rw [← Nat.pow_succ']; congr 1; omega
  have e1 := Nat.div_add_mod m (2^s)
  have r1 := Nat.mod_lt m (Nat.two_pow_pos s)
  have e2 : (m / 2^s + 1) * 2^s = 2^s * (m / 2^s) + 2^s := by ring
  have e3 : m / 2^s * 2^s = 2^s * (m / 2^s) := by ring
  split
  · rename_i h
    rw [e2]
    simp only [Bool.or_eq_true, decide_eq_true_eq, Bool.and_eq_true, beq_iff_eq] at h
    omega
  · rename_i h
    rw [e3]
    simp only [Bool.or_eq_true, decide_eq_true_eq, Bool.and_eq_true, beq_iff_eq, not_or, not_and] at h
    omega

/-- an odd numerator shifted by at least two places is never a tie: strictly within half a unit, by a
    margin of one -/
theorem rneShift_err_odd (m s : Nat) (hs : 2 ≤ s) (hm : m % 2 = 1) :
    2 * (rneShift m s * 2^s) + 2 ≤ 2 * m + 2^s ∧ 2 * m + 2 ≤ 2 * (rneShift m s * 2^s) + 2^s := by
  unfold rneShift
  have hP : 2^s = 4 * 2^(s-2) := by
    have : s = (s - 2) + 2 := by omega
    conv_lhs => rw [this, Nat.pow_add]
    omega
  have hP' : 2^(s-1) = 2 * 2^(s-2) := by
    have : s - 1 = (s - 2) + 1 := by omega
    rw [this, Nat.pow_succ]; omega
  have e1 := Nat.div_add_mod m (2^s)
  have r1 := Nat.mod_lt m (Nat.two_pow_pos s)
  have e2 : (m / 2^s + 1) * 2^s = 2^s * (m / 2^s) + 2^s := by ring
  have e3 : m / 2^s * 2^s = 2^s * (m / 2^s) := by ring
  have hodd : m % 2^s % 2 = 1 := by
    rw [hP] at e1 ⊢
    have : 4 * 2 ^ (s - 2) * (m / (4 * 2 ^ (s - 2))) = 2 * (2 * 2 ^ (s - 2) * (m / (4 * 2 ^ (s - 2)))) := by ring
    omega
  split
  · rename_i h
    rw [e2]
    simp only [Bool.or_eq_true, decide_eq_true_eq, Bool.and_eq_true, beq_iff_eq] at h
    omega
  · rename_i h
    rw [e3]
    simp only [Bool.or_eq_true, decide_eq_true_eq, Bool.and_eq_true, beq_iff_eq, not_or, not_and] at h
    omega


/-! ## value of a packed magnitude -/

theorem pow2_mono {a b : Int} (h : a ≤ b) : pow2 a ≤ pow2 b :=
  zpow_le_zpow_right₀ (by norm_num) h

theorem pow2_one : pow2 1 = 2 := by simp [pow2]

theorem pow2_succ (a : Int) : pow2 (a + 1) = 2 * pow2 a := by rw [pow2_add, pow2_one]; ring

theorem pow2_pred (a : Int) : pow2 a = 2 * pow2 (a - 1) := by
  have := pow2_succ (a - 1); rwa [sub_add_cancel] at this

theorem bval_pk (fe : Int) (q : Nat) (hfe : -1074 ≤ fe) (hq : q ≤ 9007199254740992)
    (hn : 4503599627370496 ≤ q ∨ fe = -1074) (hlt : 4503599627370496 * (fe + 1074).toNat + q < 9218868437227405312) :
    FinB (pk fe q) ∧ negB64 (pk fe q) = false ∧ bval (pk fe q) = (q : ℚ) * pow2 fe := by
  have hpk : pk fe q = 4503599627370496 * (fe + 1074).toNat + q := by unfold pk; rw [if_neg (by omega)]
  rw [hpk]
  obtain ⟨k, hk⟩ : ∃ k : Nat, fe = (k : Int) - 1074 := ⟨(fe + 1074).toNat, by omega⟩
  subst hk
  have hk' : ((k : Int) - 1074 + 1074).toNat = k := by omega
  rw [hk'] at hlt ⊢
  have hneg : negB64 (4503599627370496 * k + q) = false := by
    unfold negB64
    have : (4503599627370496 * k + q) / 9223372036854775808 % 2 = 0 := by omega
    rw [this]; rfl
  refine ⟨by unfold FinB; omega, hneg, ?_⟩
  unfold bval sval; rw [hneg]
  simp only [Bool.false_eq_true, if_false, one_mul]
  by_cases h1 : q < 4503599627370496
  · have hk0 : k = 0 := by omega
    subst hk0
    have hm : mantB (4503599627370496 * 0 + q) = q := by unfold mantB; split <;> omega
    have he : expB (4503599627370496 * 0 + q) = ((0 : Nat) : Int) - 1074 := by unfold expB; split <;> omega
    rw [hm, he]
  · by_cases h2 : q = 9007199254740992
    · subst h2
      have hm : mantB (4503599627370496 * k + 9007199254740992) = 4503599627370496 := by unfold mantB; split <;> omega
      have he : expB (4503599627370496 * k + 9007199254740992) = ((k : Int) - 1074) + 1 := by unfold expB; split <;> omega
      rw [hm, he, pow2_succ]; push_cast; ring
    · have hm : mantB (4503599627370496 * k + q) = q := by unfold mantB; split <;> omega
      have he : expB (4503599627370496 * k + q) = (k : Int) - 1074 := by unfold expB; split <;> omega
      rw [hm, he]

/-! ## half a unit in the last place -/

theorem scaled_err (Q M S c x p : ℚ) (hp : 0 < p) (hx : |x - M| ≤ c)
    (h1 : 2 * Q + 2 * c ≤ 2 * M + S) (h2 : 2 * M + 2 * c ≤ 2 * Q + S) :
    |Q * p - x * p| ≤ S / 2 * p := by
  have hx' := abs_le.1 hx
  have : |Q - x| ≤ S / 2 := abs_le.2 ⟨by linarith [hx'.1, hx'.2], by linarith [hx'.1, hx'.2]⟩
  rw [← sub_mul, abs_mul, abs_of_pos hp]
  exact mul_le_mul_of_nonneg_right this hp.le

/-- the kept digits `qOf` at the working exponent `fe` are within half a unit `2^fe / 2` of the exact value -/
theorem qOf_err (m : Nat) (e fe : Int) :
    |(qOf m e fe : ℚ) * pow2 fe - (m : ℚ) * pow2 e| ≤ pow2 (fe - 1) := by
  unfold qOf
  split
  · rename_i h
    rw [pow2_split e fe h]
    push_cast
    have : (m : ℚ) * 2 ^ (e - fe).toNat * pow2 fe - m * (2 ^ (e - fe).toNat * pow2 fe) = 0 := by ring
    rw [this, abs_zero]; exact (pow2_pos _).le
  · rename_i h
    have hs : 1 ≤ (fe - e).toNat := by omega
    obtain ⟨h1, h2⟩ := rneShift_err m (fe - e).toNat hs
    have hpe := pow2_pos e
    have hsp : pow2 fe = ((2 ^ (fe - e).toNat : Nat) : ℚ) * pow2 e := pow2_split fe e (by omega)
    have hhalf : pow2 (fe - 1) = ((2 ^ (fe - e).toNat : Nat) : ℚ) / 2 * pow2 e := by
      have := pow2_pred fe; rw [hsp] at this; linarith
    rw [hhalf, hsp, ← mul_assoc]
    have h1' : (2 : ℚ) * ((rneShift m (fe - e).toNat : ℚ) * ((2 ^ (fe - e).toNat : Nat) : ℚ)) ≤
        2 * m + ((2 ^ (fe - e).toNat : Nat) : ℚ) := by exact_mod_cast h1
    have h2' : (2 : ℚ) * m ≤ 2 * ((rneShift m (fe - e).toNat : ℚ) * ((2 ^ (fe - e).toNat : Nat) : ℚ)) +
        ((2 ^ (fe - e).toNat : Nat) : ℚ) := by exact_mod_cast h2
    apply scaled_err _ (m : ℚ) _ 0 _ _ hpe (by simp) <;> linarith

/-- … and so is it of any `x` within distance `< 1` of an odd numerator that is shifted by two places or more
    (the truncated quotient with its sticky bit) -/
theorem qOf_err_odd (m : Nat) (e fe : Int) (x : ℚ) (hfe : e + 2 ≤ fe) (hm : m % 2 = 1)
    (hx1 : (m : ℚ) - 1 < x) (hx2 : x < m + 1) :
    |(qOf m e fe : ℚ) * pow2 fe - x * pow2 e| ≤ pow2 (fe - 1) := by
  unfold qOf
  rw [if_neg (by omega)]
  have hs : 2 ≤ (fe - e).toNat := by omega
  obtain ⟨h1, h2⟩ := rneShift_err_odd m (fe - e).toNat hs hm
  have hpe := pow2_pos e
  have hsp : pow2 fe = ((2 ^ (fe - e).toNat : Nat) : ℚ) * pow2 e := pow2_split fe e (by omega)
  have hhalf : pow2 (fe - 1) = ((2 ^ (fe - e).toNat : Nat) : ℚ) / 2 * pow2 e := by
    have := pow2_pred fe; rw [hsp] at this; linarith
  rw [hhalf, hsp, ← mul_assoc]
  have h1' : (2 : ℚ) * ((rneShift m (fe - e).toNat : ℚ) * ((2 ^ (fe - e).toNat : Nat) : ℚ)) + 2 ≤
      2 * m + ((2 ^ (fe - e).toNat : Nat) : ℚ) := by exact_mod_cast h1
  have h2' : (2 : ℚ) * m + 2 ≤ 2 * ((rneShift m (fe - e).toNat : ℚ) * ((2 ^ (fe - e).toNat : Nat) : ℚ)) +
      ((2 ^ (fe - e).toNat : Nat) : ℚ) := by exact_mod_cast h2
  apply scaled_err _ (m : ℚ) _ 1 _ _ hpe (abs_le.2 ⟨by linarith, by linarith⟩) <;> linarith


/-! ## one rounding: relative error `2^-53` in the normal range, absolute error `2^-1075` below it -/

/-- `x·2^E` is what is rounded: either `x = M` exactly, or `M` is the odd "truncated quotient + sticky bit"
    representative of at least 55 bits and `x` lies strictly between its neighbours -/
def Repr (M : Nat) (x : ℚ) : Prop :=
  x = M ∨ (M % 2 = 1 ∧ 55 ≤ bitLen M ∧ (M : ℚ) - 1 < x ∧ x < M + 1)

/-- the kept digits are within half a unit of the working exponent of `x·2^E`, and `x` lies in the binade of `M` -/
theorem round_core (M : Nat) (E : Int) (x : ℚ) (hM : 0 < M) (hx : Repr M x) :
    |(qOf M E (fe64 M E) : ℚ) * pow2 (fe64 M E) - x * pow2 E| ≤ pow2 (fe64 M E - 1) ∧
    pow2 ((bitLen M - 1 : Nat) : Int) ≤ x ∧ x < pow2 (bitLen M) := by
  obtain ⟨hL1, hL2, hL3⟩ := bitLen_bounds hM
  have herr : |(qOf M E (fe64 M E) : ℚ) * pow2 (fe64 M E) - x * pow2 E| ≤ pow2 (fe64 M E - 1) := by
    rcases hx with rfl | ⟨ho, hb, hx1, hx2⟩
    · exact qOf_err M E _
    · apply qOf_err_odd M E _ x _ ho hx1 hx2
      unfold fe64; split <;> omega
  have hxlo : ((2 ^ (bitLen M - 1) : Nat) : ℚ) ≤ x := by
    rcases hx with rfl | ⟨ho, hb, hx1, hx2⟩
    · exact_mod_cast hL1
    · have he : 2 ^ (bitLen M - 1) = 2 * 2 ^ (bitLen M - 2) := by
        have : bitLen M - 1 = (bitLen M - 2) + 1 := by omega
        rw [this, Nat.pow_succ]; omega
      have : 2 ^ (bitLen M - 1) + 1 ≤ M := by omega
      have : ((2 ^ (bitLen M - 1) : Nat) : ℚ) + 1 ≤ M := by exact_mod_cast this
      linarith
  have hxhi : x < ((2 ^ bitLen M : Nat) : ℚ) := by
    rcases hx with rfl | ⟨ho, hb, hx1, hx2⟩
    · exact_mod_cast hL2
    · have : M + 1 ≤ 2 ^ bitLen M := hL2
      have : (M : ℚ) + 1 ≤ ((2 ^ bitLen M : Nat) : ℚ) := by exact_mod_cast this
      linarith
  rw [← pow2_nat] at hxlo hxhi
  exact ⟨herr, hxlo, hxhi⟩

theorem qOf_norm (M : Nat) (E : Int) (hM : 0 < M) : 4503599627370496 ≤ qOf M E (fe64 M E) ∨ fe64 M E = -1074 := by
  rcases Int.lt_or_eq_of_le (fe64_ge M E) with h | h
  · exact Or.inl (qOf_ge M E hM h)
  · exact Or.inr h.symm

theorem roundMag_err (M : Nat) (E : Int) (x : ℚ) (hM : 0 < M) (hx : Repr M x)
    (hfin : roundMag .f64 M E < 9218868437227405312) :
    FinB (roundMag .f64 M E) ∧ negB64 (roundMag .f64 M E) = false ∧
    (|bval (roundMag .f64 M E) - x * pow2 E| ≤ pow2 (-53) * (x * pow2 E) ∨
     (x * pow2 E < pow2 (-1022) ∧ |bval (roundMag .f64 M E) - x * pow2 E| ≤ pow2 (-1075))) := by
  rw [roundMag_eq] at hfin ⊢
  have hfe := fe64_ge M E
  have hq := qOf_le M E
  have hn := qOf_norm M E hM
  have hlt : 4503599627370496 * (fe64 M E + 1074).toNat + qOf M E (fe64 M E) < 9218868437227405312 := by
    unfold pk at hfin; split at hfin <;> omega
  obtain ⟨h1, h2, h3⟩ := bval_pk _ _ hfe hq hn hlt
  refine ⟨h1, h2, ?_⟩
  rw [h3]
  obtain ⟨herr, hxlo, hxhi⟩ := round_core M E x hM hx
  have hpE := pow2_pos E
  by_cases hc : E + (bitLen M : Int) - 53 < -1074
  · right
    have hfe' : fe64 M E = -1074 := by unfold fe64; rw [if_pos hc]
    rw [hfe'] at herr ⊢
    refine ⟨?_, herr⟩
    calc x * pow2 E < pow2 (bitLen M) * pow2 E := mul_lt_mul_of_pos_right hxhi hpE
      _ = pow2 (bitLen M + E) := (pow2_add _ _).symm
      _ ≤ pow2 (-1022) := pow2_mono (by omega)
  · left
    have hfe' : fe64 M E = E + (bitLen M : Int) - 53 := by unfold fe64; rw [if_neg hc]
    refine le_trans herr ?_
    have e1 : pow2 (fe64 M E - 1) = pow2 (-53) * (pow2 ((bitLen M - 1 : Nat) : Int) * pow2 E) := by
      rw [← pow2_add, ← pow2_add]; congr 1; rw [hfe']; have := (bitLen_bounds hM).2.2; omega
    rw [e1]
    exact mul_le_mul_of_nonneg_left (mul_le_mul_of_nonneg_right hxlo hpE.le) (pow2_pos _).le

/-- the overflow threshold `(2^54 − 1)·2^970 = 2^1024 − 2^970`: the midpoint between the largest finite number and
    `2^1024`, which rounds (to even) to infinity -/
def ovf : ℚ := 18014398509481983 * pow2 970

/-- below the overflow threshold the rounding is finite -/
theorem roundMag_fin (M : Nat) (E : Int) (x : ℚ) (hM : 0 < M) (hx : Repr M x) (hv : x * pow2 E < ovf) :
    roundMag .f64 M E < 9218868437227405312 := by
  by_contra hc
  rw [roundMag_eq] at hc
  have hfe := fe64_ge M E
  have hq := qOf_le M E
  have hn := qOf_norm M E hM
  have hge : 9218868437227405312 ≤ 4503599627370496 * (fe64 M E + 1074).toNat + qOf M E (fe64 M E) := by
    unfold pk at hc; split at hc <;> omega
  obtain ⟨herr, hxlo, hxhi⟩ := round_core M E x hM hx
  have hL := (bitLen_bounds hM).2.2
  have hpE := pow2_pos E
  have h128 : ovf = pow2 1024 - pow2 970 := by
    have : pow2 1024 = 18014398509481984 * pow2 970 := by
      have := pow2_split 1024 970 (by omega)
      rw [this]
      have : (1024 - 970 : Int).toNat = 54 := by decide
      rw [this]; norm_num
    unfold ovf; rw [this]; ring
  have hfe104 : 971 ≤ fe64 M E := by omega
  by_cases h105 : 972 ≤ fe64 M E
  · -- then `x·2^E ≥ 2^(fe+52) ≥ 2^1024`
    have hfe' : fe64 M E = E + (bitLen M : Int) - 53 := by unfold fe64 at h105 ⊢; split <;> omega
    have : pow2 1024 ≤ x * pow2 E := by
      calc pow2 1024 ≤ pow2 (((bitLen M - 1 : Nat) : Int) + E) := pow2_mono (by omega)
        _ = pow2 ((bitLen M - 1 : Nat) : Int) * pow2 E := pow2_add _ _
        _ ≤ x * pow2 E := mul_le_mul_of_nonneg_right hxlo hpE.le
    have := pow2_pos 970
    linarith
  · -- `fe = 971`, `q = 2^53`, the error is at most `2^970`
    have hfe' : fe64 M E = 971 := by omega
    rw [hfe'] at herr hge
    have hq24 : qOf M E 971 = 9007199254740992 := by rw [hfe'] at hq; omega
    rw [hq24] at herr
    have : (9007199254740992 : ℚ) * pow2 971 = pow2 1024 := by
      have := pow2_split 1024 971 (by omega)
      rw [this]
      have : (1024 - 971 : Int).toNat = 53 := by decide
      rw [this]; norm_num
    have e103 : (971 - 1 : Int) = 970 := by decide
    rw [e103] at herr
    have h1 := (abs_le.1 herr).2
    push_cast at h1
    linarith

/-- a representative `(M, E, x)` of what `rmag T d e` rounds -/
theorem rmag_repr (T d : Nat) (e : Int) (h : Ok T d) :
    ∃ M E x, 0 < M ∧ Repr M x ∧ rmag T d e = roundMag .f64 M E ∧ (T : ℚ) / d * pow2 e = x * pow2 E := by
  obtain ⟨hd, hT, hq⟩ := h
  have e1 := Nat.div_add_mod T d
  have hdq : (0 : ℚ) < d := by exact_mod_cast hd
  unfold rmag
  by_cases h0 : T % d = 0
  · rw [if_pos h0]
    have hdvd : d ∣ T := Nat.dvd_of_mod_eq_zero h0
    have hc : (T : ℚ) / d = ((T / d : Nat) : ℚ) := by
      rw [div_eq_iff (ne_of_gt hdq)]
      have : T = T / d * d := by rw [Nat.mul_comm]; omega
      exact_mod_cast this
    have hM : 0 < T / d := Nat.div_pos (Nat.le_of_dvd hT hdvd) hd
    exact ⟨T / d, e, _, hM, Or.inl rfl, rfl, by rw [hc]⟩
  · rw [if_neg h0]
    have hQ : 54 ≤ bitLen (T / d) := by
      rcases hq with hq | hq
      · exact absurd hq h0
      · exact hq
    have hr := Nat.mod_lt T hd
    have hv : (T : ℚ) / d * pow2 e = (2 * (T : ℚ) / d) * pow2 (e - 1) := by
      rw [pow2_pred e]; ring
    refine ⟨2 * (T / d) + 1, e - 1, 2 * (T : ℚ) / d, by omega, Or.inr ⟨by omega, ?_, ?_, ?_⟩, rfl, hv⟩
    · have h24 : 2 ^ 53 ≤ T / d := by
        by_contra hc
        have := bitLen_le (m := T / d) (k := 53) (by omega)
        omega
      exact bitLen_ge (k := 54) (by omega)
    · rw [lt_div_iff₀ hdq]
      have : (T / d) * d < T := by
        have : d * (T / d) = T / d * d := Nat.mul_comm _ _
        omega
      have : ((T / d : Nat) : ℚ) * d < T := by exact_mod_cast this
      push_cast; linarith
    · rw [div_lt_iff₀ hdq]
      have : T < (T / d + 1) * d := by
        have : (T / d + 1) * d = d * (T / d) + d := by ring
        omega
      have : (T : ℚ) < (((T / d : Nat) : ℚ) + 1) * d := by exact_mod_cast this
      push_cast; linarith

/-- the rounding `rmag T d e` of the positive rational `v = T/d·2^e`, when it does not overflow -/
theorem rmag_err (T d : Nat) (e : Int) (h : Ok T d) (hfin : rmag T d e < 9218868437227405312) :
    FinB (rmag T d e) ∧ negB64 (rmag T d e) = false ∧
    (|bval (rmag T d e) - (T : ℚ) / d * pow2 e| ≤ pow2 (-53) * ((T : ℚ) / d * pow2 e) ∨
     ((T : ℚ) / d * pow2 e < pow2 (-1022) ∧ |bval (rmag T d e) - (T : ℚ) / d * pow2 e| ≤ pow2 (-1075))) := by
  obtain ⟨M, E, x, hM, hx, e1, e2⟩ := rmag_repr T d e h
  rw [e1] at hfin ⊢; rw [e2]
  exact roundMag_err M E x hM hx hfin

theorem rmag_fin (T d : Nat) (e : Int) (h : Ok T d) (hv : (T : ℚ) / d * pow2 e < ovf) :
    rmag T d e < 9218868437227405312 := by
  obtain ⟨M, E, x, hM, hx, e1, e2⟩ := rmag_repr T d e h
  rw [e1]; rw [e2] at hv
  exact roundMag_fin M E x hM hx hv

theorem neg_pos_bits (mag : Nat) (h : mag < 9223372036854775808) : Num.neg .f64 mag = 9223372036854775808 + mag := by
  unfold Num.neg; rw [signBit_f64, if_neg (by omega)]; omega

/-- **the standard model of one rounding** for binary64: a correctly rounded finite result is within relative
    `2^-53` of the exact value, or the exact value is below the normal range and the result is within `2^-1075` -/
theorem Rnd_err (v : ℚ) (b : Nat) (h : Rnd v b) (hf : FinB b) :
    |bval b - v| ≤ pow2 (-53) * |v| ∨ (|v| < pow2 (-1022) ∧ |bval b - v| ≤ pow2 (-1075)) := by
  rcases h with ⟨rfl, hb⟩ | ⟨hpos, T, d, e, hOk, rfl, rfl⟩ | ⟨hneg, T, d, e, hOk, hval, rfl⟩
  · left
    have : bval b = 0 := bval_zero b (by rcases hb with rfl | rfl <;> rfl)
    rw [this]; simp
  · have hlt : rmag T d e < 9218868437227405312 := by
      have := rmag_le_inf T d e
      unfold FinB at hf; omega
    rw [abs_of_pos hpos]
    exact (rmag_err T d e hOk hlt).2.2
  · have hle := rmag_le_inf T d e
    have hlt : rmag T d e < 9218868437227405312 := by unfold FinB at hf; omega
    have hb : bval (9223372036854775808 + rmag T d e) = - bval (rmag T d e) := by
      rw [← neg_pos_bits _ (by omega)]; exact bval_neg _ (by omega)
    have hv : v = -((T : ℚ) / d * pow2 e) := by linarith
    have hav : |v| = (T : ℚ) / d * pow2 e := by rw [abs_of_neg hneg]; exact hval
    rw [hb, hav]
    have : |(-bval (rmag T d e)) - v| = |bval (rmag T d e) - (T : ℚ) / d * pow2 e| := by
      rw [hv, ← abs_neg]; congr 1; ring
    rw [this]
    exact (rmag_err T d e hOk hlt).2.2


/-! ## no overflow below the largest finite number; uniqueness; order against representable bounds -/

/-- the largest finite binary64 value `(2^53 − 1)·2^971` -/
def maxv : ℚ := 9007199254740991 * pow2 971

theorem bval_max : bval 9218868437227405311 = maxv := by
  have h1 : negB64 9218868437227405311 = false := by decide
  have h2 : mantB 9218868437227405311 = 9007199254740991 := by decide
  have h3 : expB 9218868437227405311 = 971 := by decide
  unfold bval sval maxv; rw [h1, h2, h3]; simp

theorem bval_negmax : bval 18442240474082181119 = -maxv := by
  have h1 : negB64 18442240474082181119 = true := by decide
  have h2 : mantB 18442240474082181119 = 9007199254740991 := by decide
  have h3 : expB 18442240474082181119 = 971 := by decide
  unfold bval sval maxv; rw [h1, h2, h3]; simp

/-- the correct rounding of a rational of magnitude at most the largest finite number is finite -/
theorem Rnd_fin (v : ℚ) (b : Nat) (h : Rnd v b) (hv : |v| ≤ maxv) : FinB b := by
  obtain ⟨hv1, hv2⟩ := abs_le.1 hv
  have k1 := Rnd_mono v _ b _ h (Rnd_self 9218868437227405311 (by norm_num) (by decide)) (by rw [bval_max]; exact hv2)
  have k2 := Rnd_mono _ v _ b (Rnd_self 18442240474082181119 (by norm_num) (by decide)) h (by rw [bval_negmax]; exact hv1)
  have e1 : key 9218868437227405311 = 9218868437227405311 := by decide
  have e2 : key 18442240474082181119 = -9218868437227405311 := by decide
  rw [e1] at k1; rw [e2] at k2
  obtain ⟨hn, hlt⟩ := Rnd_lt v b h
  unfold key at k1 k2
  unfold FinB
  split at k1 <;> omega

/-- **no overflow strictly below the threshold** `2^1024 − 2^970` (at the threshold itself the tie goes to the
    even neighbour, infinity) -/
theorem Rnd_fin_ovf (v : ℚ) (b : Nat) (h : Rnd v b) (hv : |v| < ovf) : FinB b := by
  rcases h with ⟨_, hb⟩ | ⟨hpos, T, d, e, hOk, rfl, rfl⟩ | ⟨hneg, T, d, e, hOk, hval, rfl⟩
  · rcases hb with rfl | rfl <;> decide
  · rw [abs_of_pos hpos] at hv
    have := rmag_fin T d e hOk hv
    unfold FinB; omega
  · rw [abs_of_neg hneg, hval] at hv
    have := rmag_fin T d e hOk hv
    unfold FinB; omega

theorem maxv_lt_ovf : maxv < ovf := by
  unfold maxv ovf
  rw [pow2_pred 971]
  have : (971 - 1 : Int) = 970 := by decide
  rw [this]
  have := pow2_pos 970
  linarith

/-- two correct roundings of the same rational have the same value -/
theorem Rnd_unique (v : ℚ) (b c : Nat) (hb : Rnd v b) (hc : Rnd v c) : bval b = bval c := by
  have k1 := Rnd_mono v v b c hb hc (le_refl _)
  have k2 := Rnd_mono v v c b hc hb (le_refl _)
  rcases key_eq b c (Rnd_lt v b hb).2 (Rnd_lt v c hc).2 (by omega) with rfl | ⟨h1, h2⟩
  · rfl
  · rw [bval_zero b h1, bval_zero c h2]

/-- if the exact value is representable, the rounding returns it -/
theorem Rnd_repr (v : ℚ) (b c : Nat) (hb : Rnd v b) (hc : c < 18446744073709551616) (fc : FinB c) (hv : bval c = v) :
    bval b = v := by
  rw [← hv]; apply Rnd_unique v b c hb; rw [← hv]; exact Rnd_self c hc fc

theorem Rnd_le_repr (v : ℚ) (b c : Nat) (hb : Rnd v b) (fb : FinB b) (hc : c < 18446744073709551616) (fc : FinB c)
    (h : v ≤ bval c) : bval b ≤ bval c :=
  (key_le_iff b c (Rnd_lt v b hb).2 hc fb fc).1 (Rnd_mono v _ b c hb (Rnd_self c hc fc) h)

theorem Rnd_ge_repr (v : ℚ) (b c : Nat) (hb : Rnd v b) (fb : FinB b) (hc : c < 18446744073709551616) (fc : FinB c)
    (h : bval c ≤ v) : bval c ≤ bval b :=
  (key_le_iff c b hc (Rnd_lt v b hb).2 fc fb).1 (Rnd_mono _ v c b (Rnd_self c hc fc) hb h)

/-- monotonicity in the form used most: `v ≤ v'` implies the same of the rounded values -/
theorem Rnd_le_val (v v' : ℚ) (b b' : Nat) (hb : Rnd v b) (hb' : Rnd v' b') (fb : FinB b) (fb' : FinB b')
    (h : v ≤ v') : bval b ≤ bval b' :=
  (key_le_iff b b' (Rnd_lt v b hb).2 (Rnd_lt v' b' hb').2 fb fb').1 (Rnd_mono v v' b b' hb hb' h)

/-! ## the grid `2^-1074·ℤ`: sums and differences never lose accuracy to gradual underflow -/

theorem bval_grid (b : Nat) : ∃ z : Int, bval b = (z : ℚ) * pow2 (-1074) := by
  unfold bval sval
  have he := expB_ge b
  rw [pow2_split (expB b) (-1074) he]
  cases negB64 b
  · exact ⟨((mantB b * 2 ^ (expB b - -1074).toNat : Nat) : Int), by push_cast; ring⟩
  · exact ⟨-((mantB b * 2 ^ (expB b - -1074).toNat : Nat) : Int), by push_cast; (try simp only [if_true]); ring⟩

theorem pow2_126 : pow2 (-1022) = 4503599627370496 * pow2 (-1074) := by
  have := pow2_split (-1022) (-1074) (by omega)
  rw [this]
  have : (-1022 - -1074 : Int).toNat = 52 := by decide
  rw [this]; norm_num

/-- the subnormal (and zero) patterns represent every point of the grid below `2^-1022` -/
theorem grid_repr (z : Int) (hz : |z| < 4503599627370496) :
    ∃ c : Nat, c < 18446744073709551616 ∧ FinB c ∧ bval c = (z : ℚ) * pow2 (-1074) := by
  have hz' := abs_lt.1 hz
  by_cases hneg : z < 0
  · refine ⟨9223372036854775808 + z.natAbs, by omega, by unfold FinB; omega, ?_⟩
    have h1 : negB64 (9223372036854775808 + z.natAbs) = true := by
      unfold negB64
      have : (9223372036854775808 + z.natAbs) / 9223372036854775808 % 2 = 1 := by omega
      rw [this]; rfl
    have h2 : mantB (9223372036854775808 + z.natAbs) = z.natAbs := by unfold mantB; split <;> omega
    have h3 : expB (9223372036854775808 + z.natAbs) = -1074 := by unfold expB; split <;> omega
    unfold bval sval; rw [h1, h2, h3]
    have : (z : ℚ) = -((z.natAbs : Nat) : ℚ) := by
      have : z = -((z.natAbs : Nat) : Int) := by omega
      rw [← Int.cast_natCast, ← Int.cast_neg, ← this]
    rw [this]; simp
  · refine ⟨z.natAbs, by omega, by unfold FinB; omega, ?_⟩
    have h1 : negB64 z.natAbs = false := by
      unfold negB64
      have : z.natAbs / 9223372036854775808 % 2 = 0 := by omega
      rw [this]; rfl
    have h2 : mantB z.natAbs = z.natAbs := by unfold mantB; split <;> omega
    have h3 : expB z.natAbs = -1074 := by unfold expB; split <;> omega
    unfold bval sval; rw [h1, h2, h3]
    have : (z : ℚ) = ((z.natAbs : Nat) : ℚ) := by
      have : z = ((z.natAbs : Nat) : Int) := by omega
      rw [← Int.cast_natCast, ← this]
    rw [this]; simp

/-- a rounded grid point (a sum or difference of two floats): the relative bound holds without exception -/
theorem Rnd_err_grid (v : ℚ) (b : Nat) (h : Rnd v b) (hf : FinB b) (z : Int) (hv : v = (z : ℚ) * pow2 (-1074)) :
    |bval b - v| ≤ pow2 (-53) * |v| := by
  rcases Rnd_err v b h hf with h1 | ⟨h1, _⟩
  · exact h1
  · have hp := pow2_pos (-1074)
    have hz : |z| < 4503599627370496 := by
      rw [hv, pow2_126, abs_mul, abs_of_pos hp] at h1
      have := lt_of_mul_lt_mul_right h1 hp.le
      have h2 : |(z : ℚ)| = ((|z| : Int) : ℚ) := by simp
      rw [h2] at this
      exact_mod_cast this
    obtain ⟨c, hc, fc, hcv⟩ := grid_repr z hz
    have := Rnd_repr v b c h hc fc (by rw [hcv, hv])
    rw [this, sub_self, abs_zero]
    exact mul_nonneg (pow2_pos _).le (abs_nonneg _)

/-! ## `F64` level -/

/-- unit roundoff of binary64 -/
def u : ℚ := 1 / 9007199254740992
/-- smallest positive normal number `2^-1022` -/
def minN : ℚ := pow2 (-1022)

theorem pow2_m24 : pow2 (-53) = u := by unfold pow2 u; norm_num
theorem pow2_m150 : pow2 (-1075) = u * minN := by
  rw [← pow2_m24]; unfold minN; rw [← pow2_add]; rfl
theorem minN_pos : 0 < minN := pow2_pos _
theorem u_pos : 0 < u := by unfold u; norm_num

theorem val_grid (a : F64) : ∃ z : Int, val a = (z : ℚ) * pow2 (-1074) := bval_grid a.nb

theorem add_err {a b : F64} (ha : Fin a) (hb : Fin b) (hr : |val a + val b| ≤ maxv) :
    Fin (a + b) ∧ |val (a + b) - (val a + val b)| ≤ u * |val a + val b| := by
  have h := add_nb ha hb
  have hf : Fin (a + b) := Rnd_fin _ _ h hr
  refine ⟨hf, ?_⟩
  obtain ⟨z1, h1⟩ := val_grid a
  obtain ⟨z2, h2⟩ := val_grid b
  rw [← pow2_m24]
  exact Rnd_err_grid _ _ h hf (z1 + z2) (by rw [h1, h2]; push_cast; ring)

theorem sub_err {a b : F64} (ha : Fin a) (hb : Fin b) (hr : |val a - val b| ≤ maxv) :
    Fin (a - b) ∧ |val (a - b) - (val a - val b)| ≤ u * |val a - val b| := by
  have h := sub_nb ha hb
  have hf : Fin (a - b) := Rnd_fin _ _ h hr
  refine ⟨hf, ?_⟩
  obtain ⟨z1, h1⟩ := val_grid a
  obtain ⟨z2, h2⟩ := val_grid b
  rw [← pow2_m24]
  exact Rnd_err_grid _ _ h hf (z1 - z2) (by rw [h1, h2]; push_cast; ring)

theorem mul_err {a b : F64} (ha : Fin a) (hb : Fin b) (hr : |val a * val b| ≤ maxv) :
    Fin (a * b) ∧ (|val (a * b) - val a * val b| ≤ u * |val a * val b| ∨
      (|val a * val b| < minN ∧ |val (a * b) - val a * val b| ≤ u * minN)) := by
  have h := mul_nb ha hb
  have hf : Fin (a * b) := Rnd_fin _ _ h hr
  refine ⟨hf, ?_⟩
  rw [← pow2_m150, ← pow2_m24]
  exact Rnd_err _ _ h hf

theorem div_err {a b : F64} (ha : Fin a) (hb : Fin b) (h0 : val b ≠ 0) (hr : |val a / val b| ≤ maxv) :
    Fin (a / b) ∧ (|val (a / b) - val a / val b| ≤ u * |val a / val b| ∨
      (|val a / val b| < minN ∧ |val (a / b) - val a / val b| ≤ u * minN)) := by
  have h := div_nb ha hb h0
  have hf : Fin (a / b) := Rnd_fin _ _ h hr
  refine ⟨hf, ?_⟩
  rw [← pow2_m150, ← pow2_m24]
  exact Rnd_err _ _ h hf


/-- finite (`FloatMono.Fin`; renamed because `Fin` is taken) -/
abbrev Fn (a : F64) : Prop := FloatMono.Fin a

theorem abs_val_le_maxv {a : F64} (ha : Fn a) : |val a| ≤ maxv := by
  have hk := kk_bound ha
  have f1 : FinB 9218868437227405311 := by decide
  have f2 : FinB 18442240474082181119 := by decide
  have e1 : key 9218868437227405311 = 9218868437227405311 := by decide
  have e2 : key 18442240474082181119 = -9218868437227405311 := by decide
  have h1 := (key_le_iff a.nb 9218868437227405311 (nb_lt a) (by norm_num) ha f1).1 (by rw [e1]; unfold kk at hk; omega)
  have h2 := (key_le_iff 18442240474082181119 a.nb (by norm_num) (nb_lt a) f2 ha).1 (by rw [e2]; unfold kk at hk; omega)
  rw [bval_max] at h1; rw [bval_negmax] at h2
  exact abs_le.2 ⟨h2, h1⟩

/-- **`Rnd_rel_err`** — the standard model in the normal range: if `b` is the correct rounding of `v` and
    `2^-1022 ≤ |v| < 2^1024 − 2^970` (the overflow threshold), then `b` is finite and `|val b − v| ≤ 2^-53·|v|` -/
theorem Rnd_rel_err (v : ℚ) (b : Nat) (h : Rnd v b) (hlo : pow2 (-1022) ≤ |v|) (hhi : |v| < ovf) :
    FinB b ∧ |bval b - v| ≤ pow2 (-53) * |v| := by
  have hf := Rnd_fin_ovf v b h hhi
  refine ⟨hf, ?_⟩
  rcases Rnd_err v b h hf with h1 | ⟨h1, _⟩
  · exact h1
  · exact absurd hlo (not_le.2 h1)

/-- **`Rnd_abs_err`** — below the normal range (gradual underflow): `|val b − v| ≤ 2^-1075 = 2^(emin−1)` -/
theorem Rnd_abs_err (v : ℚ) (b : Nat) (h : Rnd v b) (hlo : |v| < pow2 (-1022)) :
    FinB b ∧ |bval b - v| ≤ pow2 (-1075) := by
  have hmax : pow2 (-1022) ≤ maxv := by
    unfold maxv
    calc pow2 (-1022) ≤ pow2 971 := pow2_mono (by omega)
      _ ≤ 9007199254740991 * pow2 971 := by have := pow2_pos 971; linarith
  have hf := Rnd_fin v b h (le_trans hlo.le hmax)
  refine ⟨hf, ?_⟩
  rcases Rnd_err v b h hf with h1 | ⟨_, h1⟩
  · refine le_trans h1 ?_
    have : pow2 (-1075) = pow2 (-53) * pow2 (-1022) := by rw [← pow2_add]; rfl
    rw [this]
    exact mul_le_mul_of_nonneg_left hlo.le (pow2_pos _).le
  · exact h1

/-- both regimes at once -/
theorem Rnd_err_sum (v : ℚ) (b : Nat) (h : Rnd v b) (hf : FinB b) :
    |bval b - v| ≤ pow2 (-53) * |v| + pow2 (-1075) := by
  rcases Rnd_err v b h hf with h1 | ⟨_, h1⟩
  · have := pow2_pos (-1075); linarith
  · have := mul_nonneg (pow2_pos (-53)).le (abs_nonneg v); linarith

end Ivg.FloatErr64
