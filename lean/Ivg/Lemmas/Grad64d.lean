import Ivg.Lemmas.Grad64c
/-!
# C15 at float64: the statements about `Gradient.at` (re-exported by `Ivg/Props/C15.lean`)

`g.at x y = colorOf g (offsetAt g x y)` with `offsetAt g x y = clamp g.spread (rawOffset g x y)` (`Grad64b.at_eq`);
the theorems of `Grad64b`/`Grad64c` restated for a pixel `(x, y)` of a gradient built by `Gradient.init`.
-/
namespace Ivg.Grad64
open Ivg Num Grad FloatOrder FloatMono FloatRound FloatErr64
open Ivg.Spec.Grad (Spread frac tri spreadOffset)

theorem offsetAt_eq (g : Gradient F64) (x y : Int) :
    offsetAt g x y = clamp (α := F32) g.spread (rawOffset g x y) := rfl

/-- the raw offset: the pixel centre `(x + ½, y + ½)` through `pix2Grad`; its first coordinate (linear) or
    `math.Sqrt(gx*gx + gy*gy)` (radial), every operation a float64 operation -/
theorem rawOffset_eq (g : Gradient F64) (x y : Int) :
    rawOffset g x y =
      (let px : F64 := F64.ofInt x + ⟨0x3fe0000000000000⟩
       let py : F64 := F64.ofInt y + ⟨0x3fe0000000000000⟩
       let m := g.pix2Grad
       if g.shape = 0 then m.a * px + m.b * py + m.c
       else F64.sqrt ((m.a * px + m.b * py + m.c) * (m.a * px + m.b * py + m.c) +
                      (m.d * px + m.e * py + m.f) * (m.d * px + m.e * py + m.f))) := rfl

/-- inside `[0,1]` (float comparisons) `Clamp` returns its argument, bit for bit, for every spread code -/
theorem clamp_inside_f64 (spread : UInt8) (x : F64) (h0 : (zeroB : F64) ≤ x) (h1 : x ≤ (oneB : F64)) :
    clamp (α := F32) spread x = x := by
  rw [clamp_def, if_pos h0, if_pos h1]

theorem init_spread (shape spread : UInt8) (m : Aff3 F64) (stops : List (Stop F64)) :
    (Gradient.init shape spread m stops).1.spread = spread := rfl

/-! ## 1. at a stop -/

theorem at_stop_f64 (shape spread : UInt8) (m : Aff3 F64) (s0 s1 : Stop F64) (rest : List (Stop F64))
    (hok : StopsOK (s0 :: s1 :: rest)) (x y : Int) (k : Nat) (hk : k < (s0 :: s1 :: rest).length)
    (hx : Arith.feq (offsetAt (Gradient.init shape spread m (s0 :: s1 :: rest)).1 x y)
      (s0 :: s1 :: rest)[k].offset = true) :
    (Gradient.init shape spread m (s0 :: s1 :: rest)).1.at (α := F32) x y = (s0 :: s1 :: rest)[k].color := by
  rw [at_eq]
  exact colorOf_at_stop shape spread m s0 s1 rest hok _ _ (List.getElem_mem hk) hx

/-- … in terms of the RAW offset: a stop's offset lies in `[0,1]`, so the spread mode does not matter -/
theorem at_stop_raw_f64 (shape spread : UInt8) (m : Aff3 F64) (s0 s1 : Stop F64) (rest : List (Stop F64))
    (hok : StopsOK (s0 :: s1 :: rest)) (x y : Int) (k : Nat) (hk : k < (s0 :: s1 :: rest).length)
    (hx : Arith.feq (rawOffset (Gradient.init shape spread m (s0 :: s1 :: rest)).1 x y)
      (s0 :: s1 :: rest)[k].offset = true) :
    (Gradient.init shape spread m (s0 :: s1 :: rest)).1.at (α := F32) x y = (s0 :: s1 :: rest)[k].color := by
  apply at_stop_f64 shape spread m s0 s1 rest hok x y k hk
  have sok := (hok.1 _ (List.getElem_mem hk)).fin
  obtain ⟨fo, vo⟩ := feq_fin hx sok.1
  rw [offsetAt_eq, clamp_inside_f64]
  · exact hx
  · rw [le_iff_val zeroB_fin.1 fo, zeroB_fin.2, vo]; exact sok.2.1
  · rw [le_iff_val fo oneB_fin.1, oneB_fin.2, vo]; exact sok.2.2

/-! ## 2. a valid premultiplied colour at every pixel -/

theorem premul_valid_f64 (shape spread : UInt8) (m : Aff3 F64) (stops : List (Stop F64)) (hok : StopsOK stops)
    (hp : ∀ s ∈ stops, premul s.color) (x y : Int) :
    premul ((Gradient.init shape spread m stops).1.at (α := F32) x y) := by
  rw [at_eq]; exact colorOf_premul shape spread m stops hok hp _

theorem chanOK_zero : chanOK ⟨0, 0, 0, 0⟩ := by decide

theorem lerpChan_lt (s t : F64) (c0 c1 : Nat) : lerpChan (α := F32) s t c0 c1 < 65536 := by
  rw [lerpChan_eq]; omega

theorem colorOf_chanOK (shape spread : UInt8) (m : Aff3 F64) (stops : List (Stop F64))
    (hok : ∀ s ∈ stops, chanOK s.color) (o : F64) :
    chanOK (colorOf (Gradient.init shape spread m stops).1 o) := by
  match stops, hok with
  | [], _ => exact chanOK_zero
  | [_], _ => exact chanOK_zero
  | s0 :: s1 :: rest, hok =>
    rw [colorOf_init]
    split
    · exact chanOK_zero
    split
    · exact hok s0 (by simp)
    split
    · exact ⟨lerpChan_lt _ _ _ _, lerpChan_lt _ _ _ _, lerpChan_lt _ _ _ _, lerpChan_lt _ _ _ _⟩
    · exact hok _ (List.getLast_mem _)

theorem channel_range_f64 (shape spread : UInt8) (m : Aff3 F64) (stops : List (Stop F64))
    (hok : ∀ s ∈ stops, chanOK s.color) (x y : Int) :
    chanOK ((Gradient.init shape spread m stops).1.at (α := F32) x y) := by
  rw [at_eq]; exact colorOf_chanOK shape spread m stops hok _

/-! ## 3. end colours, and in between -/

theorem end_colours_f64 (shape spread : UInt8) (m : Aff3 F64) (s0 s1 : Stop F64) (rest : List (Stop F64))
    (hok : StopsOK (s0 :: s1 :: rest)) (x y : Int) :
    let g := (Gradient.init shape spread m (s0 :: s1 :: rest)).1
    ((zeroB : F64) ≤ offsetAt g x y → offsetAt g x y < s0.offset → g.at (α := F32) x y = s0.color) ∧
    (((s0 :: s1 :: rest).getLast (by simp)).offset < offsetAt g x y →
      g.at (α := F32) x y = ((s0 :: s1 :: rest).getLast (by simp)).color) := by
  intro g
  constructor
  · intro h0 h1
    rw [at_eq]; exact colorOf_before shape spread m s0 s1 rest _ h0 h1
  · intro h1
    rw [at_eq]; exact colorOf_after shape spread m s0 s1 rest hok _ h1

theorem at_inside_f64 (shape spread : UInt8) (m : Aff3 F64) (s0 s1 : Stop F64) (rest : List (Stop F64))
    (hok : StopsOK (s0 :: s1 :: rest)) (x y : Int)
    (h0 : s0.offset ≤ offsetAt (Gradient.init shape spread m (s0 :: s1 :: rest)).1 x y)
    (h1 : offsetAt (Gradient.init shape spread m (s0 :: s1 :: rest)).1 x y ≤
      ((s0 :: s1 :: rest).getLast (by simp)).offset) :
    let g := (Gradient.init shape spread m (s0 :: s1 :: rest)).1
    let o := offsetAt g x y
    ∃ a b, a ∈ s0 :: s1 :: rest ∧ b ∈ s0 :: s1 :: rest ∧ a.offset < b.offset ∧
      (∀ s ∈ s0 :: s1 :: rest, s = a ∨ s = b ∨ s.offset < a.offset ∨ b.offset < s.offset) ∧
      a.offset ≤ o ∧ o ≤ b.offset ∧
      (let t := (o - a.offset) / (b.offset - a.offset)
       let s := (oneB : F64) - t
       let c := g.at (α := F32) x y
       (Fn t ∧ 0 ≤ val t ∧ val t ≤ 1 ∧ Fn s ∧ 0 ≤ val s ∧ val s ≤ 1) ∧
       ((c.r : Int) = ⌊val (lerpF s t a.color.r b.color.r)⌋ ∧ val (lerpF s t a.color.r b.color.r) < 65536) ∧
       ((c.g : Int) = ⌊val (lerpF s t a.color.g b.color.g)⌋ ∧ val (lerpF s t a.color.g b.color.g) < 65536) ∧
       ((c.b : Int) = ⌊val (lerpF s t a.color.b b.color.b)⌋ ∧ val (lerpF s t a.color.b b.color.b) < 65536) ∧
       ((c.a : Int) = ⌊val (lerpF s t a.color.a b.color.a)⌋ ∧ val (lerpF s t a.color.a b.color.a) < 65536)) := by
  intro g o
  obtain ⟨a, b, ha, hb, hab, hmid, ho0, ho1, hc⟩ := colorOf_inside shape spread m s0 s1 rest hok o h0 h1
  refine ⟨a, b, ha, hb, hab, hmid, ho0, ho1, ?_⟩
  have := lerpColor_floor (hok.1 a ha) (hok.1 b hb) hab o ho0 ho1
  intro t s c
  have hcc : c = lerpColor (makeRange a b) o := by
    show g.at (α := F32) x y = _
    rw [at_eq]; exact hc
  rw [hcc]
  exact this

/-! ## 4. spread -/

/-- "no colour": if the clamped offset fails `offset >= 0` (the marker `-1`, or a NaN), `At` returns
    transparent black -/
theorem at_no_colour_f64 (g : Gradient F64) (x y : Int) (h : ¬ (zeroB : F64) ≤ offsetAt g x y) :
    g.at (α := F32) x y = ⟨0, 0, 0, 0⟩ := by
  rw [at_eq]; unfold colorOf
  cases g.ranges with
  | nil => rfl
  | cons r0 rs => simp only []; rw [if_pos h]

/-- … otherwise the offset the colour is computed from is finite and in `[0,1]`, for every pixel, matrix and
    spread code -/
theorem at_offset_range_f64 (g : Gradient F64) (x y : Int) (h : (zeroB : F64) ≤ offsetAt g x y) :
    Fn (offsetAt g x y) ∧ 0 ≤ val (offsetAt g x y) ∧ val (offsetAt g x y) ≤ 1 :=
  clamp_range g.spread _ h

/-- `none`, outside `[0,1]` (finite raw offset): transparent black -/
theorem at_none_outside_f64 (g : Gradient F64) (hs : g.spread ≠ 1 ∧ g.spread ≠ 2 ∧ g.spread ≠ 3) (x y : Int)
    (fx : Fn (rawOffset g x y)) (hout : ¬ (0 ≤ val (rawOffset g x y) ∧ val (rawOffset g x y) ≤ 1)) :
    g.at (α := F32) x y = ⟨0, 0, 0, 0⟩ := by
  apply at_no_colour_f64
  have := clamp_spec_f64 g.spread (rawOffset g x y) fx
  unfold spreadOffset Spread.ofCode at this
  rw [if_neg hout, if_neg hs.1, if_neg hs.2.1, if_neg hs.2.2] at this
  rw [offsetAt_eq, this]
  exact not_zero_le_marker

/-- `pad`: exactly `0`, `x` or `1` (any non-NaN `x`, infinities included) -/
theorem clamp_pad_f64 (x : F64) (hn : NN x) :
    clamp (α := F32) 1 x = if x < (zeroB : F64) then zeroB else if x ≤ (oneB : F64) then x else oneB := by
  rw [clamp_def]
  by_cases h0 : (zeroB : F64) ≤ x
  · have : ¬ x < (zeroB : F64) := by rw [le_def] at h0; rw [lt_def]; intro hc; omega
    rw [if_pos h0, if_neg this]
    split <;> simp
  · rw [if_neg h0, if_pos (not_le_of_NN (Fin_NN zeroB_fin.1) hn h0)]; simp

/-- `repeat` is EXACT for every finite `x > 1` (of any magnitude): `x − floor(x)` is representable -/
theorem clamp_repeat_exact_f64 (x : F64) (fx : Fn x) (h1 : 1 < val x) :
    Fn (clamp (α := F32) 3 x) ∧ val (clamp (α := F32) 3 x) = frac (val x) := by
  have h0 : (zeroB : F64) ≤ x := by rw [le_iff_val zeroB_fin.1 fx, zeroB_fin.2]; linarith
  have h1' : ¬ x ≤ (oneB : F64) := by rw [le_iff_val fx oneB_fin.1, oneB_fin.2]; linarith
  rw [clamp_def, if_pos h0, if_neg h1']
  simp only [show ¬ ((3 : UInt8) = 1) by decide, show ¬ ((3 : UInt8) = 2) by decide, if_false, if_true]
  exact ⟨(fracOf_facts x fx).2.1, (fracOf_facts x fx).2.2.2.2 (by linarith)⟩

/-- `repeat`/`reflect` of `±Inf` (or a NaN) is a NaN (`Inf − Inf`): no colour -/
theorem clamp_nonfinite_f64 (spread : UInt8) (hs : spread = 2 ∨ spread = 3) (x : F64) (hf : ¬ Fn x) :
    NaN (clamp (α := F32) spread x) := by
  have d1 : ¬ ((2 : UInt8) = 1) := by decide
  have d2 : ¬ ((3 : UInt8) = 1) := by decide
  have d3 : ¬ ((3 : UInt8) = 2) := by decide
  rw [clamp_def]
  by_cases h0 : (zeroB : F64) ≤ x
  · have h1 : ¬ x ≤ (oneB : F64) := fun h => hf (Fin_between zeroB_fin.1 oneB_fin.1 h0 h)
    rw [if_pos h0, if_neg h1]
    rcases hs with rfl | rfl
    · rw [if_neg d1, if_pos rfl]; exact reflectOf_nonfin x hf
    · rw [if_neg d2, if_neg d3, if_pos rfl]; exact fracOf_nonfin x hf
  · rw [if_neg h0]
    rcases hs with rfl | rfl
    · rw [if_neg d1, if_pos rfl]; exact reflectOf_nonfin (-x) (fun h => hf (neg_Fin.1 h))
    · rw [if_neg d2, if_neg d3, if_pos rfl]; exact fracOf_nonfin x hf

end Ivg.Grad64
