import Ivg.Lemmas.FloatMono
import Ivg.Lemmas.AtanRange
import Ivg.Model.Arc
/-!
# C06: an arc is emitted as at most four cubic segments

`arc_at_most_four_of_acos_range`: from a (very weak) range statement about the ported `acos`
(`AcosRange`: every result is a NaN or lies in `[-2π, 2π]`), the segment count
`n = ⌈|Δθ| / (π/2 + 0.001)⌉` computed by `arcF32` is at most 4, for every input, so at most four
segments are produced.  The argument: `Δθ` is `±ret` with `ret ∈ {π, 0, acos c}`, adjusted by `±2π`
only towards zero, hence `|Δθ| ≤ 2π` as floats (monotonicity of the float addition); dividing by the
positive constant is monotone, `2π / segAngle ≈ 3.9975 ≤ 4`; `ceil`/`int64` of a float in `[0, 4]` is
at most 4.  A NaN `Δθ` converts to `minInt64`.
-/
namespace Ivg.ArcCount
open Ivg Num Ren GoMath FloatOrder FloatMono

/-- the only fact about `math.Acos` that the segment count needs -/
def AcosRange : Prop :=
  ∀ c : F64, NaN (GoMath.acos c) ∨ (-twoPi ≤ GoMath.acos c ∧ GoMath.acos c ≤ twoPi)

/-- the sweep adjustment of AbsArcTo -/
def adjust (sw : Bool) (d0 : F64) : F64 :=
  if sw then (if d0 < Ren.f 0 then d0 + twoPi else d0)
  else (if Ren.f 0 < d0 then d0 - twoPi else d0)

/-- NaN, or within `[-2π, 2π]` -/
def Small (d : F64) : Prop := NaN d ∨ (-twoPi ≤ d ∧ d ≤ twoPi)

set_option maxRecDepth 100000 in
theorem consts :
    Fin twoPi ∧ Fin (-twoPi) ∧ Fin (Ren.f 0) ∧ -twoPi ≤ GoMath.pi ∧ GoMath.pi ≤ twoPi ∧
    -twoPi ≤ Ren.f 0 ∧ Ren.f 0 ≤ twoPi ∧ -(-twoPi) = twoPi ∧ -twoPi + twoPi = Ren.f 0 ∧
    Ren.f 0 + twoPi = twoPi ∧ Ren.f 0 - twoPi = -twoPi ∧ twoPi - twoPi = Ren.f 0 ∧
    Fin segAngle ∧ Ren.f 0 < segAngle ∧ Ren.f 0 / segAngle = Ren.f 0 ∧ twoPi / segAngle ≤ Ren.f 4 ∧
    Fin (Ren.f 4) ∧ (Ren.f 4).nb = 4616189618054758400 ∧ (Ren.f 0).nb = 0 := by
  decide +kernel

theorem small_neg {d : F64} (h : Small d) : Small (-d) := by
  obtain ⟨_, _, _, _, _, _, _, hnn, _⟩ := consts
  rcases h with h | ⟨h1, h2⟩
  · exact Or.inl (neg_nan h)
  · right
    refine ⟨neg_le_neg' h2, ?_⟩
    have := neg_le_neg' h1
    rwa [hnn] at this

theorem small_arcAngle (H : AcosRange) (ux uy vx vy : F64) : Small (arcAngle ux uy vx vy) := by
  obtain ⟨_, _, _, p1, p2, z1, z2, _⟩ := consts
  unfold arcAngle
  simp only []
  have hret : Small (if (ux * vx + uy * vy) / ((ux * ux + uy * uy).sqrt * (vx * vx + vy * vy).sqrt) ≤ Ren.f (-1)
      then GoMath.pi
      else if Ren.f 1 ≤ (ux * vx + uy * vy) / ((ux * ux + uy * uy).sqrt * (vx * vx + vy * vy).sqrt) then Ren.f 0
      else GoMath.acos ((ux * vx + uy * vy) / ((ux * ux + uy * uy).sqrt * (vx * vx + vy * vy).sqrt))) := by
    split
    · exact Or.inr ⟨p1, p2⟩
    · split
      · exact Or.inr ⟨z1, z2⟩
      · exact H _
  split
  · exact small_neg hret
  · exact hret

theorem small_adjust (sw : Bool) {d0 : F64} (h : Small d0) : Small (adjust sw d0) := by
  obtain ⟨ft, fnt, f0, _, _, z1, z2, _, e1, e2, e3, e4, _⟩ := consts
  unfold adjust
  rcases h with h | ⟨h1, h2⟩
  · -- NaN: both comparisons are false
    have n1 : ¬ d0 < Ren.f 0 := not_lt_nan_left h
    have n2 : ¬ Ren.f 0 < d0 := not_lt_nan_right h
    simp only [n1, n2, if_false]
    split <;> exact Or.inl h
  · have fd : Fin d0 := Fin_between fnt ft h1 h2
    cases sw
    · simp only [Bool.false_eq_true, if_false]
      split
      · rename_i hpos
        right
        have a := sub_mono f0 fd ft ft (lt_le' hpos) (le_refl' (Fin_NN ft))
        have b := sub_mono fd ft ft ft h2 (le_refl' (Fin_NN ft))
        rw [e3] at a
        rw [e4] at b
        exact ⟨a, le_trans' b z2⟩
      · exact Or.inr ⟨h1, h2⟩
    · simp only [if_true]
      split
      · rename_i hneg
        right
        have a := add_mono fnt fd ft ft h1 (le_refl' (Fin_NN ft))
        have b := add_mono fd f0 ft ft (lt_le' hneg) (le_refl' (Fin_NN ft))
        rw [e1] at a
        rw [e2] at b
        exact ⟨le_trans' z1 a, b⟩
      · exact Or.inr ⟨h1, h2⟩

/-! ## `ceil` and `int64` on `[0, 4]` -/

theorem val_f4 : val (Ren.f 4) = 4 := by
  obtain ⟨_, _, _, _, _, _, _, _, _, _, _, _, _, _, _, _, _, h4, _⟩ := consts
  unfold val; rw [h4]
  have h1 : negB64 4616189618054758400 = false := by decide
  have h2 : mantB 4616189618054758400 = 4503599627370496 := by decide
  have h3 : expB 4616189618054758400 = -50 := by decide
  unfold bval sval
  rw [h1, h2, h3]
  have : pow2 (-50) = 1 / 1125899906842624 := by
    unfold pow2; rw [zpow_neg]; norm_num
  rw [this]; norm_num

/-- `int64(ceil(-(-q)))` for the five possible integer parts -/
def ceilRes (q : Nat) : Int :=
  F64.toInt64 (F64.ofNatBits (Num.neg .f64 (roundPack .f64 true q 0)))

set_option maxRecDepth 100000 in
theorem ceilRes_le (q : Nat) (h : q ≤ 4) : ceilRes q ≤ 4 := by
  have : q = 0 ∨ q = 1 ∨ q = 2 ∨ q = 3 ∨ q = 4 := by omega
  rcases this with rfl | rfl | rfl | rfl | rfl <;> decide +kernel

theorem ceil_small (b : Nat) (hb : b < 9223372036854775808) (fb : FinB b) (hv : bval b ≤ 4) :
    ∃ q, q ≤ 4 ∧ Num.ceil .f64 b = Num.neg .f64 (roundPack .f64 true q 0) := by
  have hb64 : b < 18446744073709551616 := by omega
  obtain ⟨n1, n2, n3⟩ := neg_fields b hb64
  have hsg : negB64 b = false := by unfold negB64; simp; omega
  have hu : unpack .f64 (Num.neg .f64 b) = .fin true (mantB b) (expB b) := by
    rw [unpack_fin _ (neg_FinB b hb64 fb), n1, n2, n3, hsg]; rfl
  have hval : bval b = (mantB b : ℚ) * pow2 (expB b) := by
    unfold bval sval; rw [hsg]; simp
  rw [hval] at hv
  -- the exponent is negative
  have he : expB b < 0 := by
    by_contra hc
    have hc' : 0 ≤ expB b := by omega
    rcases mantB_norm b with hm | hm
    · have h1 : (1:ℚ) ≤ pow2 (expB b) := by
        have := pow2_split (expB b) 0 hc'
        rw [this, pow2_zero, mul_one]
        have : 1 ≤ 2 ^ (expB b - 0).toNat := Nat.one_le_two_pow
        exact_mod_cast this
      have h2 : (4503599627370496 : ℚ) ≤ mantB b := by exact_mod_cast hm
      nlinarith
    · omega
  obtain ⟨sh, hsh⟩ : ∃ sh : Nat, (-expB b).toNat = sh := ⟨_, rfl⟩
  have hpp : pow2 (expB b) * ((2 ^ sh : Nat) : ℚ) = 1 := by
    rw [← pow2_nat, ← pow2_add]
    have : expB b + (sh : Int) = 0 := by omega
    rw [this, pow2_zero]
  have hP : 0 < 2 ^ sh := Nat.two_pow_pos sh
  have hm4 : mantB b ≤ 4 * 2 ^ sh := by
    have hPq : (0:ℚ) < ((2 ^ sh : Nat) : ℚ) := by exact_mod_cast hP
    have : (mantB b : ℚ) ≤ 4 * ((2 ^ sh : Nat) : ℚ) := by
      calc (mantB b : ℚ) = (mantB b : ℚ) * (pow2 (expB b) * ((2 ^ sh : Nat) : ℚ)) := by rw [hpp, mul_one]
        _ = ((mantB b : ℚ) * pow2 (expB b)) * ((2 ^ sh : Nat) : ℚ) := by ring
        _ ≤ 4 * ((2 ^ sh : Nat) : ℚ) := mul_le_mul_of_nonneg_right hv (le_of_lt hPq)
    exact_mod_cast this
  refine ⟨if (true && mantB b % 2 ^ sh != 0) then mantB b / 2 ^ sh + 1 else mantB b / 2 ^ sh, ?_, ?_⟩
  · have hdm := Nat.div_add_mod (mantB b) (2 ^ sh)
    have hr := Nat.mod_lt (mantB b) hP
    by_cases h0 : mantB b % 2 ^ sh = 0
    · simp only [h0, bne_self_eq_false, Bool.and_false, Bool.false_eq_true, if_false]
      rw [h0] at hdm
      have : 2 ^ sh * (mantB b / 2 ^ sh) ≤ 2 ^ sh * 4 := by omega
      exact Nat.le_of_mul_le_mul_left this hP
    · have hne : (mantB b % 2 ^ sh != 0) = true := by simp [h0]
      simp only [hne, Bool.and_self, if_true]
      have : 2 ^ sh * (mantB b / 2 ^ sh) < 2 ^ sh * 4 := by omega
      have := Nat.lt_of_mul_lt_mul_left this
      omega
  · unfold Num.ceil Num.floor
    rw [hu]
    simp only []
    rw [if_neg (by omega), hsh]

theorem toInt64_ceil_le (x : F64) (h0 : Ren.f 0 ≤ x) (h4 : x ≤ Ren.f 4) : x.ceil.toInt64 ≤ 4 := by
  obtain ⟨_, _, f0, _, _, _, _, _, _, _, _, _, _, _, _, _, f4, _, hz⟩ := consts
  have fx : Fin x := Fin_between f0 f4 h0 h4
  have hv : val x ≤ 4 := by rw [← val_f4]; exact val_le_of_le fx f4 h4
  have hk : 0 ≤ kk x := by
    have := ((le_def _ _).1 h0).2.2
    unfold kk at this ⊢; rw [hz] at this
    simpa [key] using this
  have hlt := nb_lt x
  by_cases hs : x.nb < 9223372036854775808
  · obtain ⟨q, hq, hc⟩ := ceil_small x.nb hs fx hv
    have : x.ceil.toInt64 = ceilRes q := by
      unfold ceilRes F64.ceil; rw [hc]
    rw [this]; exact ceilRes_le q hq
  · -- negative zero
    have : x.nb = 9223372036854775808 := by
      unfold kk key at hk
      split at hk <;> omega
    have hx : x = ⟨0x8000000000000000⟩ := ext_nb (by rw [this]; decide)
    rw [hx]; decide +kernel

/-! ## NaN gives `minInt64` -/

theorem toInt64_ceil_nan (x : F64) (h : NaN x) : x.ceil.toInt64 = -(2:Int)^63 := by
  have hlt := nb_lt x
  have hx : ¬ NNB x.nb := h
  -- neg, floor (quiet), neg keep the NaN
  have h1 : ¬ NNB (Num.neg .f64 x.nb) ∧ Num.neg .f64 x.nb < 18446744073709551616 := by
    unfold NNB at *; unfold Num.neg; rw [signBit_f64]; split <;> omega
  have h2 := quiet_nan _ h1.2 h1.1
  have hfl : Num.floor .f64 (Num.neg .f64 x.nb) = quiet .f64 (Num.neg .f64 x.nb) := by
    unfold Num.floor; rw [unpack_nan _ h1.1]
  have h3 : ¬ NNB (Num.ceil .f64 x.nb) ∧ Num.ceil .f64 x.nb < 18446744073709551616 := by
    unfold Num.ceil; rw [hfl]
    generalize quiet .f64 (Num.neg .f64 x.nb) = y at *
    unfold NNB at *; unfold Num.neg; rw [signBit_f64]; split <;> omega
  unfold F64.toInt64 F64.ceil
  rw [nb_ofNatBits _ h3.2]
  unfold truncInt
  rw [unpack_nan _ h3.1]

/-! ## the count -/

theorem count_le (H : AcosRange) (sw : Bool) (ux uy vx vy : F64) :
    ((adjust sw (arcAngle ux uy vx vy)).abs / segAngle).ceil.toInt64 ≤ 4 := by
  obtain ⟨ft, fnt, f0, _, _, _, _, _, _, _, _, _, fs, spos, q0, q4, f4, _, hz⟩ := consts
  have hs := small_adjust sw (small_arcAngle H ux uy vx vy)
  generalize adjust sw (arcAngle ux uy vx vy) = d at *
  rcases hs with hn | ⟨h1, h2⟩
  · rw [toInt64_ceil_nan _ (div_nan (Or.inl (abs_nan hn)))]
    decide
  · -- 0 ≤ |d| ≤ 2π
    have hd1 := (le_def _ _).1 h1
    have hd2 := (le_def _ _).1 h2
    have hk0 : kk (Ren.f 0) = 0 := by unfold kk; rw [hz]; decide
    have ha0 : Ren.f 0 ≤ d.abs := by
      rw [le_def, kk_abs, hk0]
      exact ⟨Fin_NN f0, abs_NN.2 hd1.2.1, abs_nonneg _⟩
    have ha2 : d.abs ≤ twoPi := by
      rw [le_def, kk_abs]
      refine ⟨abs_NN.2 hd1.2.1, Fin_NN ft, ?_⟩
      have := hd1.2.2
      rw [kk_neg] at this
      exact abs_le.2 ⟨by omega, hd2.2.2⟩
    have fa : Fin d.abs := Fin_between f0 ft ha0 ha2
    have sp : 0 < val segAngle := by
      have := (lt_iff_val f0 fs).1 spos
      rwa [show val (Ren.f 0) = 0 from Ival.val_zero] at this
    have b1 := div_mono_num f0 fa fs sp ha0
    have b2 := div_mono_num fa ft fs sp ha2
    rw [q0] at b1
    exact toInt64_ceil_le _ b1 (le_trans' b2 q4)

theorem arcSegments_length_le (z : Renderer F32 F64) (cx cy t1 dt rx ry c s : F64) (n : Int) :
    ∀ (fuel : Nat) (i : Int), (arcSegments z cx cy t1 dt rx ry c s n fuel i).length ≤ (n - i).toNat := by
  intro fuel
  induction fuel with
  | zero => intro i; simp [arcSegments]
  | succ fuel ih =>
    intro i
    unfold arcSegments
    split
    · have := ih (i + 1)
      simp only [List.length_cons]
      omega
    · simp

/-- the fuel of the structural recursion does not matter once it covers the count -/
theorem arcSegments_fuel (z : Renderer F32 F64) (cx cy t1 dt rx ry c s : F64) (n : Int) :
    ∀ (fuel fuel' : Nat) (i : Int), (n - i).toNat ≤ fuel → (n - i).toNat ≤ fuel' →
      arcSegments z cx cy t1 dt rx ry c s n fuel i = arcSegments z cx cy t1 dt rx ry c s n fuel' i := by
  intro fuel
  induction fuel with
  | zero =>
    intro fuel' i h1 _
    cases fuel' with
    | zero => rfl
    | succ f =>
      unfold arcSegments
      rw [if_neg (by omega)]
  | succ fuel ih =>
    intro fuel' i h1 h2
    cases fuel' with
    | zero =>
      unfold arcSegments
      rw [if_neg (by omega)]
    | succ f =>
      unfold arcSegments
      split
      · rw [ih f (i + 1) (by omega) (by omega)]
      · rfl

/-- **At most four segments**, given the range of `acos`. -/
theorem arc_at_most_four_of_acos_range (H : AcosRange) (z : Renderer F32 F64) (rx ry rot : F32)
    (la sw : Bool) (x y : F32) : (arcF32 z rx ry rot la sw x y).length ≤ 4 := by
  by_cases h : (Ren.f 0 < (F64.ofF32 rx).abs ∧ Ren.f 0 < (F64.ofF32 ry).abs)
  · unfold arcF32
    simp only [h]
    refine le_trans (arcSegments_length_le _ _ _ _ _ _ _ _ _ _ 8 0) ?_
    have := count_le H sw
    unfold adjust at this
    simp only [Int.sub_zero]
    exact Int.toNat_le.2 (this _ _ _ _)
  · unfold arcF32
    simp only [h, not_false_eq_true, if_true, List.length_cons, List.length_nil]
    omega

/-! ## discharging the hypothesis -/

set_option maxRecDepth 100000 in
theorem A_within : -twoPi ≤ AtanRange.A.lo ∧ AtanRange.A.hi ≤ twoPi := by decide +kernel

/-- the ported `acos` never leaves `[-2π, 2π]` (in fact `[0, π]`, see `AtanRange.acos_range`) -/
theorem acosRange : AcosRange := by
  intro c
  rcases AtanRange.acos_range c with h | ⟨h1, h2⟩
  · exact Or.inl h
  · exact Or.inr ⟨le_trans' A_within.1 h1, le_trans' h2 A_within.2⟩

/-- the segment count computed by `AbsArcTo` is at most 4, whatever the (float64) vectors -/
theorem segment_count_le_four (sw : Bool) (ux uy vx vy : F64) :
    ((adjust sw (arcAngle ux uy vx vy)).abs / segAngle).ceil.toInt64 ≤ 4 :=
  count_le acosRange sw ux uy vx vy

/-- **the fuel 8 of the model's segment loop is never binding**: with the count that `AbsArcTo` computes, any
    fuel `≥ 4` yields the same segments, so the structurally recursive `arcSegments … 8 0` IS the unbounded Go
    loop `for i := 0; i < n; i++` -/
theorem arcSegments_fuel_irrelevant (z : Renderer F32 F64) (cx cy t1 rx ry c s : F64) (sw : Bool)
    (ux uy vx vy : F64) (fuel : Nat) (hf : 4 ≤ fuel) :
    arcSegments z cx cy t1 (adjust sw (arcAngle ux uy vx vy)) rx ry c s
        ((adjust sw (arcAngle ux uy vx vy)).abs / segAngle).ceil.toInt64 fuel 0 =
      arcSegments z cx cy t1 (adjust sw (arcAngle ux uy vx vy)) rx ry c s
        ((adjust sw (arcAngle ux uy vx vy)).abs / segAngle).ceil.toInt64 8 0 := by
  have h := segment_count_le_four sw ux uy vx vy
  apply arcSegments_fuel <;> omega

/-- **C06, segment count**: every elliptical arc is emitted as at most four segments — for ALL float32
    operands and renderer states, NaN and infinities included. -/
theorem arc_at_most_four (z : Renderer F32 F64) (rx ry rot : F32) (la sw : Bool) (x y : F32) :
    (arcF32 z rx ry rot la sw x y).length ≤ 4 :=
  arc_at_most_four_of_acos_range acosRange z rx ry rot la sw x y

end Ivg.ArcCount
