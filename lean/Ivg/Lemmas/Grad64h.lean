import Ivg.Lemmas.Grad64g
/-!
# The gradient paint at float64 against the specification's `sample`, at every pixel that gets a colour

`Ivg.Spec.Grad.sample ch stops x` is the specification's piece-wise linear interpolation of the channel `ch`
of a stop list (first colour before the first stop, last colour after the last).  `specStops64 stops` is the
float stop list seen by the specification: the VALUES of the float64 offsets, the colours unchanged.

* `sample_between`, `sample_before`, `sample_after` : `sample` on the three kinds of offsets (rational facts);
* `colorOf_sample` : for every float offset `o` that passes `At`'s test `offset >= 0`, every channel of the colour
  is `Near` the specification's value at `val o` (`ε = 7·u·65535 < 2^-34`);
* `at_sample_f64`  : the same about `Gradient.at` at a pixel.
-/
namespace Ivg.Grad64
open Ivg Num Grad Ren FloatOrder FloatMono FloatRound FloatErr64
open Ivg.Spec.Grad (lerp sample Col)

/-! ## the specification's `sample` -/

theorem sample_between (ch : Col → Nat) : ∀ (pre : List (ℚ × Col)) (A B : ℚ × Col) (post : List (ℚ × Col)) (x : ℚ),
    (pre ++ A :: B :: post).Pairwise (fun p q => p.1 < q.1) → A.1 ≤ x → x ≤ B.1 →
    sample ch (pre ++ A :: B :: post) x = lerp A.1 B.1 (ch A.2) (ch B.2) x
  | [], (o0, c0), (o1, c1), post, x, _, h0, h1 => by
    simp only [List.nil_append, sample]
    rw [if_neg (not_lt.2 h0), if_pos h1]
  | [(p, cp)], (o0, c0), (o1, c1), post, x, hp, h0, h1 => by
    have hpa : p < o0 := (List.pairwise_cons.1 hp).1 (o0, c0) (by simp)
    simp only [List.cons_append, List.nil_append, sample]
    rw [if_neg (not_lt.2 (by linarith : p ≤ x))]
    by_cases hx : x ≤ o0
    · have e : x = o0 := le_antisymm hx h0
      subst e
      rw [if_pos (le_refl _)]
      have hne : x - p ≠ 0 := by linarith
      unfold lerp
      rw [div_self hne, sub_self x, zero_div]
      ring
    · rw [if_neg hx, if_neg (not_lt.2 h0), if_pos h1]
  | (p, cp) :: (q, cq) :: pre, A, B, post, x, hp, h0, h1 => by
    have hp' := (List.pairwise_cons.1 hp)
    have hpq : p < q := hp'.1 (q, cq) (by simp)
    have hqa : q < A.1 := (List.pairwise_cons.1 hp'.2).1 A (by simp)
    simp only [List.cons_append, sample]
    rw [if_neg (not_lt.2 (by linarith : p ≤ x)), if_neg (not_le.2 (by linarith : q < x))]
    exact sample_between ch ((q, cq) :: pre) A B post x hp'.2 h0 h1

theorem sample_before (ch : Col → Nat) (A B : ℚ × Col) (post : List (ℚ × Col)) (x : ℚ) (h : x < A.1) :
    sample ch (A :: B :: post) x = (ch A.2 : ℚ) := by
  obtain ⟨o0, c0⟩ := A
  obtain ⟨o1, c1⟩ := B
  simp only [sample]
  rw [if_pos h]

theorem sample_after (ch : Col → Nat) : ∀ (l : List (ℚ × Col)) (hne : l ≠ []) (x : ℚ), (∀ p ∈ l, p.1 < x) →
    sample ch l x = (ch (l.getLast hne).2 : ℚ)
  | [], hne, _, _ => absurd rfl hne
  | [(_, c)], _, _, _ => by simp [sample]
  | (o0, c0) :: (o1, c1) :: rest, _, x, h => by
    have a0 : o0 < x := h (o0, c0) (by simp)
    have a1 : o1 < x := h (o1, c1) (by simp)
    rw [List.getLast_cons (by simp : (o1, c1) :: rest ≠ [])]
    simp only [sample]
    rw [if_neg (not_lt.2 a0.le), if_neg (not_le.2 a1)]
    exact sample_after ch ((o1, c1) :: rest) (by simp) x (fun p hp => h p (List.mem_cons_of_mem _ hp))

/-! ## the float stop list as the specification sees it -/

def toCol64 (c : RGBA64) : Col := ⟨c.r, c.g, c.b, c.a⟩

/-- the values of the float64 offsets, the colours unchanged -/
def specStops64 (stops : List (Stop F64)) : List (ℚ × Col) := stops.map (fun s => (val s.offset, toCol64 s.color))

theorem specStops64_pairwise {stops : List (Stop F64)} (hok : StopsOK stops) :
    (specStops64 stops).Pairwise (fun p q => p.1 < q.1) := by
  obtain ⟨hall, hinc⟩ := hok
  have hpw := increasing_pairwise _ hinc
  unfold specStops64
  rw [List.pairwise_map]
  refine List.Pairwise.imp_of_mem ?_ hpw
  intro a b ha hb hab
  exact (lt_iff_val (hall a ha).fin.1 (hall b hb).fin.1).1 hab

/-- a range of `appendRanges stops` is `MakeRange a b` of two ADJACENT stops -/
theorem mem_appendRanges_split : ∀ (stops : List (Stop F64)) (r : Range F64), r ∈ appendRanges stops →
    ∃ pre a b post, stops = pre ++ a :: b :: post ∧ r = makeRange a b
  | [], r, hr => by simp [appendRanges] at hr
  | [_], r, hr => by simp [appendRanges] at hr
  | s0 :: s1 :: rest, r, hr => by
    simp only [appendRanges, List.mem_cons] at hr
    rcases hr with rfl | hr
    · exact ⟨[], s0, s1, rest, rfl, rfl⟩
    · obtain ⟨pre, a, b, post, e, rfl⟩ := mem_appendRanges_split (s1 :: rest) r hr
      exact ⟨s0 :: pre, a, b, post, by rw [e]; rfl, rfl⟩

/-- four channels `Near` the specification's four channel values -/
def ColNear (c : RGBA64) (S : (Col → Nat) → ℚ) (ε : ℚ) : Prop :=
  Near c.r (S (·.r)) ε ∧ Near c.g (S (·.g)) ε ∧ Near c.b (S (·.b)) ε ∧ Near c.a (S (·.a)) ε

theorem Near_int (c : Nat) (ε : ℚ) : Near c (c : ℚ) ε := Or.inl (Int.floor_natCast c).symm

/-- **every offset that gets a colour**: if the finite `o` passes `At`'s test `offset >= 0`, every channel of
    `colorOf g o` is `Near` the specification's piece-wise linear interpolation of the stops at the value of
    `o`: equal to its integer part, or off by one with the exact value within `7·u·65535 < 2^-34` of the integer
    crossed. -/
theorem colorOf_sample (shape spread : UInt8) (m : Aff3 F64) (s0 s1 : Stop F64) (rest : List (Stop F64))
    (hok : StopsOK (s0 :: s1 :: rest)) (o : F64) (hz : (zeroB : F64) ≤ o) (fo : Fn o) :
    ColNear (colorOf (Gradient.init shape spread m (s0 :: s1 :: rest)).1 o)
      (fun ch => sample ch (specStops64 (s0 :: s1 :: rest)) (val o)) (7 * u * 65535) := by
  have hall := hok.1
  have hpw := increasing_pairwise _ hok.2
  have hsp := specStops64_pairwise hok
  have s0ok := (hall s0 (by simp)).fin
  by_cases hlt : o < s0.offset
  · -- before the first stop
    rw [colorOf_before shape spread m s0 s1 rest o hz hlt]
    have hv := (lt_iff_val fo s0ok.1).1 hlt
    have e : ∀ ch : Col → Nat, sample ch (specStops64 (s0 :: s1 :: rest)) (val o) = (ch (toCol64 s0.color) : ℚ) := by
      intro ch
      exact sample_before ch (val s0.offset, toCol64 s0.color) (val s1.offset, toCol64 s1.color) _ _ hv
    unfold ColNear
    simp only [e]
    exact ⟨Near_int _ _, Near_int _ _, Near_int _ _, Near_int _ _⟩
  · have h0 : s0.offset ≤ o := not_lt_of_NN (Fin_NN fo) (Fin_NN s0ok.1) hlt
    by_cases h1 : o ≤ ((s0 :: s1 :: rest).getLast (by simp)).offset
    · -- inside
      obtain ⟨r, hfr⟩ := findRange_exists o _ (ranges_cover (s0 :: s1 :: rest) (by simp) hall o h0 h1 (by simp))
      obtain ⟨hr, ho0, ho1⟩ := findRange_some o _ r hfr
      obtain ⟨pre, a, b, post, hsplit, rfl⟩ := mem_appendRanges_split _ r hr
      have ha : a ∈ s0 :: s1 :: rest := by rw [hsplit]; simp
      have hb : b ∈ s0 :: s1 :: rest := by rw [hsplit]; simp
      have hab : a.offset < b.offset := by
        rw [hsplit] at hpw
        exact (List.pairwise_cons.1 (List.pairwise_append.1 hpw).2.1).1 b (by simp)
      have aok := hall a ha
      have bok := hall b hb
      have rok := RangeOK_make aok bok hab
      have hc : colorOf (Gradient.init shape spread m (s0 :: s1 :: rest)).1 o = lerpColor (makeRange a b) o := by
        rw [colorOf_init, if_neg (not_not.2 hz), if_neg hlt, hfr]
      rw [hc]
      have va := val_le_of_le aok.fin.1 fo ho0
      have vb := val_le_of_le fo bok.fin.1 ho1
      have e : ∀ ch : Col → Nat, sample ch (specStops64 (s0 :: s1 :: rest)) (val o) =
          Cex (makeRange a b) o (ch (toCol64 a.color)) (ch (toCol64 b.color)) := by
        intro ch
        rw [Cex_make]
        have hs : specStops64 (s0 :: s1 :: rest) = specStops64 pre ++ (val a.offset, toCol64 a.color) ::
            (val b.offset, toCol64 b.color) :: specStops64 post := by
          rw [hsplit]; simp [specStops64]
        rw [hs] at hsp ⊢
        exact sample_between ch _ _ _ _ _ hsp va vb
      obtain ⟨car, cag, cab, caa⟩ := aok.2.2
      obtain ⟨cbr, cbg, cbb, cba⟩ := bok.2.2
      unfold ColNear
      simp only [e]
      rw [lerpColor_make]
      exact ⟨(channel_err rok o ho0 ho1 _ _ car cbr).mono (epsChan_le _ _ car cbr),
        (channel_err rok o ho0 ho1 _ _ cag cbg).mono (epsChan_le _ _ cag cbg),
        (channel_err rok o ho0 ho1 _ _ cab cbb).mono (epsChan_le _ _ cab cbb),
        (channel_err rok o ho0 ho1 _ _ caa cba).mono (epsChan_le _ _ caa cba)⟩
    · -- after the last stop
      have hge := getLast_ge (s0 :: s1 :: rest) (by simp) hpw
      have hLm : (s0 :: s1 :: rest).getLast (by simp) ∈ s0 :: s1 :: rest := List.getLast_mem _
      have Lok := (hall _ hLm).fin
      have hgt : ((s0 :: s1 :: rest).getLast (by simp)).offset < o := not_le_of_NN (Fin_NN fo) (Fin_NN Lok.1) h1
      rw [colorOf_after shape spread m s0 s1 rest hok o hgt]
      have hv := (lt_iff_val Lok.1 fo).1 hgt
      have hne : specStops64 (s0 :: s1 :: rest) ≠ [] := by simp [specStops64]
      have hbelow : ∀ p ∈ specStops64 (s0 :: s1 :: rest), p.1 < val o := by
        intro p hp
        unfold specStops64 at hp
        obtain ⟨s, hs, rfl⟩ := List.mem_map.1 hp
        rcases hge s hs with rfl | h
        · exact hv
        · exact lt_trans ((lt_iff_val (hall s hs).fin.1 Lok.1).1 h) hv
      have hl : (specStops64 (s0 :: s1 :: rest)).getLast hne =
          (val ((s0 :: s1 :: rest).getLast (by simp)).offset, toCol64 ((s0 :: s1 :: rest).getLast (by simp)).color) := by
        exact List.getLast_map (f := fun s : Stop F64 => (val s.offset, toCol64 s.color)) (l := s0 :: s1 :: rest) hne
      have e : ∀ ch : Col → Nat, sample ch (specStops64 (s0 :: s1 :: rest)) (val o) =
          (ch (toCol64 ((s0 :: s1 :: rest).getLast (by simp)).color) : ℚ) := by
        intro ch
        rw [sample_after ch _ hne _ hbelow, hl]
      unfold ColNear
      simp only [e]
      exact ⟨Near_int _ _, Near_int _ _, Near_int _ _, Near_int _ _⟩

/-- **every pixel that gets a colour** (`offset >= 0` after `Clamp`; the offset is then finite and in `[0,1]`,
    `Grad64.clamp_range`): every channel of `At` is `Near` the specification's `sample` at the value of the
    clamped offset.  Together with `at_no_colour_f64` (the other pixels are transparent black) and
    `clamp_spec_f64` (the clamped offset is ONE correct rounding of the specification's spread function of the
    raw offset) this is the whole property at float64 in terms of the RAW offset the float code computes. -/
theorem at_sample_f64 (shape spread : UInt8) (m : Aff3 F64) (s0 s1 : Stop F64) (rest : List (Stop F64))
    (hok : StopsOK (s0 :: s1 :: rest)) (x y : Int)
    (hz : (zeroB : F64) ≤ offsetAt (Gradient.init shape spread m (s0 :: s1 :: rest)).1 x y) :
    ColNear ((Gradient.init shape spread m (s0 :: s1 :: rest)).1.at (α := F32) x y)
      (fun ch => sample ch (specStops64 (s0 :: s1 :: rest))
        (val (offsetAt (Gradient.init shape spread m (s0 :: s1 :: rest)).1 x y))) (7 * u * 65535) := by
  rw [at_eq]
  exact colorOf_sample shape spread m s0 s1 rest hok _ hz (clamp_range _ _ hz).1

/-- … for every gradient the float renderer paints with -/
theorem renderer_gradient_sample_f64 (z : Renderer F32 F64) (rgba : RGBA) (g : Gradient F64)
    (h : z.initGradient rgba = some g) :
    ∃ stops : List (Stop F64),
      stops.length = (decodeGradient rgba).nStops.toNat ∧ StopsOK stops ∧
      (∀ k (hk : k < stops.length), stops[k] =
        ⟨F64.ofF32 (z.nReg.get6 ((decodeGradient rgba).nBase + (0 + UInt8.ofNat k))),
         rgba64Of (z.cReg.get6 ((decodeGradient rgba).cBase + (0 + UInt8.ofNat k)))⟩) ∧
      ∀ x y : Int, (zeroB : F64) ≤ offsetAt g x y →
        ColNear (g.at (α := F32) x y) (fun ch => sample ch (specStops64 stops) (val (offsetAt g x y)))
          (7 * u * 65535) := by
  obtain ⟨s0, s1, rest, rfl, hlen, hok, _, hget⟩ := initGradient_ok z rgba g h
  exact ⟨s0 :: s1 :: rest, hlen, hok, hget, fun x y hz => at_sample_f64 _ _ _ s0 s1 rest hok x y hz⟩

end Ivg.Grad64
