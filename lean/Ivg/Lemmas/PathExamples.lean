import Ivg.Spec.PathData
/-!
# C20 — concrete paths used as examples (non-vacuity) in `Ivg/Props/C20.lean`
-/
namespace Ivg.PathExamples
open Ivg Spec.PathData

/-- decidable equality of results, for kernel evaluations of the model on concrete strings -/
@[instance_reducible] def exceptDecEq {ε β : Type} [DecidableEq ε] [DecidableEq β] : DecidableEq (Except ε β) := fun a b =>
  match a, b with
  | .ok x, .ok y => if h : x = y then isTrue (h ▸ rfl) else isFalse (fun h' => by cases h'; exact h rfl)
  | .error x, .error y => if h : x = y then isTrue (h ▸ rfl) else isFalse (fun h' => by cases h'; exact h rfl)
  | .ok _, .error _ => isFalse (fun h => by cases h)
  | .error _, .ok _ => isFalse (fun h => by cases h)

/-- digits of a natural number -/
def digs (n : Nat) : List (Fin 10) := (Nat.toDigits 10 n).map fun c => Fin.ofNat 10 (c.toNat - 48)

/-- unsigned integer numeral followed by `sep` -/
def nat (n : Nat) (sep : String := " ") : CTok := ⟨⟨.none, digs n, none⟩, sep.toList⟩
/-- general numeral -/
def num (sign : Sign) (int : List (Fin 10)) (frac : Option (List (Fin 10))) (sep : String := " ") : CTok :=
  ⟨⟨sign, int, frac⟩, sep.toList⟩

/-- `m1,2-3.5.5a1 2 90 0 1 -.5+4 5. 6 7 8 9 10 11zM1 2 3 4H5z`: a relative move as first command with an
    implicit second group, commas, numerals delimiting themselves (`2-3.5`, `3.5.5`, `-.5+4`), a leading
    `.5`, a trailing `5.`, an arc with an implicitly repeated second group, a `z` in the middle followed by
    a move with two groups, a single-operand verb -/
def exA : List (Cmd CTok) :=
  [⟨'m', [[nat 1 ",", nat 2 ""], [num .minus [3] (some [5]) "", num .none [] (some [5]) ""]]⟩,
   ⟨'a', [[nat 1, nat 2, nat 90, nat 0, nat 1, num .minus [] (some [5]) "", num .plus [4] none " "],
          [num .none [5] (some []) " ", nat 6, nat 7, nat 8, nat 9, nat 10, nat 11 ""]]⟩,
   ⟨'z', []⟩,
   ⟨'M', [[nat 1, nat 2], [nat 3, nat 4 ""]]⟩,
   ⟨'H', [[nat 5 ""]]⟩]

def exAString : String := "m1,2-3.5.5a1 2 90 0 1 -.5+4 5. 6 7 8 9 10 11zM1 2 3 4H5z"

/-- canonical syntax: `M1 2 3 4 5 6 C1 2 3 4 5 6 7 8 9 10 11 12 z` -/
def exB : List (Cmd Tok) :=
  [⟨'M', [[(nat 1).tok, (nat 2).tok], [(nat 3).tok, (nat 4).tok], [(nat 5).tok, (nat 6).tok]]⟩,
   ⟨'C', [[(nat 1).tok, (nat 2).tok, (nat 3).tok, (nat 4).tok, (nat 5).tok, (nat 6).tok],
          [(nat 7).tok, (nat 8).tok, (nat 9).tok, (nat 10).tok, (nat 11).tok, (nat 12).tok]]⟩]

def exBString : String := "M1 2 3 4 5 6 C1 2 3 4 5 6 7 8 9 10 11 12 z"

/-- converter: `M 25 26l1-2-3-4 H30z M31 32 zz` … -/
def exM : List MdCmd :=
  [⟨⟨'M', [[nat 25, nat 26 ""]]⟩, 1⟩,
   ⟨⟨'l', [[nat 1 "", num .minus [2] none ""], [num .minus [3] none "", num .minus [4] none "  "]]⟩, 0⟩,
   ⟨⟨'H', [[nat 30 ""]]⟩, 0⟩,
   ⟨⟨'z', []⟩, 1⟩,
   ⟨⟨'M', [[nat 31, nat 32]]⟩, 0⟩,
   ⟨⟨'z', []⟩, 0⟩]

def exMString : String := "M 25 26l1-2-3-4  H30z M31 32 zz"

end Ivg.PathExamples
