import Ivg.Lemmas.Geom32
import Ivg.Lemmas.RendererVM
import Ivg.Spec.Path
/-!
# C05 at `F32`, continued: the Renderer model

The one-axis bounds of `Geom32.lean` stated of `Renderer.recalcTransform`, `absX/absY`, `relVecX/relVecY`,
`implicitSmoothPoint`, and the path-level consequence for absolute-only paths (`path_abs_err`): every
coordinate handed to the rasteriser is `Near` the exact affine image of the coordinate the specification
(`Spec.Path.pathSegs`, SVG path semantics in viewBox space over `ℚ`) prescribes.
-/
set_option linter.constructorNameAsVariable false
namespace Ivg.Geom32
open Ivg Num Ren FloatOrder32 FloatMono32 FloatErr
open Ivg.Spec.Path (Pt Seg Ctrl State)

/-- the x axis of a renderer: viewBox `minX`, `maxX`, width of the target rectangle -/
def axX (z : Renderer F32 F64) : Axis := ⟨z.viewBox.minX, z.viewBox.maxX, z.r.dx⟩
/-- the y axis -/
def axY (z : Renderer F32 F64) : Axis := ⟨z.viewBox.minY, z.viewBox.maxY, z.r.dy⟩

/-- the transform fields of `z` are the ones `recalcTransform` computes for the axes `ax`, `ay` -/
def Tr (z : Renderer F32 F64) (ax ay : Axis) : Prop :=
  z.scaleX = ax.scale ∧ z.biasX = ax.bias ∧ z.scaleY = ay.scale ∧ z.biasY = ay.bias

theorem tr_recalc (z : Renderer F32 F64) : Tr z.recalcTransform (axX z) (axY z) := ⟨rfl, rfl, rfl, rfl⟩

theorem absX_eq {z : Renderer F32 F64} {ax ay : Axis} (ht : Tr z ax ay) (x : F32) : z.absX x = ax.abs x := by
  unfold Renderer.absX Axis.abs; rw [ht.1, ht.2.1]
theorem absY_eq {z : Renderer F32 F64} {ax ay : Axis} (ht : Tr z ax ay) (y : F32) : z.absY y = ay.abs y := by
  unfold Renderer.absY Axis.abs; rw [ht.2.2.1, ht.2.2.2]
theorem relVecX_eq {z : Renderer F32 F64} {ax ay : Axis} (ht : Tr z ax ay) (x : F32) :
    z.relVecX x = ax.relVec z.penX x := by
  unfold Renderer.relVecX Renderer.relX Axis.relVec Axis.rel; rw [ht.1]
theorem relVecY_eq {z : Renderer F32 F64} {ax ay : Axis} (ht : Tr z ax ay) (y : F32) :
    z.relVecY y = ay.relVec z.penY y := by
  unfold Renderer.relVecY Renderer.relY Axis.relVec Axis.rel; rw [ht.2.2.1]

theorem smoothPoint_eq (z : Renderer F32 F64) (t : Nat) :
    z.implicitSmoothPoint t =
      if z.prevSmoothType ≠ t then (z.penX, z.penY)
      else (Axis.smooth z.penX z.prevSmoothX, Axis.smooth z.penY z.prevSmoothY) := rfl

/-! ## 1. `recalcTransform` -/

/-- **`scale_err`** for any renderer whose transform fields are those of the axes `ax`, `ay` (every state
    reached after a `SetRasterizer` or `Reset`): both scales are finite and within relative
    `g2 = 2u/(1−u) ≤ 2u + 3u²` of the exact scales, and the biases are exactly minus the viewBox minima -/
theorem tr_err {z : Renderer F32 F64} {ax ay : Axis} (ht : Tr z ax ay) (hx : ax.InRange) (hy : ay.InRange) :
    (Fn z.scaleX ∧ |val z.scaleX - ax.s| ≤ g2 * |ax.s|) ∧
    (Fn z.scaleY ∧ |val z.scaleY - ay.s| ≤ g2 * |ay.s|) ∧
    (Fn z.biasX ∧ val z.biasX = - val ax.lo) ∧ (Fn z.biasY ∧ val z.biasY = - val ay.lo) := by
  rw [ht.1, ht.2.1, ht.2.2.1, ht.2.2.2]
  exact ⟨Axis.scale_err hx, Axis.scale_err hy, Axis.bias_exact hx, Axis.bias_exact hy⟩

/-- … spelled out for `recalcTransform` itself -/
theorem recalc_err (z : Renderer F32 F64) (hx : (axX z).InRange) (hy : (axY z).InRange) :
    (Fn z.recalcTransform.scaleX ∧
      |val z.recalcTransform.scaleX - (z.r.dx : ℚ) / (val z.viewBox.maxX - val z.viewBox.minX)| ≤
        g2 * |(z.r.dx : ℚ) / (val z.viewBox.maxX - val z.viewBox.minX)|) ∧
    (Fn z.recalcTransform.scaleY ∧
      |val z.recalcTransform.scaleY - (z.r.dy : ℚ) / (val z.viewBox.maxY - val z.viewBox.minY)| ≤
        g2 * |(z.r.dy : ℚ) / (val z.viewBox.maxY - val z.viewBox.minY)|) ∧
    (Fn z.recalcTransform.biasX ∧ val z.recalcTransform.biasX = - val z.viewBox.minX) ∧
    (Fn z.recalcTransform.biasY ∧ val z.recalcTransform.biasY = - val z.viewBox.minY) := by
  have e1 : z.recalcTransform.scaleX = (axX z).scale := rfl
  have e2 : z.recalcTransform.scaleY = (axY z).scale := rfl
  have e3 : z.recalcTransform.biasX = (axX z).bias := rfl
  have e4 : z.recalcTransform.biasY = (axY z).bias := rfl
  have s1 : (z.r.dx : ℚ) / (val z.viewBox.maxX - val z.viewBox.minX) = (axX z).s := rfl
  have s2 : (z.r.dy : ℚ) / (val z.viewBox.maxY - val z.viewBox.minY) = (axY z).s := rfl
  rw [e1, e2, e3, e4, s1, s2]
  exact ⟨Axis.scale_err hx, Axis.scale_err hy, Axis.bias_exact hx, Axis.bias_exact hy⟩

/-! ## 2.–4. `absX`, `relVecX`, `implicitSmoothPoint` -/

/-- **`absX_err`** on the model -/
theorem absX_err {z : Renderer F32 F64} {ax ay : Axis} (ht : Tr z ax ay) (h : ax.InRange) {x : F32}
    (hx : ax.CoordOK x) :
    Fn (z.absX x) ∧ |val (z.absX x) - ax.map (val x)| ≤ g4 * |ax.map (val x)| + u * minN := by
  rw [absX_eq ht]; exact Axis.abs_err h hx

theorem absY_err {z : Renderer F32 F64} {ax ay : Axis} (ht : Tr z ax ay) (h : ay.InRange) {y : F32}
    (hy : ay.CoordOK y) :
    Fn (z.absY y) ∧ |val (z.absY y) - ay.map (val y)| ≤ g4 * |ay.map (val y)| + u * minN := by
  rw [absY_eq ht]; exact Axis.abs_err h hy

/-- … in the form `C·u·|s|·(|x| + |minX|)`, `C = 5` -/
theorem absX_err_mag {z : Renderer F32 F64} {ax ay : Axis} (ht : Tr z ax ay) (h : ax.InRange) {x : F32}
    (hx : ax.CoordOK x) (hn : minN ≤ |ax.s| * (|val x| + |val ax.lo|)) :
    |val (z.absX x) - ax.s * (val x - val ax.lo)| ≤ 5 * u * (|ax.s| * (|val x| + |val ax.lo|)) := by
  rw [absX_eq ht]; exact Axis.abs_err_mag h hx hn

theorem absY_err_mag {z : Renderer F32 F64} {ax ay : Axis} (ht : Tr z ax ay) (h : ay.InRange) {y : F32}
    (hy : ay.CoordOK y) (hn : minN ≤ |ay.s| * (|val y| + |val ay.lo|)) :
    |val (z.absY y) - ay.s * (val y - val ay.lo)| ≤ 5 * u * (|ay.s| * (|val y| + |val ay.lo|)) := by
  rw [absY_eq ht]; exact Axis.abs_err_mag h hy hn

/-- **`relVec_err`** on the model -/
theorem relVecX_err {z : Renderer F32 F64} {ax ay : Axis} (ht : Tr z ax ay) (h : ax.InRange) {x : F32}
    (hx : ax.OffOK z.penX x) :
    Fn (z.relVecX x) ∧
    |val (z.relVecX x) - (val z.penX + ax.s * val x)| ≤ u * |val z.penX| + g4 * |ax.s * val x| + 2 * u * minN := by
  rw [relVecX_eq ht]; exact Axis.relVec_err h hx

theorem relVecY_err {z : Renderer F32 F64} {ax ay : Axis} (ht : Tr z ax ay) (h : ay.InRange) {y : F32}
    (hy : ay.OffOK z.penY y) :
    Fn (z.relVecY y) ∧
    |val (z.relVecY y) - (val z.penY + ay.s * val y)| ≤ u * |val z.penY| + g4 * |ay.s * val y| + 2 * u * minN := by
  rw [relVecY_eq ht]; exact Axis.relVec_err h hy

theorem relVecX_err_mag {z : Renderer F32 F64} {ax ay : Axis} (ht : Tr z ax ay) (h : ax.InRange) {x : F32}
    (hx : ax.OffOK z.penX x) (hn : minN ≤ |val z.penX| + |ax.s| * |val x|) :
    |val (z.relVecX x) - (val z.penX + ax.s * val x)| ≤ 5 * u * (|val z.penX| + |ax.s| * |val x|) := by
  rw [relVecX_eq ht]; exact Axis.relVec_err_mag h hx hn

theorem relVecY_err_mag {z : Renderer F32 F64} {ax ay : Axis} (ht : Tr z ax ay) (h : ay.InRange) {y : F32}
    (hy : ay.OffOK z.penY y) (hn : minN ≤ |val z.penY| + |ay.s| * |val y|) :
    |val (z.relVecY y) - (val z.penY + ay.s * val y)| ≤ 5 * u * (|val z.penY| + |ay.s| * |val y|) := by
  rw [relVecY_eq ht]; exact Axis.relVec_err_mag h hy hn

/-- **`smooth_err`** on the model: when the previous operation was of the same degree `t`, the implicit
    control point is the reflection `2·pen − prev` of the float points with one rounding per coordinate;
    otherwise it is the pen, bit for bit -/
theorem smoothPoint_err (z : Renderer F32 F64) (t : Nat)
    (fpx : Fn z.penX) (fpy : Fn z.penY) (fqx : Fn z.prevSmoothX) (fqy : Fn z.prevSmoothY)
    (h2x : |2 * val z.penX| ≤ maxv) (h2y : |2 * val z.penY| ≤ maxv)
    (hrx : |2 * val z.penX - val z.prevSmoothX| ≤ maxv) (hry : |2 * val z.penY - val z.prevSmoothY| ≤ maxv) :
    (z.prevSmoothType ≠ t → z.implicitSmoothPoint t = (z.penX, z.penY)) ∧
    (z.prevSmoothType = t →
      (Fn (z.implicitSmoothPoint t).1 ∧
        |val (z.implicitSmoothPoint t).1 - (2 * val z.penX - val z.prevSmoothX)| ≤
          u * |2 * val z.penX - val z.prevSmoothX|) ∧
      (Fn (z.implicitSmoothPoint t).2 ∧
        |val (z.implicitSmoothPoint t).2 - (2 * val z.penY - val z.prevSmoothY)| ≤
          u * |2 * val z.penY - val z.prevSmoothY|)) := by
  rw [smoothPoint_eq]
  constructor
  · intro h; rw [if_pos h]
  · intro h; rw [if_neg (not_not.2 h)]
    exact ⟨Axis.smooth_err fpx fqx h2x hrx, Axis.smooth_err fpy fqy h2y hry⟩

/-! ## 5. a whole absolute-only path -/

/-- the float `v` handed to the rasteriser is the exact image `s·(x − lo)` of the viewBox coordinate `x` up
    to relative `g4 ≤ 4u + 8u²` (plus `2^-150` for an underflowing product) -/
def Near (a : Axis) (v : F32) (x : ℚ) : Prop := Fn v ∧ |val v - a.map x| ≤ g4 * |a.map x| + u * minN

theorem near_absX {z : Renderer F32 F64} {ax ay : Axis} (ht : Tr z ax ay) (h : ax.InRange) {x : F32}
    (hx : ax.CoordOK x) : Near ax (z.absX x) (val x) := absX_err ht h hx
theorem near_absY {z : Renderer F32 F64} {ax ay : Axis} (ht : Tr z ax ay) (h : ay.InRange) {y : F32}
    (hy : ay.CoordOK y) : Near ay (z.absY y) (val y) := absY_err ht h hy

def vbQ (v : ViewBox F32) : ViewBox ℚ := ⟨val v.minX, val v.minY, val v.maxX, val v.maxY⟩

/-- the call with its float operands read as rationals -/
def callQ : Call F32 → Call ℚ
  | .reset vb pal => .reset (vbQ vb) pal
  | .setCSel v => .setCSel v
  | .setNSel v => .setNSel v
  | .setCReg adj incr c => .setCReg adj incr c
  | .setNReg adj incr f => .setNReg adj incr (val f)
  | .setLOD a b => .setLOD (val a) (val b)
  | .startPath adj x y => .startPath adj (val x) (val y)
  | .closeEnd => .closeEnd
  | .d1 v x => .d1 v (val x)
  | .d2 v x y => .d2 v (val x) (val y)
  | .d4 v a b x y => .d4 v (val a) (val b) (val x) (val y)
  | .d6 v a b c d x y => .d6 v (val a) (val b) (val c) (val d) (val x) (val y)
  | .arc rel rx ry rot la sw x y => .arc rel (val rx) (val ry) (val rot) la sw (val x) (val y)

/-- an ABSOLUTE drawing call (`H V L Y Q C`; `Y` is the absolute close-and-move, SVG `Z M`) whose operands
    are in range for their axes -/
def AbsOK (ax ay : Axis) : Call F32 → Prop
  | .d1 .H x => ax.CoordOK x
  | .d1 .V y => ay.CoordOK y
  | .d2 .L x y => ax.CoordOK x ∧ ay.CoordOK y
  | .d2 .Y x y => ax.CoordOK x ∧ ay.CoordOK y
  | .d4 .Q x1 y1 x y => (ax.CoordOK x1 ∧ ay.CoordOK y1) ∧ ax.CoordOK x ∧ ay.CoordOK y
  | .d6 .C x1 y1 x2 y2 x y =>
      (ax.CoordOK x1 ∧ ay.CoordOK y1) ∧ (ax.CoordOK x2 ∧ ay.CoordOK y2) ∧ ax.CoordOK x ∧ ay.CoordOK y
  | _ => False

/-- a rasteriser call against a specification segment (in viewBox space): same kind, every coordinate `Near` -/
def OpNear (ax ay : Axis) : RasterOp F32 F64 → Seg ℚ → Prop
  | .moveTo a b, .move p => Near ax a p.x ∧ Near ay b p.y
  | .lineTo a b, .line p => Near ax a p.x ∧ Near ay b p.y
  | .quadTo a b c d, .quad p q => (Near ax a p.x ∧ Near ay b p.y) ∧ Near ax c q.x ∧ Near ay d q.y
  | .cubeTo a b c d e f, .cube p q r =>
      (Near ax a p.x ∧ Near ay b p.y) ∧ (Near ax c q.x ∧ Near ay d q.y) ∧ Near ax e r.x ∧ Near ay f r.y
  | .closePath, .close => True
  | _, _ => False

/-- the float renderer `z` (enabled, transform of `ax`, `ay`) tracks the specification state `s`: pen and
    sub-path start are `Near` the images of the specification's -/
structure Inv32 (ax ay : Axis) (z : Renderer F32 F64) (s : State ℚ) : Prop where
  en : z.disabled = false
  tr : Tr z ax ay
  penX : Near ax z.penX s.pen.x
  penY : Near ay z.penY s.pen.y
  firstX : Near ax z.firstX s.start.x
  firstY : Near ay z.firstY s.start.y

/-! the enabled renderer's absolute drawing methods, one equation each -/
section steps
variable (arc : ArcFn F32 F64) (posInf : F32) (z : Renderer F32 F64) (hen : z.disabled = false)
include hen

theorem not_dis : ¬ z.disabled = true := by rw [hen]; exact Bool.false_ne_true

theorem step_H (x : F32) : z.step arc posInf (.d1 .H x) =
    ({ z with prevSmoothType := 0, penX := z.absX x }, [.lineTo (z.absX x) z.penY]) := by
  simp only [Renderer.step, if_neg (not_dis z hen)]; rfl
theorem step_V (y : F32) : z.step arc posInf (.d1 .V y) =
    ({ z with prevSmoothType := 0, penY := z.absY y }, [.lineTo z.penX (z.absY y)]) := by
  simp only [Renderer.step, if_neg (not_dis z hen)]; rfl
theorem step_L (x y : F32) : z.step arc posInf (.d2 .L x y) =
    ({ z with prevSmoothType := 0, penX := z.absX x, penY := z.absY y }, [.lineTo (z.absX x) (z.absY y)]) := by
  simp only [Renderer.step, if_neg (not_dis z hen)]; rfl
theorem step_Y (x y : F32) : z.step arc posInf (.d2 .Y x y) =
    ({ z with prevSmoothType := 0, penX := z.absX x, penY := z.absY y, firstX := z.absX x, firstY := z.absY y },
     [.closePath, .moveTo (z.absX x) (z.absY y)]) := by
  simp only [Renderer.step, if_neg (not_dis z hen)]; rfl
theorem step_Q (x1 y1 x y : F32) : z.step arc posInf (.d4 .Q x1 y1 x y) =
    ({ z with prevSmoothType := 1, prevSmoothX := z.absX x1, prevSmoothY := z.absY y1,
              penX := z.absX x, penY := z.absY y }, [.quadTo (z.absX x1) (z.absY y1) (z.absX x) (z.absY y)]) := by
  simp only [Renderer.step, if_neg (not_dis z hen)]; rfl
theorem step_C (x1 y1 x2 y2 x y : F32) : z.step arc posInf (.d6 .C x1 y1 x2 y2 x y) =
    ({ z with prevSmoothType := 2, prevSmoothX := z.absX x2, prevSmoothY := z.absY y2,
              penX := z.absX x, penY := z.absY y },
     [.cubeTo (z.absX x1) (z.absY y1) (z.absX x2) (z.absY y2) (z.absX x) (z.absY y)]) := by
  simp only [Renderer.step, if_neg (not_dis z hen)]; rfl
theorem step_closeEnd : z.step arc posInf .closeEnd =
    ({ z with penX := z.firstX, penY := z.firstY }, [.closePath, .draw z.r z.fill]) := by
  simp only [Renderer.step, if_neg (not_dis z hen)]; rfl
end steps

/-- one absolute drawing call: the rasteriser calls are `OpNear` the specification's segments, and the
    invariant is kept (the errors do NOT accumulate: every new pen is a freshly mapped coordinate, or — for
    `H`/`V` — the unchanged other coordinate) -/
theorem step_abs_err (arc : ArcFn F32 F64) (posInf : F32) {ax ay : Axis} (hax : ax.InRange) (hay : ay.InRange)
    (z : Renderer F32 F64) (s : State ℚ) (h : Inv32 ax ay z s) (c : Call F32) (hc : AbsOK ax ay c) :
    List.Forall₂ (OpNear ax ay) (z.step arc posInf c).2 (Spec.Path.step s (callQ c)).2 ∧
    Inv32 ax ay (z.step arc posInf c).1 (Spec.Path.step s (callQ c)).1 ∧
    (z.step arc posInf c).1.r = z.r ∧ (z.step arc posInf c).1.fill = z.fill := by
  have hen := h.en
  have ht := h.tr
  cases c with
  | d1 v x =>
    cases v
    case H =>
      have nx := near_absX ht hax hc
      rw [step_H arc posInf z hen]
      exact ⟨.cons ⟨nx, h.penY⟩ .nil, ⟨hen, ht, nx, h.penY, h.firstX, h.firstY⟩, rfl, rfl⟩
    case V =>
      have ny := near_absY ht hay hc
      rw [step_V arc posInf z hen]
      exact ⟨.cons ⟨h.penX, ny⟩ .nil, ⟨hen, ht, h.penX, ny, h.firstX, h.firstY⟩, rfl, rfl⟩
    all_goals exact hc.elim
  | d2 v x y =>
    cases v
    case L =>
      have nx := near_absX ht hax hc.1
      have ny := near_absY ht hay hc.2
      rw [step_L arc posInf z hen]
      exact ⟨.cons ⟨nx, ny⟩ .nil, ⟨hen, ht, nx, ny, h.firstX, h.firstY⟩, rfl, rfl⟩
    case Y =>
      have nx := near_absX ht hax hc.1
      have ny := near_absY ht hay hc.2
      rw [step_Y arc posInf z hen]
      exact ⟨.cons trivial (.cons ⟨nx, ny⟩ .nil), ⟨hen, ht, nx, ny, nx, ny⟩, rfl, rfl⟩
    all_goals exact hc.elim
  | d4 v x1 y1 x y =>
    cases v
    case Q =>
      have n1 := near_absX ht hax hc.1.1
      have n2 := near_absY ht hay hc.1.2
      have nx := near_absX ht hax hc.2.1
      have ny := near_absY ht hay hc.2.2
      rw [step_Q arc posInf z hen]
      exact ⟨.cons ⟨⟨n1, n2⟩, nx, ny⟩ .nil, ⟨hen, ht, nx, ny, h.firstX, h.firstY⟩, rfl, rfl⟩
    all_goals exact hc.elim
  | d6 v x1 y1 x2 y2 x y =>
    cases v
    case C =>
      have n1 := near_absX ht hax hc.1.1
      have n2 := near_absY ht hay hc.1.2
      have n3 := near_absX ht hax hc.2.1.1
      have n4 := near_absY ht hay hc.2.1.2
      have nx := near_absX ht hax hc.2.2.1
      have ny := near_absY ht hay hc.2.2.2
      rw [step_C arc posInf z hen]
      exact ⟨.cons ⟨⟨n1, n2⟩, ⟨n3, n4⟩, nx, ny⟩ .nil, ⟨hen, ht, nx, ny, h.firstX, h.firstY⟩, rfl, rfl⟩
    all_goals exact hc.elim
  | _ => exact hc.elim

theorem forall₂_append {α β : Type} {R : α → β → Prop} {a c : List α} {b d : List β}
    (h1 : List.Forall₂ R a b) (h2 : List.Forall₂ R c d) : List.Forall₂ R (a ++ c) (b ++ d) := by
  induction h1 with
  | nil => exact h2
  | cons h _ ih => exact .cons h ih

/-- a sequence of absolute drawing calls -/
theorem run_abs_err (arc : ArcFn F32 F64) (posInf : F32) {ax ay : Axis} (hax : ax.InRange) (hay : ay.InRange)
    (body : List (Call F32)) : ∀ (z : Renderer F32 F64) (s : State ℚ), Inv32 ax ay z s →
    (∀ c ∈ body, AbsOK ax ay c) →
    List.Forall₂ (OpNear ax ay) (z.run arc posInf body).2 (Spec.Path.run s (body.map callQ)).2 ∧
    Inv32 ax ay (z.run arc posInf body).1 (Spec.Path.run s (body.map callQ)).1 ∧
    (z.run arc posInf body).1.r = z.r ∧ (z.run arc posInf body).1.fill = z.fill := by
  induction body with
  | nil => intro z s h _; exact ⟨.nil, h, rfl, rfl⟩
  | cons c cs ih =>
    intro z s h hall
    obtain ⟨h1, h2, h3, h4⟩ := step_abs_err arc posInf hax hay z s h c (hall c (by simp))
    obtain ⟨i1, i2, i3, i4⟩ := ih _ _ h2 (fun c hc => hall c (List.mem_cons_of_mem _ hc))
    rw [Ivg.Lemmas.RendererVM.run_cons]
    simp only [List.map_cons, Spec.Path.run]
    exact ⟨forall₂_append h1 i1, i2, i3.trans h3, i4.trans h4⟩

/-- `StartPath` that leaves the renderer enabled: `Reset` of the rasteriser, `MoveTo` the mapped start point -/
theorem startPath_en (z : Renderer F32 F64) (adj : UInt8) (x y : F32)
    (hen : (z.startPath adj x y).1.disabled = false) :
    (z.startPath adj x y).2 = [.reset z.r.dx z.r.dy, .moveTo (z.absX x) (z.absY y)] ∧
    (z.startPath adj x y).1.penX = z.absX x ∧ (z.startPath adj x y).1.penY = z.absY y ∧
    (z.startPath adj x y).1.firstX = z.absX x ∧ (z.startPath adj x y).1.firstY = z.absY y ∧
    (z.startPath adj x y).1.scaleX = z.scaleX ∧ (z.startPath adj x y).1.biasX = z.biasX ∧
    (z.startPath adj x y).1.scaleY = z.scaleY ∧ (z.startPath adj x y).1.biasY = z.biasY ∧
    (z.startPath adj x y).1.r = z.r := by
  rw [Ivg.Lemmas.RendererVM.startPath_eq] at hen ⊢
  split at hen
  · exact absurd hen (by simp)
  · rename_i hC
    rw [if_neg hC]
    exact ⟨rfl, rfl, rfl, rfl, rfl, rfl, rfl, rfl, rfl, rfl⟩

/-- **a whole absolute-only path at float32** (`path_abs_err`): an enabled path
    `StartPath(adj, x, y); body; ClosePathEndPath` whose body consists of absolute calls `H V L Y Q C` with
    operands in range reaches the rasteriser as `Reset` to the size of the target rectangle; then calls of
    exactly the kinds of the specification's segments (`Spec.Path.pathSegs`, over the operands read as
    rationals), every coordinate `Near` — within relative `g4 ≤ 4u + 8u²`, plus `2^-150` — the exact affine
    image `s·(x − min)` of the specification's coordinate; then ONE `Draw` over the target rectangle.
    No accumulation: the bound is the one-coordinate bound whatever the length of the path. -/
theorem path_abs_err (arc : ArcFn F32 F64) (posInf : F32) {ax ay : Axis} (hax : ax.InRange) (hay : ay.InRange)
    (z : Renderer F32 F64) (ht : Tr z ax ay) (adj : UInt8) (x y : F32) (body : List (Call F32))
    (hx : ax.CoordOK x) (hy : ay.CoordOK y) (hbody : ∀ c ∈ body, AbsOK ax ay c)
    (hen : (z.startPath adj x y).1.disabled = false) :
    ∃ ops, (z.run arc posInf (.startPath adj x y :: body ++ [.closeEnd])).2 =
        .reset z.r.dx z.r.dy :: ops ++ [.draw z.r (z.startPath adj x y).1.fill] ∧
      List.Forall₂ (OpNear ax ay) ops (Spec.Path.pathSegs (val x) (val y) (body.map callQ)) := by
  obtain ⟨hops, p1, p2, p3, p4, t1, t2, t3, t4, hr⟩ := startPath_en z adj x y hen
  have nx := near_absX ht hax hx
  have ny := near_absY ht hay hy
  have hinv : Inv32 ax ay (z.startPath adj x y).1 (Spec.Path.start ⟨val x, val y⟩) := by
    refine ⟨hen, ⟨t1.trans ht.1, t2.trans ht.2.1, t3.trans ht.2.2.1, t4.trans ht.2.2.2⟩, ?_, ?_, ?_, ?_⟩
    · rw [p1]; exact nx
    · rw [p2]; exact ny
    · rw [p3]; exact nx
    · rw [p4]; exact ny
  obtain ⟨b1, b2, b3, b4⟩ := run_abs_err arc posInf hax hay body _ _ hinv hbody
  have hstep : z.step arc posInf (.startPath adj x y) = z.startPath adj x y := rfl
  refine ⟨.moveTo (z.absX x) (z.absY y) :: ((z.startPath adj x y).1.run arc posInf body).2 ++ [.closePath], ?_, ?_⟩
  · rw [List.cons_append, Ivg.Lemmas.RendererVM.run_cons, Ivg.Lemmas.RendererVM.run_append, hstep, hops,
      Ivg.Lemmas.RendererVM.run_cons, step_closeEnd arc posInf _ b2.en, b3, b4, hr]
    simp [Renderer.run]
  · unfold Spec.Path.pathSegs
    exact .cons ⟨nx, ny⟩ (forall₂_append b1 (.cons trivial .nil))

end Ivg.Geom32
