import Ivg.Model.Gradient
import Ivg.Lemmas.FloatErr64
import Ivg.Lemmas.FloatRound
import Ivg.Lemmas.FloatSpecial
/-!
# The gradient paint at float64 (`Gradient F64`, the instance that is bit-exact with Go): the exact part

`Ivg/Lemmas/GradQ.lean` proves C15 for the model instantiated at exact rationals.  This file (and `Grad64b`,
`Grad64c`) is about the SAME model functions instantiated at the soft floats `(F32, F64)`:

* basic facts about the constants, Go `==`, `float64(uint16)`, `uint16(float64)`;
* one range: `t = (x − off0)/width ∈ [0,1]`, `s = 1 − t`, `s + t ≤ 1 + 2^-53`; `t = 1` exactly at `x = off1`,
  `t = 0` exactly at `x = off0` (`t_facts`, `t_at_off1`, `t_at_off0`);
* one channel: `s*c0 + t*c1` is finite, in `[0, 65536)` — `uint16(…)` never wraps — and monotone in `(c0, c1)`
  (`lerp_range`, `lerpChan_mono`); exact at `t ∈ {0, 1}` (`lerpChan_t1`, `lerpChan_t0`).
-/
namespace Ivg.Grad64
open Ivg Num Grad FloatOrder FloatMono FloatRound FloatErr64

/-! ## constants and comparisons -/

theorem zeroB_eq : (zeroB : F64) = ⟨0⟩ := by decide +kernel
theorem oneB_eq : (oneB : F64) = ⟨0x3ff0000000000000⟩ := by decide +kernel

theorem ofInt_def (i : Int) : (Arith.ofInt i : F64) = F64.ofInt i := rfl

theorem zeroB_fin : Fn (zeroB : F64) ∧ val (zeroB : F64) = 0 := by
  have := ofInt_F64_exact 0 (by decide)
  simpa [zeroB, ofInt_def] using this

theorem oneB_fin : Fn (oneB : F64) ∧ val (oneB : F64) = 1 := by
  have := ofInt_F64_exact 1 (by decide)
  simpa [oneB, ofInt_def] using this

theorem negOne_fin : Fn (Arith.ofInt (-1) : F64) ∧ val (Arith.ofInt (-1) : F64) = -1 := by
  have := ofInt_F64_exact (-1) (by decide)
  simpa [ofInt_def] using this

/-- `float64(c)` of a 16-bit channel value is exact -/
theorem chan_fin (c : Nat) (h : c < 65536) : Fn (Arith.ofInt (c : Int) : F64) ∧ val (Arith.ofInt (c : Int) : F64) = (c : ℚ) := by
  have := ofInt_F64_exact (c : Int) (by omega)
  simpa [ofInt_def] using this

/-- Go `==` on two floats, one of them finite: both finite with the same value -/
theorem feq_fin {a b : F64} (h : Arith.feq a b = true) (fb : Fn b) : Fn a ∧ val a = val b := by
  have h' : Num.eq .f64 a.nb b.nb = true := h
  unfold Num.eq at h'
  by_cases na : NNB a.nb
  · rw [toOrd_eq a.nb na, toOrd_eq b.nb (FinB_NNB _ fb)] at h'
    simp only [beq_iff_eq] at h'
    have hk : kk a = kk b := h'
    have hb := kk_bound fb
    have fa : Fn a := Fin_of_key na (by omega) (by omega)
    refine ⟨fa, le_antisymm ((kk_le_iff fa fb).1 (by omega)) ((kk_le_iff fb fa).1 (by omega))⟩
  · rw [toOrd_nan a.nb na] at h'; simp at h'

theorem feq_of_val {a b : F64} (fa : Fn a) (fb : Fn b) (h : val a = val b) : Arith.feq a b = true := by
  show Num.eq .f64 a.nb b.nb = true
  unfold Num.eq
  rw [toOrd_eq a.nb (FinB_NNB _ fa), toOrd_eq b.nb (FinB_NNB _ fb)]
  simp only [beq_iff_eq]
  have h1 := (kk_le_iff fa fb).2 (le_of_eq h)
  have h2 := (kk_le_iff fb fa).2 (le_of_eq h.symm)
  unfold kk at h1 h2
  omega

/-- the result of an operation whose exact value is representable is that value -/
theorem Rnd_exact {v : ℚ} {r c : F64} (h : Rnd v r.nb) (fc : Fn c) (hv : val c = v) : Fn r ∧ val r = v := by
  refine ⟨Rnd_fin v _ h (by rw [← hv]; exact abs_val_le_maxv fc), ?_⟩
  exact Rnd_repr v r.nb c.nb h (nb_lt c) fc hv

theorem small_le_maxv {v : ℚ} (h : |v| ≤ 9007199254740991) : |v| ≤ maxv := by
  unfold maxv
  have h1 : pow2 0 ≤ pow2 971 := FloatErr64.pow2_mono (by omega)
  rw [pow2_zero] at h1
  calc |v| ≤ 9007199254740991 * 1 := by linarith
    _ ≤ 9007199254740991 * pow2 971 := by linarith

/-- a rounded value between two representable bounds -/
theorem Rnd_between {v : ℚ} {r lo hi : F64} (h : Rnd v r.nb) (flo : Fn lo) (fhi : Fn hi)
    (h1 : val lo ≤ v) (h2 : v ≤ val hi) : Fn r ∧ val lo ≤ val r ∧ val r ≤ val hi := by
  have fr : Fn r := Fin_between flo fhi (ge_of_Rnd_ge h flo h1) (le_of_Rnd_le h fhi h2)
  exact ⟨fr, Rnd_ge_repr v r.nb lo.nb h fr (nb_lt lo) flo h1, Rnd_le_repr v r.nb hi.nb h fr (nb_lt hi) fhi h2⟩

theorem Rnd_nonneg {v : ℚ} {r : F64} (h : Rnd v r.nb) (fr : Fn r) (hv : 0 ≤ v) : 0 ≤ val r := by
  have := Rnd_ge_repr v r.nb (zeroB : F64).nb h fr (nb_lt zeroB) zeroB_fin.1 (by
    show val (zeroB : F64) ≤ _; rw [zeroB_fin.2]; exact hv)
  have hz : val (zeroB : F64) = 0 := zeroB_fin.2
  unfold val at hz; rw [hz] at this; exact this

/-! ## one range: `t` and `s` -/

/-- what `At` computes from an offset inside a range -/
def tOf (r : Range F64) (x : F64) : F64 := (x - r.offset0) / r.width
def sOf (r : Range F64) (x : F64) : F64 := oneB - tOf r x

/-- a range made by `MakeRange` from two stops with finite offsets in `[0,1]`, strictly increasing -/
structure RangeOK (r : Range F64) : Prop where
  f0 : Fn r.offset0
  f1 : Fn r.offset1
  lo : 0 ≤ val r.offset0
  hi : val r.offset1 ≤ 1
  lt : val r.offset0 < val r.offset1
  w : r.width = r.offset1 - r.offset0

theorem width_facts {r : Range F64} (h : RangeOK r) : Fn r.width ∧ 0 < val r.width ∧ val r.width ≤ 1 := by
  have hd : |val r.offset1 - val r.offset0| ≤ maxv := by
    apply small_le_maxv
    rw [abs_le]; constructor <;> linarith [h.lo, h.hi, h.lt]
  obtain ⟨fw, he⟩ := sub_err h.f1 h.f0 hd
  rw [← h.w] at fw he
  have hpos : 0 < val r.offset1 - val r.offset0 := by linarith [h.lt]
  rw [abs_of_pos hpos] at he
  have hu : u < 1 := by unfold u; norm_num
  have := abs_le.1 he
  refine ⟨fw, by nlinarith [this.1], ?_⟩
  have hr := sub_nb h.f1 h.f0
  rw [← h.w] at hr
  have := Rnd_le_repr _ _ _ hr fw (nb_lt oneB) oneB_fin.1 (by
    show _ ≤ val (oneB : F64); rw [oneB_fin.2]; linarith [h.lo, h.hi])
  exact le_trans this (le_of_eq oneB_fin.2)

/-- for `off0 ≤ x ≤ off1`: `t ∈ [0,1]`, `s = rnd(1 − t) ∈ [0,1]` and `s + t ≤ 1 + 2^-53` -/
theorem t_facts {r : Range F64} (h : RangeOK r) (x : F64) (h0 : r.offset0 ≤ x) (h1 : x ≤ r.offset1) :
    Fn (tOf r x) ∧ 0 ≤ val (tOf r x) ∧ val (tOf r x) ≤ 1 ∧
    Fn (sOf r x) ∧ 0 ≤ val (sOf r x) ∧ val (sOf r x) ≤ 1 ∧ val (sOf r x) + val (tOf r x) ≤ 1 + u := by
  obtain ⟨fw, wpos, _⟩ := width_facts h
  unfold sOf tOf
  have fx : Fn x := Fin_between h.f0 h.f1 h0 h1
  have vx0 := val_le_of_le h.f0 fx h0
  have vx1 := val_le_of_le fx h.f1 h1
  -- numerator
  have hn := sub_nb fx h.f0
  have hw := sub_nb h.f1 h.f0
  rw [← h.w] at hw
  obtain ⟨fn, n0, _⟩ := Rnd_between hn zeroB_fin.1 oneB_fin.1 (by rw [zeroB_fin.2]; linarith)
    (by rw [oneB_fin.2]; linarith [h.lo, h.hi])
  rw [zeroB_fin.2] at n0
  have nw : val (x - r.offset0) ≤ val r.width :=
    Rnd_le_val _ _ _ _ hn hw fn fw (by linarith)
  -- t
  have ht := div_nb fn fw (ne_of_gt wpos)
  obtain ⟨ft, t0, t1⟩ := Rnd_between ht zeroB_fin.1 oneB_fin.1
    (by rw [zeroB_fin.2]; exact div_nonneg n0 wpos.le)
    (by rw [oneB_fin.2]; exact (div_le_one wpos).2 nw)
  rw [zeroB_fin.2] at t0; rw [oneB_fin.2] at t1
  -- s
  have hs := sub_nb oneB_fin.1 ft
  rw [oneB_fin.2] at hs
  obtain ⟨fs, s0, s1⟩ := Rnd_between hs zeroB_fin.1 oneB_fin.1
    (by rw [zeroB_fin.2]; linarith) (by rw [oneB_fin.2]; linarith)
  rw [zeroB_fin.2] at s0; rw [oneB_fin.2] at s1
  have he := (sub_err oneB_fin.1 ft (by
    apply small_le_maxv; rw [oneB_fin.2, abs_le]; constructor <;> linarith)).2
  rw [oneB_fin.2] at he
  have hnn : 0 ≤ 1 - val ((x - r.offset0) / r.width) := by linarith
  rw [abs_of_nonneg hnn] at he
  have he' := (abs_le.1 he).2
  have hu := u_pos
  refine ⟨ft, t0, t1, fs, s0, s1, ?_⟩
  nlinarith

/-- at `x == off1` (Go float equality): `t = 1` and `s = 0`, exactly, however small the width -/
theorem t_at_off1 {r : Range F64} (h : RangeOK r) (x : F64) (fx : Fn x) (hx : val x = val r.offset1) :
    Fn (tOf r x) ∧ val (tOf r x) = 1 ∧ Fn (sOf r x) ∧ val (sOf r x) = 0 := by
  obtain ⟨fw, wpos, _⟩ := width_facts h
  have hn := sub_nb fx h.f0
  rw [hx] at hn
  have hw := sub_nb h.f1 h.f0
  rw [← h.w] at hw
  have fn : Fn (x - r.offset0) := Rnd_fin _ _ hn (by
    apply small_le_maxv; rw [abs_le]; constructor <;> linarith [h.lo, h.hi, h.lt])
  have nv : val (x - r.offset0) = val r.width := FloatErr64.Rnd_unique _ _ _ hn hw
  have ht := div_nb fn fw (ne_of_gt wpos)
  rw [nv, div_self (ne_of_gt wpos)] at ht
  obtain ⟨ft, tv⟩ := Rnd_exact (r := tOf r x) ht oneB_fin.1 oneB_fin.2
  have hs := sub_nb oneB_fin.1 ft
  rw [oneB_fin.2, tv, sub_self] at hs
  obtain ⟨fs, sv⟩ := Rnd_exact (r := sOf r x) hs zeroB_fin.1 zeroB_fin.2
  exact ⟨ft, tv, fs, sv⟩

/-- at `x == off0`: `t = 0` and `s = 1`, exactly -/
theorem t_at_off0 {r : Range F64} (h : RangeOK r) (x : F64) (fx : Fn x) (hx : val x = val r.offset0) :
    Fn (tOf r x) ∧ val (tOf r x) = 0 ∧ Fn (sOf r x) ∧ val (sOf r x) = 1 := by
  obtain ⟨fw, wpos, _⟩ := width_facts h
  have hn := sub_nb fx h.f0
  rw [hx, sub_self] at hn
  obtain ⟨fn, nv⟩ := Rnd_exact hn zeroB_fin.1 zeroB_fin.2
  have ht := div_nb fn fw (ne_of_gt wpos)
  rw [nv, zero_div] at ht
  obtain ⟨ft, tv⟩ := Rnd_exact (r := tOf r x) ht zeroB_fin.1 zeroB_fin.2
  have hs := sub_nb oneB_fin.1 ft
  rw [oneB_fin.2, tv, sub_zero] at hs
  obtain ⟨fs, sv⟩ := Rnd_exact (r := sOf r x) hs oneB_fin.1 oneB_fin.2
  exact ⟨ft, tv, fs, sv⟩

/-! ## one channel -/

/-- the float the model converts to `uint16` -/
def lerpF (s t : F64) (c0 c1 : Nat) : F64 := s * Arith.ofInt (c0 : Int) + t * Arith.ofInt (c1 : Int)

theorem lerpChan_eq (s t : F64) (c0 c1 : Nat) :
    lerpChan (α := F32) s t c0 c1 = ((lerpF s t c0 c1).toInt64 % 65536).toNat := rfl

/-- Go `uint16(x)` of a finite `x` with `0 ≤ x < 65536` is `⌊x⌋` -/
theorem toU16_inrange (a : F64) (fa : Fn a) (h0 : 0 ≤ val a) (h1 : val a < 65536) :
    ((a.toInt64 % 65536).toNat : Int) = ⌊val a⌋ := by
  have := toUInt16_inrange a fa h0 h1
  rw [toUInt16_spec] at this
  exact this

/-- **no wrap-around**: for `s, t ≥ 0` with `s + t ≤ 1 + 2^-53` and 16-bit channel values, the float
    `s*c0 + t*c1` is finite and lies in `[0, 65536)` -/
theorem lerp_range (s t : F64) (fs : Fn s) (ft : Fn t) (s0 : 0 ≤ val s) (t0 : 0 ≤ val t)
    (hst : val s + val t ≤ 1 + u) (c0 c1 : Nat) (h0 : c0 < 65536) (h1 : c1 < 65536) :
    Fn (lerpF s t c0 c1) ∧ 0 ≤ val (lerpF s t c0 c1) ∧ val (lerpF s t c0 c1) < 65536 := by
  obtain ⟨f0, v0⟩ := chan_fin c0 h0
  obtain ⟨f1, v1⟩ := chan_fin c1 h1
  have hu : u = 1 / 9007199254740992 := rfl
  have c0q : (c0 : ℚ) ≤ 65535 := by exact_mod_cast Nat.le_of_lt_succ h0
  have c1q : (c1 : ℚ) ≤ 65535 := by exact_mod_cast Nat.le_of_lt_succ h1
  have c0n : (0 : ℚ) ≤ c0 := Nat.cast_nonneg _
  have c1n : (0 : ℚ) ≤ c1 := Nat.cast_nonneg _
  have sle : val s ≤ 1 + u := by linarith
  have tle : val t ≤ 1 + u := by linarith
  -- the products
  have a0 : 0 ≤ val s * (c0 : ℚ) := mul_nonneg s0 c0n
  have b0 : 0 ≤ val t * (c1 : ℚ) := mul_nonneg t0 c1n
  have a1 : val s * (c0 : ℚ) ≤ val s * 65535 := mul_le_mul_of_nonneg_left c0q s0
  have b1 : val t * (c1 : ℚ) ≤ val t * 65535 := mul_le_mul_of_nonneg_left c1q t0
  have hp0 := mul_nb fs f0
  have hp1 := mul_nb ft f1
  rw [v0] at hp0; rw [v1] at hp1
  have fp0 : Fn (s * Arith.ofInt (c0 : Int)) := Rnd_fin _ _ hp0 (by
    apply small_le_maxv; rw [abs_of_nonneg a0]; rw [hu] at sle; nlinarith)
  have fp1 : Fn (t * Arith.ofInt (c1 : Int)) := Rnd_fin _ _ hp1 (by
    apply small_le_maxv; rw [abs_of_nonneg b0]; rw [hu] at tle; nlinarith)
  have e0 : |val (s * Arith.ofInt (c0 : Int)) - val s * (c0 : ℚ)| ≤ pow2 (-53) * |val s * (c0 : ℚ)| + pow2 (-1075) :=
    Rnd_err_sum _ _ hp0 fp0
  have e1 : |val (t * Arith.ofInt (c1 : Int)) - val t * (c1 : ℚ)| ≤ pow2 (-53) * |val t * (c1 : ℚ)| + pow2 (-1075) :=
    Rnd_err_sum _ _ hp1 fp1
  rw [abs_of_nonneg a0] at e0; rw [abs_of_nonneg b0] at e1
  have hη : pow2 (-1075) ≤ u := by
    rw [← pow2_m24]; exact FloatErr64.pow2_mono (by omega)
  rw [pow2_m24] at e0 e1
  have e0' := (abs_le.1 e0).2
  have e1' := (abs_le.1 e1).2
  have p0n : 0 ≤ val (s * Arith.ofInt (c0 : Int)) := Rnd_nonneg hp0 fp0 a0
  have p1n : 0 ≤ val (t * Arith.ofInt (c1 : Int)) := Rnd_nonneg hp1 fp1 b0
  -- the sum of the two rounded products
  have hsum : val (s * Arith.ofInt (c0 : Int)) + val (t * Arith.ofInt (c1 : Int)) ≤ 65535 + 1 / 4 := by
    rw [hu] at hst e0' e1' hη
    linarith
  have hS := add_err fp0 fp1 (by
    apply small_le_maxv; rw [abs_of_nonneg (by linarith)]; linarith)
  have fS : Fn (lerpF s t c0 c1) := hS.1
  have eS := hS.2
  rw [abs_of_nonneg (by linarith : (0:ℚ) ≤ val (s * Arith.ofInt (c0 : Int)) + val (t * Arith.ofInt (c1 : Int)))] at eS
  have eS' := abs_le.1 eS
  have hS0 : 0 ≤ val (lerpF s t c0 c1) := Rnd_nonneg (add_nb fp0 fp1) fS (by linarith)
  refine ⟨fS, hS0, ?_⟩
  change val (s * Arith.ofInt (c0 : Int) + t * Arith.ofInt (c1 : Int)) < 65536
  rw [hu] at eS'
  nlinarith [eS'.2]

/-- … so `uint16(…)` is its integer part -/
theorem lerpChan_floor (s t : F64) (fs : Fn s) (ft : Fn t) (s0 : 0 ≤ val s) (t0 : 0 ≤ val t)
    (hst : val s + val t ≤ 1 + u) (c0 c1 : Nat) (h0 : c0 < 65536) (h1 : c1 < 65536) :
    ((lerpChan (α := F32) s t c0 c1 : Nat) : Int) = ⌊val (lerpF s t c0 c1)⌋ := by
  obtain ⟨f, l, h⟩ := lerp_range s t fs ft s0 t0 hst c0 c1 h0 h1
  rw [lerpChan_eq]; exact toU16_inrange _ f l h

/-- the float `s*c0 + t*c1` is monotone in the channel values (`s, t ≥ 0` finite) -/
theorem lerpF_mono (s t : F64) (fs : Fn s) (ft : Fn t) (s0 : 0 ≤ val s) (t0 : 0 ≤ val t)
    (hst : val s + val t ≤ 1 + u)
    (c0 c1 d0 d1 : Nat) (hd0 : d0 < 65536) (hd1 : d1 < 65536) (h0 : c0 ≤ d0) (h1 : c1 ≤ d1) :
    val (lerpF s t c0 c1) ≤ val (lerpF s t d0 d1) := by
  obtain ⟨fc0, vc0⟩ := chan_fin c0 (by omega)
  obtain ⟨fc1, vc1⟩ := chan_fin c1 (by omega)
  obtain ⟨fd0, vd0⟩ := chan_fin d0 hd0
  obtain ⟨fd1, vd1⟩ := chan_fin d1 hd1
  have l0 : (Arith.ofInt (c0 : Int) : F64) ≤ Arith.ofInt (d0 : Int) := by
    rw [le_iff_val fc0 fd0, vc0, vd0]; exact_mod_cast h0
  have l1 : (Arith.ofInt (c1 : Int) : F64) ≤ Arith.ofInt (d1 : Int) := by
    rw [le_iff_val fc1 fd1, vc1, vd1]; exact_mod_cast h1
  have hu : u = 1 / 9007199254740992 := rfl
  have sle : val s ≤ 1 + u := by linarith
  have tle : val t ≤ 1 + u := by linarith
  have prodfin : ∀ (a : F64) (c : Nat), Fn a → 0 ≤ val a → val a ≤ 1 + u → c < 65536 →
      Fn (a * (Arith.ofInt (c : Int) : F64)) := by
    intro a c fa a0 a1 hc
    obtain ⟨fc, vc⟩ := chan_fin c hc
    have hp := mul_nb fa fc
    rw [vc] at hp
    have cq : (c : ℚ) ≤ 65535 := by exact_mod_cast Nat.le_of_lt_succ hc
    have cn : (0 : ℚ) ≤ c := Nat.cast_nonneg _
    refine Rnd_fin _ _ hp ?_
    apply small_le_maxv; rw [abs_of_nonneg (mul_nonneg a0 cn)]; rw [hu] at a1; nlinarith
  have m0 := mul_mono_nonneg fs fs fc0 fd0 s0 (by rw [vc0]; exact Nat.cast_nonneg _) (le_refl' (Fin_NN fs)) l0
  have m1 := mul_mono_nonneg ft ft fc1 fd1 t0 (by rw [vc1]; exact Nat.cast_nonneg _) (le_refl' (Fin_NN ft)) l1
  have := add_mono (prodfin s c0 fs s0 sle (by omega)) (prodfin s d0 fs s0 sle hd0)
    (prodfin t c1 ft t0 tle (by omega)) (prodfin t d1 ft t0 tle hd1) m0 m1
  exact val_le_of_le (lerp_range s t fs ft s0 t0 hst c0 c1 (by omega) (by omega)).1
    (lerp_range s t fs ft s0 t0 hst d0 d1 hd0 hd1).1 this

/-- **monotone channels**: rounding and truncation keep `c0 ≤ d0`, `c1 ≤ d1` ⟹ channel ≤ channel -/
theorem lerpChan_mono (s t : F64) (fs : Fn s) (ft : Fn t) (s0 : 0 ≤ val s) (t0 : 0 ≤ val t)
    (hst : val s + val t ≤ 1 + u)
    (c0 c1 d0 d1 : Nat) (hd0 : d0 < 65536) (hd1 : d1 < 65536) (h0 : c0 ≤ d0) (h1 : c1 ≤ d1) :
    lerpChan (α := F32) s t c0 c1 ≤ lerpChan (α := F32) s t d0 d1 := by
  have a := lerpChan_floor s t fs ft s0 t0 hst c0 c1 (by omega) (by omega)
  have b := lerpChan_floor s t fs ft s0 t0 hst d0 d1 hd0 hd1
  have := Int.floor_le_floor (lerpF_mono s t fs ft s0 t0 hst c0 c1 d0 d1 hd0 hd1 h0 h1)
  omega

/-- **exact at `t = 1`** (`s = 0`): the channel is `c1` -/
theorem lerpChan_t1 (s t : F64) (fs : Fn s) (ft : Fn t) (sv : val s = 0) (tv : val t = 1)
    (c0 c1 : Nat) (h0 : c0 < 65536) (h1 : c1 < 65536) : lerpChan (α := F32) s t c0 c1 = c1 := by
  obtain ⟨f0, v0⟩ := chan_fin c0 h0
  obtain ⟨f1, v1⟩ := chan_fin c1 h1
  have hp0 := mul_nb fs f0
  rw [sv, zero_mul] at hp0
  obtain ⟨fp0, pv0⟩ := Rnd_exact hp0 zeroB_fin.1 zeroB_fin.2
  have hp1 := mul_nb ft f1
  rw [tv, one_mul] at hp1
  obtain ⟨fp1, pv1⟩ := Rnd_exact hp1 f1 rfl
  have hS := add_nb fp0 fp1
  rw [pv0, pv1, zero_add] at hS
  obtain ⟨fS, Sv⟩ := Rnd_exact (r := lerpF s t c0 c1) hS f1 rfl
  have := toU16_inrange _ fS (by rw [Sv, v1]; exact Nat.cast_nonneg _) (by rw [Sv, v1]; exact_mod_cast h1)
  rw [Sv, v1] at this
  rw [lerpChan_eq]
  have h2 : ⌊((c1 : Nat) : ℚ)⌋ = (c1 : Int) := Int.floor_natCast c1
  omega

/-- **exact at `t = 0`** (`s = 1`): the channel is `c0` -/
theorem lerpChan_t0 (s t : F64) (fs : Fn s) (ft : Fn t) (sv : val s = 1) (tv : val t = 0)
    (c0 c1 : Nat) (h0 : c0 < 65536) (h1 : c1 < 65536) : lerpChan (α := F32) s t c0 c1 = c0 := by
  obtain ⟨f0, v0⟩ := chan_fin c0 h0
  obtain ⟨f1, v1⟩ := chan_fin c1 h1
  have hp0 := mul_nb fs f0
  rw [sv, one_mul] at hp0
  obtain ⟨fp0, pv0⟩ := Rnd_exact hp0 f0 rfl
  have hp1 := mul_nb ft f1
  rw [tv, zero_mul] at hp1
  obtain ⟨fp1, pv1⟩ := Rnd_exact hp1 zeroB_fin.1 zeroB_fin.2
  have hS := add_nb fp0 fp1
  rw [pv0, pv1, add_zero] at hS
  obtain ⟨fS, Sv⟩ := Rnd_exact (r := lerpF s t c0 c1) hS f0 rfl
  have := toU16_inrange _ fS (by rw [Sv, v0]; exact Nat.cast_nonneg _) (by rw [Sv, v0]; exact_mod_cast h0)
  rw [Sv, v0] at this
  rw [lerpChan_eq]
  have h2 : ⌊((c0 : Nat) : ℚ)⌋ = (c0 : Int) := Int.floor_natCast c0
  omega

end Ivg.Grad64
