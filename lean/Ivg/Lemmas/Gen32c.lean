import Ivg.Lemmas.Gen32
/-!
# C19 at `F32`: rounding-error analysis of `SetEllipticalGradient`'s matrix

In float32 (every operation rounded, no FMA — the Go code disables it explicitly):

    det = rx·sy − sx·ry,  inv = 1/det,
    ma = sy·inv,     mb = (−sx)·inv,  mc = −(ma·cx) − mb·cy,
    md = (−ry)·inv,  me = rx·inv,     mf = −(md·cx) − me·cy.

* `det_err` : `|det − DET| ≤ 3u·N + u·|DET|`, `N = |RX·SY| + |SX·RY|` — the subtraction CANCELS: the relative error
  of `det` is `3u·κ + u` with `κ = N/|DET|`, and for `κ ≳ 1/u` the computed determinant can be zero.  The range
  hypothesis therefore bounds `κ ≤ 2^20`;
* `inv_err` : `|ι·DET − 1| ≤ 4u·κ + 4u`;
* `row_err` : one row `(p·inv, q·inv, −(a·cx) − b·cy)` at any point `centre + δ`;
* `ellipticalMatrix_f32` : centre ↦ within `7u·K` of `(0,0)`, first axis end ↦ within `15u·K` / `7u·K` of `(1,0)`,
  second ↦ of `(0,1)`; squared distances within `2E + 2E²` of 1, `E = 15u·K`, with
  `K = ((|RX|+|SX|)·(|RY|+|SY|) + (|RY|+|SY|)·|CX| + (|RX|+|SX|)·|CY|) / |DET|`.
-/
namespace Ivg.Gen32
open Ivg Num Gen FloatOrder32 FloatMono32 FloatErr Geom32 Mix32
open private i from Ivg.Model.Generator

/-- `fl(−fl(a·b) − fl(c·d))` -/
theorem dot2_negsub {a b c d : F32} (fa : Fn a) (fb : Fn b) (fc : Fn c) (fd : Fn d)
    (h1 : |val a * val b| ≤ cap) (h2 : |val c * val d| ≤ cap) :
    Fn (-(a * b) - c * d) ∧
    |val (-(a * b) - c * d) - (-(val a * val b) - val c * val d)| ≤
      (2 * u + u * u) * (|val a * val b| + |val c * val d|) + (2 + 2 * u) * tiny := by
  have hc : cap ≤ 1329227995784915872903807060280344576 := by unfold cap; norm_num
  obtain ⟨fp, hp⟩ := mul_mix fa fb (le_maxv (le_trans h1 hc))
  obtain ⟨fq, hq⟩ := mul_mix fc fd (le_maxv (le_trans h2 hc))
  obtain ⟨fnp, vnp⟩ := neg_val fp
  have s1 := mix_size hp h1
  have s2 := mix_size hq h2
  have hsum : |val (-(a * b)) - val (c * d)| ≤ maxv := by
    have := abs_sub (val (-(a * b))) (val (c * d))
    rw [vnp, abs_neg] at this
    rw [vnp]
    apply le_maxv
    unfold cap at s1 s2; linarith
  obtain ⟨fs, hs⟩ := sub_err fnp fq hsum
  refine ⟨fs, ?_⟩
  rw [vnp] at hs
  have hp' : |(-val (a * b)) - (-(val a * val b))| ≤ u * |(-(val a * val b))| + tiny := by
    have : -val (a * b) - -(val a * val b) = -(val (a * b) - val a * val b) := by ring
    rw [this, abs_neg, abs_neg]; exact hp
  have := diff2 hp' hq hs
  rw [abs_neg] at this
  exact this

/-! ## the determinant and its reciprocal -/

/-- **the range hypothesis** of the elliptical helper: finite coordinates in `[−2^20, 2^20]`, the determinant
    `DET = RX·SY − SX·RY` of the two axis vectors at least `2^-40` in magnitude, and the CONDITIONING of the
    subtraction bounded: `|RX·SY| + |SX·RY| ≤ 2^20·|DET|` (the axes are not nearly parallel: for
    perpendicular axes the ratio is 1 when they are axis-parallel and grows with `1/|cos 2φ|` otherwise) -/
structure EllOK (cx cy rx ry sx sy : F32) : Prop where
  fcx : Fn cx
  fcy : Fn cy
  frx : Fn rx
  fry : Fn ry
  fsx : Fn sx
  fsy : Fn sy
  bcx : |val cx| ≤ 1048576
  bcy : |val cy| ≤ 1048576
  brx : |val rx| ≤ 1048576
  bry : |val ry| ≤ 1048576
  bsx : |val sx| ≤ 1048576
  bsy : |val sy| ≤ 1048576
  det_lo : 1 / 1099511627776 ≤ |val rx * val sy - val sx * val ry|
  cond : |val rx * val sy| + |val sx * val ry| ≤ 1048576 * |val rx * val sy - val sx * val ry|

/-- the exact determinant of the float axis vectors -/
def ellDET (rx ry sx sy : F32) : ℚ := val rx * val sy - val sx * val ry
/-- the magnitude the subtraction is rounded against -/
def ellN (rx ry sx sy : F32) : ℚ := |val rx * val sy| + |val sx * val ry|
/-- the conditioning of the determinant -/
def ellKappa (rx ry sx sy : F32) : ℚ := ellN rx ry sx sy / |ellDET rx ry sx sy|

/-- `1 / (rx*sy − sx*ry)` in float32 -/
def ellInv (rx ry sx sy : F32) : F32 := F32.ofInt 1 / (rx * sy - sx * ry)

variable {cx cy rx ry sx sy : F32}

theorem prod20 {a b : ℚ} (ha : |a| ≤ 1048576) (hb : |b| ≤ 1048576) : |a * b| ≤ 1099511627776 := by
  rw [abs_mul]
  have := mul_le_mul ha hb (abs_nonneg _) (by norm_num)
  linarith

/-- **`det_err`** -/
theorem det_err (h : EllOK cx cy rx ry sx sy) :
    Fn (rx * sy - sx * ry) ∧
    |val (rx * sy - sx * ry) - ellDET rx ry sx sy| ≤ 3 * u * ellN rx ry sx sy + u * |ellDET rx ry sx sy| := by
  have hu : u = 1 / 16777216 := rfl
  have p1 := prod20 h.brx h.bsy
  have p2 := prod20 h.bsx h.bry
  obtain ⟨f, e⟩ := dot2_sub h.frx h.fsy h.fsx h.fry (by unfold cap; linarith) (by unfold cap; linarith)
  refine ⟨f, le_trans e ?_⟩
  have ht := tiny_le
  have hd := h.det_lo
  have n1 := abs_nonneg (val rx * val sy)
  have n2 := abs_nonneg (val sx * val ry)
  unfold ellN ellDET
  rw [hu] at ht ⊢
  linarith

theorem EllOK.det_ne (h : EllOK cx cy rx ry sx sy) : ellDET rx ry sx sy ≠ 0 := by
  have := h.det_lo
  intro h0
  unfold ellDET at h0
  rw [h0, abs_zero] at this
  norm_num at this

theorem EllOK.kappa_bounds (h : EllOK cx cy rx ry sx sy) :
    1 ≤ ellKappa rx ry sx sy ∧ ellKappa rx ry sx sy ≤ 1048576 := by
  have hd : 0 < |ellDET rx ry sx sy| := abs_pos.2 h.det_ne
  unfold ellKappa
  constructor
  · rw [le_div_iff₀ hd, one_mul]
    exact abs_sub _ _
  · rw [div_le_iff₀ hd]; exact h.cond

/-- **`inv_err`**: `ι = fl(1/det)` is finite, `|ι·DET − 1| ≤ 4u·κ + 4u` and `|ι|·|DET| ≤ 2` -/
theorem inv_err (h : EllOK cx cy rx ry sx sy) :
    Fn (ellInv rx ry sx sy) ∧
    |val (ellInv rx ry sx sy) * ellDET rx ry sx sy - 1| ≤ 4 * u * ellKappa rx ry sx sy + 4 * u ∧
    |val (ellInv rx ry sx sy)| * |ellDET rx ry sx sy| ≤ 2 := by
  have hu : u = 1 / 16777216 := rfl
  obtain ⟨fd, ed⟩ := det_err h
  obtain ⟨k1, k2⟩ := h.kappa_bounds
  have hD0 := h.det_ne
  have hd : 0 < |ellDET rx ry sx sy| := abs_pos.2 hD0
  have hdlo : 1 / 1099511627776 ≤ |ellDET rx ry sx sy| := h.det_lo
  have hdhi : |ellDET rx ry sx sy| ≤ 2199023255552 := by
    have := abs_sub (val rx * val sy) (val sx * val ry)
    have := prod20 h.brx h.bsy
    have := prod20 h.bsx h.bry
    unfold ellDET; linarith
  set κ := ellKappa rx ry sx sy with hκ
  set DET := ellDET rx ry sx sy with hDET
  -- relative error of det
  have hrel : Rel (3 * u * κ + u) (val (rx * sy - sx * ry)) DET := by
    unfold Rel
    have e : (3 * u * κ + u) * |DET| = 3 * u * ellN rx ry sx sy + u * |DET| := by
      rw [hκ]; unfold ellKappa; rw [← hDET]; field_simp
    rw [e]; exact ed
  have hed0 : 0 ≤ 3 * u * κ + u := by rw [hu]; linarith
  have hed1 : 3 * u * κ + u ≤ 1 / 4 := by rw [hu]; linarith
  obtain ⟨hdet0, hinv⟩ := Rel.div_left 1 hrel hed0 (by linarith) hD0
  have hmono : (3 * u * κ + u) / (1 - (3 * u * κ + u)) ≤ 4 / 3 * (3 * u * κ + u) := by
    rw [div_le_iff₀ (by linarith)]
    nlinarith
  have hinv' : Rel (4 / 3 * (3 * u * κ + u)) (1 / val (rx * sy - sx * ry)) (1 / DET) := hinv.mono hmono
  have hsz := hinv'.abs_le
  have hinvD : |1 / DET| = 1 / |DET| := by rw [abs_div, abs_one]
  have hinvDle : 1 / |DET| ≤ 1099511627776 := by
    rw [div_le_iff₀ hd]; linarith
  have hinvD0 : 0 ≤ 1 / |DET| := by positivity
  obtain ⟨f1, v1⟩ := one_val
  have hszn : |1 / val (rx * sy - sx * ry)| ≤ 4 / 3 * (1 / |DET|) := by
    rw [hinvD] at hsz
    have : (1 + 4 / 3 * (3 * u * κ + u)) * (1 / |DET|) ≤ 4 / 3 * (1 / |DET|) :=
      mul_le_mul_of_nonneg_right (by linarith) hinvD0
    linarith
  obtain ⟨fi, ei⟩ := div_mix f1 fd hdet0 (by rw [v1]; apply le_maxv; linarith)
  rw [v1] at ei
  change |val (ellInv rx ry sx sy) - 1 / val (rx * sy - sx * ry)| ≤ _ at ei
  have fi' : Fn (ellInv rx ry sx sy) := fi
  set ι := val (ellInv rx ry sx sy) with hι
  -- |ι − 1/DET| ≤ (4uκ + (8/3)u)/|DET| + tiny
  have t1 := abs_sub_le ι (1 / val (rx * sy - sx * ry)) (1 / DET)
  have hinv'' : |1 / val (rx * sy - sx * ry) - 1 / DET| ≤ 4 / 3 * (3 * u * κ + u) * (1 / |DET|) := by
    have := hinv'; unfold Rel at this; rw [hinvD] at this; exact this
  have ht := tiny_le
  have ht0 := tiny_pos
  have hclose : |ι - 1 / DET| ≤ (4 * u * κ + 3 * u) * (1 / |DET|) + tiny := by
    have m1 : u * |1 / val (rx * sy - sx * ry)| ≤ u * (4 / 3 * (1 / |DET|)) :=
      mul_le_mul_of_nonneg_left hszn u_pos.le
    have e : (4 * u * κ + 3 * u) * (1 / |DET|) =
        u * (4 / 3 * (1 / |DET|)) + 4 / 3 * (3 * u * κ + u) * (1 / |DET|) + 1 / 3 * u * (1 / |DET|) := by ring
    have : 0 ≤ 1 / 3 * u * (1 / |DET|) := mul_nonneg (by rw [hu]; norm_num) hinvD0
    rw [e]
    linarith
  -- multiply by |DET|
  have e2 : ι * DET - 1 = (ι - 1 / DET) * DET := by field_simp
  have hmul : |ι * DET - 1| ≤ (4 * u * κ + 3 * u) + tiny * |DET| := by
    rw [e2, abs_mul]
    have := mul_le_mul_of_nonneg_right hclose hd.le
    have e3 : ((4 * u * κ + 3 * u) * (1 / |DET|) + tiny) * |DET| = (4 * u * κ + 3 * u) + tiny * |DET| := by
      field_simp
    rw [e3] at this
    exact this
  have htd : tiny * |DET| ≤ tiny * 2199023255552 := mul_le_mul_of_nonneg_left hdhi ht0.le
  have hfin : |ι * DET - 1| ≤ 4 * u * κ + 4 * u := by
    rw [hu] at ht hmul ⊢; linarith
  refine ⟨fi', hfin, ?_⟩
  rw [← abs_mul]
  have := abs_sub_abs_le_abs_sub (ι * DET) 1
  rw [abs_one] at this
  rw [hu] at hfin
  linarith

/-! ## one row -/

/-- one row `(a, b, c) = (p·inv, q·inv, −(a·cx) − b·cy)` of the matrix at the point `centre + δ`, against
    `ι·(P·δx + Q·δy)` with `ι = val inv` (the COMPUTED reciprocal) -/
theorem row_err {p q inv cx cy : F32} (fp : Fn p) (fq : Fn q) (fi : Fn inv) (fcx : Fn cx) (fcy : Fn cy)
    (bp : |val p| ≤ 1048576) (bq : |val q| ≤ 1048576) (bcx : |val cx| ≤ 1048576) (bcy : |val cy| ≤ 1048576)
    (bi : |val inv| ≤ 4398046511104) :
    (Fn (p * inv) ∧ Fn (q * inv) ∧ Fn (-(p * inv * cx) - q * inv * cy)) ∧
    ∀ δx δy : ℚ,
      |val (p * inv) * (val cx + δx) + val (q * inv) * (val cy + δy) + val (-(p * inv * cx) - q * inv * cy) -
          val inv * (val p * δx + val q * δy)| ≤
        u * |val inv| * (|val p * δx| + |val q * δy|) +
        3 * u * |val inv| * (|val p * val cx| + |val q * val cy|) + tiny * (|δx| + |δy| + 4) := by
  have hu : u = 1 / 16777216 := rfl
  have ht0 := tiny_pos
  have ht1 := tiny_le_one
  have hi0 := abs_nonneg (val inv)
  have bpi : |val p * val inv| ≤ 1048576 * 4398046511104 := by
    rw [abs_mul]; exact mul_le_mul bp bi hi0 (by norm_num)
  have bqi : |val q * val inv| ≤ 1048576 * 4398046511104 := by
    rw [abs_mul]; exact mul_le_mul bq bi hi0 (by norm_num)
  obtain ⟨fa, ha⟩ := mul_mix fp fi (le_maxv (by linarith))
  obtain ⟨fb, hb⟩ := mul_mix fq fi (le_maxv (by linarith))
  have sa := mix_abs_le ha
  have sb := mix_abs_le hb
  have ba : |val (p * inv)| ≤ 9223372036854775808 := by rw [hu] at sa; linarith
  have bb : |val (q * inv)| ≤ 9223372036854775808 := by rw [hu] at sb; linarith
  have bacx : |val (p * inv) * val cx| ≤ 9223372036854775808 * 1048576 := by
    rw [abs_mul]; exact mul_le_mul ba bcx (abs_nonneg _) (by norm_num)
  have bbcy : |val (q * inv) * val cy| ≤ 9223372036854775808 * 1048576 := by
    rw [abs_mul]; exact mul_le_mul bb bcy (abs_nonneg _) (by norm_num)
  obtain ⟨fc, hc⟩ := dot2_negsub fa fcx fb fcy (by unfold cap; linarith) (by unfold cap; linarith)
  refine ⟨⟨fa, fb, fc⟩, ?_⟩
  intro δx δy
  set a := val (p * inv) with hadef
  set b := val (q * inv) with hbdef
  set c := val (-(p * inv * cx) - q * inv * cy) with hcdef
  set ι := val inv with hιdef
  have e : a * (val cx + δx) + b * (val cy + δy) + c - ι * (val p * δx + val q * δy) =
      (c - (-(a * val cx) - b * val cy)) + (a - val p * ι) * δx + (b - val q * ι) * δy := by ring
  rw [e]
  have t1 := abs_add_le ((c - (-(a * val cx) - b * val cy)) + (a - val p * ι) * δx) ((b - val q * ι) * δy)
  have t2 := abs_add_le (c - (-(a * val cx) - b * val cy)) ((a - val p * ι) * δx)
  rw [abs_mul] at t1 t2
  have m1 := mul_le_mul_of_nonneg_right ha (abs_nonneg δx)
  have m2 := mul_le_mul_of_nonneg_right hb (abs_nonneg δy)
  -- |a·CX| ≤ (1+u)|ι||P·CX| + tiny·|CX|
  have n1 : |a * val cx| ≤ (1 + u) * (|ι| * |val p * val cx|) + tiny * 1048576 := by
    rw [abs_mul a]
    have h1 := mul_le_mul_of_nonneg_right sa (abs_nonneg (val cx))
    have h2 := mul_le_mul_of_nonneg_left bcx ht0.le
    have e1 : ((1 + u) * |val p * ι| + tiny) * |val cx| = (1 + u) * (|ι| * |val p * val cx|) + tiny * |val cx| := by
      rw [abs_mul, abs_mul]; ring
    rw [e1] at h1
    linarith
  have n2 : |b * val cy| ≤ (1 + u) * (|ι| * |val q * val cy|) + tiny * 1048576 := by
    rw [abs_mul b]
    have h1 := mul_le_mul_of_nonneg_right sb (abs_nonneg (val cy))
    have h2 := mul_le_mul_of_nonneg_left bcy ht0.le
    have e1 : ((1 + u) * |val q * ι| + tiny) * |val cy| = (1 + u) * (|ι| * |val q * val cy|) + tiny * |val cy| := by
      rw [abs_mul, abs_mul]; ring
    rw [e1] at h1
    linarith
  have e3 : |val p * ι| * |δx| = |ι| * |val p * δx| := by rw [abs_mul, abs_mul]; ring
  have e4 : |val q * ι| * |δy| = |ι| * |val q * δy| := by rw [abs_mul, abs_mul]; ring
  have e5 : (u * |val p * ι| + tiny) * |δx| = u * (|ι| * |val p * δx|) + tiny * |δx| := by rw [← e3]; ring
  have e6 : (u * |val q * ι| + tiny) * |δy| = u * (|ι| * |val q * δy|) + tiny * |δy| := by rw [← e4]; ring
  rw [e5] at m1
  rw [e6] at m2
  have g1 : 0 ≤ |ι| * |val p * val cx| := mul_nonneg hi0 (abs_nonneg _)
  have g2 : 0 ≤ |ι| * |val q * val cy| := mul_nonneg hi0 (abs_nonneg _)
  have e7 : u * |ι| * (|val p * δx| + |val q * δy|) + 3 * u * |ι| * (|val p * val cx| + |val q * val cy|) +
      tiny * (|δx| + |δy| + 4) =
      u * (|ι| * |val p * δx|) + u * (|ι| * |val q * δy|) + 3 * u * (|ι| * |val p * val cx|) +
        3 * u * (|ι| * |val q * val cy|) + tiny * |δx| + tiny * |δy| + 4 * tiny := by ring
  rw [e7]
  rw [hu] at hc n1 n2 m1 m2 ⊢
  linarith

/-! ## the matrix -/

theorem ellipticalMatrix_eq (cx cy rx ry sx sy : F32) :
    ellipticalMatrix cx cy rx ry sx sy =
      ⟨sy * ellInv rx ry sx sy, -sx * ellInv rx ry sx sy,
       -(sy * ellInv rx ry sx sy * cx) - -sx * ellInv rx ry sx sy * cy,
       -ry * ellInv rx ry sx sy, rx * ellInv rx ry sx sy,
       -(-ry * ellInv rx ry sx sy * cx) - rx * ellInv rx ry sx sy * cy⟩ := rfl

/-- **the condition number** of the elliptical helper -/
def ellK (cx cy rx ry sx sy : F32) : ℚ :=
  ((|val rx| + |val sx|) * (|val ry| + |val sy|) + (|val ry| + |val sy|) * |val cx| +
    (|val rx| + |val sx|) * |val cy|) / |ellDET rx ry sx sy|

/-- the squared distance from a point within `E` of `(1, 0)` (or `(0, 1)`) -/
theorem near_unit {g1 g2 E : ℚ} (h1 : |g1 - 1| ≤ E) (h2 : |g2| ≤ E) :
    |g1 * g1 + g2 * g2 - 1| ≤ 2 * E + 2 * (E * E) := by
  have hE : 0 ≤ E := le_trans (abs_nonneg _) h2
  have e : g1 * g1 + g2 * g2 - 1 = (g1 - 1) * (g1 - 1) + 2 * (g1 - 1) + g2 * g2 := by ring
  rw [e]
  have t1 := abs_add_le ((g1 - 1) * (g1 - 1) + 2 * (g1 - 1)) (g2 * g2)
  have t2 := abs_add_le ((g1 - 1) * (g1 - 1)) (2 * (g1 - 1))
  rw [abs_mul] at t1 t2
  rw [abs_mul 2, show |(2:ℚ)| = 2 by norm_num] at t2
  have s1 : |g1 - 1| * |g1 - 1| ≤ E * E := mul_le_mul h1 h1 (abs_nonneg _) hE
  have s2 : |g2| * |g2| ≤ E * E := mul_le_mul h2 h2 (abs_nonneg _) hE
  linarith

/-- **`ellipticalMatrix_f32`** — C19 "elliptical has 1 at both axis end points", at float32.  With `M` the matrix
    `SetEllipticalGradient` computes in float32, `(off M p, off2 M p)` the image of a viewBox point evaluated
    exactly from the float entries, `K = ellK` and `E = 15u·K`:

    * the centre goes to within `7u·K` (each coordinate) of the origin;
    * the first axis end point `centre + (RX, RY)` (exact sum of the float inputs) to within `(E, 7u·K)` of
      `(1, 0)`, the second `centre + (SX, SY)` to within `(7u·K, E)` of `(0, 1)`;
    * so both squared distances from the origin — the squares of the radial offsets — are within `2E + 2E²` of 1. -/
theorem ellipticalMatrix_f32 (h : EllOK cx cy rx ry sx sy) :
    let M := ellipticalMatrix cx cy rx ry sx sy
    let K := ellK cx cy rx ry sx sy
    let E := 15 * u * K
    (Fn M.a0 ∧ Fn M.a1 ∧ Fn M.a2 ∧ Fn M.a3 ∧ Fn M.a4 ∧ Fn M.a5) ∧
    (|off M (val cx) (val cy)| ≤ 7 * u * K ∧ |off2 M (val cx) (val cy)| ≤ 7 * u * K) ∧
    (|off M (val cx + val rx) (val cy + val ry) - 1| ≤ E ∧ |off2 M (val cx + val rx) (val cy + val ry)| ≤ 7 * u * K) ∧
    (|off M (val cx + val sx) (val cy + val sy)| ≤ 7 * u * K ∧ |off2 M (val cx + val sx) (val cy + val sy) - 1| ≤ E) ∧
    |off M (val cx + val rx) (val cy + val ry) * off M (val cx + val rx) (val cy + val ry) +
      off2 M (val cx + val rx) (val cy + val ry) * off2 M (val cx + val rx) (val cy + val ry) - 1| ≤
        2 * E + 2 * (E * E) ∧
    |off2 M (val cx + val sx) (val cy + val sy) * off2 M (val cx + val sx) (val cy + val sy) +
      off M (val cx + val sx) (val cy + val sy) * off M (val cx + val sx) (val cy + val sy) - 1| ≤
        2 * E + 2 * (E * E) := by
  have hu : u = 1 / 16777216 := rfl
  intro M K E
  obtain ⟨fi, hdet, hsz⟩ := inv_err h
  obtain ⟨k1, k2⟩ := h.kappa_bounds
  have hD0 := h.det_ne
  have hd : 0 < |ellDET rx ry sx sy| := abs_pos.2 hD0
  have hdlo : 1 / 1099511627776 ≤ |ellDET rx ry sx sy| := h.det_lo
  obtain ⟨fnsx, vnsx⟩ := neg_val h.fsx
  obtain ⟨fnry, vnry⟩ := neg_val h.fry
  set ι := val (ellInv rx ry sx sy) with hι
  have hιle : |ι| ≤ 2 / |ellDET rx ry sx sy| := by rw [le_div_iff₀ hd]; exact hsz
  have bi : |ι| ≤ 4398046511104 := by
    have : 2 / |ellDET rx ry sx sy| ≤ 2199023255552 := by rw [div_le_iff₀ hd]; linarith
    linarith
  have bnsx : |val (-sx)| ≤ 1048576 := by rw [vnsx, abs_neg]; exact h.bsx
  have bnry : |val (-ry)| ≤ 1048576 := by rw [vnry, abs_neg]; exact h.bry
  obtain ⟨⟨fa, fb, fc⟩, r1⟩ := row_err h.fsy fnsx fi h.fcx h.fcy h.bsy bnsx h.bcx h.bcy bi
  obtain ⟨⟨fd, fe, ff⟩, r2⟩ := row_err fnry h.frx fi h.fcx h.fcy bnry h.brx h.bcx h.bcy bi
  rw [vnsx] at r1
  rw [vnry] at r2
  rw [← hι] at r1 r2
  -- the rows in terms of `off`, `off2`
  have o1 : ∀ δx δy, off M (val cx + δx) (val cy + δy) =
      val (sy * ellInv rx ry sx sy) * (val cx + δx) + val (-sx * ellInv rx ry sx sy) * (val cy + δy) +
        val (-(sy * ellInv rx ry sx sy * cx) - -sx * ellInv rx ry sx sy * cy) := fun _ _ => rfl
  have o2 : ∀ δx δy, off2 M (val cx + δx) (val cy + δy) =
      val (-ry * ellInv rx ry sx sy) * (val cx + δx) + val (rx * ellInv rx ry sx sy) * (val cy + δy) +
        val (-(-ry * ellInv rx ry sx sy * cx) - rx * ellInv rx ry sx sy * cy) := fun _ _ => rfl
  -- magnitudes
  set Q0 := (|val rx| + |val sx|) * (|val ry| + |val sy|) with hQ0
  set QC := (|val ry| + |val sy|) * |val cx| + (|val rx| + |val sx|) * |val cy| with hQC
  have hK : K = (Q0 + QC) / |ellDET rx ry sx sy| := by
    rw [hQ0, hQC]; show ellK cx cy rx ry sx sy = _; unfold ellK; ring
  have arx := abs_nonneg (val rx)
  have ary := abs_nonneg (val ry)
  have asx := abs_nonneg (val sx)
  have asy := abs_nonneg (val sy)
  have acx := abs_nonneg (val cx)
  have acy := abs_nonneg (val cy)
  have pp : ∀ a b : ℚ, 0 ≤ |a| * |b| := fun a b => mul_nonneg (abs_nonneg a) (abs_nonneg b)
  have hQ0e : Q0 = |val rx| * |val ry| + |val rx| * |val sy| + |val sx| * |val ry| + |val sx| * |val sy| := by
    rw [hQ0]; ring
  have hQCe : QC = |val ry| * |val cx| + |val sy| * |val cx| + |val rx| * |val cy| + |val sx| * |val cy| := by
    rw [hQC]; ring
  have hQ0n : 0 ≤ Q0 := by rw [hQ0e]; linarith [pp (val rx) (val ry), pp (val rx) (val sy), pp (val sx) (val ry), pp (val sx) (val sy)]
  have hQCn : 0 ≤ QC := by rw [hQCe]; linarith [pp (val ry) (val cx), pp (val sy) (val cx), pp (val rx) (val cy), pp (val sx) (val cy)]
  have hN : ellN rx ry sx sy ≤ Q0 := by
    unfold ellN; rw [abs_mul, abs_mul, hQ0e]
    linarith [pp (val rx) (val ry), pp (val sx) (val sy)]
  have hκK : ellKappa rx ry sx sy ≤ K := by
    rw [hK]; unfold ellKappa
    exact div_le_div_of_nonneg_right (by linarith) hd.le
  have hK1 : 1 ≤ K := le_trans k1 hκK
  have ht := tiny_le
  have ht0 := tiny_pos
  -- the generic row bound in terms of K
  have rowK : ∀ (P1 P2 C1 C2 d1 d2 : ℚ), |P1| + |P2| ≤ 2 * Q0 → |C1| + |C2| ≤ QC →
      |d1| ≤ 1048576 → |d2| ≤ 1048576 →
      u * |ι| * (|P1| + |P2|) + 3 * u * |ι| * (|C1| + |C2|) + tiny * (|d1| + |d2| + 4) ≤ 6 * u * K + u / 2 := by
    intro P1 P2 C1 C2 d1 d2 hP hC hd1 hd2
    have s1 : |ι| * (|P1| + |P2|) ≤ 2 / |ellDET rx ry sx sy| * (2 * Q0) :=
      mul_le_mul hιle hP (by positivity) (by positivity)
    have s2 : |ι| * (|C1| + |C2|) ≤ 2 / |ellDET rx ry sx sy| * QC :=
      mul_le_mul hιle hC (by positivity) (by positivity)
    have s3 : tiny * (|d1| + |d2| + 4) ≤ tiny * 2097156 := mul_le_mul_of_nonneg_left (by linarith) ht0.le
    have e1 : 6 * u * K = u * (2 / |ellDET rx ry sx sy| * (2 * Q0)) + 3 * u * (2 / |ellDET rx ry sx sy| * QC) +
        2 * u * (Q0 / |ellDET rx ry sx sy|) := by rw [hK]; ring
    have : 0 ≤ 2 * u * (Q0 / |ellDET rx ry sx sy|) :=
      mul_nonneg (by rw [hu]; norm_num) (div_nonneg hQ0n hd.le)
    have m1 := mul_le_mul_of_nonneg_left s1 u_pos.le
    have m2 := mul_le_mul_of_nonneg_left s2 (by rw [hu]; norm_num : (0:ℚ) ≤ 3 * u)
    have e2 : u * |ι| * (|P1| + |P2|) = u * (|ι| * (|P1| + |P2|)) := by ring
    have e3 : 3 * u * |ι| * (|C1| + |C2|) = 3 * u * (|ι| * (|C1| + |C2|)) := by ring
    rw [e1, e2, e3]
    rw [hu] at ht m1 m2 this ⊢
    linarith
  -- the products
  have ab : ∀ a b : ℚ, |a * b| = |a| * |b| := abs_mul
  have hC1 : |val sy * val cx| + |(-val sx) * val cy| ≤ QC := by
    rw [ab, ab, abs_neg, hQCe]; linarith [pp (val ry) (val cx), pp (val rx) (val cy)]
  have hC2 : |(-val ry) * val cx| + |val rx * val cy| ≤ QC := by
    rw [ab, ab, abs_neg, hQCe]; linarith [pp (val sy) (val cx), pp (val sx) (val cy)]
  -- centre
  have c1 := r1 0 0
  have c2 := r2 0 0
  simp only [mul_zero, add_zero, abs_zero, sub_zero] at c1 c2
  have c1' := rowK 0 0 _ _ 0 0 (by simp; linarith) hC1 (by simp) (by simp)
  have c2' := rowK 0 0 _ _ 0 0 (by simp; linarith) hC2 (by simp) (by simp)
  simp only [abs_zero, add_zero] at c1' c2'
  have hc1 : |off M (val cx) (val cy)| ≤ 7 * u * K := by
    have := o1 0 0; simp only [add_zero] at this; rw [this]
    simp only [zero_add, mul_zero, add_zero] at c1 c1'
    rw [hu] at c1 c1' ⊢
    linarith
  have hc2 : |off2 M (val cx) (val cy)| ≤ 7 * u * K := by
    have := o2 0 0; simp only [add_zero] at this; rw [this]
    simp only [zero_add, mul_zero, add_zero] at c2 c2'
    rw [hu] at c2 c2' ⊢
    linarith
  -- first axis end point
  have a1 := r1 (val rx) (val ry)
  have a2 := r2 (val rx) (val ry)
  have a1' := rowK (val sy * val rx) ((-val sx) * val ry) _ _ (val rx) (val ry)
    (by rw [ab, ab, abs_neg, hQ0e]; linarith [pp (val rx) (val ry), pp (val sx) (val sy), pp (val sy) (val rx), mul_comm |val sy| |val rx|])
    hC1 h.brx h.bry
  have a2' := rowK ((-val ry) * val rx) (val rx * val ry) _ _ (val rx) (val ry)
    (by rw [ab, ab, abs_neg, hQ0e]; linarith [pp (val rx) (val sy), pp (val sx) (val ry), pp (val sx) (val sy), mul_comm |val ry| |val rx|])
    hC2 h.brx h.bry
  have d1 : val sy * val rx + (-val sx) * val ry = ellDET rx ry sx sy := by unfold ellDET; ring
  have d2 : (-val ry) * val rx + val rx * val ry = 0 := by ring
  rw [d1, ← o1] at a1
  rw [d2, mul_zero, sub_zero, ← o2] at a2
  have hdetK : |ι * ellDET rx ry sx sy - 1| ≤ 4 * u * K + 4 * u := by
    have := mul_le_mul_of_nonneg_left hκK (by rw [hu]; norm_num : (0:ℚ) ≤ 4 * u)
    linarith
  have ha1 : |off M (val cx + val rx) (val cy + val ry) - 1| ≤ E := by
    have t := abs_sub_le (off M (val cx + val rx) (val cy + val ry)) (ι * ellDET rx ry sx sy) 1
    show _ ≤ 15 * u * K
    rw [hu] at a1 a1' hdetK ⊢
    linarith
  have ha2 : |off2 M (val cx + val rx) (val cy + val ry)| ≤ 7 * u * K := by
    rw [hu] at a2 a2' ⊢
    linarith
  -- second axis end point
  have b1 := r1 (val sx) (val sy)
  have b2 := r2 (val sx) (val sy)
  have b1' := rowK (val sy * val sx) ((-val sx) * val sy) _ _ (val sx) (val sy)
    (by rw [ab, ab, abs_neg, hQ0e]; linarith [pp (val rx) (val ry), pp (val rx) (val sy), pp (val sx) (val ry), mul_comm |val sy| |val sx|])
    hC1 h.bsx h.bsy
  have b2' := rowK ((-val ry) * val sx) (val rx * val sy) _ _ (val sx) (val sy)
    (by rw [ab, ab, abs_neg, hQ0e]; linarith [pp (val rx) (val ry), pp (val sx) (val sy), pp (val rx) (val sy), mul_comm |val ry| |val sx|])
    hC2 h.bsx h.bsy
  have d3 : val sy * val sx + (-val sx) * val sy = 0 := by ring
  have d4 : (-val ry) * val sx + val rx * val sy = ellDET rx ry sx sy := by unfold ellDET; ring
  rw [d3, mul_zero, sub_zero, ← o1] at b1
  rw [d4, ← o2] at b2
  have hb1 : |off M (val cx + val sx) (val cy + val sy)| ≤ 7 * u * K := by
    rw [hu] at b1 b1' ⊢
    linarith
  have hb2 : |off2 M (val cx + val sx) (val cy + val sy) - 1| ≤ E := by
    have t := abs_sub_le (off2 M (val cx + val sx) (val cy + val sy)) (ι * ellDET rx ry sx sy) 1
    show _ ≤ 15 * u * K
    rw [hu] at b2 b2' hdetK ⊢
    linarith
  have h7E : 7 * u * K ≤ E := by
    show 7 * u * K ≤ 15 * u * K
    rw [hu]; linarith
  exact ⟨⟨fa, fb, fc, fd, fe, ff⟩, ⟨hc1, hc2⟩, ⟨ha1, ha2⟩, ⟨hb1, hb2⟩,
    near_unit ha1 (le_trans ha2 h7E), near_unit hb2 (le_trans hb1 h7E)⟩

end Ivg.Gen32
