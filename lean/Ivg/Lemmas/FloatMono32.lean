import Ivg.Lemmas.FloatOrder32
/-!
# The binary32 operations are correctly rounded, hence monotone

Mechanical port to `Fmt.f32` / `F32` of the first half of `Ivg/Lemmas/FloatMono.lean` (which is stated for
`Fmt.f64` only), on top of `Ivg/Lemmas/FloatOrder32.lean` (the same port of `FloatOrder.lean`):

* `add_Rnd`, `sub_Rnd`, `mul_Rnd`, `div_Rnd`: on finite operands, the result pattern of `Num.add/sub/mul/div .f32`
  is the correct rounding (`FloatOrder32.Rnd`) of the exact rational result;
* `le_iff_val`, `lt_iff_val`: the float comparisons of finite numbers are the comparisons of their values;
* monotonicity of `+ - * /` for `F32`.
-/
namespace Ivg.FloatMono32
open Ivg Num FloatOrder32

/-! ## wrappers -/

theorem nb_lt (a : F32) : a.nb < 4294967296 := a.bits.toNat_lt

theorem nb_ofNatBits (n : Nat) (h : n < 4294967296) : (F32.ofNatBits n).nb = n := by
  simp only [F32.nb, F32.ofNatBits, UInt32.toNat_ofNat']
  omega

theorem ext_nb {a b : F32} (h : a.nb = b.nb) : a = b := by
  cases a; cases b; simp only [F32.nb] at h; congr; exact UInt32.toNat_inj.1 h

/-- finite -/
def Fin (a : F32) : Prop := FinB a.nb
instance (a : F32) : Decidable (Fin a) := by unfold Fin; infer_instance
/-- not a NaN -/
def NN (a : F32) : Prop := NNB a.nb
instance (a : F32) : Decidable (NN a) := by unfold NN; infer_instance
/-- rational value of a finite number -/
def val (a : F32) : ℚ := bval a.nb
/-- order key of a non-NaN -/
def kk (a : F32) : Int := key a.nb

theorem Fin_NN {a : F32} (h : Fin a) : NN a := FinB_NNB _ h

theorem le_def (a b : F32) : a ≤ b ↔ NN a ∧ NN b ∧ kk a ≤ kk b := by
  show Num.le .f32 a.nb b.nb = true ↔ _
  constructor
  · intro h
    obtain ⟨ha, hb⟩ := le_NNB _ _ h
    exact ⟨ha, hb, (le_iff_key _ _ ha hb).1 h⟩
  · rintro ⟨ha, hb, h⟩
    exact (le_iff_key _ _ ha hb).2 h

theorem lt_def (a b : F32) : a < b ↔ NN a ∧ NN b ∧ kk a < kk b := by
  show Num.lt .f32 a.nb b.nb = true ↔ _
  constructor
  · intro h
    obtain ⟨ha, hb⟩ := lt_NNB _ _ h
    exact ⟨ha, hb, (lt_iff_key _ _ ha hb).1 h⟩
  · rintro ⟨ha, hb, h⟩
    exact (lt_iff_key _ _ ha hb).2 h

theorem kk_le_iff {a b : F32} (ha : Fin a) (hb : Fin b) : kk a ≤ kk b ↔ val a ≤ val b :=
  key_le_iff _ _ (nb_lt a) (nb_lt b) ha hb

theorem kk_lt_iff {a b : F32} (ha : Fin a) (hb : Fin b) : kk a < kk b ↔ val a < val b :=
  key_lt_iff _ _ (nb_lt a) (nb_lt b) ha hb

theorem le_iff_val {a b : F32} (ha : Fin a) (hb : Fin b) : a ≤ b ↔ val a ≤ val b := by
  rw [le_def, kk_le_iff ha hb]
  exact ⟨fun h => h.2.2, fun h => ⟨Fin_NN ha, Fin_NN hb, h⟩⟩

theorem lt_iff_val {a b : F32} (ha : Fin a) (hb : Fin b) : a < b ↔ val a < val b := by
  rw [lt_def, kk_lt_iff ha hb]
  exact ⟨fun h => h.2.2, fun h => ⟨Fin_NN ha, Fin_NN hb, h⟩⟩

theorem not_le_of_NN {a b : F32} (ha : NN a) (hb : NN b) (h : ¬ a ≤ b) : b < a := by
  rw [le_def] at h; rw [lt_def]
  refine ⟨hb, ha, ?_⟩
  by_contra hc
  exact h ⟨ha, hb, by omega⟩

theorem not_lt_of_NN {a b : F32} (ha : NN a) (hb : NN b) (h : ¬ a < b) : b ≤ a := by
  rw [lt_def] at h; rw [le_def]
  refine ⟨hb, ha, ?_⟩
  by_contra hc
  exact h ⟨ha, hb, by omega⟩

/-- a non-NaN whose key lies strictly between the infinities is finite -/
theorem Fin_of_key {a : F32} (_ha : NN a) (h1 : -2139095040 < kk a) (h2 : kk a < 2139095040) :
    Fin a := by
  unfold Fin FinB
  unfold kk key at h1 h2
  have := nb_lt a
  split at h1 <;> omega

theorem kk_bound {a : F32} (ha : Fin a) : -2139095040 < kk a ∧ kk a < 2139095040 := by
  have := (magnitude_fin a.nb ha).2
  have := nb_lt a
  unfold kk key
  split <;> omega

/-- between two finite numbers there are only finite numbers -/
theorem Fin_between {lo a hi : F32} (hlo : Fin lo) (hhi : Fin hi) (h1 : lo ≤ a) (h2 : a ≤ hi) : Fin a := by
  rw [le_def] at h1 h2
  have := kk_bound hlo
  have := kk_bound hhi
  exact Fin_of_key h1.2.1 (by omega) (by omega)

/-! ## negation and absolute value -/

theorem neg_nb (a : F32) : (-a).nb = Num.neg .f32 a.nb := by
  show (F32.ofNatBits _).nb = _
  apply nb_ofNatBits
  have := nb_lt a
  unfold Num.neg; rw [signBit_f32]; split <;> omega

theorem neg_NN {a : F32} : NN (-a) ↔ NN a := by
  unfold NN NNB; rw [neg_nb]; unfold Num.neg; rw [signBit_f32]
  have := nb_lt a
  split <;> omega

theorem kk_neg (a : F32) : kk (-a) = - kk a := by
  unfold kk key; rw [neg_nb]; unfold Num.neg; rw [signBit_f32]
  have := nb_lt a
  split <;> split <;> omega

theorem neg_Fin {a : F32} : Fin (-a) ↔ Fin a := by
  unfold Fin FinB; rw [neg_nb]; unfold Num.neg; rw [signBit_f32]
  have := nb_lt a
  split <;> omega

theorem neg_fields (b : Nat) (hb : b < 4294967296) :
    negB32 (Num.neg .f32 b) = !negB32 b ∧ mantB (Num.neg .f32 b) = mantB b ∧ expB (Num.neg .f32 b) = expB b := by
  unfold Num.neg negB32 mantB expB; rw [signBit_f32]
  split
  · rename_i h
    have h1 : (b - 2147483648) / 8388608 % 256 = b / 8388608 % 256 := by omega
    have h2 : (b - 2147483648) % 8388608 = b % 8388608 := by omega
    have h3 : (b - 2147483648) / 2147483648 % 2 = 0 := by omega
    have h4 : b / 2147483648 % 2 = 1 := by omega
    rw [h1, h2, h3, h4]; simp
  · rename_i h
    have h1 : (b + 2147483648) / 8388608 % 256 = b / 8388608 % 256 := by omega
    have h2 : (b + 2147483648) % 8388608 = b % 8388608 := by omega
    have h3 : (b + 2147483648) / 2147483648 % 2 = 1 := by omega
    have h4 : b / 2147483648 % 2 = 0 := by omega
    rw [h1, h2, h3, h4]; simp

theorem bval_neg (b : Nat) (hb : b < 4294967296) : bval (Num.neg .f32 b) = - bval b := by
  obtain ⟨h1, h2, h3⟩ := neg_fields b hb
  unfold bval sval
  rw [h1, h2, h3]
  cases negB32 b <;> simp

theorem val_neg (a : F32) : val (-a) = - val a := by
  unfold val; rw [neg_nb]; exact bval_neg _ (nb_lt a)

/-! ## the operations on finite operands round the exact result -/

theorem int_cast_signed (z : Int) : (z : ℚ) = (if decide (z < 0) then -1 else 1) * ((z.natAbs : ℚ)) := by
  rcases Int.eq_nat_or_neg z with ⟨k, rfl | rfl⟩
  · have : ¬ ((k : Int) < 0) := by omega
    simp [this]
  · by_cases hk : k = 0
    · subst hk; simp
    · have : (-(k : Int) < 0) := by omega
      simp

theorem sval_split (s : Bool) (m : Nat) (e e0 : Int) (h : e0 ≤ e) :
    sval s m e = (((if s then -((m * 2 ^ (e - e0).toNat : Nat) : Int) else ((m * 2 ^ (e - e0).toNat : Nat) : Int)) : Int) : ℚ)
      * pow2 e0 := by
  unfold sval
  rw [pow2_split e e0 h]
  cases s <;> simp <;> ring

theorem add_core' (s : Bool) (m : Nat) (e : Int) (t : Bool) (n : Nat) (g e0 x' y' : Int)
    (hx : sval s m e = (x' : ℚ) * pow2 e0) (hy : sval t n g = (y' : ℚ) * pow2 e0) :
    Rnd (sval s m e + sval t n g)
      (if (x' + y' == 0) = true then withSign .f32 (s && t) 0
       else roundPack .f32 (decide (x' + y' < 0)) (x' + y').natAbs e0) := by
  have hv : sval s m e + sval t n g = ((x' + y' : Int) : ℚ) * pow2 e0 := by
    rw [hx, hy]; push_cast; ring
  rw [hv]
  generalize x' + y' = z
  by_cases hz : z = 0
  · have : (z == 0) = true := by simp [hz]
    rw [this, hz]
    simp only [if_true, Int.cast_zero, zero_mul]
    exact Rnd_zero _
  · have : (z == 0) = false := by simp [hz]
    rw [this]
    simp only [Bool.false_eq_true, if_false]
    have h := Rnd_int (decide (z < 0)) z.natAbs e0 (by omega)
    rw [int_cast_signed z, mul_assoc]
    exact h

theorem min_le_both (e g : Int) : (if e ≤ g then e else g) ≤ e ∧ (if e ≤ g then e else g) ≤ g := by
  split <;> omega

theorem add_core (s : Bool) (m : Nat) (e : Int) (t : Bool) (n : Nat) (g : Int) :
    Rnd (sval s m e + sval t n g)
      (let e0 := if e ≤ g then e else g
       let x : Int := (m * 2 ^ (e - e0).toNat : Nat)
       let y : Int := (n * 2 ^ (g - e0).toNat : Nat)
       let x := if s then -x else x
       let y := if t then -y else y
       let z := x + y
       if z == 0 then withSign .f32 (s && t) 0 else roundPack .f32 (z < 0) z.natAbs e0) :=
  add_core' s m e t n g _ _ _ (sval_split s m e _ (min_le_both e g).1) (sval_split t n g _ (min_le_both e g).2)

theorem add_Rnd (a b : Nat) (fa : FinB a) (fb : FinB b) : Rnd (bval a + bval b) (Num.add .f32 a b) := by
  unfold Num.add bval
  rw [unpack_fin a fa, unpack_fin b fb]
  exact add_core _ _ _ _ _ _

/-- the sign of an exact zero sum -/
theorem add_nonneg_bits (a b : Nat) (fa : FinB a) (fb : FinB b) (hs : negB32 a = false)
    (hv : 0 ≤ bval a + bval b) : Num.add .f32 a b ≤ 2139095040 := by
  have hR := add_Rnd a b fa fb
  rcases lt_or_eq_of_le hv with hpos | hzero
  · rcases hR with ⟨h0, _⟩ | ⟨_, T, d, e, _, _, hb⟩ | ⟨h0, _⟩
    · exact absurd h0 (ne_of_gt hpos)
    · rw [hb]; exact rmag_le_inf _ _ _
    · exact absurd h0 (not_lt.2 hv)
  · -- exact zero: the model returns `+0` because the first operand is positive
    unfold Num.add bval at *
    rw [unpack_fin a fa, unpack_fin b fb] at *
    rw [hs] at *
    generalize mantB a = m at *
    generalize expB a = e at *
    generalize negB32 b = t at *
    generalize mantB b = n at *
    generalize expB b = g at *
    simp only []
    have he0 : (if e ≤ g then e else g) ≤ e ∧ (if e ≤ g then e else g) ≤ g := by split <;> omega
    generalize (if e ≤ g then e else g) = e0 at *
    have hv2 := hzero.symm
    rw [sval_split false m e e0 he0.1, sval_split t n g e0 he0.2, ← add_mul] at hv2
    have hp := pow2_ne e0
    have hz : ((((if false = true then -((m * 2 ^ (e - e0).toNat : Nat) : Int) else ((m * 2 ^ (e - e0).toNat : Nat) : Int)) : Int) : ℚ) +
        (((if t = true then -((n * 2 ^ (g - e0).toNat : Nat) : Int) else ((n * 2 ^ (g - e0).toNat : Nat) : Int)) : Int) : ℚ)) = 0 := by
      rcases mul_eq_zero.1 hv2 with h | h
      · exact h
      · exact absurd h hp
    have hz' : ((if false = true then -((m * 2 ^ (e - e0).toNat : Nat) : Int) else ((m * 2 ^ (e - e0).toNat : Nat) : Int)) +
        (if t = true then -((n * 2 ^ (g - e0).toNat : Nat) : Int) else ((n * 2 ^ (g - e0).toNat : Nat) : Int)) : Int) = 0 := by
      exact_mod_cast hz
    rw [hz']
    simp [withSign]

theorem mul_Rnd (a b : Nat) (fa : FinB a) (fb : FinB b) : Rnd (bval a * bval b) (Num.mul .f32 a b) := by
  unfold Num.mul bval
  rw [unpack_fin a fa, unpack_fin b fb]
  generalize negB32 a = s; generalize mantB a = m; generalize expB a = e
  generalize negB32 b = t; generalize mantB b = n; generalize expB b = g
  simp only []
  have hv : sval s m e * sval t n g = (if (s != t) then -1 else 1) * (((m * n : Nat) : ℚ) * pow2 (e + g)) := by
    unfold sval; rw [pow2_add]
    cases s <;> cases t <;> simp <;> ring
  rw [hv]
  by_cases h0 : m * n = 0
  · rw [h0]
    have : roundPack .f32 (s != t) 0 (e + g) = withSign .f32 (s != t) 0 := by simp [roundPack]
    rw [this]
    simp only [Nat.cast_zero, zero_mul, mul_zero]
    exact Rnd_zero _
  · exact Rnd_int _ _ _ h0

theorem quot_bits (m n : Nat) (hm : 0 < m) (hn : 0 < n) (hm53 : m < 16777216) :
    Ok (m * 2 ^ (24 + 3 + bitLen n - bitLen m)) n := by
  obtain ⟨hm1, _, hm3⟩ := bitLen_bounds hm
  have hn2 := bitLen_lt_pow n
  have hmL : bitLen m ≤ 24 := bitLen_le (k := 24) (by omega)
  refine ⟨hn, Nat.mul_pos hm (Nat.two_pow_pos _), Or.inr ?_⟩
  have hk : bitLen m - 1 + (24 + 3 + bitLen n - bitLen m) = 26 + bitLen n := by omega
  have h1 : 2 ^ (26 + bitLen n) ≤ m * 2 ^ (24 + 3 + bitLen n - bitLen m) := by
    rw [← hk, Nat.pow_add]; exact Nat.mul_le_mul_right _ hm1
  have h2 : 2 ^ 26 * n ≤ 2 ^ (26 + bitLen n) := by
    rw [Nat.pow_add]; exact Nat.mul_le_mul_left _ (by omega)
  have h3 : 2 ^ 26 ≤ m * 2 ^ (24 + 3 + bitLen n - bitLen m) / n :=
    (Nat.le_div_iff_mul_le hn).2 (by omega)
  have := bitLen_ge h3
  omega

theorem div_Rnd (a b : Nat) (fa : FinB a) (fb : FinB b) (hb0 : mantB b ≠ 0) :
    Rnd (bval a / bval b) (Num.div .f32 a b) := by
  have hm53 := mantB_lt a
  unfold Num.div bval
  rw [unpack_fin a fa, unpack_fin b fb]
  generalize negB32 a = s at *; generalize mantB a = m at *; generalize expB a = e at *
  generalize negB32 b = t at *; generalize mantB b = n at *; generalize expB b = g at *
  have h1 : (n == 0) = false := by simp [hb0]
  simp only [h1, Bool.false_eq_true, if_false, prec_f32]
  by_cases hm0 : m = 0
  · subst hm0
    simp only [beq_self_eq_true, if_true]
    have : sval s 0 e / sval t n g = 0 := by simp [sval]
    rw [this]; exact Rnd_zero _
  · have h2 : (m == 0) = false := by simp [hm0]
    simp only [h2, Bool.false_eq_true, if_false]
    have hOk := quot_bits m n (by omega) (by omega) hm53
    generalize 24 + 3 + bitLen n - bitLen m = k at *
    rw [roundPack_rmag _ _ _ _ hOk.1 hOk.2.1]
    have hv : sval s m e / sval t n g =
        (if (s != t) then -1 else 1) * (((m * 2 ^ k : Nat) : ℚ) / n * pow2 (e - g - k)) := by
      unfold sval
      have hn : (n : ℚ) ≠ 0 := by exact_mod_cast hb0
      have hpg := pow2_ne g
      have hpk : ((2:ℚ)^k) ≠ 0 := by positivity
      rw [pow2_sub, pow2_sub, pow2_nat]
      push_cast
      cases s <;> cases t <;> simp <;> field_simp
    rw [hv]
    exact Rnd_ratio _ _ _ _ hOk

theorem isNaN_of_FinB (b : Nat) (h : FinB b) : Num.isNaN .f32 b = false := (isNaN_iff b).2 (FinB_NNB b h)

theorem neg_FinB (b : Nat) (hb : b < 4294967296) (h : FinB b) : FinB (Num.neg .f32 b) := by
  unfold FinB at *; unfold Num.neg; rw [signBit_f32]; split <;> omega

theorem sub_Rnd (a b : Nat) (hb : b < 4294967296) (fa : FinB a) (fb : FinB b) :
    Rnd (bval a - bval b) (Num.sub .f32 a b) := by
  unfold Num.sub
  rw [isNaN_of_FinB a fa, isNaN_of_FinB b fb]
  simp only [Bool.or_self, Bool.false_eq_true, if_false]
  have := add_Rnd a (Num.neg .f32 b) fa (neg_FinB b hb fb)
  rw [bval_neg b hb] at this
  rw [sub_eq_add_neg]; exact this

/-! ## `F32` level: rounding, monotonicity -/

theorem Rnd_val {a : F32} (ha : Fin a) : Rnd (val a) a.nb := Rnd_self _ (nb_lt a) ha

theorem add_nb {a b : F32} (ha : Fin a) (hb : Fin b) : Rnd (val a + val b) (a + b).nb := by
  have h := add_Rnd a.nb b.nb ha hb
  have : (a + b).nb = Num.add .f32 a.nb b.nb := nb_ofNatBits _ (Rnd_lt _ _ h).2
  rw [this]; exact h

theorem sub_nb {a b : F32} (ha : Fin a) (hb : Fin b) : Rnd (val a - val b) (a - b).nb := by
  have h := sub_Rnd a.nb b.nb (nb_lt b) ha hb
  have : (a - b).nb = Num.sub .f32 a.nb b.nb := nb_ofNatBits _ (Rnd_lt _ _ h).2
  rw [this]; exact h

theorem mul_nb {a b : F32} (ha : Fin a) (hb : Fin b) : Rnd (val a * val b) (a * b).nb := by
  have h := mul_Rnd a.nb b.nb ha hb
  have : (a * b).nb = Num.mul .f32 a.nb b.nb := nb_ofNatBits _ (Rnd_lt _ _ h).2
  rw [this]; exact h

theorem mant_ne_of_val {b : F32} (h : val b ≠ 0) : mantB b.nb ≠ 0 := by
  intro h0; apply h; simp [val, bval, sval, h0]

theorem div_nb {a b : F32} (ha : Fin a) (hb : Fin b) (h0 : val b ≠ 0) : Rnd (val a / val b) (a / b).nb := by
  have h := div_Rnd a.nb b.nb ha hb (mant_ne_of_val h0)
  have : (a / b).nb = Num.div .f32 a.nb b.nb := nb_ofNatBits _ (Rnd_lt _ _ h).2
  rw [this]; exact h

/-- correctly rounded images of ordered rationals are ordered -/
theorem Rnd_le {v v' : ℚ} {a b : F32} (ha : Rnd v a.nb) (hb : Rnd v' b.nb) (h : v ≤ v') : a ≤ b := by
  rw [le_def]; exact ⟨Rnd_NNB _ _ ha, Rnd_NNB _ _ hb, Rnd_mono _ _ _ _ ha hb h⟩

theorem val_le_of_le {a b : F32} (ha : Fin a) (hb : Fin b) (h : a ≤ b) : val a ≤ val b :=
  (le_iff_val ha hb).1 h

theorem add_mono {a a' b b' : F32} (fa : Fin a) (fa' : Fin a') (fb : Fin b) (fb' : Fin b')
    (h1 : a ≤ a') (h2 : b ≤ b') : a + b ≤ a' + b' :=
  Rnd_le (add_nb fa fb) (add_nb fa' fb') (add_le_add (val_le_of_le fa fa' h1) (val_le_of_le fb fb' h2))

theorem sub_mono {a a' b b' : F32} (fa : Fin a) (fa' : Fin a') (fb : Fin b) (fb' : Fin b')
    (h1 : a ≤ a') (h2 : b' ≤ b) : a - b ≤ a' - b' :=
  Rnd_le (sub_nb fa fb) (sub_nb fa' fb') (sub_le_sub (val_le_of_le fa fa' h1) (val_le_of_le fb' fb h2))

theorem mul_mono_nonneg {a a' b b' : F32} (fa : Fin a) (fa' : Fin a') (fb : Fin b) (fb' : Fin b')
    (ha0 : 0 ≤ val a) (hb0 : 0 ≤ val b) (h1 : a ≤ a') (h2 : b ≤ b') : a * b ≤ a' * b' :=
  Rnd_le (mul_nb fa fb) (mul_nb fa' fb')
    (mul_le_mul (val_le_of_le fa fa' h1) (val_le_of_le fb fb' h2) hb0
      (le_trans ha0 (val_le_of_le fa fa' h1)))

/-- division by a fixed positive divisor is monotone -/
theorem div_mono_num {a a' b : F32} (fa : Fin a) (fa' : Fin a') (fb : Fin b) (hb : 0 < val b)
    (h : a ≤ a') : a / b ≤ a' / b :=
  Rnd_le (div_nb fa fb (ne_of_gt hb)) (div_nb fa' fb (ne_of_gt hb))
    (div_le_div_of_nonneg_right (val_le_of_le fa fa' h) (le_of_lt hb))

/-- a non-negative dividend divided by a larger positive divisor gives less -/
theorem div_anti_den {a b b' : F32} (fa : Fin a) (fb : Fin b) (fb' : Fin b') (ha : 0 ≤ val a)
    (hb' : 0 < val b') (h : b' ≤ b) : a / b ≤ a / b' := by
  have hb : 0 < val b := lt_of_lt_of_le hb' (val_le_of_le fb' fb h)
  exact Rnd_le (div_nb fa fb (ne_of_gt hb)) (div_nb fa fb' (ne_of_gt hb'))
    (div_le_div_of_nonneg_left ha hb' (val_le_of_le fb' fb h))

/-- a representable upper bound of the exact result bounds the rounded result -/
theorem le_of_Rnd_le {v : ℚ} {r B : F32} (hr : Rnd v r.nb) (fB : Fin B) (h : v ≤ val B) : r ≤ B :=
  Rnd_le hr (Rnd_val fB) h

theorem ge_of_Rnd_ge {v : ℚ} {r B : F32} (hr : Rnd v r.nb) (fB : Fin B) (h : val B ≤ v) : B ≤ r :=
  Rnd_le (Rnd_val fB) hr h

theorem le_refl' {a : F32} (h : NN a) : a ≤ a := by rw [le_def]; exact ⟨h, h, le_refl _⟩

theorem le_trans' {a b c : F32} (h1 : a ≤ b) (h2 : b ≤ c) : a ≤ c := by
  rw [le_def] at *; exact ⟨h1.1, h2.2.1, by omega⟩

theorem lt_le' {a b : F32} (h : a < b) : a ≤ b := by
  rw [lt_def] at h; rw [le_def]; exact ⟨h.1, h.2.1, by omega⟩

theorem neg_le_neg' {a b : F32} (h : a ≤ b) : -b ≤ -a := by
  rw [le_def] at *; rw [kk_neg, kk_neg]
  exact ⟨neg_NN.2 h.2.1, neg_NN.2 h.1, by omega⟩


end Ivg.FloatMono32
