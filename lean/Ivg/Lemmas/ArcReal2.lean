import Ivg.Lemmas.ArcReal
/-!
# The arc algorithm over the real numbers, part 2: the arc starts at the pen and ends at the end point

With `c := arcCentreG …` at `ℝ` (see `ArcReal.lean`): `arcEndG c c.theta1` is the start point and
`arcEndG c (c.theta1 + c.deltaTheta)` is the end point; hence, for every segment count `n ≥ 1`, the first
segment starts at the pen, the last one ends at the arc's end point, every segment ends on the ellipse, and
each segment sweeps exactly `Δθ / n`.

The work is the `angle` closure: for UNIT vectors `u`, `v` it returns the angle `θ ∈ [-π, π]` with
`cos θ = u·v` and `sin θ = u×v` (`cos_angleR_unit`, `sin_angleR_unit`); that the vectors `a`, `b` of step 4 are
unit vectors is `In.a_unit`, `In.b_unit` of part 1.
-/
namespace Ivg.ArcReal
open Ivg Ren Real

/-! ## The `angle` closure on unit vectors -/

/-- Cauchy–Schwarz for unit vectors, from Lagrange's identity -/
theorem dot_sq_add_cross_sq {ux uy vx vy : ℝ} (hu : ux ^ 2 + uy ^ 2 = 1) (hv : vx ^ 2 + vy ^ 2 = 1) :
    (ux * vx + uy * vy) ^ 2 + (ux * vy - uy * vx) ^ 2 = 1 := by
  have : (ux * vx + uy * vy) ^ 2 + (ux * vy - uy * vx) ^ 2 = (ux ^ 2 + uy ^ 2) * (vx ^ 2 + vy ^ 2) := by ring
  rw [this, hu, hv]; norm_num

theorem dot_range {ux uy vx vy : ℝ} (hu : ux ^ 2 + uy ^ 2 = 1) (hv : vx ^ 2 + vy ^ 2 = 1) :
    -1 ≤ ux * vx + uy * vy ∧ ux * vx + uy * vy ≤ 1 := by
  have h := dot_sq_add_cross_sq hu hv
  constructor <;> nlinarith [sq_nonneg (ux * vy - uy * vx)]

/-- on unit vectors the three-way case distinction of `angle` is `arccos` of the scalar product, negated when
    the cross product is negative -/
theorem angleR_unit {ux uy vx vy : ℝ} (hu : ux ^ 2 + uy ^ 2 = 1) (hv : vx ^ 2 + vy ^ 2 = 1) :
    angleR ux uy vx vy =
      if ux * vy < uy * vx then -arccos (ux * vx + uy * vy) else arccos (ux * vx + uy * vy) := by
  have h1 : √(ux * ux + uy * uy) = 1 := by rw [← sq, ← sq, hu, Real.sqrt_one]
  have h2 : √(vx * vx + vy * vy) = 1 := by rw [← sq, ← sq, hv, Real.sqrt_one]
  have hret : ∀ d : ℝ, (if d ≤ -1 then π else if 1 ≤ d then 0 else arccos d) = arccos d := by
    intro d
    split
    · rename_i h; exact (arccos_of_le_neg_one h).symm
    · split
      · rename_i h; exact (arccos_eq_zero.2 h).symm
      · rfl
  unfold angleR
  rw [h1, h2, castm1, cast1, cast0, mul_one, div_one, hret]

theorem cos_angleR_unit {ux uy vx vy : ℝ} (hu : ux ^ 2 + uy ^ 2 = 1) (hv : vx ^ 2 + vy ^ 2 = 1) :
    cos (angleR ux uy vx vy) = ux * vx + uy * vy := by
  obtain ⟨h1, h2⟩ := dot_range hu hv
  rw [angleR_unit hu hv]
  split
  · rw [cos_neg, cos_arccos h1 h2]
  · rw [cos_arccos h1 h2]

theorem sin_angleR_unit {ux uy vx vy : ℝ} (hu : ux ^ 2 + uy ^ 2 = 1) (hv : vx ^ 2 + vy ^ 2 = 1) :
    sin (angleR ux uy vx vy) = ux * vy - uy * vx := by
  have h := dot_sq_add_cross_sq hu hv
  have hs : sin (arccos (ux * vx + uy * vy)) = |ux * vy - uy * vx| := by
    rw [sin_arccos, show 1 - (ux * vx + uy * vy) ^ 2 = (ux * vy - uy * vx) ^ 2 by linarith,
      Real.sqrt_sq_eq_abs]
  rw [angleR_unit hu hv]
  split
  · rename_i hlt
    rw [sin_neg, hs, abs_of_neg (by linarith)]; ring
  · rename_i hlt
    rw [hs, abs_of_nonneg (by linarith)]

theorem angleR_range {ux uy vx vy : ℝ} (hu : ux ^ 2 + uy ^ 2 = 1) (hv : vx ^ 2 + vy ^ 2 = 1) :
    -π ≤ angleR ux uy vx vy ∧ angleR ux uy vx vy ≤ π := by
  have h1 := arccos_nonneg (ux * vx + uy * vy)
  have h2 := arccos_le_pi (ux * vx + uy * vy)
  rw [angleR_unit hu hv]
  split <;> constructor <;> linarith [pi_pos]

/-- the sweep adjustment changes `Δθ` by a multiple of `2π` -/
theorem cos_adjustR (sw : Bool) (d : ℝ) : cos (adjustR sw d) = cos d := by
  unfold adjustR
  rw [cast0, cast2]
  split <;> split <;> simp [cos_add_two_pi, cos_sub_two_pi]

theorem sin_adjustR (sw : Bool) (d : ℝ) : sin (adjustR sw d) = sin d := by
  unfold adjustR
  rw [cast0, cast2]
  split <;> split <;> simp [sin_add_two_pi, sin_sub_two_pi]

/-! ## The start and end angles -/
namespace In
variable {I : In}

theorem cos_theta1 (h : I.Valid) : cos I.centre.theta1 = I.ax := by
  rw [centre_theta1, cos_angleR_unit (by norm_num) (a_unit h)]; ring
theorem sin_theta1 (h : I.Valid) : sin I.centre.theta1 = I.ay := by
  rw [centre_theta1, sin_angleR_unit (by norm_num) (a_unit h)]; ring
theorem cos_deltaTheta (h : I.Valid) : cos I.centre.deltaTheta = I.ax * I.bx + I.ay * I.by' := by
  rw [centre_deltaTheta, cos_adjustR, rawDelta, cos_angleR_unit (a_unit h) (b_unit h)]
theorem sin_deltaTheta (h : I.Valid) : sin I.centre.deltaTheta = I.ax * I.by' - I.ay * I.bx := by
  rw [centre_deltaTheta, sin_adjustR, rawDelta, sin_angleR_unit (a_unit h) (b_unit h)]
theorem cos_theta2 (h : I.Valid) : cos (I.centre.theta1 + I.centre.deltaTheta) = I.bx := by
  rw [cos_add, cos_theta1 h, sin_theta1 h, cos_deltaTheta h, sin_deltaTheta h]
  linear_combination I.bx * a_unit h
theorem sin_theta2 (h : I.Valid) : sin (I.centre.theta1 + I.centre.deltaTheta) = I.by' := by
  rw [sin_add, cos_theta1 h, sin_theta1 h, cos_deltaTheta h, sin_deltaTheta h]
  linear_combination I.by' * a_unit h

/-- the ellipse point at the start angle is the start point -/
theorem arcEnd_theta1 (h : I.Valid) : arcEndG I.centre I.centre.theta1 = (I.x1, I.y1) := by
  rw [arcEndG_real, cos_theta1 h, sin_theta1 h, centre_Rx, centre_Ry, Rx_ax h, Ry_ay h,
    centre_cosPhi, centre_sinPhi, centre_cx, centre_cy, xp_def, yp_def]
  refine Prod.ext ?_ ?_
  · simp only []
    linear_combination ((I.x1 - I.x2) / 2) * (cos_sq_add_sin_sq I.phi)
  · simp only []
    linear_combination ((I.y1 - I.y2) / 2) * (cos_sq_add_sin_sq I.phi)

/-- the ellipse point at the end angle is the end point -/
theorem arcEnd_theta2 (h : I.Valid) :
    arcEndG I.centre (I.centre.theta1 + I.centre.deltaTheta) = (I.x2, I.y2) := by
  rw [arcEndG_real, cos_theta2 h, sin_theta2 h, centre_Rx, centre_Ry, Rx_bx h, Ry_by h,
    centre_cosPhi, centre_sinPhi, centre_cx, centre_cy, xp_def, yp_def]
  refine Prod.ext ?_ ?_
  · simp only []
    linear_combination (-(I.x1 - I.x2) / 2) * (cos_sq_add_sin_sq I.phi)
  · simp only []
    linear_combination (-(I.y1 - I.y2) / 2) * (cos_sq_add_sin_sq I.phi)

end In

/-! ## Headline statements with explicit arguments -/

/-- **(b) The arc starts at the pen.**  The ellipse point at the start angle `θ₁` is the start point. -/
theorem starts_at_pen {x1 y1 x2 y2 Rx0 Ry0 : ℝ} (phi : ℝ) (la sw : Bool)
    (hRx : 0 < Rx0) (hRy : 0 < Ry0) (hne : (x1, y1) ≠ (x2, y2)) :
    let c := arcCentreG x1 y1 x2 y2 Rx0 Ry0 phi la sw
    arcEndG c c.theta1 = (x1, y1) := by
  intro c
  let I : In := In.mk x1 y1 x2 y2 Rx0 Ry0 phi la sw
  have h : I.Valid := ⟨hRx, hRy, hne⟩
  have hc : c = I.centre := rfl
  rw [hc]
  exact In.arcEnd_theta1 h

/-- **(b) The arc ends at the arc's end point.**  The ellipse point at the end angle `θ₁ + Δθ` is the end point. -/
theorem ends_at_endpoint {x1 y1 x2 y2 Rx0 Ry0 : ℝ} (phi : ℝ) (la sw : Bool)
    (hRx : 0 < Rx0) (hRy : 0 < Ry0) (hne : (x1, y1) ≠ (x2, y2)) :
    let c := arcCentreG x1 y1 x2 y2 Rx0 Ry0 phi la sw
    arcEndG c (c.theta1 + c.deltaTheta) = (x2, y2) := by
  intro c
  let I : In := In.mk x1 y1 x2 y2 Rx0 Ry0 phi la sw
  have h : I.Valid := ⟨hRx, hRy, hne⟩
  have hc : c = I.centre := rfl
  rw [hc]
  exact In.arcEnd_theta2 h

example := starts_at_pen (x1 := 0) (y1 := 0) (x2 := 2) (y2 := 0) (Rx0 := 1) (Ry0 := 1) 0 true true
  one_pos one_pos (by simp)
example := ends_at_endpoint (x1 := 0) (y1 := 0) (x2 := 2) (y2 := 0) (Rx0 := 1) (Ry0 := 1) 0 true true
  one_pos one_pos (by simp)

/-- segment `0` starts at angle `θ₁` -/
theorem arcSegAngle_zero (c : ArcCentre ℝ) (n : ℤ) : arcSegAngleG c n 0 = c.theta1 := by
  rw [arcSegAngleG_real]; simp

/-- the last segment (`i = n - 1`) ends at angle `θ₁ + Δθ` -/
theorem arcSegAngle_last (c : ArcCentre ℝ) {n : ℤ} (hn : n ≠ 0) :
    arcSegAngleG c n n = c.theta1 + c.deltaTheta := by
  rw [arcSegAngleG_real]
  have : (n : ℝ) ≠ 0 := by exact_mod_cast hn
  field_simp

/-- every segment sweeps exactly `Δθ / n` -/
theorem arcSegAngle_step (c : ArcCentre ℝ) (n i : ℤ) :
    arcSegAngleG c n (i + 1) - arcSegAngleG c n i = c.deltaTheta / n := by
  rw [arcSegAngleG_real, arcSegAngleG_real]
  push_cast
  ring

/-- **(b) The subdivision, for every segment count `n ≥ 1`.**  With `θ i = arcSegAngleG c n i` (segment `i` runs
    from `θ i` to `θ (i+1)`, so consecutive segments share their joint by construction — see
    `Ivg.Ren.arcSegments_eq_map`):
    the first segment starts at the pen, the last segment ends at the arc's end point, every segment ends at a
    point of the ellipse of part (a), and every segment sweeps `Δθ / n`. -/
theorem segments_on_arc {x1 y1 x2 y2 Rx0 Ry0 : ℝ} (phi : ℝ) (la sw : Bool)
    (hRx : 0 < Rx0) (hRy : 0 < Ry0) (hne : (x1, y1) ≠ (x2, y2)) (n : ℤ) (hn : 1 ≤ n) :
    let c := arcCentreG x1 y1 x2 y2 Rx0 Ry0 phi la sw
    arcEndG c (arcSegAngleG c n 0) = (x1, y1) ∧
    arcEndG c (arcSegAngleG c n ((n - 1) + 1)) = (x2, y2) ∧
    (∀ i : ℤ, OnEllipse c (arcEndG c (arcSegAngleG c n (i + 1)))) ∧
    (∀ i : ℤ, arcSegAngleG c n (i + 1) - arcSegAngleG c n i = c.deltaTheta / n) := by
  intro c
  obtain ⟨h1, h2, h3, h4, -, -⟩ := centre_on_ellipse phi la sw hRx hRy hne
  refine ⟨?_, ?_, ?_, fun i => arcSegAngle_step c n i⟩
  · rw [arcSegAngle_zero]; exact starts_at_pen phi la sw hRx hRy hne
  · rw [sub_add_cancel, arcSegAngle_last c (by omega)]; exact ends_at_endpoint phi la sw hRx hRy hne
  · intro i
    refine arcEnd_on_ellipse c (ne_of_gt h3) (ne_of_gt h4) ?_ _
    show c.cosPhi ^ 2 + c.sinPhi ^ 2 = 1
    rw [h1, h2]; exact cos_sq_add_sin_sq phi

example := segments_on_arc (x1 := 0) (y1 := 0) (x2 := 2) (y2 := 0) (Rx0 := 1) (Ry0 := 1) 0 true true
  one_pos one_pos (by simp) 2 (by norm_num)


/-! ## The control points: each cubic is tangent to the ellipse at both of its ends -/

theorem arcCtrl1G_real (c : ArcCentre ℝ) (θ1 θ2 : ℝ) :
    arcCtrl1G c θ1 θ2 =
      (c.cx + c.cosPhi * (c.Rx * (cos θ1 - arcArmG θ1 θ2 * sin θ1)) - c.sinPhi * (c.Ry * (sin θ1 + arcArmG θ1 θ2 * cos θ1)),
       c.cy + c.sinPhi * (c.Rx * (cos θ1 - arcArmG θ1 θ2 * sin θ1)) + c.cosPhi * (c.Ry * (sin θ1 + arcArmG θ1 θ2 * cos θ1))) := rfl

theorem arcCtrl2G_real (c : ArcCentre ℝ) (θ1 θ2 : ℝ) :
    arcCtrl2G c θ1 θ2 =
      (c.cx + c.cosPhi * (c.Rx * (cos θ2 + arcArmG θ1 θ2 * sin θ2)) - c.sinPhi * (c.Ry * (sin θ2 - arcArmG θ1 θ2 * cos θ2)),
       c.cy + c.sinPhi * (c.Rx * (cos θ2 + arcArmG θ1 θ2 * sin θ2)) + c.cosPhi * (c.Ry * (sin θ2 - arcArmG θ1 θ2 * cos θ2))) := rfl

/-- the derivative `dP/dθ` of the ellipse parameterisation `θ ↦ arcEndG c θ` -/
noncomputable def arcTangent (c : ArcCentre ℝ) (θ : ℝ) : ℝ × ℝ :=
  (c.cosPhi * (-(c.Rx * sin θ)) - c.sinPhi * (c.Ry * cos θ),
   c.sinPhi * (-(c.Rx * sin θ)) + c.cosPhi * (c.Ry * cos θ))

/-- the first control point is the start point of the segment plus `t` times the tangent there -/
theorem ctrl1_tangent (c : ArcCentre ℝ) (θ1 θ2 : ℝ) :
    arcCtrl1G c θ1 θ2 =
      ((arcEndG c θ1).1 + arcArmG θ1 θ2 * (arcTangent c θ1).1,
       (arcEndG c θ1).2 + arcArmG θ1 θ2 * (arcTangent c θ1).2) := by
  rw [arcCtrl1G_real, arcEndG_real]
  unfold arcTangent
  refine Prod.ext ?_ ?_ <;> simp only [] <;> ring

/-- the second control point is the end point of the segment minus `t` times the tangent there -/
theorem ctrl2_tangent (c : ArcCentre ℝ) (θ1 θ2 : ℝ) :
    arcCtrl2G c θ1 θ2 =
      ((arcEndG c θ2).1 - arcArmG θ1 θ2 * (arcTangent c θ2).1,
       (arcEndG c θ2).2 - arcArmG θ1 θ2 * (arcTangent c θ2).2) := by
  rw [arcCtrl2G_real, arcEndG_real]
  unfold arcTangent
  refine Prod.ext ?_ ?_ <;> simp only [] <;> ring

/-- the arm length is the classical `4/3·tan(Δ/4)` of the cubic approximation of a circular arc of angle `Δ` -/
theorem arcArm_eq (θ1 θ2 : ℝ) (h : sin ((θ2 - θ1) / 2) ≠ 0) :
    arcArmG θ1 θ2 = 4 / 3 * tan ((θ2 - θ1) / 4) := by
  have e : arcArmG θ1 θ2 = ((8 : ℤ) : ℝ) * sin ((θ2 - θ1) * (1 / 2) * (1 / 2)) * sin ((θ2 - θ1) * (1 / 2) * (1 / 2)) /
      (((3 : ℤ) : ℝ) * sin ((θ2 - θ1) * (1 / 2))) := rfl
  rw [e]
  have h1 : (θ2 - θ1) * (1 / 2) * (1 / 2) = (θ2 - θ1) / 4 := by ring
  have h2 : (θ2 - θ1) * (1 / 2) = 2 * ((θ2 - θ1) / 4) := by ring
  have h3 : (θ2 - θ1) / 2 = 2 * ((θ2 - θ1) / 4) := by ring
  rw [h3, sin_two_mul] at h
  rw [h1, h2, sin_two_mul, tan_eq_sin_div_cos]
  have hs : sin ((θ2 - θ1) / 4) ≠ 0 := fun hh => h (by rw [hh]; ring)
  have hc : cos ((θ2 - θ1) / 4) ≠ 0 := fun hh => h (by rw [hh]; ring)
  push_cast
  field_simp
  ring

/-- non-vacuity: a quarter turn -/
example : sin ((π / 2 - 0) / 2) ≠ 0 := by
  rw [show (π / 2 - 0) / 2 = π / 4 by ring, sin_pi_div_four]; positivity

end Ivg.ArcReal
