import Ivg.Lemmas.RenderHist
import Ivg.Lemmas.RatInst
import Mathlib.Tactic.Ring
import Mathlib.Tactic.FieldSimp
/-!
# C16 (b) at exact arithmetic: re-expressing a graphic with everything scaled by `k`

Property clause: "Rendering … produces identical pixels when the same graphic is … (b) expressed with the
viewBox, all coordinates and gradient matrices scaled by a power of two".

Here the Renderer model is instantiated at `ℚ` and the scalar is ANY `k ≠ 0`.  `scaleCall k` multiplies
the viewBox of `Reset` and every coordinate operand by `k`; the entries `a, b, d, e` of a gradient's
matrix (viewBox space → gradient space) are divided by `k` (the number registers holding them are
written by `SetNReg` calls that cannot be told apart from stop offsets at the call level, so which
`SetNReg` operands are divided is an input: `role`).  The theorems say the scaled program makes EXACTLY the
same rasteriser calls with the same paints.
-/
open Ivg Ren RatInst Grad

namespace Ivg.ScaleQ
open Ivg.Lemmas.RendererVM Ivg.RenderHist
set_option linter.unusedSectionVars false
set_option linter.constructorNameAsVariable false
set_option linter.unusedSimpArgs false
section
variable [SqrtQ]

/-! ## the relation between the two Renderers -/

/-- the viewBox scaled by `k` -/
def scaleVB (k : ℚ) (vb : ViewBox ℚ) : ViewBox ℚ := ⟨k * vb.minX, k * vb.minY, k * vb.maxX, k * vb.maxY⟩

/-- the Renderer state that corresponds to `z` when the graphic is expressed `k` times larger: viewBox
    `k • vb`, hence scale `/ k` and bias `· k` (see `sc_transformOK`); every field that lives in PIXEL space
    (pen, sub-path start, smooth point), the rectangle, selectors, colour registers, palette, LOD, paint and
    flags are the same; the number registers `n'` are a parameter (see `NRegRel`). -/
def sc (k : ℚ) (z : Renderer ℚ ℚ) (n' : Regs ℚ) : Renderer ℚ ℚ :=
  { z with viewBox := scaleVB k z.viewBox, scaleX := z.scaleX / k, biasX := k * z.biasX,
           scaleY := z.scaleY / k, biasY := k * z.biasY, nReg := n' }

/-- `z'` is `z` re-expressed at scale `k` (nothing is said about the number registers) -/
def Scaled (k : ℚ) (z z' : Renderer ℚ ℚ) : Prop := z' = sc k z z'.nReg

omit [SqrtQ] in
/-- `Scaled`, field by field -/
theorem scaled_iff (k : ℚ) (z z' : Renderer ℚ ℚ) :
    Scaled k z z' ↔
      (z'.r = z.r ∧ z'.viewBox = scaleVB k z.viewBox ∧
       z'.scaleX = z.scaleX / k ∧ z'.biasX = k * z.biasX ∧ z'.scaleY = z.scaleY / k ∧ z'.biasY = k * z.biasY ∧
       z'.palette = z.palette ∧ z'.lod0 = z.lod0 ∧ z'.lod1 = z.lod1 ∧ z'.cSel = z.cSel ∧ z'.nSel = z.nSel ∧
       z'.disabled = z.disabled ∧ z'.prevSmoothType = z.prevSmoothType ∧ z'.prevSmoothX = z.prevSmoothX ∧
       z'.prevSmoothY = z.prevSmoothY ∧ z'.fill = z.fill ∧ z'.cReg = z.cReg ∧
       z'.penX = z.penX ∧ z'.penY = z.penY ∧ z'.firstX = z.firstX ∧ z'.firstY = z.firstY) := by
  rcases z with ⟨r, sx, bx, sy, by_, vb, pal, l0, l1, cs, ns, dis, pst, psx, psy, fill, cr, nr, px, py, fx, fy⟩
  rcases z' with ⟨r', sx', bx', sy', by', vb', pal', l0', l1', cs', ns', dis', pst', psx', psy', fill', cr', nr', px', py', fx', fy'⟩
  simp only [Scaled, sc, Renderer.mk.injEq, true_and]
  constructor
  · rintro ⟨h1, h2, h3, h4, h5, h6, h7, h8, h9, h10, h11, h12, h13, h14, h15, h16, h17, h18, h19, h20, h21⟩
    exact ⟨h1, h6, h2, h3, h4, h5, h7, h8, h9, h10, h11, h12, h13, h14, h15, h16, h17, h18, h19, h20, h21⟩
  · rintro ⟨h1, h6, h2, h3, h4, h5, h7, h8, h9, h10, h11, h12, h13, h14, h15, h16, h17, h18, h19, h20, h21⟩
    exact ⟨h1, h2, h3, h4, h5, h6, h7, h8, h9, h10, h11, h12, h13, h14, h15, h16, h17, h18, h19, h20, h21⟩

omit [SqrtQ] in
/-- the relation between the transforms is what `recalcTransform` gives for the scaled viewBox: if `z` has
    the recalculated transform (`RenderHist.TransformOK`) then so has `sc k z n'` -/
theorem sc_transformOK (k : ℚ) (z : Renderer ℚ ℚ) (n' : Regs ℚ) (h : TransformOK z) : TransformOK (sc k z n') := by
  obtain ⟨h1, h2, h3, h4⟩ := h
  have e1 : z.scaleX = (z.r.dx : ℚ) / (z.viewBox.maxX - z.viewBox.minX) := h1
  have e2 : z.biasX = -z.viewBox.minX := h2
  have e3 : z.scaleY = (z.r.dy : ℚ) / (z.viewBox.maxY - z.viewBox.minY) := h3
  have e4 : z.biasY = -z.viewBox.minY := h4
  refine ⟨?_, ?_, ?_, ?_⟩
  · show z.scaleX / k = (z.r.dx : ℚ) / (k * z.viewBox.maxX - k * z.viewBox.minX)
    rw [e1, ← mul_sub, div_div, mul_comm]
  · show k * z.biasX = -(k * z.viewBox.minX)
    rw [e2]; ring
  · show z.scaleY / k = (z.r.dy : ℚ) / (k * z.viewBox.maxY - k * z.viewBox.minY)
    rw [e3, ← mul_sub, div_div, mul_comm]
  · show k * z.biasY = -(k * z.viewBox.minY)
    rw [e4]; ring

/-! ## coordinates -/

omit [SqrtQ] in
theorem abs_sc {k : ℚ} (hk : k ≠ 0) (s b x : ℚ) : s / k * (k * x + k * b) = s * (x + b) := by
  field_simp
omit [SqrtQ] in
theorem rel_sc {k : ℚ} (hk : k ≠ 0) (s x : ℚ) : s / k * (k * x) = s * x := by
  field_simp
omit [SqrtQ] in
theorem unabs_sc {k : ℚ} (p s b : ℚ) : p / (s / k) - k * b = k * (p / s - b) := by
  rw [div_div_eq_mul_div]; ring

/-! ## scaling a call -/

/-- the call with the viewBox of `Reset` and every coordinate operand (absolute or relative; arc radii and
    end point, not the rotation and flags) multiplied by `k`; styling calls are left alone (the operands of
    `SetNReg` are handled at the program level, `scaleProgram`) -/
def scaleCall (k : ℚ) : Call ℚ → Call ℚ
  | .reset vb pal => .reset (scaleVB k vb) pal
  | .startPath adj x y => .startPath adj (k * x) (k * y)
  | .d1 v x => .d1 v (k * x)
  | .d2 v x y => .d2 v (k * x) (k * y)
  | .d4 v x1 y1 x y => .d4 v (k * x1) (k * y1) (k * x) (k * y)
  | .d6 v x1 y1 x2 y2 x y => .d6 v (k * x1) (k * y1) (k * x2) (k * y2) (k * x) (k * y)
  | .arc rel rx ry rot la sw x y => .arc rel (k * rx) (k * ry) rot la sw (k * x) (k * y)
  | c => c

/-- Hypothesis on the arc parameter: it is covariant under the re-expression — for the state re-expressed at
    scale `k`, radii and end point multiplied by `k`, it makes the same rasteriser calls.  The real
    `AbsArcTo` computes centre and angles from `(rx, ry, x, y)` and the pen mapped back to viewBox space, then
    maps the Bézier points to pixels: in exact arithmetic it is covariant; the float model `arcF32` is so only
    up to rounding (for powers of two, absent overflow/underflow, exactly — NOT proved). -/
def ArcScale (arc : ArcFn ℚ ℚ) (k : ℚ) : Prop :=
  ∀ (z : Renderer ℚ ℚ) (n' : Regs ℚ) (rx ry rot : ℚ) (la sw : Bool) (x y : ℚ),
    arc (sc k z n') (k * rx) (k * ry) rot la sw (k * x) (k * y) = arc z rx ry rot la sw x y

def isSetNReg : Call ℚ → Bool
  | .setNReg .. => true
  | _ => false

macro "scale_finish" : tactic => `(tactic| (
  (try simp only [Prod.mk.injEq, Renderer.mk.injEq, List.cons.injEq, RasterOp.lineTo.injEq, RasterOp.quadTo.injEq,
    RasterOp.cubeTo.injEq, RasterOp.moveTo.injEq, and_true, true_and]) <;>
  (try ((repeat' apply And.intro) <;> first | rfl | (field_simp) | (field_simp; ring)))))

theorem step_d1 {k : ℚ} (hk : k ≠ 0) (arc : ArcFn ℚ ℚ) (posInf : ℚ) (z : Renderer ℚ ℚ) (n' : Regs ℚ) (v : Verb1) (x : ℚ) :
    (sc k z n').step arc posInf (scaleCall k (.d1 v x)) =
      (sc k (z.step arc posInf (.d1 v x)).1 n', (z.step arc posInf (.d1 v x)).2) := by
  by_cases hd : z.disabled = true
  · cases v <;> simp only [scaleCall, Renderer.step, sc, hd, if_true]
  · cases v <;>
    simp only [scaleCall, Renderer.step, sc, hd, Bool.false_eq_true, if_false, Renderer.lineTo, Renderer.absX, Renderer.absY,
      Renderer.relX, Renderer.relY] <;> scale_finish

theorem step_d2 {k : ℚ} (hk : k ≠ 0) (arc : ArcFn ℚ ℚ) (posInf : ℚ) (z : Renderer ℚ ℚ) (n' : Regs ℚ) (v : Verb2) (x y : ℚ) :
    (sc k z n').step arc posInf (scaleCall k (.d2 v x y)) =
      (sc k (z.step arc posInf (.d2 v x y)).1 n', (z.step arc posInf (.d2 v x y)).2) := by
  by_cases hd : z.disabled = true
  · cases v <;> simp only [scaleCall, Renderer.step, sc, hd, if_true]
  · cases v <;>
    simp only [scaleCall, Renderer.step, sc, hd, Bool.false_eq_true, if_false, Renderer.lineTo, Renderer.quadTo,
      Renderer.closePath, Renderer.moveTo, Renderer.setSmooth, Renderer.implicitSmoothPoint, Renderer.relVecX,
      Renderer.relVecY, Renderer.absX, Renderer.absY, Renderer.relX, Renderer.relY] <;> scale_finish

theorem step_d4 {k : ℚ} (hk : k ≠ 0) (arc : ArcFn ℚ ℚ) (posInf : ℚ) (z : Renderer ℚ ℚ) (n' : Regs ℚ) (v : Verb4)
    (x1 y1 x y : ℚ) :
    (sc k z n').step arc posInf (scaleCall k (.d4 v x1 y1 x y)) =
      (sc k (z.step arc posInf (.d4 v x1 y1 x y)).1 n', (z.step arc posInf (.d4 v x1 y1 x y)).2) := by
  by_cases hd : z.disabled = true
  · cases v <;> simp only [scaleCall, Renderer.step, sc, hd, if_true]
  · cases v <;>
    simp only [scaleCall, Renderer.step, sc, hd, Bool.false_eq_true, if_false, Renderer.lineTo, Renderer.quadTo,
      Renderer.cubeTo, Renderer.closePath, Renderer.moveTo, Renderer.setSmooth, Renderer.implicitSmoothPoint,
      Renderer.relVecX, Renderer.relVecY, Renderer.absX, Renderer.absY, Renderer.relX, Renderer.relY] <;> scale_finish

theorem step_d6 {k : ℚ} (hk : k ≠ 0) (arc : ArcFn ℚ ℚ) (posInf : ℚ) (z : Renderer ℚ ℚ) (n' : Regs ℚ) (v : Verb6)
    (x1 y1 x2 y2 x y : ℚ) :
    (sc k z n').step arc posInf (scaleCall k (.d6 v x1 y1 x2 y2 x y)) =
      (sc k (z.step arc posInf (.d6 v x1 y1 x2 y2 x y)).1 n', (z.step arc posInf (.d6 v x1 y1 x2 y2 x y)).2) := by
  by_cases hd : z.disabled = true
  · cases v <;> simp only [scaleCall, Renderer.step, sc, hd, if_true]
  · cases v <;>
    simp only [scaleCall, Renderer.step, sc, hd, Bool.false_eq_true, if_false, Renderer.cubeTo, Renderer.setSmooth,
      Renderer.relVecX, Renderer.relVecY, Renderer.absX, Renderer.absY, Renderer.relX, Renderer.relY] <;> scale_finish

/-! ## the gradient: scaled matrix registers give the SAME pixel-space matrix -/

theorem collectStops_congr (cReg : Regs RGBA) (n n' : Regs ℚ) (cBase nBase : UInt8) (cnt : Nat) :
    ∀ (i : UInt8) (prevN : ℚ) (first : Bool),
      (∀ j, j < cnt → n'.get6 (nBase + (i + UInt8.ofNat j)) = n.get6 (nBase + (i + UInt8.ofNat j))) →
      collectStops (β := ℚ) cReg n' cBase nBase cnt i prevN first =
        collectStops (β := ℚ) cReg n cBase nBase cnt i prevN first := by
  induction cnt with
  | zero => intro i prevN first _; rfl
  | succ cnt ih =>
    intro i prevN first h
    have h0 : n'.get6 (nBase + i) = n.get6 (nBase + i) := by
      have := h 0 (Nat.succ_pos _)
      simpa using this
    have hrec : ∀ j, j < cnt → n'.get6 (nBase + (i + 1 + UInt8.ofNat j)) = n.get6 (nBase + (i + 1 + UInt8.ofNat j)) := by
      intro j hj
      have e : i + 1 + UInt8.ofNat j = i + UInt8.ofNat (j + 1) := by
        apply UInt8.toNat_inj.mp
        simp [UInt8.toNat_add, UInt8.toNat_ofNat']
        omega
      rw [e]
      exact h (j + 1) (Nat.succ_lt_succ hj)
    simp only [collectStops, h0, ih (i + 1) (n.get6 (nBase + i)) false hrec]

/-- **`initGradient_scaled`.**  If the stop offsets `NREG[NBASE+j]` (`j < NSTOPS`) of the gradient value
    `rgba` agree, and its six matrix registers satisfy `a' = a/k, b' = b/k, c' = c, d' = d/k, e' = e/k,
    f' = f` (the matrix viewBox space → gradient space of the graphic expressed `k` times larger), then in
    the re-expressed state `initGradient` returns the SAME result: the same stops, and the same pixel-space
    matrix `pix2Grad` (`a'·(1/scaleX') = a·(1/scaleX)`, `c' − a'·biasX' − b'·biasY' = c − a·biasX − b·biasY`). -/
theorem initGradient_scaled {k : ℚ} (hk : k ≠ 0) (z : Renderer ℚ ℚ) (n' : Regs ℚ) (rgba : RGBA)
    (hstops : ∀ j, j < (decodeGradient rgba).nStops.toNat →
      n'.get6 ((decodeGradient rgba).nBase + (0 + UInt8.ofNat j)) =
        z.nReg.get6 ((decodeGradient rgba).nBase + (0 + UInt8.ofNat j)))
    (ha : n'.get6 ((decodeGradient rgba).nBase - 6) = z.nReg.get6 ((decodeGradient rgba).nBase - 6) / k)
    (hb : n'.get6 ((decodeGradient rgba).nBase - 5) = z.nReg.get6 ((decodeGradient rgba).nBase - 5) / k)
    (hc : n'.get6 ((decodeGradient rgba).nBase - 4) = z.nReg.get6 ((decodeGradient rgba).nBase - 4))
    (hd : n'.get6 ((decodeGradient rgba).nBase - 3) = z.nReg.get6 ((decodeGradient rgba).nBase - 3) / k)
    (he : n'.get6 ((decodeGradient rgba).nBase - 2) = z.nReg.get6 ((decodeGradient rgba).nBase - 2) / k)
    (hf : n'.get6 ((decodeGradient rgba).nBase - 1) = z.nReg.get6 ((decodeGradient rgba).nBase - 1)) :
    (sc k z n').initGradient rgba = z.initGradient rgba := by
  have inv : ∀ a s : ℚ, a / k * (1 / (s / k)) = a * (1 / s) := by
    intro a s
    by_cases hs : s = 0
    · simp [hs]
    · field_simp
  have aff : ∀ c a b bx by_ : ℚ, c - a / k * (k * bx) - b / k * (k * by_) = c - a * bx - b * by_ := by
    intro c a b bx by_; field_simp
  unfold Renderer.initGradient
  have e1 : (sc k z n').cReg = z.cReg := rfl
  have e2 : (sc k z n').nReg = n' := rfl
  have e3 : (sc k z n').scaleX = z.scaleX / k := rfl
  have e4 : (sc k z n').scaleY = z.scaleY / k := rfl
  have e5 : (sc k z n').biasX = k * z.biasX := rfl
  have e6 : (sc k z n').biasY = k * z.biasY := rfl
  simp only [e1, e2, e3, e4, e5, e6, collectStops_congr z.cReg z.nReg n' _ _ _ 0 _ _ hstops, ha, hb, hc, hd, he, hf,
    widen_eq, ofInt_eq, Int.cast_one, inv, aff]

/-- the same for any two `Scaled` states -/
theorem initGradient_scaled' {k : ℚ} (hk : k ≠ 0) (z z' : Renderer ℚ ℚ) (h : Scaled k z z') (rgba : RGBA)
    (hstops : ∀ j, j < (decodeGradient rgba).nStops.toNat →
      z'.nReg.get6 ((decodeGradient rgba).nBase + (0 + UInt8.ofNat j)) =
        z.nReg.get6 ((decodeGradient rgba).nBase + (0 + UInt8.ofNat j)))
    (ha : z'.nReg.get6 ((decodeGradient rgba).nBase - 6) = z.nReg.get6 ((decodeGradient rgba).nBase - 6) / k)
    (hb : z'.nReg.get6 ((decodeGradient rgba).nBase - 5) = z.nReg.get6 ((decodeGradient rgba).nBase - 5) / k)
    (hc : z'.nReg.get6 ((decodeGradient rgba).nBase - 4) = z.nReg.get6 ((decodeGradient rgba).nBase - 4))
    (hd : z'.nReg.get6 ((decodeGradient rgba).nBase - 3) = z.nReg.get6 ((decodeGradient rgba).nBase - 3) / k)
    (he : z'.nReg.get6 ((decodeGradient rgba).nBase - 2) = z.nReg.get6 ((decodeGradient rgba).nBase - 2) / k)
    (hf : z'.nReg.get6 ((decodeGradient rgba).nBase - 1) = z.nReg.get6 ((decodeGradient rgba).nBase - 1)) :
    z'.initGradient rgba = z.initGradient rgba := by
  rw [h]
  exact initGradient_scaled hk z z'.nReg rgba hstops ha hb hc hd he hf

/-! ## one call -/

omit [SqrtQ] in
theorem div_sc (k d a b : ℚ) : d / (k * a - k * b) = d / (a - b) / k := by
  rw [← mul_sub, div_div, mul_comm]
omit [SqrtQ] in
theorem neg_sc (k a : ℚ) : -(k * a) = k * -a := by ring

theorem step_reset (k : ℚ) (arc : ArcFn ℚ ℚ) (posInf : ℚ) (z : Renderer ℚ ℚ) (n' : Regs ℚ) (vb : ViewBox ℚ)
    (pal : Palette) :
    (sc k z n').step arc posInf (scaleCall k (.reset vb pal)) =
      (sc k (z.reset posInf vb pal) (Regs.const zeroA), []) := by
  simp only [scaleCall, Renderer.step, Renderer.reset, Renderer.recalcTransform, sc, scaleVB, Prod.mk.injEq,
    Renderer.mk.injEq, and_true, true_and, div_sc, neg_sc]

theorem choose_sc (k : ℚ) (z : Renderer ℚ ℚ) (n' : Regs ℚ) (adj : UInt8)
    (hg : (z.cReg.get6 (z.cSel - adj)).validPremul = false → (z.cReg.get6 (z.cSel - adj)).validGradient = true →
      (sc k z n').initGradient (z.cReg.get6 (z.cSel - adj)) = z.initGradient (z.cReg.get6 (z.cSel - adj))) :
    choose (sc k z n') adj = choose z adj := by
  have e1 : (sc k z n').cReg = z.cReg := rfl
  have e2 : (sc k z n').cSel = z.cSel := rfl
  have e3 : (sc k z n').fill = z.fill := rfl
  unfold choose
  simp only [e1, e2, e3]
  by_cases hp : (z.cReg.get6 (z.cSel - adj)).validPremul = true
  · simp only [hp, if_true]
  · simp only [hp, Bool.false_eq_true, if_false]
    by_cases hv : (z.cReg.get6 (z.cSel - adj)).validGradient = true
    · simp only [hv, if_true, hg (by simpa using hp) hv]
    · simp only [hv, Bool.false_eq_true, if_false]

theorem step_startPath {k : ℚ} (hk : k ≠ 0) (arc : ArcFn ℚ ℚ) (posInf : ℚ) (z : Renderer ℚ ℚ) (n' : Regs ℚ)
    (adj : UInt8) (x y : ℚ)
    (hg : (z.cReg.get6 (z.cSel - adj)).validPremul = false → (z.cReg.get6 (z.cSel - adj)).validGradient = true →
      (sc k z n').initGradient (z.cReg.get6 (z.cSel - adj)) = z.initGradient (z.cReg.get6 (z.cSel - adj))) :
    (sc k z n').step arc posInf (scaleCall k (.startPath adj x y)) =
      (sc k (z.step arc posInf (.startPath adj x y)).1 n', (z.step arc posInf (.startPath adj x y)).2) := by
  show (sc k z n').startPath adj (k * x) (k * y) = (sc k (z.startPath adj x y).1 n', (z.startPath adj x y).2)
  rw [startPath_eq, startPath_eq z, choose_sc k z n' adj hg]
  by_cases h : (choose z adj).2 = true ∨ ¬ lodOK z
  · have h' : (choose z adj).2 = true ∨ ¬ lodOK (sc k z n') := h
    rw [if_pos h, if_pos h']
    rfl
  · have h' : ¬ ((choose z adj).2 = true ∨ ¬ lodOK (sc k z n')) := h
    rw [if_neg h, if_neg h']
    simp only [Renderer.absX, Renderer.absY, sc]
    scale_finish

theorem step_closeEnd (k : ℚ) (arc : ArcFn ℚ ℚ) (posInf : ℚ) (z : Renderer ℚ ℚ) (n' : Regs ℚ) :
    (sc k z n').step arc posInf (scaleCall k .closeEnd) =
      (sc k (z.step arc posInf .closeEnd).1 n', (z.step arc posInf .closeEnd).2) := by
  by_cases hd : z.disabled = true
  · simp only [scaleCall, Renderer.step, sc, hd, if_true]
  · simp only [scaleCall, Renderer.step, sc, hd, Bool.false_eq_true, if_false, Renderer.closePath]

theorem foldl_penStep_sc (k : ℚ) (n' : Regs ℚ) (ops : List (RasterOp ℚ ℚ)) :
    ∀ z : Renderer ℚ ℚ, ops.foldl penStep (sc k z n') = sc k (ops.foldl penStep z) n' := by
  induction ops with
  | nil => intro z; rfl
  | cons op ops ih =>
    intro z
    rw [List.foldl_cons, List.foldl_cons, ← ih]
    cases op <;> rfl

theorem step_arcQ {k : ℚ} (hk : k ≠ 0) (arc : ArcFn ℚ ℚ) (hArc : ArcScale arc k) (posInf : ℚ) (z : Renderer ℚ ℚ)
    (n' : Regs ℚ) (rel : Bool) (rx ry rot : ℚ) (la sw : Bool) (x y : ℚ) :
    (sc k z n').step arc posInf (scaleCall k (.arc rel rx ry rot la sw x y)) =
      (sc k (z.step arc posInf (.arc rel rx ry rot la sw x y)).1 n',
        (z.step arc posInf (.arc rel rx ry rot la sw x y)).2) := by
  show (sc k z n').step arc posInf (.arc rel (k * rx) (k * ry) rot la sw (k * x) (k * y)) = _
  rw [step_arc, step_arc]
  by_cases hd : z.disabled = true
  · have hd' : (sc k z n').disabled = true := hd
    rw [if_pos hd, if_pos hd']
  · have hd' : ¬ (sc k z n').disabled = true := hd
    rw [if_neg hd, if_neg hd']
    have ht : arcTarget (sc k z n') rel (k * x) (k * y) =
        (k * (arcTarget z rel x y).1, k * (arcTarget z rel x y).2) := by
      cases rel
      · rfl
      · simp only [arcTarget, if_true, Renderer.unabsX, Renderer.unabsY, Renderer.relVecX, Renderer.relVecY,
          Renderer.relX, Renderer.relY, sc, rel_sc hk, unabs_sc]
    have hz : ({ sc k z n' with prevSmoothType := 0 } : Renderer ℚ ℚ) =
        sc k ({ z with prevSmoothType := 0 } : Renderer ℚ ℚ) n' := rfl
    rw [ht, hz, hArc, foldl_penStep_sc]

theorem step_setNReg (k : ℚ) (arc : ArcFn ℚ ℚ) (posInf : ℚ) (z : Renderer ℚ ℚ) (n' : Regs ℚ)
    (adj : UInt8) (incr : Bool) (f f' : ℚ) :
    (sc k z n').step arc posInf (.setNReg adj incr f') =
      (sc k (z.step arc posInf (.setNReg adj incr f)).1 (n'.set6 (z.nSel - adj) f'), []) := by
  cases incr <;> rfl

/-- **`step_scaled`, equational form**: for every call other than `Reset` and `SetNReg`, the re-expressed
    state takes the scaled call to the re-expressed successor state and makes the same rasteriser calls. -/
theorem step_sc {k : ℚ} (hk : k ≠ 0) (arc : ArcFn ℚ ℚ) (hArc : ArcScale arc k) (posInf : ℚ) (z : Renderer ℚ ℚ)
    (n' : Regs ℚ) (c : Call ℚ) (hn : isSetNReg c = false) (hr : isReset c = false)
    (hg : ∀ adj x y, c = .startPath adj x y →
      (z.cReg.get6 (z.cSel - adj)).validPremul = false → (z.cReg.get6 (z.cSel - adj)).validGradient = true →
      (sc k z n').initGradient (z.cReg.get6 (z.cSel - adj)) = z.initGradient (z.cReg.get6 (z.cSel - adj))) :
    (sc k z n').step arc posInf (scaleCall k c) = (sc k (z.step arc posInf c).1 n', (z.step arc posInf c).2) := by
  cases c with
  | reset vb pal => cases hr
  | setNReg adj incr f => cases hn
  | setCSel v => rfl
  | setNSel v => rfl
  | setLOD a b => rfl
  | setCReg adj incr col => cases incr <;> rfl
  | startPath adj x y => exact step_startPath hk arc posInf z n' adj x y (hg adj x y rfl)
  | closeEnd => exact step_closeEnd k arc posInf z n'
  | d1 v x => exact step_d1 hk arc posInf z n' v x
  | d2 v x y => exact step_d2 hk arc posInf z n' v x y
  | d4 v a b x y => exact step_d4 hk arc posInf z n' v a b x y
  | d6 v a b c d x y => exact step_d6 hk arc posInf z n' v a b c d x y
  | arc rel rx ry rot la sw x y => exact step_arcQ hk arc hArc posInf z n' rel rx ry rot la sw x y

omit [SqrtQ] in
theorem scaled_sc (k : ℚ) (z : Renderer ℚ ℚ) (n' : Regs ℚ) : Scaled k z (sc k z n') := rfl

/-- **`step_scaled`.**  For every call `c` other than `SetNReg`: from states related by `Scaled k`, the scaled
    call makes the same rasteriser calls and the successor states are again related.  Unconditional for
    styling calls, all nineteen drawing calls (arcs under `ArcScale`) and for a `StartPath` whose colour
    register holds a flat colour; for a `StartPath` whose colour register holds a gradient value, under the
    hypothesis that `initGradient` agrees — which `initGradient_scaled'` gives from the relation between the
    number registers. -/
theorem step_scaled {k : ℚ} (hk : k ≠ 0) (arc : ArcFn ℚ ℚ) (hArc : ArcScale arc k) (posInf : ℚ)
    (z z' : Renderer ℚ ℚ) (h : Scaled k z z') (c : Call ℚ) (hn : isSetNReg c = false)
    (hg : ∀ adj x y, c = .startPath adj x y →
      (z.cReg.get6 (z.cSel - adj)).validPremul = false → (z.cReg.get6 (z.cSel - adj)).validGradient = true →
      z'.initGradient (z.cReg.get6 (z.cSel - adj)) = z.initGradient (z.cReg.get6 (z.cSel - adj))) :
    (z'.step arc posInf (scaleCall k c)).2 = (z.step arc posInf c).2 ∧
    Scaled k (z.step arc posInf c).1 (z'.step arc posInf (scaleCall k c)).1 := by
  unfold Scaled at h
  generalize z'.nReg = n' at h
  subst h
  cases hr : isReset c
  · rw [step_sc hk arc hArc posInf z n' c hn hr hg]
    exact ⟨rfl, scaled_sc _ _ _⟩
  · cases c <;> simp only [isReset, Bool.false_eq_true] at hr
    rw [step_reset]
    exact ⟨rfl, scaled_sc _ _ _⟩

/-- … in particular for a path painted with a flat colour (or not painted) nothing is assumed -/
theorem step_scaled_flat {k : ℚ} (hk : k ≠ 0) (arc : ArcFn ℚ ℚ) (hArc : ArcScale arc k) (posInf : ℚ)
    (z z' : Renderer ℚ ℚ) (h : Scaled k z z') (c : Call ℚ) (hn : isSetNReg c = false)
    (hflat : ∀ adj x y, c = .startPath adj x y →
      (z.cReg.get6 (z.cSel - adj)).validPremul = true ∨ (z.cReg.get6 (z.cSel - adj)).validGradient = false) :
    (z'.step arc posInf (scaleCall k c)).2 = (z.step arc posInf c).2 ∧
    Scaled k (z.step arc posInf c).1 (z'.step arc posInf (scaleCall k c)).1 := by
  refine step_scaled hk arc hArc posInf z z' h c hn ?_
  intro adj x y hc hp hv
  rcases hflat adj x y hc with h1 | h1
  · rw [h1] at hp; cases hp
  · rw [h1] at hv; cases hv

/-- `SetNReg` with ANY two operands keeps the states related (the number registers are not part of
    `Scaled`) and makes no rasteriser call -/
theorem step_scaled_setNReg (k : ℚ) (arc : ArcFn ℚ ℚ) (posInf : ℚ) (z z' : Renderer ℚ ℚ) (h : Scaled k z z')
    (adj : UInt8) (incr : Bool) (f f' : ℚ) :
    (z'.step arc posInf (.setNReg adj incr f')).2 = (z.step arc posInf (.setNReg adj incr f)).2 ∧
    Scaled k (z.step arc posInf (.setNReg adj incr f)).1 (z'.step arc posInf (.setNReg adj incr f')).1 := by
  unfold Scaled at h
  generalize z'.nReg = n' at h
  subst h
  rw [step_setNReg k arc posInf z n' adj incr f f']
  refine ⟨?_, scaled_sc _ _ _⟩
  cases incr <;> rfl

/-! ## programs -/

/-- the program with every call scaled; the operand of the `SetNReg` at position `i` is divided by `k` iff
    `role i` (it writes an entry `a, b, d, e` of a gradient matrix) -/
def scaleFrom (k : ℚ) (role : Nat → Bool) : Nat → List (Call ℚ) → List (Call ℚ)
  | _, [] => []
  | i, .setNReg adj incr f :: cs => .setNReg adj incr (if role i then f / k else f) :: scaleFrom k role (i + 1) cs
  | i, c :: cs => scaleCall k c :: scaleFrom k role (i + 1) cs

def scaleProgram (k : ℚ) (role : Nat → Bool) (p : List (Call ℚ)) : List (Call ℚ) := scaleFrom k role 0 p

/-- which number registers currently hold a value that the scaled program divides by `k`: updated by the
    `SetNReg` at a position with role `b`, cleared by `Reset` -/
def marksStep (b : Bool) (z : Renderer ℚ ℚ) (mk : Nat → Bool) : Call ℚ → (Nat → Bool)
  | .reset _ _ => fun _ => false
  | .setNReg adj _ _ => fun j => if (z.nSel - adj).toNat % 64 = j then b else mk j
  | _ => mk

/-- the number registers of the two runs: marked ones related by `/ k`, unmarked ones equal -/
def NRegRel (k : ℚ) (mk : Nat → Bool) (n n' : Regs ℚ) : Prop :=
  ∀ j (h : j < 64), n'[j] = if mk j = true then n[j] / k else n[j]

/-- at a `StartPath` whose colour register holds a gradient value: the registers of its matrix entries
    `a, b, d, e` are marked, those of `c, f` and of its `NSTOPS` stop offsets are not -/
def gradMarksOK (mk : Nat → Bool) (z : Renderer ℚ ℚ) (adj : UInt8) : Bool :=
  let flat := z.cReg.get6 (z.cSel - adj)
  if !flat.validPremul && flat.validGradient then
    let nb := (decodeGradient flat).nBase
    mk ((nb - 6).toNat % 64) && mk ((nb - 5).toNat % 64) && !mk ((nb - 4).toNat % 64) &&
    mk ((nb - 3).toNat % 64) && mk ((nb - 2).toNat % 64) && !mk ((nb - 1).toNat % 64) &&
    (List.range (decodeGradient flat).nStops.toNat).all fun j => !mk ((nb + (0 + UInt8.ofNat j)).toNat % 64)
  else true

/-- the hypothesis on `role`, checked along the run of the ORIGINAL program (decidable by evaluation):
    at every `StartPath` that selects a gradient value, the matrix and stop registers were last written by
    `SetNReg` calls with the right roles -/
def rolesOK (arc : ArcFn ℚ ℚ) (posInf : ℚ) (role : Nat → Bool) :
    Nat → (Nat → Bool) → Renderer ℚ ℚ → List (Call ℚ) → Bool
  | _, _, _, [] => true
  | i, mk, z, c :: cs =>
    (match c with
     | .startPath adj _ _ => gradMarksOK mk z adj
     | _ => true) &&
    rolesOK arc posInf role (i + 1) (marksStep (role i) z mk c) (z.step arc posInf c).1 cs

omit [SqrtQ] in
theorem nregRel_get6 {k : ℚ} {mk : Nat → Bool} {n n' : Regs ℚ} (h : NRegRel k mk n n') (u : UInt8) :
    n'.get6 u = if mk (u.toNat % 64) = true then n.get6 u / k else n.get6 u :=
  h (u.toNat % 64) (Nat.mod_lt _ (by decide))

omit [SqrtQ] in
theorem nregRel_set {k : ℚ} {mk : Nat → Bool} {n n' : Regs ℚ} (h : NRegRel k mk n n') (u : UInt8) (b : Bool) (f : ℚ) :
    NRegRel k (fun j => if u.toNat % 64 = j then b else mk j) (n.set6 u f) (n'.set6 u (if b = true then f / k else f)) := by
  intro j hj
  simp only [Regs.set6, Vector.getElem_set]
  by_cases e : u.toNat % 64 = j
  · simp only [e, if_true]
  · simp only [e, if_false]
    exact h j hj

omit [SqrtQ] in
theorem nregRel_const (k : ℚ) : NRegRel k (fun _ => false) (Regs.const zeroA) (Regs.const zeroA) := by
  intro j hj
  simp

theorem step_nReg (arc : ArcFn ℚ ℚ) (posInf : ℚ) (z : Renderer ℚ ℚ) (c : Call ℚ) (hn : isSetNReg c = false)
    (hr : isReset c = false) : (z.step arc posInf c).1.nReg = z.nReg := by
  cases hs : isStyling c
  · have h := step_regs arc posInf z c hs
    simp only [regs, Prod.mk.injEq] at h
    exact h.2.2.2.2.2.2.2.2.2.2.2.2
  · cases c <;> simp only [isStyling, Bool.false_eq_true] at hs
    case reset vb pal => cases hr
    case setNReg adj incr f => cases hn
    case setCSel v => rfl
    case setNSel v => rfl
    case setLOD a b => rfl
    case setCReg adj incr col => cases incr <;> rfl

/-- from the marks to the hypothesis of `step_sc` at a `StartPath` -/
theorem gradient_of_marks {k : ℚ} (hk : k ≠ 0) (mk : Nat → Bool) (z : Renderer ℚ ℚ) (n' : Regs ℚ)
    (hrel : NRegRel k mk z.nReg n') (adj : UInt8) (hok : gradMarksOK mk z adj = true)
    (hp : (z.cReg.get6 (z.cSel - adj)).validPremul = false) (hv : (z.cReg.get6 (z.cSel - adj)).validGradient = true) :
    (sc k z n').initGradient (z.cReg.get6 (z.cSel - adj)) = z.initGradient (z.cReg.get6 (z.cSel - adj)) := by
  unfold gradMarksOK at hok
  simp only [hp, hv, Bool.not_false, Bool.and_self, if_true, Bool.and_eq_true, Bool.not_eq_true',
    List.all_eq_true, List.mem_range] at hok
  obtain ⟨⟨⟨⟨⟨⟨h6, h5⟩, h4⟩, h3⟩, h2⟩, h1⟩, hst⟩ := hok
  refine initGradient_scaled hk z n' _ ?_ ?_ ?_ ?_ ?_ ?_ ?_
  · intro j hj
    rw [nregRel_get6 hrel, hst j hj]
    simp
  · rw [nregRel_get6 hrel, h6]; simp
  · rw [nregRel_get6 hrel, h5]; simp
  · rw [nregRel_get6 hrel, h4]; simp
  · rw [nregRel_get6 hrel, h3]; simp
  · rw [nregRel_get6 hrel, h2]; simp
  · rw [nregRel_get6 hrel, h1]; simp

omit [SqrtQ] in
theorem scaleFrom_cons (k : ℚ) (role : Nat → Bool) (i : Nat) (c : Call ℚ) (cs : List (Call ℚ)) (hn : isSetNReg c = false) :
    scaleFrom k role i (c :: cs) = scaleCall k c :: scaleFrom k role (i + 1) cs := by
  cases c <;> first | rfl | cases hn

omit [SqrtQ] in
theorem marksStep_other (b : Bool) (z : Renderer ℚ ℚ) (mk : Nat → Bool) (c : Call ℚ) (hn : isSetNReg c = false)
    (hr : isReset c = false) : marksStep b z mk c = mk := by
  cases c with
  | reset vb pal => cases hr
  | setNReg adj incr f => cases hn
  | _ => rfl

/-- **`run_scaled`.**  For every program `p` and marking of positions `role`: if, along the run of `p`, every
    `StartPath` that selects a gradient value finds the registers of its matrix entries `a, b, d, e` last
    written by marked `SetNReg` calls and those of `c, f` and of its stop offsets by unmarked ones
    (`rolesOK`), then the scaled program, run from the re-expressed state, makes EXACTLY the rasteriser calls
    of `p` (same `Reset`s, same path coordinates, same `Draw`s with the same paints — gradients included),
    and ends in the re-expressed final state. -/
theorem run_scaled {k : ℚ} (hk : k ≠ 0) (arc : ArcFn ℚ ℚ) (hArc : ArcScale arc k) (posInf : ℚ) (role : Nat → Bool)
    (p : List (Call ℚ)) : ∀ (i : Nat) (mk : Nat → Bool) (z : Renderer ℚ ℚ) (n' : Regs ℚ),
      NRegRel k mk z.nReg n' → rolesOK arc posInf role i mk z p = true →
      ((sc k z n').run arc posInf (scaleFrom k role i p)).2 = (z.run arc posInf p).2 ∧
      Scaled k (z.run arc posInf p).1 ((sc k z n').run arc posInf (scaleFrom k role i p)).1 := by
  induction p with
  | nil => intro i mk z n' _ _; exact ⟨rfl, scaled_sc _ _ _⟩
  | cons c cs ih =>
    intro i mk z n' hrel hok
    simp only [rolesOK, Bool.and_eq_true] at hok
    obtain ⟨hstart, hrest⟩ := hok
    cases hn : isSetNReg c
    · cases hr : isReset c
      · -- every other call
        have hg : ∀ adj x y, c = .startPath adj x y →
            (z.cReg.get6 (z.cSel - adj)).validPremul = false → (z.cReg.get6 (z.cSel - adj)).validGradient = true →
            (sc k z n').initGradient (z.cReg.get6 (z.cSel - adj)) = z.initGradient (z.cReg.get6 (z.cSel - adj)) := by
          intro adj x y hc hp hv
          subst hc
          exact gradient_of_marks hk mk z n' hrel adj hstart hp hv
        rw [marksStep_other _ _ _ _ hn hr] at hrest
        have hrel' : NRegRel k mk (z.step arc posInf c).1.nReg n' := by
          rw [step_nReg arc posInf z c hn hr]; exact hrel
        obtain ⟨i1, i2⟩ := ih (i + 1) mk _ n' hrel' hrest
        rw [scaleFrom_cons k role i c cs hn, Lemmas.RendererVM.run_cons, Lemmas.RendererVM.run_cons,
          step_sc hk arc hArc posInf z n' c hn hr hg]
        exact ⟨by rw [i1], i2⟩
      · -- Reset
        cases c <;> simp only [isReset, Bool.false_eq_true] at hr
        rename_i vb pal
        have hrel' : NRegRel k (fun _ => false) (z.reset posInf vb pal).nReg (Regs.const zeroA) := nregRel_const k
        obtain ⟨i1, i2⟩ := ih (i + 1) (fun _ => false) (z.reset posInf vb pal) (Regs.const zeroA) hrel' hrest
        have e2 : z.step arc posInf (.reset vb pal) = (z.reset posInf vb pal, []) := rfl
        rw [scaleFrom_cons k role i _ cs rfl, Lemmas.RendererVM.run_cons, Lemmas.RendererVM.run_cons, step_reset, e2]
        exact ⟨by simpa using i1, i2⟩
    · -- SetNReg
      cases c <;> simp only [isSetNReg, Bool.false_eq_true] at hn
      rename_i adj incr f
      have hnr : (z.step arc posInf (.setNReg adj incr f)).1.nReg = z.nReg.set6 (z.nSel - adj) f := by
        cases incr <;> rfl
      have hrel' : NRegRel k (marksStep (role i) z mk (.setNReg adj incr f))
          (z.step arc posInf (.setNReg adj incr f)).1.nReg
          (n'.set6 (z.nSel - adj) (if role i = true then f / k else f)) := by
        rw [hnr]; exact nregRel_set hrel (z.nSel - adj) (role i) f
      obtain ⟨i1, i2⟩ := ih (i + 1) _ _ _ hrel' hrest
      have hsf : scaleFrom k role i (.setNReg adj incr f :: cs) =
          .setNReg adj incr (if role i = true then f / k else f) :: scaleFrom k role (i + 1) cs := rfl
      rw [hsf, Lemmas.RendererVM.run_cons, Lemmas.RendererVM.run_cons,
        step_setNReg k arc posInf z n' adj incr f (if role i = true then f / k else f)]
      have ho : (z.step arc posInf (.setNReg adj incr f)).2 = [] := by cases incr <;> rfl
      exact ⟨by rw [i1, ho], i2⟩

theorem reset_sc_same (k : ℚ) (z0 : Renderer ℚ ℚ) (posInf : ℚ) (vb : ViewBox ℚ) (pal : Palette) :
    z0.reset posInf (scaleVB k vb) pal = sc k (z0.reset posInf vb pal) (Regs.const zeroA) := by
  simp only [Renderer.reset, Renderer.recalcTransform, sc, scaleVB, Renderer.mk.injEq, and_true, true_and,
    div_sc, neg_sc]

/-- **C16 (b) at exact arithmetic.**  A whole graphic `Reset vb pal :: body` delivered to a Renderer in ANY
    state `z0` (any rectangle, any history), and the same graphic expressed with the viewBox, all coordinates
    and the gradient matrices scaled by `k ≠ 0` (`scaleProgram k role`), make exactly the same rasteriser
    calls with the same paints. -/
theorem program_scaled {k : ℚ} (hk : k ≠ 0) (arc : ArcFn ℚ ℚ) (hArc : ArcScale arc k) (posInf : ℚ) (role : Nat → Bool)
    (z0 : Renderer ℚ ℚ) (vb : ViewBox ℚ) (pal : Palette) (body : List (Call ℚ)) (mk0 : Nat → Bool)
    (hroles : rolesOK arc posInf role 0 mk0 z0 (.reset vb pal :: body) = true) :
    (z0.run arc posInf (scaleProgram k role (.reset vb pal :: body))).2 =
      (z0.run arc posInf (.reset vb pal :: body)).2 := by
  have hs : scaleProgram k role (.reset vb pal :: body) = .reset (scaleVB k vb) pal :: scaleFrom k role 1 body := rfl
  have hr : rolesOK arc posInf role 1 (fun _ => false) (z0.reset posInf vb pal) body = true := by
    simpa [rolesOK, marksStep, Renderer.step] using hroles
  obtain ⟨i1, -⟩ := run_scaled hk arc hArc posInf role body 1 (fun _ => false) (z0.reset posInf vb pal)
    (Regs.const zeroA) (nregRel_const k) hr
  rw [hs, Lemmas.RendererVM.run_cons, Lemmas.RendererVM.run_cons]
  have e1 : z0.step arc posInf (.reset (scaleVB k vb) pal) = (z0.reset posInf (scaleVB k vb) pal, []) := rfl
  have e2 : z0.step arc posInf (.reset vb pal) = (z0.reset posInf vb pal, []) := rfl
  rw [e1, e2, reset_sc_same, i1]

/-- `run_scaled` for any two related states -/
theorem run_scaled' {k : ℚ} (hk : k ≠ 0) (arc : ArcFn ℚ ℚ) (hArc : ArcScale arc k) (posInf : ℚ) (role : Nat → Bool)
    (p : List (Call ℚ)) (i : Nat) (mk : Nat → Bool) (z z' : Renderer ℚ ℚ) (h : Scaled k z z')
    (hrel : NRegRel k mk z.nReg z'.nReg) (hok : rolesOK arc posInf role i mk z p = true) :
    (z'.run arc posInf (scaleFrom k role i p)).2 = (z.run arc posInf p).2 ∧
    Scaled k (z.run arc posInf p).1 (z'.run arc posInf (scaleFrom k role i p)).1 := by
  unfold Scaled at h
  rw [h]
  exact run_scaled hk arc hArc posInf role p i mk z z'.nReg hrel hok

/-- programs all of whose paths select flat colours (no colour register ever holds a gradient value when a
    path starts): `rolesOK` holds for every `role` — nothing is assumed about the number registers -/
theorem rolesOK_of_flat (arc : ArcFn ℚ ℚ) (posInf : ℚ) (role : Nat → Bool) (p : List (Call ℚ)) :
    ∀ (i : Nat) (mk : Nat → Bool) (z : Renderer ℚ ℚ),
      (∀ (pre : List (Call ℚ)) (adj : UInt8) (x y : ℚ) (post : List (Call ℚ)), p = pre ++ .startPath adj x y :: post →
        ((z.run arc posInf pre).1.cReg.get6 ((z.run arc posInf pre).1.cSel - adj)).validPremul = true ∨
        ((z.run arc posInf pre).1.cReg.get6 ((z.run arc posInf pre).1.cSel - adj)).validGradient = false) →
      rolesOK arc posInf role i mk z p = true := by
  induction p with
  | nil => intro _ _ _ _; rfl
  | cons c cs ih =>
    intro i mk z hflat
    simp only [rolesOK, Bool.and_eq_true]
    constructor
    · cases c with
      | startPath adj x y =>
        have := hflat [] adj x y cs rfl
        simp only [Renderer.run] at this
        simp only [gradMarksOK]
        rcases this with h | h <;> simp [h]
      | _ => rfl
    · apply ih
      intro pre adj x y post hp
      have := hflat (c :: pre) adj x y post (by rw [hp]; rfl)
      rwa [Lemmas.RendererVM.run_cons] at this

/-- `program_scaled` for graphics whose paths all select flat colours: no hypothesis on the number
    registers, any `role` -/
theorem program_scaled_flat {k : ℚ} (hk : k ≠ 0) (arc : ArcFn ℚ ℚ) (hArc : ArcScale arc k) (posInf : ℚ)
    (role : Nat → Bool) (z0 : Renderer ℚ ℚ) (vb : ViewBox ℚ) (pal : Palette) (body : List (Call ℚ))
    (hflat : ∀ (pre : List (Call ℚ)) (adj : UInt8) (x y : ℚ) (post : List (Call ℚ)),
      Call.reset vb pal :: body = pre ++ .startPath adj x y :: post →
        ((z0.run arc posInf pre).1.cReg.get6 ((z0.run arc posInf pre).1.cSel - adj)).validPremul = true ∨
        ((z0.run arc posInf pre).1.cReg.get6 ((z0.run arc posInf pre).1.cSel - adj)).validGradient = false) :
    (z0.run arc posInf (scaleProgram k role (.reset vb pal :: body))).2 =
      (z0.run arc posInf (.reset vb pal :: body)).2 :=
  program_scaled hk arc hArc posInf role z0 vb pal body (fun _ => false)
    (rolesOK_of_flat arc posInf role _ 0 _ z0 hflat)

/-! ## a concrete instance -/
end

namespace Ex

/-- an exactly covariant arc function for the examples: the chord to the end point -/
def chordArc : ArcFn ℚ ℚ := fun z _ _ _ _ _ x y => [.lineTo (z.absX x) (z.absY y)]

theorem chordArc_scale {k : ℚ} (hk : k ≠ 0) : ArcScale chordArc k := by
  intro z n' rx ry rot la sw x y
  simp only [chordArc, Renderer.absX, Renderer.absY, sc, List.cons.injEq, RasterOp.lineTo.injEq, and_true]
  constructor <;> field_simp

/-- a graphic with a flat path (relative line, relative quadratic and cubic curves, a smooth quadratic), a
    path painted with a two-stop linear gradient whose matrix `[1/64 0 1/2; 0 1/64 1/2]` is loaded into
    NREG[4…9] and whose stop offsets into NREG[10,11], containing a relative arc and an absolute `H` -/
def prog : List (Call ℚ) :=
  [ .reset ⟨-32, -32, 32, 32⟩ defaultPalette,
    .startPath 0 (-16) 8, .d2 .l 3 4, .d4 .q 1 2 3 4, .d2 .t 2 (-1), .d6 .c 1 1 2 2 3 0, .closeEnd,
    .setCSel 10, .setCReg 0 true (Color.rgbaColor ⟨0, 0, 0, 0xff⟩), .setCReg 0 true (Color.rgbaColor ⟨0, 0, 0, 0⟩),
    .setNSel 4,
    .setNReg 0 true (1 / 64), .setNReg 0 true 0, .setNReg 0 true (1 / 2),
    .setNReg 0 true 0, .setNReg 0 true (1 / 64), .setNReg 0 true (1 / 2),
    .setNReg 0 true 0, .setNReg 0 true 1,
    .setCSel 0, .setCReg 0 false (Color.rgbaColor (encodeGradient 10 10 0 1 2)),
    .startPath 0 0 0, .d1 .H 5, .arc true 3 2 30 true false 4 4, .d2 .Y 1 1, .d1 .v (-3), .closeEnd ]

/-- the `SetNReg` calls at positions 11, 12, 14, 15 write `a, b, d, e` -/
def role (i : Nat) : Bool := i == 11 || i == 12 || i == 14 || i == 15

/-- the hypothesis of `program_scaled` holds for `prog`, `role` (from the zero-value Renderer pointed at a
    48×24 rectangle) -/
theorem prog_rolesOK :
    rolesOK chordArc 1000 role 0 (fun _ => false) ((Renderer.zero : Renderer ℚ ℚ).setRasterizer ⟨0, 0, 48, 24⟩) prog = true := by
  decide +kernel

/-- the scaled program for `k = 4`: what it looks like around the matrix (entries `a, b, d, e` divided by 4,
    `c, f` and the offsets untouched) and at the start of the second path -/
theorem prog_scaled_shape :
    ((scaleProgram 4 role prog).drop 11).take 8 =
      [.setNReg 0 true (1 / 256), .setNReg 0 true 0, .setNReg 0 true (1 / 2),
       .setNReg 0 true 0, .setNReg 0 true (1 / 256), .setNReg 0 true (1 / 2),
       .setNReg 0 true 0, .setNReg 0 true 1] ∧
    (scaleProgram 4 role prog).take 3 =
      [.reset ⟨-128, -128, 128, 128⟩ defaultPalette, .startPath 0 (-64) 32, .d2 .l 12 16] ∧
    ((scaleProgram 4 role prog).drop 22).take 2 = [.d1 .H 20, .arc true 12 8 30 true false 16 16] := by
  decide +kernel

/-- both paths of `prog` are drawn; the second with a gradient -/
theorem prog_draws :
    (drawsOf (((Renderer.zero : Renderer ℚ ℚ).setRasterizer ⟨0, 0, 48, 24⟩).run chordArc 1000 prog).2).map
      (fun d => match d.2 with | .gradient _ => true | .flat _ => false) = [false, true] := by
  decide +kernel

end Ex

end Ivg.ScaleQ
