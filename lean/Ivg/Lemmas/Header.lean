import Ivg.Lemmas.EncoderInv
/-!
# The metadata section `Encoder.reset` writes decodes to the (round-tripped) metadata (C01)
-/
namespace Ivg.Header
open Ivg Num Enc Dec Codec ColorCodec RoundTrip EncoderInv

/-- the viewBox after the coordinate round trip -/
def rtVB (vb : ViewBox F32) : ViewBox F32 := ⟨rtCoord vb.minX, rtCoord vb.minY, rtCoord vb.maxX, rtCoord vb.maxY⟩

/-- the decoder's viewBox test, on the round-tripped values -/
def VBValid (vb : ViewBox F32) : Prop :=
  ¬ ((rtVB vb).maxX < (rtVB vb).minX ∨ (rtVB vb).maxY < (rtVB vb).minY ∨
     isNaNOrInfinity (rtVB vb).minX = true ∨ isNaNOrInfinity (rtVB vb).minY = true ∨
     isNaNOrInfinity (rtVB vb).maxX = true ∨ isNaNOrInfinity (rtVB vb).maxY = true)

theorem quantize_true (f : F32) : quantize true f = f := by simp [quantize]

theorem encCoords_true (l : List F32) : encCoords true l = l.flatMap encodeCoordinate := by
  simp [encCoords, quantize_true]

theorem qc_true : qc true = rtCoord := by funext f; simp [qc, quantize_true]

theorem viewBoxChunk_length (vb : ViewBox F32) : (viewBoxChunk vb).length < 128 := by
  have h1 := encodeCoordinate_length_cases vb.minX
  have h2 := encodeCoordinate_length_cases vb.minY
  have h3 := encodeCoordinate_length_cases vb.maxX
  have h4 := encodeCoordinate_length_cases vb.maxY
  have h0 : (encodeNatural 0).length = 1 := by decide
  simp only [viewBoxChunk, List.length_append, h0]
  omega

theorem viewBoxChunk_decodes (vb : ViewBox F32) (hv : VBValid vb) (m : Metadata) (rest : Bytes) :
    ∃ its, decodeMetadataChunk m 0 (encodeNatural (viewBoxChunk vb).length ++ viewBoxChunk vb ++ rest) =
      (its, .ok ({ m with viewBox := rtVB vb }, 1, rest)) := by
  have hL := viewBoxChunk_length vb
  have hn1 := decodeNatural_encodeNatural (viewBoxChunk vb).length (by omega) (viewBoxChunk vb ++ rest)
  have hw : natWidth (viewBoxChunk vb).length = 1 := by simp [natWidth, hL]
  have hshape : viewBoxChunk vb ++ rest =
      encodeNatural 0 ++ (encCoords true [vb.minX, vb.minY, vb.maxX, vb.maxY] ++ rest) := by
    simp [viewBoxChunk, encCoords_true, List.append_assoc]
  have hn2 := decodeNatural_encodeNatural 0 (by decide) (encCoords true [vb.minX, vb.minY, vb.maxX, vb.maxY] ++ rest)
  obtain ⟨its, hc, _⟩ := decodeCoordinates_enc true [vb.minX, vb.minY, vb.maxX, vb.maxY] rest
  simp only [List.length_cons, List.length_nil, List.map_cons, List.map_nil, qc_true, Nat.zero_add] at hc
  unfold decodeMetadataChunk
  rw [List.append_assoc, hn1]
  simp only
  rw [hshape, hn2]
  have g1 : ¬ (0 ≥ 2) := by omega
  have g2 : ¬ (0 < 0) := by omega
  simp only [g1, g2, if_false, if_true, hc]
  have hv' := hv
  unfold VBValid rtVB at hv'
  simp only at hv'
  rw [if_neg hv']
  have hlen : ((rest.length : Int) ≠ ((encodeNatural 0 ++ (encCoords true [vb.minX, vb.minY, vb.maxX, vb.maxY] ++ rest)).length : Int) - ((viewBoxChunk vb).length : Int)) = False := by
    rw [← hshape]; simp; omega
  simp only [hlen, if_false]
  exact ⟨_, rfl⟩

/-- the viewBox a decoded stream reports for an encoded `vb` -/
def rtViewBox (vb : ViewBox F32) : ViewBox F32 := if vbNeDefault vb then rtVB vb else defaultViewBox

theorem explicitCount_ne_zero (pal : Palette) (h : (pal != defaultPalette) = true) :
    explicitCount pal.toList ≠ 0 := by
  intro h0
  obtain ⟨_, hdec⟩ := explicitCount_spec pal.toList
  rw [h0] at hdec
  simp at hdec
  have : pal = defaultPalette := by
    apply Vector.toList_inj.mp
    rw [hdec]; simp [defaultPalette, Regs.const]
  simp [this] at h

theorem decodeNumber_line {dnf : Bytes → Option (F32 × Bytes)} {src : Bytes} {it : Item} {x : F32} {rest : Bytes}
    (h : decodeNumber dnf src = some (it, x, rest)) : ∃ l, it = .line l := by
  unfold decodeNumber at h
  split at h
  · contradiction
  · simp only [Option.some.injEq, Prod.mk.injEq] at h
    exact ⟨_, h.1.symm⟩

theorem decodeCoordinates_lines : ∀ (n : Nat) (src : Bytes), callsOf (decodeCoordinates n src).1 = [] := by
  intro n
  induction n with
  | zero => intro src; simp [decodeCoordinates]
  | succ n ih =>
    intro src
    unfold decodeCoordinates
    split
    · rfl
    · rename_i it x rest hnum
      obtain ⟨l, rfl⟩ := decodeNumber_line hnum
      have := ih rest
      split <;> rename_i hrec <;> rw [hrec] at this <;> simpa using this

theorem decodePaletteColors_lines (dec : Bytes → Option (Color × Bytes)) :
    ∀ (n i : Nat) (pal : Palette) (src : Bytes) (its : List Item) (pal' : Palette) (rest : Bytes),
      decodePaletteColors dec n i pal src = some (its, pal', rest) → callsOf its = [] := by
  intro n
  induction n with
  | zero => intro i pal src its pal' rest h; simp [decodePaletteColors] at h; obtain ⟨rfl, _, _⟩ := h; rfl
  | succ n ih =>
    intro i pal src its pal' rest h
    unfold decodePaletteColors at h
    cases hd : dec src with
    | none => simp [hd] at h
    | some p =>
      obtain ⟨c, r⟩ := p
      simp only [hd] at h
      cases hrec : decodePaletteColors dec n (i + 1) (pal.set6 (UInt8.ofNat i) c.toRGBA.1) r with
      | none => simp [hrec] at h
      | some q =>
        obtain ⟨its', pal'', rest'⟩ := q
        simp only [hrec, Option.some.injEq, Prod.mk.injEq] at h
        obtain ⟨rfl, _, _⟩ := h
        simpa using ih _ _ _ _ _ _ hrec

/-- the metadata section delivers nothing to the destination -/
theorem decodeMetadataChunk_lines (m : Metadata) (minMID : Nat) (src : Bytes) :
    callsOf (decodeMetadataChunk m minMID src).1 = [] := by
  unfold decodeMetadataChunk
  cases h1 : decodeNatural src with
  | none => rfl
  | some p1 =>
    obtain ⟨length, n1, src1⟩ := p1
    simp only
    cases h2 : decodeNatural src1 with
    | none => rfl
    | some p2 =>
      obtain ⟨mid, n2, src2⟩ := p2
      simp only
      by_cases g1 : mid ≥ 2
      · simp [g1]
      · by_cases g2 : mid < minMID
        · simp [g1, g2]
        · simp only [g1, g2, if_false]
          by_cases g3 : mid = 0
          · simp only [g3, if_true]
            have hl := decodeCoordinates_lines 4 src2
            rcases hc : decodeCoordinates 4 src2 with ⟨its, o⟩
            rw [hc] at hl
            simp only at hl
            cases o with
            | none => simpa using hl
            | some q =>
              obtain ⟨xs, src3⟩ := q
              match xs with
              | [a, b, c, d] => simp only; split <;> (try split) <;> simpa using hl
              | [] => simpa using hl
              | [_] => simpa using hl
              | [_, _] => simpa using hl
              | [_, _, _] => simpa using hl
              | _ :: _ :: _ :: _ :: _ :: _ => simpa using hl
          · simp only [g3, if_false]
            cases src2 with
            | nil => rfl
            | cons h src3 =>
              simp only
              generalize hpc : decodePaletteColors _ _ _ _ _ = r
              cases r with
              | none => rfl
              | some q =>
                obtain ⟨its, pal, src4⟩ := q
                have := decodePaletteColors_lines _ _ _ _ _ _ _ _ hpc
                simp only
                split <;> simpa using this

theorem decodeChunks_zero (fuel : Nat) (m : Metadata) (minMID : Nat) (src : Bytes) :
    decodeChunks fuel 0 m minMID src = ([], .ok (m, src)) := by
  cases fuel <;> simp [decodeChunks]

theorem decodeChunks_cons (fuel n : Nat) (m : Metadata) (minMID : Nat) (src : Bytes) (its : List Item)
    (m' : Metadata) (minMID' : Nat) (rest : Bytes)
    (h : decodeMetadataChunk m minMID src = (its, .ok (m', minMID', rest))) :
    decodeChunks (fuel + 1) (n + 1) m minMID src =
      (its ++ (decodeChunks fuel n m' minMID' rest).1, (decodeChunks fuel n m' minMID' rest).2) := by
  simp [decodeChunks, h]

/-- decoding the whole stream: header written by `Encoder.reset`, then any instruction bytes -/
theorem header_decodes (e : Encoder) (vb : ViewBox F32) (pal : Palette)
    (hv : vbNeDefault vb = true → VBValid vb) (hp : ∀ c ∈ pal.toList, c.validPremul = true) (body : Bytes) :
    Dec.decode [] ((e.reset vb pal).buf ++ body) =
      (.reset (rtViewBox vb) pal :: (Dc .styling body).1, (Dc .styling body).2) := by
  have hmagic : ∀ r : Bytes, (magic ++ r).take 4 = magic ∧ (magic ++ r).drop 4 = r := by
    intro r; simp [magic]
  have hn : ∀ (n : Nat) (r : Bytes), n < 3 → decodeNatural (encodeNatural n ++ r) = some (n, 1, r) := by
    intro n r h
    have := decodeNatural_encodeNatural n (by omega) r
    simpa [natWidth, show n < 128 by omega] using this
  have hloop : ∀ b : Bytes, (callsOf (loop (b.length + 1) .styling b).1, (loop (b.length + 1) .styling b).2) = Dc .styling b :=
    fun _ => rfl
  unfold Dec.decode decodeCore
  cases hvb : vbNeDefault vb <;> cases hpal : (pal != defaultPalette)
  · -- no chunks
    have hpal' : pal = defaultPalette := by simpa using hpal
    have hbuf : (e.reset vb pal).buf ++ body = magic ++ (encodeNatural 0 ++ body) := by
      simp [Encoder.reset, hvb, hpal, List.append_assoc]
    rw [hbuf]
    obtain ⟨ht, hd⟩ := hmagic (encodeNatural 0 ++ body)
    simp only [ht, hd, ne_eq, not_true_eq_false, if_false, hn 0 body (by omega), decodeChunks_zero]
    simp [applyOptions, rtViewBox, hvb, hpal', callsOf_append, Dc]
  · -- palette chunk only
    have hbuf : (e.reset vb pal).buf ++ body =
        magic ++ (encodeNatural 1 ++ (encodeNatural (paletteChunk pal).length ++ paletteChunk pal ++ body)) := by
      simp [Encoder.reset, hvb, hpal, List.append_assoc]
    obtain ⟨its, hc⟩ := paletteChunk_decodes pal (explicitCount_ne_zero pal hpal) hp {} rfl 0 (by omega) body
    rw [hbuf]
    obtain ⟨ht, hd⟩ := hmagic (encodeNatural 1 ++ (encodeNatural (paletteChunk pal).length ++ paletteChunk pal ++ body))
    have hl := decodeMetadataChunk_lines {} 0 (encodeNatural (paletteChunk pal).length ++ paletteChunk pal ++ body)
    rw [hc] at hl
    simp only [ht, hd, ne_eq, not_true_eq_false, if_false, hn 1 _ (by omega), decodeChunks, hc, decodeChunks_zero]
    simp [applyOptions, rtViewBox, hvb, callsOf_append, Dc, hl]
  · -- viewBox chunk only
    have hpal' : pal = defaultPalette := by simpa using hpal
    have hbuf : (e.reset vb pal).buf ++ body =
        magic ++ (encodeNatural 1 ++ (encodeNatural (viewBoxChunk vb).length ++ viewBoxChunk vb ++ body)) := by
      simp [Encoder.reset, hvb, hpal, List.append_assoc]
    obtain ⟨its, hc⟩ := viewBoxChunk_decodes vb (hv hvb) {} body
    rw [hbuf]
    obtain ⟨ht, hd⟩ := hmagic (encodeNatural 1 ++ (encodeNatural (viewBoxChunk vb).length ++ viewBoxChunk vb ++ body))
    have hl := decodeMetadataChunk_lines {} 0 (encodeNatural (viewBoxChunk vb).length ++ viewBoxChunk vb ++ body)
    rw [hc] at hl
    simp only [ht, hd, ne_eq, not_true_eq_false, if_false, hn 1 _ (by omega), decodeChunks, hc, decodeChunks_zero]
    simp [applyOptions, rtViewBox, hvb, hpal', callsOf_append, Dc, hl]
  · -- both chunks
    have hbuf : (e.reset vb pal).buf ++ body =
        magic ++ (encodeNatural 2 ++ (encodeNatural (viewBoxChunk vb).length ++ viewBoxChunk vb ++
          (encodeNatural (paletteChunk pal).length ++ paletteChunk pal ++ body))) := by
      simp [Encoder.reset, hvb, hpal, List.append_assoc]
    obtain ⟨its1, hc1⟩ := viewBoxChunk_decodes vb (hv hvb) {}
      (encodeNatural (paletteChunk pal).length ++ paletteChunk pal ++ body)
    obtain ⟨its2, hc2⟩ := paletteChunk_decodes pal (explicitCount_ne_zero pal hpal) hp
      ({ ({} : Metadata) with viewBox := rtVB vb }) rfl 1 (by omega) body
    rw [hbuf]
    obtain ⟨ht, hd⟩ := hmagic (encodeNatural 2 ++ (encodeNatural (viewBoxChunk vb).length ++ viewBoxChunk vb ++
          (encodeNatural (paletteChunk pal).length ++ paletteChunk pal ++ body)))
    have hl1 := decodeMetadataChunk_lines {} 0 (encodeNatural (viewBoxChunk vb).length ++ viewBoxChunk vb ++
      (encodeNatural (paletteChunk pal).length ++ paletteChunk pal ++ body))
    rw [hc1] at hl1
    have hl2 := decodeMetadataChunk_lines ({ ({} : Metadata) with viewBox := rtVB vb }) 1
      (encodeNatural (paletteChunk pal).length ++ paletteChunk pal ++ body)
    rw [hc2] at hl2
    simp only at hl1 hl2
    have hlen : 1 ≤ (encodeNatural (viewBoxChunk vb).length ++ viewBoxChunk vb ++
          (encodeNatural (paletteChunk pal).length ++ paletteChunk pal ++ body)).length := by
      have := encodeNatural_ne_nil (viewBoxChunk vb).length
      cases h : encodeNatural (viewBoxChunk vb).length with
      | nil => exact absurd h this
      | cons x xs => simp
    simp only [ht, hd, ne_eq, not_true_eq_false, if_false, hn 2 _ (by omega)]
    generalize hfu : (encodeNatural (viewBoxChunk vb).length ++ viewBoxChunk vb ++
          (encodeNatural (paletteChunk pal).length ++ paletteChunk pal ++ body)).length + 1 = fuel
    obtain ⟨f, rfl⟩ : ∃ f, fuel = f + 2 := ⟨fuel - 2, by omega⟩
    rw [decodeChunks_cons _ _ _ _ _ _ _ _ _ hc1, decodeChunks_cons _ _ _ _ _ _ _ _ _ hc2, decodeChunks_zero]
    simp [applyOptions, rtViewBox, hvb, callsOf_append, Dc, hl1, hl2]

end Ivg.Header
