import Ivg.Lemmas.PathParse3
/-!
# C20, parsing clauses — the converter's `ParsePathData` on printed path data

`Md.floatToken`, `Md.scanArgs`, `Md.pathLoop`, `Md.parsePathData` on the concrete syntax of
`Ivg/Spec/PathData.lean` (`renderMd`): the calls made are the ones spelled by the path (`spelledMd`).
-/
namespace Ivg.MdParse
open Ivg Gen Spec.PathData PathParse
variable {α : Type} [Arith α]

/-! ## `floatToken` -/

/-- `floatToken` behind the spaces and the sign -/
def floatCore (sign r : List Char) : List Char × List Char :=
  let ip := r.takeWhile isDigit
  let r := r.dropWhile isDigit
  match r with
  | '.' :: r' => (sign ++ ip ++ ['.'] ++ r'.takeWhile isDigit, r'.dropWhile isDigit)
  | _ => (sign ++ ip, r)

theorem spaceFun_eq : (fun c : Char => decide (c = ' ')) = isSpace := rfl

theorem floatToken_def (d : List Char) :
    Md.floatToken d =
      (let p : List Char × List Char := (match d.dropWhile isSpace with
        | '-' :: r => (['-'], r)
        | '+' :: r => (['+'], r)
        | r => ([], r))
       floatCore p.1 p.2) := rfl

theorem floatToken_minus (d r : List Char) (h : d.dropWhile isSpace = '-' :: r) :
    Md.floatToken d = floatCore ['-'] r := by
  rw [floatToken_def, h]; rfl

theorem floatToken_plus (d r : List Char) (h : d.dropWhile isSpace = '+' :: r) :
    Md.floatToken d = floatCore ['+'] r := by
  rw [floatToken_def, h]; rfl

theorem floatToken_unsigned (d r : List Char) (h : d.dropWhile isSpace = r)
    (h1 : r.head? ≠ some '-') (h2 : r.head? ≠ some '+') : Md.floatToken d = floatCore [] r := by
  rw [floatToken_def, h]
  simp only
  split
  · simp at h1
  · simp at h2
  · rfl

theorem tw_digits (ds : List (Fin 10)) (Y : List Char) (hY : ∀ y ∈ Y.head?, isDigit y = false) :
    (ds.map digitChar ++ Y).takeWhile isDigit = ds.map digitChar ∧
    (ds.map digitChar ++ Y).dropWhile isDigit = Y := by
  rw [List.takeWhile_append_of_pos isDigit_of_mem_map, List.dropWhile_append_of_pos isDigit_of_mem_map]
  cases Y with
  | nil => simp
  | cons y Y' =>
    have := hY y (by simp)
    simp [this]

/-- what may follow the numeral `t` directly: nothing, or a character that ends it -/
def StopsL (t : Tok) (Y : List Char) : Prop := ∀ y ∈ Y.head?, Stops t y

theorem floatCore_render (t : Tok) (sign : List Char) (Y : List Char) (hY : StopsL t Y) :
    floatCore sign (t.int.map digitChar ++ fracR t ++ Y) = (sign ++ t.int.map digitChar ++ fracR t, Y) := by
  unfold floatCore fracR
  cases hf : t.frac with
  | none =>
    have hYd : ∀ y ∈ Y.head?, isDigit y = false := fun y hy => (hY y hy).1
    obtain ⟨h1, h2⟩ := tw_digits t.int Y hYd
    simp only [List.append_nil, h1, h2]
    split
    · rename_i r'
      have := (hY '.' (by simp)).2 rfl
      simp [Tok.hasDot, hf] at this
    · rfl
  | some f =>
    have hd : ∀ y ∈ ('.' :: (f.map digitChar ++ Y)).head?, isDigit y = false := by
      intro y hy; simp at hy; subst hy; decide
    have hYd : ∀ y ∈ Y.head?, isDigit y = false := fun y hy => (hY y hy).1
    obtain ⟨h1, h2⟩ := tw_digits t.int _ hd
    obtain ⟨h3, h4⟩ := tw_digits f Y hYd
    simp only [List.append_assoc, List.cons_append, h1, h2, h3, h4]
    simp

theorem dropSpaces (sp R : List Char) (hsp : ∀ c ∈ sp, c = ' ') (hR : ∀ c ∈ R.head?, c ≠ ' ') :
    (sp ++ R).dropWhile isSpace = R := by
  rw [List.dropWhile_append_of_pos (fun c hc => by simp [isSpace, hsp c hc])]
  cases R with
  | nil => rfl
  | cons c R' =>
    have := hR c (by simp)
    simp [isSpace, this]

/-- the converter's scanner reads a printed numeral (after any spaces) and stops behind it -/
theorem floatToken_render (t : Tok) (hok : t.ok = true) (sp : List Char) (hsp : ∀ c ∈ sp, c = ' ')
    (Y : List Char) (hY : StopsL t Y) : Md.floatToken (sp ++ t.render ++ Y) = (t.render, Y) := by
  obtain ⟨w, tl, hr, hwsep, _, _, _⟩ := tok_first t hok
  have hw : w ≠ ' ' := by intro h; subst h; revert hwsep; decide
  have hdrop : (sp ++ t.render ++ Y).dropWhile isSpace = t.render ++ Y := by
    rw [List.append_assoc]
    exact dropSpaces sp _ hsp (by rw [hr]; intro c hc; simp at hc; subst hc; exact hw)
  rw [render_eq] at hdrop ⊢
  cases hs : t.sign with
  | minus =>
    rw [hs] at hdrop
    rw [floatToken_minus _ (t.int.map digitChar ++ fracR t ++ Y) (by simpa [Sign.render] using hdrop),
      floatCore_render t _ Y hY]
    simp [Sign.render]
  | plus =>
    rw [hs] at hdrop
    rw [floatToken_plus _ (t.int.map digitChar ++ fracR t ++ Y) (by simpa [Sign.render] using hdrop),
      floatCore_render t _ Y hY]
    simp [Sign.render]
  | none =>
    rw [hs] at hdrop
    have hh1 : (t.int.map digitChar ++ fracR t ++ Y).head? ≠ some '-' := by
      unfold fracR
      cases hi : t.int with
      | cons d ds => simpa using digitChar_ne_minus d
      | nil =>
        cases hf : t.frac with
        | none => simp [Tok.ok, Tok.fracDigits, hi, hf] at hok
        | some f => simp
    have hh2 : (t.int.map digitChar ++ fracR t ++ Y).head? ≠ some '+' := by
      unfold fracR
      cases hi : t.int with
      | cons d ds => simpa using digitChar_ne_plus d
      | nil =>
        cases hf : t.frac with
        | none => simp [Tok.ok, Tok.fracDigits, hi, hf] at hok
        | some f => simp
    rw [floatToken_unsigned _ (t.int.map digitChar ++ fracR t ++ Y) (by simpa [Sign.render] using hdrop) hh1 hh2,
      floatCore_render t _ Y hY]
    simp [Sign.render]

end Ivg.MdParse
