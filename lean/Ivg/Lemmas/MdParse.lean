import Ivg.Lemmas.PathParse3
/-!
# C20, parsing clauses — the converter's `ParsePathData` on printed path data

`Md.floatToken`, `Md.scanArgs`, `Md.pathLoop`, `Md.parsePathData` on the concrete syntax of
`Ivg/Spec/PathData.lean` (`renderMd`): the calls made are the ones spelled by the path (`spelledMd`).
-/
namespace Ivg.MdParse
open Ivg Gen Spec.PathData PathParse
variable {α : Type} [Arith α]

/-! ## `floatToken` -/

/-- `floatToken` behind the spaces and the sign -/
def floatCore (sign r : List Char) : List Char × List Char :=
  let ip := r.takeWhile isDigit
  let r := r.dropWhile isDigit
  match r with
  | '.' :: r' => (sign ++ ip ++ ['.'] ++ r'.takeWhile isDigit, r'.dropWhile isDigit)
  | _ => (sign ++ ip, r)

theorem spaceFun_eq : (fun c : Char => decide (c = ' ')) = isSpace := rfl

theorem floatToken_def (d : List Char) :
    Md.floatToken d =
      (let p : List Char × List Char := (match d.dropWhile isSpace with
        | '-' :: r => (['-'], r)
        | '+' :: r => (['+'], r)
        | r => ([], r))
       floatCore p.1 p.2) := rfl

theorem floatToken_minus (d r : List Char) (h : d.dropWhile isSpace = '-' :: r) :
    Md.floatToken d = floatCore ['-'] r := by
  rw [floatToken_def, h]; rfl

theorem floatToken_plus (d r : List Char) (h : d.dropWhile isSpace = '+' :: r) :
    Md.floatToken d = floatCore ['+'] r := by
  rw [floatToken_def, h]; rfl

theorem floatToken_unsigned (d r : List Char) (h : d.dropWhile isSpace = r)
    (h1 : r.head? ≠ some '-') (h2 : r.head? ≠ some '+') : Md.floatToken d = floatCore [] r := by
  rw [floatToken_def, h]
  simp only
  split
  · simp at h1
  · simp at h2
  · rfl

theorem tw_digits (ds : List (Fin 10)) (Y : List Char) (hY : ∀ y ∈ Y.head?, isDigit y = false) :
    (ds.map digitChar ++ Y).takeWhile isDigit = ds.map digitChar ∧
    (ds.map digitChar ++ Y).dropWhile isDigit = Y := by
  rw [List.takeWhile_append_of_pos isDigit_of_mem_map, List.dropWhile_append_of_pos isDigit_of_mem_map]
  cases Y with
  | nil => simp
  | cons y Y' =>
    have := hY y (by simp)
    simp [this]

/-- what may follow the numeral `t` directly: nothing, or a character that ends it -/
def StopsL (t : Tok) (Y : List Char) : Prop := ∀ y ∈ Y.head?, Stops t y

theorem floatCore_render (t : Tok) (sign : List Char) (Y : List Char) (hY : StopsL t Y) :
    floatCore sign (t.int.map digitChar ++ fracR t ++ Y) = (sign ++ t.int.map digitChar ++ fracR t, Y) := by
  unfold floatCore fracR
  cases hf : t.frac with
  | none =>
    have hYd : ∀ y ∈ Y.head?, isDigit y = false := fun y hy => (hY y hy).1
    obtain ⟨h1, h2⟩ := tw_digits t.int Y hYd
    simp only [List.append_nil, h1, h2]
    split
    · rename_i r'
      have := (hY '.' (by simp)).2 rfl
      simp [Tok.hasDot, hf] at this
    · rfl
  | some f =>
    have hd : ∀ y ∈ ('.' :: (f.map digitChar ++ Y)).head?, isDigit y = false := by
      intro y hy; simp at hy; subst hy; decide
    have hYd : ∀ y ∈ Y.head?, isDigit y = false := fun y hy => (hY y hy).1
    obtain ⟨h1, h2⟩ := tw_digits t.int _ hd
    obtain ⟨h3, h4⟩ := tw_digits f Y hYd
    simp only [List.append_assoc, List.cons_append, h1, h2, h3, h4]
    simp

theorem dropSpaces (sp R : List Char) (hsp : ∀ c ∈ sp, c = ' ') (hR : ∀ c ∈ R.head?, c ≠ ' ') :
    (sp ++ R).dropWhile isSpace = R := by
  rw [List.dropWhile_append_of_pos (fun c hc => by simp [isSpace, hsp c hc])]
  cases R with
  | nil => rfl
  | cons c R' =>
    have := hR c (by simp)
    simp [isSpace, this]

/-- the converter's scanner reads a printed numeral (after any spaces) and stops behind it -/
theorem floatToken_render (t : Tok) (hok : t.ok = true) (sp : List Char) (hsp : ∀ c ∈ sp, c = ' ')
    (Y : List Char) (hY : StopsL t Y) : Md.floatToken (sp ++ t.render ++ Y) = (t.render, Y) := by
  obtain ⟨w, tl, hr, hwsep, _, _, _⟩ := tok_first t hok
  have hw : w ≠ ' ' := by intro h; subst h; revert hwsep; decide
  have hdrop : (sp ++ t.render ++ Y).dropWhile isSpace = t.render ++ Y := by
    rw [List.append_assoc]
    exact dropSpaces sp _ hsp (by rw [hr]; intro c hc; simp at hc; subst hc; exact hw)
  rw [render_eq] at hdrop ⊢
  cases hs : t.sign with
  | minus =>
    rw [hs] at hdrop
    rw [floatToken_minus _ (t.int.map digitChar ++ fracR t ++ Y) (by simpa [Sign.render] using hdrop),
      floatCore_render t _ Y hY]
    simp [Sign.render]
  | plus =>
    rw [hs] at hdrop
    rw [floatToken_plus _ (t.int.map digitChar ++ fracR t ++ Y) (by simpa [Sign.render] using hdrop),
      floatCore_render t _ Y hY]
    simp [Sign.render]
  | none =>
    rw [hs] at hdrop
    have hh1 : (t.int.map digitChar ++ fracR t ++ Y).head? ≠ some '-' := by
      unfold fracR
      cases hi : t.int with
      | cons d ds => simpa using digitChar_ne_minus d
      | nil =>
        cases hf : t.frac with
        | none => simp [Tok.ok, Tok.fracDigits, hi, hf] at hok
        | some f => simp
    have hh2 : (t.int.map digitChar ++ fracR t ++ Y).head? ≠ some '+' := by
      unfold fracR
      cases hi : t.int with
      | cons d ds => simpa using digitChar_ne_plus d
      | nil =>
        cases hf : t.frac with
        | none => simp [Tok.ok, Tok.fracDigits, hi, hf] at hok
        | some f => simp
    rw [floatToken_unsigned _ (t.int.map digitChar ++ fracR t ++ Y) (by simpa [Sign.render] using hdrop) hh1 hh2,
      floatCore_render t _ Y hY]
    simp [Sign.render]

/-! ## `scanArgs` -/

/-- a numeral of the converter's dialect: at least one digit, followed by spaces only -/
def TokOKmd (t : CTok) : Prop := t.tok.ok = true ∧ ∀ c ∈ t.sep, c = ' '

theorem TokOKmd.toOK {t : CTok} (h : TokOKmd t) : TokOK t :=
  ⟨h.1, by rw [List.all_eq_true]; intro c hc; rw [h.2 c hc]; decide⟩

/-- what `scanArgs` leaves unread in front of `X`: the spaces after the last numeral read (or the
    leading spaces if it reads nothing) -/
def trail : List CTok → List Char → List Char
  | [], sp => sp
  | t :: r, _ => trail r t.sep

theorem trail_spaces (g : List CTok) (hg : ∀ t ∈ g, TokOKmd t) (sp : List Char) (hsp : ∀ c ∈ sp, c = ' ') :
    ∀ c ∈ trail g sp, c = ' ' := by
  induction g generalizing sp with
  | nil => exact hsp
  | cons t r ih =>
    exact ih (fun t' h' => hg t' (List.mem_cons_of_mem _ h')) t.sep (hg t List.mem_cons_self).2

theorem trail_len (g : List CTok) (sp : List Char) :
    (trail g sp).length ≤ sp.length + (g.flatMap CTok.render).length := by
  induction g generalizing sp with
  | nil => simp [trail]
  | cons t r ih =>
    have := ih t.sep
    simp only [trail, List.flatMap_cons, List.length_append, CTok.render]
    omega

theorem trail_lt (g : List CTok) (hne : g ≠ []) (hg : ∀ t ∈ g, TokOKmd t) (sp : List Char) :
    (trail g sp).length < (g.flatMap CTok.render).length := by
  cases g with
  | nil => exact absurd rfl hne
  | cons t r =>
    have := trail_len r t.sep
    obtain ⟨w, tl, hr, _⟩ := tok_first t.tok (hg t List.mem_cons_self).1
    simp only [trail, List.flatMap_cons, List.length_append, CTok.render, hr, List.length_cons]
    omega

theorem headD_append (r : List CTok) (X : List Char) :
    (r.flatMap CTok.render ++ X).headD 'z' = firstOf r (X.headD 'z') := by
  unfold firstOf
  cases h : r.flatMap CTok.render with
  | nil => simp
  | cons c cs => simp

theorem scan_group (g : List CTok) (hg : ∀ t ∈ g, TokOKmd t) (X : List Char)
    (hch : ChainTo g (X.headD 'z')) :
    ∀ (sp : List Char), (∀ c ∈ sp, c = ' ') →
    Md.scanArgs (α := α) g.length (sp ++ g.flatMap CTok.render ++ X) =
      some (g.map (fun t => t.tok.value32), trail g sp ++ X) := by
  induction g with
  | nil => intro sp _; simp [Md.scanArgs, trail]
  | cons t r ih =>
    intro sp hsp
    have ht := hg t List.mem_cons_self
    -- what follows the numeral
    have hY : StopsL t.tok (t.sep ++ r.flatMap CTok.render ++ X) := by
      intro y hy
      cases hs : t.sep with
      | cons s ss =>
        rw [hs] at hy; simp at hy; subst hy
        have : s = ' ' := ht.2 s (by simp [hs])
        subst this
        exact ⟨by decide, fun h => by cases h⟩
      | nil =>
        rw [hs, List.nil_append] at hy
        have hy' : (r.flatMap CTok.render ++ X).headD 'z' = y := by
          cases hl : r.flatMap CTok.render ++ X with
          | nil => rw [hl] at hy; simp at hy
          | cons a b => rw [hl] at hy; simp at hy; simp [hy]
        rw [headD_append] at hy'
        rcases hch.1.2 with h | h
        · exact absurd hs h
        · rw [hy'] at h; exact h
    have hstr : sp ++ (t :: r).flatMap CTok.render ++ X =
        sp ++ t.tok.render ++ (t.sep ++ r.flatMap CTok.render ++ X) := by
      simp [CTok.render]
    rw [hstr, List.length_cons]
    simp only [Md.scanArgs, floatToken_render t.tok ht.1 sp hsp _ hY, parse_render t.tok ht.1]
    rw [ih (fun t' h' => hg t' (List.mem_cons_of_mem _ h')) hch.2 t.sep ht.2]
    rfl

/-! ## tables -/

theorem arityMd_eq (v : Char) : arityMd v = Md.opArgCount v := by
  unfold arityMd Md.opArgCount
  split
  · rfl
  · rfl
  · rename_i h1 h2
    unfold arity
    split <;> (try rfl)
    · exact absurd rfl h1
    · exact absurd rfl h2
    · split <;> simp_all

/-- the converter's verb letters are letters, not spaces, and delimit numerals -/
theorem op_letter (x : Char) (h : Md.opArgCount x ≠ none) :
    x ≠ ' ' ∧ (('A' ≤ x ∧ x ≤ 'Z') ∨ ('a' ≤ x ∧ x ≤ 'z')) ∧ isSep x = false ∧ isDigit x = false ∧ x ≠ '.' := by
  unfold Md.opArgCount at h
  split at h <;> first | (refine ⟨?_, ?_, ?_, ?_, ?_⟩ <;> decide) | exact absurd rfl h

/-- the first character of a numeral is neither a space nor a letter -/
theorem tok_first_md (t : Tok) (hok : t.ok = true) :
    ∃ w tl, t.render = w :: tl ∧ w ≠ ' ' ∧ ¬ (('A' ≤ w ∧ w ≤ 'Z') ∨ ('a' ≤ w ∧ w ≤ 'z')) := by
  rw [render_eq]
  cases hs : t.sign with
  | minus => exact ⟨'-', _, by simp [Sign.render]; rfl, by decide, by decide⟩
  | plus => exact ⟨'+', _, by simp [Sign.render]; rfl, by decide, by decide⟩
  | none =>
    cases hi : t.int with
    | cons d ds =>
      have h1 : ∀ d : Fin 10, digitChar d ≠ ' ' ∧
          ¬ (('A' ≤ digitChar d ∧ digitChar d ≤ 'Z') ∨ ('a' ≤ digitChar d ∧ digitChar d ≤ 'z')) := by decide
      exact ⟨digitChar d, _, by simp [Sign.render]; rfl, (h1 d).1, (h1 d).2⟩
    | nil =>
      unfold fracR
      cases hf : t.frac with
      | none => simp [Tok.ok, Tok.fracDigits, hi, hf] at hok
      | some f => exact ⟨'.', _, by simp [Sign.render]; rfl, by decide, by decide⟩

theorem md_normalize_length (a : List α) (n : Nat) (o : Char) (size offX offY outSize : α) (rel : Bool) :
    (Md.normalizeArgs a n o size offX offY outSize rel).length = a.length := by
  simp [Md.normalizeArgs]

/-- the calls the converter makes for one operand group -/
theorem emit_draw_md (o : Char) (n : Nat) (ho : Md.opArgCount o = some n) (hn : n ≠ 0) (started : Bool)
    (adj : UInt8) (a : List α) (ha : a.length = n) :
    Md.emitOp o started adj a = if o = 'M' ∧ started = false then start adj a else draw o a := by
  unfold Md.opArgCount at ho
  split at ho <;> cases ho <;>
    first
    | exact absurd rfl hn
    | (obtain ⟨a0, rfl⟩ := len1 ha; rfl)
    | (obtain ⟨a0, a1, rfl⟩ := len2 ha; cases started <;> rfl)
    | (obtain ⟨a0, a1, a2, a3, rfl⟩ := len4 ha; rfl)
    | (obtain ⟨a0, a1, a2, a3, a4, a5, rfl⟩ := len6 ha; rfl)

omit [Arith α] in
theorem emit_z_md (o : Char) (ho : Md.opArgCount o = some 0) (started : Bool) (adj : UInt8) :
    Md.emitOp o started adj ([] : List α) = [] := by
  unfold Md.opArgCount at ho
  split at ho <;> cases ho <;> rfl

end Ivg.MdParse
