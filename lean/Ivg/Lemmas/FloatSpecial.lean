import Ivg.Lemmas.FloatRound
/-!
# `+ - * /` on infinities, zeros and NaNs (binary64)

`FloatMono.add_Rnd … div_Rnd` cover finite operands (for a non-zero exact result `Rnd` also fixes the sign).
Here are the remaining operand classes, as IEEE 754 / SSE prescribe them:
* the sign of an exact zero result (`add_zero_sign`: `-0` only for `(-0) + (-0)`; `mul_zero_sign`, `div_zero_sign`:
  exclusive or of the operand signs);
* infinite operands (`add_inf_*`, `mul_inf_*`, `div_inf_*`), division by zero (`div_by_zero`), the invalid
  operations `Inf - Inf`, `0·Inf`, `0/0`, `Inf/Inf` giving the default NaN;
* `sub_eq_add_neg` (so the `sub` cases are the `add` cases);
* NaN operands: the first NaN operand is returned quieted (`add_nan_left`, …).
-/
namespace Ivg.FloatSpecial
open Ivg Num FloatOrder FloatMono FloatRound

/-- the default ("real indefinite") NaN -/
def dNaN : Nat := 0xFFF8000000000000

theorem defaultNaN_eq : Fmt.f64.defaultNaN = dNaN := by decide

/-- `±Inf` with the given sign -/
def inf (s : Bool) : Nat := if s then 0xFFF0000000000000 else 0x7FF0000000000000
/-- `±0` with the given sign -/
def zero (s : Bool) : Nat := if s then 0x8000000000000000 else 0

theorem withSign_inf (s : Bool) : withSign .f64 s Fmt.f64.infBits = inf s := by
  rw [withSign64, infBits_f64]; unfold inf; cases s <;> rfl

theorem withSign_zero (s : Bool) : withSign .f64 s 0 = zero s := by
  rw [withSign64]; unfold zero; cases s <;> rfl

theorem mant_zero_iff (a : Nat) : bval a = 0 ↔ mantB a = 0 := by
  unfold bval sval
  have hp := pow2_ne (expB a)
  constructor
  · intro h
    by_contra hm
    have hq : (mantB a : ℚ) ≠ 0 := by exact_mod_cast hm
    have hprod : (mantB a : ℚ) * pow2 (expB a) ≠ 0 := mul_ne_zero hq hp
    rcases mul_eq_zero.1 h with h | h
    · split at h <;> norm_num at h
    · exact hprod h
  · intro h; rw [h]; simp

/-! ## NaN operands -/

theorem isNaN_true (a : Nat) (h : ¬ NNB a) : Num.isNaN .f64 a = true := by
  rcases hh : Num.isNaN .f64 a with _ | _
  · exact absurd ((isNaN_iff a).1 hh) h
  · rfl

theorem propNaN_left (a b : Nat) (h : ¬ NNB a) : propNaN .f64 a b = quiet .f64 a := by
  unfold propNaN; rw [isNaN_true a h]; rfl

theorem propNaN_right (a b : Nat) (ha : NNB a) (_h : ¬ NNB b) : propNaN .f64 a b = quiet .f64 b := by
  unfold propNaN; rw [(isNaN_iff a).2 ha]; rfl

theorem add_nan_left (a b : Nat) (h : ¬ NNB a) : Num.add .f64 a b = quiet .f64 a := by
  unfold Num.add; rw [unpack_nan a h]; exact propNaN_left a b h
theorem mul_nan_left (a b : Nat) (h : ¬ NNB a) : Num.mul .f64 a b = quiet .f64 a := by
  unfold Num.mul; rw [unpack_nan a h]; exact propNaN_left a b h
theorem div_nan_left (a b : Nat) (h : ¬ NNB a) : Num.div .f64 a b = quiet .f64 a := by
  unfold Num.div; rw [unpack_nan a h]; exact propNaN_left a b h
theorem sub_nan_left (a b : Nat) (h : ¬ NNB a) : Num.sub .f64 a b = quiet .f64 a := by
  unfold Num.sub; rw [isNaN_true a h]; exact propNaN_left a b h

theorem add_nan_right (a b : Nat) (ha : NNB a) (h : ¬ NNB b) : Num.add .f64 a b = quiet .f64 b := by
  unfold Num.add; rw [unpack_nan b h]
  have h3 := unpack_not_nan a ha
  split <;> first | exact propNaN_right a b ha h | (exfalso; simp_all)
theorem mul_nan_right (a b : Nat) (ha : NNB a) (h : ¬ NNB b) : Num.mul .f64 a b = quiet .f64 b := by
  unfold Num.mul; rw [unpack_nan b h]
  have h3 := unpack_not_nan a ha
  split <;> first | exact propNaN_right a b ha h | (exfalso; simp_all)
theorem div_nan_right (a b : Nat) (ha : NNB a) (h : ¬ NNB b) : Num.div .f64 a b = quiet .f64 b := by
  unfold Num.div; rw [unpack_nan b h]
  have h3 := unpack_not_nan a ha
  split <;> first | exact propNaN_right a b ha h | (exfalso; simp_all)
theorem sub_nan_right (a b : Nat) (ha : NNB a) (h : ¬ NNB b) : Num.sub .f64 a b = quiet .f64 b := by
  unfold Num.sub; rw [isNaN_true b h, Bool.or_true]; exact propNaN_right a b ha h

/-- for non-NaN operands `a - b` is `a + (-b)` -/
theorem sub_eq_add_neg (a b : Nat) (ha : NNB a) (hb : NNB b) : Num.sub .f64 a b = Num.add .f64 a (Num.neg .f64 b) := by
  unfold Num.sub; rw [(isNaN_iff a).2 ha, (isNaN_iff b).2 hb]; rfl

/-! ## addition -/

theorem add_inf_fin (a b : Nat) (ha : InfB a) (hb : FinB b) : Num.add .f64 a b = a := by
  unfold Num.add; rw [unpack_inf a ha, unpack_fin b hb]
theorem add_fin_inf (a b : Nat) (ha : FinB a) (hb : InfB b) : Num.add .f64 a b = b := by
  unfold Num.add; rw [unpack_fin a ha, unpack_inf b hb]
/-- `Inf + Inf = Inf` for equal signs, the default NaN for opposite signs -/
theorem add_inf_inf (a b : Nat) (ha : InfB a) (hb : InfB b) :
    Num.add .f64 a b = if negB64 a = negB64 b then a else dNaN := by
  unfold Num.add; rw [unpack_inf a ha, unpack_inf b hb]
  simp only [defaultNaN_eq, beq_iff_eq]

theorem add_zero_core (s : Bool) (m : Nat) (e : Int) (t : Bool) (n : Nat) (g e0 : Int) (h1 : e0 ≤ e) (h2 : e0 ≤ g)
    (h : sval s m e + sval t n g = 0) :
    (if s then -((m * 2 ^ (e - e0).toNat : Nat) : Int) else ((m * 2 ^ (e - e0).toNat : Nat) : Int)) +
    (if t then -((n * 2 ^ (g - e0).toNat : Nat) : Int) else ((n * 2 ^ (g - e0).toNat : Nat) : Int)) = 0 := by
  rw [sval_split s m e e0 h1, sval_split t n g e0 h2, ← add_mul] at h
  rcases mul_eq_zero.1 h with h | h
  · exact_mod_cast h
  · exact absurd h (pow2_ne e0)

/-- **sign of an exact zero sum**: `-0` only when both operands are negative (`(-0) + (-0)`), else `+0`
    (so `x + (-x) = +0`) -/
theorem add_zero_sign (a b : Nat) (fa : FinB a) (fb : FinB b) (h : bval a + bval b = 0) :
    Num.add .f64 a b = zero (negB64 a && negB64 b) := by
  unfold Num.add bval at *
  rw [unpack_fin a fa, unpack_fin b fb]
  generalize negB64 a = s at *; generalize mantB a = m at *; generalize expB a = e at *
  generalize negB64 b = t at *; generalize mantB b = n at *; generalize expB b = g at *
  simp only []
  have he0 := min_le_both e g
  have hz := add_zero_core s m e t n g _ he0.1 he0.2 h
  rw [hz]
  simp only [BEq.rfl, if_true]
  exact withSign_zero _

/-! ## multiplication -/

theorem mul_inf_inf (a b : Nat) (ha : InfB a) (hb : InfB b) :
    Num.mul .f64 a b = inf (negB64 a != negB64 b) := by
  unfold Num.mul; rw [unpack_inf a ha, unpack_inf b hb]; exact withSign_inf _
/-- `Inf · x`: the default NaN for `x = ±0`, else `±Inf` with the product sign -/
theorem mul_inf_fin (a b : Nat) (ha : InfB a) (hb : FinB b) :
    Num.mul .f64 a b = if bval b = 0 then dNaN else inf (negB64 a != negB64 b) := by
  unfold Num.mul; rw [unpack_inf a ha, unpack_fin b hb]
  simp only [defaultNaN_eq, withSign_inf, beq_iff_eq, mant_zero_iff]
theorem mul_fin_inf (a b : Nat) (ha : FinB a) (hb : InfB b) :
    Num.mul .f64 a b = if bval a = 0 then dNaN else inf (negB64 a != negB64 b) := by
  unfold Num.mul; rw [unpack_fin a ha, unpack_inf b hb]
  simp only [defaultNaN_eq, withSign_inf, beq_iff_eq, mant_zero_iff]
/-- **sign of a zero product** -/
theorem mul_zero_sign (a b : Nat) (fa : FinB a) (fb : FinB b) (h : bval a * bval b = 0) :
    Num.mul .f64 a b = zero (negB64 a != negB64 b) := by
  have hm : mantB a * mantB b = 0 := by
    rcases mul_eq_zero.1 h with h | h
    · rw [(mant_zero_iff a).1 h]; simp
    · rw [(mant_zero_iff b).1 h]; simp
  unfold Num.mul; rw [unpack_fin a fa, unpack_fin b fb]
  simp only [hm]
  rw [← withSign_zero]; simp [roundPack]

/-! ## division -/

theorem div_inf_inf (a b : Nat) (ha : InfB a) (hb : InfB b) : Num.div .f64 a b = dNaN := by
  unfold Num.div; rw [unpack_inf a ha, unpack_inf b hb]; exact defaultNaN_eq
theorem div_inf_fin (a b : Nat) (ha : InfB a) (hb : FinB b) :
    Num.div .f64 a b = inf (negB64 a != negB64 b) := by
  unfold Num.div; rw [unpack_inf a ha, unpack_fin b hb]; exact withSign_inf _
theorem div_fin_inf (a b : Nat) (ha : FinB a) (hb : InfB b) :
    Num.div .f64 a b = zero (negB64 a != negB64 b) := by
  unfold Num.div; rw [unpack_fin a ha, unpack_inf b hb]; exact withSign_zero _
/-- **division by zero**: `0/0` is the default NaN, `x/0 = ±Inf` with the quotient sign -/
theorem div_by_zero (a b : Nat) (fa : FinB a) (fb : FinB b) (hb0 : bval b = 0) :
    Num.div .f64 a b = if bval a = 0 then dNaN else inf (negB64 a != negB64 b) := by
  unfold Num.div; rw [unpack_fin a fa, unpack_fin b fb]
  have h1 : (mantB b == 0) = true := by simp [(mant_zero_iff b).1 hb0]
  simp only [h1, if_true, defaultNaN_eq, withSign_inf, beq_iff_eq, mant_zero_iff]
/-- **sign of a zero quotient** -/
theorem div_zero_sign (a b : Nat) (fa : FinB a) (fb : FinB b) (ha0 : bval a = 0) (hb0 : bval b ≠ 0) :
    Num.div .f64 a b = zero (negB64 a != negB64 b) := by
  unfold Num.div; rw [unpack_fin a fa, unpack_fin b fb]
  have h1 : (mantB b == 0) = false := by simp [(mant_zero_iff b).not.1 hb0]
  have h2 : (mantB a == 0) = true := by simp [(mant_zero_iff a).1 ha0]
  simp only [h1, h2, if_true, Bool.false_eq_true, if_false]
  exact withSign_zero _

/-! ## every result fits the width (the `F64` wrappers never truncate) -/

theorem quiet_lt (b : Nat) (hb : b < 18446744073709551616) : quiet .f64 b < 18446744073709551616 := by
  rw [quiet_f64]; split <;> omega

theorem inf_lt (s : Bool) : inf s < 18446744073709551616 := by unfold inf; cases s <;> decide
theorem zero_lt (s : Bool) : zero s < 18446744073709551616 := by unfold zero; cases s <;> decide
theorem dNaN_lt : dNaN < 18446744073709551616 := by decide

theorem add_lt (a b : Nat) (ha : a < 18446744073709551616) (hb : b < 18446744073709551616) :
    Num.add .f64 a b < 18446744073709551616 := by
  by_cases na : NNB a
  · by_cases nb : NNB b
    · by_cases fa : FinB a <;> by_cases fb : FinB b
      · exact (Rnd_lt _ _ (add_Rnd a b fa fb)).2
      · rw [add_fin_inf a b fa ⟨nb, fb⟩]; exact hb
      · rw [add_inf_fin a b ⟨na, fa⟩ fb]; exact ha
      · rw [add_inf_inf a b ⟨na, fa⟩ ⟨nb, fb⟩]; split
        · exact ha
        · exact dNaN_lt
    · rw [add_nan_right a b na nb]; exact quiet_lt b hb
  · rw [add_nan_left a b na]; exact quiet_lt a ha

theorem neg_NNB (b : Nat) (hb : b < 18446744073709551616) (h : NNB b) : NNB (Num.neg .f64 b) := by
  unfold NNB at *; unfold Num.neg; rw [signBit_f64]; split <;> omega

theorem sub_lt (a b : Nat) (ha : a < 18446744073709551616) (hb : b < 18446744073709551616) :
    Num.sub .f64 a b < 18446744073709551616 := by
  by_cases na : NNB a
  · by_cases nb : NNB b
    · rw [sub_eq_add_neg a b na nb]; exact add_lt a _ ha (neg_lt b hb)
    · rw [sub_nan_right a b na nb]; exact quiet_lt b hb
  · rw [sub_nan_left a b na]; exact quiet_lt a ha

theorem mul_lt (a b : Nat) (ha : a < 18446744073709551616) (hb : b < 18446744073709551616) :
    Num.mul .f64 a b < 18446744073709551616 := by
  by_cases na : NNB a
  · by_cases nb : NNB b
    · by_cases fa : FinB a <;> by_cases fb : FinB b
      · exact (Rnd_lt _ _ (mul_Rnd a b fa fb)).2
      · rw [mul_fin_inf a b fa ⟨nb, fb⟩]; split
        · exact dNaN_lt
        · exact inf_lt _
      · rw [mul_inf_fin a b ⟨na, fa⟩ fb]; split
        · exact dNaN_lt
        · exact inf_lt _
      · rw [mul_inf_inf a b ⟨na, fa⟩ ⟨nb, fb⟩]; exact inf_lt _
    · rw [mul_nan_right a b na nb]; exact quiet_lt b hb
  · rw [mul_nan_left a b na]; exact quiet_lt a ha

theorem div_lt (a b : Nat) (ha : a < 18446744073709551616) (hb : b < 18446744073709551616) :
    Num.div .f64 a b < 18446744073709551616 := by
  by_cases na : NNB a
  · by_cases nb : NNB b
    · by_cases fa : FinB a <;> by_cases fb : FinB b
      · by_cases h0 : bval b = 0
        · rw [div_by_zero a b fa fb h0]; split
          · exact dNaN_lt
          · exact inf_lt _
        · exact (Rnd_lt _ _ (div_Rnd a b fa fb ((mant_zero_iff b).not.1 h0))).2
      · rw [div_fin_inf a b fa ⟨nb, fb⟩]; exact zero_lt _
      · rw [div_inf_fin a b ⟨na, fa⟩ fb]; exact inf_lt _
      · rw [div_inf_inf a b ⟨na, fa⟩ ⟨nb, fb⟩]; exact dNaN_lt
    · rw [div_nan_right a b na nb]; exact quiet_lt b hb
  · rw [div_nan_left a b na]; exact quiet_lt a ha

/-- the `F64` operators are the `Nat`-level operations on the bit patterns -/
theorem F64_ops (a b : F64) :
    (a + b).nb = Num.add .f64 a.nb b.nb ∧ (a - b).nb = Num.sub .f64 a.nb b.nb ∧
    (a * b).nb = Num.mul .f64 a.nb b.nb ∧ (a / b).nb = Num.div .f64 a.nb b.nb :=
  ⟨nb_ofNatBits _ (add_lt _ _ (nb_lt a) (nb_lt b)), nb_ofNatBits _ (sub_lt _ _ (nb_lt a) (nb_lt b)),
   nb_ofNatBits _ (mul_lt _ _ (nb_lt a) (nb_lt b)), nb_ofNatBits _ (div_lt _ _ (nb_lt a) (nb_lt b))⟩

-- non-vacuity
example : InfB 0x7FF0000000000000 ∧ InfB 0xFFF0000000000000 ∧
    Num.add .f64 0x7FF0000000000000 0xFFF0000000000000 = dNaN := ⟨by decide, by decide, by decide +kernel⟩
example : Num.add .f64 0x3FF0000000000000 0xBFF0000000000000 = 0 := by decide +kernel          -- 1 + (-1) = +0
example : Num.add .f64 0x8000000000000000 0x8000000000000000 = 0x8000000000000000 := by decide +kernel
example : Num.mul .f64 0x8000000000000000 0x7FF0000000000000 = dNaN := by decide +kernel        -- -0 · Inf
example : Num.mul .f64 0x8000000000000000 0x3FF0000000000000 = 0x8000000000000000 := by decide +kernel
example : Num.div .f64 0xBFF0000000000000 0 = 0xFFF0000000000000 := by decide +kernel          -- -1/0 = -Inf
example : Num.div .f64 0 0x8000000000000000 = dNaN := by decide +kernel
example : ¬ NNB 0x7FF0000000000001 ∧ Num.mul .f64 0x7FF0000000000001 0x7FF8000000000002 = 0x7FF8000000000001 :=
  ⟨by decide, by decide +kernel⟩

end Ivg.FloatSpecial
