import Ivg.Lemmas.Grad64b
import Ivg.Lemmas.GradQ
/-!
# `Spread.Clamp` at float64

For every FINITE `x` the float64 `Clamp` is the specification's spread function (`Spec.Grad.spreadOffset`)
of the value of `x`, ROUNDED ONCE (`clamp_spec_f64`): inside `[0,1]`, for `none` and for `pad` the result is
exact; for `repeat` it is the correct rounding of `x − ⌊x⌋` — exact for `x ≥ 0` (`fracOf_facts`), not for
small negative `x` (`−2^-60 ↦ 1.0`) —; for `reflect` it is the correct rounding of the triangle wave
(`⌊x⌋ + 1` is exact whenever `int(x)` is odd, because every float `≥ 2^53` is an even integer and the
"integer indefinite" `-2^63` of an out-of-range conversion is even, too).
`clamp_range`: for EVERY `x` (NaN, ±Inf included), if the result passes `At`'s test `offset >= 0` then it is
finite and lies in `[0,1]`.  `±Inf` under `repeat`/`reflect` gives NaN (`Inf − Inf`), i.e. transparent black.
-/
namespace Ivg.Grad64
open Ivg Num Grad FloatOrder FloatMono FloatRound FloatErr64
open Ivg.Spec.Grad (Spread frac tri spreadOffset)

def fracOf (x : F64) : F64 := x - x.floor
def reflectOf (x : F64) : F64 := if x.toInt64 % 2 = 0 then x - x.floor else x.floor + oneB - x

/-- `Clamp` at float64, spelled out -/
theorem clamp_def (spread : UInt8) (x : F64) : clamp (α := F32) spread x =
    if (zeroB : F64) ≤ x then
      if x ≤ (oneB : F64) then x
      else if spread = 1 then oneB
      else if spread = 2 then reflectOf x
      else if spread = 3 then fracOf x
      else Arith.ofInt (-1)
    else
      if spread = 1 then zeroB
      else if spread = 2 then reflectOf (-x)
      else if spread = 3 then fracOf x
      else Arith.ofInt (-1) := rfl

/-! ## the value of a non-negative finite float -/

theorem val_nonneg_eq (x : F64) (h0 : 0 ≤ val x) : val x = (mantB x.nb : ℚ) * pow2 (expB x.nb) := by
  unfold val bval sval at *
  have hp := pow2_pos (expB x.nb)
  have hm : (0 : ℚ) ≤ (mantB x.nb : ℚ) * pow2 (expB x.nb) := by positivity
  cases h : negB64 x.nb
  · simp
  · rw [h] at h0
    simp only [if_true] at h0 ⊢
    linarith

/-- `x − ⌊x⌋` is representable for a finite `x ≥ 0` -/
theorem frac_repr (x : F64) (h0 : 0 ≤ val x) : ∃ c : F64, Fn c ∧ val c = val x - ⌊val x⌋ := by
  have hv := val_nonneg_eq x h0
  have hm := mantB_lt x.nb
  have he := expB_ge x.nb
  generalize mantB x.nb = m at *
  generalize expB x.nb = e at *
  by_cases hpos : 0 ≤ e
  · refine ⟨zeroB, zeroB_fin.1, ?_⟩
    rw [zeroB_fin.2]
    have : val x = (((m * 2 ^ e.toNat : Nat) : Int) : ℚ) := by
      rw [hv]
      have := pow2_nat e.toNat
      rw [Int.toNat_of_nonneg hpos] at this
      rw [this]; push_cast; ring
    rw [this, Int.floor_intCast]; simp
  · have he' : e = -(((-e).toNat : Nat) : Int) := by omega
    have hsh : 1 ≤ (-e).toNat := by omega
    generalize (-e).toNat = sh at *
    have hfl : ⌊val x⌋ = ((m / 2 ^ sh : Nat) : Int) := by
      have := floor_quot false m sh
      simp only [Bool.false_eq_true, if_false] at this
      rw [← this, hv, he']; unfold sval; simp
    have hr : m % 2 ^ sh < 9007199254740992 := lt_of_le_of_lt (Nat.mod_le _ _) hm
    have hL := bitLen_le (k := 53) hr
    obtain ⟨r1, _, r3, r4⟩ := roundPack_exact false (m % 2 ^ sh) e hr he (by omega)
    refine ⟨F64.ofNatBits (roundPack .f64 false (m % 2 ^ sh) e), ?_, ?_⟩
    · unfold Fn FloatMono.Fin; rw [nb_ofNatBits _ r4]; exact r1
    · have hc : val (F64.ofNatBits (roundPack .f64 false (m % 2 ^ sh) e)) = sval false (m % 2 ^ sh) e := by
        unfold val; rw [nb_ofNatBits _ r4, r3]
      rw [hc, hfl, hv]
      have hdm : ((2 ^ sh : Nat) : ℚ) * ((m / 2 ^ sh : Nat) : ℚ) + ((m % 2 ^ sh : Nat) : ℚ) = (m : ℚ) := by
        exact_mod_cast Nat.div_add_mod m (2 ^ sh)
      have h1 := pow2_neg_mul sh
      rw [← he'] at h1
      unfold sval
      simp only [Bool.false_eq_true, if_false, one_mul, Int.cast_natCast]
      rw [← hdm]
      have : (((2 ^ sh : Nat) : ℚ) * ((m / 2 ^ sh : Nat) : ℚ) + ((m % 2 ^ sh : Nat) : ℚ)) * pow2 e =
          ((m / 2 ^ sh : Nat) : ℚ) * (pow2 e * ((2 ^ sh : Nat) : ℚ)) + ((m % 2 ^ sh : Nat) : ℚ) * pow2 e := by ring
      rw [this, h1]; ring

/-! ## `x − floor(x)` -/

/-- `repeat` on a finite `x`: `x − floor(x)` is the correct rounding of `x − ⌊x⌋`, finite, in `[0,1]`, and
    EXACT for `x ≥ 0` (of any magnitude) -/
theorem fracOf_facts (x : F64) (fx : Fn x) :
    Rnd (frac (val x)) (fracOf x).nb ∧ Fn (fracOf x) ∧ 0 ≤ val (fracOf x) ∧ val (fracOf x) ≤ 1 ∧
    (0 ≤ val x → val (fracOf x) = frac (val x)) := by
  obtain ⟨ff, fv, _⟩ := floor_F64 x fx
  have hr := sub_nb fx ff
  rw [fv] at hr
  have hfr : frac (val x) = val x - ⌊val x⌋ := rfl
  have hrange := GradQ.frac_range (val x)
  rw [hfr] at hrange
  obtain ⟨f, l, h⟩ := Rnd_between hr zeroB_fin.1 oneB_fin.1 (by rw [zeroB_fin.2]; exact hrange.1)
    (by rw [oneB_fin.2]; exact hrange.2.le)
  rw [zeroB_fin.2] at l; rw [oneB_fin.2] at h
  refine ⟨hr, f, l, h, ?_⟩
  intro h0
  obtain ⟨c, fc, vc⟩ := frac_repr x h0
  exact (Rnd_exact hr fc vc).2

theorem nan_dNaN : ¬ NNB FloatSpecial.dNaN := by decide

/-- `Inf − Inf` -/
theorem sub_self_inf (x : F64) (hn : NN x) (hf : ¬ Fn x) : NaN (x - x) := by
  unfold NaN NN
  rw [(FloatSpecial.F64_ops x x).2.1]
  rcases InfB_cases x.nb (nb_lt x) ⟨hn, hf⟩ with h | h <;> rw [h]
  · have : Num.sub .f64 0x7FF0000000000000 0x7FF0000000000000 = FloatSpecial.dNaN := by decide +kernel
    rw [this]; exact nan_dNaN
  · have : Num.sub .f64 0xFFF0000000000000 0xFFF0000000000000 = FloatSpecial.dNaN := by decide +kernel
    rw [this]; exact nan_dNaN

/-- `repeat` on `±Inf` or a NaN gives a NaN -/
theorem fracOf_nonfin (x : F64) (hf : ¬ Fn x) : NaN (fracOf x) := by
  unfold fracOf
  by_cases hn : NN x
  · have : x.floor = x := ext_nb (by rw [floor_nb]; exact floor_inf x.nb ⟨hn, hf⟩)
    rw [this]; exact sub_self_inf x hn hf
  · exact sub_nan (Or.inl hn)

/-! ## `int(x)&1` and the triangle wave -/

theorem two53_fin : Fn (⟨0x4340000000000000⟩ : F64) ∧ val (⟨0x4340000000000000⟩ : F64) = 9007199254740992 := by
  refine ⟨by decide, ?_⟩
  have h1 : negB64 (⟨0x4340000000000000⟩ : F64).nb = false := by decide
  have h2 : mantB (⟨0x4340000000000000⟩ : F64).nb = 4503599627370496 := by decide
  have h3 : expB (⟨0x4340000000000000⟩ : F64).nb = 1 := by decide
  unfold val bval sval; rw [h1, h2, h3, FloatErr64.pow2_one]; norm_num

/-- every finite float `≥ 2^53` is an even integer -/
theorem even_of_big (x : F64) (hb : 9007199254740992 ≤ val x) : ∃ k : Int, val x = ((2 * k : Int) : ℚ) := by
  have hv := val_nonneg_eq x (by linarith)
  have hm := mantB_lt x.nb
  generalize mantB x.nb = m at *
  generalize expB x.nb = e at *
  have hmq : (m : ℚ) < 9007199254740992 := by exact_mod_cast hm
  have he : 1 ≤ e := by
    by_contra hc
    have : pow2 e ≤ pow2 0 := FloatErr64.pow2_mono (by omega)
    rw [pow2_zero] at this
    have hm0 : (0 : ℚ) ≤ m := Nat.cast_nonneg _
    have : (m : ℚ) * pow2 e ≤ m * 1 := mul_le_mul_of_nonneg_left this hm0
    linarith
  refine ⟨((m * 2 ^ (e - 1).toNat : Nat) : Int), ?_⟩
  rw [hv]
  have h1 : pow2 e = pow2 1 * pow2 (e - 1) := by rw [← pow2_add]; congr 1; omega
  have h2 := pow2_nat (e - 1).toNat
  rw [Int.toNat_of_nonneg (by omega)] at h2
  rw [h1, h2, FloatErr64.pow2_one]; push_cast; ring

/-- Go `int(x)` has the parity of `⌊x⌋` for every finite `x ≥ 0` — also beyond `2^63`, where the conversion
    yields `-2^63` -/
theorem toInt64_parity (x : F64) (fx : Fn x) (h0 : 0 ≤ val x) : x.toInt64 % 2 = ⌊val x⌋ % 2 := by
  by_cases hlt : val x < (2:ℚ)^63
  · rw [toInt64_val x fx (by linarith [show (0:ℚ) < (2:ℚ)^63 by norm_num]) hlt, tr_nonneg _ h0]
  · have hge : (2:ℚ)^63 ≤ val x := not_lt.1 hlt
    obtain ⟨k, hk⟩ := even_of_big x (by norm_num at hge ⊢; linarith)
    have hfl : ⌊val x⌋ = 2 * k := by rw [hk, Int.floor_intCast]
    have hbig : (2:Int)^63 ≤ 2 * k := by
      have : (((2:Int)^63 : Int) : ℚ) ≤ ((2 * k : Int) : ℚ) := by rw [← hk]; push_cast; exact hge
      exact_mod_cast this
    rw [toInt64_indefinite x (Or.inr (Or.inr (by rw [tr_nonneg _ h0, hfl]; exact hbig))), hfl]
    omega

/-- `reflect` on a finite `x ≥ 0`: the correct rounding of the triangle wave, finite, in `[0,1]` -/
theorem reflectOf_facts (x : F64) (fx : Fn x) (h0 : 0 ≤ val x) :
    Rnd (tri (val x)) (reflectOf x).nb ∧ Fn (reflectOf x) ∧ 0 ≤ val (reflectOf x) ∧ val (reflectOf x) ≤ 1 := by
  obtain ⟨ff, fv, _⟩ := floor_F64 x fx
  have hpar := toInt64_parity x fx h0
  have htri := GradQ.tri_of_floor (val x) ⌊val x⌋ rfl
  have hrange := GradQ.tri_range (val x)
  have hR : Rnd (tri (val x)) (reflectOf x).nb := by
    unfold reflectOf
    by_cases hev : ⌊val x⌋ % 2 = 0
    · rw [if_pos (by omega), htri, if_pos hev]
      have hr := sub_nb fx ff
      rw [fv] at hr; exact hr
    · rw [if_neg (by omega), htri, if_neg hev]
      -- `⌊x⌋` odd: `x < 2^53`, so `⌊x⌋ + 1 ≤ 2^53` is representable
      have hsmall : val x < 9007199254740992 := by
        by_contra hc
        obtain ⟨k, hk⟩ := even_of_big x (not_lt.1 hc)
        apply hev; rw [hk, Int.floor_intCast]; omega
      have hn0 : 0 ≤ ⌊val x⌋ := Int.floor_nonneg.2 h0
      have hn1 : ⌊val x⌋ < 9007199254740992 := by
        rw [Int.floor_lt]; push_cast; exact hsmall
      have hG := add_nb ff oneB_fin.1
      rw [fv, oneB_fin.2] at hG
      have hGe : Fn (x.floor + oneB) ∧ val (x.floor + oneB) = (⌊val x⌋ : ℚ) + 1 := by
        by_cases hlt : ⌊val x⌋ + 1 < 9007199254740992
        · obtain ⟨fc, vc⟩ := ofInt_F64_exact (⌊val x⌋ + 1) (by omega)
          exact Rnd_exact hG fc (by rw [vc]; push_cast; ring)
        · have : ⌊val x⌋ + 1 = 9007199254740992 := by omega
          refine Rnd_exact hG two53_fin.1 ?_
          rw [two53_fin.2]
          have : ((⌊val x⌋ + 1 : Int) : ℚ) = 9007199254740992 := by rw [this]; norm_num
          push_cast at this; linarith
      have hr := sub_nb hGe.1 fx
      rw [hGe.2] at hr; exact hr
  obtain ⟨f, l, h⟩ := Rnd_between hR zeroB_fin.1 oneB_fin.1 (by rw [zeroB_fin.2]; exact hrange.1)
    (by rw [oneB_fin.2]; exact hrange.2)
  rw [zeroB_fin.2] at l; rw [oneB_fin.2] at h
  exact ⟨hR, f, l, h⟩

/-- `reflect` on `±Inf` or a NaN gives a NaN (`int(x)` is the even `-2^63`, then `x − floor(x)`) -/
theorem reflectOf_nonfin (x : F64) (hf : ¬ Fn x) : NaN (reflectOf x) := by
  unfold reflectOf
  rw [toInt64_indefinite x (Or.inl hf), if_pos (by decide)]
  exact fracOf_nonfin x hf

/-! ## `Clamp` -/

theorem not_zero_le_nan {a : F64} (h : NaN a) : ¬ (zeroB : F64) ≤ a := not_le_nan_right h

theorem not_zero_le_marker : ¬ (zeroB : F64) ≤ (Arith.ofInt (-1) : F64) := by
  rw [le_iff_val zeroB_fin.1 negOne_fin.1, zeroB_fin.2, negOne_fin.2]; norm_num

/-- **range**: for EVERY float64 `x` and every spread code — if the clamped offset passes `At`'s test
    `offset >= 0` (i.e. a colour is produced from it), it is finite and lies in `[0,1]` -/
theorem clamp_range (spread : UInt8) (x : F64) (h : (zeroB : F64) ≤ clamp (α := F32) spread x) :
    Fn (clamp (α := F32) spread x) ∧ 0 ≤ val (clamp (α := F32) spread x) ∧ val (clamp (α := F32) spread x) ≤ 1 := by
  have one : Fn (oneB : F64) ∧ 0 ≤ val (oneB : F64) ∧ val (oneB : F64) ≤ 1 := ⟨oneB_fin.1, by rw [oneB_fin.2]; norm_num, by rw [oneB_fin.2]⟩
  have zero : Fn (zeroB : F64) ∧ 0 ≤ val (zeroB : F64) ∧ val (zeroB : F64) ≤ 1 := ⟨zeroB_fin.1, by rw [zeroB_fin.2], by rw [zeroB_fin.2]; norm_num⟩
  have hfrac : ∀ y : F64, (zeroB : F64) ≤ fracOf y → Fn (fracOf y) ∧ 0 ≤ val (fracOf y) ∧ val (fracOf y) ≤ 1 := by
    intro y hy
    by_cases fy : Fn y
    · exact (fracOf_facts y fy).2.1 |> fun f => ⟨f, (fracOf_facts y fy).2.2.1, (fracOf_facts y fy).2.2.2.1⟩
    · exact absurd hy (not_zero_le_nan (fracOf_nonfin y fy))
  have hrefl : ∀ y : F64, (Fn y → 0 ≤ val y) → (zeroB : F64) ≤ reflectOf y →
      Fn (reflectOf y) ∧ 0 ≤ val (reflectOf y) ∧ val (reflectOf y) ≤ 1 := by
    intro y hy0 hy
    by_cases fy : Fn y
    · exact (reflectOf_facts y fy (hy0 fy)).2
    · exact absurd hy (not_zero_le_nan (reflectOf_nonfin y fy))
  rw [clamp_def] at h ⊢
  split at h <;> rename_i hx0
  · rw [if_pos hx0]
    split at h <;> rename_i hx1
    · rw [if_pos hx1]
      have fx := Fin_between zeroB_fin.1 oneB_fin.1 hx0 hx1
      have a := val_le_of_le zeroB_fin.1 fx hx0
      have b := val_le_of_le fx oneB_fin.1 hx1
      rw [zeroB_fin.2] at a; rw [oneB_fin.2] at b
      exact ⟨fx, a, b⟩
    · rw [if_neg hx1]
      split at h <;> rename_i hs1
      · rw [if_pos hs1]; exact one
      rw [if_neg hs1]
      split at h <;> rename_i hs2
      · rw [if_pos hs2]
        refine hrefl x (fun fx => ?_) h
        have := val_le_of_le zeroB_fin.1 fx hx0
        rw [zeroB_fin.2] at this; exact this
      rw [if_neg hs2]
      split at h <;> rename_i hs3
      · rw [if_pos hs3]; exact hfrac x h
      · exact absurd h not_zero_le_marker
  · rw [if_neg hx0]
    split at h <;> rename_i hs1
    · rw [if_pos hs1]; exact zero
    rw [if_neg hs1]
    split at h <;> rename_i hs2
    · rw [if_pos hs2]
      refine hrefl (-x) (fun fx => ?_) h
      have fx' : Fn x := neg_Fin.1 fx
      rw [val_neg]
      have : val x < 0 := by
        by_contra hc
        apply hx0
        rw [le_iff_val zeroB_fin.1 fx', zeroB_fin.2]; exact not_lt.1 hc
      linarith
    rw [if_neg hs2]
    split at h <;> rename_i hs3
    · rw [if_pos hs3]; exact hfrac x h
    · exact absurd h not_zero_le_marker

/-- **`Clamp` at float64 is the specification's spread function, rounded once**: for every finite `x` and
    every spread code, `none, outside` gives the marker `-1` (which fails `At`'s test `offset >= 0`), and
    otherwise the result is the correct rounding (`FloatOrder.Rnd`) of `spreadOffset` of the value of `x` -/
theorem clamp_spec_f64 (spread : UInt8) (x : F64) (fx : Fn x) :
    match spreadOffset (Spread.ofCode spread) (val x) with
    | none => clamp (α := F32) spread x = Arith.ofInt (-1)
    | some o => Rnd o (clamp (α := F32) spread x).nb := by
  have h0 : (zeroB : F64) ≤ x ↔ 0 ≤ val x := by rw [le_iff_val zeroB_fin.1 fx, zeroB_fin.2]
  have h1 : x ≤ (oneB : F64) ↔ val x ≤ 1 := by rw [le_iff_val fx oneB_fin.1, oneB_fin.2]
  rw [clamp_def]
  unfold spreadOffset
  by_cases hin : 0 ≤ val x ∧ val x ≤ 1
  · rw [if_pos hin, if_pos (h0.2 hin.1), if_pos (h1.2 hin.2)]
    exact Rnd_val fx
  · rw [if_neg hin]
    unfold Spread.ofCode
    by_cases hx0 : 0 ≤ val x
    · have hx1 : ¬ val x ≤ 1 := fun h => hin ⟨hx0, h⟩
      rw [if_pos (h0.2 hx0), if_neg (fun h => hx1 (h1.1 h))]
      by_cases hs1 : spread = 1
      · simp only [if_pos hs1]
        rw [if_neg (not_lt.2 hx0)]
        have := Rnd_val oneB_fin.1; rw [oneB_fin.2] at this; exact this
      simp only [if_neg hs1]
      by_cases hs2 : spread = 2
      · simp only [if_pos hs2]; exact (reflectOf_facts x fx hx0).1
      simp only [if_neg hs2]
      by_cases hs3 : spread = 3
      · simp only [if_pos hs3]; exact (fracOf_facts x fx).1
      · simp only [if_neg hs3]
    · rw [if_neg (fun h => hx0 (h0.1 h))]
      by_cases hs1 : spread = 1
      · simp only [if_pos hs1]
        rw [if_pos (not_le.1 hx0)]
        have := Rnd_val zeroB_fin.1; rw [zeroB_fin.2] at this; exact this
      simp only [if_neg hs1]
      by_cases hs2 : spread = 2
      · simp only [if_pos hs2]
        have := (reflectOf_facts (-x) (neg_Fin.2 fx) (by rw [val_neg]; linarith [not_le.1 hx0])).1
        rw [val_neg, GradQ.tri_neg] at this; exact this
      simp only [if_neg hs2]
      by_cases hs3 : spread = 3
      · simp only [if_pos hs3]; exact (fracOf_facts x fx).1
      · simp only [if_neg hs3]

end Ivg.Grad64
