import Ivg.Num.F32
import Mathlib.Tactic.Ring
import Mathlib.Tactic.Linarith
import Mathlib.Tactic.Positivity
import Mathlib.Tactic.FieldSimp
import Mathlib.Algebra.Order.Field.Rat
/-!
# Order and value semantics of the soft binary32, monotone rounding

Mechanical port to `Fmt.f32` of `Ivg/Lemmas/FloatOrder.lean` (which is stated for `Fmt.f64` only): the same
statements and proofs with the constants of the format replaced (`prec` 53 → 24, `emin` −1074 → −149,
`2^52` → `2^23`, sign bit `2^63` → `2^31`, infinity `0x7ff0…0` → `0x7f800000`, …).

Part 1 (`Nat`): `roundMag .f32` is invariant under rescaling (`roundMag_scale`), monotone in the numerator
(`roundMag_mono_same`), constant on fine gaps (`roundMag_gap`); `rmag T d e`, the rounding of the positive
rational `T/d·2^e` from a truncated quotient and a sticky bit as `Num.div` computes it, is monotone
(`rmag_mono`).

Part 2 (ℚ): `bval b` — the rational value of a finite pattern; `Rnd v b` — "the bit pattern `b` is the
correct rounding of the rational `v`" (nearest, ties to even, gradual underflow, overflow to infinity);
`Rnd_mono`, `Rnd_self`, `key_le_iff`, `key_lt_iff`.
-/
namespace Ivg.FloatOrder32
open Ivg Num

theorem emin_f32 : Fmt.f32.emin = -149 := by decide
theorem prec_f32 : Fmt.f32.prec = 24 := by decide
theorem infBits_f32 : Fmt.f32.infBits = 2139095040 := by decide
theorem signBit_f32 : Fmt.f32.signBit = 2147483648 := by decide
theorem mbits_f32 : Fmt.f32.mbits = 23 := rfl
theorem ebits_f32 : Fmt.f32.ebits = 8 := rfl
theorem expMax_f32 : Fmt.f32.expMax = 255 := by decide

/-! ## bit lengths -/

theorem bitLen_eq {m k : Nat} (h1 : 2^k ≤ m) (h2 : m < 2^(k+1)) : bitLen m = k + 1 := by
  have hm : m ≠ 0 := by have := Nat.two_pow_pos k; omega
  unfold bitLen
  simp [hm, (Nat.log2_eq_iff hm).2 ⟨h1, h2⟩]

theorem bitLen_zero : bitLen 0 = 0 := by simp [bitLen]

theorem bitLen_bounds {m : Nat} (hm : 0 < m) : 2 ^ (bitLen m - 1) ≤ m ∧ m < 2 ^ bitLen m ∧ 1 ≤ bitLen m := by
  have hm' : m ≠ 0 := by omega
  have h1 := Nat.log2_self_le hm'
  have h2 : m < 2 ^ (m.log2 + 1) := Nat.lt_log2_self
  have : bitLen m = m.log2 + 1 := bitLen_eq h1 h2
  rw [this]
  exact ⟨h1, h2, by omega⟩

theorem bitLen_lt_pow (m : Nat) : m < 2 ^ bitLen m := by
  rcases Nat.eq_zero_or_pos m with rfl | h
  · simp [bitLen]
  · exact (bitLen_bounds h).2.1

theorem bitLen_mul_pow (q s : Nat) (h0 : 0 < q) : bitLen (q * 2^s) = bitLen q + s := by
  obtain ⟨h1, h2, h3⟩ := bitLen_bounds h0
  have hp := Nat.two_pow_pos s
  have : bitLen q + s = (bitLen q - 1 + s) + 1 := by omega
  rw [this]
  apply bitLen_eq
  · rw [Nat.pow_add]; exact Nat.mul_le_mul_right _ h1
  · have : bitLen q - 1 + s + 1 = bitLen q + s := by omega
    rw [this, Nat.pow_add]; exact (Nat.mul_lt_mul_right hp).2 h2

theorem bitLen_mono {m n : Nat} (h : m ≤ n) : bitLen m ≤ bitLen n := by
  rcases Nat.eq_zero_or_pos m with rfl | hm
  · simp [bitLen]
  · obtain ⟨h1, _, h3⟩ := bitLen_bounds hm
    have h4 := bitLen_lt_pow n
    have : 2 ^ (bitLen m - 1) < 2 ^ bitLen n := by omega
    have := (Nat.pow_lt_pow_iff_right (by omega : 1 < 2)).1 this
    omega

theorem bitLen_ge {m k : Nat} (h : 2 ^ k ≤ m) : k + 1 ≤ bitLen m := by
  have h4 := bitLen_lt_pow m
  have : 2 ^ k < 2 ^ bitLen m := by omega
  have := (Nat.pow_lt_pow_iff_right (by omega : 1 < 2)).1 this
  omega

theorem bitLen_le {m k : Nat} (h : m < 2 ^ k) : bitLen m ≤ k := by
  rcases Nat.eq_zero_or_pos m with rfl | hm
  · simp [bitLen]
  · obtain ⟨h1, _, h3⟩ := bitLen_bounds hm
    have : 2 ^ (bitLen m - 1) < 2 ^ k := by omega
    have := (Nat.pow_lt_pow_iff_right (by omega : 1 < 2)).1 this
    omega

/-! ## `roundMag` unfolded -/

/-- round-to-nearest-even of `m / 2^s` -/
def rneShift (m s : Nat) : Nat :=
  if m % 2 ^ s > 2 ^ (s - 1) || (m % 2 ^ s == 2 ^ (s - 1) && m / 2 ^ s % 2 == 1) then m / 2 ^ s + 1
  else m / 2 ^ s

/-- working exponent (exponent of the last kept bit) -/
def fe32 (m : Nat) (e : Int) : Int :=
  if e + (bitLen m : Int) - 24 < -149 then -149 else e + (bitLen m : Int) - 24

def qOf (m : Nat) (e fe : Int) : Nat :=
  if fe ≤ e then m * 2 ^ (e - fe).toNat else rneShift m (fe - e).toNat

def pk (fe : Int) (q : Nat) : Nat :=
  if 8388608 * (fe + 149).toNat + q ≥ 2139095040 then 2139095040
  else 8388608 * (fe + 149).toNat + q

theorem roundMag_eq (m : Nat) (e : Int) : roundMag .f32 m e = pk (fe32 m e) (qOf m e (fe32 m e)) := by
  have c24 : ((24 : Nat) : Int) = 24 := rfl
  have c23 : (2:Nat)^23 = 8388608 := by decide
  have : ∀ fe : Int, fe - -149 = fe + 149 := by intro fe; omega
  simp only [roundMag, emin_f32, prec_f32, infBits_f32, mbits_f32, c24, c23, this,
    Nat.mul_comm _ 8388608]
  rfl

theorem fe32_ge (m : Nat) (e : Int) : -149 ≤ fe32 m e := by unfold fe32; split <;> omega

theorem pk_mono (fe fe' : Int) (q q' : Nat) (h : 8388608 * (fe + 149).toNat + q ≤
    8388608 * (fe' + 149).toNat + q') : pk fe q ≤ pk fe' q' := by
  unfold pk; split <;> split <;> omega

theorem pk_le (fe : Int) (q : Nat) : pk fe q ≤ 2139095040 := by
  unfold pk; split <;> omega

theorem roundMag_le_inf (m : Nat) (e : Int) : roundMag .f32 m e ≤ 2139095040 := by
  rw [roundMag_eq]; exact pk_le _ _

/-! ## rounding at a fixed shift -/

theorem rneShift_mono (m m' s : Nat) (h : m ≤ m') : rneShift m s ≤ rneShift m' s := by
  unfold rneShift
  have hP := Nat.two_pow_pos s
  have hd : m / 2^s ≤ m' / 2^s := Nat.div_le_div_right h
  have e1 := Nat.div_add_mod m (2^s)
  have e2 := Nat.div_add_mod m' (2^s)
  have r1 := Nat.mod_lt m hP
  have r2 := Nat.mod_lt m' hP
  by_cases hq : m / 2^s = m' / 2^s
  · rw [hq] at e1 ⊢
    have hr : m % 2^s ≤ m' % 2^s := by omega
    split <;> split <;> simp_all
    all_goals omega
  · split <;> split <;> omega

theorem rneShift_le (m s : Nat) : rneShift m s ≤ m / 2^s + 1 := by
  unfold rneShift; split <;> omega

theorem rneShift_ge (m s : Nat) : m / 2^s ≤ rneShift m s := by
  unfold rneShift; split <;> omega

/-- scaling numerator and shift together -/
theorem rneShift_scale (m s k : Nat) (hs : 1 ≤ s) : rneShift (m * 2^k) (s + k) = rneShift m s := by
  unfold rneShift
  have hk := Nat.two_pow_pos k
  have e1 : 2 ^ (s + k) = 2^s * 2^k := Nat.pow_add _ _ _
  have e2 : 2 ^ (s + k - 1) = 2^(s-1) * 2^k := by
    rw [← Nat.pow_add]; congr 1; omega
  rw [e1, e2, Nat.mul_div_mul_right _ _ hk, Nat.mul_mod_mul_right]
  have c1 : (m % 2^s * 2^k > 2^(s-1) * 2^k) = (m % 2^s > 2^(s-1)) := by
    apply propext; exact Nat.mul_lt_mul_right hk
  have c2 : (m % 2^s * 2^k == 2^(s-1) * 2^k) = (m % 2^s == 2^(s-1)) := by
    rw [Bool.eq_iff_iff]; simp only [beq_iff_eq]
    exact Nat.mul_right_cancel_iff hk
  rw [c2]
  simp only [c1]

/-- a multiple of `2^k` shifted by `s ≤ k` is exact -/
theorem rneShift_exact (m s k : Nat) (hs : s ≤ k) : rneShift (m * 2^k) s = m * 2^(k - s) := by
  unfold rneShift
  have hsp := Nat.two_pow_pos s
  have e1 : 2 ^ k = 2^(k-s) * 2^s := by rw [← Nat.pow_add]; congr 1; omega
  have hm : m * 2^k % 2^s = 0 := by rw [e1, ← Nat.mul_assoc]; exact Nat.mul_mod_left _ _
  have hd : m * 2^k / 2^s = m * 2^(k-s) := by
    rw [e1, ← Nat.mul_assoc]; exact Nat.mul_div_cancel _ hsp
  have hh := Nat.two_pow_pos (s - 1)
  rw [hm, hd]
  have : ¬ ((decide (0 > 2 ^ (s - 1)) || (0 == 2 ^ (s - 1) && m * 2 ^ (k - s) % 2 == 1)) = true) := by
    simp; omega
  rw [if_neg this]

/-- inside a gap `(Q·2^j, (Q+1)·2^j)` the rounding at a shift `> j` does not depend on the position -/
theorem rneShift_gap (Q j s ρ : Nat) (hs : j + 1 ≤ s) (hρ0 : 0 < ρ) (hρ : ρ < 2^j) :
    rneShift (Q * 2^j + ρ) s = Q / 2^(s-j) + (if 2^(s-j-1) ≤ Q % 2^(s-j) then 1 else 0) := by
  unfold rneShift
  obtain ⟨u, rfl⟩ : ∃ u, s = j + 1 + u := ⟨s - (j+1), by omega⟩
  have hj := Nat.two_pow_pos j
  have hu := Nat.two_pow_pos u
  have e0 : j + 1 + u - j = u + 1 := by omega
  have e0' : u + 1 - 1 = u := by omega
  have e0'' : j + 1 + u - 1 = u + j := by omega
  rw [e0, e0', e0'']
  have e1 : 2 ^ (j + 1 + u) = 2^j * 2^(u+1) := by rw [← Nat.pow_add]; congr 1; omega
  have e2 : 2 ^ (u + j) = 2^u * 2^j := Nat.pow_add _ _ _
  have e3 : 2 ^ (u + 1) = 2 * 2^u := by rw [Nat.pow_succ]; omega
  -- quotient and remainder
  have hdiv : (Q * 2^j + ρ) / 2^(j+1+u) = Q / 2^(u+1) := by
    rw [e1, ← Nat.div_div_eq_div_mul]
    congr 1
    rw [Nat.mul_comm, Nat.mul_add_div hj, Nat.div_eq_of_lt hρ]; omega
  have hmod : (Q * 2^j + ρ) % 2^(j+1+u) = (Q % 2^(u+1)) * 2^j + ρ := by
    have h1 := Nat.div_add_mod (Q * 2^j + ρ) (2^(j+1+u))
    have h2 := Nat.div_add_mod Q (2^(u+1))
    rw [hdiv, e1] at h1
    have h3 : 2^j * 2^(u+1) * (Q / 2^(u+1)) + (Q % 2^(u+1)) * 2^j = Q * 2^j := by
      calc 2^j * 2^(u+1) * (Q / 2^(u+1)) + (Q % 2^(u+1)) * 2^j
          = (2^(u+1) * (Q / 2^(u+1)) + Q % 2^(u+1)) * 2^j := by ring
        _ = Q * 2^j := by rw [h2]
    rw [e1]; omega
  rw [hdiv, hmod, e2]
  generalize Q % 2^(u+1) = a
  generalize Q / 2^(u+1) = q0
  by_cases ha : 2^u ≤ a
  · have : 2^u * 2^j ≤ a * 2^j := Nat.mul_le_mul_right _ ha
    have hgt : a * 2^j + ρ > 2^u * 2^j := by omega
    simp [ha, hgt]
  · have : (a + 1) * 2^j ≤ 2^u * 2^j := Nat.mul_le_mul_right _ (by omega)
    have hlt : a * 2^j + ρ < 2^u * 2^j := by
      have : (a + 1) * 2^j = a * 2^j + 2^j := by ring
      omega
    have h1 : ¬ (a * 2^j + ρ > 2^u * 2^j) := by omega
    have h2 : ¬ (a * 2^j + ρ = 2^u * 2^j) := by omega
    simp [ha, h1, h2]

/-! ## rescaling -/

theorem fe32_scale (m k : Nat) (e : Int) (hm : 0 < m) : fe32 (m * 2^k) (e - k) = fe32 m e := by
  unfold fe32; rw [bitLen_mul_pow m k hm]
  simp only [Int.natCast_add]
  split <;> split <;> omega

theorem qOf_scale (m k : Nat) (e fe : Int) : qOf (m * 2^k) (e - k) fe = qOf m e fe := by
  unfold qOf
  by_cases h1 : fe ≤ e - k
  · have h2 : fe ≤ e := by omega
    rw [if_pos h1, if_pos h2]
    have : (e - fe).toNat = k + (e - k - fe).toNat := by omega
    rw [this, Nat.pow_add, Nat.mul_assoc]
  · rw [if_neg h1]
    by_cases h2 : fe ≤ e
    · rw [if_pos h2]
      have hs : (fe - (e - k)).toNat ≤ k := by omega
      rw [rneShift_exact _ _ _ hs]
      congr 2; omega
    · rw [if_neg h2]
      have : (fe - (e - k)).toNat = (fe - e).toNat + k := by omega
      rw [this, rneShift_scale _ _ _ (by omega)]

/-- **rescaling**: `m·2^k · 2^(e-k)` rounds like `m · 2^e` -/
theorem roundMag_scale (m k : Nat) (e : Int) (hm : 0 < m) :
    roundMag .f32 (m * 2^k) (e - k) = roundMag .f32 m e := by
  rw [roundMag_eq, roundMag_eq, fe32_scale m k e hm, qOf_scale]

/-! ## monotonicity at a fixed exponent -/

theorem qOf_mono (m m' : Nat) (e fe : Int) (h : m ≤ m') : qOf m e fe ≤ qOf m' e fe := by
  unfold qOf; split
  · exact Nat.mul_le_mul_right _ h
  · exact rneShift_mono _ _ _ h

theorem qOf_le (m : Nat) (e : Int) : qOf m e (fe32 m e) ≤ 16777216 := by
  have hL := bitLen_lt_pow m
  have c24 : (2:Nat)^24 = 16777216 := by decide
  have hfe : e + (bitLen m : Int) - 24 ≤ fe32 m e := by unfold fe32; split <;> omega
  unfold qOf; split
  · rename_i hle
    obtain ⟨a, ha⟩ : ∃ a : Nat, bitLen m + (e - fe32 m e).toNat + a = 24 :=
      ⟨24 - (bitLen m + (e - fe32 m e).toNat), by omega⟩
    have h1 : m * 2^(e - fe32 m e).toNat < 2^(bitLen m) * 2^(e - fe32 m e).toNat :=
      (Nat.mul_lt_mul_right (Nat.two_pow_pos _)).2 hL
    have h2 : 2^(bitLen m) * 2^(e - fe32 m e).toNat * 2^a = 2^24 := by
      rw [← Nat.pow_add, ← Nat.pow_add, ha]
    have h3 := Nat.two_pow_pos a
    have : 2^(bitLen m) * 2^(e - fe32 m e).toNat ≤ 2^24 := by
      rw [← h2]; exact Nat.le_mul_of_pos_right _ h3
    omega
  · rename_i hgt
    obtain ⟨a, ha⟩ : ∃ a : Nat, bitLen m + a = 24 + (fe32 m e - e).toNat :=
      ⟨24 + (fe32 m e - e).toNat - bitLen m, by omega⟩
    have h2 : 2^(bitLen m) * 2^a = 2^24 * 2^(fe32 m e - e).toNat := by
      rw [← Nat.pow_add, ← Nat.pow_add, ha]
    have h3 := Nat.two_pow_pos a
    have h4 : m < 2^24 * 2^(fe32 m e - e).toNat := by
      have : 2^(bitLen m) ≤ 2^(bitLen m) * 2^a := Nat.le_mul_of_pos_right _ h3
      omega
    have h5 : m / 2^(fe32 m e - e).toNat < 2^24 := (Nat.div_lt_iff_lt_mul (Nat.two_pow_pos _)).2 h4
    have := rneShift_le m (fe32 m e - e).toNat
    omega

theorem qOf_ge (m : Nat) (e : Int) (hm : 0 < m) (h : -149 < fe32 m e) :
    8388608 ≤ qOf m e (fe32 m e) := by
  obtain ⟨hL1, _, hL3⟩ := bitLen_bounds hm
  have c23 : (2:Nat)^23 = 8388608 := by decide
  have hfe : fe32 m e = e + (bitLen m : Int) - 24 := by
    unfold fe32 at h ⊢; split <;> rename_i hc
    · rw [if_pos hc] at h; omega
    · rfl
  unfold qOf; split
  · rename_i hle
    have ha : bitLen m - 1 + (e - fe32 m e).toNat = 23 := by omega
    have h1 : 2^(bitLen m - 1) * 2^(e - fe32 m e).toNat ≤ m * 2^(e - fe32 m e).toNat :=
      Nat.mul_le_mul_right _ hL1
    rw [← Nat.pow_add, ha] at h1
    omega
  · rename_i hgt
    have ha : 23 + (fe32 m e - e).toNat = bitLen m - 1 := by omega
    have h1 : 2^23 * 2^(fe32 m e - e).toNat ≤ m := by rw [← Nat.pow_add, ha]; exact hL1
    have h2 : 2^23 ≤ m / 2^(fe32 m e - e).toNat := (Nat.le_div_iff_mul_le (Nat.two_pow_pos _)).2 h1
    have := rneShift_ge m (fe32 m e - e).toNat
    omega

/-- **monotone rounding** at a common exponent -/
theorem roundMag_mono_same (m m' : Nat) (e : Int) (hm : 0 < m) (h : m ≤ m') :
    roundMag .f32 m e ≤ roundMag .f32 m' e := by
  rw [roundMag_eq, roundMag_eq]
  have hb := bitLen_mono h
  have hfe : fe32 m e ≤ fe32 m' e := by unfold fe32; split <;> split <;> omega
  have hg := fe32_ge m e
  apply pk_mono
  rcases Int.lt_or_eq_of_le hfe with hlt | heq
  · have h1 := qOf_le m e
    have h2 := qOf_ge m' e (by omega) (by omega)
    have : (fe32 m' e + 149).toNat ≥ (fe32 m e + 149).toNat + 1 := by omega
    omega
  · rw [← heq]
    have := qOf_mono m m' e (fe32 m e) h
    omega

/-! ## no rounding boundary strictly inside a fine gap -/

theorem bitLen_gap (Q j ρ : Nat) (hQ : 0 < Q) (hρ : ρ < 2^j) : bitLen (Q * 2^j + ρ) = bitLen Q + j := by
  obtain ⟨h1, h2, h3⟩ := bitLen_bounds hQ
  have e : bitLen Q + j = (bitLen Q - 1 + j) + 1 := by omega
  rw [e]
  apply bitLen_eq
  · rw [Nat.pow_add]
    have := Nat.mul_le_mul_right (2^j) h1
    omega
  · have e' : bitLen Q - 1 + j + 1 = bitLen Q + j := by omega
    rw [e', Nat.pow_add]
    have : (Q + 1) * 2^j ≤ 2^bitLen Q * 2^j := Nat.mul_le_mul_right _ h2
    have : (Q + 1) * 2^j = Q * 2^j + 2^j := by ring
    omega

/-- the rounding of any point strictly inside the gap `(Q·2^j, (Q+1)·2^j)` at exponent `E`, when `Q` has at
    least 25 bits, in a form that does not mention the point -/
theorem roundMag_gap_aux (Q j ρ : Nat) (E : Int) (hQ : 25 ≤ bitLen Q) (hρ0 : 0 < ρ) (hρ : ρ < 2^j) :
    roundMag .f32 (Q * 2^j + ρ) E =
      pk (fe32 (Q * 2^j) E)
        (Q / 2^((fe32 (Q * 2^j) E - E).toNat - j) +
          (if 2^((fe32 (Q * 2^j) E - E).toNat - j - 1) ≤ Q % 2^((fe32 (Q * 2^j) E - E).toNat - j) then 1 else 0)) := by
  have hQ0 : 0 < Q := by
    rcases Nat.eq_zero_or_pos Q with rfl | h
    · simp [bitLen] at hQ
    · exact h
  have hb : bitLen (Q * 2^j + ρ) = bitLen (Q * 2^j) := by
    rw [bitLen_gap Q j ρ hQ0 hρ, bitLen_mul_pow Q j hQ0]
  have hfe : fe32 (Q * 2^j + ρ) E = fe32 (Q * 2^j) E := by unfold fe32; rw [hb]
  have hb2 := bitLen_mul_pow Q j hQ0
  have hlow : E + j + 1 ≤ fe32 (Q * 2^j) E := by
    unfold fe32; rw [hb2]; simp only [Int.natCast_add]; split <;> omega
  rw [roundMag_eq, hfe]
  congr 1
  unfold qOf
  rw [if_neg (by omega)]
  exact rneShift_gap Q j _ ρ (by omega) hρ0 hρ

theorem roundMag_gap (Q j M M' : Nat) (E : Int) (hQ : 25 ≤ bitLen Q)
    (h1 : Q * 2^j < M) (h2 : M < (Q + 1) * 2^j) (h1' : Q * 2^j < M') (h2' : M' < (Q + 1) * 2^j) :
    roundMag .f32 M E = roundMag .f32 M' E := by
  have e : (Q + 1) * 2^j = Q * 2^j + 2^j := by ring
  have eM : M = Q * 2^j + (M - Q * 2^j) := by omega
  have eM' : M' = Q * 2^j + (M' - Q * 2^j) := by omega
  rw [eM, eM', roundMag_gap_aux Q j _ E hQ (by omega) (by omega),
    roundMag_gap_aux Q j _ E hQ (by omega) (by omega)]

/-! ## rounding a positive rational `T/d · 2^e` (truncated quotient + sticky bit) -/

/-- what `roundPack` computes from the truncated quotient `T / d` and the sticky flag `T % d ≠ 0` -/
def rmag (T d : Nat) (e : Int) : Nat :=
  if T % d = 0 then roundMag .f32 (T / d) e else roundMag .f32 (2 * (T / d) + 1) (e - 1)

/-- the representation is admissible: the sticky bit is only used on a quotient of at least 25 bits -/
def Ok (T d : Nat) : Prop := 0 < d ∧ 0 < T ∧ (T % d = 0 ∨ 25 ≤ bitLen (T / d))

/-- representative at one more bit -/
def rep (T d : Nat) : Nat := 2 * (T / d) + (if T % d = 0 then 0 else 1)

theorem rep_pos (T d : Nat) (_hd : 0 < d) (hT : 0 < T) : 0 < rep T d := by
  unfold rep
  have := Nat.div_add_mod T d
  split
  · rename_i h
    rw [h] at this
    have : 0 < T / d := by
      rcases Nat.eq_zero_or_pos (T / d) with h0 | h0
      · rw [h0] at this; omega
      · exact h0
    omega
  · omega

theorem rmag_eq_rep (T d : Nat) (e : Int) (hd : 0 < d) (hT : 0 < T) :
    rmag T d e = roundMag .f32 (rep T d) (e - 1) := by
  have hp := rep_pos T d hd hT
  unfold rmag rep at *
  split
  · rename_i h
    rw [if_pos h] at hp
    have := roundMag_scale (T / d) 1 e (by omega)
    rw [← this]
    congr 1
    omega
  · rfl

theorem rep_mono (T T' d : Nat) (_hd : 0 < d) (h : T ≤ T') : rep T d ≤ rep T' d := by
  unfold rep
  have hq : T / d ≤ T' / d := Nat.div_le_div_right h
  have e1 := Nat.div_add_mod T d
  have e2 := Nat.div_add_mod T' d
  by_cases hq' : T / d = T' / d
  · rw [hq'] at e1 ⊢
    split <;> split <;> omega
  · split <;> split <;> omega

theorem rmag_mono_same (T T' d : Nat) (e : Int) (hd : 0 < d) (hT : 0 < T) (h : T ≤ T') :
    rmag T d e ≤ rmag T' d e := by
  rw [rmag_eq_rep T d e hd hT, rmag_eq_rep T' d e hd (by omega)]
  exact roundMag_mono_same _ _ _ (rep_pos T d hd hT) (rep_mono T T' d hd h)

theorem rmag_cancel (T d c : Nat) (e : Int) (hc : 0 < c) : rmag (T * c) (d * c) e = rmag T d e := by
  unfold rmag
  rw [Nat.mul_div_mul_right _ _ hc, Nat.mul_mod_mul_right]
  have : (T % d * c = 0) = (T % d = 0) := by
    apply propext
    constructor
    · intro h
      rcases Nat.mul_eq_zero.1 h with h | h
      · exact h
      · omega
    · intro h; rw [h]; simp
  simp only [this]

/-- refining the scaling of the numerator does not change the rounding -/
theorem rmag_refine (T d j : Nat) (e : Int) (h : Ok T d) : rmag (T * 2^j) d (e - j) = rmag T d e := by
  obtain ⟨hd, hT, hq⟩ := h
  have hj := Nat.two_pow_pos j
  rw [rmag_eq_rep _ d _ hd (Nat.mul_pos hT hj), rmag_eq_rep T d e hd hT]
  have hs := roundMag_scale (rep T d) j (e - 1) (rep_pos T d hd hT)
  have he : e - 1 - (j : Int) = e - j - 1 := by omega
  rw [he] at hs
  rw [← hs]
  have e1 := Nat.div_add_mod T d
  have hr := Nat.mod_lt T hd
  by_cases h0 : T % d = 0
  · -- exact quotient
    rw [h0] at e1
    have hT' : T * 2^j = d * (T / d * 2^j) := by
      calc T * 2^j = (d * (T / d)) * 2^j := by rw [show d * (T / d) = T by omega]
        _ = d * (T / d * 2^j) := by ring
    have hm : T * 2^j % d = 0 := by rw [hT']; exact Nat.mul_mod_right _ _
    have hdv : T * 2^j / d = T / d * 2^j := by rw [hT']; exact Nat.mul_div_cancel_left _ hd
    unfold rep
    rw [if_pos hm, if_pos h0, hdv]
    congr 1; ring
  · -- inexact quotient: both representatives lie in the gap above `Q = T / d`
    have hQ : 25 ≤ bitLen (T / d) := by
      rcases hq with hq | hq
      · exact absurd hq h0
      · exact hq
    have e2 := Nat.div_add_mod (T * 2^j) d
    have hr2 := Nat.mod_lt (T * 2^j) hd
    -- the refined quotient is `Q·2^j + ρ'` with `ρ' < 2^j`
    have hlo : T / d * 2^j ≤ T * 2^j / d := by
      apply (Nat.le_div_iff_mul_le hd).2
      have : T / d * d ≤ T := Nat.div_mul_le_self _ _
      calc T / d * 2^j * d = (T / d * d) * 2^j := by ring
        _ ≤ T * 2^j := Nat.mul_le_mul_right _ this
    have hhi : T * 2^j / d < (T / d + 1) * 2^j := by
      apply (Nat.div_lt_iff_lt_mul hd).2
      have : T < (T / d + 1) * d := by
        have : (T / d + 1) * d = d * (T / d) + d := by ring
        omega
      calc T * 2^j < ((T / d + 1) * d) * 2^j := (Nat.mul_lt_mul_right hj).2 this
        _ = (T / d + 1) * 2^j * d := by ring
    -- if the refined remainder vanishes, the refined quotient is strictly above `Q·2^j`
    have hstrict : T * 2^j % d = 0 → T / d * 2^j < T * 2^j / d := by
      intro hz
      rw [hz] at e2
      rcases Nat.lt_or_ge (T / d * 2^j) (T * 2^j / d) with hlt | hge
      · exact hlt
      · exfalso
        have heq : T * 2^j / d = T / d * 2^j := by omega
        rw [heq] at e2
        have : d * (T / d * 2^j) + (T % d) * 2^j = T * 2^j := by
          calc d * (T / d * 2^j) + (T % d) * 2^j = (d * (T / d) + T % d) * 2^j := by ring
            _ = T * 2^j := by rw [e1]
        have : 0 < T % d * 2^j := Nat.mul_pos (by omega) hj
        omega
    have ep : (2:Nat)^(j+1) = 2 * 2^j := by rw [Nat.pow_succ]; omega
    have ea : T / d * (2 * 2^j) = 2 * (T / d * 2^j) := by ring
    have eb : (T / d + 1) * (2 * 2^j) = 2 * ((T / d + 1) * 2^j) := by ring
    have ec : (2 * (T / d) + 1) * 2^j = 2 * (T / d * 2^j) + 2^j := by ring
    have ed : (T / d + 1) * 2^j = T / d * 2^j + 2^j := by ring
    apply roundMag_gap (T / d) (j + 1) _ _ _ hQ
    · unfold rep; rw [ep, ea]
      split
      · rename_i hz; have := hstrict hz; omega
      · omega
    · unfold rep; rw [ep, eb]
      split <;> omega
    · unfold rep; rw [if_neg h0, ep, ea, ec]
      omega
    · unfold rep; rw [if_neg h0, ep, eb, ec, ed]
      omega

theorem Ok_refine (T d j : Nat) (h : Ok T d) : Ok (T * 2^j) d := by
  obtain ⟨hd, hT, hq⟩ := h
  have hj := Nat.two_pow_pos j
  refine ⟨hd, Nat.mul_pos hT hj, ?_⟩
  rcases hq with hq | hq
  · left
    have e1 := Nat.div_add_mod T d
    rw [hq] at e1
    have hT' : T * 2^j = d * (T / d * 2^j) := by
      calc T * 2^j = (d * (T / d)) * 2^j := by rw [show d * (T / d) = T by omega]
        _ = d * (T / d * 2^j) := by ring
    rw [hT']; exact Nat.mul_mod_right _ _
  · right
    have h1 : T / d ≤ T * 2^j / d := Nat.div_le_div_right (Nat.le_mul_of_pos_right _ hj)
    have := bitLen_mono h1
    omega

/-- **monotone rounding of positive rationals**: `T/d·2^e ≤ T'/d'·2^e'` (cross-multiplied at a common
    exponent `E0`) implies the same order of the rounded magnitudes -/
theorem rmag_mono (T d T' d' : Nat) (e e' E0 : Int) (h : Ok T d) (h' : Ok T' d') (hE : E0 ≤ e) (hE' : E0 ≤ e')
    (hle : T * 2^(e - E0).toNat * d' ≤ T' * 2^(e' - E0).toNat * d) : rmag T d e ≤ rmag T' d' e' := by
  have r1 := rmag_refine T d (e - E0).toNat e h
  have r2 := rmag_refine T' d' (e' - E0).toNat e' h'
  have x1 : e - ((e - E0).toNat : Int) = E0 := by omega
  have x2 : e' - ((e' - E0).toNat : Int) = E0 := by omega
  rw [x1] at r1
  rw [x2] at r2
  rw [← r1, ← r2, ← rmag_cancel _ d d' E0 h'.1, ← rmag_cancel _ d' d E0 h.1, Nat.mul_comm d' d]
  apply rmag_mono_same _ _ _ _ (Nat.mul_pos h.1 h'.1) _ hle
  exact Nat.mul_pos (Nat.mul_pos h.2.1 (Nat.two_pow_pos _)) h'.1

theorem rmag_le_inf (T d : Nat) (e : Int) : rmag T d e ≤ 2139095040 := by
  unfold rmag; split <;> exact roundMag_le_inf _ _

/-! # Part 2: rational values -/

/-- `2^e` as a rational -/
def pow2 (e : Int) : ℚ := (2:ℚ)^e

theorem pow2_pos (e : Int) : 0 < pow2 e := zpow_pos (by norm_num) e
theorem pow2_ne (e : Int) : pow2 e ≠ 0 := ne_of_gt (pow2_pos e)
theorem pow2_add (a b : Int) : pow2 (a + b) = pow2 a * pow2 b := zpow_add₀ (by norm_num) a b
theorem pow2_nat (n : Nat) : pow2 (n : Int) = ((2^n : Nat) : ℚ) := by
  simp [pow2, zpow_natCast]
theorem pow2_zero : pow2 0 = 1 := by simp [pow2]
theorem pow2_sub (a b : Int) : pow2 (a - b) = pow2 a / pow2 b := zpow_sub₀ (by norm_num) a b
theorem pow2_split (e E0 : Int) (h : E0 ≤ e) : pow2 e = ((2^(e - E0).toNat : Nat) : ℚ) * pow2 E0 := by
  rw [← pow2_nat, ← pow2_add]; congr 1; omega

/-- rounding is monotone in the rational value `T/d·2^e` -/
theorem rmag_mono_q (T d T' d' : Nat) (e e' : Int) (h : Ok T d) (h' : Ok T' d')
    (hv : (T : ℚ) / d * pow2 e ≤ (T' : ℚ) / d' * pow2 e') : rmag T d e ≤ rmag T' d' e' := by
  obtain ⟨E0, hE, hE'⟩ : ∃ E0 : Int, E0 ≤ e ∧ E0 ≤ e' := ⟨min e e', min_le_left _ _, min_le_right _ _⟩
  apply rmag_mono T d T' d' e e' E0 h h' hE hE'
  rw [pow2_split e E0 hE, pow2_split e' E0 hE'] at hv
  have hp := pow2_pos E0
  have hd : (0:ℚ) < d := by exact_mod_cast h.1
  have hd' : (0:ℚ) < d' := by exact_mod_cast h'.1
  have h1 : (T : ℚ) / d * ((2^(e - E0).toNat : Nat) : ℚ) ≤ (T' : ℚ) / d' * ((2^(e' - E0).toNat : Nat) : ℚ) := by
    have := hv
    rw [← mul_assoc, ← mul_assoc] at this
    exact le_of_mul_le_mul_right this hp
  have h2 : (T : ℚ) * ((2^(e - E0).toNat : Nat) : ℚ) * d' ≤ (T' : ℚ) * ((2^(e' - E0).toNat : Nat) : ℚ) * d := by
    have e1 : (T : ℚ) / d * ((2^(e - E0).toNat : Nat) : ℚ) = ((T : ℚ) * ((2^(e - E0).toNat : Nat) : ℚ)) / d := by ring
    have e2 : (T' : ℚ) / d' * ((2^(e' - E0).toNat : Nat) : ℚ) = ((T' : ℚ) * ((2^(e' - E0).toNat : Nat) : ℚ)) / d' := by
      ring
    rw [e1, e2, div_le_div_iff₀ hd hd'] at h1
    exact h1
  exact_mod_cast h2

/-- the `toOrd` key of a non-NaN pattern: magnitude bits with the sign -/
def key (b : Nat) : Int :=
  if b ≥ 2147483648 then -((b - 2147483648 : Nat) : Int) else (b : Int)

/-- `b` is the correctly rounded binary32 image of the rational `v` -/
def Rnd (v : ℚ) (b : Nat) : Prop :=
  (v = 0 ∧ (b = 0 ∨ b = 2147483648)) ∨
  (0 < v ∧ ∃ T d e, Ok T d ∧ v = (T : ℚ) / d * pow2 e ∧ b = rmag T d e) ∨
  (v < 0 ∧ ∃ T d e, Ok T d ∧ -v = (T : ℚ) / d * pow2 e ∧ b = 2147483648 + rmag T d e)

theorem Rnd_lt (v : ℚ) (b : Nat) (h : Rnd v b) : b % 2147483648 ≤ 2139095040 ∧
    b < 4294967296 := by
  rcases h with ⟨_, rfl | rfl⟩ | ⟨_, T, d, e, _, _, rfl⟩ | ⟨_, T, d, e, _, _, rfl⟩
  · omega
  · omega
  · have := rmag_le_inf T d e; omega
  · have := rmag_le_inf T d e; omega

theorem Rnd_key_sign (v : ℚ) (b : Nat) (h : Rnd v b) : (0 ≤ v → 0 ≤ key b) ∧ (v ≤ 0 → key b ≤ 0) := by
  unfold key
  rcases h with ⟨h0, rfl | rfl⟩ | ⟨h0, T, d, e, _, _, rfl⟩ | ⟨h0, T, d, e, _, _, rfl⟩
  · simp
  · simp
  · have := rmag_le_inf T d e
    refine ⟨fun _ => by split <;> omega, fun h => absurd h0 (not_lt.2 h)⟩
  · have := rmag_le_inf T d e
    refine ⟨fun h => absurd h0 (not_lt.2 h), fun _ => by split <;> omega⟩

/-- **monotone rounding** -/
theorem Rnd_mono (v v' : ℚ) (b b' : Nat) (h : Rnd v b) (h' : Rnd v' b') (hv : v ≤ v') : key b ≤ key b' := by
  rcases lt_trichotomy v 0 with hneg | hz | hpos
  · rcases lt_or_ge v' 0 with hneg' | hnn'
    · -- both negative
      rcases h with ⟨h0, _⟩ | ⟨h0, _⟩ | ⟨_, T, d, e, hOk, hval, rfl⟩
      · exact absurd h0 (ne_of_lt hneg)
      · exact absurd h0 (not_lt.2 (le_of_lt hneg))
      rcases h' with ⟨h0, _⟩ | ⟨h0, _⟩ | ⟨_, T', d', e', hOk', hval', rfl⟩
      · exact absurd h0 (ne_of_lt hneg')
      · exact absurd h0 (not_lt.2 (le_of_lt hneg'))
      have := rmag_mono_q T' d' T d e' e hOk' hOk (by rw [← hval, ← hval']; linarith)
      have := rmag_le_inf T d e
      have := rmag_le_inf T' d' e'
      unfold key
      split <;> split <;> omega
    · have := (Rnd_key_sign v b h).2 (le_of_lt hneg)
      have := (Rnd_key_sign v' b' h').1 hnn'
      omega
  · have := (Rnd_key_sign v b h).2 (le_of_eq hz)
    have := (Rnd_key_sign v' b' h').1 (by linarith)
    omega
  · have hpos' : 0 < v' := lt_of_lt_of_le hpos hv
    rcases h with ⟨h0, _⟩ | ⟨_, T, d, e, hOk, hval, rfl⟩ | ⟨h0, _⟩
    · exact absurd h0 (ne_of_gt hpos)
    swap
    · exact absurd h0 (not_lt.2 (le_of_lt hpos))
    rcases h' with ⟨h0, _⟩ | ⟨_, T', d', e', hOk', hval', rfl⟩ | ⟨h0, _⟩
    · exact absurd h0 (ne_of_gt hpos')
    swap
    · exact absurd h0 (not_lt.2 (le_of_lt hpos'))
    have := rmag_mono_q T d T' d' e e' hOk hOk' (by rw [← hval, ← hval']; exact hv)
    have := rmag_le_inf T d e
    have := rmag_le_inf T' d' e'
    unfold key
    split <;> split <;> omega

theorem withSign32 (neg : Bool) (x : Nat) :
    withSign .f32 neg x = (if neg then 2147483648 else 0) + x := by
  unfold withSign; rw [signBit_f32]; split <;> omega

/-- a signed ratio, rounded -/
theorem Rnd_ratio (neg : Bool) (T d : Nat) (E : Int) (hOk : Ok T d) :
    Rnd ((if neg then -1 else 1) * ((T : ℚ) / d * pow2 E)) (withSign .f32 neg (rmag T d E)) := by
  have hd : (0:ℚ) < d := by exact_mod_cast hOk.1
  have hT : (0:ℚ) < T := by exact_mod_cast hOk.2.1
  have hp := pow2_pos E
  have hpos : 0 < (T : ℚ) / d * pow2 E := by positivity
  rw [withSign32]
  cases neg
  · right; left
    simp only [Bool.false_eq_true, if_false, one_mul, Nat.zero_add]
    exact ⟨hpos, T, d, E, hOk, rfl, rfl⟩
  · right; right
    simp only [if_true, neg_one_mul, neg_neg]
    exact ⟨by linarith, T, d, E, hOk, rfl, rfl⟩

theorem Rnd_zero (neg : Bool) : Rnd 0 (withSign .f32 neg 0) := by
  left; rw [withSign32]; cases neg <;> simp

theorem roundPack_pos (f : Fmt) (neg : Bool) (m : Nat) (e : Int) (hm : m ≠ 0) :
    roundPack f neg m e = withSign f neg (roundMag f m e) := by
  have : (m == 0) = false := by simp [hm]
  simp [roundPack, this]

theorem roundPack_rmag (neg : Bool) (T d : Nat) (E : Int) (_hd : 0 < d) (hT : 0 < T) :
    roundPack .f32 neg (T / d) E (T % d != 0) = withSign .f32 neg (rmag T d E) := by
  have e1 := Nat.div_add_mod T d
  unfold roundPack rmag
  by_cases h0 : T % d = 0
  · have hq : T / d ≠ 0 := by
      intro hq; rw [hq, h0] at e1; omega
    simp [h0, hq]
  · simp [h0]

/-- an integer times a power of two, rounded (`add`, `mul`, `ofInt`) -/
theorem Rnd_int (neg : Bool) (n : Nat) (E : Int) (hn : n ≠ 0) :
    Rnd ((if neg then -1 else 1) * ((n : ℚ) * pow2 E)) (roundPack .f32 neg n E) := by
  have hOk : Ok n 1 := ⟨by omega, by omega, Or.inl (Nat.mod_one _)⟩
  have := Rnd_ratio neg n 1 E hOk
  have e : rmag n 1 E = roundMag .f32 n E := by
    unfold rmag; rw [if_pos (Nat.mod_one _), Nat.div_one]
  rw [e] at this
  rw [roundPack_pos _ _ _ _ hn]
  simpa using this

/-! ## finite binary32 patterns: value and order -/

def negB32 (b : Nat) : Bool := b / 2147483648 % 2 == 1

theorem unpack_f32 (b : Nat) : unpack .f32 b =
    if b / 8388608 % 256 = 255 then
      (if b % 8388608 = 0 then .inf (negB32 b) else .nan b)
    else if b / 8388608 % 256 = 0 then .fin (negB32 b) (b % 8388608) (-149)
    else .fin (negB32 b) (b % 8388608 + 8388608)
      (((b / 8388608 % 256 : Nat) : Int) - 150) := by
  simp only [unpack, emin_f32, signBit_f32, mbits_f32, ebits_f32, expMax_f32, negB32, beq_iff_eq]
  have c1 : (2:Nat)^23 = 8388608 := by decide
  have c2 : (2:Nat)^8 = 256 := by decide
  simp only [c1, c2]
  split
  · rfl
  · split
    · rfl
    · congr 1; omega

/-- finite: the exponent field is not all ones -/
def FinB (b : Nat) : Prop := b / 8388608 % 256 ≠ 255
instance (b : Nat) : Decidable (FinB b) := by unfold FinB; infer_instance

def mantB (b : Nat) : Nat :=
  if b / 8388608 % 256 = 0 then b % 8388608 else b % 8388608 + 8388608
def expB (b : Nat) : Int :=
  if b / 8388608 % 256 = 0 then -149 else ((b / 8388608 % 256 : Nat) : Int) - 150

theorem unpack_fin (b : Nat) (h : FinB b) : unpack .f32 b = .fin (negB32 b) (mantB b) (expB b) := by
  rw [unpack_f32, if_neg h]; unfold mantB expB; split <;> rfl

theorem unpack_fin_iff (b : Nat) : FinB b ↔ ∃ s m e, unpack .f32 b = .fin s m e := by
  constructor
  · intro h; exact ⟨_, _, _, unpack_fin b h⟩
  · rintro ⟨s, m, e, h⟩
    intro hc
    rw [unpack_f32, if_pos hc] at h
    split at h <;> cases h

theorem mantB_lt (b : Nat) : mantB b < 16777216 := by unfold mantB; split <;> omega
theorem expB_ge (b : Nat) : -149 ≤ expB b := by unfold expB; split <;> omega
theorem expB_le (b : Nat) (h : FinB b) : expB b ≤ 104 := by unfold expB FinB at *; split <;> omega
theorem mantB_norm (b : Nat) : 8388608 ≤ mantB b ∨ expB b = -149 := by
  unfold mantB expB; split <;> omega

/-- signed value `±m·2^e` -/
def sval (s : Bool) (m : Nat) (e : Int) : ℚ := (if s then -1 else 1) * ((m : ℚ) * pow2 e)

/-- the rational value of a finite pattern -/
def bval (b : Nat) : ℚ := sval (negB32 b) (mantB b) (expB b)

theorem bitLen_24 (m : Nat) (h1 : 8388608 ≤ m) (h2 : m < 16777216) : bitLen m = 24 :=
  bitLen_eq (k := 23) (by omega) (by omega)

/-- a 24-bit (or subnormal) mantissa is packed without rounding -/
theorem roundMag_exact (m : Nat) (e : Int) (_h0 : 0 < m) (h2 : m < 16777216) (he : -149 ≤ e)
    (hn : 8388608 ≤ m ∨ e = -149) : roundMag .f32 m e = pk e m := by
  have hL : bitLen m ≤ 24 := bitLen_le (k := 24) (by omega)
  have hfe : fe32 m e = e := by
    unfold fe32
    rcases hn with hn | hn
    · rw [bitLen_24 m hn h2]; split <;> omega
    · split <;> omega
  rw [roundMag_eq, hfe]
  unfold qOf
  simp

theorem magnitude_fin (b : Nat) (h : FinB b) :
    b % 2147483648 = 8388608 * (expB b + 149).toNat + mantB b ∧
    b % 2147483648 < 2139095040 := by
  unfold FinB at h
  unfold expB mantB
  split <;> omega

theorem negB32_eq (b : Nat) (hb : b < 4294967296) :
    b = (if negB32 b then 2147483648 else 0) + b % 2147483648 := by
  unfold negB32
  by_cases h : b / 2147483648 % 2 = 1
  · simp [h]; omega
  · simp [h]; omega

/-- every finite pattern is the rounding of its own value -/
theorem Rnd_self (b : Nat) (hb : b < 4294967296) (h : FinB b) : Rnd (bval b) b := by
  obtain ⟨hm1, hm2⟩ := magnitude_fin b h
  have hsg := negB32_eq b hb
  by_cases h0 : mantB b = 0
  · left
    refine ⟨by simp [bval, sval, h0], ?_⟩
    have he : expB b = -149 := by have := mantB_norm b; omega
    rw [h0, he] at hm1
    split at hsg <;> omega
  · have := Rnd_int (negB32 b) (mantB b) (expB b) h0
    have hge := expB_ge b
    have e : roundPack .f32 (negB32 b) (mantB b) (expB b) = b := by
      rw [roundPack_pos _ _ _ _ h0, roundMag_exact _ _ (by omega) (mantB_lt b) (expB_ge b) (mantB_norm b),
        withSign32]
      unfold pk
      have hlt : ¬ (8388608 * (expB b + 149).toNat + mantB b ≥ 2139095040) := by
        rw [← hm1]; omega
      rw [if_neg hlt, ← hm1]
      exact hsg.symm
    rw [e] at this
    exact this

theorem key_eq (a b : Nat) (ha : a < 4294967296) (hb : b < 4294967296)
    (h : key a = key b) : a = b ∨ (a % 2147483648 = 0 ∧ b % 2147483648 = 0) := by
  unfold key at h
  split at h <;> split at h <;> omega

theorem bval_zero (b : Nat) (h : b % 2147483648 = 0) : bval b = 0 := by
  have : mantB b = 0 := by unfold mantB; split <;> omega
  simp [bval, sval, this]

/-- **the `toOrd` order of finite patterns is the order of their values** -/
theorem key_le_iff (a b : Nat) (ha : a < 4294967296) (hb : b < 4294967296)
    (fa : FinB a) (fb : FinB b) : key a ≤ key b ↔ bval a ≤ bval b := by
  constructor
  · intro h
    by_contra hc
    have hc' : bval b ≤ bval a := le_of_lt (not_le.1 hc)
    have h2 := Rnd_mono _ _ _ _ (Rnd_self b hb fb) (Rnd_self a ha fa) hc'
    have heq : key a = key b := by omega
    rcases key_eq a b ha hb heq with rfl | ⟨h1, h2⟩
    · exact hc (le_refl _)
    · rw [bval_zero a h1, bval_zero b h2] at hc
      exact hc (le_refl _)
  · intro h
    exact Rnd_mono _ _ _ _ (Rnd_self a ha fa) (Rnd_self b hb fb) h

theorem key_lt_iff (a b : Nat) (ha : a < 4294967296) (hb : b < 4294967296)
    (fa : FinB a) (fb : FinB b) : key a < key b ↔ bval a < bval b := by
  have := key_le_iff b a hb ha fb fa
  constructor
  · intro h; by_contra hc; have := this.2 (not_lt.1 hc); omega
  · intro h; by_contra hc; have := this.1 (by omega); linarith

/-! ## the comparison operators -/

/-- not a NaN -/
def NNB (b : Nat) : Prop := b % 2147483648 ≤ 2139095040
instance (b : Nat) : Decidable (NNB b) := by unfold NNB; infer_instance

theorem isNaN_iff (b : Nat) : Num.isNaN .f32 b = false ↔ NNB b := by
  simp only [Num.isNaN, signBit_f32, infBits_f32, NNB, decide_eq_false_iff_not, Nat.not_lt]

theorem toOrd_eq (b : Nat) (h : NNB b) : toOrd .f32 b = some (key b) := by
  unfold toOrd key
  rw [(isNaN_iff b).2 h, signBit_f32]
  simp only [Bool.false_eq_true, if_false]
  split <;> rfl

theorem toOrd_nan (b : Nat) (h : ¬ NNB b) : toOrd .f32 b = none := by
  unfold toOrd
  have : Num.isNaN .f32 b = true := by
    rcases hh : Num.isNaN .f32 b with _ | _
    · exact absurd ((isNaN_iff b).1 hh) h
    · rfl
  rw [this]; rfl

theorem FinB_NNB (b : Nat) (h : FinB b) : NNB b := by
  have := (magnitude_fin b h).2
  unfold NNB; omega

theorem Rnd_NNB (v : ℚ) (b : Nat) (h : Rnd v b) : NNB b := (Rnd_lt v b h).1

theorem le_iff_key (a b : Nat) (ha : NNB a) (hb : NNB b) : Num.le .f32 a b = true ↔ key a ≤ key b := by
  unfold Num.le; rw [toOrd_eq a ha, toOrd_eq b hb]; simp

theorem lt_iff_key (a b : Nat) (ha : NNB a) (hb : NNB b) : Num.lt .f32 a b = true ↔ key a < key b := by
  unfold Num.lt; rw [toOrd_eq a ha, toOrd_eq b hb]; simp

theorem le_NNB (a b : Nat) (h : Num.le .f32 a b = true) : NNB a ∧ NNB b := by
  unfold Num.le at h
  by_cases ha : NNB a <;> by_cases hb : NNB b
  · exact ⟨ha, hb⟩
  · rw [toOrd_nan b hb] at h; split at h <;> simp_all
  · rw [toOrd_nan a ha] at h; simp at h
  · rw [toOrd_nan a ha] at h; simp at h

theorem lt_NNB (a b : Nat) (h : Num.lt .f32 a b = true) : NNB a ∧ NNB b := by
  unfold Num.lt at h
  by_cases ha : NNB a <;> by_cases hb : NNB b
  · exact ⟨ha, hb⟩
  · rw [toOrd_nan b hb] at h; split at h <;> simp_all
  · rw [toOrd_nan a ha] at h; simp at h
  · rw [toOrd_nan a ha] at h; simp at h

end Ivg.FloatOrder32
