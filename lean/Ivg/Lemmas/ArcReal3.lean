import Ivg.Lemmas.ArcReal2
/-!
# The arc algorithm over the real numbers, part 3: direction and extent of the sweep

With `c := arcCentreG …` at `ℝ`, `Λ` the SVG radii check value of the original radii and
`α := arccos (1 - 2·min Λ 1) ∈ (0, π]` (the angle between the start and end vectors in the frame in which the
ellipse is the unit circle):

    c.deltaTheta = (if sweep then 1 else -1) * (if largeArc then 2π - α else α)        (`deltaTheta_formula`)

Consequences: the sweep flag selects the sign (`sweep_direction`: `0 < Δθ < 2π` resp. `-2π < Δθ < 0`), the
large-arc flag selects the extent (`large_arc_extent`: for `Λ < 1`, `π < |Δθ|` iff `largeArc`, `|Δθ| < π` iff not;
for `Λ ≥ 1` — radii exactly large enough, or scaled up — both candidate arcs are half ellipses and `|Δθ| = π`
whatever the flag).
-/
namespace Ivg.ArcReal
open Ivg Ren Real

namespace In
variable {I : In}

/-- the unsigned small angle between start and end vector -/
noncomputable def α (I : In) : ℝ := arccos (1 - 2 * I.rc)

theorem alpha_pos (h : I.Valid) : 0 < I.α := by
  unfold α
  rw [arccos_pos]
  linarith [rc_pos h]

theorem alpha_le_pi (I : In) : I.α ≤ π := arccos_le_pi _

theorem alpha_lt_pi (hrc : I.rc < 1) : I.α < π := by
  unfold α
  rw [arccos_lt_pi]
  linarith

theorem alpha_eq_pi (hrc : I.rc = 1) : I.α = π := by
  unfold α
  rw [hrc]
  norm_num

/-- the unadjusted `Δθ` is `±α`, negative exactly when `step2` is -/
theorem rawDelta_eq (h : I.Valid) : I.rawDelta = if I.σ < 0 then -I.α else I.α := by
  unfold rawDelta α
  rw [angleR_unit (a_unit h) (b_unit h), dot_ab h]
  have hc := cross_ab h
  have hrc := rc_pos h
  have hiff : I.ax * I.by' < I.ay * I.bx ↔ I.σ < 0 := by
    constructor
    · intro hlt
      by_contra hn
      have : 0 ≤ 2 * I.σ * I.rc := by have := not_lt.1 hn; positivity
      linarith
    · intro hlt
      have : 2 * I.σ * I.rc < 0 := by nlinarith
      linarith
  by_cases hs : I.σ < 0
  · rw [if_pos hs, if_pos (hiff.2 hs)]
  · rw [if_neg hs, if_neg (fun hh => hs (hiff.1 hh))]

/-- **the complete description of `Δθ`** -/
theorem deltaTheta_eq (h : I.Valid) :
    I.centre.deltaTheta = (if I.sw then 1 else -1) * (if I.la then 2 * π - I.α else I.α) := by
  rw [centre_deltaTheta, rawDelta_eq h]
  have hα := alpha_pos h
  have hπ := pi_pos
  unfold adjustR
  rw [cast0, cast2]
  by_cases e : I.la = I.sw
  · have hσ := sigma_nonpos h e
    by_cases hs : I.σ < 0
    · rw [if_pos hs]
      cases hsw : I.sw
      · rw [hsw] at e
        simp only [e, Bool.false_eq_true, if_false]
        rw [if_neg (by linarith)]
        ring
      · rw [hsw] at e
        simp only [e, if_true]
        rw [if_pos (by linarith)]
        ring
    · have hσ0 : I.σ = 0 := le_antisymm hσ (not_lt.1 hs)
      have hαπ : I.α = π := alpha_eq_pi ((sigma_eq_zero_iff h).1 hσ0)
      rw [if_neg hs, hαπ]
      cases hsw : I.sw
      · rw [hsw] at e
        simp only [e, Bool.false_eq_true, if_false]
        rw [if_pos hπ]
        ring
      · rw [hsw] at e
        simp only [e, if_true]
        rw [if_neg (by linarith)]
        ring
  · have hσ := sigma_nonneg h e
    rw [if_neg (not_lt.2 hσ)]
    cases hsw : I.sw
    · have hla : I.la = true := by
        cases hla : I.la
        · exact absurd (hla.trans hsw.symm) e
        · rfl
      simp only [hla, Bool.false_eq_true, if_false, if_true]
      rw [if_pos hα]
      ring
    · have hla : I.la = false := by
        cases hla : I.la
        · rfl
        · exact absurd (hla.trans hsw.symm) e
      simp only [hla, Bool.false_eq_true, if_false, if_true]
      rw [if_neg (by linarith)]
      ring

end In

/-! ## Headline statements with explicit arguments -/

/-- the unsigned angle between the start and the end vector, in terms of the radii check value `Λ` -/
noncomputable def smallAngle (x1 y1 x2 y2 Rx0 Ry0 phi : ℝ) : ℝ :=
  arccos (1 - 2 * min (radiiLambda x1 y1 x2 y2 Rx0 Ry0 phi) 1)

theorem In.alpha_eq {I : In} (h : I.Valid) : I.α = smallAngle I.x1 I.y1 I.x2 I.y2 I.Rx0 I.Ry0 I.phi := by
  unfold In.α smallAngle
  rw [In.rc_eq h, In.rc0_eq]
  congr 2
  split
  · rename_i hlt; rw [min_eq_right (le_of_lt hlt)]
  · rename_i hlt; rw [min_eq_left (not_lt.1 hlt)]

/-- `0 < α ≤ π`, and `α < π` exactly when `Λ < 1` -/
theorem smallAngle_range {x1 y1 x2 y2 Rx0 Ry0 : ℝ} (phi : ℝ)
    (hRx : 0 < Rx0) (hRy : 0 < Ry0) (hne : (x1, y1) ≠ (x2, y2)) :
    0 < smallAngle x1 y1 x2 y2 Rx0 Ry0 phi ∧ smallAngle x1 y1 x2 y2 Rx0 Ry0 phi ≤ π ∧
    (smallAngle x1 y1 x2 y2 Rx0 Ry0 phi < π ↔ radiiLambda x1 y1 x2 y2 Rx0 Ry0 phi < 1) := by
  let I : In := In.mk x1 y1 x2 y2 Rx0 Ry0 phi true true
  have h : I.Valid := ⟨hRx, hRy, hne⟩
  have e : I.α = smallAngle x1 y1 x2 y2 Rx0 Ry0 phi := In.alpha_eq h
  refine ⟨by rw [← e]; exact In.alpha_pos h, by rw [← e]; exact In.alpha_le_pi I, ?_⟩
  unfold smallAngle
  rw [arccos_lt_pi]
  constructor
  · intro hlt
    by_contra hn
    rw [min_eq_right (not_lt.1 hn)] at hlt
    linarith
  · intro hlt
    rw [min_eq_left (le_of_lt hlt)]
    linarith

/-- **(c) The sweep, completely.**  `Δθ = ±(α or 2π - α)`: the SIGN is chosen by the sweep flag, the EXTENT by the
    large-arc flag, where `α ∈ (0, π]` is the angle between the start and end vectors. -/
theorem deltaTheta_formula {x1 y1 x2 y2 Rx0 Ry0 : ℝ} (phi : ℝ) (la sw : Bool)
    (hRx : 0 < Rx0) (hRy : 0 < Ry0) (hne : (x1, y1) ≠ (x2, y2)) :
    let c := arcCentreG x1 y1 x2 y2 Rx0 Ry0 phi la sw
    let α := smallAngle x1 y1 x2 y2 Rx0 Ry0 phi
    c.deltaTheta = (if sw then 1 else -1) * (if la then 2 * π - α else α) := by
  intro c α
  let I : In := In.mk x1 y1 x2 y2 Rx0 Ry0 phi la sw
  have h : I.Valid := ⟨hRx, hRy, hne⟩
  have hc : c = I.centre := rfl
  have hα : α = I.α := (In.alpha_eq h).symm
  rw [hc, hα]
  exact In.deltaTheta_eq h

example := deltaTheta_formula (x1 := 0) (y1 := 0) (x2 := 2) (y2 := 0) (Rx0 := 1) (Ry0 := 1) 0 true true
  one_pos one_pos (by simp)

/-- **(c) Direction.**  `sweep = true`: the angle increases, `0 < Δθ < 2π`; `sweep = false`: it decreases,
    `-2π < Δθ < 0`.  (Strict on both sides: distinct end points are never joined by an empty or a full turn.) -/
theorem sweep_direction {x1 y1 x2 y2 Rx0 Ry0 : ℝ} (phi : ℝ) (la sw : Bool)
    (hRx : 0 < Rx0) (hRy : 0 < Ry0) (hne : (x1, y1) ≠ (x2, y2)) :
    let c := arcCentreG x1 y1 x2 y2 Rx0 Ry0 phi la sw
    (sw = true → 0 < c.deltaTheta ∧ c.deltaTheta < 2 * π) ∧
    (sw = false → -(2 * π) < c.deltaTheta ∧ c.deltaTheta < 0) := by
  intro c
  have hf : c.deltaTheta = _ := deltaTheta_formula phi la sw hRx hRy hne
  obtain ⟨h0, h1, -⟩ := smallAngle_range phi hRx hRy hne
  have hπ := pi_pos
  rw [hf]
  constructor
  · intro hsw
    subst hsw
    cases la <;> simp only [if_true, Bool.false_eq_true, if_false, one_mul] <;> constructor <;> linarith
  · intro hsw
    subst hsw
    cases la <;> simp only [if_true, Bool.false_eq_true, if_false, neg_mul, one_mul] <;>
      constructor <;> linarith

example := sweep_direction (x1 := 0) (y1 := 0) (x2 := 2) (y2 := 0) (Rx0 := 1) (Ry0 := 1) 0 true true
  one_pos one_pos (by simp)

/-- **(c) Extent.**  In generic position (`Λ < 1`: the radii are not scaled up and the quantity under the root
    of step 2 is strictly positive) the large-arc flag selects the arc of more than half a turn, its absence the
    arc of less than half a turn.  At the boundary `Λ ≥ 1` (radii exactly large enough, `Λ = 1`, or too small and
    scaled up, `Λ > 1`) the two candidate arcs are both half ellipses and `|Δθ| = π` whatever the flag. -/
theorem large_arc_extent {x1 y1 x2 y2 Rx0 Ry0 : ℝ} (phi : ℝ) (la sw : Bool)
    (hRx : 0 < Rx0) (hRy : 0 < Ry0) (hne : (x1, y1) ≠ (x2, y2)) :
    let c := arcCentreG x1 y1 x2 y2 Rx0 Ry0 phi la sw
    let Λ := radiiLambda x1 y1 x2 y2 Rx0 Ry0 phi
    (Λ < 1 → (la = true → π < |c.deltaTheta|) ∧ (la = false → |c.deltaTheta| < π)) ∧
    (1 ≤ Λ → |c.deltaTheta| = π) := by
  intro c Λ
  have hf : c.deltaTheta = _ := deltaTheta_formula phi la sw hRx hRy hne
  obtain ⟨h0, h1, h2⟩ := smallAngle_range phi hRx hRy hne
  have hπ := pi_pos
  have habs : |c.deltaTheta| = if la then 2 * π - smallAngle x1 y1 x2 y2 Rx0 Ry0 phi
      else smallAngle x1 y1 x2 y2 Rx0 Ry0 phi := by
    rw [hf, abs_mul]
    have : |(if sw = true then (1 : ℝ) else -1)| = 1 := by cases sw <;> simp
    rw [this, one_mul]
    cases la
    · simp only [Bool.false_eq_true, if_false]; exact abs_of_pos h0
    · simp only [if_true]; exact abs_of_pos (by linarith)
  rw [habs]
  constructor
  · intro hΛ
    have := h2.2 hΛ
    constructor
    · intro hla; subst hla; simp only [if_true]; linarith
    · intro hla; subst hla; simp only [Bool.false_eq_true, if_false]; exact this
  · intro hΛ
    have hα : smallAngle x1 y1 x2 y2 Rx0 Ry0 phi = π := by
      apply le_antisymm h1
      by_contra hn
      have := h2.1 (not_le.1 hn)
      exact absurd hΛ (not_le.2 this)
    rw [hα]
    cases la
    · simp
    · simp; ring

/-- non-vacuity, generic position: quarter circle from (1,0) to (0,1) with radii 1 (`Λ = 1/2`) -/
example : radiiLambda 1 0 0 1 1 1 0 < 1 := by unfold radiiLambda; norm_num
/-- non-vacuity, boundary: half circle from (0,0) to (2,0) with radii 1 (`Λ = 1`) -/
example : 1 ≤ radiiLambda 0 0 2 0 1 1 0 := by unfold radiiLambda; norm_num

end Ivg.ArcReal
