import Ivg.Lemmas.ArcGeneric
import Ivg.Lemmas.ArcCount
/-!
# The model's arc as generic cubics, with the count bound discharged

Combines the tie of `Ivg/Lemmas/ArcGeneric.lean` with the bound `n ≤ 4` of `Ivg/Lemmas/ArcCount.lean`: for
positive radii the model `arcF32` IS the list of the `n ≤ 4` cubics built from the generic centre
parameterisation at `F64`.  Core only (no Mathlib).
-/
namespace Ivg.Ren
open Ivg Num

theorem adjust_eq_generic (sw : Bool) (d : F64) : ArcCount.adjust sw d = adjustG sw d := rfl

/-- the segment count computed from the generic `Δθ` at `F64` is at most 4, for every input -/
theorem arcCountF64_le_four (z : Renderer F32 F64) (rx ry rot : F32) (la sw : Bool) (x y : F32) :
    arcCountF64 (arcCentreF64 z rx ry rot la sw x y) ≤ 4 := by
  obtain ⟨ux, uy, vx, vy, h⟩ := arcCentreG_deltaTheta_shape (F64.ofF32 (z.unabsX z.penX))
    (F64.ofF32 (z.unabsY z.penY)) (F64.ofF32 x) (F64.ofF32 y)
    (F64.ofF32 rx).abs (F64.ofF32 ry).abs (twoPi * F64.ofF32 rot) la sw
  unfold arcCountF64 arcCentreF64
  rw [h, ← arcAngle_eq_generic, ← adjust_eq_generic]
  exact ArcCount.segment_count_le_four sw ux uy vx vy

/-- **The model's arc IS the generic algorithm, for every input with positive radii**: `n ≤ 4` cubics whose
    control and end points are the generic `arcCtrl1G`, `arcCtrl2G`, `arcEndG` of the generic ellipse record at
    the generic angles, each converted to `float32` and mapped to pixel space. -/
theorem arcF32_generic_cubics (z : Renderer F32 F64) (rx ry rot : F32) (la sw : Bool) (x y : F32)
    (hr : f 0 < (F64.ofF32 rx).abs ∧ f 0 < (F64.ofF32 ry).abs) :
    let c := arcCentreF64 z rx ry rot la sw x y
    let n := arcCountF64 c
    n ≤ 4 ∧
    arcF32 z rx ry rot la sw x y =
      (List.range n.toNat).map fun (k : Nat) =>
        .cubeTo
          (z.absX (arcCtrl1G c (arcSegAngleG c n k) (arcSegAngleG c n (k + 1))).1.toF32)
          (z.absY (arcCtrl1G c (arcSegAngleG c n k) (arcSegAngleG c n (k + 1))).2.toF32)
          (z.absX (arcCtrl2G c (arcSegAngleG c n k) (arcSegAngleG c n (k + 1))).1.toF32)
          (z.absY (arcCtrl2G c (arcSegAngleG c n k) (arcSegAngleG c n (k + 1))).2.toF32)
          (z.absX (arcEndG c (arcSegAngleG c n (k + 1))).1.toF32)
          (z.absY (arcEndG c (arcSegAngleG c n (k + 1))).2.toF32) := by
  intro c n
  have h4 := arcCountF64_le_four z rx ry rot la sw x y
  exact ⟨h4, arcF32_eq_generic_cubics z rx ry rot la sw x y hr (by omega)⟩

/-- non-vacuity: radius 5 (`0x40a00000`) satisfies the hypothesis -/
example : f 0 < (F64.ofF32 ⟨0x40a00000⟩).abs ∧ f 0 < (F64.ofF32 ⟨0x40a00000⟩).abs := by decide

end Ivg.Ren
