import Ivg.Lemmas.FloatErr
import Ivg.Lemmas.FloatRound32
import Ivg.Model.Renderer
import Mathlib.Tactic.Linarith
import Mathlib.Tactic.Ring
import Mathlib.Tactic.FieldSimp
/-!
# C05 at `F32`: rounding-error analysis of the Renderer's coordinate transform (one axis)

`recalcTransform` computes `scale = fl(fl(dx) / fl(max − min))`, `bias = −min`; a coordinate is mapped by
`abs x = fl(scale · fl(x + bias))`, an offset by `relVec pen x = fl(pen + fl(scale · x))`, and a smooth
control point is `fl(fl(2·pen) − prev)`.  This file bounds each against the exact affine map
`x ↦ s·(x − min)`, `s = dx / (max − min)`, with the standard model of `FloatErr.lean`.

Part 1: a calculus of relative errors `Rel e x X : |x − X| ≤ e·|X|` over `ℚ` (signs are arbitrary).
Part 2: one axis (`Axis`: the two viewBox bounds and the integer side of the target rectangle):
`scale_err`, `bias_exact`, `abs_err`, `relVec_err`, `smooth_err`.
`Geom32b.lean`: the Renderer model (`absX`, `relVecX`, `implicitSmoothPoint`, `run`).
-/
namespace Ivg.Geom32
open Ivg Num FloatOrder32 FloatMono32 FloatErr

/-! ## Part 1: relative errors -/

/-- `x` approximates `X` with relative error at most `e` -/
def Rel (e x X : ℚ) : Prop := |x - X| ≤ e * |X|

theorem Rel.refl (X : ℚ) : Rel 0 X X := by unfold Rel; simp

theorem Rel.mono {e e' x X : ℚ} (h : Rel e x X) (he : e ≤ e') : Rel e' x X :=
  le_trans h (mul_le_mul_of_nonneg_right he (abs_nonneg X))

theorem Rel.abs_le {e x X : ℚ} (h : Rel e x X) : |x| ≤ (1 + e) * |X| := by
  have := abs_sub_abs_le_abs_sub x X
  unfold Rel at h
  linarith

theorem Rel.abs_ge {e x X : ℚ} (h : Rel e x X) : (1 - e) * |X| ≤ |x| := by
  have := abs_sub_abs_le_abs_sub X x
  unfold Rel at h
  rw [abs_sub_comm] at this
  linarith

theorem Rel.trans {e1 e2 x y z : ℚ} (h1 : Rel e1 x y) (h2 : Rel e2 y z) (he1 : 0 ≤ e1) :
    Rel (e1 + e2 + e1 * e2) x z := by
  have hy := h2.abs_le
  have h3 : e1 * |y| ≤ e1 * ((1 + e2) * |z|) := mul_le_mul_of_nonneg_left hy he1
  have h4 := abs_sub_le x y z
  unfold Rel at *
  linarith

theorem Rel.mul {e1 e2 a A b B : ℚ} (h1 : Rel e1 a A) (h2 : Rel e2 b B) (he1 : 0 ≤ e1) :
    Rel (e1 + e2 + e1 * e2) (a * b) (A * B) := by
  have hb := h2.abs_le
  have p1 : |a - A| * |b| ≤ (e1 * |A|) * ((1 + e2) * |B|) :=
    mul_le_mul h1 hb (abs_nonneg _) (mul_nonneg he1 (abs_nonneg _))
  have p2 : |A| * |b - B| ≤ |A| * (e2 * |B|) := mul_le_mul_of_nonneg_left h2 (abs_nonneg A)
  have e : a * b - A * B = (a - A) * b + A * (b - B) := by ring
  unfold Rel
  rw [e, abs_mul A B]
  refine le_trans (abs_add_le _ _) ?_
  rw [abs_mul, abs_mul]
  have : (e1 + e2 + e1 * e2) * (|A| * |B|) = (e1 * |A|) * ((1 + e2) * |B|) + |A| * (e2 * |B|) := by ring
  linarith

/-- the approximated in terms of the approximation -/
theorem Rel.symm {e x X : ℚ} (h : Rel e x X) (he0 : 0 ≤ e) (he : e < 1) : Rel (e / (1 - e)) X x := by
  have hg := h.abs_ge
  have h1 : (0:ℚ) < 1 - e := by linarith
  have hX : |X| ≤ |x| / (1 - e) := by rw [le_div_iff₀ h1]; linarith
  unfold Rel at *
  rw [abs_sub_comm]
  calc |x - X| ≤ e * |X| := h
    _ ≤ e * (|x| / (1 - e)) := mul_le_mul_of_nonneg_left hX he0
    _ = e / (1 - e) * |x| := by ring

/-- a quotient by an approximate divisor -/
theorem Rel.div_left (A : ℚ) {e b B : ℚ} (h : Rel e b B) (he0 : 0 ≤ e) (he : e < 1) (hB : B ≠ 0) :
    b ≠ 0 ∧ Rel (e / (1 - e)) (A / b) (A / B) := by
  have hg := h.abs_ge
  have h1 : (0:ℚ) < 1 - e := by linarith
  have hBp : 0 < |B| := abs_pos.2 hB
  have hbp : 0 < |b| := lt_of_lt_of_le (mul_pos h1 hBp) hg
  have hb : b ≠ 0 := abs_pos.1 hbp
  refine ⟨hb, ?_⟩
  have hs := h.symm he0 he
  have e1 : A / b - A / B = (A / B) * ((B - b) / b) := by field_simp
  unfold Rel at *
  rw [e1, abs_mul, mul_comm]
  refine mul_le_mul_of_nonneg_right ?_ (abs_nonneg _)
  rw [abs_div, div_le_iff₀ hbp]
  exact hs

/-! ### the constants -/

/-- relative error of the scale: `(1+u)/(1−u) − 1 = 2u/(1−u)` (two roundings, one in a denominator) -/
def g2 : ℚ := 2 * u / (1 - u)
/-- scale times one rounded factor: `(1+u)²/(1−u) − 1` -/
def g3 : ℚ := (1 + u) * (1 + u) / (1 - u) - 1
/-- … rounded once more: `(1+u)³/(1−u) − 1` -/
def g4 : ℚ := (1 + u) * (1 + u) * (1 + u) / (1 - u) - 1

theorem g2_le : g2 ≤ 2 * u + 3 * u * u := by unfold g2 u; norm_num
theorem g3_le : g3 ≤ 3 * u + 5 * u * u := by unfold g3 u; norm_num
theorem g4_le : g4 ≤ 4 * u + 8 * u * u := by unfold g4 u; norm_num
theorem g4_le5 : g4 ≤ 5 * u := by unfold g4 u; norm_num
theorem g2_pos : 0 < g2 := by unfold g2 u; norm_num
theorem g3_pos : 0 < g3 := by unfold g3 u; norm_num
theorem g4_pos : 0 < g4 := by unfold g4 u; norm_num

/-! ## Part 2: one axis -/

/-- one axis of the transform: the viewBox bounds `lo`, `hi` (float32) and the side `d` of the target
    rectangle (an integer) -/
structure Axis where
  lo : F32
  hi : F32
  d : Int

namespace Axis

/-- `recalcTransform`: `scaleX = float32(dx) / (maxX − minX)` -/
def scale (a : Axis) : F32 := F32.ofInt a.d / (a.hi - a.lo)
/-- `recalcTransform`: `biasX = −minX` -/
def bias (a : Axis) : F32 := -a.lo
/-- `absX` -/
def abs (a : Axis) (x : F32) : F32 := a.scale * (x + a.bias)
/-- `relX` -/
def rel (a : Axis) (x : F32) : F32 := a.scale * x
/-- `relVecX` with the pen explicit -/
def relVec (a : Axis) (pen x : F32) : F32 := pen + a.rel x
/-- `implicitSmoothPoint`, one coordinate -/
def smooth (pen prev : F32) : F32 := Ren.two * pen - prev

/-- the exact extent of the viewBox -/
def ext (a : Axis) : ℚ := val a.hi - val a.lo
/-- the exact scale `d / (hi − lo)` -/
def s (a : Axis) : ℚ := (a.d : ℚ) / a.ext
/-- the exact affine map `x ↦ s·(x − lo)` -/
def map (a : Axis) (x : ℚ) : ℚ := a.s * (x - val a.lo)

/-- **the range hypothesis** of one axis: finite viewBox bounds, a target side below `2^24` (so that
    `float32(d)` is exact), and the two exact intermediate quantities — the extent `hi − lo` and the scale
    `s = d/(hi − lo)` — in the normal range of binary32 (with a margin of a factor 2): no intermediate result
    of `recalcTransform` overflows or underflows.  (`s ≠ 0` includes `d ≠ 0` and `hi ≠ lo`.) -/
structure InRange (a : Axis) : Prop where
  flo : Fn a.lo
  fhi : Fn a.hi
  hd : a.d.natAbs < 16777216
  hext : |a.ext| ≤ maxv
  slo : 2 * minN ≤ |a.s|
  shi : |a.s| ≤ maxv / 2

/-- a coordinate `x` in range for the axis: finite, and neither `x − lo` nor its image overflow -/
structure CoordOK (a : Axis) (x : F32) : Prop where
  fx : Fn x
  hsub : |val x - val a.lo| ≤ maxv
  hmap : |a.map (val x)| ≤ maxv / 2

/-- an offset `x` from the pen `pen` in range: finite, and neither `s·x` nor `pen + s·x` overflow -/
structure OffOK (a : Axis) (pen x : F32) : Prop where
  fpen : Fn pen
  fx : Fn x
  hsum : |val pen| + |a.s * val x| ≤ maxv / 2

theorem maxv_pos : 0 < maxv := by unfold maxv; have := pow2_pos 104; linarith

theorem minN_le_maxv : minN ≤ maxv := by
  unfold minN maxv
  calc pow2 (-126) ≤ pow2 104 := pow2_mono (by omega)
    _ ≤ 16777215 * pow2 104 := by have := pow2_pos 104; linarith

theorem InRange.ext_ne {a : Axis} (h : a.InRange) : a.ext ≠ 0 := by
  intro h0
  have := h.slo
  unfold s at this
  rw [h0, div_zero, abs_zero] at this
  have := minN_pos
  linarith

/-- **`bias_exact`**: `biasX = −minX` exactly -/
theorem bias_exact {a : Axis} (h : a.InRange) : Fn a.bias ∧ val a.bias = - val a.lo :=
  ⟨neg_Fin.2 h.flo, val_neg _⟩

/-- the rounded extent -/
theorem ext_err {a : Axis} (h : a.InRange) : Fn (a.hi - a.lo) ∧ Rel u (val (a.hi - a.lo)) a.ext :=
  sub_err h.fhi h.flo h.hext

/-- **`scale_err`**: the computed scale is finite and within relative `2u/(1−u) ≤ 2u + 3u²` of the exact
    scale `d/(hi − lo)`: one rounding of the extent, one of the quotient; `float32(d)` is exact -/
theorem scale_err {a : Axis} (h : a.InRange) : Fn a.scale ∧ Rel g2 (val a.scale) a.s := by
  obtain ⟨fw, hw⟩ := ext_err h
  obtain ⟨fd, vd⟩ := FloatRound32.ofInt_F32_exact a.d h.hd
  obtain ⟨hw0, hq⟩ := Rel.div_left (a.d : ℚ) hw u_pos.le (by unfold u; norm_num) h.ext_ne
  have hqle := hq.abs_le
  have hqge := hq.abs_ge
  have hslo := h.slo
  have hshi := h.shi
  have hmp := minN_pos
  have hMp := maxv_pos
  have hsn : 0 ≤ |a.s| := abs_nonneg _
  have c1 : (1 - u / (1 - u)) = 16777214 / 16777215 := by unfold u; norm_num
  have c2 : (1 + u / (1 - u)) = 16777216 / 16777215 := by unfold u; norm_num
  rw [c1] at hqge; rw [c2] at hqle
  change (16777214 / 16777215 : ℚ) * |a.s| ≤ |(a.d : ℚ) / val (a.hi - a.lo)| at hqge
  change |(a.d : ℚ) / val (a.hi - a.lo)| ≤ (16777216 / 16777215 : ℚ) * |a.s| at hqle
  have hr : |val (F32.ofInt a.d) / val (a.hi - a.lo)| ≤ maxv := by rw [vd]; linarith
  obtain ⟨fS, hS⟩ := div_err fd fw hw0 hr
  refine ⟨fS, ?_⟩
  rw [vd] at hS
  rcases hS with hS | ⟨hS, _⟩
  · have := Rel.trans (x := val a.scale) hS hq u_pos.le
    exact this.mono (by unfold g2 u; norm_num)
  · exfalso; linarith

/-- … and when the exact extent `hi − lo` is itself a float (e.g. small integer viewBox bounds), the
    subtraction is exact and a single rounding remains -/
theorem scale_err_exact {a : Axis} (h : a.InRange) (c : F32) (fc : Fn c) (hc : val c = a.ext) :
    Rel u (val a.scale) a.s := by
  obtain ⟨fw, _⟩ := ext_err h
  obtain ⟨fd, vd⟩ := FloatRound32.ofInt_F32_exact a.d h.hd
  have hw : val (a.hi - a.lo) = a.ext :=
    Rnd_repr _ _ c.nb (sub_nb h.fhi h.flo) (nb_lt c) fc hc
  have hslo := h.slo
  have hshi := h.shi
  have hmp := minN_pos
  have hMp := maxv_pos
  have hr : |val (F32.ofInt a.d) / val (a.hi - a.lo)| ≤ maxv := by
    rw [vd, hw]; change |a.s| ≤ maxv; linarith
  obtain ⟨_, hS⟩ := div_err fd fw (by rw [hw]; exact h.ext_ne) hr
  rw [vd, hw] at hS
  rcases hS with hS | ⟨hS, _⟩
  · exact hS
  · exfalso; change |a.s| < minN at hS; linarith

/-! ### `absX` -/

/-- the two cases of the last rounding of `abs x = fl(scale · fl(x + bias))`: relative error `u` of the
    product, or (product below the normal range) absolute error `u·2^-126` -/
theorem abs_err_cases {a : Axis} (h : a.InRange) {x : F32} (hx : a.CoordOK x) :
    Fn (a.abs x) ∧
    (Rel g4 (val (a.abs x)) (a.map (val x)) ∨
     |val (a.abs x) - a.map (val x)| ≤ g3 * |a.map (val x)| + u * minN) := by
  obtain ⟨fS, hS⟩ := scale_err h
  obtain ⟨fb, vb⟩ := bias_exact h
  have hsum : val x + val a.bias = val x - val a.lo := by rw [vb]; ring
  obtain ⟨ft, ht⟩ := add_err hx.fx fb (by rw [hsum]; exact hx.hsub)
  rw [hsum] at ht
  have ht' : Rel u (val (x + a.bias)) (val x - val a.lo) := ht
  have hp : Rel (g2 + u + g2 * u) (val a.scale * val (x + a.bias)) (a.map (val x)) :=
    Rel.mul hS ht' g2_pos.le
  have hp3 : Rel g3 (val a.scale * val (x + a.bias)) (a.map (val x)) :=
    hp.mono (by unfold g2 g3 u; norm_num)
  have hple := hp3.abs_le
  have hmap := hx.hmap
  have hMp := maxv_pos
  have hm0 : 0 ≤ |a.map (val x)| := abs_nonneg _
  have c3 : (1 + g3) ≤ 2 := by unfold g3 u; norm_num
  have hr : |val a.scale * val (x + a.bias)| ≤ maxv := by
    have := mul_le_mul_of_nonneg_right c3 hm0
    linarith
  obtain ⟨fP, hP⟩ := mul_err fS ft hr
  refine ⟨fP, ?_⟩
  rcases hP with hP | ⟨_, hP⟩
  · left
    have := Rel.trans (x := val (a.abs x)) hP hp3 u_pos.le
    exact this.mono (by unfold g3 g4 u; norm_num)
  · right
    have h1 := abs_sub_le (val (a.abs x)) (val a.scale * val (x + a.bias)) (a.map (val x))
    have h2 : |val a.scale * val (x + a.bias) - a.map (val x)| ≤ g3 * |a.map (val x)| := hp3
    have hP' : |val (a.abs x) - val a.scale * val (x + a.bias)| ≤ u * minN := hP
    linarith

/-- **`absX_err`** (strong form): a mapped coordinate is finite and within RELATIVE error
    `g4 = (1+u)³/(1−u) − 1 ≤ 4u + 8u²` of its exact image `s·(x − lo)` — up to `u·2^-126 = 2^-150` when the
    product underflows.  No cancellation: `x` and `bias = −lo` are exact inputs of the one addition. -/
theorem abs_err {a : Axis} (h : a.InRange) {x : F32} (hx : a.CoordOK x) :
    Fn (a.abs x) ∧ |val (a.abs x) - a.map (val x)| ≤ g4 * |a.map (val x)| + u * minN := by
  obtain ⟨f, hc⟩ := abs_err_cases h hx
  refine ⟨f, ?_⟩
  have hm0 : 0 ≤ |a.map (val x)| := abs_nonneg _
  have hmn := mul_nonneg u_pos.le minN_pos.le
  rcases hc with hc | hc
  · have : |val (a.abs x) - a.map (val x)| ≤ g4 * |a.map (val x)| := hc
    linarith
  · have : g3 ≤ g4 := by unfold g3 g4 u; norm_num
    have := mul_le_mul_of_nonneg_right this hm0
    linarith

theorem map_le (a : Axis) (x : ℚ) : |a.map x| ≤ |a.s| * (|x| + |val a.lo|) := by
  unfold map
  rw [abs_mul]
  refine mul_le_mul_of_nonneg_left ?_ (abs_nonneg _)
  have := abs_sub x (val a.lo)
  exact this

/-- **`absX_err`** (the form with the magnitudes of the operands): if the mapped magnitude
    `|s|·(|x| + |lo|)` is not below the normal range, the absolute error is at most `5u` times it -/
theorem abs_err_mag {a : Axis} (h : a.InRange) {x : F32} (hx : a.CoordOK x)
    (hn : minN ≤ |a.s| * (|val x| + |val a.lo|)) :
    |val (a.abs x) - a.map (val x)| ≤ 5 * u * (|a.s| * (|val x| + |val a.lo|)) := by
  obtain ⟨_, hc⟩ := abs_err_cases h hx
  have hml := map_le a (val x)
  have hm0 : 0 ≤ |a.map (val x)| := abs_nonneg _
  rcases hc with hc | hc
  · have h1 : |val (a.abs x) - a.map (val x)| ≤ g4 * |a.map (val x)| := hc
    have h2 := mul_le_mul_of_nonneg_right g4_le5 hm0
    have h3 := mul_le_mul_of_nonneg_left hml (by unfold u; norm_num : (0:ℚ) ≤ 5 * u)
    linarith
  · have h2 := mul_le_mul_of_nonneg_left hml g3_pos.le
    have h3 := mul_le_mul_of_nonneg_left hn u_pos.le
    have c : g3 + u ≤ 5 * u := by unfold g3 u; norm_num
    have h4 := mul_le_mul_of_nonneg_right c (le_trans hm0 hml)
    linarith

/-! ### `relVecX` -/

theorem relVec_err_cases {a : Axis} (h : a.InRange) {pen x : F32} (hx : a.OffOK pen x) :
    Fn (a.relVec pen x) ∧
    (|val (a.relVec pen x) - (val pen + a.s * val x)| ≤ u * |val pen| + g4 * |a.s * val x| ∨
     |val (a.relVec pen x) - (val pen + a.s * val x)| ≤
       u * |val pen| + g3 * |a.s * val x| + (u + u * u) * minN) := by
  obtain ⟨fS, hS⟩ := scale_err h
  have hp : Rel (g2 + 0 + g2 * 0) (val a.scale * val x) (a.s * val x) := Rel.mul hS (Rel.refl _) g2_pos.le
  have hp2 : Rel g2 (val a.scale * val x) (a.s * val x) := hp.mono (by simp)
  have hple := hp2.abs_le
  have hsum := hx.hsum
  have hMp := maxv_pos
  have hmN := minN_pos
  have hmM := minN_le_maxv
  have hpen0 : 0 ≤ |val pen| := abs_nonneg _
  have hm0 : 0 ≤ |a.s * val x| := abs_nonneg _
  have c2 : 1 + g2 ≤ 3 / 2 := by unfold g2 u; norm_num
  have c2' := mul_le_mul_of_nonneg_right c2 hm0
  obtain ⟨fr, hr⟩ := mul_err fS hx.fx (by linarith)
  have hu : u ≤ 1 / 4 := by unfold u; norm_num
  have hu0 := u_pos
  -- the rounded product against the exact one, and its size
  have key : (|val (a.rel x) - a.s * val x| ≤ g3 * |a.s * val x| ∧ |val (a.rel x)| ≤ (1 + g3) * |a.s * val x|) ∨
      (|val (a.rel x) - a.s * val x| ≤ g2 * |a.s * val x| + u * minN ∧
       |val (a.rel x)| ≤ (1 + g2) * |a.s * val x| + u * minN) := by
    rcases hr with hr | ⟨_, hr⟩
    · left
      have := (Rel.trans (x := val (a.rel x)) hr hp2 u_pos.le).mono
        (by unfold g2 g3 u; norm_num : u + g2 + u * g2 ≤ g3)
      exact ⟨this, this.abs_le⟩
    · right
      have h1 := abs_sub_le (val (a.rel x)) (val a.scale * val x) (a.s * val x)
      have h2 : |val a.scale * val x - a.s * val x| ≤ g2 * |a.s * val x| := hp2
      have hr' : |val (a.rel x) - val a.scale * val x| ≤ u * minN := hr
      have h3 : |val (a.rel x) - a.s * val x| ≤ g2 * |a.s * val x| + u * minN := by linarith
      refine ⟨h3, ?_⟩
      have := abs_sub_abs_le_abs_sub (val (a.rel x)) (a.s * val x)
      linarith
  have c3 : 1 + g3 ≤ 3 / 2 := by unfold g3 u; norm_num
  have c3' := mul_le_mul_of_nonneg_right c3 hm0
  have hum : u * minN ≤ minN / 4 := by nlinarith
  have hrsz : |val (a.rel x)| ≤ 3 / 2 * |a.s * val x| + minN / 4 := by
    rcases key with ⟨_, k⟩ | ⟨_, k⟩ <;> linarith
  have hadd : |val pen + val (a.rel x)| ≤ maxv := by
    have := abs_add_le (val pen) (val (a.rel x))
    linarith
  obtain ⟨fR, hR⟩ := add_err hx.fpen fr hadd
  refine ⟨fR, ?_⟩
  have hR' : |val (a.relVec pen x) - (val pen + val (a.rel x))| ≤ u * |val pen + val (a.rel x)| := hR
  have htri := abs_add_le (val pen) (val (a.rel x))
  have hsplit := abs_sub_le (val (a.relVec pen x)) (val pen + val (a.rel x)) (val pen + a.s * val x)
  have hcancel : val pen + val (a.rel x) - (val pen + a.s * val x) = val (a.rel x) - a.s * val x := by ring
  rw [hcancel] at hsplit
  have hu1 := mul_le_mul_of_nonneg_left htri u_pos.le
  rcases key with ⟨k1, k2⟩ | ⟨k1, k2⟩
  · left
    have hu2 := mul_le_mul_of_nonneg_left k2 u_pos.le
    have c : u * (1 + g3) + g3 ≤ g4 := by unfold g3 g4 u; norm_num
    have := mul_le_mul_of_nonneg_right c hm0
    nlinarith
  · right
    have hu2 := mul_le_mul_of_nonneg_left k2 u_pos.le
    have c : u * (1 + g2) + g2 ≤ g3 := by unfold g2 g3 u; norm_num
    have := mul_le_mul_of_nonneg_right c hm0
    nlinarith

/-- **`relVec_err`**: a relative operation adds the rounded `scale·x` to the (float) pen: against
    `pen + s·x` with the ACTUAL pen and the EXACT scale the error is at most
    `u·|pen| + g4·|s·x| + 2u·2^-126`, `g4 ≤ 4u + 8u²` -/
theorem relVec_err {a : Axis} (h : a.InRange) {pen x : F32} (hx : a.OffOK pen x) :
    Fn (a.relVec pen x) ∧
    |val (a.relVec pen x) - (val pen + a.s * val x)| ≤ u * |val pen| + g4 * |a.s * val x| + 2 * u * minN := by
  obtain ⟨f, hc⟩ := relVec_err_cases h hx
  refine ⟨f, ?_⟩
  have hm0 : 0 ≤ |a.s * val x| := abs_nonneg _
  have hmN := minN_pos
  have hu0 := u_pos
  have hu : u ≤ 1 := by unfold u; norm_num
  have huu : u * u ≤ u := by unfold u; norm_num
  have huu' := mul_le_mul_of_nonneg_right huu hmN.le
  have hum : 0 ≤ u * minN := mul_nonneg hu0.le hmN.le
  rcases hc with hc | hc
  · linarith
  · have : g3 ≤ g4 := by unfold g3 g4 u; norm_num
    have := mul_le_mul_of_nonneg_right this hm0
    linarith

/-- … in the form with the magnitudes: at most `5u·(|pen| + |s|·|x|)` when that magnitude is not below the
    normal range -/
theorem relVec_err_mag {a : Axis} (h : a.InRange) {pen x : F32} (hx : a.OffOK pen x)
    (hn : minN ≤ |val pen| + |a.s| * |val x|) :
    |val (a.relVec pen x) - (val pen + a.s * val x)| ≤ 5 * u * (|val pen| + |a.s| * |val x|) := by
  obtain ⟨_, hc⟩ := relVec_err_cases h hx
  rw [← abs_mul] at hn ⊢
  have hm0 : 0 ≤ |a.s * val x| := abs_nonneg _
  have hp0 : 0 ≤ |val pen| := abs_nonneg _
  have hu0 := u_pos
  rcases hc with hc | hc
  · have := mul_le_mul_of_nonneg_right g4_le5 hm0
    nlinarith
  · have c : g3 + (u + u * u) ≤ 5 * u := by unfold g3 u; norm_num
    have c' := mul_le_mul_of_nonneg_right c hm0
    have h3 := mul_le_mul_of_nonneg_left hn (by positivity : (0:ℚ) ≤ u + u * u)
    have c'' : u + (u + u * u) ≤ 5 * u := by unfold u; norm_num
    have c3 := mul_le_mul_of_nonneg_right c'' hp0
    nlinarith

/-! ### the smooth control point `2·pen − prev` -/

theorem two_val : Fn (Ren.two : F32) ∧ val (Ren.two : F32) = 2 := by
  have h := FloatRound32.ofInt_F32_exact 2 (by decide)
  refine ⟨h.1, ?_⟩
  show val (F32.ofInt 2) = 2
  rw [h.2]; norm_num

/-- the double of a float below the overflow threshold is a float -/
theorem double_repr (b : Nat) (fb : FinB b) (h : |2 * bval b| ≤ maxv) :
    ∃ c : Nat, c < 4294967296 ∧ FinB c ∧ bval c = 2 * bval b := by
  have hm := mantB_lt b
  have he := expB_ge b
  have he2 := expB_le b fb
  have hL : bitLen (mantB b) ≤ 24 := bitLen_le (k := 24) (by omega)
  have hv : bval b = sval (negB32 b) (mantB b) (expB b) := rfl
  have hhi : expB b + 1 + bitLen (mantB b) ≤ 128 := by
    by_contra hc
    have e104 : expB b = 104 := by omega
    have hn : 8388608 ≤ mantB b := by rcases mantB_norm b with h1 | h1 <;> omega
    have hq : (8388608 : ℚ) ≤ (mantB b : ℚ) := by exact_mod_cast hn
    have hp := pow2_pos 104
    have habs : |2 * bval b| = 2 * ((mantB b : ℚ) * pow2 104) := by
      rw [hv, e104]; unfold sval
      cases negB32 b
      · simp only [Bool.false_eq_true, if_false, one_mul]
        rw [abs_of_nonneg (by positivity)]
      · simp only [if_true]
        rw [show (2 : ℚ) * (-1 * ((mantB b : ℚ) * pow2 104)) = -(2 * ((mantB b : ℚ) * pow2 104)) by ring,
          abs_neg, abs_of_nonneg (by positivity)]
    rw [habs] at h
    unfold maxv at h
    nlinarith
  obtain ⟨r1, _, r3, r4⟩ := FloatRound32.roundPack_exact (negB32 b) (mantB b) (expB b + 1) hm (by omega) hhi
  refine ⟨_, r4, r1, ?_⟩
  rw [r3, hv]; unfold sval
  rw [FloatErr.pow2_succ]; ring

/-- the doubling `2·pen` is exact -/
theorem two_mul_exact {p : F32} (fp : Fn p) (h : |2 * val p| ≤ maxv) :
    Fn (Ren.two * p) ∧ val (Ren.two * p) = 2 * val p := by
  obtain ⟨f2, v2⟩ := two_val
  have hr := mul_nb f2 fp
  rw [v2] at hr
  obtain ⟨c, hc, fc, vc⟩ := double_repr p.nb fp h
  exact ⟨Rnd_fin _ _ hr h, Rnd_repr _ _ c hr hc fc vc⟩

/-- **`smooth_err`**: the reflected control point `2·pen − prev` is computed with ONE rounding (the
    doubling is exact): relative error `u` of the exact reflection of the two float points -/
theorem smooth_err {pen prev : F32} (fp : Fn pen) (fq : Fn prev) (h2 : |2 * val pen| ≤ maxv)
    (hr : |2 * val pen - val prev| ≤ maxv) :
    Fn (smooth pen prev) ∧
    |val (smooth pen prev) - (2 * val pen - val prev)| ≤ u * |2 * val pen - val prev| := by
  obtain ⟨f2, v2⟩ := two_mul_exact fp h2
  have := sub_err f2 fq (by rw [v2]; exact hr)
  rw [v2] at this
  exact this

/-- … hence, if the pen and the previous control point are within `ep`, `eq` of exact points `P`, `Q`, the
    smooth point is within `u·|2·pen − prev| + 2·ep + eq` of the exact reflection `2P − Q` -/
theorem smooth_err_of {pen prev : F32} {P Q ep eq : ℚ} (fp : Fn pen) (fq : Fn prev)
    (h2 : |2 * val pen| ≤ maxv) (hr : |2 * val pen - val prev| ≤ maxv)
    (hP : |val pen - P| ≤ ep) (hQ : |val prev - Q| ≤ eq) :
    |val (smooth pen prev) - (2 * P - Q)| ≤ u * |2 * val pen - val prev| + 2 * ep + eq := by
  obtain ⟨_, h⟩ := smooth_err fp fq h2 hr
  have h1 := abs_sub_le (val (smooth pen prev)) (2 * val pen - val prev) (2 * P - Q)
  have e : 2 * val pen - val prev - (2 * P - Q) = 2 * (val pen - P) - (val prev - Q) := by ring
  have h3 := abs_sub (2 * (val pen - P)) (val prev - Q)
  have h4 : |2 * (val pen - P)| = 2 * |val pen - P| := by rw [abs_mul]; norm_num
  rw [e] at h1
  linarith

/-! ### a simple sufficient condition for the range hypotheses -/

theorem minN_le_small : minN ≤ 1 / 4398046511104 := by
  unfold minN
  calc pow2 (-126) ≤ pow2 (-42) := pow2_mono (by omega)
    _ = 1 / 4398046511104 := by unfold pow2; norm_num

theorem maxv_ge_big : 1329227995784915872903807060280344576 ≤ maxv := by
  unfold maxv
  have h : pow2 120 ≤ 16777215 * pow2 104 := by
    calc pow2 120 = pow2 16 * pow2 104 := by rw [← pow2_add]; rfl
      _ = 65536 * pow2 104 := by congr 1
      _ ≤ 16777215 * pow2 104 := by have := pow2_pos 104; linarith
  have : pow2 120 = 1329227995784915872903807060280344576 := by unfold pow2; norm_num
  linarith

/-- **a simple sufficient condition**: viewBox bounds in `[−2^20, 2^20]`, extent at least `2^-20`, target
    side in `[1, 2^15]` -/
structure Simple (a : Axis) : Prop where
  flo : Fn a.lo
  fhi : Fn a.hi
  lo_rng : |val a.lo| ≤ 1048576
  hi_rng : |val a.hi| ≤ 1048576
  ext_ge : 1 / 1048576 ≤ a.ext
  d_ge : 1 ≤ a.d
  d_le : a.d ≤ 32768

/-- under `Simple` the exact scale lies in `[2^-21, 2^35]` -/
theorem Simple.s_bounds {a : Axis} (h : a.Simple) : 1 / 2097152 ≤ a.s ∧ a.s ≤ 34359738368 := by
  have hlo := abs_le.1 h.lo_rng
  have hhi := abs_le.1 h.hi_rng
  have he := h.ext_ge
  have hep : 0 < a.ext := by linarith
  have heu : a.ext ≤ 2097152 := by unfold ext at *; linarith
  have d1 : (1 : ℚ) ≤ a.d := by exact_mod_cast h.d_ge
  have d2 : (a.d : ℚ) ≤ 32768 := by exact_mod_cast h.d_le
  unfold s
  constructor
  · rw [le_div_iff₀ hep]; linarith
  · rw [div_le_iff₀ hep]; nlinarith

theorem Simple.inRange {a : Axis} (h : a.Simple) : a.InRange := by
  obtain ⟨s1, s2⟩ := h.s_bounds
  have hlo := abs_le.1 h.lo_rng
  have hhi := abs_le.1 h.hi_rng
  have he := h.ext_ge
  have hm := minN_le_small
  have hM := maxv_ge_big
  have hsp : 0 < a.s := by linarith
  refine ⟨h.flo, h.fhi, ?_, ?_, ?_, ?_⟩
  · have := h.d_ge; have := h.d_le; omega
  · rw [abs_of_nonneg (by linarith)]; unfold ext at *; linarith
  · rw [abs_of_pos hsp]; linarith
  · rw [abs_of_pos hsp]; linarith

/-- … every coordinate in `[−2^20, 2^20]` is in range … -/
theorem Simple.coordOK {a : Axis} (h : a.Simple) {x : F32} (fx : Fn x) (hx : |val x| ≤ 1048576) :
    a.CoordOK x := by
  obtain ⟨s1, s2⟩ := h.s_bounds
  have hlo := abs_le.1 h.lo_rng
  have hx' := abs_le.1 hx
  have hM := maxv_ge_big
  have hsp : 0 < a.s := by linarith
  have hd : |val x - val a.lo| ≤ 2097152 := abs_le.2 ⟨by linarith, by linarith⟩
  refine ⟨fx, by linarith, ?_⟩
  unfold map
  rw [abs_mul, abs_of_pos hsp]
  have := mul_le_mul s2 hd (abs_nonneg _) (by norm_num)
  linarith

/-- … and every offset in `[−2^21, 2^21]` from a pen of magnitude at most `2^57` -/
theorem Simple.offOK {a : Axis} (h : a.Simple) {pen x : F32} (fp : Fn pen) (fx : Fn x)
    (hp : |val pen| ≤ 144115188075855872) (hx : |val x| ≤ 2097152) : a.OffOK pen x := by
  obtain ⟨s1, s2⟩ := h.s_bounds
  have hM := maxv_ge_big
  have hsp : 0 < a.s := by linarith
  refine ⟨fp, fx, ?_⟩
  rw [abs_mul, abs_of_pos hsp]
  have := mul_le_mul s2 hx (abs_nonneg _) (by norm_num)
  linarith

end Axis
end Ivg.Geom32
