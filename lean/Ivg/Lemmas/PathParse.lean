import Ivg.Spec.PathData
/-!
# C20, parsing clauses — the generator's scanner on printed numerals

`Gen.scanTokenLen`, `Gen.parseDecimal`, `Gen.scanArgs` on the concrete syntax of `Ivg/Spec/PathData.lean`:
a printed numeral followed by anything that delimits it is read back as its value, and the scanner
stops exactly behind the separator run.
-/
namespace Ivg.PathParse
open Ivg Gen Spec.PathData

/-! ## characters -/

theorem isDigit_digitChar : ∀ d : Fin 10, isDigit (digitChar d) = true := by decide
theorem digitChar_val : ∀ d : Fin 10, (digitChar d).toNat - '0'.toNat = d.val := by decide
theorem digitChar_ne_dot : ∀ d : Fin 10, digitChar d ≠ '.' := by decide
theorem digitChar_ne_minus : ∀ d : Fin 10, digitChar d ≠ '-' := by decide
theorem digitChar_ne_plus : ∀ d : Fin 10, digitChar d ≠ '+' := by decide
theorem digitChar_not_sep : ∀ d : Fin 10, isSep (digitChar d) = false := by decide
theorem digitChar_not_verb : ∀ d : Fin 10, verbArgCount (digitChar d) = none := by decide
theorem digitChar_ne_z : ∀ d : Fin 10, digitChar d ≠ 'z' := by decide

theorem isDigit_of_mem_map {l : List (Fin 10)} : ∀ a ∈ l.map digitChar, isDigit a = true := by
  intro a ha
  obtain ⟨d, _, rfl⟩ := List.mem_map.mp ha
  exact isDigit_digitChar d

theorem sep_not_digit {c : Char} (h : isSep c = true) : isDigit c = false ∧ c ≠ '.' := by
  simp only [isSep, decide_eq_true_eq] at h
  rcases h with rfl | rfl <;> decide

/-! ## `scanTokenLen` -/

theorem scanLen_digits (nd j : Nat) (ds : List (Fin 10)) (Y : List Char) :
    scanTokenLen nd j (ds.map digitChar ++ Y) = scanTokenLen nd (j + ds.length) Y := by
  induction ds generalizing j with
  | nil => simp
  | cons d ds ih =>
    simp only [List.map_cons, List.cons_append, scanTokenLen, isDigit_digitChar, ↓reduceIte, List.length_cons]
    rw [ih]; congr 1; omega

theorem scanLen_stop (nd j : Nat) (x : Char) (Y : List Char) (hd : isDigit x = false)
    (hdot : x = '.' → nd ≠ 0) : scanTokenLen nd j (x :: Y) = some j := by
  simp only [scanTokenLen, hd, Bool.false_eq_true, ↓reduceIte]
  split
  · rename_i h
    have := hdot h
    rw [if_neg (by omega)]
  · rfl

theorem scanLen_dot (j : Nat) (Y : List Char) :
    scanTokenLen 0 j ('.' :: Y) = scanTokenLen 1 (j + 1) Y := by
  simp [scanTokenLen, show isDigit '.' = false by decide]

/-- the fraction part of a printed numeral -/
def fracR (t : Tok) : List Char :=
  match t.frac with
  | none => []
  | some f => '.' :: f.map digitChar

theorem render_eq (t : Tok) : t.render = t.sign.render ++ t.int.map digitChar ++ fracR t := rfl

/-- a character that ends numeral `t` when it follows directly -/
def Stops (t : Tok) (x : Char) : Prop := isDigit x = false ∧ (x = '.' → t.hasDot = true)

/-- scanning digits, optional point, digits from "no point seen" -/
theorem scanLen_body (t : Tok) (j : Nat) (x : Char) (X : List Char) (hx : Stops t x) :
    scanTokenLen 0 j (t.int.map digitChar ++ fracR t ++ x :: X) =
      some (j + t.int.length + (fracR t).length) := by
  rw [List.append_assoc, scanLen_digits]
  unfold fracR
  cases hf : t.frac with
  | none =>
    simp only [List.nil_append, List.length_nil, Nat.add_zero]
    apply scanLen_stop _ _ _ _ hx.1
    intro h; have := hx.2 h; simp [Tok.hasDot, hf] at this
  | some f =>
    simp only [List.cons_append, List.length_cons, List.length_map]
    rw [scanLen_dot, scanLen_digits, scanLen_stop _ _ _ _ hx.1 (fun _ => by omega)]
    congr 1; omega

/-- the head of a printed numeral and the token length the scanner finds -/
theorem scan_tok_len (t : Tok) (hok : t.ok = true) (x : Char) (X : List Char) (hx : Stops t x) :
    ∃ c0 tl, t.render = c0 :: tl ∧
      scanTokenLen (if c0 = '.' then 1 else 0) 1 (tl ++ x :: X) = some t.render.length := by
  rw [render_eq]
  cases hs : t.sign with
  | minus =>
    refine ⟨'-', t.int.map digitChar ++ fracR t, by simp [Sign.render], ?_⟩
    rw [if_neg (by decide), scanLen_body t 1 x X hx]
    simp [Sign.render]; omega
  | plus =>
    refine ⟨'+', t.int.map digitChar ++ fracR t, by simp [Sign.render], ?_⟩
    rw [if_neg (by decide), scanLen_body t 1 x X hx]
    simp [Sign.render]; omega
  | none =>
    cases hi : t.int with
    | cons d ds =>
      refine ⟨digitChar d, ds.map digitChar ++ fracR t, by simp [Sign.render], ?_⟩
      rw [if_neg (digitChar_ne_dot d), List.append_assoc, scanLen_digits]
      have := scanLen_body t (1 + ds.length) x X hx
      rw [hi] at this
      simp only [List.map_nil, List.nil_append, List.map_cons, List.cons_append] at this
      -- redo directly: after the digits comes the fraction part
      unfold fracR at *
      cases hf : t.frac with
      | none =>
        simp only [List.nil_append, Sign.render, List.length_append, List.length_cons, List.length_map,
          List.length_nil]
        rw [scanLen_stop _ _ _ _ hx.1]
        · congr 1; omega
        · intro h; have := hx.2 h; simp [Tok.hasDot, hf] at this
      | some f =>
        simp only [List.cons_append, Sign.render, List.length_append, List.length_cons, List.length_map,
          List.length_nil]
        rw [scanLen_dot, scanLen_digits, scanLen_stop _ _ _ _ hx.1 (fun _ => by omega)]
        congr 1; omega
    | nil =>
      unfold fracR
      cases hf : t.frac with
      | none => simp [Tok.ok, Tok.fracDigits, hi, hf] at hok
      | some f =>
        refine ⟨'.', f.map digitChar, by simp [Sign.render], ?_⟩
        rw [if_pos rfl, scanLen_digits, scanLen_stop _ _ _ _ hx.1 (fun _ => by omega)]
        simp [Sign.render]; omega

/-! ## `parseDecimal` -/

theorem foldl_digits (ds : List (Fin 10)) :
    (ds.map digitChar).foldl (fun acc c => acc * 10 + (c.toNat - '0'.toNat)) 0 = natOfDigits ds := by
  rw [List.foldl_map]; unfold natOfDigits
  congr 1; funext acc d; rw [digitChar_val]

/-- the unsigned part -/
theorem parse_body (t : Tok) (hok : t.ok = true) (neg : Bool) :
    (let rest := t.int.map digitChar ++ fracR t
     let intPart := rest.takeWhile isDigit
     let rest' := rest.dropWhile isDigit
     let (frac, tail, hadDot) := match rest' with
       | '.' :: r => (r.takeWhile isDigit, r.dropWhile isDigit, true)
       | r => ([], r, false)
     if tail ≠ [] ∨ (intPart = [] ∧ frac = []) then none else
     let _ := hadDot
     let digits := intPart ++ frac
     let n := digits.foldl (fun acc c => acc * 10 + (c.toNat - '0'.toNat)) 0
     some (neg, n, frac.length)) =
    some (neg, natOfDigits (t.int ++ t.fracDigits), t.fracDigits.length) := by
  have htw : (t.int.map digitChar ++ fracR t).takeWhile isDigit = t.int.map digitChar := by
    rw [List.takeWhile_append_of_pos isDigit_of_mem_map]
    unfold fracR; cases t.frac <;> simp [List.takeWhile_cons, show isDigit '.' = false by decide]
  have hdw : (t.int.map digitChar ++ fracR t).dropWhile isDigit = fracR t := by
    rw [List.dropWhile_append_of_pos isDigit_of_mem_map]
    unfold fracR; cases t.frac <;> simp [List.dropWhile_cons, show isDigit '.' = false by decide]
  simp only [htw, hdw]
  unfold fracR
  cases hf : t.frac with
  | none =>
    have hi : t.int ≠ [] := by
      intro h; simp [Tok.ok, Tok.fracDigits, h, hf] at hok
    simp [Tok.fracDigits, hf, hi, foldl_digits]
  | some f =>
    have htw2 : (f.map digitChar).takeWhile isDigit = f.map digitChar := by
      have := List.takeWhile_append_of_pos (l₂ := []) (isDigit_of_mem_map (l := f))
      simpa using this
    have hdw2 : (f.map digitChar).dropWhile isDigit = [] := by
      have := List.dropWhile_append_of_pos (l₂ := []) (isDigit_of_mem_map (l := f))
      simpa using this
    have hne : ¬ (t.int = [] ∧ f = []) := by
      intro ⟨h1, h2⟩; simp [Tok.ok, Tok.fracDigits, h1, h2, hf] at hok
    simp only [htw2, hdw2, Tok.fracDigits, hf, Option.getD_some, List.length_map]
    rw [if_neg]
    · rw [← List.map_append, foldl_digits]
    · simpa using hne

theorem parse_render (t : Tok) (hok : t.ok = true) :
    parseDecimal t.render = some (t.sign == .minus, natOfDigits (t.int ++ t.fracDigits), t.fracDigits.length) := by
  rw [render_eq]
  cases hs : t.sign with
  | minus =>
    simp only [Sign.render, List.cons_append, List.nil_append, parseDecimal]
    exact parse_body t hok true
  | plus =>
    simp only [Sign.render, List.cons_append, List.nil_append, parseDecimal]
    exact parse_body t hok false
  | none =>
    have key : ∀ r : List Char, r.head? ≠ some '-' → r.head? ≠ some '+' →
        (match r with
          | '-' :: r => (true, r)
          | '+' :: r => (false, r)
          | r => (false, r)) = (false, r) := by
      intro r h1 h2
      split
      · simp at h1
      · simp at h2
      · rfl
    have hh1 : (t.int.map digitChar ++ fracR t).head? ≠ some '-' := by
      unfold fracR
      cases hi : t.int with
      | cons d ds => simpa using digitChar_ne_minus d
      | nil => cases hf : t.frac <;> simp
    have hh2 : (t.int.map digitChar ++ fracR t).head? ≠ some '+' := by
      unfold fracR
      cases hi : t.int with
      | cons d ds => simpa using digitChar_ne_plus d
      | nil => cases hf : t.frac <;> simp
    simp only [Sign.render, List.nil_append, parseDecimal]
    rw [key _ hh1 hh2]
    exact parse_body t hok false

end Ivg.PathParse
