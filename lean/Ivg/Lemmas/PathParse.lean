import Ivg.Spec.PathData
/-!
# C20, parsing clauses — the generator's scanner on printed numerals

`Gen.scanTokenLen`, `Gen.parseDecimal`, `Gen.scanArgs` on the concrete syntax of `Ivg/Spec/PathData.lean`:
a printed numeral followed by anything that delimits it is read back as its value, and the scanner
stops exactly behind the separator run.
-/
namespace Ivg.PathParse
open Ivg Gen Spec.PathData

/-! ## characters -/

theorem isDigit_digitChar : ∀ d : Fin 10, isDigit (digitChar d) = true := by decide
theorem digitChar_val : ∀ d : Fin 10, (digitChar d).toNat - '0'.toNat = d.val := by decide
theorem digitChar_ne_dot : ∀ d : Fin 10, digitChar d ≠ '.' := by decide
theorem digitChar_ne_minus : ∀ d : Fin 10, digitChar d ≠ '-' := by decide
theorem digitChar_ne_plus : ∀ d : Fin 10, digitChar d ≠ '+' := by decide
theorem digitChar_not_sep : ∀ d : Fin 10, isSep (digitChar d) = false := by decide
theorem digitChar_not_verb : ∀ d : Fin 10, verbArgCount (digitChar d) = none := by decide
theorem digitChar_ne_z : ∀ d : Fin 10, digitChar d ≠ 'z' := by decide

theorem isDigit_of_mem_map {l : List (Fin 10)} : ∀ a ∈ l.map digitChar, isDigit a = true := by
  intro a ha
  obtain ⟨d, _, rfl⟩ := List.mem_map.mp ha
  exact isDigit_digitChar d

theorem sep_not_digit {c : Char} (h : isSep c = true) : isDigit c = false ∧ c ≠ '.' := by
  simp only [isSep, decide_eq_true_eq] at h
  rcases h with rfl | rfl <;> decide

/-! ## `scanTokenLen` -/

theorem scanLen_digits (nd j : Nat) (ds : List (Fin 10)) (Y : List Char) :
    scanTokenLen nd j (ds.map digitChar ++ Y) = scanTokenLen nd (j + ds.length) Y := by
  induction ds generalizing j with
  | nil => simp
  | cons d ds ih =>
    simp only [List.map_cons, List.cons_append, scanTokenLen, isDigit_digitChar, ↓reduceIte, List.length_cons]
    rw [ih]; congr 1; omega

theorem scanLen_stop (nd j : Nat) (x : Char) (Y : List Char) (hd : isDigit x = false)
    (hdot : x = '.' → nd ≠ 0) : scanTokenLen nd j (x :: Y) = some j := by
  simp only [scanTokenLen, hd, Bool.false_eq_true, ↓reduceIte]
  split
  · rename_i h
    have := hdot h
    rw [if_neg (by omega)]
  · rfl

theorem scanLen_dot (j : Nat) (Y : List Char) :
    scanTokenLen 0 j ('.' :: Y) = scanTokenLen 1 (j + 1) Y := by
  simp [scanTokenLen, show isDigit '.' = false by decide]

/-- the fraction part of a printed numeral -/
def fracR (t : Tok) : List Char :=
  match t.frac with
  | none => []
  | some f => '.' :: f.map digitChar

theorem render_eq (t : Tok) : t.render = t.sign.render ++ t.int.map digitChar ++ fracR t := rfl

/-- a character that ends numeral `t` when it follows directly -/
def Stops (t : Tok) (x : Char) : Prop := isDigit x = false ∧ (x = '.' → t.hasDot = true)

/-- scanning digits, optional point, digits from "no point seen" -/
theorem scanLen_body (t : Tok) (j : Nat) (x : Char) (X : List Char) (hx : Stops t x) :
    scanTokenLen 0 j (t.int.map digitChar ++ fracR t ++ x :: X) =
      some (j + t.int.length + (fracR t).length) := by
  rw [List.append_assoc, scanLen_digits]
  unfold fracR
  cases hf : t.frac with
  | none =>
    simp only [List.nil_append, List.length_nil, Nat.add_zero]
    apply scanLen_stop _ _ _ _ hx.1
    intro h; have := hx.2 h; simp [Tok.hasDot, hf] at this
  | some f =>
    simp only [List.cons_append, List.length_cons, List.length_map]
    rw [scanLen_dot, scanLen_digits, scanLen_stop _ _ _ _ hx.1 (fun _ => by omega)]
    congr 1; omega

/-- the head of a printed numeral and the token length the scanner finds -/
theorem scan_tok_len (t : Tok) (hok : t.ok = true) (x : Char) (X : List Char) (hx : Stops t x) :
    ∃ c0 tl, t.render = c0 :: tl ∧
      scanTokenLen (if c0 = '.' then 1 else 0) 1 (tl ++ x :: X) = some t.render.length := by
  rw [render_eq]
  cases hs : t.sign with
  | minus =>
    refine ⟨'-', t.int.map digitChar ++ fracR t, by simp [Sign.render], ?_⟩
    rw [if_neg (by decide), scanLen_body t 1 x X hx]
    simp [Sign.render]; omega
  | plus =>
    refine ⟨'+', t.int.map digitChar ++ fracR t, by simp [Sign.render], ?_⟩
    rw [if_neg (by decide), scanLen_body t 1 x X hx]
    simp [Sign.render]; omega
  | none =>
    cases hi : t.int with
    | cons d ds =>
      refine ⟨digitChar d, ds.map digitChar ++ fracR t, by simp [Sign.render], ?_⟩
      rw [if_neg (digitChar_ne_dot d), List.append_assoc, scanLen_digits]
      -- after the digits comes the fraction part
      unfold fracR
      cases hf : t.frac with
      | none =>
        simp only [List.nil_append, Sign.render, List.length_append, List.length_cons, List.length_map,
          List.length_nil]
        rw [scanLen_stop _ _ _ _ hx.1]
        · congr 1; omega
        · intro h; have := hx.2 h; simp [Tok.hasDot, hf] at this
      | some f =>
        simp only [List.cons_append, Sign.render, List.length_append, List.length_cons, List.length_map,
          List.length_nil]
        rw [scanLen_dot, scanLen_digits, scanLen_stop _ _ _ _ hx.1 (fun _ => by omega)]
        congr 1; omega
    | nil =>
      unfold fracR
      cases hf : t.frac with
      | none => simp [Tok.ok, Tok.fracDigits, hi, hf] at hok
      | some f =>
        refine ⟨'.', f.map digitChar, by simp [Sign.render], ?_⟩
        rw [if_pos rfl, scanLen_digits, scanLen_stop _ _ _ _ hx.1 (fun _ => by omega)]
        simp [Sign.render]; omega

/-! ## `parseDecimal` -/

theorem foldl_digits (ds : List (Fin 10)) :
    (ds.map digitChar).foldl (fun acc c => acc * 10 + (c.toNat - '0'.toNat)) 0 = natOfDigits ds := by
  rw [List.foldl_map]; unfold natOfDigits
  congr 1; funext acc d; rw [digitChar_val]

/-- `parseDecimal` behind the sign -/
def parseCore (neg : Bool) (rest : List Char) : Option (Bool × Nat × Nat) :=
  let intPart := rest.takeWhile isDigit
  let rest' := rest.dropWhile isDigit
  let (frac, tail, hadDot) := match rest' with
    | '.' :: r => (r.takeWhile isDigit, r.dropWhile isDigit, true)
    | r => ([], r, false)
  if tail ≠ [] ∨ (intPart = [] ∧ frac = []) then none else
  let _ := hadDot
  let digits := intPart ++ frac
  let n := digits.foldl (fun acc c => acc * 10 + (c.toNat - '0'.toNat)) 0
  some (neg, n, frac.length)

theorem parseDecimal_minus (r : List Char) : parseDecimal ('-' :: r) = parseCore true r := rfl
theorem parseDecimal_plus (r : List Char) : parseDecimal ('+' :: r) = parseCore false r := rfl
theorem parseDecimal_unsigned (r : List Char) (h1 : r.head? ≠ some '-') (h2 : r.head? ≠ some '+') :
    parseDecimal r = parseCore false r := by
  unfold parseDecimal
  split
  rename_i heq
  split at heq
  · simp at h1
  · simp at h2
  · cases heq; rfl

/-- the unsigned part -/
theorem parse_body (t : Tok) (hok : t.ok = true) (neg : Bool) :
    parseCore neg (t.int.map digitChar ++ fracR t) =
    some (neg, natOfDigits (t.int ++ t.fracDigits), t.fracDigits.length) := by
  have htw : (t.int.map digitChar ++ fracR t).takeWhile isDigit = t.int.map digitChar := by
    rw [List.takeWhile_append_of_pos isDigit_of_mem_map]
    unfold fracR; cases t.frac <;> simp [show isDigit '.' = false by decide]
  have hdw : (t.int.map digitChar ++ fracR t).dropWhile isDigit = fracR t := by
    rw [List.dropWhile_append_of_pos isDigit_of_mem_map]
    unfold fracR; cases t.frac <;> simp [show isDigit '.' = false by decide]
  unfold parseCore
  simp only [htw, hdw]
  unfold fracR
  cases hf : t.frac with
  | none =>
    have hi : t.int ≠ [] := by
      intro h; simp [Tok.ok, Tok.fracDigits, h, hf] at hok
    simp [Tok.fracDigits, hf, hi]
    exact foldl_digits _
  | some f =>
    have htw2 : (f.map digitChar).takeWhile isDigit = f.map digitChar := by
      have := List.takeWhile_append_of_pos (l₂ := []) (isDigit_of_mem_map (l := f))
      simpa using this
    have hdw2 : (f.map digitChar).dropWhile isDigit = [] := by
      have := List.dropWhile_append_of_pos (l₂ := []) (isDigit_of_mem_map (l := f))
      simpa using this
    have hne : ¬ (t.int = [] ∧ f = []) := by
      intro ⟨h1, h2⟩; simp [Tok.ok, Tok.fracDigits, h1, h2, hf] at hok
    simp only [htw2, hdw2, Tok.fracDigits, hf, Option.getD_some, List.length_map]
    rw [if_neg]
    · rw [← List.map_append, foldl_digits]
    · simpa using hne

theorem parse_render (t : Tok) (hok : t.ok = true) :
    parseDecimal t.render = some (t.sign == .minus, natOfDigits (t.int ++ t.fracDigits), t.fracDigits.length) := by
  rw [render_eq]
  cases hs : t.sign with
  | minus =>
    simp only [Sign.render, List.cons_append, List.nil_append, parseDecimal_minus]
    exact parse_body t hok true
  | plus =>
    simp only [Sign.render, List.cons_append, List.nil_append, parseDecimal_plus]
    exact parse_body t hok false
  | none =>
    have hh1 : (t.int.map digitChar ++ fracR t).head? ≠ some '-' := by
      unfold fracR
      cases hi : t.int with
      | cons d ds => simpa using digitChar_ne_minus d
      | nil => cases hf : t.frac <;> simp
    have hh2 : (t.int.map digitChar ++ fracR t).head? ≠ some '+' := by
      unfold fracR
      cases hi : t.int with
      | cons d ds => simpa using digitChar_ne_plus d
      | nil => cases hf : t.frac <;> simp
    simp only [Sign.render, List.nil_append]
    rw [parseDecimal_unsigned _ hh1 hh2]
    exact parse_body t hok false

/-! ## `scanArgs` -/

theorem sepFun_eq : (fun c : Char => decide (c = ' ' ∨ c = ',')) = isSep := rfl

/-- one numeral, followed by something that ends it -/
theorem scanArgs_tok {α : Type} [Arith α] (n : Nat) (t : Tok) (hok : t.ok = true) (x : Char) (X : List Char)
    (hx : Stops t x) :
    scanArgs (α := α) (n + 1) (t.render ++ x :: X) =
      (if (x :: X).dropWhile isSep = [] then .error .malformed else
        match scanArgs (α := α) n ((x :: X).dropWhile isSep) with
        | .error e => .error e
        | .ok (vs, d') => .ok (t.value :: vs, d')) := by
  obtain ⟨c0, tl, hr, hlen⟩ := scan_tok_len t hok x X hx
  have htake : (c0 :: (tl ++ x :: X)).take t.render.length = t.render := by
    rw [← List.cons_append, ← hr]; exact List.take_left' rfl
  have hdrop : (c0 :: (tl ++ x :: X)).drop t.render.length = x :: X := by
    rw [← List.cons_append, ← hr]; exact List.drop_left' rfl
  rw [hr, List.cons_append]
  simp only [scanArgs, hlen, htake, hdrop, parse_render t hok, sepFun_eq]
  rfl

/-- the first character of a printed numeral -/
theorem tok_first (t : Tok) (hok : t.ok = true) :
    ∃ w tl, t.render = w :: tl ∧ isSep w = false ∧ verbArgCount w = none ∧
      (t.sign ≠ .none → isDigit w = false ∧ w ≠ '.') ∧ (t.sign = .none → t.int = [] → w = '.') := by
  rw [render_eq]
  cases hs : t.sign with
  | minus => exact ⟨'-', _, by simp [Sign.render]; rfl, by decide, by decide, fun _ => by decide, fun h => by cases h⟩
  | plus => exact ⟨'+', _, by simp [Sign.render]; rfl, by decide, by decide, fun _ => by decide, fun h => by cases h⟩
  | none =>
    cases hi : t.int with
    | cons d ds =>
      exact ⟨digitChar d, _, by simp [Sign.render]; rfl, digitChar_not_sep d, digitChar_not_verb d,
        fun h => absurd rfl h, fun _ h => by cases h⟩
    | nil =>
      unfold fracR
      cases hf : t.frac with
      | none => simp [Tok.ok, Tok.fracDigits, hi, hf] at hok
      | some f =>
        exact ⟨'.', _, by simp [Sign.render]; rfl, by decide, by decide, fun h => absurd rfl h, fun _ _ => rfl⟩

/-- `x` delimits the numeral `t` written with its separator run -/
def Delim (t : CTok) (x : Char) : Prop := isSep x = false ∧ (t.sep ≠ [] ∨ Stops t.tok x)

/-- the character following the (printed) numerals `r`, when `x` follows them -/
def firstOf (r : List CTok) (x : Char) : Char :=
  match r.flatMap CTok.render with
  | [] => x
  | c :: _ => c

theorem firstOf_spec (r : List CTok) (x : Char) (X : List Char) :
    ∃ X', r.flatMap CTok.render ++ x :: X = firstOf r x :: X' := by
  unfold firstOf
  cases h : r.flatMap CTok.render with
  | nil => exact ⟨X, rfl⟩
  | cons c cs => exact ⟨cs ++ x :: X, rfl⟩

/-- every numeral of the list is delimited by what follows it, the last one by `x` -/
def ChainTo : List CTok → Char → Prop
  | [], _ => True
  | t :: r, x => Delim t (firstOf r x) ∧ ChainTo r x

def TokOK (t : CTok) : Prop := t.tok.ok = true ∧ t.sep.all isSep = true

theorem ctok_render_cons (t : CTok) (h : TokOK t) : ∃ w tl, t.render = w :: tl ∧ t.tok.render = w :: (tl.take (t.tok.render.length - 1)) := by
  obtain ⟨w, tl, hr, _⟩ := tok_first t.tok h.1
  refine ⟨w, tl ++ t.sep, by simp [CTok.render, hr], ?_⟩
  simp [hr]

theorem firstOf_cons (t : CTok) (r : List CTok) (x : Char) (h : TokOK t) :
    ∃ tl, t.tok.render = firstOf (t :: r) x :: tl := by
  obtain ⟨w, tl, hr, _⟩ := tok_first t.tok h.1
  refine ⟨tl, ?_⟩
  simp [firstOf, CTok.render, hr]

/-- reading a group of numerals -/
theorem scan_group {α : Type} [Arith α] (g : List CTok) (hg : ∀ t ∈ g, TokOK t) (x : Char) (X : List Char)
    (hch : ChainTo g x) (_hx : isSep x = false) :
    scanArgs (α := α) g.length (g.flatMap CTok.render ++ x :: X) =
      .ok (g.map (fun t => t.tok.value), x :: X) := by
  induction g with
  | nil => simp [scanArgs]
  | cons t r ih =>
    have ht := hg t (List.mem_cons_self)
    obtain ⟨W, hW⟩ := firstOf_spec r x X
    have hsep : ∀ a ∈ t.sep, isSep a = true := by
      have := ht.2; simpa [List.all_eq_true] using this
    have hw : isSep (firstOf r x) = false := hch.1.1
    -- what follows the numeral
    have hdrop : (t.sep ++ (firstOf r x :: W)).dropWhile isSep = firstOf r x :: W := by
      rw [List.dropWhile_append_of_pos hsep, List.dropWhile_cons, if_neg (by simp [hw])]
    have hstop : ∃ y Y, t.sep ++ (firstOf r x :: W) = y :: Y ∧ Stops t.tok y := by
      cases hs : t.sep with
      | nil =>
        refine ⟨firstOf r x, W, rfl, ?_⟩
        rcases hch.1.2 with h | h
        · exact absurd hs h
        · exact h
      | cons s ss =>
        refine ⟨s, ss ++ firstOf r x :: W, rfl, ?_⟩
        have := sep_not_digit (hsep s (by simp [hs]))
        exact ⟨this.1, fun h => absurd h this.2⟩
    obtain ⟨y, Y, hy, hstops⟩ := hstop
    have hrender : (t :: r).flatMap CTok.render ++ x :: X = t.tok.render ++ y :: Y := by
      rw [← hy, ← hW]; simp [CTok.render]
    rw [hrender, List.length_cons, scanArgs_tok _ _ ht.1 _ _ hstops, ← hy, hdrop, if_neg (by simp), ← hW,
      ih (fun t' h' => hg t' (List.mem_cons_of_mem _ h')) hch.2]
    simp

end Ivg.PathParse
