import Ivg.Lemmas.FloatMono
import Ivg.Lemmas.FloatMono32
import Mathlib.Order.WithBot
/-!
# Comparisons, negation and absolute value of the soft floats against values

`xval b : WithBot (WithTop ℚ)` is the extended value of a non-NaN pattern (`-Inf = ⊥`, `+Inf = ⊤`, finite = its
rational value, so `-0` and `+0` both have value `0`).

* `lt_iff`, `le_iff`, `eq_iff`: on non-NaN operands `Num.lt/le/eq` are `<`, `≤`, `=` of extended values;
  `lt_fin`, `le_fin`, `eq_fin`: the finite case over `ℚ`.
* `lt_nan`, `le_nan`, `eq_nan`: with a NaN operand all three comparisons are false.
* `neg_val`, `neg_bits`, `abs_val`, `abs_bits`: negation/absolute value are exact on values and only touch the
  sign bit (also of a NaN or an infinity).
Namespace `Ivg.FloatCmp` is binary64, `Ivg.FloatCmp32` (second half, the same proofs) binary32.
-/
namespace Ivg.FloatCmp
open Ivg Num FloatOrder FloatMono

/-- extended value of a non-NaN pattern -/
noncomputable def xval (b : Nat) : WithBot (WithTop ℚ) :=
  if FinB b then ((bval b : WithTop ℚ) : WithBot (WithTop ℚ))
  else if b < 9223372036854775808 then ((⊤ : WithTop ℚ) : WithBot (WithTop ℚ)) else ⊥

theorem xval_fin (b : Nat) (h : FinB b) : xval b = ((bval b : WithTop ℚ) : WithBot (WithTop ℚ)) := by
  unfold xval; rw [if_pos h]

theorem key_fin_bound (b : Nat) (hb : b < 18446744073709551616) (h : FinB b) :
    -9218868437227405312 < key b ∧ key b < 9218868437227405312 := by
  have := (magnitude_fin b h).2
  unfold key; split <;> omega

theorem key_inf (b : Nat) (hb : b < 18446744073709551616) (hn : NNB b) (h : ¬ FinB b) :
    (b < 9223372036854775808 ∧ key b = 9218868437227405312) ∨
    (¬ b < 9223372036854775808 ∧ key b = -9218868437227405312) := by
  unfold NNB at hn; unfold FinB at h; unfold key
  split <;> omega

/-- the `toOrd` key orders non-NaN patterns like their extended values -/
theorem key_le_iff_x (a b : Nat) (ha : a < 18446744073709551616) (hb : b < 18446744073709551616)
    (na : NNB a) (nb : NNB b) : key a ≤ key b ↔ xval a ≤ xval b := by
  by_cases fa : FinB a <;> by_cases fb : FinB b
  · rw [xval_fin a fa, xval_fin b fb, WithBot.coe_le_coe, WithTop.coe_le_coe]
    exact key_le_iff a b ha hb fa fb
  · have ka := key_fin_bound a ha fa
    rw [xval_fin a fa]; unfold xval; rw [if_neg fb]
    rcases key_inf b hb nb fb with ⟨h1, h2⟩ | ⟨h1, h2⟩
    · rw [if_pos h1, WithBot.coe_le_coe]
      exact ⟨fun _ => le_top, fun _ => by omega⟩
    · rw [if_neg h1]
      constructor
      · intro h; omega
      · intro h; exact absurd (le_bot_iff.1 h) (WithBot.coe_ne_bot)
  · have kb := key_fin_bound b hb fb
    rw [xval_fin b fb]; unfold xval; rw [if_neg fa]
    rcases key_inf a ha na fa with ⟨h1, h2⟩ | ⟨h1, h2⟩
    · rw [if_pos h1, WithBot.coe_le_coe]
      constructor
      · intro h; omega
      · intro h; exact absurd (top_le_iff.1 h) (WithTop.coe_ne_top)
    · rw [if_neg h1]
      exact ⟨fun _ => bot_le, fun _ => by omega⟩
  · unfold xval; rw [if_neg fa, if_neg fb]
    rcases key_inf a ha na fa with ⟨h1, h2⟩ | ⟨h1, h2⟩ <;> rcases key_inf b hb nb fb with ⟨h3, h4⟩ | ⟨h3, h4⟩
    · rw [if_pos h1, if_pos h3]; exact ⟨fun _ => le_refl _, fun _ => by omega⟩
    · rw [if_pos h1, if_neg h3]
      constructor
      · intro h; omega
      · intro h; exact absurd (le_bot_iff.1 h) (WithBot.coe_ne_bot)
    · rw [if_neg h1, if_pos h3]; exact ⟨fun _ => bot_le, fun _ => by omega⟩
    · rw [if_neg h1, if_neg h3]; exact ⟨fun _ => le_refl _, fun _ => by omega⟩

/-! ## the comparison operators -/

/-- **`≤` on non-NaN operands is `≤` of the extended values** -/
theorem le_iff (a b : Nat) (ha : a < 18446744073709551616) (hb : b < 18446744073709551616)
    (na : NNB a) (nb : NNB b) : Num.le .f64 a b = true ↔ xval a ≤ xval b := by
  rw [le_iff_key a b na nb]; exact key_le_iff_x a b ha hb na nb

/-- **`<` on non-NaN operands is `<` of the extended values** -/
theorem lt_iff (a b : Nat) (ha : a < 18446744073709551616) (hb : b < 18446744073709551616)
    (na : NNB a) (nb : NNB b) : Num.lt .f64 a b = true ↔ xval a < xval b := by
  rw [lt_iff_key a b na nb]
  have h := key_le_iff_x b a hb ha nb na
  constructor
  · intro hk; exact lt_of_not_ge (fun hc => by have := h.2 hc; omega)
  · intro hx; by_contra hc; exact absurd (h.1 (by omega)) (not_le.2 hx)

theorem eq_iff_key (a b : Nat) (na : NNB a) (nb : NNB b) : Num.eq .f64 a b = true ↔ key a = key b := by
  unfold Num.eq; rw [toOrd_eq a na, toOrd_eq b nb]; simp

/-- **`==` on non-NaN operands is equality of the extended values** (so `-0 == +0`) -/
theorem eq_iff (a b : Nat) (ha : a < 18446744073709551616) (hb : b < 18446744073709551616)
    (na : NNB a) (nb : NNB b) : Num.eq .f64 a b = true ↔ xval a = xval b := by
  rw [eq_iff_key a b na nb, le_antisymm_iff (a := xval a), ← key_le_iff_x a b ha hb na nb,
    ← key_le_iff_x b a hb ha nb na]; omega

/-- finite operands: the order of the rational values -/
theorem le_fin (a b : Nat) (ha : a < 18446744073709551616) (hb : b < 18446744073709551616)
    (fa : FinB a) (fb : FinB b) : Num.le .f64 a b = true ↔ bval a ≤ bval b := by
  rw [le_iff_key a b (FinB_NNB a fa) (FinB_NNB b fb)]; exact key_le_iff a b ha hb fa fb

theorem lt_fin (a b : Nat) (ha : a < 18446744073709551616) (hb : b < 18446744073709551616)
    (fa : FinB a) (fb : FinB b) : Num.lt .f64 a b = true ↔ bval a < bval b := by
  rw [lt_iff_key a b (FinB_NNB a fa) (FinB_NNB b fb)]; exact key_lt_iff a b ha hb fa fb

theorem eq_fin (a b : Nat) (ha : a < 18446744073709551616) (hb : b < 18446744073709551616)
    (fa : FinB a) (fb : FinB b) : Num.eq .f64 a b = true ↔ bval a = bval b := by
  rw [eq_iff_key a b (FinB_NNB a fa) (FinB_NNB b fb), le_antisymm_iff (a := bval a),
    ← key_le_iff a b ha hb fa fb, ← key_le_iff b a hb ha fb fa]; omega

/-- **a NaN operand makes every comparison false** -/
theorem lt_nan (a b : Nat) (h : ¬ NNB a ∨ ¬ NNB b) : Num.lt .f64 a b = false := by
  rcases hh : Num.lt .f64 a b with _ | _
  · rfl
  · have := lt_NNB a b hh; tauto

theorem le_nan (a b : Nat) (h : ¬ NNB a ∨ ¬ NNB b) : Num.le .f64 a b = false := by
  rcases hh : Num.le .f64 a b with _ | _
  · rfl
  · have := le_NNB a b hh; tauto

theorem eq_nan (a b : Nat) (h : ¬ NNB a ∨ ¬ NNB b) : Num.eq .f64 a b = false := by
  unfold Num.eq
  rcases h with h | h
  · rw [toOrd_nan a h]
  · rw [toOrd_nan b h]; split <;> simp_all

/-! ## negation and absolute value -/

/-- negation only flips the sign bit (of every pattern, NaN and Inf included) -/
theorem neg_bits (a : Nat) (ha : a < 18446744073709551616) :
    Num.neg .f64 a % 9223372036854775808 = a % 9223372036854775808 ∧
    Num.neg .f64 a / 9223372036854775808 = 1 - a / 9223372036854775808 ∧
    Num.neg .f64 a < 18446744073709551616 := by
  unfold Num.neg; rw [signBit_f64]; split <;> omega

/-- negation is exact -/
theorem neg_val (a : Nat) (ha : a < 18446744073709551616) (fa : FinB a) :
    FinB (Num.neg .f64 a) ∧ bval (Num.neg .f64 a) = - bval a :=
  ⟨neg_FinB a ha fa, bval_neg a ha⟩

/-- absolute value only clears the sign bit (of every pattern, NaN and Inf included) -/
theorem abs_bits (a : Nat) (_ha : a < 18446744073709551616) :
    Num.abs .f64 a % 9223372036854775808 = a % 9223372036854775808 ∧ Num.abs .f64 a < 9223372036854775808 := by
  unfold Num.abs; rw [signBit_f64]; omega

/-- absolute value is exact -/
theorem abs_val (a : Nat) (_ha : a < 18446744073709551616) (fa : FinB a) :
    FinB (Num.abs .f64 a) ∧ bval (Num.abs .f64 a) = |bval a| := by
  have hF : FinB (Num.abs .f64 a) := by
    unfold FinB at *; unfold Num.abs; rw [signBit_f64]; omega
  refine ⟨hF, ?_⟩
  have h1 : negB64 (Num.abs .f64 a) = false := by
    unfold negB64 Num.abs; rw [signBit_f64]
    have : a % 9223372036854775808 / 9223372036854775808 % 2 = 0 := by omega
    rw [this]; rfl
  have h2 : mantB (Num.abs .f64 a) = mantB a := by
    unfold mantB Num.abs; rw [signBit_f64]
    have e1 : a % 9223372036854775808 / 4503599627370496 % 2048 = a / 4503599627370496 % 2048 := by omega
    have e2 : a % 9223372036854775808 % 4503599627370496 = a % 4503599627370496 := by omega
    rw [e1, e2]
  have h3 : expB (Num.abs .f64 a) = expB a := by
    unfold expB Num.abs; rw [signBit_f64]
    have e1 : a % 9223372036854775808 / 4503599627370496 % 2048 = a / 4503599627370496 % 2048 := by omega
    rw [e1]
  unfold bval sval
  rw [h1, h2, h3]
  have hp := pow2_pos (expB a)
  have hnn : (0:ℚ) ≤ (mantB a : ℚ) * pow2 (expB a) := by positivity
  cases negB64 a
  · simp only [Bool.false_eq_true, if_false, one_mul]; rw [abs_of_nonneg hnn]
  · simp only [Bool.false_eq_true, if_false, if_true, one_mul, neg_one_mul]
    rw [abs_neg, abs_of_nonneg hnn]

/-- a NaN stays a NaN under negation and absolute value -/
theorem neg_nanB (a : Nat) (ha : a < 18446744073709551616) : NNB (Num.neg .f64 a) ↔ NNB a := by
  unfold NNB; rw [(neg_bits a ha).1]

theorem abs_nanB (a : Nat) (ha : a < 18446744073709551616) : NNB (Num.abs .f64 a) ↔ NNB a := by
  unfold NNB; rw [(abs_bits a ha).1]

/-! ## `F64` forms -/

theorem F64_lt_iff {a b : F64} (na : NN a) (nb : NN b) : a < b ↔ xval a.nb < xval b.nb :=
  lt_iff _ _ (nb_lt a) (nb_lt b) na nb
theorem F64_le_iff {a b : F64} (na : NN a) (nb : NN b) : a ≤ b ↔ xval a.nb ≤ xval b.nb :=
  le_iff _ _ (nb_lt a) (nb_lt b) na nb
theorem F64_feq_iff {a b : F64} (na : NN a) (nb : NN b) : a.feq b = true ↔ xval a.nb = xval b.nb :=
  eq_iff _ _ (nb_lt a) (nb_lt b) na nb
theorem F64_feq_fin {a b : F64} (fa : FloatMono.Fin a) (fb : FloatMono.Fin b) : a.feq b = true ↔ val a = val b :=
  eq_fin _ _ (nb_lt a) (nb_lt b) fa fb
theorem F64_cmp_nan {a b : F64} (h : NaN a ∨ NaN b) : ¬ a < b ∧ ¬ a ≤ b ∧ a.feq b = false := by
  refine ⟨?_, ?_, eq_nan _ _ h⟩
  · show ¬ Num.lt .f64 a.nb b.nb = true; rw [lt_nan _ _ h]; simp
  · show ¬ Num.le .f64 a.nb b.nb = true; rw [le_nan _ _ h]; simp
theorem F64_abs_val {a : F64} (fa : FloatMono.Fin a) : FloatMono.Fin a.abs ∧ val a.abs = |val a| := by
  unfold FloatMono.Fin val
  have : a.abs.nb = Num.abs .f64 a.nb := by rw [abs_nb]; unfold Num.abs; rw [signBit_f64]
  rw [this]; exact abs_val _ (nb_lt a) fa

-- non-vacuity: -0 == +0, -Inf < -1 < +Inf, NaN compares false, |−1.5| = 1.5, −(+Inf) = −Inf, −NaN flips the sign only
example : NNB 0x8000000000000000 ∧ NNB 0 ∧ Num.eq .f64 0x8000000000000000 0 = true := by decide +kernel
example : Num.lt .f64 0x8000000000000000 0 = false := by decide +kernel
example : Num.lt .f64 0xFFF0000000000000 0xBFF0000000000000 = true ∧
    Num.lt .f64 0xBFF0000000000000 0x7FF0000000000000 = true := by decide +kernel
example : ¬ NNB 0x7FF8000000000000 ∧ Num.le .f64 0x7FF8000000000000 0x7FF8000000000000 = false := by decide +kernel
example : Num.abs .f64 0xBFF8000000000000 = 0x3FF8000000000000 := by decide +kernel
example : Num.neg .f64 0x7FF0000000000000 = 0xFFF0000000000000 := by decide +kernel
example : Num.neg .f64 0x7FF8000000000001 = 0xFFF8000000000001 := by decide +kernel

end Ivg.FloatCmp

namespace Ivg.FloatCmp32
open Ivg Num FloatOrder32 FloatMono32

/-- extended value of a non-NaN pattern -/
noncomputable def xval (b : Nat) : WithBot (WithTop ℚ) :=
  if FinB b then ((bval b : WithTop ℚ) : WithBot (WithTop ℚ))
  else if b < 2147483648 then ((⊤ : WithTop ℚ) : WithBot (WithTop ℚ)) else ⊥

theorem xval_fin (b : Nat) (h : FinB b) : xval b = ((bval b : WithTop ℚ) : WithBot (WithTop ℚ)) := by
  unfold xval; rw [if_pos h]

theorem key_fin_bound (b : Nat) (hb : b < 4294967296) (h : FinB b) :
    -2139095040 < key b ∧ key b < 2139095040 := by
  have := (magnitude_fin b h).2
  unfold key; split <;> omega

theorem key_inf (b : Nat) (hb : b < 4294967296) (hn : NNB b) (h : ¬ FinB b) :
    (b < 2147483648 ∧ key b = 2139095040) ∨
    (¬ b < 2147483648 ∧ key b = -2139095040) := by
  unfold NNB at hn; unfold FinB at h; unfold key
  split <;> omega

/-- the `toOrd` key orders non-NaN patterns like their extended values -/
theorem key_le_iff_x (a b : Nat) (ha : a < 4294967296) (hb : b < 4294967296)
    (na : NNB a) (nb : NNB b) : key a ≤ key b ↔ xval a ≤ xval b := by
  by_cases fa : FinB a <;> by_cases fb : FinB b
  · rw [xval_fin a fa, xval_fin b fb, WithBot.coe_le_coe, WithTop.coe_le_coe]
    exact key_le_iff a b ha hb fa fb
  · have ka := key_fin_bound a ha fa
    rw [xval_fin a fa]; unfold xval; rw [if_neg fb]
    rcases key_inf b hb nb fb with ⟨h1, h2⟩ | ⟨h1, h2⟩
    · rw [if_pos h1, WithBot.coe_le_coe]
      exact ⟨fun _ => le_top, fun _ => by omega⟩
    · rw [if_neg h1]
      constructor
      · intro h; omega
      · intro h; exact absurd (le_bot_iff.1 h) (WithBot.coe_ne_bot)
  · have kb := key_fin_bound b hb fb
    rw [xval_fin b fb]; unfold xval; rw [if_neg fa]
    rcases key_inf a ha na fa with ⟨h1, h2⟩ | ⟨h1, h2⟩
    · rw [if_pos h1, WithBot.coe_le_coe]
      constructor
      · intro h; omega
      · intro h; exact absurd (top_le_iff.1 h) (WithTop.coe_ne_top)
    · rw [if_neg h1]
      exact ⟨fun _ => bot_le, fun _ => by omega⟩
  · unfold xval; rw [if_neg fa, if_neg fb]
    rcases key_inf a ha na fa with ⟨h1, h2⟩ | ⟨h1, h2⟩ <;> rcases key_inf b hb nb fb with ⟨h3, h4⟩ | ⟨h3, h4⟩
    · rw [if_pos h1, if_pos h3]; exact ⟨fun _ => le_refl _, fun _ => by omega⟩
    · rw [if_pos h1, if_neg h3]
      constructor
      · intro h; omega
      · intro h; exact absurd (le_bot_iff.1 h) (WithBot.coe_ne_bot)
    · rw [if_neg h1, if_pos h3]; exact ⟨fun _ => bot_le, fun _ => by omega⟩
    · rw [if_neg h1, if_neg h3]; exact ⟨fun _ => le_refl _, fun _ => by omega⟩

/-! ## the comparison operators -/

/-- **`≤` on non-NaN operands is `≤` of the extended values** -/
theorem le_iff (a b : Nat) (ha : a < 4294967296) (hb : b < 4294967296)
    (na : NNB a) (nb : NNB b) : Num.le .f32 a b = true ↔ xval a ≤ xval b := by
  rw [le_iff_key a b na nb]; exact key_le_iff_x a b ha hb na nb

/-- **`<` on non-NaN operands is `<` of the extended values** -/
theorem lt_iff (a b : Nat) (ha : a < 4294967296) (hb : b < 4294967296)
    (na : NNB a) (nb : NNB b) : Num.lt .f32 a b = true ↔ xval a < xval b := by
  rw [lt_iff_key a b na nb]
  have h := key_le_iff_x b a hb ha nb na
  constructor
  · intro hk; exact lt_of_not_ge (fun hc => by have := h.2 hc; omega)
  · intro hx; by_contra hc; exact absurd (h.1 (by omega)) (not_le.2 hx)

theorem eq_iff_key (a b : Nat) (na : NNB a) (nb : NNB b) : Num.eq .f32 a b = true ↔ key a = key b := by
  unfold Num.eq; rw [toOrd_eq a na, toOrd_eq b nb]; simp

/-- **`==` on non-NaN operands is equality of the extended values** (so `-0 == +0`) -/
theorem eq_iff (a b : Nat) (ha : a < 4294967296) (hb : b < 4294967296)
    (na : NNB a) (nb : NNB b) : Num.eq .f32 a b = true ↔ xval a = xval b := by
  rw [eq_iff_key a b na nb, le_antisymm_iff (a := xval a), ← key_le_iff_x a b ha hb na nb,
    ← key_le_iff_x b a hb ha nb na]; omega

/-- finite operands: the order of the rational values -/
theorem le_fin (a b : Nat) (ha : a < 4294967296) (hb : b < 4294967296)
    (fa : FinB a) (fb : FinB b) : Num.le .f32 a b = true ↔ bval a ≤ bval b := by
  rw [le_iff_key a b (FinB_NNB a fa) (FinB_NNB b fb)]; exact key_le_iff a b ha hb fa fb

theorem lt_fin (a b : Nat) (ha : a < 4294967296) (hb : b < 4294967296)
    (fa : FinB a) (fb : FinB b) : Num.lt .f32 a b = true ↔ bval a < bval b := by
  rw [lt_iff_key a b (FinB_NNB a fa) (FinB_NNB b fb)]; exact key_lt_iff a b ha hb fa fb

theorem eq_fin (a b : Nat) (ha : a < 4294967296) (hb : b < 4294967296)
    (fa : FinB a) (fb : FinB b) : Num.eq .f32 a b = true ↔ bval a = bval b := by
  rw [eq_iff_key a b (FinB_NNB a fa) (FinB_NNB b fb), le_antisymm_iff (a := bval a),
    ← key_le_iff a b ha hb fa fb, ← key_le_iff b a hb ha fb fa]; omega

/-- **a NaN operand makes every comparison false** -/
theorem lt_nan (a b : Nat) (h : ¬ NNB a ∨ ¬ NNB b) : Num.lt .f32 a b = false := by
  rcases hh : Num.lt .f32 a b with _ | _
  · rfl
  · have := lt_NNB a b hh; tauto

theorem le_nan (a b : Nat) (h : ¬ NNB a ∨ ¬ NNB b) : Num.le .f32 a b = false := by
  rcases hh : Num.le .f32 a b with _ | _
  · rfl
  · have := le_NNB a b hh; tauto

theorem eq_nan (a b : Nat) (h : ¬ NNB a ∨ ¬ NNB b) : Num.eq .f32 a b = false := by
  unfold Num.eq
  rcases h with h | h
  · rw [toOrd_nan a h]
  · rw [toOrd_nan b h]; split <;> simp_all

/-! ## negation and absolute value -/

/-- negation only flips the sign bit (of every pattern, NaN and Inf included) -/
theorem neg_bits (a : Nat) (ha : a < 4294967296) :
    Num.neg .f32 a % 2147483648 = a % 2147483648 ∧
    Num.neg .f32 a / 2147483648 = 1 - a / 2147483648 ∧
    Num.neg .f32 a < 4294967296 := by
  unfold Num.neg; rw [signBit_f32]; split <;> omega

/-- negation is exact -/
theorem neg_val (a : Nat) (ha : a < 4294967296) (fa : FinB a) :
    FinB (Num.neg .f32 a) ∧ bval (Num.neg .f32 a) = - bval a :=
  ⟨neg_FinB a ha fa, bval_neg a ha⟩

/-- absolute value only clears the sign bit (of every pattern, NaN and Inf included) -/
theorem abs_bits (a : Nat) (_ha : a < 4294967296) :
    Num.abs .f32 a % 2147483648 = a % 2147483648 ∧ Num.abs .f32 a < 2147483648 := by
  unfold Num.abs; rw [signBit_f32]; omega

/-- absolute value is exact -/
theorem abs_val (a : Nat) (_ha : a < 4294967296) (fa : FinB a) :
    FinB (Num.abs .f32 a) ∧ bval (Num.abs .f32 a) = |bval a| := by
  have hF : FinB (Num.abs .f32 a) := by
    unfold FinB at *; unfold Num.abs; rw [signBit_f32]; omega
  refine ⟨hF, ?_⟩
  have h1 : negB32 (Num.abs .f32 a) = false := by
    unfold negB32 Num.abs; rw [signBit_f32]
    have : a % 2147483648 / 2147483648 % 2 = 0 := by omega
    rw [this]; rfl
  have h2 : mantB (Num.abs .f32 a) = mantB a := by
    unfold mantB Num.abs; rw [signBit_f32]
    have e1 : a % 2147483648 / 8388608 % 256 = a / 8388608 % 256 := by omega
    have e2 : a % 2147483648 % 8388608 = a % 8388608 := by omega
    rw [e1, e2]
  have h3 : expB (Num.abs .f32 a) = expB a := by
    unfold expB Num.abs; rw [signBit_f32]
    have e1 : a % 2147483648 / 8388608 % 256 = a / 8388608 % 256 := by omega
    rw [e1]
  unfold bval sval
  rw [h1, h2, h3]
  have hp := pow2_pos (expB a)
  have hnn : (0:ℚ) ≤ (mantB a : ℚ) * pow2 (expB a) := by positivity
  cases negB32 a
  · simp only [Bool.false_eq_true, if_false, one_mul]; rw [abs_of_nonneg hnn]
  · simp only [Bool.false_eq_true, if_false, if_true, one_mul, neg_one_mul]
    rw [abs_neg, abs_of_nonneg hnn]

/-- a NaN stays a NaN under negation and absolute value -/
theorem neg_nanB (a : Nat) (ha : a < 4294967296) : NNB (Num.neg .f32 a) ↔ NNB a := by
  unfold NNB; rw [(neg_bits a ha).1]

theorem abs_nanB (a : Nat) (ha : a < 4294967296) : NNB (Num.abs .f32 a) ↔ NNB a := by
  unfold NNB; rw [(abs_bits a ha).1]

/-! ## `F32` forms -/

theorem F32_lt_iff {a b : F32} (na : NN a) (nb : NN b) : a < b ↔ xval a.nb < xval b.nb :=
  lt_iff _ _ (nb_lt a) (nb_lt b) na nb
theorem F32_le_iff {a b : F32} (na : NN a) (nb : NN b) : a ≤ b ↔ xval a.nb ≤ xval b.nb :=
  le_iff _ _ (nb_lt a) (nb_lt b) na nb
theorem F32_feq_iff {a b : F32} (na : NN a) (nb : NN b) : a.feq b = true ↔ xval a.nb = xval b.nb :=
  eq_iff _ _ (nb_lt a) (nb_lt b) na nb
theorem F32_feq_fin {a b : F32} (fa : FloatMono32.Fin a) (fb : FloatMono32.Fin b) : a.feq b = true ↔ val a = val b :=
  eq_fin _ _ (nb_lt a) (nb_lt b) fa fb
theorem F32_cmp_nan {a b : F32} (h : ¬ NN a ∨ ¬ NN b) : ¬ a < b ∧ ¬ a ≤ b ∧ a.feq b = false := by
  refine ⟨?_, ?_, eq_nan _ _ h⟩
  · show ¬ Num.lt .f32 a.nb b.nb = true; rw [lt_nan _ _ h]; simp
  · show ¬ Num.le .f32 a.nb b.nb = true; rw [le_nan _ _ h]; simp

-- non-vacuity
example : NNB 0x80000000 ∧ NNB 0 ∧ Num.eq .f32 0x80000000 0 = true := by decide +kernel
example : Num.lt .f32 0xFF800000 0xBF800000 = true ∧ Num.lt .f32 0xBF800000 0x7F800000 = true := by decide +kernel
example : ¬ NNB 0x7FC00000 ∧ Num.le .f32 0x7FC00000 0x7FC00000 = false := by decide +kernel
example : Num.abs .f32 0xBFC00000 = 0x3FC00000 := by decide +kernel
example : Num.neg .f32 0x7FC00001 = 0xFFC00001 := by decide +kernel

end Ivg.FloatCmp32
