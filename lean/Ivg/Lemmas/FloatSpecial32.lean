import Ivg.Lemmas.FloatRound32
/-!
# `+ - * /` on infinities, zeros and NaNs (binary32)

The binary32 instance of `FloatSpecial` (same proofs with the binary32 constants).
-/
namespace Ivg.FloatSpecial32
open Ivg Num FloatOrder32 FloatMono32 FloatRound32

theorem unpack_nan (b : Nat) (h : ¬ NNB b) : unpack .f32 b = .nan b := by
  unfold NNB at h
  rw [unpack_f32, if_pos (by omega), if_neg (by omega)]

theorem unpack_not_nan (b : Nat) (h : NNB b) : ∀ x, unpack .f32 b ≠ .nan x := by
  intro x hx
  unfold NNB at h
  rw [unpack_f32] at hx
  split at hx
  · split at hx
    · cases hx
    · omega
  · split at hx <;> cases hx

/-- the default ("real indefinite") NaN -/
def dNaN : Nat := 0xFFC00000

theorem defaultNaN_eq : Fmt.f32.defaultNaN = dNaN := by decide

/-- `±Inf` with the given sign -/
def inf (s : Bool) : Nat := if s then 0xFF800000 else 0x7F800000
/-- `±0` with the given sign -/
def zero (s : Bool) : Nat := if s then 0x80000000 else 0

theorem withSign_inf (s : Bool) : withSign .f32 s Fmt.f32.infBits = inf s := by
  rw [withSign32, infBits_f32]; unfold inf; cases s <;> rfl

theorem withSign_zero (s : Bool) : withSign .f32 s 0 = zero s := by
  rw [withSign32]; unfold zero; cases s <;> rfl

theorem mant_zero_iff (a : Nat) : bval a = 0 ↔ mantB a = 0 := by
  unfold bval sval
  have hp := pow2_ne (expB a)
  constructor
  · intro h
    by_contra hm
    have hq : (mantB a : ℚ) ≠ 0 := by exact_mod_cast hm
    have hprod : (mantB a : ℚ) * pow2 (expB a) ≠ 0 := mul_ne_zero hq hp
    rcases mul_eq_zero.1 h with h | h
    · split at h <;> norm_num at h
    · exact hprod h
  · intro h; rw [h]; simp

/-! ## NaN operands -/

theorem isNaN_true (a : Nat) (h : ¬ NNB a) : Num.isNaN .f32 a = true := by
  rcases hh : Num.isNaN .f32 a with _ | _
  · exact absurd ((isNaN_iff a).1 hh) h
  · rfl

theorem propNaN_left (a b : Nat) (h : ¬ NNB a) : propNaN .f32 a b = quiet .f32 a := by
  unfold propNaN; rw [isNaN_true a h]; rfl

theorem propNaN_right (a b : Nat) (ha : NNB a) (_h : ¬ NNB b) : propNaN .f32 a b = quiet .f32 b := by
  unfold propNaN; rw [(isNaN_iff a).2 ha]; rfl

theorem add_nan_left (a b : Nat) (h : ¬ NNB a) : Num.add .f32 a b = quiet .f32 a := by
  unfold Num.add; rw [unpack_nan a h]; exact propNaN_left a b h
theorem mul_nan_left (a b : Nat) (h : ¬ NNB a) : Num.mul .f32 a b = quiet .f32 a := by
  unfold Num.mul; rw [unpack_nan a h]; exact propNaN_left a b h
theorem div_nan_left (a b : Nat) (h : ¬ NNB a) : Num.div .f32 a b = quiet .f32 a := by
  unfold Num.div; rw [unpack_nan a h]; exact propNaN_left a b h
theorem sub_nan_left (a b : Nat) (h : ¬ NNB a) : Num.sub .f32 a b = quiet .f32 a := by
  unfold Num.sub; rw [isNaN_true a h]; exact propNaN_left a b h

theorem add_nan_right (a b : Nat) (ha : NNB a) (h : ¬ NNB b) : Num.add .f32 a b = quiet .f32 b := by
  unfold Num.add; rw [unpack_nan b h]
  have h3 := unpack_not_nan a ha
  split <;> first | exact propNaN_right a b ha h | (exfalso; simp_all)
theorem mul_nan_right (a b : Nat) (ha : NNB a) (h : ¬ NNB b) : Num.mul .f32 a b = quiet .f32 b := by
  unfold Num.mul; rw [unpack_nan b h]
  have h3 := unpack_not_nan a ha
  split <;> first | exact propNaN_right a b ha h | (exfalso; simp_all)
theorem div_nan_right (a b : Nat) (ha : NNB a) (h : ¬ NNB b) : Num.div .f32 a b = quiet .f32 b := by
  unfold Num.div; rw [unpack_nan b h]
  have h3 := unpack_not_nan a ha
  split <;> first | exact propNaN_right a b ha h | (exfalso; simp_all)
theorem sub_nan_right (a b : Nat) (ha : NNB a) (h : ¬ NNB b) : Num.sub .f32 a b = quiet .f32 b := by
  unfold Num.sub; rw [isNaN_true b h, Bool.or_true]; exact propNaN_right a b ha h

/-- for non-NaN operands `a - b` is `a + (-b)` -/
theorem sub_eq_add_neg (a b : Nat) (ha : NNB a) (hb : NNB b) : Num.sub .f32 a b = Num.add .f32 a (Num.neg .f32 b) := by
  unfold Num.sub; rw [(isNaN_iff a).2 ha, (isNaN_iff b).2 hb]; rfl

/-! ## addition -/

theorem add_inf_fin (a b : Nat) (ha : InfB a) (hb : FinB b) : Num.add .f32 a b = a := by
  unfold Num.add; rw [unpack_inf a ha, unpack_fin b hb]
theorem add_fin_inf (a b : Nat) (ha : FinB a) (hb : InfB b) : Num.add .f32 a b = b := by
  unfold Num.add; rw [unpack_fin a ha, unpack_inf b hb]
/-- `Inf + Inf = Inf` for equal signs, the default NaN for opposite signs -/
theorem add_inf_inf (a b : Nat) (ha : InfB a) (hb : InfB b) :
    Num.add .f32 a b = if negB32 a = negB32 b then a else dNaN := by
  unfold Num.add; rw [unpack_inf a ha, unpack_inf b hb]
  simp only [defaultNaN_eq, beq_iff_eq]

theorem add_zero_core (s : Bool) (m : Nat) (e : Int) (t : Bool) (n : Nat) (g e0 : Int) (h1 : e0 ≤ e) (h2 : e0 ≤ g)
    (h : sval s m e + sval t n g = 0) :
    (if s then -((m * 2 ^ (e - e0).toNat : Nat) : Int) else ((m * 2 ^ (e - e0).toNat : Nat) : Int)) +
    (if t then -((n * 2 ^ (g - e0).toNat : Nat) : Int) else ((n * 2 ^ (g - e0).toNat : Nat) : Int)) = 0 := by
  rw [sval_split s m e e0 h1, sval_split t n g e0 h2, ← add_mul] at h
  rcases mul_eq_zero.1 h with h | h
  · exact_mod_cast h
  · exact absurd h (pow2_ne e0)

/-- **sign of an exact zero sum**: `-0` only when both operands are negative (`(-0) + (-0)`), else `+0`
    (so `x + (-x) = +0`) -/
theorem add_zero_sign (a b : Nat) (fa : FinB a) (fb : FinB b) (h : bval a + bval b = 0) :
    Num.add .f32 a b = zero (negB32 a && negB32 b) := by
  unfold Num.add bval at *
  rw [unpack_fin a fa, unpack_fin b fb]
  generalize negB32 a = s at *; generalize mantB a = m at *; generalize expB a = e at *
  generalize negB32 b = t at *; generalize mantB b = n at *; generalize expB b = g at *
  simp only []
  have he0 := min_le_both e g
  have hz := add_zero_core s m e t n g _ he0.1 he0.2 h
  rw [hz]
  simp only [BEq.rfl, if_true]
  exact withSign_zero _

/-! ## multiplication -/

theorem mul_inf_inf (a b : Nat) (ha : InfB a) (hb : InfB b) :
    Num.mul .f32 a b = inf (negB32 a != negB32 b) := by
  unfold Num.mul; rw [unpack_inf a ha, unpack_inf b hb]; exact withSign_inf _
/-- `Inf · x`: the default NaN for `x = ±0`, else `±Inf` with the product sign -/
theorem mul_inf_fin (a b : Nat) (ha : InfB a) (hb : FinB b) :
    Num.mul .f32 a b = if bval b = 0 then dNaN else inf (negB32 a != negB32 b) := by
  unfold Num.mul; rw [unpack_inf a ha, unpack_fin b hb]
  simp only [defaultNaN_eq, withSign_inf, beq_iff_eq, mant_zero_iff]
theorem mul_fin_inf (a b : Nat) (ha : FinB a) (hb : InfB b) :
    Num.mul .f32 a b = if bval a = 0 then dNaN else inf (negB32 a != negB32 b) := by
  unfold Num.mul; rw [unpack_fin a ha, unpack_inf b hb]
  simp only [defaultNaN_eq, withSign_inf, beq_iff_eq, mant_zero_iff]
/-- **sign of a zero product** -/
theorem mul_zero_sign (a b : Nat) (fa : FinB a) (fb : FinB b) (h : bval a * bval b = 0) :
    Num.mul .f32 a b = zero (negB32 a != negB32 b) := by
  have hm : mantB a * mantB b = 0 := by
    rcases mul_eq_zero.1 h with h | h
    · rw [(mant_zero_iff a).1 h]; simp
    · rw [(mant_zero_iff b).1 h]; simp
  unfold Num.mul; rw [unpack_fin a fa, unpack_fin b fb]
  simp only [hm]
  rw [← withSign_zero]; simp [roundPack]

/-! ## division -/

theorem div_inf_inf (a b : Nat) (ha : InfB a) (hb : InfB b) : Num.div .f32 a b = dNaN := by
  unfold Num.div; rw [unpack_inf a ha, unpack_inf b hb]; exact defaultNaN_eq
theorem div_inf_fin (a b : Nat) (ha : InfB a) (hb : FinB b) :
    Num.div .f32 a b = inf (negB32 a != negB32 b) := by
  unfold Num.div; rw [unpack_inf a ha, unpack_fin b hb]; exact withSign_inf _
theorem div_fin_inf (a b : Nat) (ha : FinB a) (hb : InfB b) :
    Num.div .f32 a b = zero (negB32 a != negB32 b) := by
  unfold Num.div; rw [unpack_fin a ha, unpack_inf b hb]; exact withSign_zero _
/-- **division by zero**: `0/0` is the default NaN, `x/0 = ±Inf` with the quotient sign -/
theorem div_by_zero (a b : Nat) (fa : FinB a) (fb : FinB b) (hb0 : bval b = 0) :
    Num.div .f32 a b = if bval a = 0 then dNaN else inf (negB32 a != negB32 b) := by
  unfold Num.div; rw [unpack_fin a fa, unpack_fin b fb]
  have h1 : (mantB b == 0) = true := by simp [(mant_zero_iff b).1 hb0]
  simp only [h1, if_true, defaultNaN_eq, withSign_inf, beq_iff_eq, mant_zero_iff]
/-- **sign of a zero quotient** -/
theorem div_zero_sign (a b : Nat) (fa : FinB a) (fb : FinB b) (ha0 : bval a = 0) (hb0 : bval b ≠ 0) :
    Num.div .f32 a b = zero (negB32 a != negB32 b) := by
  unfold Num.div; rw [unpack_fin a fa, unpack_fin b fb]
  have h1 : (mantB b == 0) = false := by simp [(mant_zero_iff b).not.1 hb0]
  have h2 : (mantB a == 0) = true := by simp [(mant_zero_iff a).1 ha0]
  simp only [h1, h2, if_true, Bool.false_eq_true, if_false]
  exact withSign_zero _

/-! ## every result fits the width (the `F32` wrappers never truncate) -/

theorem quiet_lt (b : Nat) (hb : b < 4294967296) : quiet .f32 b < 4294967296 := by
  rw [quiet_f32]; split <;> omega

theorem inf_lt (s : Bool) : inf s < 4294967296 := by unfold inf; cases s <;> decide
theorem zero_lt (s : Bool) : zero s < 4294967296 := by unfold zero; cases s <;> decide
theorem dNaN_lt : dNaN < 4294967296 := by decide

theorem add_lt (a b : Nat) (ha : a < 4294967296) (hb : b < 4294967296) :
    Num.add .f32 a b < 4294967296 := by
  by_cases na : NNB a
  · by_cases nb : NNB b
    · by_cases fa : FinB a <;> by_cases fb : FinB b
      · exact (Rnd_lt _ _ (add_Rnd a b fa fb)).2
      · rw [add_fin_inf a b fa ⟨nb, fb⟩]; exact hb
      · rw [add_inf_fin a b ⟨na, fa⟩ fb]; exact ha
      · rw [add_inf_inf a b ⟨na, fa⟩ ⟨nb, fb⟩]; split
        · exact ha
        · exact dNaN_lt
    · rw [add_nan_right a b na nb]; exact quiet_lt b hb
  · rw [add_nan_left a b na]; exact quiet_lt a ha

theorem neg_lt (a : Nat) (ha : a < 4294967296) : Num.neg .f32 a < 4294967296 := by
  unfold Num.neg; rw [signBit_f32]; split <;> omega

theorem neg_NNB (b : Nat) (hb : b < 4294967296) (h : NNB b) : NNB (Num.neg .f32 b) := by
  unfold NNB at *; unfold Num.neg; rw [signBit_f32]; split <;> omega

theorem sub_lt (a b : Nat) (ha : a < 4294967296) (hb : b < 4294967296) :
    Num.sub .f32 a b < 4294967296 := by
  by_cases na : NNB a
  · by_cases nb : NNB b
    · rw [sub_eq_add_neg a b na nb]; exact add_lt a _ ha (neg_lt b hb)
    · rw [sub_nan_right a b na nb]; exact quiet_lt b hb
  · rw [sub_nan_left a b na]; exact quiet_lt a ha

theorem mul_lt (a b : Nat) (ha : a < 4294967296) (hb : b < 4294967296) :
    Num.mul .f32 a b < 4294967296 := by
  by_cases na : NNB a
  · by_cases nb : NNB b
    · by_cases fa : FinB a <;> by_cases fb : FinB b
      · exact (Rnd_lt _ _ (mul_Rnd a b fa fb)).2
      · rw [mul_fin_inf a b fa ⟨nb, fb⟩]; split
        · exact dNaN_lt
        · exact inf_lt _
      · rw [mul_inf_fin a b ⟨na, fa⟩ fb]; split
        · exact dNaN_lt
        · exact inf_lt _
      · rw [mul_inf_inf a b ⟨na, fa⟩ ⟨nb, fb⟩]; exact inf_lt _
    · rw [mul_nan_right a b na nb]; exact quiet_lt b hb
  · rw [mul_nan_left a b na]; exact quiet_lt a ha

theorem div_lt (a b : Nat) (ha : a < 4294967296) (hb : b < 4294967296) :
    Num.div .f32 a b < 4294967296 := by
  by_cases na : NNB a
  · by_cases nb : NNB b
    · by_cases fa : FinB a <;> by_cases fb : FinB b
      · by_cases h0 : bval b = 0
        · rw [div_by_zero a b fa fb h0]; split
          · exact dNaN_lt
          · exact inf_lt _
        · exact (Rnd_lt _ _ (div_Rnd a b fa fb ((mant_zero_iff b).not.1 h0))).2
      · rw [div_fin_inf a b fa ⟨nb, fb⟩]; exact zero_lt _
      · rw [div_inf_fin a b ⟨na, fa⟩ fb]; exact inf_lt _
      · rw [div_inf_inf a b ⟨na, fa⟩ ⟨nb, fb⟩]; exact dNaN_lt
    · rw [div_nan_right a b na nb]; exact quiet_lt b hb
  · rw [div_nan_left a b na]; exact quiet_lt a ha

/-- the `F32` operators are the `Nat`-level operations on the bit patterns -/
theorem F32_ops (a b : F32) :
    (a + b).nb = Num.add .f32 a.nb b.nb ∧ (a - b).nb = Num.sub .f32 a.nb b.nb ∧
    (a * b).nb = Num.mul .f32 a.nb b.nb ∧ (a / b).nb = Num.div .f32 a.nb b.nb :=
  ⟨nb_ofNatBits _ (add_lt _ _ (nb_lt a) (nb_lt b)), nb_ofNatBits _ (sub_lt _ _ (nb_lt a) (nb_lt b)),
   nb_ofNatBits _ (mul_lt _ _ (nb_lt a) (nb_lt b)), nb_ofNatBits _ (div_lt _ _ (nb_lt a) (nb_lt b))⟩

-- non-vacuity
example : InfB 0x7F800000 ∧ InfB 0xFF800000 ∧
    Num.add .f32 0x7F800000 0xFF800000 = dNaN := ⟨by decide, by decide, by decide +kernel⟩
example : Num.add .f32 0x3F800000 0xBF800000 = 0 := by decide +kernel          -- 1 + (-1) = +0
example : Num.add .f32 0x80000000 0x80000000 = 0x80000000 := by decide +kernel
example : Num.mul .f32 0x80000000 0x7F800000 = dNaN := by decide +kernel        -- -0 · Inf
example : Num.mul .f32 0x80000000 0x3F800000 = 0x80000000 := by decide +kernel
example : Num.div .f32 0xBF800000 0 = 0xFF800000 := by decide +kernel          -- -1/0 = -Inf
example : Num.div .f32 0 0x80000000 = dNaN := by decide +kernel
example : ¬ NNB 0x7F800001 ∧ Num.mul .f32 0x7F800001 0x7FC00002 = 0x7FC00001 :=
  ⟨by decide, by decide +kernel⟩

end Ivg.FloatSpecial32
