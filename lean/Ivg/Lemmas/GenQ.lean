import Ivg.Lemmas.RatInst
import Ivg.Model.Generator
import Ivg.Model.MdIcons
import Ivg.Model.Renderer
import Ivg.Lemmas.GradQ
import Batteries.Tactic.OpenPrivate
import Mathlib.Tactic.Ring
import Mathlib.Tactic.FieldSimp
import Mathlib.Tactic.Linarith
import Mathlib.Tactic.Positivity
import Mathlib.Tactic.LinearCombination
/-!
# C19 / C20: the generator's gradient helpers and transforms, the converter's opacity and circles

* at exact arithmetic (`ℚ`): geometry realised by `linearMatrix` / `circularMatrix` / `ellipticalMatrix`,
  `concat` is matrix composition, `normalizeArgs` (generator and converter);
* number-generic (any `α`): the structure of `setGradient` (errors, register layout, selectors) and of
  `Md.parsePath` (opacity registers, circles).
-/
namespace Ivg.GenQ
open Ivg Gen RatInst

section priv
open private i from Ivg.Model.Generator
/-- the private literal helper of `Ivg/Model/Generator.lean` -/
theorem gen_i_def {α : Type} [Arith α] (n : Int) : (i n : α) = Arith.ofInt n := rfl
@[simp] theorem gen_i_eq (n : Int) : (i n : ℚ) = (n : ℚ) := rfl
end priv

/-! ## C19 at `ℚ`: the matrices realise the requested geometry -/

/-- apply a viewBox-to-gradient matrix `[a0 a1 a2; a3 a4 a5]` to a viewBox point — what `Gradient.at`
    computes from `pix2Grad` (`m.a*px + m.b*py + m.c`, `m.d*px + m.e*py + m.f`); the linear shape uses
    the first component as the offset, the radial shape the distance of the image from the origin -/
def app (m : Aff3 ℚ) (x y : ℚ) : ℚ × ℚ := (m.a0 * x + m.a1 * y + m.a2, m.a3 * x + m.a4 * y + m.a5)

theorem sumsq_ne_zero {a b : ℚ} (h : a ≠ 0 ∨ b ≠ 0) : a * a + b * b ≠ 0 := by
  rcases h with h | h
  · have := mul_self_pos.mpr h; nlinarith [mul_self_nonneg b]
  · have := mul_self_pos.mpr h; nlinarith [mul_self_nonneg a]

theorem linearMatrix_def (x1 y1 x2 y2 : ℚ) :
    linearMatrix x1 y1 x2 y2 =
      (let d := (x2 - x1) * (x2 - x1) + (y2 - y1) * (y2 - y1)
       ⟨(x2 - x1) / d, (y2 - y1) / d, -((x2 - x1) / d) * x1 - (y2 - y1) / d * y1, 0, 0, 0⟩) := rfl

theorem ellipticalMatrix_def (cx cy rx ry sx sy : ℚ) :
    ellipticalMatrix cx cy rx ry sx sy =
      (let k := 1 / (rx * sy - sx * ry)
       ⟨sy * k, -sx * k, -(sy * k * cx) - -sx * k * cy, -ry * k, rx * k, -(-ry * k * cx) - rx * k * cy⟩) := rfl

/-- linear: offset 0 at `(x1,y1)`, 1 at `(x2,y2)`; the offset of any point is its projection onto the
    segment (so it is constant along perpendiculars: moving by `s·(y2−y1, −(x2−x1))` changes nothing) -/
theorem linear_gradient_geometry (x1 y1 x2 y2 : ℚ) (h : x1 ≠ x2 ∨ y1 ≠ y2) :
    let m := linearMatrix x1 y1 x2 y2
    (app m x1 y1).1 = 0 ∧ (app m x2 y2).1 = 1 ∧
    (∀ px py, (app m px py).1 =
      ((px - x1) * (x2 - x1) + (py - y1) * (y2 - y1)) / ((x2 - x1) * (x2 - x1) + (y2 - y1) * (y2 - y1))) ∧
    (∀ px py s, (app m (px + s * (y2 - y1)) (py - s * (x2 - x1))).1 = (app m px py).1) ∧
    (∀ s, (app m (x1 + s * (y2 - y1)) (y1 - s * (x2 - x1))).1 = 0) ∧
    (∀ s, (app m (x2 + s * (y2 - y1)) (y2 - s * (x2 - x1))).1 = 1) := by
  have hd : (x2 - x1) * (x2 - x1) + (y2 - y1) * (y2 - y1) ≠ 0 :=
    sumsq_ne_zero (h.imp (fun h => sub_ne_zero.mpr (Ne.symm h)) (fun h => sub_ne_zero.mpr (Ne.symm h)))
  rw [linearMatrix_def]
  simp only [app]
  generalize hdd : (x2 - x1) * (x2 - x1) + (y2 - y1) * (y2 - y1) = d at hd ⊢
  refine ⟨?_, ?_, ?_, ?_, ?_, ?_⟩
  · field_simp; ring
  · field_simp; rw [← hdd]; ring
  · intro px py; field_simp; ring
  · intro px py s; field_simp; ring
  · intro s; field_simp; ring
  · intro s; field_simp; rw [← hdd]; ring

/-- elliptical: the centre goes to the origin and the two axis end points to `(1,0)` and `(0,1)` — both
    at distance 1 from the origin -/
theorem elliptical_gradient_geometry (cx cy rx ry sx sy : ℚ) (h : rx * sy - sx * ry ≠ 0) :
    let m := ellipticalMatrix cx cy rx ry sx sy
    app m cx cy = (0, 0) ∧ app m (cx + rx) (cy + ry) = (1, 0) ∧ app m (cx + sx) (cy + sy) = (0, 1) := by
  rw [ellipticalMatrix_def]
  simp only [app, Prod.mk.injEq]
  generalize hdd : rx * sy - sx * ry = d at h ⊢
  refine ⟨⟨?_, ?_⟩, ⟨?_, ?_⟩, ⟨?_, ?_⟩⟩
  · field_simp; ring
  · field_simp; ring
  · field_simp; rw [← hdd]; ring
  · field_simp; ring
  · field_simp; ring
  · field_simp; rw [← hdd]; ring

/-- circular, on the SHAPE of the matrix `SetCircularGradient` builds, for any `invR` with
    `invR²·(rx²+ry²) = 1`: centre ↦ origin, `(cx+rx, cy+ry)` ↦ a point of squared norm 1, and the squared
    norm of the image of any point is its squared distance from the centre times `invR²` -/
theorem circular_shape_geometry (cx cy rx ry invR : ℚ) (h : invR * invR * (rx * rx + ry * ry) = 1) :
    let m : Aff3 ℚ := ⟨invR, 0, -cx * invR, 0, invR, -cy * invR⟩
    app m cx cy = (0, 0) ∧
    (app m (cx + rx) (cy + ry)).1 * (app m (cx + rx) (cy + ry)).1 +
      (app m (cx + rx) (cy + ry)).2 * (app m (cx + rx) (cy + ry)).2 = 1 ∧
    (∀ px py, (app m px py).1 * (app m px py).1 + (app m px py).2 * (app m px py).2 =
      ((px - cx) * (px - cx) + (py - cy) * (py - cy)) * (invR * invR)) := by
  simp only [app, Prod.mk.injEq]
  refine ⟨⟨by ring, by ring⟩, ?_, fun px py => by ring⟩
  linear_combination h

section
variable [SqrtQ]

theorem circularMatrix_def (cx cy rx ry : ℚ) :
    circularMatrix (β := ℚ) cx cy rx ry =
      (let invR := 1 / SqrtQ.sq (rx * rx + ry * ry)
       ⟨invR, 0, -cx * invR, 0, invR, -cy * invR⟩) := rfl

/-- circular, on the model function: for ANY square-root function that is right at the one argument
    `rx²+ry²` (hypothesis `hs`), the centre has offset 0, the point `centre + radius vector` lies at
    distance 1, and the squared offset of any point is its squared distance from the centre over the
    squared radius -/
theorem circular_gradient_geometry (cx cy rx ry : ℚ) (hne : rx ≠ 0 ∨ ry ≠ 0)
    (hs : SqrtQ.sq (rx * rx + ry * ry) * SqrtQ.sq (rx * rx + ry * ry) = rx * rx + ry * ry) :
    let m := circularMatrix (β := ℚ) cx cy rx ry
    app m cx cy = (0, 0) ∧
    (app m (cx + rx) (cy + ry)).1 * (app m (cx + rx) (cy + ry)).1 +
      (app m (cx + rx) (cy + ry)).2 * (app m (cx + rx) (cy + ry)).2 = 1 ∧
    (∀ px py, (app m px py).1 * (app m px py).1 + (app m px py).2 * (app m px py).2 =
      ((px - cx) * (px - cx) + (py - cy) * (py - cy)) / (rx * rx + ry * ry)) := by
  have hd : rx * rx + ry * ry ≠ 0 := sumsq_ne_zero hne
  rw [circularMatrix_def]
  generalize SqrtQ.sq (rx * rx + ry * ry) = s at hs ⊢
  have hs0 : s ≠ 0 := by rintro rfl; apply hd; rw [← hs]; ring
  have hinv : (1 / s) * (1 / s) * (rx * rx + ry * ry) = 1 := by rw [← hs]; field_simp
  obtain ⟨h1, h2, h3⟩ := circular_shape_geometry cx cy rx ry (1 / s) hinv
  refine ⟨h1, h2, fun px py => ?_⟩
  rw [h3 px py, ← hs]; field_simp
end

/-- non-vacuity of `circular_gradient_geometry`: a square-root function that is right at 25 = 3²+4² -/
theorem sqrt_table_example :
    let _ : SqrtQ := SqrtQ.ofTable [(25, 5)]
    ((3 : ℚ) ≠ 0 ∨ (4 : ℚ) ≠ 0) ∧
      SqrtQ.sq ((3 : ℚ) * 3 + 4 * 4) * SqrtQ.sq ((3 : ℚ) * 3 + 4 * 4) = 3 * 3 + 4 * 4 := by
  refine ⟨Or.inl (by norm_num), ?_⟩
  have : ((3 : ℚ) * 3 + 4 * 4) = 25 := by norm_num
  rw [this]
  simp [SqrtQ.sq]
  norm_num

/-! ## C20 at `ℚ`: `Concat` is matrix composition -/

/-- the step of the fold in `concat` : `comp a b` is "first `a`, then `b`" -/
def comp (a b : Aff3 ℚ) : Aff3 ℚ :=
  ⟨a.a0 * b.a0 + a.a3 * b.a1, a.a1 * b.a0 + a.a4 * b.a1, a.a2 * b.a0 + a.a5 * b.a1 + b.a2,
   a.a0 * b.a3 + a.a3 * b.a4, a.a1 * b.a3 + a.a4 * b.a4, a.a2 * b.a3 + a.a5 * b.a4 + b.a5⟩

def ident : Aff3 ℚ := ⟨1, 0, 0, 0, 1, 0⟩

theorem concat_nil : concat ([] : List (Aff3 ℚ)) = ident := rfl
theorem concat_single (a : Aff3 ℚ) : concat [a] = a := rfl
theorem concat_cons2 (a b : Aff3 ℚ) (l : List (Aff3 ℚ)) :
    concat (a :: b :: l) = (a :: b :: l).foldl comp ident := rfl

theorem mulAff3_def (x y : ℚ) (a : Aff3 ℚ) :
    mulAff3 x y a = (x * a.a0 + y * a.a1 + a.a2, x * a.a3 + y * a.a4 + a.a5) := rfl

theorem ident_comp (a : Aff3 ℚ) : comp ident a = a := by
  cases a; simp only [comp, ident, Aff3.mk.injEq]; refine ⟨?_, ?_, ?_, ?_, ?_, ?_⟩ <;> ring

theorem concat_eq_foldl (l : List (Aff3 ℚ)) : concat l = l.foldl comp ident := by
  match l with
  | [] => rfl
  | [a] => rw [concat_single]; simp only [List.foldl]; rw [ident_comp]
  | a :: b :: l => rfl

theorem mulAff3_comp (x y : ℚ) (a b : Aff3 ℚ) :
    mulAff3 x y (comp a b) = mulAff3 (mulAff3 x y a).1 (mulAff3 x y a).2 b := by
  simp only [mulAff3_def, comp, Prod.mk.injEq]; constructor <;> ring

/-- `concat []` is the identity map -/
theorem mulAff3_ident (x y : ℚ) : mulAff3 x y (concat []) = (x, y) := by
  simp only [concat_nil, mulAff3_def, ident, Prod.mk.injEq]; constructor <;> ring

theorem mulAff3_foldl (l : List (Aff3 ℚ)) (m : Aff3 ℚ) (x y : ℚ) :
    mulAff3 x y (l.foldl comp m) = l.foldl (fun p a => mulAff3 p.1 p.2 a) (mulAff3 x y m) := by
  induction l generalizing m with
  | nil => rfl
  | cons a l ih => simp only [List.foldl]; rw [ih, mulAff3_comp]

/-- applying `concat l` to a point is applying the transforms of `l` one after the other, first to last -/
theorem concat_is_composition (l : List (Aff3 ℚ)) (x y : ℚ) :
    mulAff3 x y (concat l) = l.foldl (fun p a => mulAff3 p.1 p.2 a) (x, y) := by
  rw [concat_eq_foldl, mulAff3_foldl]
  have := mulAff3_ident x y
  rw [concat_nil] at this
  rw [this]

theorem concat_pair (a b : Aff3 ℚ) (x y : ℚ) :
    mulAff3 x y (concat [a, b]) = mulAff3 (mulAff3 x y a).1 (mulAff3 x y a).2 b := by
  rw [concat_is_composition]; rfl

theorem concat_append (l₁ l₂ : List (Aff3 ℚ)) (x y : ℚ) :
    mulAff3 x y (concat (l₁ ++ l₂)) =
      mulAff3 (mulAff3 x y (concat l₁)).1 (mulAff3 x y (concat l₁)).2 (concat l₂) := by
  rw [concat_is_composition, concat_is_composition, concat_is_composition, List.foldl_append]

theorem concat_scale_translate (sx sy tx ty : ℚ) :
    concat [scale2 sx sy, translate tx ty] = ⟨sx, 0, tx, 0, sy, ty⟩ := by
  rw [concat_eq_foldl]
  simp only [List.foldl, comp, ident, scale2, translate, gen_i_eq, Aff3.mk.injEq]
  push_cast
  refine ⟨?_, ?_, ?_, ?_, ?_, ?_⟩ <;> ring

/-! ## C20 at `ℚ`: `normalize` of the generator -/

/-- the image of an operand pair under the scale-and-translate transform `[sx 0 tx; 0 sy ty]`:
    absolute verbs get the full transform, relative (lower-case) verbs the scale only -/
def xf (sx sy tx ty : ℚ) (rel : Bool) (x y : ℚ) : ℚ × ℚ :=
  if rel then (sx * x, sy * y) else (sx * x + tx, sy * y + ty)

section priv
open private i from Ivg.Model.Generator
theorem normalize_mul (sx sy tx ty : ℚ) (verb : Char) (x y : ℚ) :
    mulAff3 x y (if isLower verb = true then (⟨sx, i 0, i 0, i 0, sy, i 0⟩ : Aff3 ℚ) else ⟨sx, 0, tx, 0, sy, ty⟩) =
      xf sx sy tx ty (isLower verb) x y := by
  unfold xf
  cases isLower verb <;> simp [mulAff3_def, mul_comm]
end priv

/-- operand pairs of the 2/4/6-operand verbs and the arc: absolute ↦ full transform, relative ↦ scale
    only; arc radii ↦ scale; arc rotation and flags unchanged -/
theorem normalize_abs_rel (ts : List (Aff3 ℚ)) (hne : ts ≠ []) (sx sy tx ty : ℚ)
    (h : concat ts = ⟨sx, 0, tx, 0, sy, ty⟩) (verb : Char) :
    let f := xf sx sy tx ty (isLower verb)
    (∀ a0 a1, normalizeArgs [a0, a1] 2 verb ts = [(f a0 a1).1, (f a0 a1).2]) ∧
    (∀ a0 a1 a2 a3, normalizeArgs [a0, a1, a2, a3] 4 verb ts =
      [(f a0 a1).1, (f a0 a1).2, (f a2 a3).1, (f a2 a3).2]) ∧
    (∀ a0 a1 a2 a3 a4 a5, normalizeArgs [a0, a1, a2, a3, a4, a5] 6 verb ts =
      [(f a0 a1).1, (f a0 a1).2, (f a2 a3).1, (f a2 a3).2, (f a4 a5).1, (f a4 a5).2]) ∧
    (∀ rx ry rot la sw x y, normalizeArgs [rx, ry, rot, la, sw, x, y] 7 verb ts =
      [sx * rx, sy * ry, rot, la, sw, (f x y).1, (f x y).2]) := by
  have he : ts.isEmpty = false := by cases ts <;> simp_all
  refine ⟨?_, ?_, ?_, ?_⟩
  · intro a0 a1
    simp only [normalizeArgs, he, h, Bool.false_eq_true, if_false, normalize_mul]
  · intro a0 a1 a2 a3
    simp only [normalizeArgs, he, h, Bool.false_eq_true, if_false, normalize_mul]
  · intro a0 a1 a2 a3 a4 a5
    simp only [normalizeArgs, he, h, Bool.false_eq_true, if_false, normalize_mul]
  · intro rx ry rot la sw x y
    simp only [normalizeArgs, he, h, Bool.false_eq_true, if_false, normalize_mul]
    simp [mulAff3_def, mul_comm]

/-- single-operand verbs: `H ↦ sx·x+tx`, `h ↦ sx·x`, `V ↦ sy·y+ty`, `v ↦ sy·y` -/
theorem normalize_hv (ts : List (Aff3 ℚ)) (hne : ts ≠ []) (sx sy tx ty : ℚ)
    (h : concat ts = ⟨sx, 0, tx, 0, sy, ty⟩) (a : ℚ) :
    normalizeArgs [a] 1 'H' ts = [sx * a + tx] ∧ normalizeArgs [a] 1 'h' ts = [sx * a] ∧
    normalizeArgs [a] 1 'V' ts = [sy * a + ty] ∧ normalizeArgs [a] 1 'v' ts = [sy * a] := by
  have he : ts.isEmpty = false := by cases ts <;> simp_all
  have hH : isLower 'H' = false := by decide
  have hh : isLower 'h' = true := by decide
  have hV : isLower 'V' = false := by decide
  have hv : isLower 'v' = true := by decide
  refine ⟨?_, ?_, ?_, ?_⟩
  · simp [normalizeArgs, he, h, hH, mulAff3_def, mul_comm]
  · simp [normalizeArgs, he, h, hh, mulAff3_def, mul_comm]
  · simp [normalizeArgs, he, h, hV, mulAff3_def, mul_comm]
  · simp [normalizeArgs, he, h, hv, mulAff3_def, mul_comm]

/-- without a configured transform the operands are untouched (any number type) -/
theorem normalize_no_transform {α : Type} [Arith α] (args : List α) (n : Nat) (verb : Char) :
    normalizeArgs args n verb [] = args := rfl

/-- arcs as emitted: rotation is converted from degrees to turns (`/ 360`), the flags are `≠ 0` tests,
    radii and end point are passed through -/
theorem emit_arc (adj : UInt8) (rx ry rot la sw x y : ℚ) :
    emitVerb 'A' adj [rx, ry, rot, la, sw, x, y] =
      .ok [.arc false rx ry (rot / 360) (!decide (la = 0)) (!decide (sw = 0)) x y] ∧
    emitVerb 'a' adj [rx, ry, rot, la, sw, x, y] =
      .ok [.arc true rx ry (rot / 360) (!decide (la = 0)) (!decide (sw = 0)) x y] := by
  constructor <;> rfl

/-! ## C19, number-generic: the structure of `SetGradient` -/

section setGradient
variable {α : Type}

theorem too_many_stops (cSel nSel shape spread : UInt8) (stops : List (α × RGBA)) (t : Aff3 α) :
    (58 < stops.length → setGradient cSel nSel shape spread stops t = .error .tooManyGradientStops) ∧
    (stops.length ≤ 58 → setGradient cSel nSel shape spread stops t ≠ .error .tooManyGradientStops) := by
  constructor
  · intro h
    have : stops.length > 64 - 6 := by omega
    simp [setGradient, this]
  · intro h
    have : ¬ stops.length > 64 - 6 := by omega
    simp only [setGradient, this, if_false]
    split <;> simp

/-- the condition under which `SetGradient` reports `CSELUsedAsBothGradientAndStop` -/
def cselClash (cSel : UInt8) (n : Nat) : Prop :=
  (10 ≤ cSel.toNat ∧ cSel.toNat < 10 + n) ∨
  (10 ≤ (cSel.toNat + 64) % 256 ∧ (cSel.toNat + 64) % 256 < 10 + n)

instance (cSel : UInt8) (n : Nat) : Decidable (cselClash cSel n) := by unfold cselClash; exact inferInstance

theorem clash_cond (cSel : UInt8) (n : Nat) (hn : n ≤ 58) :
    (((10 : UInt8) ≤ cSel ∧ cSel < 10 + UInt8.ofNat n) ∨ ((10 : UInt8) ≤ cSel + 64 ∧ cSel + 64 < 10 + UInt8.ofNat n)) ↔
      cselClash cSel n := by
  unfold cselClash
  have h1 : ((10 : UInt8) + UInt8.ofNat n).toNat = 10 + n := by
    rw [UInt8.toNat_add, UInt8.toNat_ofNat']
    simp; omega
  have h2 : (cSel + 64).toNat = (cSel.toNat + 64) % 256 := by rw [UInt8.toNat_add]; rfl
  rw [UInt8.le_iff_toNat_le, UInt8.lt_iff_toNat_lt, UInt8.le_iff_toNat_le, UInt8.lt_iff_toNat_lt, h1, h2]
  rfl

theorem csel_in_stop_range (cSel nSel shape spread : UInt8) (stops : List (α × RGBA)) (t : Aff3 α)
    (hn : stops.length ≤ 58) :
    setGradient cSel nSel shape spread stops t = .error .cselUsedAsBothGradientAndStop ↔
      cselClash cSel stops.length := by
  have : ¬ stops.length > 64 - 6 := by omega
  simp only [setGradient, this, if_false]
  rw [← clash_cond cSel stops.length hn]
  split
  · rename_i h; simp [h]
  · rename_i h; simp [h]

/-- for a selector that is a register number (`< 64`): the clash condition says exactly that CREG[CSEL]
    is one of the registers `(10 + i) mod 64`, `i < n`, the stops are stored in — the `+ 64` clause of
    the Go code covers the stops that wrap around the end of the register file -/
theorem cselClash_iff (cSel : UInt8) (n : Nat) (hn : n ≤ 58) (hc : cSel.toNat < 64) :
    cselClash cSel n ↔ ∃ i, i < n ∧ (10 + i) % 64 = cSel.toNat := by
  unfold cselClash
  constructor
  · rintro (⟨h1, h2⟩ | ⟨h1, h2⟩)
    · exact ⟨cSel.toNat - 10, by omega, by omega⟩
    · exact ⟨cSel.toNat + 54, by omega, by omega⟩
  · rintro ⟨i, hi, h⟩
    omega

theorem setGradient_errors (cSel nSel shape spread : UInt8) (stops : List (α × RGBA)) (t : Aff3 α) (e : GenErr)
    (h : setGradient cSel nSel shape spread stops t = .error e) :
    e = .tooManyGradientStops ∨ e = .cselUsedAsBothGradientAndStop := by
  simp only [setGradient] at h
  split at h
  · simp at h; exact Or.inl h.symm
  · split at h
    · simp at h; exact Or.inr h.symm
    · simp at h


/-- an error is returned INSTEAD of a call list (the model's result type is `Except GenErr (List (Call α))`,
    mirroring that both checks of `SetGradient` precede its first Destination call): no call is made
    when an error is reported -/
theorem errors_before_writes (cSel nSel shape spread : UInt8) (stops : List (α × RGBA)) (t : Aff3 α) (e : GenErr)
    (h : setGradient cSel nSel shape spread stops t = .error e) :
    ∀ calls, setGradient cSel nSel shape spread stops t ≠ .ok calls := by
  intro calls h'; rw [h] at h'; cases h'

/-! ### the gradient value round-trips through `encodeGradient` / `decodeGradient` -/

theorem forall_u8 {p : UInt8 → Prop} : (∀ x, p x) ↔ ∀ i : Fin 256, p (UInt8.ofNat i.val) := by
  constructor
  · intro h i; exact h _
  · intro h x
    have := h ⟨x.toNat, x.toNat_lt⟩
    simpa using this
local instance decForallU8' {p : UInt8 → Prop} [DecidablePred p] : Decidable (∀ x, p x) :=
  decidable_of_iff _ forall_u8.symm

set_option maxRecDepth 1000000 in
theorem and3_cases : ∀ b : UInt8, b &&& 0x03 = 0 ∨ b &&& 0x03 = 1 ∨ b &&& 0x03 = 2 ∨ b &&& 0x03 = 3 := by
  decide +kernel
set_option maxRecDepth 1000000 in
theorem and1_cases : ∀ b : UInt8, b &&& 0x01 = 0 ∨ b &&& 0x01 = 1 := by
  decide +kernel

set_option maxRecDepth 1000000 in
theorem g_byte_aux : ∀ a : UInt8, ∀ s : Fin 4,
    ((a &&& (0x3f : UInt8)) ||| (UInt8.ofNat s.val <<< (6 : UInt8))) &&& (0x3f : UInt8) = a &&& 0x3f ∧
    (((a &&& (0x3f : UInt8)) ||| (UInt8.ofNat s.val <<< (6 : UInt8))) >>> (6 : UInt8)) &&& (0x03 : UInt8) = UInt8.ofNat s.val := by
  decide +kernel

theorem g_byte (a b : UInt8) :
    ((a &&& (0x3f : UInt8)) ||| ((b &&& (0x03 : UInt8)) <<< (6 : UInt8))) &&& (0x3f : UInt8) = a &&& 0x3f ∧
    (((a &&& (0x3f : UInt8)) ||| ((b &&& (0x03 : UInt8)) <<< (6 : UInt8))) >>> (6 : UInt8)) &&& (0x03 : UInt8) = b &&& 0x03 := by
  rcases and3_cases b with h | h | h | h <;> rw [h]
  · exact g_byte_aux a 0
  · exact g_byte_aux a 1
  · exact g_byte_aux a 2
  · exact g_byte_aux a 3

set_option maxRecDepth 1000000 in
theorem b_byte_aux : ∀ a : UInt8, ∀ s : Fin 2,
    ((a &&& (0x3f : UInt8)) ||| (((0x02 : UInt8) ||| UInt8.ofNat s.val) <<< (6 : UInt8))) &&& (0x3f : UInt8) = a &&& 0x3f ∧
    (((a &&& (0x3f : UInt8)) ||| (((0x02 : UInt8) ||| UInt8.ofNat s.val) <<< (6 : UInt8))) >>> (6 : UInt8)) &&& (0x01 : UInt8) = UInt8.ofNat s.val ∧
    (((a &&& (0x3f : UInt8)) ||| (((0x02 : UInt8) ||| UInt8.ofNat s.val) <<< (6 : UInt8))) &&& (0x80 : UInt8) != 0) = true ∧
    decide (((a &&& (0x3f : UInt8)) ||| (((0x02 : UInt8) ||| UInt8.ofNat s.val) <<< (6 : UInt8))) ≤ (0 : UInt8)) = false := by
  decide +kernel

theorem b_byte (a b : UInt8) :
    ((a &&& (0x3f : UInt8)) ||| (((0x02 : UInt8) ||| (b &&& (0x01 : UInt8))) <<< (6 : UInt8))) &&& (0x3f : UInt8) = a &&& 0x3f ∧
    (((a &&& (0x3f : UInt8)) ||| (((0x02 : UInt8) ||| (b &&& (0x01 : UInt8))) <<< (6 : UInt8))) >>> (6 : UInt8)) &&& (0x01 : UInt8) = b &&& 0x01 ∧
    (((a &&& (0x3f : UInt8)) ||| (((0x02 : UInt8) ||| (b &&& (0x01 : UInt8))) <<< (6 : UInt8))) &&& (0x80 : UInt8) != 0) = true ∧
    decide (((a &&& (0x3f : UInt8)) ||| (((0x02 : UInt8) ||| (b &&& (0x01 : UInt8))) <<< (6 : UInt8))) ≤ (0 : UInt8)) = false := by
  rcases and1_cases b with h | h <;> rw [h]
  · exact b_byte_aux a 0
  · exact b_byte_aux a 1

set_option maxRecDepth 1000000 in
theorem and3f_idem : ∀ a : UInt8, a &&& 0x3f &&& 0x3f = a &&& 0x3f := by decide +kernel

theorem decode_encode_gradient (cBase nBase shape spread nStops : UInt8) :
    decodeGradient (encodeGradient cBase nBase shape spread nStops) =
      ⟨cBase &&& 0x3f, nBase &&& 0x3f, shape &&& 0x01, spread &&& 0x03, nStops &&& 0x3f⟩ := by
  simp only [decodeGradient, encodeGradient, GradParams.mk.injEq]
  exact ⟨(g_byte cBase spread).1, (b_byte nBase shape).1, (b_byte nBase shape).2.1, (g_byte cBase spread).2,
    and3f_idem nStops⟩


/-- the value written is recognised as a gradient (alpha 0, blue's top bit set), never as a flat colour -/
theorem encodeGradient_valid (cBase nBase shape spread nStops : UInt8) :
    (encodeGradient cBase nBase shape spread nStops).validGradient = true ∧
    (encodeGradient cBase nBase shape spread nStops).validPremul = false := by
  have h := (b_byte nBase shape).2.2.1
  have h' := (b_byte nBase shape).2.2.2
  simp only [RGBA.validGradient, RGBA.validPremul, encodeGradient]
  refine ⟨by simpa using h, ?_⟩
  simp only [Bool.and_eq_false_iff]
  right
  exact h'

theorem ofNat_and_3f (n : Nat) (h : n ≤ 58) : (UInt8.ofNat n) &&& 0x3f = UInt8.ofNat n := by
  apply UInt8.toNat_inj.mp
  rw [UInt8.toNat_and, UInt8.toNat_ofNat']
  have : (0x3f : UInt8).toNat = 2 ^ 6 - 1 := rfl
  rw [this, Nat.and_two_pow_sub_one_eq_mod]
  omega

/-- the call list of a successful `SetGradient`, and what the gradient value it writes first names:
    colour base 10, number base 10, the shape and spread given (their low bits) and the number of stops -/
theorem setgradient_layout (cSel nSel shape spread : UInt8) (stops : List (α × RGBA)) (t : Aff3 α)
    (hn : stops.length ≤ 58) (hc : ¬ cselClash cSel stops.length) :
    let g := encodeGradient 10 10 shape spread (UInt8.ofNat stops.length)
    setGradient cSel nSel shape spread stops t =
      .ok ([.setCReg 0 false (Color.rgbaColor g), .setCSel 10, .setNSel 10,
            .setNReg 6 false t.a0, .setNReg 5 false t.a1, .setNReg 4 false t.a2,
            .setNReg 3 false t.a3, .setNReg 2 false t.a4, .setNReg 1 false t.a5] ++
           stops.flatMap (fun s => [.setCReg 0 true (Color.rgbaColor s.2), .setNReg 0 true s.1]) ++
           [.setCSel cSel, .setNSel nSel]) ∧
    decodeGradient g = ⟨10, 10, shape &&& 0x01, spread &&& 0x03, UInt8.ofNat stops.length⟩ ∧
    g.validGradient = true ∧ g.validPremul = false := by
  intro g
  refine ⟨?_, ?_, encodeGradient_valid _ _ _ _ _⟩
  · have h1 : ¬ stops.length > 64 - 6 := by omega
    have h2 := (clash_cond cSel stops.length hn).not.mpr hc
    simp only [setGradient, h1, if_false, h2]
    rfl
  · show decodeGradient (encodeGradient 10 10 shape spread (UInt8.ofNat stops.length)) = _
    rw [decode_encode_gradient, ofNat_and_3f _ hn]
    rfl

end setGradient

/-! ## C19, number-generic: the calls of `SetGradient` run on the renderer's register machine -/

namespace Rendered
open Ivg.Ren
variable {α β : Type} [Arith α] [Arith β] [Wide α β]

theorem get6_set6 {γ : Type} (v : Regs γ) (i j : UInt8) (x : γ) :
    (v.set6 i x).get6 j = if i.toNat % 64 = j.toNat % 64 then x else v.get6 j := by
  simp only [Regs.get6, Regs.set6, Vector.getElem_set]

theorem resolve_rgba (c : RGBA) (pal creg : Palette) : (Color.rgbaColor c).resolve pal creg = c := rfl

theorem and3f_toNat (k : UInt8) : (k &&& 0x3f).toNat = k.toNat % 64 := by
  rw [UInt8.toNat_and]
  exact Nat.and_two_pow_sub_one_eq_mod k.toNat 6

theorem succ_sel (k : UInt8) : ((k + 1) &&& 0x3f).toNat = (k.toNat + 1) % 64 := by
  rw [and3f_toNat, UInt8.toNat_add]
  have := k.toNat_lt
  simp

/-- everything in the renderer state except the two register files and the two selectors -/
def others (z : Renderer α β) :=
  (z.r, z.scaleX, z.biasX, z.scaleY, z.biasY, z.viewBox, z.palette, z.lod0, z.lod1, z.disabled,
   z.prevSmoothType, z.prevSmoothX, z.prevSmoothY, z.fill, z.penX, z.penY, z.firstX, z.firstY)

def stopCalls (stops : List (α × RGBA)) : List (Call α) :=
  stops.flatMap (fun s => [.setCReg 0 true (Color.rgbaColor s.2), .setNReg 0 true s.1])

theorem run_cons' (arc : ArcFn α β) (posInf : α) (z : Renderer α β) (c : Call α) (cs : List (Call α)) :
    z.run arc posInf (c :: cs) =
      (((z.step arc posInf c).1.run arc posInf cs).1, (z.step arc posInf c).2 ++ ((z.step arc posInf c).1.run arc posInf cs).2) := rfl

/-- the stop loop: stop `i` is written to CREG/NREG[(selector + i) mod 64]; nothing else changes, the
    selectors advance by the number of stops -/
theorem stop_loop (arc : ArcFn α β) (posInf : α) (stops : List (α × RGBA)) :
    ∀ (z : Renderer α β), stops.length ≤ 64 →
    let z' := (z.run arc posInf (stopCalls stops)).1
    (z.run arc posInf (stopCalls stops)).2 = [] ∧
    z'.cSel.toNat % 64 = (z.cSel.toNat + stops.length) % 64 ∧
    z'.nSel.toNat % 64 = (z.nSel.toNat + stops.length) % 64 ∧
    others z' = others z ∧
    (∀ j : UInt8, (∀ i, i < stops.length → (z.cSel.toNat + i) % 64 ≠ j.toNat % 64) → z'.cReg.get6 j = z.cReg.get6 j) ∧
    (∀ j : UInt8, (∀ i, i < stops.length → (z.nSel.toNat + i) % 64 ≠ j.toNat % 64) → z'.nReg.get6 j = z.nReg.get6 j) ∧
    (∀ i (hi : i < stops.length) (j : UInt8), j.toNat % 64 = (z.cSel.toNat + i) % 64 → z'.cReg.get6 j = stops[i].2) ∧
    (∀ i (hi : i < stops.length) (j : UInt8), j.toNat % 64 = (z.nSel.toNat + i) % 64 → z'.nReg.get6 j = stops[i].1) := by
  induction stops with
  | nil =>
    intro z _
    simp [stopCalls, Renderer.run]
  | cons s rest ih =>
    intro z hlen
    simp only [List.length_cons] at hlen
    have hlen' : rest.length ≤ 64 := by omega
    -- the state after the two calls of this stop
    let z1 : Renderer α β := { z with cReg := z.cReg.set6 z.cSel s.2, cSel := (z.cSel + 1) &&& 0x3f,
                                      nReg := z.nReg.set6 z.nSel s.1, nSel := (z.nSel + 1) &&& 0x3f }
    have hrun : z.run arc posInf (stopCalls (s :: rest)) = z1.run arc posInf (stopCalls rest) := by
      have : stopCalls (s :: rest) =
          .setCReg 0 true (Color.rgbaColor s.2) :: .setNReg 0 true s.1 :: stopCalls rest := by
        simp [stopCalls]
      rw [this, run_cons', run_cons']
      simp only [Renderer.step, resolve_rgba, if_true, UInt8.sub_zero, List.nil_append]
      rfl
    rw [hrun]
    obtain ⟨h1, h2, h3, h4, h5, h6, h7, h8⟩ := ih z1 hlen'
    have hc1 : z1.cSel.toNat = (z.cSel.toNat + 1) % 64 := succ_sel z.cSel
    have hn1 : z1.nSel.toNat = (z.nSel.toNat + 1) % 64 := succ_sel z.nSel
    refine ⟨h1, ?_, ?_, h4, ?_, ?_, ?_, ?_⟩
    · simp only [List.length_cons]; omega
    · simp only [List.length_cons]; omega
    · intro j hj
      rw [h5 j (fun i hi => by rw [hc1]; have := hj (i + 1) (by simp; omega); omega)]
      show (z.cReg.set6 z.cSel s.2).get6 j = _
      rw [get6_set6, if_neg (by have := hj 0 (by simp); simpa using this)]
    · intro j hj
      rw [h6 j (fun i hi => by rw [hn1]; have := hj (i + 1) (by simp; omega); omega)]
      show (z.nReg.set6 z.nSel s.1).get6 j = _
      rw [get6_set6, if_neg (by have := hj 0 (by simp); simpa using this)]
    · intro i hi j hj
      cases i with
      | zero =>
        rw [h5 j (fun i hi' => by rw [hc1]; simp at hj; omega)]
        show (z.cReg.set6 z.cSel s.2).get6 j = _
        rw [get6_set6, if_pos (by simp at hj; omega)]; rfl
      | succ i =>
        simp only [List.getElem_cons_succ]
        exact h7 i (by simpa using hi) j (by rw [hc1]; omega)
    · intro i hi j hj
      cases i with
      | zero =>
        rw [h6 j (fun i hi' => by rw [hn1]; simp at hj; omega)]
        show (z.nReg.set6 z.nSel s.1).get6 j = _
        rw [get6_set6, if_pos (by simp at hj; omega)]; rfl
      | succ i =>
        simp only [List.getElem_cons_succ]
        exact h8 i (by simpa using hi) j (by rw [hn1]; omega)

theorem run_append' (arc : ArcFn α β) (posInf : α) (a b : List (Call α)) : ∀ (z : Renderer α β),
    z.run arc posInf (a ++ b) =
      (((z.run arc posInf a).1.run arc posInf b).1, (z.run arc posInf a).2 ++ ((z.run arc posInf a).1.run arc posInf b).2) := by
  induction a with
  | nil => intro z; rfl
  | cons c cs ih =>
    intro z
    rw [List.cons_append, run_cons', run_cons', ih]
    simp only [List.append_assoc]

theorem sel_mask (k : UInt8) (h : k.toNat < 64) : k &&& 0x3f = k := by
  apply UInt8.toNat_inj.mp
  rw [and3f_toNat]; omega

/-- Clauses "stop colours and offsets are stored in the contiguous registers the written gradient value
    itself names, with the matrix in the six number registers below its number base; … CSEL and NSEL are
    left as they were", on the RENDERER's register machine, for every number type: running the calls of a
    successful `SetGradient` (made with the renderer's own selector values, both `< 64`) makes no rasteriser
    call and leaves a state in which
    * CSEL and NSEL are what they were;
    * CREG[CSEL] holds the gradient value `g` (which names bases 10/10, the shape, spread and stop count);
    * CREG[(10+i) mod 64] / NREG[(10+i) mod 64] hold the colour / offset of stop `i`;
    * NREG[4 … 9] = NREG[10−6 … 10−1] hold the matrix `t.a0 … t.a5`;
    * every other register and everything else in the renderer state is unchanged. -/
theorem setGradient_rendered (arc : ArcFn α β) (posInf : α) (z : Renderer α β)
    (hcs : z.cSel.toNat < 64) (hns : z.nSel.toNat < 64)
    (shape spread : UInt8) (stops : List (α × RGBA)) (t : Aff3 α) (calls : List (Call α))
    (h : setGradient z.cSel z.nSel shape spread stops t = .ok calls) :
    let z' := (z.run arc posInf calls).1
    let g := encodeGradient 10 10 shape spread (UInt8.ofNat stops.length)
    (z.run arc posInf calls).2 = [] ∧
    z'.cSel = z.cSel ∧ z'.nSel = z.nSel ∧ others z' = others z ∧
    z'.cReg.get6 z.cSel = g ∧
    (∀ i (hi : i < stops.length) (j : UInt8), j.toNat % 64 = (10 + i) % 64 →
      z'.cReg.get6 j = stops[i].2 ∧ z'.nReg.get6 j = stops[i].1) ∧
    (z'.nReg.get6 4 = t.a0 ∧ z'.nReg.get6 5 = t.a1 ∧ z'.nReg.get6 6 = t.a2 ∧
     z'.nReg.get6 7 = t.a3 ∧ z'.nReg.get6 8 = t.a4 ∧ z'.nReg.get6 9 = t.a5) ∧
    (∀ j : UInt8, j.toNat % 64 ≠ z.cSel.toNat → (∀ i, i < stops.length → (10 + i) % 64 ≠ j.toNat % 64) →
      z'.cReg.get6 j = z.cReg.get6 j) ∧
    (∀ j : UInt8, (j.toNat % 64 < 4 ∨ 9 < j.toNat % 64) → (∀ i, i < stops.length → (10 + i) % 64 ≠ j.toNat % 64) →
      z'.nReg.get6 j = z.nReg.get6 j) := by
  intro z' g
  -- the call list
  have hn : stops.length ≤ 58 := by
    by_contra hh
    rw [(too_many_stops z.cSel z.nSel shape spread stops t).1 (by omega)] at h; cases h
  have hcl : ¬ cselClash z.cSel stops.length := by
    intro hh
    rw [(csel_in_stop_range z.cSel z.nSel shape spread stops t hn).mpr hh] at h; cases h
  have hnc : ∀ i, i < stops.length → (10 + i) % 64 ≠ z.cSel.toNat := by
    intro i hi heq
    exact hcl ((cselClash_iff z.cSel stops.length hn hcs).mpr ⟨i, hi, heq⟩)
  have hcalls := (setgradient_layout z.cSel z.nSel shape spread stops t hn hcl).1
  rw [hcalls] at h
  have hc := (Except.ok.inj h).symm
  -- the state before the stop loop
  let zp : Renderer α β := { z with
    cReg := z.cReg.set6 z.cSel g, cSel := 10, nSel := 10,
    nReg := (((((z.nReg.set6 4 t.a0).set6 5 t.a1).set6 6 t.a2).set6 7 t.a3).set6 8 t.a4).set6 9 t.a5 }
  have hpre : ∀ rest : List (Call α),
      z.run arc posInf ([.setCReg 0 false (Color.rgbaColor g), .setCSel 10, .setNSel 10,
        .setNReg 6 false t.a0, .setNReg 5 false t.a1, .setNReg 4 false t.a2,
        .setNReg 3 false t.a3, .setNReg 2 false t.a4, .setNReg 1 false t.a5] ++ rest) =
      zp.run arc posInf rest := by
    intro rest
    simp only [List.cons_append, List.nil_append, run_cons', Renderer.step, resolve_rgba, UInt8.sub_zero,
      Bool.false_eq_true, if_false]
    rfl
  obtain ⟨l1, l2, l3, l4, l5, l6, l7, l8⟩ := stop_loop arc posInf stops zp (by omega)
  have hfin : z.run arc posInf calls =
      ({ (zp.run arc posInf (stopCalls stops)).1 with cSel := z.cSel &&& 0x3f, nSel := z.nSel &&& 0x3f }, []) := by
    rw [hc, List.append_assoc, hpre]
    show zp.run arc posInf (stopCalls stops ++ [.setCSel z.cSel, .setNSel z.nSel]) = _
    rw [run_append', l1]
    rfl
  have ez' : z' = { (zp.run arc posInf (stopCalls stops)).1 with cSel := z.cSel &&& 0x3f, nSel := z.nSel &&& 0x3f } :=
    congrArg Prod.fst hfin
  have hzpc : zp.cSel.toNat = 10 := rfl
  have hzpn : zp.nSel.toNat = 10 := rfl
  rw [hzpc] at l5 l7
  rw [hzpn] at l6 l8
  refine ⟨congrArg Prod.snd hfin, ?_, ?_, ?_, ?_, ?_, ?_, ?_, ?_⟩
  · rw [ez']; exact sel_mask _ hcs
  · rw [ez']; exact sel_mask _ hns
  · rw [ez']; exact l4
  · rw [ez']
    show (zp.run arc posInf (stopCalls stops)).1.cReg.get6 z.cSel = g
    rw [l5 z.cSel (fun i hi => by have := hnc i hi; omega)]
    show (z.cReg.set6 z.cSel g).get6 z.cSel = g
    rw [get6_set6, if_pos rfl]
  · intro i hi j hj
    rw [ez']
    exact ⟨l7 i hi j hj, l8 i hi j hj⟩
  · rw [ez']
    have key : ∀ (j : UInt8), 4 ≤ j.toNat → j.toNat ≤ 9 →
        (zp.run arc posInf (stopCalls stops)).1.nReg.get6 j = zp.nReg.get6 j :=
      fun j h1 h2 => l6 j (fun i hi => by omega)
    refine ⟨?_, ?_, ?_, ?_, ?_, ?_⟩
    · show (zp.run arc posInf (stopCalls stops)).1.nReg.get6 4 = _
      rw [key 4 (by decide) (by decide)]; simp [zp, get6_set6]
    · show (zp.run arc posInf (stopCalls stops)).1.nReg.get6 5 = _
      rw [key 5 (by decide) (by decide)]; simp [zp, get6_set6]
    · show (zp.run arc posInf (stopCalls stops)).1.nReg.get6 6 = _
      rw [key 6 (by decide) (by decide)]; simp [zp, get6_set6]
    · show (zp.run arc posInf (stopCalls stops)).1.nReg.get6 7 = _
      rw [key 7 (by decide) (by decide)]; simp [zp, get6_set6]
    · show (zp.run arc posInf (stopCalls stops)).1.nReg.get6 8 = _
      rw [key 8 (by decide) (by decide)]; simp [zp, get6_set6]
    · show (zp.run arc posInf (stopCalls stops)).1.nReg.get6 9 = _
      rw [key 9 (by decide) (by decide)]; simp [zp, get6_set6]
  · intro j hj1 hj2
    rw [ez']
    show (zp.run arc posInf (stopCalls stops)).1.cReg.get6 j = _
    rw [l5 j hj2]
    show (z.cReg.set6 z.cSel g).get6 j = _
    rw [get6_set6, if_neg (by omega)]
  · intro j hj1 hj2
    rw [ez']
    show (zp.run arc posInf (stopCalls stops)).1.nReg.get6 j = _
    rw [l6 j hj2]
    simp only [zp, get6_set6]
    have e4 : (4 : UInt8).toNat % 64 = 4 := rfl
    have e5 : (5 : UInt8).toNat % 64 = 5 := rfl
    have e6 : (6 : UInt8).toNat % 64 = 6 := rfl
    have e7 : (7 : UInt8).toNat % 64 = 7 := rfl
    have e8 : (8 : UInt8).toNat % 64 = 8 := rfl
    have e9 : (9 : UInt8).toNat % 64 = 9 := rfl
    rw [e4, e5, e6, e7, e8, e9]
    rw [if_neg (by omega), if_neg (by omega), if_neg (by omega), if_neg (by omega), if_neg (by omega),
      if_neg (by omega)]
end Rendered

/-! ## C20, number-generic: the converter's opacity registers and circles -/

namespace MdG
open Ivg.Md
open private i from Ivg.Model.MdIcons
variable {α : Type} [Arith α]
theorem md_i_def (n : Int) : (i n : α) = Arith.ofInt n := rfl

/-- the calls a path body may contain: drawing operations, and `startPath` with the given ADJ -/
def bodyCall (adj : UInt8) : Call α → Bool
  | .startPath a _ _ => a == adj
  | .d1 _ _ | .d2 _ _ _ | .d4 _ _ _ _ _ | .d6 _ _ _ _ _ _ _ => true
  | .arc _ _ _ _ _ _ _ _ => true
  | _ => false

omit [Arith α] in
theorem emitOp_body (o : Char) (started : Bool) (adj : UInt8) (a : List α) :
    ∀ c ∈ emitOp o started adj a, bodyCall adj c = true := by
  unfold emitOp
  split <;> simp [bodyCall]
  split <;> simp

theorem pathLoop_body (adj : UInt8) (size offX offY outSize : α) :
    ∀ (fuel : Nat) (started : Bool) (op : Option Char) (d : List Char) (cs : List (Call α)),
      Md.pathLoop adj size offX offY outSize fuel started op d = .ok cs → ∀ c ∈ cs, bodyCall adj c = true := by
  intro fuel
  induction fuel with
  | zero => intro started op d cs h; simp [Md.pathLoop] at h
  | succ fuel ih =>
    intro started op d cs h
    cases d with
    | nil => simp [Md.pathLoop] at h; subst h; simp
    | cons b rest =>
      simp only [Md.pathLoop] at h
      split at h
      · exact ih _ _ _ _ h
      · split at h
        · simp at h
        · split at h
          · simp at h
          · split at h
            · simp at h
            · split at h
              · simp at h
              · split at h
                · simp at h
                · rename_i cs' hcs
                  simp at h; subst h
                  intro c hc
                  rcases List.mem_append.mp hc with hc | hc
                  · exact emitOp_body _ _ _ _ c hc
                  · exact ih _ _ _ _ hcs c hc

/-- what one circle contributes: a move to its leftmost point (`StartPath` if no path is open yet,
    else close-and-move) and two relative half-turn arcs `(r, r, 0, false, true, ±2r, 0)` -/
def circleCalls (size offX offY outSize : α) (adj : UInt8) (needStart : Bool) (c : Circle α) : List (Call α) :=
  let cx := c.cx * outSize / size - (outSize / Arith.ofInt 2 + offX)
  let cy := c.cy * outSize / size - (outSize / Arith.ofInt 2 + offY)
  let r := c.r * outSize / size
  [if needStart then Call.startPath adj (cx - r) cy else Call.d2 .Y (cx - r) cy,
   .arc true r r (Arith.ofInt 0) false true (Arith.ofInt 2 * r) (Arith.ofInt 0),
   .arc true r r (Arith.ofInt 0) false true (Arith.ofInt (-2) * r) (Arith.ofInt 0)]

theorem circ_nil (size offX offY outSize : α) (adj : UInt8) (ns : Bool) :
    parsePath.circ size offX offY outSize adj ns [] = [] := rfl

theorem circ_cons (size offX offY outSize : α) (adj : UInt8) (ns : Bool) (c : Circle α) (cs : List (Circle α)) :
    parsePath.circ size offX offY outSize adj ns (c :: cs) =
      circleCalls size offX offY outSize adj ns c ++ parsePath.circ size offX offY outSize adj false cs := rfl

/-- all circles: only the first can be a `StartPath` -/
theorem circ_eq (size offX offY outSize : α) (adj : UInt8) (ns : Bool) (cs : List (Circle α)) :
    parsePath.circ size offX offY outSize adj ns cs =
      match cs with
      | [] => []
      | c :: cs => circleCalls size offX offY outSize adj ns c ++
          cs.flatMap (circleCalls size offX offY outSize adj false) := by
  cases cs with
  | nil => rfl
  | cons c cs =>
    rw [circ_cons]; congr 1
    induction cs with
    | nil => rfl
    | cons d ds ih => rw [circ_cons, List.flatMap_cons, ih]

theorem circ_body (size offX offY outSize : α) (adj : UInt8) (ns : Bool) (cs : List (Circle α)) :
    ∀ c ∈ parsePath.circ size offX offY outSize adj ns cs, bodyCall adj c = true := by
  induction cs generalizing ns with
  | nil => intro c h; simp [circ_nil] at h
  | cons d ds ih =>
    intro c h
    rw [circ_cons] at h
    rcases List.mem_append.mp h with h | h
    · simp only [circleCalls, List.mem_cons, List.mem_nil_iff, or_false] at h
      rcases h with rfl | rfl | rfl
      · cases ns <;> simp [bodyCall]
      · rfl
      · rfl
    · exact ih _ c h

/-- the register decision of `ParsePath`: which ADJ the path uses, the new opacity map and the calls
    made before the path -/
def opacityDecision (adjs : List (α × UInt8)) (opacity : α) : List (α × UInt8) × UInt8 × List (Call α) :=
  if Arith.feq opacity (Arith.ofInt 1) then (adjs, 0, [])
  else match adjs.find? (fun p => Arith.feq p.1 opacity) with
    | some p => (adjs, p.2, [])
    | none => (adjs ++ [(opacity, UInt8.ofNat (adjs.length + 1))], UInt8.ofNat (adjs.length + 1),
        [.setCReg (UInt8.ofNat (adjs.length + 1)) false
          (Color.blendColor (Arith.toUInt8 (opacity * Arith.ofInt 255)) 0x7f 0x80)])

/-- `ParsePath` = register decision, then the path data (if any), then the circles, then one `closeEnd` -/
theorem parsePath_eq (adjs : List (α × UInt8)) (d : String) (opacity size offX offY outSize : α)
    (circles : List (Circle α)) :
    parsePath adjs d opacity size offX offY outSize circles =
      (let dec := opacityDecision adjs opacity
       let adj := dec.2.1
       (dec.1,
        if d = "" then .ok (dec.2.2 ++ [] ++ parsePath.circ size offX offY outSize adj true circles ++ [.closeEnd])
        else match parsePathData d adj size offX offY outSize with
          | .error e => .error e
          | .ok pcs => .ok (dec.2.2 ++ pcs ++ parsePath.circ size offX offY outSize adj false circles ++ [.closeEnd]))) := by
  by_cases hd : d = ""
  · subst hd; rfl
  · have e : parsePath adjs d opacity size offX offY outSize circles =
      (let dec := opacityDecision adjs opacity
       match ((parsePathData d dec.2.1 size offX offY outSize, false) : Except MdErr (List (Call α)) × Bool) with
       | (.error e, _) => (dec.1, .error e)
       | (.ok pcs, needStart) =>
         (dec.1, .ok (dec.2.2 ++ pcs ++ parsePath.circ size offX offY outSize dec.2.1 needStart circles ++ [.closeEnd]))) := by
      unfold parsePath
      simp only [if_neg hd]
      rfl
    rw [e]
    simp only [if_neg hd]
    cases parsePathData d (opacityDecision adjs opacity).2.1 size offX offY outSize <;> rfl

/-- the opacity map is an allocation table: entry `k` holds ADJ `k+1` -/
def adjsWF (adjs : List (α × UInt8)) : Prop := ∀ k (h : k < adjs.length), adjs[k].2 = UInt8.ofNat (k + 1)

/-- opacity 1: ADJ 0 (the current colour register itself), nothing written, map unchanged -/
theorem opacity_one (adjs : List (α × UInt8)) (opacity : α) (h : Arith.feq opacity (Arith.ofInt 1) = true) :
    opacityDecision adjs opacity = (adjs, 0, []) := by simp [opacityDecision, h]

/-- a known opacity: its register is reused, nothing written, map unchanged -/
theorem opacity_known (adjs : List (α × UInt8)) (opacity : α) (h : Arith.feq opacity (Arith.ofInt 1) = false)
    (p : α × UInt8) (hp : adjs.find? (fun p => Arith.feq p.1 opacity) = some p) :
    opacityDecision adjs opacity = (adjs, p.2, []) := by simp [opacityDecision, h, hp]

/-- a new opacity: the next ADJ (`len + 1`) is allocated, recorded, and CREG[CSEL−adj] is set — once — to
    the blend of transparent (0x7f) with the first custom palette colour (0x80) at `uint8(opacity·255)` -/
theorem opacity_new (adjs : List (α × UInt8)) (opacity : α) (h : Arith.feq opacity (Arith.ofInt 1) = false)
    (hp : adjs.find? (fun p => Arith.feq p.1 opacity) = none) :
    opacityDecision adjs opacity =
      (adjs ++ [(opacity, UInt8.ofNat (adjs.length + 1))], UInt8.ofNat (adjs.length + 1),
       [.setCReg (UInt8.ofNat (adjs.length + 1)) false
         (Color.blendColor (Arith.toUInt8 (opacity * Arith.ofInt 255)) 0x7f 0x80)]) := by
  simp [opacityDecision, h, hp]

/-- the allocation-table shape is preserved, and the ADJ chosen for an opacity ≠ 1 is the one recorded
    for it in the new map -/
theorem opacity_wf (adjs : List (α × UInt8)) (opacity : α) (hwf : adjsWF adjs) :
    adjsWF (opacityDecision adjs opacity).1 := by
  unfold opacityDecision
  split
  · exact hwf
  · split
    · exact hwf
    · intro k hk
      simp only [List.length_append, List.length_cons, List.length_nil] at hk
      by_cases h : k < adjs.length
      · rw [List.getElem_append_left h]; exact hwf k h
      · have : k = adjs.length := by omega
        subst this
        simp

/-- Clause "reusing one register per distinct opacity … appended to the first path": every successful
    `ParsePath` makes the calls `pre ++ body ++ [closeEnd]` where `(adjs', adj, pre)` is the opacity
    decision (so `pre` is empty or the single `setCReg`), the returned map is `adjs'`, and `body`
    consists only of drawing calls and `startPath adj` — no register write, no `closeEnd`, no other ADJ -/
theorem opacity_registers (adjs : List (α × UInt8)) (d : String) (opacity size offX offY outSize : α)
    (circles : List (Circle α)) (cs : List (Call α))
    (h : (parsePath adjs d opacity size offX offY outSize circles).2 = .ok cs) :
    (parsePath adjs d opacity size offX offY outSize circles).1 = (opacityDecision adjs opacity).1 ∧
    ∃ body, cs = (opacityDecision adjs opacity).2.2 ++ body ++ [.closeEnd] ∧
      ∀ c ∈ body, bodyCall (opacityDecision adjs opacity).2.1 c = true := by
  rw [parsePath_eq] at h ⊢
  refine ⟨rfl, ?_⟩
  simp only at h
  split at h
  · simp only [Except.ok.injEq] at h
    refine ⟨_, by rw [← h, List.append_nil], circ_body _ _ _ _ _ _ _⟩
  · split at h
    · cases h
    · rename_i pcs hp
      simp only [Except.ok.injEq] at h
      refine ⟨pcs ++ parsePath.circ size offX offY outSize (opacityDecision adjs opacity).2.1 false circles,
        by rw [← h]; simp only [List.append_assoc], ?_⟩
      intro c hc
      rcases List.mem_append.mp hc with hc | hc
      · exact pathLoop_body _ _ _ _ _ _ _ _ _ _ hp c hc
      · exact circ_body _ _ _ _ _ _ _ c hc

/-- Clause "circles to two half-turn arcs appended to the first path": the calls of a successful
    `ParsePath` are: the register decision's calls, the path data's calls (none if `d = ""`), then for
    each circle `circleCalls` — a `startPath` only for the first circle of a path without data, else a
    close-and-move, to `(cx − r, cy)`, followed by exactly the two relative arcs
    `(r, r, 0, false, true, ±2r, 0)` — and exactly one final `closeEnd` -/
theorem circles_two_arcs (adjs : List (α × UInt8)) (d : String) (opacity size offX offY outSize : α)
    (circles : List (Circle α)) (cs : List (Call α))
    (h : (parsePath adjs d opacity size offX offY outSize circles).2 = .ok cs) :
    let dec := opacityDecision adjs opacity
    ∃ pcs, (if d = "" then pcs = [] else parsePathData d dec.2.1 size offX offY outSize = .ok pcs) ∧
      cs = dec.2.2 ++ pcs ++
        (match circles with
         | [] => []
         | c :: rest => circleCalls size offX offY outSize dec.2.1 (decide (d = "")) c ++
             rest.flatMap (circleCalls size offX offY outSize dec.2.1 false)) ++ [.closeEnd] := by
  rw [parsePath_eq] at h
  simp only at h ⊢
  by_cases hd : d = ""
  · simp only [hd, if_true, Except.ok.injEq] at h ⊢
    refine ⟨[], rfl, ?_⟩
    rw [← h, circ_eq]; simp
  · simp only [hd, if_false] at h ⊢
    split at h
    · cases h
    · rename_i pcs hp
      simp only [Except.ok.injEq] at h
      refine ⟨pcs, hp, ?_⟩
      rw [← h, circ_eq]; simp
end MdG

/-! ## C20 at `ℚ`: the converter's `normalize`, and the circle's arc end points -/
namespace MdG
open Ivg.Md
open private i from Ivg.Model.MdIcons
@[simp] theorem md_i_eq (n : Int) : (i n : ℚ) = (n : ℚ) := rfl

/-- the converter's coordinate map: scale by `outSize/size`; absolute coordinates are then moved by
    `−outSize/2 − offset` -/
def mdRel (size outSize a : ℚ) : ℚ := a * (outSize / size)
def mdAbs (size outSize off a : ℚ) : ℚ := a * (outSize / size) - outSize / 2 - off

theorem md_normalize (size offX offY outSize : ℚ) (op : Char) :
    let X := mdAbs size outSize offX
    let Y := mdAbs size outSize offY
    let R := mdRel size outSize
    (∀ x y, Md.normalizeArgs [x, y] 2 op size offX offY outSize false = [X x, Y y]) ∧
    (∀ x y, Md.normalizeArgs [x, y] 2 op size offX offY outSize true = [R x, R y]) ∧
    (∀ x1 y1 x y, Md.normalizeArgs [x1, y1, x, y] 4 op size offX offY outSize false = [X x1, Y y1, X x, Y y]) ∧
    (∀ x1 y1 x y, Md.normalizeArgs [x1, y1, x, y] 4 op size offX offY outSize true = [R x1, R y1, R x, R y]) ∧
    (∀ x1 y1 x2 y2 x y, Md.normalizeArgs [x1, y1, x2, y2, x, y] 6 op size offX offY outSize false =
      [X x1, Y y1, X x2, Y y2, X x, Y y]) ∧
    (∀ x1 y1 x2 y2 x y, Md.normalizeArgs [x1, y1, x2, y2, x, y] 6 op size offX offY outSize true =
      [R x1, R y1, R x2, R y2, R x, R y]) := by
  simp [Md.normalizeArgs, List.range, List.range.loop, mdAbs, mdRel]

theorem md_normalize_hv (size offX offY outSize a : ℚ) :
    Md.normalizeArgs [a] 1 'H' size offX offY outSize false = [mdAbs size outSize offX a] ∧
    Md.normalizeArgs [a] 1 'V' size offX offY outSize false = [mdAbs size outSize offY a] ∧
    Md.normalizeArgs [a] 1 'h' size offX offY outSize true = [mdRel size outSize a] ∧
    Md.normalizeArgs [a] 1 'v' size offX offY outSize true = [mdRel size outSize a] := by
  simp [Md.normalizeArgs, List.range, List.range.loop, mdAbs, mdRel]

/-- the two half-turn arcs of a circle go from its leftmost point `(cx − r, cy)` to the rightmost
    `(cx + r, cy)` and back (relative end points `(+2r, 0)`, `(−2r, 0)`) -/
theorem circle_endpoints (cx r : ℚ) :
    (cx - r) + (Arith.ofInt 2 : ℚ) * r = cx + r ∧ (cx + r) + (Arith.ofInt (-2) : ℚ) * r = cx - r := by
  simp only [RatInst.ofInt_eq]; push_cast; constructor <;> ring
end MdG

/-! ## C19 ∘ C15 at `ℚ`: the gradient a helper writes is the gradient the renderer paints -/

namespace Composed
open Ivg.Ren Ivg.Grad Ivg.GradQ Rendered
open Ivg.Spec.Grad (Spread spreadOffset Col colorAt increasing)
variable [SqrtQ]

/-- the stops `SetGradient` is given, as the renderer will see them -/
def toStop (s : ℚ × RGBA) : Stop ℚ := ⟨s.1, rgba64Of s.2⟩

/-- validity of the stops as `initGradient` checks it: premultiplied colours, offsets in `[0,1]`, strictly
    increasing -/
def stopsValid : List (ℚ × RGBA) → Prop
  | [] => True
  | [s] => s.2.validPremul = true ∧ 0 ≤ s.1 ∧ s.1 ≤ 1
  | s :: t :: rest => (s.2.validPremul = true ∧ 0 ≤ s.1 ∧ s.1 ≤ 1) ∧ s.1 < t.1 ∧ stopsValid (t :: rest)

omit [SqrtQ] in
theorem stopsValid_head {s : ℚ × RGBA} {l : List (ℚ × RGBA)} (h : stopsValid (s :: l)) :
    s.2.validPremul = true ∧ 0 ≤ s.1 ∧ s.1 ≤ 1 := by
  cases l with
  | nil => exact h
  | cons t rest => exact h.1

omit [SqrtQ] in
theorem stopsValid_tail {s : ℚ × RGBA} {l : List (ℚ × RGBA)} (h : stopsValid (s :: l)) : stopsValid l := by
  cases l with
  | nil => trivial
  | cons t rest => exact h.2.2

/-- converse of `collectStops_props`: registers holding valid stops are accepted, and the stops collected are
    exactly those -/
theorem collectStops_complete (cReg : Regs RGBA) (nReg : Regs ℚ) (cBase nBase : UInt8) (stops : List (ℚ × RGBA)) :
    ∀ (i : UInt8) (prevN : ℚ) (first : Bool),
      stopsValid stops →
      (first = true ∨ ∀ s ∈ stops.head?, prevN < s.1) →
      (∀ k (hk : k < stops.length),
        cReg.get6 (cBase + (i + UInt8.ofNat k)) = stops[k].2 ∧ nReg.get6 (nBase + (i + UInt8.ofNat k)) = stops[k].1) →
      collectStops (β := ℚ) cReg nReg cBase nBase stops.length i prevN first = some (stops.map toStop) := by
  induction stops with
  | nil => intro i prevN first _ _ _; rfl
  | cons s rest ih =>
    intro i prevN first hv hp hreg
    obtain ⟨hc, h0, h1⟩ := stopsValid_head hv
    have e0 : i + UInt8.ofNat 0 = i := by
      apply UInt8.toNat_inj.mp; simp
    have hr0' := hreg 0 (by simp)
    rw [e0] at hr0'
    simp only [List.getElem_cons_zero] at hr0'
    simp only [List.length_cons]
    rw [collectStops_succ, hr0'.1, hr0'.2, hc]
    simp only [Bool.not_true, Bool.false_eq_true, if_false]
    have hp' : first = true ∨ prevN < s.1 := hp.imp id (fun h => h s (by simp))
    rw [if_neg (by intro hh; rcases hh with hh | hh; exact hh ⟨h0, h1⟩; exact hh hp')]
    rw [ih (i + 1) s.1 false (stopsValid_tail hv) ?_ ?_]
    · rfl
    · right
      intro t ht
      cases rest with
      | nil => simp at ht
      | cons t' rest' =>
        simp only [List.head?_cons, Option.mem_def, Option.some.injEq] at ht
        subst ht
        exact hv.2.1
    · intro k hk
      have := hreg (k + 1) (by simpa using hk)
      simp only [List.getElem_cons_succ] at this
      have e : i + 1 + UInt8.ofNat k = i + UInt8.ofNat (k + 1) := by
        apply UInt8.toNat_inj.mp
        simp [UInt8.toNat_add, UInt8.toNat_ofNat']
        omega
      rw [e]; exact this

/-- converse of `initGradient_spec`: if the stop loop accepts at least two stops, `initGradient` succeeds
    with `Init` of the decoded shape and spread, `pixMatrix` and those stops -/
theorem initGradient_of_collect (z : Renderer ℚ ℚ) (rgba : RGBA) (s0 s1 : Stop ℚ) (rest : List (Stop ℚ))
    (h : collectStops (β := ℚ) z.cReg z.nReg (decodeGradient rgba).cBase (decodeGradient rgba).nBase
      (decodeGradient rgba).nStops.toNat 0 (Ren.zeroA : ℚ) true = some (s0 :: s1 :: rest)) :
    z.initGradient rgba = some (Gradient.init (decodeGradient rgba).shape (decodeGradient rgba).spread
      (pixMatrix z (decodeGradient rgba).nBase) (s0 :: s1 :: rest)).1 := by
  unfold Renderer.initGradient
  dsimp only
  rw [h]
  rfl

omit [SqrtQ] in
theorem stopsValid_increasing : ∀ (stops : List (ℚ × RGBA)), stopsValid stops →
    increasing (specStops (stops.map toStop))
  | [], _ => trivial
  | [_], _ => trivial
  | _ :: t :: rest, h => ⟨h.2.1, stopsValid_increasing (t :: rest) h.2.2⟩

/-- C19 ∘ C15 at exact arithmetic: "the generator's gradient helpers write a gradient that, when rendered,
    realises the requested geometry … the stops, spread and shape given are the ones rendered".
    Run the calls of a successful `SetGradient` (at least two valid stops) on a renderer; then the gradient
    value now in CREG[CSEL] is ACCEPTED by `initGradient`, and the resulting paint has the given shape and
    spread (their low bits), maps a pixel `(px, py)` to gradient space by the GIVEN matrix `t` applied to the
    viewBox point `(unabsX px, unabsY py)`, and its colour at every pixel is the specification's `colorAt`
    of exactly the given stops (8-bit colours widened to 16 bits by `rgba64Of`). -/
theorem helper_rendered (arc : ArcFn ℚ ℚ) (posInf : ℚ) (z : Renderer ℚ ℚ)
    (hcs : z.cSel.toNat < 64) (hns : z.nSel.toNat < 64)
    (shape spread : UInt8) (stops : List (ℚ × RGBA)) (t : Gen.Aff3 ℚ) (calls : List (Call ℚ))
    (h : setGradient z.cSel z.nSel shape spread stops t = .ok calls)
    (hv : stopsValid stops) (h2 : 2 ≤ stops.length) :
    let z' := (z.run arc posInf calls).1
    ∃ g : Gradient ℚ, z'.initGradient (z'.cReg.get6 z'.cSel) = some g ∧
      g.shape = shape &&& 0x01 ∧ g.spread = spread &&& 0x03 ∧
      (∀ px py : ℚ,
        g.pix2Grad.a * px + g.pix2Grad.b * py + g.pix2Grad.c = t.a0 * z.unabsX px + t.a1 * z.unabsY py + t.a2 ∧
        g.pix2Grad.d * px + g.pix2Grad.e * py + g.pix2Grad.f = t.a3 * z.unabsX px + t.a4 * z.unabsY py + t.a5) ∧
      ∀ x y : Int,
        toCol (g.at x y) = colorAt (Spread.ofCode (spread &&& 0x03))
          (stops.map (fun s => (s.1, toCol (rgba64Of s.2)))) (rawOffset g x y) := by
  intro z'
  obtain ⟨-, r2, -, r4, r5, r6, r7, -, -⟩ := setGradient_rendered arc posInf z hcs hns shape spread stops t calls h
  have hn : stops.length ≤ 58 := by
    by_contra hh
    rw [(too_many_stops z.cSel z.nSel shape spread stops t).1 (by omega)] at h; cases h
  have hdec := decode_encode_gradient 10 10 shape spread (UInt8.ofNat stops.length)
  rw [ofNat_and_3f _ hn] at hdec
  have hg : z'.cReg.get6 z'.cSel = encodeGradient 10 10 shape spread (UInt8.ofNat stops.length) := by
    show z'.cReg.get6 z'.cSel = _
    rw [show z'.cSel = z.cSel from r2]; exact r5
  rw [hg]
  generalize hgv : encodeGradient 10 10 shape spread (UInt8.ofNat stops.length) = gv at hdec
  have hcB : (decodeGradient gv).cBase = 10 := by rw [hdec]; rfl
  have hnB : (decodeGradient gv).nBase = 10 := by rw [hdec]; rfl
  have hsh : (decodeGradient gv).shape = shape &&& 0x01 := by rw [hdec]
  have hsp : (decodeGradient gv).spread = spread &&& 0x03 := by rw [hdec]
  have hnS : (decodeGradient gv).nStops.toNat = stops.length := by
    rw [hdec]; show (UInt8.ofNat stops.length).toNat = _
    rw [UInt8.toNat_ofNat']; omega
  -- the registers hold the stops
  have hreg : ∀ k (hk : k < stops.length),
      z'.cReg.get6 (10 + (0 + UInt8.ofNat k)) = stops[k].2 ∧ z'.nReg.get6 (10 + (0 + UInt8.ofNat k)) = stops[k].1 := by
    intro k hk
    apply r6 k hk
    have : (10 + (0 + UInt8.ofNat k) : UInt8).toNat = 10 + k := by
      simp [UInt8.toNat_add, UInt8.toNat_ofNat']; omega
    rw [this]
  have hcol := collectStops_complete z'.cReg z'.nReg 10 10 stops 0 (Ren.zeroA : ℚ) true hv (Or.inl rfl) hreg
  -- at least two stops
  obtain ⟨a, b, rest, rfl⟩ : ∃ a b rest, stops = a :: b :: rest := by
    match stops, h2 with
    | a :: b :: rest, _ => exact ⟨a, b, rest, rfl⟩
  have hcol' : collectStops (β := ℚ) z'.cReg z'.nReg (decodeGradient gv).cBase (decodeGradient gv).nBase
      (decodeGradient gv).nStops.toNat 0 (Ren.zeroA : ℚ) true = some (toStop a :: toStop b :: rest.map toStop) := by
    rw [hcB, hnB, hnS]; exact hcol
  have hinit := initGradient_of_collect z' gv _ _ _ hcol'
  refine ⟨_, hinit, ?_, ?_, ?_, ?_⟩
  · rw [(init_eq _ _ _ _ _ _).1, hsh]
  · rw [(init_eq _ _ _ _ _ _).1, hsp]
  · intro px py
    rw [(init_eq _ _ _ _ _ _).1]
    have hc := pix2grad_compose z' (decodeGradient gv).nBase px py
    simp only at hc
    rw [hnB] at hc
    have e4 : ((10 : UInt8) - 6) = 4 := by decide
    have e5 : ((10 : UInt8) - 5) = 5 := by decide
    have e6 : ((10 : UInt8) - 4) = 6 := by decide
    have e7 : ((10 : UInt8) - 3) = 7 := by decide
    have e8 : ((10 : UInt8) - 2) = 8 := by decide
    have e9 : ((10 : UInt8) - 1) = 9 := by decide
    rw [e4, e5, e6, e7, e8, e9, r7.1, r7.2.1, r7.2.2.1, r7.2.2.2.1, r7.2.2.2.2.1, r7.2.2.2.2.2] at hc
    have hux : z'.unabsX px = z.unabsX px := by
      have h1 : z'.scaleX = z.scaleX := congrArg (fun o => o.2.1) r4
      have h2 : z'.biasX = z.biasX := congrArg (fun o => o.2.2.1) r4
      simp only [Renderer.unabsX, h1, h2]
    have huy : z'.unabsY py = z.unabsY py := by
      have h1 : z'.scaleY = z.scaleY := congrArg (fun o => o.2.2.2.1) r4
      have h2 : z'.biasY = z.biasY := congrArg (fun o => o.2.2.2.2.1) r4
      simp only [Renderer.unabsY, h1, h2]
    rw [hux, huy] at hc
    rw [hnB]
    exact hc
  · intro x y
    have hinc := stopsValid_increasing _ hv
    have hok : ∀ s ∈ toStop a :: toStop b :: rest.map toStop, chanOK s.color := by
      intro s hs
      have : s ∈ (a :: b :: rest).map toStop := by simpa using hs
      obtain ⟨u, -, rfl⟩ := List.mem_map.mp this
      exact rgba64Of_ok _
    have := at_spec (decodeGradient gv).shape (decodeGradient gv).spread (pixMatrix z' (decodeGradient gv).nBase)
      (toStop a) (toStop b) (rest.map toStop) hinc hok x y
    rw [this, hsp]
    congr 1
    simp [specStops, toStop, List.map_map]
end Composed

end Ivg.GenQ
