import Ivg.Lemmas.Geom32
/-!
# Mixed (relative + absolute) error of short float32 expressions

Toolkit for `Gen32*.lean` (C19, gradient helpers) and `Xf32.lean` (C20, transforms).  A product or quotient
that falls below the normal range has the ABSOLUTE error `tiny = u·2^-126 = 2^-150` instead of the relative
error `u = 2^-24`; sums and differences never do (`FloatErr.add_err`).  Carrying `u·|exact| + tiny` through
the two- and three-term expressions of the generator (`a·b ± c·d`, `a·b + c·d + e`) needs no hypothesis
excluding underflow.

* `mul_mix`, `div_mix`           : one rounded product / quotient, both regimes at once
* `mul_zero_exact`, `add_zero_exact`, `zero_add_exact` : operations with an exact zero are exact
* `dot2_add`, `dot2_sub`, `dot3` : `fl(fl(a·b) ± fl(c·d))`, `fl(fl(fl(a·b) + fl(c·d)) + e)`
-/
namespace Ivg.Mix32
open Ivg Num FloatOrder32 FloatMono32 FloatErr Geom32

/-- the absolute error `u·2^-126 = 2^-150` of a product or quotient that underflows -/
def tiny : ℚ := u * minN

theorem tiny_pos : 0 < tiny := mul_pos u_pos minN_pos

/-- `tiny ≤ u·2^-42` (a weak bound, all that is needed) -/
theorem tiny_le : tiny ≤ u / 4398046511104 := by
  calc u * minN ≤ u * (1 / 4398046511104) := mul_le_mul_of_nonneg_left Axis.minN_le_small u_pos.le
    _ = u / 4398046511104 := by ring

/-- `2^100`: every intermediate result of the files using this toolkit stays below it -/
def cap : ℚ := 1267650600228229401496703205376

theorem cap_pos : 0 < cap := by unfold cap; norm_num

theorem le_maxv {v : ℚ} (h : v ≤ 1329227995784915872903807060280344576) : v ≤ maxv :=
  le_trans h Axis.maxv_ge_big

theorem tiny_le_one : tiny ≤ 1 := by
  have := tiny_le; unfold u at this; linarith

/-! ## one operation -/

theorem mul_mix {a b : F32} (ha : Fn a) (hb : Fn b) (hr : |val a * val b| ≤ maxv) :
    Fn (a * b) ∧ |val (a * b) - val a * val b| ≤ u * |val a * val b| + tiny := by
  obtain ⟨f, h⟩ := mul_err ha hb hr
  refine ⟨f, ?_⟩
  have h0 := mul_nonneg u_pos.le (abs_nonneg (val a * val b))
  have ht := tiny_pos
  rcases h with h | ⟨_, h⟩
  · linarith
  · unfold tiny; linarith

theorem div_mix {a b : F32} (ha : Fn a) (hb : Fn b) (h0 : val b ≠ 0) (hr : |val a / val b| ≤ maxv) :
    Fn (a / b) ∧ |val (a / b) - val a / val b| ≤ u * |val a / val b| + tiny := by
  obtain ⟨f, h⟩ := div_err ha hb h0 hr
  refine ⟨f, ?_⟩
  have h0 := mul_nonneg u_pos.le (abs_nonneg (val a / val b))
  have ht := tiny_pos
  rcases h with h | ⟨_, h⟩
  · linarith
  · unfold tiny; linarith

theorem Rnd_zero_val {b : Nat} (h : Rnd 0 b) : bval b = 0 :=
  Rnd_repr 0 b 0 h (by norm_num) (by decide) (bval_zero 0 rfl)

/-- a product with an exact zero is an exact zero (of either sign) -/
theorem mul_zero_exact {a b : F32} (ha : Fn a) (hb : Fn b) (h : val a * val b = 0) :
    Fn (a * b) ∧ val (a * b) = 0 := by
  have hr := mul_nb ha hb
  rw [h] at hr
  exact ⟨Rnd_fin _ _ hr (by rw [abs_zero]; exact Axis.maxv_pos.le), Rnd_zero_val hr⟩

/-- adding an exact zero changes nothing (in value) -/
theorem add_zero_exact {a b : F32} (ha : Fn a) (hb : Fn b) (h : val b = 0) :
    Fn (a + b) ∧ val (a + b) = val a := by
  have hr := add_nb ha hb
  rw [h, add_zero] at hr
  exact ⟨Rnd_fin _ _ hr (abs_val_le_maxv ha), Rnd_repr _ _ a.nb hr (nb_lt a) ha rfl⟩

theorem zero_add_exact {a b : F32} (ha : Fn a) (hb : Fn b) (h : val a = 0) :
    Fn (a + b) ∧ val (a + b) = val b := by
  have hr := add_nb ha hb
  rw [h, zero_add] at hr
  exact ⟨Rnd_fin _ _ hr (abs_val_le_maxv hb), Rnd_repr _ _ b.nb hr (nb_lt b) hb rfl⟩

theorem ofInt_val (i : Int) (h : i.natAbs < 16777216) : Fn (F32.ofInt i) ∧ val (F32.ofInt i) = (i : ℚ) :=
  FloatRound32.ofInt_F32_exact i h

theorem zero_val : Fn (F32.ofInt 0) ∧ val (F32.ofInt 0) = 0 := by
  have := ofInt_val 0 (by decide); simpa using this

theorem one_val : Fn (F32.ofInt 1) ∧ val (F32.ofInt 1) = 1 := by
  have := ofInt_val 1 (by decide); simpa using this

theorem neg_val {a : F32} (ha : Fn a) : Fn (-a) ∧ val (-a) = - val a := ⟨neg_Fin.2 ha, val_neg a⟩

/-- a product with an exact one is exact -/
theorem one_mul_exact {a b : F32} (ha : Fn a) (hb : Fn b) (h : val a = 1) :
    Fn (a * b) ∧ val (a * b) = val b := by
  have hr := mul_nb ha hb
  rw [h, one_mul] at hr
  exact ⟨Rnd_fin _ _ hr (abs_val_le_maxv hb), Rnd_repr _ _ b.nb hr (nb_lt b) hb rfl⟩

theorem mul_one_exact {a b : F32} (ha : Fn a) (hb : Fn b) (h : val b = 1) :
    Fn (a * b) ∧ val (a * b) = val a := by
  have hr := mul_nb ha hb
  rw [h, mul_one] at hr
  exact ⟨Rnd_fin _ _ hr (abs_val_le_maxv ha), Rnd_repr _ _ a.nb hr (nb_lt a) ha rfl⟩

/-! ## sums of rounded products, over `ℚ` -/

theorem mix_abs_le {p P : ℚ} (hp : |p - P| ≤ u * |P| + tiny) : |p| ≤ (1 + u) * |P| + tiny := by
  have := abs_sub_abs_le_abs_sub p P
  linarith

/-- `s = fl(p + q)` with `p`, `q` rounded products of `P`, `Q` -/
theorem sum2 {p q P Q s : ℚ} (hp : |p - P| ≤ u * |P| + tiny) (hq : |q - Q| ≤ u * |Q| + tiny)
    (hs : |s - (p + q)| ≤ u * |p + q|) :
    |s - (P + Q)| ≤ (2 * u + u * u) * (|P| + |Q|) + (2 + 2 * u) * tiny := by
  have h1 := mix_abs_le hp
  have h2 := mix_abs_le hq
  have h3 := abs_add_le p q
  have h4 := abs_sub_le s (p + q) (P + Q)
  have h5 : |p + q - (P + Q)| ≤ |p - P| + |q - Q| := by
    have : p + q - (P + Q) = (p - P) + (q - Q) := by ring
    rw [this]; exact abs_add_le _ _
  have hP := abs_nonneg P
  have hQ := abs_nonneg Q
  have ht := tiny_pos
  have h6 : u * |p + q| ≤ u * ((1 + u) * |P| + tiny + ((1 + u) * |Q| + tiny)) :=
    mul_le_mul_of_nonneg_left (by linarith) u_pos.le
  have e : u * ((1 + u) * |P| + tiny + ((1 + u) * |Q| + tiny)) =
      (u + u * u) * (|P| + |Q|) + 2 * u * tiny := by ring
  have e2 : (2 * u + u * u) * (|P| + |Q|) + (2 + 2 * u) * tiny =
      (u + u * u) * (|P| + |Q|) + 2 * u * tiny + (u * |P| + tiny) + (u * |Q| + tiny) := by ring
  rw [e2]
  linarith

/-- `s = fl(p − q)` -/
theorem diff2 {p q P Q s : ℚ} (hp : |p - P| ≤ u * |P| + tiny) (hq : |q - Q| ≤ u * |Q| + tiny)
    (hs : |s - (p - q)| ≤ u * |p - q|) :
    |s - (P - Q)| ≤ (2 * u + u * u) * (|P| + |Q|) + (2 + 2 * u) * tiny := by
  have hq' : |(-q) - (-Q)| ≤ u * |(-Q)| + tiny := by
    rw [abs_neg]
    have : -q - -Q = -(q - Q) := by ring
    rw [this, abs_neg]; exact hq
  have hs' : |s - (p + -q)| ≤ u * |p + -q| := by
    have : p + -q = p - q := by ring
    rw [this]; exact hs
  have := sum2 hp hq' hs'
  rw [abs_neg] at this
  have e : P + -Q = P - Q := by ring
  rw [e] at this
  exact this

/-- one more rounded addition of an exact term -/
theorem sum3 {s S E r e : ℚ} (hs : |s - S| ≤ E) (hr : |r - (s + e)| ≤ u * |s + e|) :
    |r - (S + e)| ≤ (1 + u) * E + u * (|S| + |e|) := by
  have h1 := abs_sub_abs_le_abs_sub s S
  have h2 := abs_add_le s e
  have h3 := abs_sub_le r (s + e) (S + e)
  have h4 : s + e - (S + e) = s - S := by ring
  rw [h4] at h3
  have h5 : u * |s + e| ≤ u * (|S| + E + |e|) := mul_le_mul_of_nonneg_left (by linarith) u_pos.le
  have e1 : (1 + u) * E + u * (|S| + |e|) = u * (|S| + E + |e|) + E := by ring
  rw [e1]
  linarith

/-! ## the same at `F32` -/

theorem cap_sq_le : (1 + u) * cap + 1 ≤ 2 * cap := by unfold u cap; norm_num

/-- size of a rounded product below `cap` -/
theorem mix_size {p P : ℚ} (hp : |p - P| ≤ u * |P| + tiny) (hP : |P| ≤ cap) : |p| ≤ 2 * cap := by
  have h1 := mix_abs_le hp
  have h2 := tiny_le_one
  have h3 : (1 + u) * |P| ≤ (1 + u) * cap := mul_le_mul_of_nonneg_left hP (by unfold u; norm_num)
  have := cap_sq_le
  linarith

/-- `fl(fl(a·b) + fl(c·d))` -/
theorem dot2_add {a b c d : F32} (fa : Fn a) (fb : Fn b) (fc : Fn c) (fd : Fn d)
    (h1 : |val a * val b| ≤ cap) (h2 : |val c * val d| ≤ cap) :
    Fn (a * b + c * d) ∧
    |val (a * b + c * d) - (val a * val b + val c * val d)| ≤
      (2 * u + u * u) * (|val a * val b| + |val c * val d|) + (2 + 2 * u) * tiny := by
  have hc : cap ≤ 1329227995784915872903807060280344576 := by unfold cap; norm_num
  obtain ⟨fp, hp⟩ := mul_mix fa fb (le_maxv (le_trans h1 hc))
  obtain ⟨fq, hq⟩ := mul_mix fc fd (le_maxv (le_trans h2 hc))
  have s1 := mix_size hp h1
  have s2 := mix_size hq h2
  have hsum : |val (a * b) + val (c * d)| ≤ maxv := by
    have := abs_add_le (val (a * b)) (val (c * d))
    apply le_maxv
    unfold cap at s1 s2; linarith
  obtain ⟨fs, hs⟩ := add_err fp fq hsum
  exact ⟨fs, sum2 hp hq hs⟩

/-- `fl(fl(a·b) − fl(c·d))` -/
theorem dot2_sub {a b c d : F32} (fa : Fn a) (fb : Fn b) (fc : Fn c) (fd : Fn d)
    (h1 : |val a * val b| ≤ cap) (h2 : |val c * val d| ≤ cap) :
    Fn (a * b - c * d) ∧
    |val (a * b - c * d) - (val a * val b - val c * val d)| ≤
      (2 * u + u * u) * (|val a * val b| + |val c * val d|) + (2 + 2 * u) * tiny := by
  have hc : cap ≤ 1329227995784915872903807060280344576 := by unfold cap; norm_num
  obtain ⟨fp, hp⟩ := mul_mix fa fb (le_maxv (le_trans h1 hc))
  obtain ⟨fq, hq⟩ := mul_mix fc fd (le_maxv (le_trans h2 hc))
  have s1 := mix_size hp h1
  have s2 := mix_size hq h2
  have hsum : |val (a * b) - val (c * d)| ≤ maxv := by
    have := abs_sub (val (a * b)) (val (c * d))
    apply le_maxv
    unfold cap at s1 s2; linarith
  obtain ⟨fs, hs⟩ := sub_err fp fq hsum
  exact ⟨fs, diff2 hp hq hs⟩

/-- `fl(fl(fl(a·b) + fl(c·d)) + e)`: the form of `MulAff3` and of every entry of `Concat` -/
theorem dot3 {a b c d e : F32} (fa : Fn a) (fb : Fn b) (fc : Fn c) (fd : Fn d) (fe : Fn e)
    (h1 : |val a * val b| ≤ cap) (h2 : |val c * val d| ≤ cap) (h3 : |val e| ≤ cap) :
    Fn (a * b + c * d + e) ∧
    |val (a * b + c * d + e) - (val a * val b + val c * val d + val e)| ≤
      (3 * u + 3 * u * u + u * u * u) * (|val a * val b| + |val c * val d|) + u * |val e| + 3 * tiny := by
  obtain ⟨fs, hs⟩ := dot2_add fa fb fc fd h1 h2
  have hP := abs_nonneg (val a * val b)
  have hQ := abs_nonneg (val c * val d)
  have ht := tiny_pos
  have ht1 := tiny_le_one
  have hu : u = 1 / 16777216 := rfl
  have hsz : |val (a * b + c * d)| ≤ 3 * cap := by
    have := abs_sub_abs_le_abs_sub (val (a * b + c * d)) (val a * val b + val c * val d)
    have := abs_add_le (val a * val b) (val c * val d)
    rw [hu] at hs
    unfold cap at h1 h2 ⊢
    linarith
  have hsum : |val (a * b + c * d) + val e| ≤ maxv := by
    have := abs_add_le (val (a * b + c * d)) (val e)
    apply le_maxv
    unfold cap at hsz h3; linarith
  obtain ⟨fr, hr⟩ := add_err fs fe hsum
  refine ⟨fr, ?_⟩
  have h := sum3 hs hr
  have htri := abs_add_le (val a * val b) (val c * val d)
  have e1 : (1 + u) * ((2 * u + u * u) * (|val a * val b| + |val c * val d|) + (2 + 2 * u) * tiny) +
      u * (|val a * val b + val c * val d| + |val e|) ≤
      (3 * u + 3 * u * u + u * u * u) * (|val a * val b| + |val c * val d|) + u * |val e| + 3 * tiny := by
    have h5 : u * |val a * val b + val c * val d| ≤ u * (|val a * val b| + |val c * val d|) :=
      mul_le_mul_of_nonneg_left htri u_pos.le
    have h6 : (1 + u) * (2 + 2 * u) * tiny ≤ 3 * tiny :=
      mul_le_mul_of_nonneg_right (by rw [hu]; norm_num) ht.le
    have e3 : (1 + u) * ((2 * u + u * u) * (|val a * val b| + |val c * val d|) + (2 + 2 * u) * tiny) +
      u * (|val a * val b + val c * val d| + |val e|) =
      (2 * u + 3 * u * u + u * u * u) * (|val a * val b| + |val c * val d|) + (1 + u) * (2 + 2 * u) * tiny +
        u * |val a * val b + val c * val d| + u * |val e| := by ring
    rw [e3]
    have e4 : (3 * u + 3 * u * u + u * u * u) * (|val a * val b| + |val c * val d|) =
      (2 * u + 3 * u * u + u * u * u) * (|val a * val b| + |val c * val d|) +
        u * (|val a * val b| + |val c * val d|) := by ring
    rw [e4]
    linarith
  exact le_trans h e1

end Ivg.Mix32
