import Ivg.Lemmas.MdParse2
/-!
# C20, parsing clauses — the converter's `ParsePathData`: the round trip

`parsePathData_renderMd`: for every well-formed path of the converter's dialect (`WellFormedMd`), printed
with any runs of spaces, `ParsePathData` succeeds and makes exactly the calls `spelledMd` by the path.
-/
namespace Ivg.MdParse
open Ivg Gen Spec.PathData PathParse
variable {α : Type} [Arith α]

theorem mdCmdOK_elim (c : MdCmd) (h : mdCmdOK c = true) :
    ∃ n, Md.opArgCount c.cmd.verb = some n ∧
      ((n = 0 ∧ c.cmd.groups = []) ∨
       (n ≠ 0 ∧ ∃ g gs, c.cmd.groups = g :: gs ∧ (∀ g' ∈ g :: gs, g'.length = n ∧ ∀ t ∈ g', TokOKmd t) ∧
          chainOK (g :: gs).flatten = true ∧ (isMove c.cmd.verb = true → gs = []))) := by
  unfold mdCmdOK at h
  rw [arityMd_eq] at h
  split at h
  · cases h
  · rename_i hv
    exact ⟨0, hv, Or.inl ⟨rfl, by simpa using h⟩⟩
  · rename_i n hn0 hv
    refine ⟨n, hv, Or.inr ⟨fun h0 => hn0 h0, ?_⟩⟩
    simp only [Bool.and_eq_true, Bool.not_eq_true', List.isEmpty_eq_false_iff, List.all_eq_true, beq_iff_eq,
      ne_eq, Bool.or_eq_true] at h
    obtain ⟨⟨⟨⟨hne, hlen⟩, htok⟩, hchain⟩, hmv⟩ := h
    cases hg : c.cmd.groups with
    | nil => exact absurd hg hne
    | cons g gs =>
      rw [hg] at hlen htok hchain hmv
      refine ⟨g, gs, rfl, fun g' h' => ⟨hlen g' h', fun t ht => ⟨(htok g' h' t ht).1, ?_⟩⟩, hchain, ?_⟩
      · have := (htok g' h' t ht).2
        intro c hc
        have := this c hc
        simpa [isSpace] using this
      · intro hm
        rcases hmv with h1 | h1
        · rw [hm] at h1; cases h1
        · simpa using h1

theorem cmdCallsMd_eq (size offX offY outSize : α) (f : CTok → α) (v : Char) (n : Nat) (g : List CTok)
    (gs : List (List CTok)) (hall : ∀ g' ∈ g :: gs, g'.length = n) (hmove : isMove v = true → gs = []) :
    cmdCallsMd size offX offY outSize (Cmd.map f ⟨v, g :: gs⟩) =
      draw v (Md.normalizeArgs (g.map f) n v size offX offY outSize (isRel v)) ++
        gs.flatMap (fun g => draw v (Md.normalizeArgs (g.map f) n v size offX offY outSize (isRel v))) := by
  simp only [cmdCallsMd, Cmd.map, List.map_cons, opMd, List.length_map, List.flatMap_map]
  rw [hall g List.mem_cons_self]
  congr 1
  by_cases hm : isMove v = true
  · rw [hmove hm]; rfl
  · have hl : lineVerb v = v := by
      simp only [isMove, decide_eq_true_eq, not_or] at hm
      simp [lineVerb, hm.1, hm.2]
    rw [hl]
    apply flatMap_congr'
    intro a ha
    rw [hall a (List.mem_cons_of_mem _ ha)]

/-- what follows a command: the next verb letter, or nothing (`'z'` stands in) — either ends a numeral -/
theorem rest_head (cs : List MdCmd) (hcs : ∀ c ∈ cs, mdCmdOK c = true) :
    isSep ((renderMdCmds cs).headD 'z') = false ∧ isDigit ((renderMdCmds cs).headD 'z') = false ∧
      (renderMdCmds cs).headD 'z' ≠ '.' := by
  cases cs with
  | nil => exact ⟨by decide, by decide, by decide⟩
  | cons c cs =>
    obtain ⟨n, hv, _⟩ := mdCmdOK_elim c (hcs c List.mem_cons_self)
    have := (op_letter c.cmd.verb (by rw [hv]; simp)).2.2
    simpa [renderMdCmds, renderMdCmd] using this

theorem tokOKmd_flatten (gs : List (List CTok)) (n : Nat) (hall : ∀ g' ∈ gs, g'.length = n ∧ ∀ t ∈ g', TokOKmd t) :
    ∀ t ∈ gs.flatten, TokOK t := by
  intro t ht
  obtain ⟨g', hg', htg⟩ := List.mem_flatten.mp ht
  exact ((hall g' hg').2 t htg).toOK

/-- the commands after the first -/
theorem loop_cmds (adj : UInt8) (size offX offY outSize : α) (cs : List MdCmd)
    (hcs : ∀ c ∈ cs, mdCmdOK c = true) :
    ∀ k > (renderMdCmds cs).length, ∀ op,
      Md.pathLoop adj size offX offY outSize k true op (renderMdCmds cs) =
        .ok (cs.flatMap (fun c => cmdCallsMd size offX offY outSize (c.cmd.map fun t => t.tok.value32))) := by
  induction cs with
  | nil =>
    intro k hk op
    obtain ⟨k', rfl⟩ : ∃ k', k = k' + 1 := ⟨k - 1, by omega⟩
    simp [renderMdCmds, Md.pathLoop]
  | cons c cs ih =>
    intro k hk op
    have hcs' : ∀ c' ∈ cs, mdCmdOK c' = true := fun c' h' => hcs c' (List.mem_cons_of_mem _ h')
    have hih := ih hcs'
    have hterm := rest_head cs hcs'
    have hstr : renderMdCmds (c :: cs) = renderMdCmd c ++ renderMdCmds cs := by simp [renderMdCmds]
    rw [hstr] at hk ⊢
    obtain ⟨⟨v, groups⟩, lead⟩ := c
    obtain ⟨n, hv, h | ⟨hn, g, gs, hgs, hall, hchain, hmove⟩⟩ := mdCmdOK_elim _ (hcs _ List.mem_cons_self)
    · obtain ⟨rfl, hg⟩ := h
      simp only at hg hv; subst hg
      rw [loop_cmd_z adj size offX offY outSize v lead hv _ _ hih k hk true op]
      simp [cmdCallsMd, Cmd.map]
    · simp only at hgs hv hmove; subst hgs
      have hch := chainTo_of_chainOK _ (tokOKmd_flatten _ n hall) hchain _ hterm
      rw [loop_cmd adj size offX offY outSize true v lead n hv hn g gs hall hmove _ hch _ hih k hk op]
      simp only [List.flatMap_cons, Bool.true_eq_false, and_false, ↓reduceIte]
      rw [cmdCallsMd_eq size offX offY outSize _ v n g gs (fun g' h' => (hall g' h').1) hmove]

/-- the whole data (after `TrimSuffix "z"`) -/
theorem pathLoop_render (adj : UInt8) (size offX offY outSize : α) (cs : List MdCmd) (hwf : WellFormedMd cs) :
    ∀ k > (renderMdCmds cs).length,
      Md.pathLoop adj size offX offY outSize k false none (renderMdCmds cs) =
        .ok (spelledMd adj size offX offY outSize (cs.map fun c => c.cmd.map fun t => t.tok.value32)) := by
  intro k hk
  obtain ⟨hfirst, hall⟩ := hwf
  rw [List.all_eq_true] at hall
  cases cs with
  | nil => simp at hfirst
  | cons c cs =>
    simp only [beq_iff_eq] at hfirst
    have hcs' : ∀ c' ∈ cs, mdCmdOK c' = true := fun c' h' => hall c' (List.mem_cons_of_mem _ h')
    have hrest := loop_cmds adj size offX offY outSize cs hcs'
    have hterm := rest_head cs hcs'
    have hstr : renderMdCmds (c :: cs) = renderMdCmd c ++ renderMdCmds cs := by simp [renderMdCmds]
    rw [hstr] at hk ⊢
    obtain ⟨⟨v, groups⟩, lead⟩ := c
    simp only at hfirst; subst hfirst
    obtain ⟨n, hv, h | ⟨hn, g, gs, hgs, hallg, hchain, hmove⟩⟩ := mdCmdOK_elim _ (hall _ List.mem_cons_self)
    · simp only at hv; cases hv; exact absurd h.1 (by decide)
    · simp only at hgs hv hmove; subst hgs
      cases hv
      have hgs0 : gs = [] := hmove (by decide)
      subst hgs0
      have hch := chainTo_of_chainOK _ (tokOKmd_flatten _ 2 hallg) hchain _ hterm
      rw [loop_cmd adj size offX offY outSize false 'M' lead 2 rfl hn g [] hallg hmove _ hch _ hrest k hk none]
      simp [spelledMd, firstCallsMd, Cmd.map, List.flatMap_map, show isRel 'M' = false by decide]

/-! ## `TrimSuffix` -/

theorem trim_z (A : List Char) : Md.trimSuffixZ (A ++ ['z']) = A := by
  simp [Md.trimSuffixZ, List.reverse_append]

theorem trim_open (A : List Char) (h : A.getLast? ≠ some 'z') : Md.trimSuffixZ A = A := by
  unfold Md.trimSuffixZ
  split
  · rename_i r hr
    have : A.reverse.head? = some 'z' := by rw [hr]; rfl
    rw [List.head?_reverse] at this
    exact absurd this h
  · rfl

/-! ## headline -/

/-- **C20, parsing clause, converter.**  For every well-formed path of the converter's dialect
    (`WellFormedMd`: first command an absolute `M` at the very start, one operand group per move, no
    arcs, no commas) — printed with arbitrary runs of spaces after verb letters and numerals, possibly
    none where the next numeral delimits itself, terminated by `z` — `ParsePathData` succeeds and makes
    exactly the calls spelled by the path data: `StartPath(adj, …)` for the first move, then one drawing
    call per operand group, operands read as `ParseFloat(·, 32)` and passed through the converter's
    coordinate map.  (`ParsePath` then appends the circles and the one `ClosePathEndPath`.) -/
theorem parsePathData_renderMd (adj : UInt8) (size offX offY outSize : α) (cs : List MdCmd)
    (hwf : WellFormedMd cs) :
    Md.parsePathData (renderMd cs) adj size offX offY outSize =
      .ok (spelledMd adj size offX offY outSize (cs.map fun c => c.cmd.map fun t => t.tok.value32)) := by
  unfold Md.parsePathData renderMd
  rw [String.toList_ofList, trim_z]
  exact pathLoop_render adj size offX offY outSize cs hwf _ (by omega)

/-- … and the same without the terminating `z`, when the data does not happen to end in a `z` command -/
theorem parsePathData_renderMdOpen (adj : UInt8) (size offX offY outSize : α) (cs : List MdCmd)
    (hwf : WellFormedMd cs) (hz : (renderMdCmds cs).getLast? ≠ some 'z') :
    Md.parsePathData (renderMdOpen cs) adj size offX offY outSize =
      .ok (spelledMd adj size offX offY outSize (cs.map fun c => c.cmd.map fun t => t.tok.value32)) := by
  unfold Md.parsePathData renderMdOpen
  rw [String.toList_ofList, trim_open _ hz]
  exact pathLoop_render adj size offX offY outSize cs hwf _ (by omega)

end Ivg.MdParse
