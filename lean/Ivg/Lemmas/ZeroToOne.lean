import Ivg.Lemmas.SpecDiv
import Ivg.Lemmas.Quantize
/-!
# Zero-to-one numbers: the short forms are accurate to one unit in the last place

`encodeZeroToOne f` uses a 1- or 2-byte form only if `g = f*15120` (one float32 rounding) is exactly an
integer `u < 15120`; the decoder returns `float32(u)/15120` or `float32(u/126)/120` (one more rounding).
`z2o_bound`: the decoded float and `f` are `==` (both zeros) or have the same sign and bit patterns at
distance ≤ 1 — analytically, without tables:

* `mul15120_inv`: if the product is a finite float ≥ 1 then `f` is a positive normal number and the
  product's mantissa `q` satisfies `|F·N − q·2^sh| ≤ 2^(sh−1)` (`rne_err`);
* `div_bits` (on top of `SpecDiv.lean`: float32 division of integers is correctly rounded): the
  quotient's mantissa `q'` satisfies `|T − q'·d·2^s| ≤ d·2^(s−1)` (`rq_err`);
* `core1`/`core2`: in each of the finitely many exponent configurations the two half-unit bounds force
  the bit patterns to within 1 (linear arithmetic).
-/
namespace Ivg.Z2O
open Ivg Num Codec

/-! ## rounding error of one `roundMag` (right-shift case) -/

theorem roundMag32_q (m : Nat) (e fe : Int)
    (hfe : fe = if e + (bitLen m : Int) - 24 < -149 then -149 else e + (bitLen m : Int) - 24) :
    ∃ q : Nat,
      q = (if fe ≤ e then m * 2 ^ (e - fe).toNat
        else
          if m % 2 ^ (fe - e).toNat > 2 ^ ((fe - e).toNat - 1) ||
              (m % 2 ^ (fe - e).toNat == 2 ^ ((fe - e).toNat - 1) && m / 2 ^ (fe - e).toNat % 2 == 1)
          then m / 2 ^ (fe - e).toNat + 1 else m / 2 ^ (fe - e).toNat) ∧
      roundMag .f32 m e =
        if (fe + 149).toNat * 8388608 + q ≥ 2139095040 then 2139095040
        else (fe + 149).toNat * 8388608 + q :=
  ⟨_, rfl, roundMag_f32 m e fe hfe⟩

/-- round-to-nearest of `n / 2^s`: the result `q` satisfies `|n − q·2^s| ≤ 2^(s−1)` -/
theorem rne_err (n s : Nat) (hs : 1 ≤ s) (q : Nat)
    (hq : q = if n % 2 ^ s > 2 ^ (s - 1) || (n % 2 ^ s == 2 ^ (s - 1) && n / 2 ^ s % 2 == 1)
      then n / 2 ^ s + 1 else n / 2 ^ s) :
    2 * (q * 2^s) ≤ 2 * n + 2^s ∧ 2 * n ≤ 2 * (q * 2^s) + 2^s ∧ n / 2^s ≤ q ∧ q ≤ n / 2^s + 1 := by
  have hP : 2^s = 2 * 2^(s-1) := by
    have : s = (s - 1) + 1 := by omega
    conv => lhs; rw [this, Nat.pow_succ]
    omega
  have hdm := Nat.div_add_mod n (2^s)
  have hr := Nat.mod_lt n (Nat.two_pow_pos s)
  generalize n / 2^s = q0 at *
  generalize n % 2^s = r at *
  generalize 2^(s-1) = h at *
  generalize 2^s = P at *
  subst hP
  by_cases hc : (decide (r > h) || (r == h && q0 % 2 == 1)) = true
  · rw [if_pos hc] at hq
    have hrh : h ≤ r := by
      simp only [Bool.or_eq_true, decide_eq_true_eq, Bool.and_eq_true, beq_iff_eq] at hc
      omega
    subst hq
    rw [Nat.add_mul, Nat.one_mul]
    generalize hX : q0 * (2 * h) = X at *
    have : 2 * h * q0 = X := by rw [Nat.mul_comm]; exact hX
    omega
  · rw [if_neg hc] at hq
    have hrh : r ≤ h := by
      simp only [Bool.or_eq_true, decide_eq_true_eq, Bool.and_eq_true, beq_iff_eq, not_or] at hc
      omega
    rw [hq]
    generalize hX : q0 * (2 * h) = X at *
    have : 2 * h * q0 = X := by rw [Nat.mul_comm]; exact hX
    omega


/-! ## `f * 15120` -/

theorem unpack_15120 : unpack .f32 (F32.ofInt 15120).nb = .fin false 15482880 (-10) := by decide

theorem withSign32 (neg : Bool) (x : Nat) :
    withSign .f32 neg x = (if neg then 2147483648 else 0) + x := by
  unfold withSign; rw [signBit_f32]; split <;> omega

/-- product with the constant for a finite nonzero operand -/
theorem mulc_fin (c : Nat) (hc : unpack .f32 c = .fin false 15482880 (-10)) (a : Nat) (s : Bool)
    (m : Nat) (e : Int) (ha : unpack .f32 a = .fin s m e) (hm : 0 < m) :
    Num.mul .f32 a c = (if s then 2147483648 else 0) + roundMag .f32 (m * 15482880) (e + -10) := by
  rw [mul_fin_fin _ _ _ _ _ _ _ _ _ ha hc, bne_false, roundPack_pos _ _ _ _ (by omega), withSign32]

/-- generic upper bound for binary32 rounding -/
theorem roundMag32_le (n : Nat) (e : Int) (hn : 0 < n) (fe : Int)
    (hfe : fe = if e + (bitLen n : Int) - 24 < -149 then -149 else e + (bitLen n : Int) - 24) :
    roundMag .f32 n e ≤ (fe + 149).toNat * 8388608 + 16777216 := by
  obtain ⟨q, hq, hr⟩ := roundMag32_q n e fe hfe
  rw [hr]
  have hlt := (SpecL.bitLen_bounds hn).2
  generalize bitLen n = bl at *
  have c24 : (2:Nat)^24 = 16777216 := by decide
  have hqle : q ≤ 16777216 := by
    rw [hq]
    by_cases hle : fe ≤ e
    · rw [if_pos hle]
      have hd : bl + (e - fe).toNat ≤ 24 := by split at hfe <;> omega
      have h1 : n * 2^(e - fe).toNat < 2^bl * 2^(e - fe).toNat :=
        (Nat.mul_lt_mul_right (Nat.two_pow_pos _)).2 hlt
      rw [← Nat.pow_add] at h1
      have h2 := Nat.pow_le_pow_right (n := 2) (by omega) hd
      rw [c24] at h2
      clear c24
      omega
    · rw [if_neg hle]
      have hd : bl ≤ (fe - e).toNat + 24 := by split at hfe <;> omega
      have h2 := Nat.pow_le_pow_right (n := 2) (by omega) hd
      rw [Nat.pow_add, c24] at h2
      have h3 : n / 2^(fe - e).toNat < 16777216 :=
        Nat.div_lt_of_lt_mul (by omega)
      clear c24
      split <;> omega
  clear c24 hq
  split <;> omega


theorem mulc_nan_left (f : Fmt) (a b x : Nat) (ha : unpack f a = .nan x) :
    Num.mul f a b = propNaN f a b := by
  unfold Num.mul; rw [ha]

theorem mulc_inf_fin (f : Fmt) (a b : Nat) (s t : Bool) (n : Nat) (g : Int)
    (ha : unpack f a = .inf s) (hb : unpack f b = .fin t n g) :
    Num.mul f a b = if n == 0 then f.defaultNaN else withSign f (s != t) f.infBits := by
  unfold Num.mul; rw [ha, hb]

/-- if `f * 15120` is a finite float ≥ 1.0 then `f` is a positive normal number and the product is
    the correctly rounded `F·N·2^(e-10)`: the rounded mantissa `q` is within half a unit -/
theorem mul15120_inv (c : Nat) (hc : unpack .f32 c = .fin false 15482880 (-10)) (f : F32) (R : Nat)
    (hR : Num.mul .f32 f.nb c = R) (hR1 : 1065353216 ≤ R) (hR2 : R < 2139095040) :
    sgn f = 0 ∧ 1 ≤ expo f ∧ expo f ≤ 254 ∧
    ∃ q : Nat, 8388608 ≤ q ∧ q ≤ 16777216 ∧
      ((R = (expo f + 12) * 8388608 + q ∧
        2 * (q * 8388608) ≤ 2 * ((mant f + 8388608) * 15482880) + 8388608 ∧
        2 * ((mant f + 8388608) * 15482880) ≤ 2 * (q * 8388608) + 8388608) ∨
       (R = (expo f + 13) * 8388608 + q ∧
        2 * (q * 16777216) ≤ 2 * ((mant f + 8388608) * 15482880) + 16777216 ∧
        2 * ((mant f + 8388608) * 15482880) ≤ 2 * (q * 16777216) + 16777216)) := by
  obtain ⟨hf, hs, hex, hmt⟩ := nb_fields f
  rw [hf] at hR
  generalize sgn f = sg at *
  generalize expo f = ex at *
  generalize mant f = mt at *
  by_cases hex255 : ex = 255
  · -- Inf / NaN: the product has exponent field 255
    exfalso
    subst hex255
    have hu := unpack_f32 (sg * 2147483648 + 255 * 8388608 + mt)
    have h1 : (sg * 2147483648 + 255 * 8388608 + mt) / 8388608 % 256 = 255 := by omega
    have h2 : (sg * 2147483648 + 255 * 8388608 + mt) % 8388608 = mt := by omega
    rw [h1, h2, if_pos rfl] at hu
    by_cases hm : mt = 0
    · rw [if_pos hm] at hu
      rw [mulc_inf_fin _ _ _ _ _ _ _ hu hc] at hR
      have : ((15482880 : Nat) == 0) = false := rfl
      rw [this] at hR
      simp only [Bool.false_eq_true, if_false, withSign32, infBits_f32] at hR
      split at hR <;> omega
    · rw [if_neg hm] at hu
      rw [mulc_nan_left _ _ _ _ hu] at hR
      have hn : Num.isNaN .f32 (sg * 2147483648 + 255 * 8388608 + mt) = true := by
        simp only [Num.isNaN, signBit_f32, infBits_f32, decide_eq_true_eq]; omega
      simp only [propNaN, hn, if_true, quiet, Fmt.quietBit, mbits_f32] at hR
      have c22 : (2:Nat)^(23-1) = 4194304 := by decide
      simp only [c22] at hR
      clear c22
      split at hR <;> omega
  · by_cases hex0 : ex = 0
    · -- zero / subnormal: the product is below 1.0
      exfalso
      subst hex0
      have hu := unpack_f32 (sg * 2147483648 + 0 * 8388608 + mt)
      have h1 : (sg * 2147483648 + 0 * 8388608 + mt) / 8388608 % 256 = 0 := by omega
      have h2 : (sg * 2147483648 + 0 * 8388608 + mt) % 8388608 = mt := by omega
      rw [h1, h2, if_neg (by omega), if_pos rfl] at hu
      by_cases hm : mt = 0
      · subst hm
        rw [mul_fin_fin _ _ _ _ _ _ _ _ _ hu hc, Nat.zero_mul, Quant.roundPack_zero, withSign32] at hR
        split at hR <;> omega
      · rw [mulc_fin c hc _ _ _ _ hu (by omega)] at hR
        have hlt : mt * 15482880 < 2^47 := by
          have : (2:Nat)^47 = 140737488355328 := by decide
          rw [this]; omega
        have hbl := Quant.bitLen_le_of_lt _ _ hlt
        have hb := roundMag32_le (mt * 15482880) (-149 + -10) (by omega) _ rfl
        generalize bitLen (mt * 15482880) = bl at *
        generalize roundMag .f32 (mt * 15482880) (-149 + -10) = RM at *
        split at hb <;> split at hR <;> omega
    · -- normal
      have hu := unpack_normal sg ex mt hs (by omega) (by omega) hmt
      rw [mulc_fin c hc _ _ _ _ hu (by omega)] at hR
      have hsg : sg = 0 := by
        rcases Nat.lt_or_ge sg 1 with h | h
        · omega
        · exfalso
          have : sg = 1 := by omega
          subst this
          simp only [beq_self_eq_true, if_true] at hR
          omega
      subst hsg
      have hb0 : ((0 : Nat) == 1) = false := rfl
      simp only [hb0, Bool.false_eq_true, if_false, Nat.zero_add] at hR
      refine ⟨rfl, by omega, by omega, ?_⟩
      have c23 : (2:Nat)^23 = 8388608 := by decide
      have c24 : (2:Nat)^24 = 16777216 := by decide
      by_cases hP : (mt + 8388608) * 15482880 < 140737488355328
      · -- 47-bit product
        have hbl : bitLen ((mt + 8388608) * 15482880) = 46 + 1 := by
          apply bitLen_eq
          · have : (2:Nat)^46 = 70368744177664 := by decide
            rw [this]; omega
          · have : (2:Nat)^(46+1) = 140737488355328 := by decide
            rw [this]; exact hP
        have hfe : (ex : Int) - 150 + -10 + 23 =
            if (ex : Int) - 150 + -10 + (bitLen ((mt + 8388608) * 15482880) : Int) - 24 < -149 then -149
            else (ex : Int) - 150 + -10 + (bitLen ((mt + 8388608) * 15482880) : Int) - 24 := by
          rw [hbl]; split <;> omega
        obtain ⟨q, hq, hr⟩ := roundMag32_q _ _ _ hfe
        have hsh : ((ex : Int) - 150 + -10 + 23 - ((ex : Int) - 150 + -10)).toNat = 23 := by omega
        rw [if_neg (by omega), hsh] at hq
        obtain ⟨e1, e2, e3, e4⟩ := rne_err _ 23 (by omega) q hq
        rw [c23] at e1 e2 e3 e4
        clear c23 c24 hq
        have hbase : ((ex : Int) - 150 + -10 + 23 + 149).toNat = ex + 12 := by omega
        rw [hr, hbase] at hR
        clear hfe hbl hu hc hsh hbase hr hf
        have hq1 : 8388608 ≤ q := by clear e1 e2; omega
        have hq2 : q ≤ 16777216 := by clear e1 e2; omega
        refine ⟨q, hq1, hq2, Or.inl ⟨?_, e1, e2⟩⟩
        clear e1 e2 e3 e4
        split at hR <;> omega
      · -- 48-bit product
        have hbl : bitLen ((mt + 8388608) * 15482880) = 47 + 1 := by
          apply bitLen_eq
          · have : (2:Nat)^47 = 140737488355328 := by decide
            rw [this]; omega
          · have : (2:Nat)^(47+1) = 281474976710656 := by decide
            rw [this]; omega
        have hfe : (ex : Int) - 150 + -10 + 24 =
            if (ex : Int) - 150 + -10 + (bitLen ((mt + 8388608) * 15482880) : Int) - 24 < -149 then -149
            else (ex : Int) - 150 + -10 + (bitLen ((mt + 8388608) * 15482880) : Int) - 24 := by
          rw [hbl]; split <;> omega
        obtain ⟨q, hq, hr⟩ := roundMag32_q _ _ _ hfe
        have hsh : ((ex : Int) - 150 + -10 + 24 - ((ex : Int) - 150 + -10)).toNat = 24 := by omega
        rw [if_neg (by omega), hsh] at hq
        obtain ⟨e1, e2, e3, e4⟩ := rne_err _ 24 (by omega) q hq
        rw [c24] at e1 e2 e3 e4
        clear c23 c24 hq
        have hbase : ((ex : Int) - 150 + -10 + 24 + 149).toNat = ex + 13 := by omega
        rw [hr, hbase] at hR
        clear hfe hbl hu hc hsh hbase hr hf
        have hq1 : 8388608 ≤ q := by clear e1 e2; omega
        have hq2 : q ≤ 16777216 := by clear e1 e2; omega
        refine ⟨q, hq1, hq2, Or.inr ⟨?_, e1, e2⟩⟩
        clear e1 e2 e3 e4
        split at hR <;> omega

/-! ## rounding error of a correctly rounded quotient -/

/-- `rq T d e` (the float32 nearest to `T/d·2^e`) has mantissa `q` with `|T − q·d·2^s| ≤ d·2^(s−1)` -/
theorem rq_err (T d : Nat) (e fe : Int) (s : Nat) (hd : 0 < d)
    (hfe : fe = if e + (bitLen (T / d) : Int) - 24 < -149 then -149 else e + (bitLen (T / d) : Int) - 24)
    (hs : (fe - e).toNat = s) (hs1 : 1 ≤ s) :
    ∃ q : Nat, SpecL.rq T d e = SpecL.pack fe q ∧
      2 * (q * (d * 2^s)) ≤ 2 * T + d * 2^s ∧ 2 * T ≤ 2 * (q * (d * 2^s)) + d * 2^s ∧
      T / (d * 2^s) ≤ q ∧ q ≤ T / (d * 2^s) + 1 := by
  rw [SpecL.rq_eq_rqAt T d e fe hfe, hs]
  unfold SpecL.rqAt
  have hP : 2^s = 2 * 2^(s-1) := by
    have : s = (s - 1) + 1 := by omega
    conv => lhs; rw [this, Nat.pow_succ]
    omega
  have e1 : d * 2^s = 2 * (d * 2^(s-1)) := by rw [hP]; rw [Nat.mul_left_comm]
  rw [e1]
  have hDpos : 0 < d * 2^(s-1) := Nat.mul_pos hd (Nat.two_pow_pos _)
  generalize d * 2^(s-1) = D at *
  by_cases hD : D = 0
  · omega
  · have hdm := Nat.div_add_mod T (2 * D)
    have hr := Nat.mod_lt T (show 0 < 2 * D by omega)
    generalize T / (2 * D) = q0 at *
    generalize T % (2 * D) = r at *
    refine ⟨_, rfl, ?_⟩
    have hX : D * (2 * q0 + 1) = 2 * D * q0 + D := by
      rw [Nat.mul_add, Nat.mul_one, Nat.mul_left_comm, Nat.mul_assoc]
    rw [hX]
    by_cases hc : T > 2 * D * q0 + D ∨ (T = 2 * D * q0 + D ∧ q0 % 2 = 1)
    · rw [if_pos hc]
      have e2 : (q0 + 1) * (2 * D) = 2 * D * q0 + 2 * D := by
        rw [Nat.add_mul, Nat.one_mul, Nat.mul_comm]
      rw [e2]
      generalize 2 * D * q0 = X at *
      omega
    · rw [if_neg hc]
      have e2 : q0 * (2 * D) = 2 * D * q0 := Nat.mul_comm _ _
      rw [e2]
      generalize 2 * D * q0 = X at *
      omega


/-- bits of the correctly rounded quotient `float32(u)/float32(dd)`, with the half-unit error bound on
    its mantissa `q`.  `U = u·2^k` is the normalised 24-bit numerator, `T = U·2^c` the scaled one. -/
theorem div_bits (u dd k c bl : Nat) (hu0 : 0 < u) (hd0 : 0 < dd) (hd : dd < 16777216)
    (hU1 : 8388608 ≤ u * 2^k) (hU2 : u * 2^k < 16777216) (hk : k ≤ 23)
    (hc : 40 + bitLen dd = 24 + c) (hc40 : c ≤ 40)
    (hbl : bitLen (u * 2^k * 2^c / dd) = bl) (hbl40 : 40 ≤ bl) (hbl41 : bl ≤ 41) :
    ∃ q : Nat, 8388608 ≤ q ∧ q ≤ 16777216 ∧
      (F32.ofInt (u : Int) / F32.ofInt (dd : Int)).nb = (125 + bl - c - k) * 8388608 + q ∧
      2 * (q * (dd * 2^(bl - 24))) ≤ 2 * (u * 2^k * 2^c) + dd * 2^(bl - 24) ∧
      2 * (u * 2^k * 2^c) ≤ 2 * (q * (dd * 2^(bl - 24))) + dd * 2^(bl - 24) := by
  have hu : u < 16777216 := by
    have := Nat.le_mul_of_pos_right u (Nat.two_pow_pos k)
    omega
  rw [SpecL.ofInt_div_eq_ofRatio u dd hu0 hu hd0 hd]
  have hblU : bitLen (u * 2^k) = 24 := bitLen_eq (k := 23) hU1 hU2
  have hblu : bitLen u + k = 24 := by rw [← bitLen_mul_pow u k hu0]; exact hblU
  have hK : 40 + bitLen dd - bitLen u = c + k := by omega
  have hnum : u * 2^(c + k) = u * 2^k * 2^c := by
    rw [Nat.mul_assoc, ← Nat.pow_add, Nat.add_comm]
  have hbeq : (u == 0) = false := by simp; omega
  unfold F32.ofRatio
  simp only [hbeq, Bool.false_eq_true, if_false, hK, hnum]
  generalize hT : u * 2^k * 2^c = T at *
  have hTpos : 0 < T / dd := by
    rcases Nat.eq_zero_or_pos (T / dd) with h | h
    · rw [h] at hbl; simp [bitLen] at hbl; omega
    · exact h
  obtain ⟨hb1, hb2⟩ := SpecL.bitLen_bounds hTpos
  rw [hbl] at hb1 hb2
  have hb25 : 2^25 ≤ T / dd := by
    have := Nat.pow_le_pow_right (n := 2) (by omega) (show 25 ≤ bl - 1 by omega)
    omega
  rw [SpecL.roundPack_div false T dd _ hd0 hb25, withSign32]
  have hfe : -((c + k : Nat) : Int) + bl - 24 =
      if -((c + k : Nat) : Int) + (bitLen (T / dd) : Int) - 24 < -149 then -149
      else -((c + k : Nat) : Int) + (bitLen (T / dd) : Int) - 24 := by
    rw [hbl]; split <;> omega
  obtain ⟨q, hq, e1, e2, e3, e4⟩ := rq_err T dd (-((c + k : Nat) : Int)) _ (bl - 24) hd0 hfe (by omega)
    (by omega)
  -- the truncated mantissa has exactly 24 bits
  have hq0 : T / (dd * 2^(bl - 24)) = T / dd / 2^(bl - 24) := by rw [Nat.div_div_eq_div_mul]
  have hsplit : 2^bl = 2^(bl - 24) * 16777216 := by
    have : bl = (bl - 24) + 24 := by omega
    conv => lhs; rw [this, Nat.pow_add]
  have hsplit2 : 2^(bl - 1) = 2^(bl - 24) * 8388608 := by
    have : bl - 1 = (bl - 24) + 23 := by omega
    rw [this, Nat.pow_add]
  have hlo : 8388608 ≤ T / dd / 2^(bl - 24) := by
    apply (Nat.le_div_iff_mul_le (Nat.two_pow_pos _)).2
    rw [Nat.mul_comm, ← hsplit2]; exact hb1
  have hhi : T / dd / 2^(bl - 24) < 16777216 := by
    apply Nat.div_lt_of_lt_mul
    rw [← hsplit]; exact hb2
  rw [hq0] at e3 e4
  refine ⟨q, by omega, by omega, ?_, e1, e2⟩
  rw [hq]
  unfold SpecL.pack
  have hbase : (-((c + k : Nat) : Int) + bl - 24 + 149).toNat = 125 + bl - c - k := by omega
  rw [hbase]
  have hqle : q ≤ 16777216 := by omega
  have hnb : ∀ x : Nat, x < 4294967296 → (F32.ofNatBits x).nb = x := nb_ofNatBits
  have hb : 125 + bl - c - k ≤ 166 := by omega
  clear e1 e2 e3 e4 hq hfe hb1 hb2 hb25 hsplit hsplit2 hlo hhi hq0 hbase
  generalize 125 + bl - c - k = base at *
  have hnov : ¬ (base * 8388608 + q ≥ 2139095040) := by omega
  rw [if_neg hnov]
  simp only [Bool.false_eq_true, if_false, Nat.zero_add]
  rw [hnb _ (by omega)]

/-! ## zero products -/

theorem roundMag32_le_inf (n : Nat) (e : Int) : roundMag .f32 n e ≤ 2139095040 := by
  obtain ⟨fe, hfe⟩ : ∃ fe : Int, fe = if e + (bitLen n : Int) - 24 < -149 then -149
      else e + (bitLen n : Int) - 24 := ⟨_, rfl⟩
  obtain ⟨q, _, hr⟩ := roundMag32_q n e fe hfe
  rw [hr]
  by_cases h : (fe + 149).toNat * 8388608 + q ≥ 2139095040
  · rw [if_pos h]; omega
  · rw [if_neg h]; omega

/-- a nonzero finite float times 15120 is not zero (no underflow to zero) -/
theorem roundMag_mulN_pos (m : Nat) (e : Int) (hm : 0 < m) (he : -149 ≤ e) :
    0 < roundMag .f32 (m * 15482880) (e + -10) := by
  have hn : 15482880 ≤ m * 15482880 := Nat.le_mul_of_pos_left _ hm
  have hn0 : 0 < m * 15482880 := by omega
  obtain ⟨hb1, hb2⟩ := SpecL.bitLen_bounds hn0
  generalize m * 15482880 = n at *
  obtain ⟨fe, hfe⟩ : ∃ fe : Int, fe = if e + -10 + (bitLen n : Int) - 24 < -149 then -149
      else e + -10 + (bitLen n : Int) - 24 := ⟨_, rfl⟩
  obtain ⟨q, hq, hr⟩ := roundMag32_q n (e + -10) fe hfe
  rw [hr]
  have hq1 : 1 ≤ q := by
    rw [hq]
    by_cases hle : fe ≤ e + -10
    · rw [if_pos hle]
      exact Nat.mul_pos hn0 (Nat.two_pow_pos _)
    · rw [if_neg hle]
      have hsh : 2^(fe - (e + -10)).toNat ≤ n := by
        by_cases hcl : e + -10 + (bitLen n : Int) - 24 < -149
        · rw [if_pos hcl] at hfe
          have : (fe - (e + -10)).toNat ≤ 10 := by omega
          have := Nat.pow_le_pow_right (n := 2) (by omega) this
          have c : (2:Nat)^10 = 1024 := by decide
          rw [c] at this; clear c
          omega
        · rw [if_neg hcl] at hfe
          have : (fe - (e + -10)).toNat ≤ bitLen n - 1 := by omega
          have := Nat.pow_le_pow_right (n := 2) (by omega) this
          omega
      have : 1 ≤ n / 2^(fe - (e + -10)).toNat := (Nat.le_div_iff_mul_le (Nat.two_pow_pos _)).2 (by omega)
      split <;> omega
  clear hq
  split <;> omega

/-- `Inf`/`NaN` times 15120 is `Inf`/`NaN` -/
theorem mul15120_nonfinite (c : Nat) (hc : unpack .f32 c = .fin false 15482880 (-10))
    (sg mt : Nat) (hs : sg < 2) (hmt : mt < 8388608) :
    Num.mul .f32 (sg * 2147483648 + 255 * 8388608 + mt) c / 8388608 % 256 = 255 ∧
      Num.mul .f32 (sg * 2147483648 + 255 * 8388608 + mt) c < 4294967296 := by
  have hu := unpack_f32 (sg * 2147483648 + 255 * 8388608 + mt)
  have h1 : (sg * 2147483648 + 255 * 8388608 + mt) / 8388608 % 256 = 255 := by omega
  have h2 : (sg * 2147483648 + 255 * 8388608 + mt) % 8388608 = mt := by omega
  rw [h1, h2, if_pos rfl] at hu
  by_cases hm : mt = 0
  · rw [if_pos hm] at hu
    rw [mulc_inf_fin _ _ _ _ _ _ _ hu hc]
    have : ((15482880 : Nat) == 0) = false := rfl
    rw [this]
    simp only [Bool.false_eq_true, if_false, withSign32, infBits_f32]
    split <;> omega
  · rw [if_neg hm] at hu
    rw [mulc_nan_left _ _ _ _ hu]
    have hn : Num.isNaN .f32 (sg * 2147483648 + 255 * 8388608 + mt) = true := by
      simp only [Num.isNaN, signBit_f32, infBits_f32, decide_eq_true_eq]; omega
    simp only [propNaN, hn, if_true, quiet, Fmt.quietBit, mbits_f32]
    have c22 : (2:Nat)^(23-1) = 4194304 := by decide
    simp only [c22]; clear c22
    split
    · omega
    · rename_i hq
      simp only [beq_iff_eq] at hq
      omega

/-- if `f * 15120` is a zero then `f` is a zero -/
theorem mul15120_zero_inv (c : Nat) (hc : unpack .f32 c = .fin false 15482880 (-10)) (f : F32)
    (hz : Num.mul .f32 f.nb c % 2147483648 = 0) : f.nb % 2147483648 = 0 := by
  obtain ⟨hf, hs, hex, hmt⟩ := nb_fields f
  rw [hf] at hz ⊢
  generalize sgn f = sg at *
  generalize expo f = ex at *
  generalize mant f = mt at *
  by_cases hex255 : ex = 255
  · exfalso
    subst hex255
    obtain ⟨h1, h2⟩ := mul15120_nonfinite c hc sg mt hs hmt
    omega
  · by_cases hz0 : ex = 0 ∧ mt = 0
    · omega
    · exfalso
      -- finite nonzero: the product is nonzero
      have hfin : ∃ s m e, unpack .f32 (sg * 2147483648 + ex * 8388608 + mt) = .fin s m e ∧ 0 < m ∧
          -149 ≤ e := by
        by_cases hex0 : ex = 0
        · subst hex0
          have hu := unpack_f32 (sg * 2147483648 + 0 * 8388608 + mt)
          have h1 : (sg * 2147483648 + 0 * 8388608 + mt) / 8388608 % 256 = 0 := by omega
          have h2 : (sg * 2147483648 + 0 * 8388608 + mt) % 8388608 = mt := by omega
          rw [h1, h2, if_neg (by omega), if_pos rfl] at hu
          exact ⟨_, _, _, hu, by omega, by omega⟩
        · exact ⟨_, _, _, unpack_normal sg ex mt hs (by omega) (by omega) hmt, by omega, by omega⟩
      obtain ⟨s, m, e, hu, hm, he⟩ := hfin
      rw [mulc_fin c hc _ _ _ _ hu hm] at hz
      have hpos := roundMag_mulN_pos m e hm he
      have hle := roundMag32_le_inf (m * 15482880) (e + -10)
      generalize roundMag .f32 (m * 15482880) (e + -10) = RM at *
      split at hz <;> omega

/-! ## assembling the bound -/

theorem mul15120_lt (c : Nat) (hc : unpack .f32 c = .fin false 15482880 (-10)) (f : F32) :
    Num.mul .f32 f.nb c < 4294967296 := by
  obtain ⟨hf, hs, hex, hmt⟩ := nb_fields f
  rw [hf]
  generalize sgn f = sg at *
  generalize expo f = ex at *
  generalize mant f = mt at *
  by_cases hex255 : ex = 255
  · subst hex255; exact (mul15120_nonfinite c hc sg mt hs hmt).2
  · have hfin : ∃ s m e, unpack .f32 (sg * 2147483648 + ex * 8388608 + mt) = .fin s m e := by
      by_cases hex0 : ex = 0
      · subst hex0
        have hu := unpack_f32 (sg * 2147483648 + 0 * 8388608 + mt)
        have h1 : (sg * 2147483648 + 0 * 8388608 + mt) / 8388608 % 256 = 0 := by omega
        rw [h1, if_neg (by omega), if_pos rfl] at hu
        exact ⟨_, _, _, hu⟩
      · exact ⟨_, _, _, unpack_normal sg ex mt hs (by omega) (by omega) hmt⟩
    obtain ⟨s, m, e, hu⟩ := hfin
    by_cases hm : m = 0
    · subst hm
      rw [mul_fin_fin _ _ _ _ _ _ _ _ _ hu hc, Nat.zero_mul, Quant.roundPack_zero, withSign32]
      split <;> omega
    · rw [mulc_fin c hc _ _ _ _ hu (by omega)]
      have := roundMag32_le_inf (m * 15482880) (e + -10)
      split <;> omega

/-- normalisations of `u = 126·u'` and `u'` differ by 6 or 7 binary places -/
theorem norm_126 (u' k k' : Nat) (hu0 : 0 < u')
    (hU1 : 8388608 ≤ 126 * u' * 2^k) (hU2 : 126 * u' * 2^k < 16777216)
    (hU1' : 8388608 ≤ u' * 2^k') (hU2' : u' * 2^k' < 16777216) :
    (k' = k + 6 ∧ 126 * u' * 2^k * 64 = 126 * (u' * 2^k')) ∨
    (k' = k + 7 ∧ 126 * u' * 2^k * 128 = 126 * (u' * 2^k')) := by
  have hbU : bitLen (126 * u' * 2^k) = 24 := bitLen_eq (k := 23) hU1 hU2
  have hbU' : bitLen (u' * 2^k') = 24 := bitLen_eq (k := 23) hU1' hU2'
  rw [bitLen_mul_pow _ _ (by omega)] at hbU
  rw [bitLen_mul_pow _ _ hu0] at hbU'
  obtain ⟨hb1, hb2⟩ := SpecL.bitLen_bounds hu0
  -- bitLen (126 u') is bitLen u' + 6 or + 7
  have hlo : bitLen u' + 6 ≤ bitLen (126 * u') := by
    have h1 : 2^(bitLen u' - 1 + 6) ≤ 126 * u' := by
      rw [Nat.pow_add]; have : (2:Nat)^6 = 64 := by decide
      rw [this]; omega
    have := SpecL.bitLen_ge h1
    have : 1 ≤ bitLen u' := by
      rcases Nat.eq_zero_or_pos (bitLen u') with h | h
      · rw [h] at hb2; simp at hb2; omega
      · exact h
    omega
  have hhi : bitLen (126 * u') ≤ bitLen u' + 7 := by
    apply Quant.bitLen_le_of_lt
    rw [Nat.pow_add]; have : (2:Nat)^7 = 128 := by decide
    rw [this]; omega
  have hkk : k' = k + 6 ∨ k' = k + 7 := by omega
  rcases hkk with h | h
  · left; refine ⟨h, ?_⟩
    rw [h, Nat.pow_add]; have : (2:Nat)^6 = 64 := by decide
    rw [this]
    generalize 2^k = P
    rw [Nat.mul_assoc 126, Nat.mul_assoc 126, ← Nat.mul_assoc u']
  · right; refine ⟨h, ?_⟩
    rw [h, Nat.pow_add]; have : (2:Nat)^7 = 128 := by decide
    rw [this]
    generalize 2^k = P
    rw [Nat.mul_assoc 126, Nat.mul_assoc 126, ← Nat.mul_assoc u']


theorem decodeR (R U qf ex k s11 : Nat) (hU1 : 8388608 ≤ U) (hU2 : U < 16777216)
    (hq1 : 8388608 ≤ qf) (hq2 : qf ≤ 16777216) (hk : k ≤ 23)
    (hR : R = (150 - k) * 8388608 + (U - 8388608)) (hR' : R = (ex + s11) * 8388608 + qf) :
    (qf = U ∧ ex + s11 + k = 149) ∨ (qf = 16777216 ∧ U = 8388608 ∧ ex + s11 + 1 + k = 149) := by
  omega

/-- the information `mul15120_inv` gives about `f`, with the carry case made explicit -/
def FSide (F U ex k : Nat) : Prop :=
  (ex + 12 + k = 149 ∧ 2 * (U * 8388608) ≤ 2 * (F * 15482880) + 8388608 ∧
      2 * (F * 15482880) ≤ 2 * (U * 8388608) + 8388608) ∨
  (ex + 13 + k = 149 ∧ U = 8388608 ∧ 2 * (16777216 * 8388608) ≤ 2 * (F * 15482880) + 8388608 ∧
      2 * (F * 15482880) ≤ 2 * (16777216 * 8388608) + 8388608) ∨
  (ex + 13 + k = 149 ∧ 2 * (U * 16777216) ≤ 2 * (F * 15482880) + 16777216 ∧
      2 * (F * 15482880) ≤ 2 * (U * 16777216) + 16777216) ∨
  (ex + 14 + k = 149 ∧ U = 8388608 ∧ 2 * (16777216 * 16777216) ≤ 2 * (F * 15482880) + 16777216 ∧
      2 * (F * 15482880) ≤ 2 * (16777216 * 16777216) + 16777216)

/-- 2-byte form: `f` and `fl(u/15120)` are at most one unit in the last place apart -/
theorem core2 (F U qd ex k fnb dnb bl : Nat) (hF1 : 8388608 ≤ F) (hF2 : F < 16777216)
    (hU1 : 8388608 ≤ U) (hU2 : U < 16777216) (hk : k ≤ 23)
    (hqd1 : 8388608 ≤ qd) (hqd2 : qd ≤ 16777216)
    (hf : fnb = ex * 8388608 + (F - 8388608)) (hfs : FSide F U ex k)
    (hbl : bl = 40 ∨ bl = 41)
    (hd1 : dnb = (125 + bl - 30 - k) * 8388608 + qd)
    (hd2 : 2 * (qd * (15120 * 2^(bl - 24))) ≤ 2 * (U * 1073741824) + 15120 * 2^(bl - 24))
    (hd3 : 2 * (U * 1073741824) ≤ 2 * (qd * (15120 * 2^(bl - 24))) + 15120 * 2^(bl - 24)) :
    dnb ≤ fnb + 1 ∧ fnb ≤ dnb + 1 := by
  rcases hbl with rfl | rfl
  · have c : 15120 * 2^(40 - 24) = 990904320 := by decide
    rw [c] at hd2 hd3; clear c
    rcases hfs with h | h | h | h <;> omega
  · have c : 15120 * 2^(41 - 24) = 1981808640 := by decide
    rw [c] at hd2 hd3; clear c
    rcases hfs with h | h | h | h <;> omega

/-- 1-byte form: `f` and `fl((u/126)/120)` are at most one unit in the last place apart -/
theorem core1 (F U U' qd ex k k' fnb dnb bl : Nat) (hF1 : 8388608 ≤ F) (hF2 : F < 16777216)
    (hU1 : 8388608 ≤ U) (hU2 : U < 16777216) (hU1' : 8388608 ≤ U') (hU2' : U' < 16777216)
    (hk : k ≤ 23) (hk' : k' ≤ 23) (hqd1 : 8388608 ≤ qd) (hqd2 : qd ≤ 16777216)
    (hf : fnb = ex * 8388608 + (F - 8388608)) (hfs : FSide F U ex k)
    (hlink : (k' = k + 6 ∧ U * 64 = 126 * U') ∨ (k' = k + 7 ∧ U * 128 = 126 * U'))
    (hbl : bl = 40 ∨ bl = 41)
    (hd1 : dnb = (125 + bl - 23 - k') * 8388608 + qd)
    (hd2 : 2 * (qd * (120 * 2^(bl - 24))) ≤ 2 * (U' * 8388608) + 120 * 2^(bl - 24))
    (hd3 : 2 * (U' * 8388608) ≤ 2 * (qd * (120 * 2^(bl - 24))) + 120 * 2^(bl - 24)) :
    dnb ≤ fnb + 1 ∧ fnb ≤ dnb + 1 := by
  rcases hbl with rfl | rfl
  · have c : 120 * 2^(40 - 24) = 7864320 := by decide
    rw [c] at hd2 hd3; clear c
    rcases hlink with hl | hl <;> rcases hfs with h | h | h | h <;> omega
  · have c : 120 * 2^(41 - 24) = 15728640 := by decide
    rw [c] at hd2 hd3; clear c
    rcases hlink with hl | hl <;> rcases hfs with h | h | h | h <;> omega


theorem nb_of_pos (f : F32) (h0 : sgn f = 0) :
    f.nb = expo f * 8388608 + (mant f + 8388608 - 8388608) := by
  obtain ⟨hfld, _, _, _⟩ := nb_fields f
  rw [h0, Nat.zero_mul, Nat.zero_add] at hfld; omega

theorem bitLen_15120 : bitLen 15120 = 14 := bitLen_eq (k := 13) (by decide) (by decide)
theorem bitLen_120 : bitLen 120 = 7 := bitLen_eq (k := 6) (by decide) (by decide)
theorem div120_zero : F32.ofInt ((0 / 126 : Nat) : Int) / F32.ofInt 120 = ⟨0⟩ := by decide

/-- **zero-to-one short forms are within one unit in the last place**: whenever `encodeZeroToOne`
    picks the 1- or 2-byte form, the decoded float is `==` to the input (both zeros) or has the same
    sign and a bit pattern at distance at most 1 -/
theorem z2o_bound (f : F32) (h : (Enc.encodeZeroToOne f).length ≠ 4) :
    (rtZ2O f).feq f = true ∨
    (sgn (rtZ2O f) = 0 ∧ sgn f = 0 ∧ (rtZ2O f).nb ≤ f.nb + 1 ∧ f.nb ≤ (rtZ2O f).nb + 1) := by
  obtain ⟨hfeq, hu⟩ := encodeZeroToOne_short f h
  have hrt : rtZ2O f =
      if (f * F32.ofInt 15120).toUInt32.toNat % 126 = 0
      then F32.ofInt (((f * F32.ofInt 15120).toUInt32.toNat / 126 : Nat) : Int) / F32.ofInt 120
      else F32.ofInt ((f * F32.ofInt 15120).toUInt32.toNat : Int) / F32.ofInt 15120 := by
    simp only [rtZ2O]; rw [if_pos ⟨hfeq, hu⟩]
  rw [hrt]
  obtain ⟨u, hudef⟩ : ∃ u, u = (f * F32.ofInt 15120).toUInt32.toNat := ⟨_, rfl⟩
  rw [← hudef] at hfeq hu ⊢
  clear hrt hudef
  have hlt := mul15120_lt (F32.ofInt 15120).nb unpack_15120 f
  have hgnb : (f * F32.ofInt 15120).nb = Num.mul .f32 f.nb (F32.ofInt 15120).nb := by
    rw [mul_nb]; omega
  obtain ⟨_, _, hcase⟩ := (feq_iff _ _).1 hfeq
  -- the zero case
  have hZ : (f * F32.ofInt 15120).nb % 2147483648 = 0 → (F32.ofInt (u : Int)).nb % 2147483648 = 0 →
      (if u % 126 = 0 then F32.ofInt ((u / 126 : Nat) : Int) / F32.ofInt 120
        else F32.ofInt (u : Int) / F32.ofInt 15120).feq f = true := by
    intro hz hzu
    rw [hgnb] at hz
    have hfz := mul15120_zero_inv _ unpack_15120 f hz
    have hu0 : (u : Int) = 0 := (ofInt_zero_iff (u : Int) (by omega)).1 hzu
    have : u = 0 := by omega
    subst this
    rw [if_pos (by decide), div120_zero]
    rcases zero_cases f hfz with rfl | rfl <;> decide
  by_cases hz : (f * F32.ofInt 15120).nb % 2147483648 = 0
  · left
    rcases hcase with heq | ⟨hz1, _⟩
    · exact hZ hz (by rw [heq]; exact hz)
    · exact hZ hz hz1
  · right
    have heq : F32.ofInt (u : Int) = f * F32.ofInt 15120 := by
      rcases hcase with heq | ⟨_, hz2⟩
      · exact heq
      · exact absurd hz2 hz
    have hu0 : u ≠ 0 := by
      intro h0; subst h0
      apply hz; rw [← heq]; decide
    obtain ⟨k, hk, hU1, hU2, hnb, _⟩ := ofInt_small (u : Int) (by omega) (by omega)
    simp only [Int.natAbs_natCast] at hU1 hU2 hnb
    have hneg : ¬ ((u : Int) < 0) := by omega
    rw [if_neg hneg] at hnb
    -- f side
    have hR : Num.mul .f32 f.nb (F32.ofInt 15120).nb = (F32.ofInt (u : Int)).nb := by
      rw [← hgnb, heq]
    have hmt := (nb_fields f).2.2.2
    have hfnb0 := nb_of_pos f
    have hR1 : 1065353216 ≤ (F32.ofInt (u : Int)).nb := by rw [hnb]; omega
    have hR2 : (F32.ofInt (u : Int)).nb < 2139095040 := by rw [hnb]; omega
    obtain ⟨hsf, hex1, hex2, qf, hqf1, hqf2, hsh⟩ := mul15120_inv _ unpack_15120 f _ hR hR1 hR2
    have hfnb := hfnb0 hsf
    have hRform : (F32.ofInt (u : Int)).nb = (150 - k) * 8388608 + (u * 2^k - 8388608) := by
      rw [hnb]; omega
    rw [hRform] at hsh
    clear hfnb0 hR1 hR2
    obtain ⟨F, hF⟩ : ∃ F, F = mant f + 8388608 := ⟨_, rfl⟩
    obtain ⟨U, hU'⟩ : ∃ U, U = u * 2^k := ⟨_, rfl⟩
    obtain ⟨ex, hexd⟩ : ∃ ex, ex = expo f := ⟨_, rfl⟩
    rw [← hF, ← hU', ← hexd] at hsh
    rw [← hF, ← hexd] at hfnb
    rw [← hU'] at hU1 hU2
    rw [← hexd] at hex1 hex2
    have hU : u * 2^k = U := hU'.symm
    have hF1 : 8388608 ≤ F := by omega
    have hF2 : F < 16777216 := by omega
    clear hF hU' hexd
    have hfs : FSide F U ex k := by
      unfold FSide
      rcases hsh with ⟨hR', e1, e2⟩ | ⟨hR', e1, e2⟩
      · rcases decodeR _ U qf ex k 12 hU1 hU2 hqf1 hqf2 hk rfl hR' with ⟨hq, hx⟩ | ⟨hq, hUc, hx⟩
        · subst hq; exact Or.inl ⟨hx, e1, e2⟩
        · subst hq; exact Or.inr (Or.inl ⟨by omega, hUc, e1, e2⟩)
      · rcases decodeR _ U qf ex k 13 hU1 hU2 hqf1 hqf2 hk rfl hR' with ⟨hq, hx⟩ | ⟨hq, hUc, hx⟩
        · subst hq; exact Or.inr (Or.inr (Or.inl ⟨hx, e1, e2⟩))
        · subst hq; exact Or.inr (Or.inr (Or.inr ⟨by omega, hUc, e1, e2⟩))
    clear hsh hqf1 hqf2 hR hnb hRform hgnb hlt hZ
    have c30 : (2:Nat)^30 = 1073741824 := by decide
    have c23 : (2:Nat)^23 = 8388608 := by decide
    by_cases h126 : u % 126 = 0
    · -- 1-byte form
      rw [if_pos h126]
      obtain ⟨u', hu'⟩ : ∃ u', u = 126 * u' := ⟨u / 126, by omega⟩
      have hu'0 : 0 < u' := by omega
      have hdivu : u / 126 = u' := by omega
      rw [hdivu]
      obtain ⟨k', hk', hU1', hU2', _, _⟩ := ofInt_small (u' : Int) (by omega) (by omega)
      simp only [Int.natAbs_natCast] at hU1' hU2'
      have hlink := norm_126 u' k k' hu'0 (by rw [← hu', hU]; exact hU1) (by rw [← hu', hU]; exact hU2)
        hU1' hU2'
      rw [← hu', hU] at hlink
      generalize hUp : u' * 2^k' = U' at *
      -- bit length of the scaled quotient
      have hX1 : 2^39 ≤ U' * 2^23 / 120 := by
        rw [c23]; have : (2:Nat)^39 = 549755813888 := by decide
        rw [this]; omega
      have hX2 : U' * 2^23 / 120 < 2^41 := by
        rw [c23]; have : (2:Nat)^41 = 2199023255552 := by decide
        rw [this]; omega
      obtain ⟨bl, hbl, hblc⟩ : ∃ bl, bitLen (U' * 2^23 / 120) = bl ∧ (bl = 40 ∨ bl = 41) := by
        by_cases hlt40 : U' * 2^23 / 120 < 2^40
        · exact ⟨40, bitLen_eq (k := 39) hX1 hlt40, Or.inl rfl⟩
        · exact ⟨41, bitLen_eq (k := 40) (by omega) hX2, Or.inr rfl⟩
      rw [← hUp] at hbl
      obtain ⟨qd, hqd1, hqd2, hdnb, d1, d2⟩ := div_bits u' 120 k' 23 bl hu'0 (by omega) (by omega)
        (by rw [hUp]; exact hU1') (by rw [hUp]; exact hU2') hk' (by rw [bitLen_120]) (by omega)
        hbl (by omega) (by omega)
      rw [hUp, c23] at d1 d2
      have hres := core1 F U U' qd ex k k' f.nb _ bl hF1 hF2 hU1 hU2 hU1' hU2' hk hk' hqd1 hqd2 hfnb hfs
        (by
          rcases hlink with ⟨a, b⟩ | ⟨a, b⟩
          · exact Or.inl ⟨a, b⟩
          · exact Or.inr ⟨a, b⟩) hblc hdnb d1 d2
      refine ⟨?_, hsf, hres.1, hres.2⟩
      show (F32.ofInt (u' : Int) / F32.ofInt ((120 : Nat) : Int)).nb / 2147483648 = 0
      rw [hdnb]; rcases hblc with rfl | rfl <;> omega
    · -- 2-byte form
      rw [if_neg h126]
      have hX1 : 2^39 ≤ U * 2^30 / 15120 := by
        rw [c30]; have : (2:Nat)^39 = 549755813888 := by decide
        rw [this]; omega
      have hX2 : U * 2^30 / 15120 < 2^41 := by
        rw [c30]; have : (2:Nat)^41 = 2199023255552 := by decide
        rw [this]; omega
      obtain ⟨bl, hbl, hblc⟩ : ∃ bl, bitLen (U * 2^30 / 15120) = bl ∧ (bl = 40 ∨ bl = 41) := by
        by_cases hlt40 : U * 2^30 / 15120 < 2^40
        · exact ⟨40, bitLen_eq (k := 39) hX1 hlt40, Or.inl rfl⟩
        · exact ⟨41, bitLen_eq (k := 40) (by omega) hX2, Or.inr rfl⟩
      rw [← hU] at hbl
      obtain ⟨qd, hqd1, hqd2, hdnb, d1, d2⟩ := div_bits u 15120 k 30 bl (by omega) (by omega) (by omega)
        (by rw [hU]; exact hU1) (by rw [hU]; exact hU2) hk (by rw [bitLen_15120]) (by omega)
        hbl (by omega) (by omega)
      rw [hU, c30] at d1 d2
      have hres := core2 F U qd ex k f.nb _ bl hF1 hF2 hU1 hU2 hk hqd1 hqd2 hfnb hfs hblc hdnb d1 d2
      refine ⟨?_, hsf, hres.1, hres.2⟩
      show (F32.ofInt (u : Int) / F32.ofInt ((15120 : Nat) : Int)).nb / 2147483648 = 0
      rw [hdnb]; rcases hblc with rfl | rfl <;> omega

end Ivg.Z2O
