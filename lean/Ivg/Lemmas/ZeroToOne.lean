import Ivg.Lemmas.SpecDiv
import Ivg.Lemmas.Quantize
namespace Ivg.Z2O
open Ivg Num Codec

/-! ## rounding error of one `roundMag` (right-shift case) -/

theorem roundMag32_q (m : Nat) (e fe : Int)
    (hfe : fe = if e + (bitLen m : Int) - 24 < -149 then -149 else e + (bitLen m : Int) - 24) :
    ∃ q : Nat,
      q = (if fe ≤ e then m * 2 ^ (e - fe).toNat
        else
          if m % 2 ^ (fe - e).toNat > 2 ^ ((fe - e).toNat - 1) ||
              (m % 2 ^ (fe - e).toNat == 2 ^ ((fe - e).toNat - 1) && m / 2 ^ (fe - e).toNat % 2 == 1)
          then m / 2 ^ (fe - e).toNat + 1 else m / 2 ^ (fe - e).toNat) ∧
      roundMag .f32 m e =
        if (fe + 149).toNat * 8388608 + q ≥ 2139095040 then 2139095040
        else (fe + 149).toNat * 8388608 + q :=
  ⟨_, rfl, roundMag_f32 m e fe hfe⟩

/-- round-to-nearest of `n / 2^s`: the result `q` satisfies `|n − q·2^s| ≤ 2^(s−1)` -/
theorem rne_err (n s : Nat) (hs : 1 ≤ s) (q : Nat)
    (hq : q = if n % 2 ^ s > 2 ^ (s - 1) || (n % 2 ^ s == 2 ^ (s - 1) && n / 2 ^ s % 2 == 1)
      then n / 2 ^ s + 1 else n / 2 ^ s) :
    2 * (q * 2^s) ≤ 2 * n + 2^s ∧ 2 * n ≤ 2 * (q * 2^s) + 2^s ∧ n / 2^s ≤ q ∧ q ≤ n / 2^s + 1 := by
  have hP : 2^s = 2 * 2^(s-1) := by
    have : s = (s - 1) + 1 := by omega
    conv => lhs; rw [this, Nat.pow_succ]
    omega
  have hdm := Nat.div_add_mod n (2^s)
  have hr := Nat.mod_lt n (Nat.two_pow_pos s)
  generalize n / 2^s = q0 at *
  generalize n % 2^s = r at *
  generalize 2^(s-1) = h at *
  generalize 2^s = P at *
  subst hP
  by_cases hc : (decide (r > h) || (r == h && q0 % 2 == 1)) = true
  · rw [if_pos hc] at hq
    have hrh : h ≤ r := by
      simp only [Bool.or_eq_true, decide_eq_true_eq, Bool.and_eq_true, beq_iff_eq] at hc
      omega
    subst hq
    rw [Nat.add_mul, Nat.one_mul]
    generalize hX : q0 * (2 * h) = X at *
    have : 2 * h * q0 = X := by rw [Nat.mul_comm]; exact hX
    omega
  · rw [if_neg hc] at hq
    have hrh : r ≤ h := by
      simp only [Bool.or_eq_true, decide_eq_true_eq, Bool.and_eq_true, beq_iff_eq, not_or] at hc
      omega
    rw [hq]
    generalize hX : q0 * (2 * h) = X at *
    have : 2 * h * q0 = X := by rw [Nat.mul_comm]; exact hX
    omega


/-! ## `f * 15120` -/

theorem unpack_15120 : unpack .f32 (F32.ofInt 15120).nb = .fin false 15482880 (-10) := by decide

theorem withSign32 (neg : Bool) (x : Nat) :
    withSign .f32 neg x = (if neg then 2147483648 else 0) + x := by
  unfold withSign; rw [signBit_f32]; split <;> omega

/-- product with the constant for a finite nonzero operand -/
theorem mulc_fin (c : Nat) (hc : unpack .f32 c = .fin false 15482880 (-10)) (a : Nat) (s : Bool)
    (m : Nat) (e : Int) (ha : unpack .f32 a = .fin s m e) (hm : 0 < m) :
    Num.mul .f32 a c = (if s then 2147483648 else 0) + roundMag .f32 (m * 15482880) (e + -10) := by
  rw [mul_fin_fin _ _ _ _ _ _ _ _ _ ha hc, bne_false, roundPack_pos _ _ _ _ (by omega), withSign32]

/-- generic upper bound for binary32 rounding -/
theorem roundMag32_le (n : Nat) (e : Int) (hn : 0 < n) (fe : Int)
    (hfe : fe = if e + (bitLen n : Int) - 24 < -149 then -149 else e + (bitLen n : Int) - 24) :
    roundMag .f32 n e ≤ (fe + 149).toNat * 8388608 + 16777216 := by
  obtain ⟨q, hq, hr⟩ := roundMag32_q n e fe hfe
  rw [hr]
  have hlt := (SpecL.bitLen_bounds hn).2
  generalize bitLen n = bl at *
  have c24 : (2:Nat)^24 = 16777216 := by decide
  have hqle : q ≤ 16777216 := by
    rw [hq]
    by_cases hle : fe ≤ e
    · rw [if_pos hle]
      have hd : bl + (e - fe).toNat ≤ 24 := by split at hfe <;> omega
      have h1 : n * 2^(e - fe).toNat < 2^bl * 2^(e - fe).toNat :=
        (Nat.mul_lt_mul_right (Nat.two_pow_pos _)).2 hlt
      rw [← Nat.pow_add] at h1
      have h2 := Nat.pow_le_pow_right (n := 2) (by omega) hd
      rw [c24] at h2
      clear c24
      omega
    · rw [if_neg hle]
      have hd : bl ≤ (fe - e).toNat + 24 := by split at hfe <;> omega
      have h2 := Nat.pow_le_pow_right (n := 2) (by omega) hd
      rw [Nat.pow_add, c24] at h2
      have h3 : n / 2^(fe - e).toNat < 16777216 :=
        Nat.div_lt_of_lt_mul (by omega)
      clear c24
      split <;> omega
  clear c24 hq
  split <;> omega


theorem mulc_nan_left (f : Fmt) (a b x : Nat) (ha : unpack f a = .nan x) :
    Num.mul f a b = propNaN f a b := by
  unfold Num.mul; rw [ha]

theorem mulc_inf_fin (f : Fmt) (a b : Nat) (s t : Bool) (n : Nat) (g : Int)
    (ha : unpack f a = .inf s) (hb : unpack f b = .fin t n g) :
    Num.mul f a b = if n == 0 then f.defaultNaN else withSign f (s != t) f.infBits := by
  unfold Num.mul; rw [ha, hb]

/-- if `f * 15120` is a finite float ≥ 1.0 then `f` is a positive normal number and the product is
    the correctly rounded `F·N·2^(e-10)`: the rounded mantissa `q` is within half a unit -/
theorem mul15120_inv (c : Nat) (hc : unpack .f32 c = .fin false 15482880 (-10)) (f : F32) (R : Nat)
    (hR : Num.mul .f32 f.nb c = R) (hR1 : 1065353216 ≤ R) (hR2 : R < 2139095040) :
    sgn f = 0 ∧ 1 ≤ expo f ∧ expo f ≤ 254 ∧
    ∃ q : Nat, 8388608 ≤ q ∧ q ≤ 16777216 ∧
      ((R = (expo f + 12) * 8388608 + q ∧
        2 * (q * 8388608) ≤ 2 * ((mant f + 8388608) * 15482880) + 8388608 ∧
        2 * ((mant f + 8388608) * 15482880) ≤ 2 * (q * 8388608) + 8388608) ∨
       (R = (expo f + 13) * 8388608 + q ∧
        2 * (q * 16777216) ≤ 2 * ((mant f + 8388608) * 15482880) + 16777216 ∧
        2 * ((mant f + 8388608) * 15482880) ≤ 2 * (q * 16777216) + 16777216)) := by
  obtain ⟨hf, hs, hex, hmt⟩ := nb_fields f
  rw [hf] at hR
  generalize sgn f = sg at *
  generalize expo f = ex at *
  generalize mant f = mt at *
  by_cases hex255 : ex = 255
  · -- Inf / NaN: the product has exponent field 255
    exfalso
    subst hex255
    have hu := unpack_f32 (sg * 2147483648 + 255 * 8388608 + mt)
    have h1 : (sg * 2147483648 + 255 * 8388608 + mt) / 8388608 % 256 = 255 := by omega
    have h2 : (sg * 2147483648 + 255 * 8388608 + mt) % 8388608 = mt := by omega
    rw [h1, h2, if_pos rfl] at hu
    by_cases hm : mt = 0
    · rw [if_pos hm] at hu
      rw [mulc_inf_fin _ _ _ _ _ _ _ hu hc] at hR
      have : ((15482880 : Nat) == 0) = false := rfl
      rw [this] at hR
      simp only [Bool.false_eq_true, if_false, withSign32, infBits_f32] at hR
      split at hR <;> omega
    · rw [if_neg hm] at hu
      rw [mulc_nan_left _ _ _ _ hu] at hR
      have hn : Num.isNaN .f32 (sg * 2147483648 + 255 * 8388608 + mt) = true := by
        simp only [Num.isNaN, signBit_f32, infBits_f32, decide_eq_true_eq]; omega
      simp only [propNaN, hn, if_true, quiet, Fmt.quietBit, mbits_f32] at hR
      have c22 : (2:Nat)^(23-1) = 4194304 := by decide
      simp only [c22] at hR
      clear c22
      split at hR <;> omega
  · by_cases hex0 : ex = 0
    · -- zero / subnormal: the product is below 1.0
      exfalso
      subst hex0
      have hu := unpack_f32 (sg * 2147483648 + 0 * 8388608 + mt)
      have h1 : (sg * 2147483648 + 0 * 8388608 + mt) / 8388608 % 256 = 0 := by omega
      have h2 : (sg * 2147483648 + 0 * 8388608 + mt) % 8388608 = mt := by omega
      rw [h1, h2, if_neg (by omega), if_pos rfl] at hu
      by_cases hm : mt = 0
      · subst hm
        rw [mul_fin_fin _ _ _ _ _ _ _ _ _ hu hc, Nat.zero_mul, Quant.roundPack_zero, withSign32] at hR
        split at hR <;> omega
      · rw [mulc_fin c hc _ _ _ _ hu (by omega)] at hR
        have hlt : mt * 15482880 < 2^47 := by
          have : (2:Nat)^47 = 140737488355328 := by decide
          rw [this]; omega
        have hbl := Quant.bitLen_le_of_lt _ _ hlt
        have hb := roundMag32_le (mt * 15482880) (-149 + -10) (by omega) _ rfl
        generalize bitLen (mt * 15482880) = bl at *
        generalize roundMag .f32 (mt * 15482880) (-149 + -10) = RM at *
        split at hb <;> split at hR <;> omega
    · -- normal
      have hu := unpack_normal sg ex mt hs (by omega) (by omega) hmt
      rw [mulc_fin c hc _ _ _ _ hu (by omega)] at hR
      have hsg : sg = 0 := by
        rcases Nat.lt_or_ge sg 1 with h | h
        · omega
        · exfalso
          have : sg = 1 := by omega
          subst this
          simp only [beq_self_eq_true, if_true] at hR
          omega
      subst hsg
      have hb0 : ((0 : Nat) == 1) = false := rfl
      simp only [hb0, Bool.false_eq_true, if_false, Nat.zero_add] at hR
      refine ⟨rfl, by omega, by omega, ?_⟩
      have c23 : (2:Nat)^23 = 8388608 := by decide
      have c24 : (2:Nat)^24 = 16777216 := by decide
      by_cases hP : (mt + 8388608) * 15482880 < 140737488355328
      · -- 47-bit product
        have hbl : bitLen ((mt + 8388608) * 15482880) = 46 + 1 := by
          apply bitLen_eq
          · have : (2:Nat)^46 = 70368744177664 := by decide
            rw [this]; omega
          · have : (2:Nat)^(46+1) = 140737488355328 := by decide
            rw [this]; exact hP
        have hfe : (ex : Int) - 150 + -10 + 23 =
            if (ex : Int) - 150 + -10 + (bitLen ((mt + 8388608) * 15482880) : Int) - 24 < -149 then -149
            else (ex : Int) - 150 + -10 + (bitLen ((mt + 8388608) * 15482880) : Int) - 24 := by
          rw [hbl]; split <;> omega
        obtain ⟨q, hq, hr⟩ := roundMag32_q _ _ _ hfe
        have hsh : ((ex : Int) - 150 + -10 + 23 - ((ex : Int) - 150 + -10)).toNat = 23 := by omega
        rw [if_neg (by omega), hsh] at hq
        obtain ⟨e1, e2, e3, e4⟩ := rne_err _ 23 (by omega) q hq
        rw [c23] at e1 e2 e3 e4
        clear c23 c24 hq
        have hbase : ((ex : Int) - 150 + -10 + 23 + 149).toNat = ex + 12 := by omega
        rw [hr, hbase] at hR
        clear hfe hbl hu hc hsh hbase hr hf
        have hq1 : 8388608 ≤ q := by clear e1 e2; omega
        have hq2 : q ≤ 16777216 := by clear e1 e2; omega
        refine ⟨q, hq1, hq2, Or.inl ⟨?_, e1, e2⟩⟩
        clear e1 e2 e3 e4
        split at hR <;> omega
      · -- 48-bit product
        have hbl : bitLen ((mt + 8388608) * 15482880) = 47 + 1 := by
          apply bitLen_eq
          · have : (2:Nat)^47 = 140737488355328 := by decide
            rw [this]; omega
          · have : (2:Nat)^(47+1) = 281474976710656 := by decide
            rw [this]; omega
        have hfe : (ex : Int) - 150 + -10 + 24 =
            if (ex : Int) - 150 + -10 + (bitLen ((mt + 8388608) * 15482880) : Int) - 24 < -149 then -149
            else (ex : Int) - 150 + -10 + (bitLen ((mt + 8388608) * 15482880) : Int) - 24 := by
          rw [hbl]; split <;> omega
        obtain ⟨q, hq, hr⟩ := roundMag32_q _ _ _ hfe
        have hsh : ((ex : Int) - 150 + -10 + 24 - ((ex : Int) - 150 + -10)).toNat = 24 := by omega
        rw [if_neg (by omega), hsh] at hq
        obtain ⟨e1, e2, e3, e4⟩ := rne_err _ 24 (by omega) q hq
        rw [c24] at e1 e2 e3 e4
        clear c23 c24 hq
        have hbase : ((ex : Int) - 150 + -10 + 24 + 149).toNat = ex + 13 := by omega
        rw [hr, hbase] at hR
        clear hfe hbl hu hc hsh hbase hr hf
        have hq1 : 8388608 ≤ q := by clear e1 e2; omega
        have hq2 : q ≤ 16777216 := by clear e1 e2; omega
        refine ⟨q, hq1, hq2, Or.inr ⟨?_, e1, e2⟩⟩
        clear e1 e2 e3 e4
        split at hR <;> omega

/-! ## rounding error of a correctly rounded quotient -/

/-- `rq T d e` (the float32 nearest to `T/d·2^e`) has mantissa `q` with `|T − q·d·2^s| ≤ d·2^(s−1)` -/
theorem rq_err (T d : Nat) (e fe : Int) (s : Nat) (hd : 0 < d)
    (hfe : fe = if e + (bitLen (T / d) : Int) - 24 < -149 then -149 else e + (bitLen (T / d) : Int) - 24)
    (hs : (fe - e).toNat = s) (hs1 : 1 ≤ s) :
    ∃ q : Nat, SpecL.rq T d e = SpecL.pack fe q ∧
      2 * (q * (d * 2^s)) ≤ 2 * T + d * 2^s ∧ 2 * T ≤ 2 * (q * (d * 2^s)) + d * 2^s ∧
      T / (d * 2^s) ≤ q ∧ q ≤ T / (d * 2^s) + 1 := by
  rw [SpecL.rq_eq_rqAt T d e fe hfe, hs]
  unfold SpecL.rqAt
  have hP : 2^s = 2 * 2^(s-1) := by
    have : s = (s - 1) + 1 := by omega
    conv => lhs; rw [this, Nat.pow_succ]
    omega
  have e1 : d * 2^s = 2 * (d * 2^(s-1)) := by rw [hP]; rw [Nat.mul_left_comm]
  rw [e1]
  have hDpos : 0 < d * 2^(s-1) := Nat.mul_pos hd (Nat.two_pow_pos _)
  generalize d * 2^(s-1) = D at *
  by_cases hD : D = 0
  · omega
  · have hdm := Nat.div_add_mod T (2 * D)
    have hr := Nat.mod_lt T (show 0 < 2 * D by omega)
    generalize T / (2 * D) = q0 at *
    generalize T % (2 * D) = r at *
    refine ⟨_, rfl, ?_⟩
    have hX : D * (2 * q0 + 1) = 2 * D * q0 + D := by
      rw [Nat.mul_add, Nat.mul_one, Nat.mul_left_comm, Nat.mul_assoc]
    rw [hX]
    by_cases hc : T > 2 * D * q0 + D ∨ (T = 2 * D * q0 + D ∧ q0 % 2 = 1)
    · rw [if_pos hc]
      have e2 : (q0 + 1) * (2 * D) = 2 * D * q0 + 2 * D := by
        rw [Nat.add_mul, Nat.one_mul, Nat.mul_comm]
      rw [e2]
      generalize 2 * D * q0 = X at *
      omega
    · rw [if_neg hc]
      have e2 : q0 * (2 * D) = 2 * D * q0 := Nat.mul_comm _ _
      rw [e2]
      generalize 2 * D * q0 = X at *
      omega


/-- bits of the correctly rounded quotient `float32(u)/float32(dd)`, with the half-unit error bound on
    its mantissa `q`.  `U = u·2^k` is the normalised 24-bit numerator, `T = U·2^c` the scaled one. -/
theorem div_bits (u dd k c bl : Nat) (hu0 : 0 < u) (hd0 : 0 < dd) (hd : dd < 16777216)
    (hU1 : 8388608 ≤ u * 2^k) (hU2 : u * 2^k < 16777216) (hk : k ≤ 23)
    (hc : 40 + bitLen dd = 24 + c) (hc40 : c ≤ 40)
    (hbl : bitLen (u * 2^k * 2^c / dd) = bl) (hbl40 : 40 ≤ bl) (hbl41 : bl ≤ 41) :
    ∃ q : Nat, 8388608 ≤ q ∧ q ≤ 16777216 ∧
      (F32.ofInt (u : Int) / F32.ofInt (dd : Int)).nb = (125 + bl - c - k) * 8388608 + q ∧
      2 * (q * (dd * 2^(bl - 24))) ≤ 2 * (u * 2^k * 2^c) + dd * 2^(bl - 24) ∧
      2 * (u * 2^k * 2^c) ≤ 2 * (q * (dd * 2^(bl - 24))) + dd * 2^(bl - 24) := by
  have hu : u < 16777216 := by
    have := Nat.le_mul_of_pos_right u (Nat.two_pow_pos k)
    omega
  rw [SpecL.ofInt_div_eq_ofRatio u dd hu0 hu hd0 hd]
  have hblU : bitLen (u * 2^k) = 24 := bitLen_eq (k := 23) hU1 hU2
  have hblu : bitLen u + k = 24 := by rw [← bitLen_mul_pow u k hu0]; exact hblU
  have hK : 40 + bitLen dd - bitLen u = c + k := by omega
  have hnum : u * 2^(c + k) = u * 2^k * 2^c := by
    rw [Nat.mul_assoc, ← Nat.pow_add, Nat.add_comm]
  have hbeq : (u == 0) = false := by simp; omega
  unfold F32.ofRatio
  simp only [hbeq, Bool.false_eq_true, if_false, hK, hnum]
  generalize hT : u * 2^k * 2^c = T at *
  have hTpos : 0 < T / dd := by
    rcases Nat.eq_zero_or_pos (T / dd) with h | h
    · rw [h] at hbl; simp [bitLen] at hbl; omega
    · exact h
  obtain ⟨hb1, hb2⟩ := SpecL.bitLen_bounds hTpos
  rw [hbl] at hb1 hb2
  have hb25 : 2^25 ≤ T / dd := by
    have := Nat.pow_le_pow_right (n := 2) (by omega) (show 25 ≤ bl - 1 by omega)
    omega
  rw [SpecL.roundPack_div false T dd _ hd0 hb25, withSign32]
  have hfe : -((c + k : Nat) : Int) + bl - 24 =
      if -((c + k : Nat) : Int) + (bitLen (T / dd) : Int) - 24 < -149 then -149
      else -((c + k : Nat) : Int) + (bitLen (T / dd) : Int) - 24 := by
    rw [hbl]; split <;> omega
  obtain ⟨q, hq, e1, e2, e3, e4⟩ := rq_err T dd (-((c + k : Nat) : Int)) _ (bl - 24) hd0 hfe (by omega)
    (by omega)
  -- the truncated mantissa has exactly 24 bits
  have hq0 : T / (dd * 2^(bl - 24)) = T / dd / 2^(bl - 24) := by rw [Nat.div_div_eq_div_mul]
  have hsplit : 2^bl = 2^(bl - 24) * 16777216 := by
    have : bl = (bl - 24) + 24 := by omega
    conv => lhs; rw [this, Nat.pow_add]
  have hsplit2 : 2^(bl - 1) = 2^(bl - 24) * 8388608 := by
    have : bl - 1 = (bl - 24) + 23 := by omega
    rw [this, Nat.pow_add]
  have hlo : 8388608 ≤ T / dd / 2^(bl - 24) := by
    apply (Nat.le_div_iff_mul_le (Nat.two_pow_pos _)).2
    rw [Nat.mul_comm, ← hsplit2]; exact hb1
  have hhi : T / dd / 2^(bl - 24) < 16777216 := by
    apply Nat.div_lt_of_lt_mul
    rw [← hsplit]; exact hb2
  rw [hq0] at e3 e4
  refine ⟨q, by omega, by omega, ?_, e1, e2⟩
  rw [hq]
  unfold SpecL.pack
  have hbase : (-((c + k : Nat) : Int) + bl - 24 + 149).toNat = 125 + bl - c - k := by omega
  rw [hbase]
  have hqle : q ≤ 16777216 := by omega
  have hnb : ∀ x : Nat, x < 4294967296 → (F32.ofNatBits x).nb = x := nb_ofNatBits
  have hb : 125 + bl - c - k ≤ 166 := by omega
  clear e1 e2 e3 e4 hq hfe hb1 hb2 hb25 hsplit hsplit2 hlo hhi hq0 hbase
  generalize 125 + bl - c - k = base at *
  have hnov : ¬ (base * 8388608 + q ≥ 2139095040) := by omega
  rw [if_neg hnov]
  simp only [Bool.false_eq_true, if_false, Nat.zero_add]
  rw [hnb _ (by omega)]

end Ivg.Z2O
