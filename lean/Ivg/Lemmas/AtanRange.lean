import Ivg.Lemmas.FloatMono
import Ivg.Model.GoMath
/-!
# Crude but total ranges of the ported `xatan`, `satan`, `asin`, `acos`

Interval evaluation of the float programs of `Ivg/Model/GoMath.lean` with the sound evaluator of
`FloatMono` (every float operation is monotone because it is a correct rounding).  The intervals are
evaluated by the kernel (`decide +kernel`); the soft floats are plain `Nat` computations.

Near its zero `xatan` is evaluated on a geometric subdivision (`Ival.refineLo`, 21 pieces shrinking towards 0),
which makes the extreme values exact up to rounding; elsewhere a uniform subdivision into 16 pieces suffices.

Results, for EVERY binary64 argument (NaN, infinities, out-of-domain values included):
* `satan_range`: on a non-negative argument (`+0 … +Inf`) or a NaN, `satan` is a NaN or in `[-2⁻⁶⁰, π/2]`;
* `acos_range`: `acos c` is a NaN or `0 ≤ acos c ≤ π` with `π` the float64 `math.Pi` — the exact mathematical
  range.  (Only a bound below `2π` is needed for the arc segment count.)
-/
namespace Ivg.AtanRange
open Ivg Num GoMath FloatOrder FloatMono FloatMono.Ival

/-! ## `xatan` on an interval -/

def xatanI (X : Ival) : Ival :=
  let z := X.mul X
  let num := z.mul (((((((((pt P0).mul z).add (pt P1)).mul z).add (pt P2)).mul z).add (pt P3)).mul z).add (pt P4))
  let den := ((((((((z.add (pt Q0)).mul z).add (pt Q1)).mul z).add (pt Q2)).mul z).add (pt Q3)).mul z).add (pt Q4)
  (X.mul (num.div den)).add X

theorem consts_nn : NN P0 ∧ NN P1 ∧ NN P2 ∧ NN P3 ∧ NN P4 ∧ NN Q0 ∧ NN Q1 ∧ NN Q2 ∧ NN Q3 ∧ NN Q4 ∧
    NN piO2 ∧ NN piO4 ∧ NN Morebits ∧ NN halfMorebits ∧ NN one := by decide

theorem xatan_In {x : F64} {X : Ival} (h : In x X) : In (xatan x) (xatanI X) := by
  obtain ⟨p0, p1, p2, p3, p4, q0, q1, q2, q3, q4, _⟩ := consts_nn
  have hz := In_mul h h
  exact In_add (In_mul h (In_div
    (In_mul hz (In_add (In_mul (In_add (In_mul (In_add (In_mul (In_add (In_mul (In_pt p0) hz) (In_pt p1)) hz)
      (In_pt p2)) hz) (In_pt p3)) hz) (In_pt p4)))
    (In_add (In_mul (In_add (In_mul (In_add (In_mul (In_add (In_mul (In_add hz (In_pt q0)) hz) (In_pt q1)) hz)
      (In_pt q2)) hz) (In_pt q3)) hz) (In_pt q4)))) h

/-- `xatan` on `2^4` sub-intervals -/
def xatanB (X : Ival) : Ival := bisect xatanI 4 X

theorem xatanB_In {x : F64} {X : Ival} (h : In x X) : In (xatan x) (xatanB X) :=
  In_bisect xatanI xatan (fun _ _ h => xatan_In h) 4 X x h

/-- `xatan` on 21 sub-intervals shrinking geometrically towards the lower endpoint -/
def xatanG (X : Ival) : Ival := refineLo xatanI 20 X

theorem xatanG_In {x : F64} {X : Ival} (h : In x X) : In (xatan x) (xatanG X) :=
  In_refineLo xatanI xatan (fun _ _ h => xatan_In h) 20 X x h

/-- read off a computed interval, widened to `J` -/
theorem In_widen {a : F64} {I : Ival} (J : Ival) (h : In a I) (hv : I.valid) (h1 : J.lo ≤ I.lo)
    (h2 : I.hi ≤ J.hi) : NaN a ∨ (J.lo ≤ a ∧ a ≤ J.hi) := by
  rcases h hv with hn | ⟨a1, a2⟩
  · exact Or.inl hn
  · exact Or.inr ⟨le_trans' h1 a1, le_trans' a2 h2⟩

/-! ## `satan` -/

/-- `[-2⁻⁶⁰, π/2]` (`π/2` the float64 `piO2`) -/
def S : Ival := ⟨⟨0xBC30000000000000⟩, piO2⟩

def Y2 : Ival := ⟨Tan3pio8, maxF⟩
def Y3 : Ival := ⟨c066, Tan3pio8⟩
def D3 : Ival := (Y3.sub (pt one)).div (Y3.add (pt one))

/-- `I` is valid and contained in `J` -/
def within (I J : Ival) : Bool := decide (I.valid ∧ J.lo ≤ I.lo ∧ I.hi ≤ J.hi)

theorem In_within {a : F64} {I J : Ival} (h : In a I) (hw : within I J = true) :
    NaN a ∨ (J.lo ≤ a ∧ a ≤ J.hi) := by
  have := of_decide_eq_true hw
  exact In_widen J h this.1 this.2.1 this.2.2

set_option maxRecDepth 100000 in
theorem satan_eval1 : within (xatanG ⟨zero, c066⟩) S = true := by decide +kernel

set_option maxRecDepth 100000 in
theorem satan_eval2 : within (((pt piO2).sub (xatanG ((pt one).div Y2))).add (pt Morebits)) S = true := by
  decide +kernel

set_option maxRecDepth 100000 in
theorem satan_eval2inf :
    S.lo ≤ (piO2 - xatan (one / posInf)) + Morebits ∧ (piO2 - xatan (one / posInf)) + Morebits ≤ S.hi := by
  decide +kernel

set_option maxRecDepth 100000 in
theorem satan_eval3 : within (((pt piO4).add (xatanB D3)).add (pt halfMorebits)) S = true := by
  decide +kernel

/-- **range of `satan`** on every non-negative (or NaN) argument, `+Inf` included -/
theorem satan_range (y : F64) (hy : NaN y ∨ Pos0 y) : NaN (satan y) ∨ (S.lo ≤ satan y ∧ satan y ≤ S.hi) := by
  obtain ⟨_, _, _, _, _, _, _, _, _, _, npiO2, npiO4, nmb, nhmb, none⟩ := consts_nn
  unfold satan
  split
  · -- y ≤ 0.66
    rename_i h
    have hp : Pos0 y := by
      rcases hy with hn | hp
      · exact absurd (le_NN_left h) hn
      · exact hp
    exact In_within (xatanG_In (In_of_le (Pos0_ge hp) h)) satan_eval1
  · rename_i h1
    split
    · -- tan(3π/8) < y
      rename_i h
      have hn : NN y := ((lt_def _ _).1 h).2.1
      have hp : Pos0 y := by
        rcases hy with hn' | hp
        · exact absurd hn hn'
        · exact hp
      rcases Pos0_cases hp with ⟨_, hmax⟩ | hinf'
      · have hY : In y Y2 := In_of_le (lt_le' h) hmax
        exact In_within (In_add (In_sub (In_pt npiO2) (xatanG_In (In_div (In_pt none) hY))) (In_pt nmb))
          satan_eval2
      · rw [hinf']; exact Or.inr satan_eval2inf
    · rename_i h2
      have hY : In y Y3 := by
        by_cases hn : NN y
        · have a1 := not_le_of_NN hn (by decide : NN c066) h1
          have a2 := not_lt_of_NN (by decide : NN Tan3pio8) hn h2
          exact In_of_le (lt_le' a1) a2
        · exact In_nan _ hn
      have hD : In ((y - one) / (y + one)) D3 :=
        In_div (In_sub hY (In_pt none)) (In_add hY (In_pt none))
      exact In_within (In_add (In_add (In_pt npiO4) (xatanB_In hD)) (In_pt nhmb)) satan_eval3

/-! ## `asin`, `acos` -/

/-- `[0, π]` with the float64 `math.Pi` -/
def A : Ival := ⟨zero, GoMath.pi⟩

def U : Ival := ⟨zero, one⟩

set_option maxRecDepth 100000 in
theorem acos_evals :
    (U.mul U).valid ∧ zero ≤ (U.mul U).lo ∧ (U.mul U).hi ≤ one ∧ FloatMono.Fin one ∧ Pos0 one ∧ FloatMono.Fin zero ∧
    -- asin = ±(π/2 − satan …)
    (((pt piO2).sub ((pt piO2).sub S)).valid ∧ A.lo ≤ ((pt piO2).sub ((pt piO2).sub S)).lo ∧
      ((pt piO2).sub ((pt piO2).sub S)).hi ≤ A.hi) ∧
    (((pt piO2).sub (((pt piO2).sub S).neg)).valid ∧ A.lo ≤ ((pt piO2).sub (((pt piO2).sub S).neg)).lo ∧
      ((pt piO2).sub (((pt piO2).sub S).neg)).hi ≤ A.hi) ∧
    -- asin = ±satan …
    (((pt piO2).sub S).valid ∧ A.lo ≤ ((pt piO2).sub S).lo ∧ ((pt piO2).sub S).hi ≤ A.hi) ∧
    (((pt piO2).sub S.neg).valid ∧ A.lo ≤ ((pt piO2).sub S.neg).lo ∧ ((pt piO2).sub S.neg).hi ≤ A.hi) ∧
    -- asin (±0) = ±0
    (A.lo ≤ piO2 - zero ∧ piO2 - zero ≤ A.hi) ∧
    (A.lo ≤ piO2 - (⟨0x8000000000000000⟩ : F64) ∧ piO2 - (⟨0x8000000000000000⟩ : F64) ≤ A.hi) ∧
    NaN GoMath.nan ∧ S.valid := by
  decide +kernel

theorem feq_zero {x : F64} (h : x.feq 0 = true) : x = zero ∨ x = ⟨0x8000000000000000⟩ := by
  have h' : Num.eq .f64 x.nb (0 : F64).nb = true := h
  unfold Num.eq at h'
  have h0 : (0 : F64).nb = 0 := by decide
  rw [h0] at h'
  by_cases hn : NNB x.nb
  · rw [toOrd_eq _ hn, toOrd_eq 0 (by decide)] at h'
    have hk : key x.nb = 0 := by
      have : key 0 = 0 := by decide
      rw [this] at h'
      simpa using h'
    have := nb_lt x
    unfold key at hk
    split at hk
    · right; exact ext_nb (by show x.nb = 9223372036854775808; omega)
    · left; exact ext_nb (by show x.nb = 0; omega)
  · rw [toOrd_nan _ hn] at h'; simp at h'

theorem not_feq_zero {x : F64} (hn : NN x) (h : ¬ x.feq 0 = true) : kk x ≠ 0 := by
  intro hk
  apply h
  show Num.eq .f64 x.nb (0 : F64).nb = true
  unfold Num.eq
  have h0 : (0 : F64).nb = 0 := by decide
  rw [h0, toOrd_eq _ hn, toOrd_eq 0 (by decide)]
  have : key 0 = 0 := by decide
  unfold kk at hk
  simp [this, hk]

/-- **range of `acos`**: for every binary64 argument the result is a NaN or lies in `[0, π]` -/
theorem acos_range (c : F64) : NaN (GoMath.acos c) ∨ (A.lo ≤ GoMath.acos c ∧ GoMath.acos c ≤ A.hi) := by
  obtain ⟨_, _, _, _, _, _, _, _, _, _, npiO2, _, _, _, none⟩ := consts_nn
  obtain ⟨vUU, lUU, uUU, fone, pone, fzero, ⟨va, la, ua⟩, ⟨vb, lb, ub⟩, ⟨vc, lc, uc⟩, ⟨vd, ld, ud⟩,
    hz1, hz2, hnan, vS⟩ := acos_evals
  unfold GoMath.acos GoMath.asin
  split
  · rename_i h0
    rcases feq_zero h0 with rfl | rfl
    · exact Or.inr hz1
    · exact Or.inr hz2
  · rename_i h0
    simp only []
    -- the absolute value `x` of the argument
    generalize hx : (if decide (c < 0) = true then -c else c) = x
    have hxp : NaN x ∨ (Pos0 x ∧ zero ≤ x) := by
      by_cases hn : NN c
      · right
        have hk := not_feq_zero hn h0
        have hz : kk (0 : F64) = 0 := by decide
        by_cases hlt : c < 0
        · have : x = -c := by rw [← hx]; simp [hlt]
          have hk' : 0 < kk x := by
            rw [this, kk_neg]
            have := ((lt_def _ _).1 hlt).2.2
            omega
          have hp := Pos0_of_kk (by rw [this]; exact neg_NN.2 hn) hk'
          exact ⟨hp, Pos0_ge hp⟩
        · have : x = c := by rw [← hx]; simp [hlt]
          have hge := not_lt_of_NN hn (by decide : NN (0 : F64)) hlt
          have hk' : 0 < kk x := by
            rw [this]
            have := ((le_def _ _).1 hge).2.2
            omega
          have hp := Pos0_of_kk (by rw [this]; exact hn) hk'
          exact ⟨hp, Pos0_ge hp⟩
      · left
        have hlt : ¬ c < 0 := not_lt_nan_left hn
        have : x = c := by rw [← hx]; simp [hlt]
        rw [this]; exact hn
    split
    · -- 1 < x : asin = NaN
      exact Or.inl (sub_nan (Or.inr hnan))
    · rename_i h1
      -- x ∈ [0, 1] or NaN
      have hxU : In x U := by
        rcases hxp with hn | ⟨hp, hge⟩
        · exact In_nan _ hn
        · exact In_of_le hge (not_lt_of_NN none (Pos0_NN hp) h1)
      -- temp = sqrt (1 - x*x) is a NaN or non-negative
      have hxx := In_mul hxU hxU vUU
      have htemp : NaN (F64.sqrt (one - x * x)) ∨ Pos0 (F64.sqrt (one - x * x)) := by
        rcases hxx with hn | ⟨a1, a2⟩
        · exact Or.inl (sqrt_nan (sub_nan (Or.inr hn)))
        · right
          have a1' := le_trans' lUU a1
          have a2' := le_trans' a2 uUU
          have fxx : FloatMono.Fin (x * x) := Fin_between fzero fone a1' a2'
          exact sqrt_pos0 (sub_pos0 fone fxx pone a2')
      -- the argument of `satan` is a NaN or non-negative
      have harg : ∀ (u v : F64), (NaN u ∨ Pos0 u) → (NaN v ∨ Pos0 v) → (NaN (u / v) ∨ Pos0 (u / v)) := by
        intro u v hu hv
        rcases hu with hu | hu
        · exact Or.inl (div_nan (Or.inl hu))
        rcases hv with hv | hv
        · exact Or.inl (div_nan (Or.inr hv))
        exact div_pos0 hu hv
      have hxp' : NaN x ∨ Pos0 x := by
        rcases hxp with h | h
        · exact Or.inl h
        · exact Or.inr h.1
      have hS1 : In (satan (F64.sqrt (one - x * x) / x)) S := fun _ => satan_range _ (harg _ _ htemp hxp')
      have hS2 : In (satan (x / F64.sqrt (one - x * x))) S := fun _ => satan_range _ (harg _ _ hxp' htemp)
      have hT : In (piO2 - satan (F64.sqrt (one - x * x) / x)) ((pt piO2).sub S) := In_sub (In_pt npiO2) hS1
      split
      · split
        · exact In_widen A (In_sub (In_pt npiO2) (In_neg hT)) vb lb ub
        · exact In_widen A (In_sub (In_pt npiO2) (In_neg hS2)) vd ld ud
      · split
        · exact In_widen A (In_sub (In_pt npiO2) hT) va la ua
        · exact In_widen A (In_sub (In_pt npiO2) hS2) vc lc uc

end Ivg.AtanRange
