import Ivg.Model.Encoder
import Ivg.Spec.Protocol
/-!
# The Encoder state machine refines the protocol automaton (C10), forgets at Reset (C17)
-/
namespace Ivg.EncoderProto
set_option linter.constructorNameAsVariable false
open Ivg Ivg.Num Ivg.Enc Ivg.Spec.Protocol

/-! ## classification of the API and the abstraction function -/

/-- how the protocol automaton sees one use of the Encoder API -/
def classify : EncOp → Op
  | .call c => classifyCall c
  | .readCSel => .observe
  | .readNSel => .observe
  | .readLOD => .observe
  | .bytes => .observe
  | .setHiRes _ => .setHiRes

def kindOf : EncErr → Kind
  | .drawingOpsUsedInStylingMode => .drawingInStyling
  | .invalidSelectorAdjustment => .invalidAdj
  | .invalidIncrementingAdjustment => .invalidIncr
  | .stylingOpsUsedInDrawingMode => .stylingInDrawing

theorem kindOf_injective {a b : EncErr} (h : kindOf a = kindOf b) : a = b := by
  cases a <;> cases b <;> first | rfl | cases h

def absMode : Mode → PState
  | .initial => .fresh
  | .styling => .styling
  | .drawing => .drawing

/-- abstraction: the protocol state an Encoder is in -/
def abs (e : Encoder) : PState :=
  match e.err with
  | some k => .failed (kindOf k)
  | none => absMode e.mode

theorem abs_isFailed (e : Encoder) : (abs e).isFailed = e.err.isSome := by
  unfold abs; cases e.err <;> simp [PState.isFailed]
  cases e.mode <;> rfl

theorem abs_failed_iff (e : Encoder) (k : EncErr) : abs e = .failed (kindOf k) ↔ e.err = some k := by
  unfold abs
  cases h : e.err with
  | none => cases e.mode <;> simp [absMode]
  | some k' =>
    simp
    constructor
    · exact kindOf_injective
    · intro h; rw [h]

/-- Reachability invariant: an error recorded while a path is open can only be "styling ops used
    in drawing mode" (every other error is raised in styling mode, and an Encoder that has an error
    never opens a path).  `checkModeStyling` overwrites `err` in drawing mode, so without this
    invariant the FIRST error would not be the one kept. -/
def Inv (e : Encoder) : Prop :=
  e.mode = .drawing → e.err = none ∨ e.err = some .stylingOpsUsedInDrawingMode

theorem inv_zero : Inv ({} : Encoder) := by intro h; cases h

theorem inv_of_err_none {e : Encoder} (h : e.err = none) : Inv e := fun _ => Or.inl h

/-! ## projections of the building blocks -/

/-- `if e.mode == modeInitial { e.appendDefaultMetadata() }` -/
def norm (e : Encoder) : Encoder := if e.mode = .initial then e.appendDefaultMetadata else e

local macro "flush_tac" : tactic =>
  `(tactic| (unfold Encoder.flushDrawOps; split <;> first | rfl | assumption | (split <;> rfl)))

@[simp] theorem flush_err (e : Encoder) : e.flushDrawOps.err = e.err := by
  flush_tac
@[simp] theorem flush_mode (e : Encoder) : e.flushDrawOps.mode = e.mode := by
  flush_tac
@[simp] theorem flush_cSel (e : Encoder) : e.flushDrawOps.cSel = e.cSel := by
  flush_tac
@[simp] theorem flush_nSel (e : Encoder) : e.flushDrawOps.nSel = e.nSel := by
  flush_tac
@[simp] theorem flush_lod0 (e : Encoder) : e.flushDrawOps.lod0 = e.lod0 := by
  flush_tac
@[simp] theorem flush_lod1 (e : Encoder) : e.flushDrawOps.lod1 = e.lod1 := by
  flush_tac
@[simp] theorem flush_hiRes (e : Encoder) : e.flushDrawOps.hiRes = e.hiRes := by
  flush_tac
@[simp] theorem flush_drawOp (e : Encoder) : e.flushDrawOps.drawOp = none := by
  flush_tac

theorem flush_of_none {e : Encoder} (h : e.drawOp = none) : e.flushDrawOps = e := by
  unfold Encoder.flushDrawOps; rw [h]

@[simp] theorem flush_flush (e : Encoder) : e.flushDrawOps.flushDrawOps = e.flushDrawOps :=
  flush_of_none (flush_drawOp e)

@[simp] theorem norm_err (e : Encoder) : (norm e).err = e.err := by
  unfold norm; split <;> rfl
@[simp] theorem norm_cSel (e : Encoder) : (norm e).cSel = e.cSel := by
  unfold norm; split <;> rfl
@[simp] theorem norm_nSel (e : Encoder) : (norm e).nSel = e.nSel := by
  unfold norm; split <;> rfl
theorem norm_mode (e : Encoder) : (norm e).mode = if e.mode = .initial then .styling else e.mode := by
  unfold norm; split <;> rfl
theorem norm_mode_ne (e : Encoder) : (norm e).mode ≠ .initial := by
  rw [norm_mode]; split
  · simp
  · assumption
theorem norm_of_ne {e : Encoder} (h : e.mode ≠ .initial) : norm e = e := by
  unfold norm; rw [if_neg h]
@[simp] theorem norm_norm (e : Encoder) : norm (norm e) = norm e := norm_of_ne (norm_mode_ne e)

theorem absMode_norm (e : Encoder) :
    absMode (norm e).mode = pstep (absMode e.mode) .observe := by
  rw [norm_mode]; cases e.mode <;> rfl

/-- err and mode after `checkModeStyling` -/
theorem cms_err (e : Encoder) : e.checkModeStyling.err =
    if e.mode = .drawing then some .stylingOpsUsedInDrawingMode else e.err := by
  unfold Encoder.checkModeStyling; cases h : e.mode <;> simp [Encoder.appendDefaultMetadata]
theorem cms_mode (e : Encoder) : e.checkModeStyling.mode =
    if e.mode = .initial then .styling else e.mode := by
  unfold Encoder.checkModeStyling; cases h : e.mode <;> simp [Encoder.appendDefaultMetadata, h]
@[simp] theorem cms_cSel (e : Encoder) : e.checkModeStyling.cSel = e.cSel := by
  unfold Encoder.checkModeStyling; cases h : e.mode <;> simp [Encoder.appendDefaultMetadata]
@[simp] theorem cms_nSel (e : Encoder) : e.checkModeStyling.nSel = e.nSel := by
  unfold Encoder.checkModeStyling; cases h : e.mode <;> simp [Encoder.appendDefaultMetadata]


theorem pstep_reset (s : PState) : pstep s .reset = .styling := by cases s <;> rfl
theorem pstep_failed (k : Kind) (op : Op) (h : op ≠ .reset) : pstep (.failed k) op = .failed k := by
  cases op <;> first | rfl | exact absurd rfl h

/-- err and mode after `draw` -/
theorem draw_err (e : Encoder) (op : DrawOp) (args : List F32) : (e.draw op args).err =
    if e.err.isSome then e.err else if e.mode ≠ .drawing then some .drawingOpsUsedInStylingMode else none := by
  unfold Encoder.draw
  split
  · rfl
  · split
    · rfl
    · rename_i h _
      rcases op with v | v | v | v | _ | _ | _ <;> try cases v
      all_goals simp at h
      all_goals simp [h, apply_ite Encoder.err]

theorem draw_mode (e : Encoder) (op : DrawOp) (args : List F32) : (e.draw op args).mode =
    if e.err.isSome ∨ e.mode ≠ .drawing then e.mode else if op = .Z then .styling else .drawing := by
  unfold Encoder.draw
  split
  · rename_i h; simp [h]
  · split
    · rename_i h; simp [h]
    · rename_i h h'
      rcases op with v | v | v | v | _ | _ | _ <;> try cases v
      all_goals simp at h h'
      all_goals simp [h, h', apply_ite Encoder.mode]

@[simp] theorem draw_cSel (e : Encoder) (op : DrawOp) (args : List F32) : (e.draw op args).cSel = e.cSel := by
  unfold Encoder.draw
  split
  · rfl
  · split
    · rfl
    · rcases op with v | v | v | v | _ | _ | _ <;> try cases v
      all_goals simp [apply_ite Encoder.cSel]

@[simp] theorem draw_nSel (e : Encoder) (op : DrawOp) (args : List F32) : (e.draw op args).nSel = e.nSel := by
  unfold Encoder.draw
  split
  · rfl
  · split
    · rfl
    · rcases op with v | v | v | v | _ | _ | _ <;> try cases v
      all_goals simp [apply_ite Encoder.nSel]

theorem setCSel_err (e : Encoder) (v : UInt8) : (e.setCSel v).err = e.checkModeStyling.err := by
  unfold Encoder.setCSel; simp only []; split <;> rfl
theorem setCSel_mode (e : Encoder) (v : UInt8) : (e.setCSel v).mode = e.checkModeStyling.mode := by
  unfold Encoder.setCSel; simp only []; split <;> rfl
theorem setNSel_err (e : Encoder) (v : UInt8) : (e.setNSel v).err = e.checkModeStyling.err := by
  unfold Encoder.setNSel; simp only []; split <;> rfl
theorem setNSel_mode (e : Encoder) (v : UInt8) : (e.setNSel v).mode = e.checkModeStyling.mode := by
  unfold Encoder.setNSel; simp only []; split <;> rfl
theorem setLOD_err (e : Encoder) (a b : F32) : (e.setLOD a b).err = e.checkModeStyling.err := by
  unfold Encoder.setLOD; simp only []; split <;> rfl
theorem setLOD_mode (e : Encoder) (a b : F32) : (e.setLOD a b).mode = e.checkModeStyling.mode := by
  unfold Encoder.setLOD; simp only []; split <;> rfl

/-- the error a register assignment leaves, given the state after the mode check -/
def regErr (prev : Option EncErr) (adj : UInt8) (incr : Bool) : Option EncErr :=
  if prev.isSome then prev
  else if adj > 6 then some .invalidSelectorAdjustment
  else if incr = true ∧ adj ≠ 0 then some .invalidIncrementingAdjustment
  else none

theorem setCReg_err (e : Encoder) (adj : UInt8) (incr : Bool) (c : Color) :
    (e.setCReg adj incr c).err = regErr e.checkModeStyling.err adj incr := by
  unfold Encoder.setCReg regErr; simp only []
  split
  · rfl
  · split
    · rfl
    · rename_i h _
      cases incr <;> simp at h ⊢
      · exact h
      · split <;> simp_all
theorem setCReg_mode (e : Encoder) (adj : UInt8) (incr : Bool) (c : Color) :
    (e.setCReg adj incr c).mode = e.checkModeStyling.mode := by
  unfold Encoder.setCReg; simp only []
  split
  · rfl
  · split
    · rfl
    · cases incr <;> simp
theorem setNReg_err (e : Encoder) (adj : UInt8) (incr : Bool) (f : F32) :
    (e.setNReg adj incr f).err = regErr e.checkModeStyling.err adj incr := by
  unfold Encoder.setNReg regErr; simp only []
  split
  · rfl
  · split
    · rfl
    · rename_i h _
      cases incr <;> simp at h ⊢
      · exact h
      · split <;> simp_all
theorem setNReg_mode (e : Encoder) (adj : UInt8) (incr : Bool) (f : F32) :
    (e.setNReg adj incr f).mode = e.checkModeStyling.mode := by
  unfold Encoder.setNReg; simp only []
  split
  · rfl
  · split
    · rfl
    · cases incr <;> simp
theorem startPath_err (e : Encoder) (adj : UInt8) (x y : F32) :
    (e.startPath adj x y).err = regErr e.checkModeStyling.err adj false := by
  unfold Encoder.startPath regErr; simp only []
  split
  · rfl
  · split
    · rfl
    · rename_i h _; simp at h ⊢; exact h
theorem startPath_mode (e : Encoder) (adj : UInt8) (x y : F32) :
    (e.startPath adj x y).mode =
      if e.checkModeStyling.err.isSome ∨ adj > 6 then e.checkModeStyling.mode else .drawing := by
  unfold Encoder.startPath; simp only []
  split
  · rename_i h; simp [h]
  · split
    · rename_i h; simp [h]
    · rename_i h h'; simp [h, h']

theorem arc_ne_Z (rel : Bool) : ((if rel = true then DrawOp.arcRel else DrawOp.arcAbs) = DrawOp.Z) = False := by
  cases rel <;> simp

theorem refine_call (e : Encoder) (hinv : Inv e) (c : Call F32) :
    abs (e.step c) = pstep (abs e) (classifyCall c) := by
  cases herr : e.err <;> cases hmode : e.mode <;> cases c
  all_goals simp [Encoder.step, classifyCall, abs, herr, hmode, absMode, pstep, Encoder.reset,
    setCSel_err, setCSel_mode, setNSel_err, setNSel_mode, setLOD_err, setLOD_mode, setCReg_err, setCReg_mode,
    setNReg_err, setNReg_mode, startPath_err, startPath_mode, draw_err, draw_mode, cms_err, cms_mode,
    regErr, checkAdj, kindOf, arc_ne_Z]
  all_goals simp [Inv, herr, hmode] at hinv
  all_goals (repeat' split) <;> simp_all


theorem inv_step (e : Encoder) (hinv : Inv e) (c : Call F32) : Inv (e.step c) := by
  cases herr : e.err <;> cases hmode : e.mode <;> cases c
  all_goals simp [Inv, Encoder.step, herr, hmode, Encoder.reset,
    setCSel_err, setCSel_mode, setNSel_err, setNSel_mode, setLOD_err, setLOD_mode, setCReg_err, setCReg_mode,
    setNReg_err, setNReg_mode, startPath_err, startPath_mode, draw_err, draw_mode, cms_err, cms_mode,
    regErr, arc_ne_Z]
  all_goals simp [Inv, herr, hmode] at hinv
  all_goals (repeat' split) <;> simp_all

theorem readCSel_fst (e : Encoder) : e.readCSel.1 = norm e := rfl
theorem readNSel_fst (e : Encoder) : e.readNSel.1 = norm e := rfl
theorem readLOD_fst (e : Encoder) : e.readLOD.1 = norm e := rfl
theorem readCSel_snd (e : Encoder) : e.readCSel.2 = e.cSel := norm_cSel e
theorem readNSel_snd (e : Encoder) : e.readNSel.2 = e.nSel := norm_nSel e

theorem bytes_of_err {e : Encoder} {k : EncErr} (h : e.err = some k) : e.bytes = (e, .error k) := by
  unfold Encoder.bytes; rw [h]
theorem bytes_of_ok {e : Encoder} (h : e.err = none) :
    e.bytes = ((norm e).flushDrawOps, .ok (norm e).flushDrawOps.buf) := by
  unfold Encoder.bytes; rw [h]; rfl

theorem bytes_err (e : Encoder) : e.bytes.1.err = e.err := by
  cases h : e.err with
  | none => rw [bytes_of_ok h]; simp [h]
  | some k => rw [bytes_of_err h]; exact h
theorem bytes_mode (e : Encoder) : e.bytes.1.mode = if e.err.isSome then e.mode else (norm e).mode := by
  cases h : e.err with
  | none => rw [bytes_of_ok h]; simp
  | some k => rw [bytes_of_err h]; simp

theorem abs_norm (e : Encoder) : abs (norm e) = pstep (abs e) .observe := by
  unfold abs; rw [norm_err]
  cases e.err with
  | none => exact absMode_norm e
  | some k => rfl

/-- Refinement: one use of the API moves the abstraction along the protocol automaton. -/
theorem refine_op (e : Encoder) (hinv : Inv e) (op : EncOp) :
    abs (e.stepOp op).1 = pstep (abs e) (classify op) := by
  cases op with
  | call c => exact refine_call e hinv c
  | readCSel => exact abs_norm e
  | readNSel => exact abs_norm e
  | readLOD => exact abs_norm e
  | bytes =>
    show abs e.bytes.1 = pstep (abs e) .observe
    cases h : e.err with
    | none =>
      rw [bytes_of_ok h, ← abs_norm]; unfold abs; simp
    | some k => rw [bytes_of_err h]; unfold abs; simp [h, pstep]
  | setHiRes b =>
    show abs { e with hiRes := b } = pstep (abs e) .setHiRes
    have : abs { e with hiRes := b } = abs e := rfl
    rw [this]; cases abs e <;> rfl

theorem inv_op (e : Encoder) (hinv : Inv e) (op : EncOp) : Inv (e.stepOp op).1 := by
  have hn : Inv (norm e) := by
    intro hm; rw [norm_err]; apply hinv
    rw [norm_mode] at hm; split at hm
    · cases hm
    · exact hm
  cases op with
  | call c => exact inv_step e hinv c
  | readCSel => exact hn
  | readNSel => exact hn
  | readLOD => exact hn
  | bytes =>
    show Inv e.bytes.1
    cases h : e.err with
    | none => rw [bytes_of_ok h]; exact inv_of_err_none (by simp [h])
    | some k => rw [bytes_of_err h]; exact hinv
  | setHiRes b => exact hinv


/-! ## histories -/

theorem runOps_nil (e : Encoder) : e.runOps [] = (e, []) := rfl
theorem runOps_cons (e : Encoder) (op : EncOp) (ops : List EncOp) :
    e.runOps (op :: ops) =
      (((e.stepOp op).1.runOps ops).1, (e.stepOp op).2.toList ++ ((e.stepOp op).1.runOps ops).2) := by
  simp only [Encoder.runOps]
  cases (e.stepOp op).2 <;> rfl

theorem runOps_append (e : Encoder) (A B : List EncOp) :
    e.runOps (A ++ B) = (((e.runOps A).1.runOps B).1, (e.runOps A).2 ++ ((e.runOps A).1.runOps B).2) := by
  induction A generalizing e with
  | nil => simp [runOps_nil]
  | cons a A ih => simp [runOps_cons, ih]

theorem inv_runOps (e : Encoder) (hinv : Inv e) (h : List EncOp) : Inv (e.runOps h).1 := by
  induction h generalizing e with
  | nil => exact hinv
  | cons op ops ih => rw [runOps_cons]; exact ih _ (inv_op e hinv op)

theorem abs_runOps (e : Encoder) (hinv : Inv e) (h : List EncOp) :
    abs (e.runOps h).1 = prun (abs e) (h.map classify) := by
  induction h generalizing e with
  | nil => rfl
  | cons op ops ih =>
    rw [runOps_cons]; simp only [List.map_cons, prun, List.foldl_cons]
    rw [ih _ (inv_op e hinv op), refine_op e hinv op]; rfl

/-- C10, first sentence, on the state: after any history from the zero value the Encoder holds an
    error iff the history violates the protocol. -/
theorem err_iff_violation (h : List EncOp) :
    (({} : Encoder).runOps h).1.err.isSome = (prun .fresh (h.map classify)).isFailed := by
  rw [← abs_isFailed, abs_runOps _ inv_zero]; rfl

/-- … and the error kept is the kind of the violation the automaton recorded (the first one). -/
theorem err_eq_iff_violation (h : List EncOp) (k : EncErr) :
    (({} : Encoder).runOps h).1.err = some k ↔ prun .fresh (h.map classify) = .failed (kindOf k) := by
  rw [← abs_failed_iff, abs_runOps _ inv_zero]; rfl

/-- C10, first sentence, on the observable: `Bytes()` called after the history `h` returns the error
    `k` iff the automaton is in `failed k` … -/
theorem bytes_error_iff (h : List EncOp) (k : EncErr) :
    (({} : Encoder).runOps h).1.bytes.2 = .error k ↔ prun .fresh (h.map classify) = .failed (kindOf k) := by
  rw [← err_eq_iff_violation]
  cases hk : (({} : Encoder).runOps h).1.err with
  | none => rw [bytes_of_ok hk]; simp
  | some k' =>
    rw [bytes_of_err hk]
    constructor
    · intro h'; cases h'; rfl
    · intro h'; cases h'; rfl

/-- … and returns bytes iff the history is violation free. -/
theorem bytes_ok_iff (h : List EncOp) :
    (∃ b, (({} : Encoder).runOps h).1.bytes.2 = .ok b) ↔ (prun .fresh (h.map classify)).isFailed = false := by
  rw [← err_iff_violation]
  cases hk : (({} : Encoder).runOps h).1.err with
  | none => rw [bytes_of_ok hk]; simp
  | some k' => rw [bytes_of_err hk]; simp

/-- the same for an Encoder in ANY state that is then Reset: only the calls since the Reset count -/
theorem bytes_error_iff_after_reset (e₀ : Encoder) (vb : ViewBox F32) (pal : Palette) (h : List EncOp) (k : EncErr) :
    ((e₀.step (.reset vb pal)).runOps h).1.bytes.2 = .error k ↔
      prun .styling (h.map classify) = .failed (kindOf k) := by
  have hinv : Inv (e₀.step (.reset vb pal)) := inv_of_err_none rfl
  have habs : abs (e₀.step (.reset vb pal)) = .styling := rfl
  rw [← habs, ← abs_runOps _ hinv, abs_failed_iff]
  cases hk : ((e₀.step (.reset vb pal)).runOps h).1.err with
  | none => rw [bytes_of_ok hk]; simp
  | some k' =>
    rw [bytes_of_err hk]
    constructor
    · intro h'; cases h'; rfl
    · intro h'; cases h'; rfl

/-- C10 "The first violation is kept until Reset whatever is called afterwards", one step. -/
theorem first_error_kept (e : Encoder) (hinv : Inv e) (k : EncErr) (herr : e.err = some k)
    (op : EncOp) (hop : classify op ≠ .reset) : (e.stepOp op).1.err = some k := by
  rw [← abs_failed_iff, refine_op e hinv, (abs_failed_iff e k).mpr herr]
  exact pstep_failed _ _ hop

theorem first_error_kept_run (e : Encoder) (hinv : Inv e) (k : EncErr) (herr : e.err = some k)
    (ops : List EncOp) (hops : ∀ op ∈ ops, classify op ≠ .reset) :
    (e.runOps ops).1.err = some k ∧ (e.runOps ops).1.bytes.2 = .error k := by
  induction ops generalizing e with
  | nil => exact ⟨herr, by rw [runOps_nil, bytes_of_err herr]⟩
  | cons op ops ih =>
    rw [runOps_cons]
    exact ih _ (inv_op e hinv op) (first_error_kept e hinv k herr op (hops op (by simp)))
      (fun o ho => hops o (by simp [ho]))

/-- `classify op = .reset` means `op` is a call of Reset. -/
theorem classify_reset_iff (op : EncOp) : classify op = .reset ↔ ∃ vb pal, op = .call (.reset vb pal) := by
  cases op with
  | call c => cases c <;> simp [classify, classifyCall]
  | _ => simp [classify]


/-! ## Reset forgets (C17), Bytes is idempotent -/

/-- `Reset` overwrites the whole Encoder: the result does not depend on the previous state. -/
theorem reset_clears (vb : ViewBox F32) (pal : Palette) (e₁ e₂ : Encoder) :
    e₁.step (.reset vb pal) = e₂.step (.reset vb pal) := rfl

/-- C17, Encoder clause: whatever the state `e₀` (reachable or not) and whatever happened before
    (`A`), after `Reset` the Encoder is in the state a fresh (zero value) Encoder is in after the same
    `Reset` and the same subsequent uses `B`, and everything observed during `B` (selector and LOD
    reads, every `Bytes()` result) is identical. -/
theorem encoder_reset_forgets (e₀ : Encoder) (A : List EncOp) (vb : ViewBox F32) (pal : Palette)
    (B : List EncOp) :
    (e₀.runOps (A ++ .call (.reset vb pal) :: B)).1 = (({} : Encoder).runOps (.call (.reset vb pal) :: B)).1 ∧
    (e₀.runOps (A ++ .call (.reset vb pal) :: B)).2 =
      (e₀.runOps A).2 ++ (({} : Encoder).runOps (.call (.reset vb pal) :: B)).2 := by
  rw [runOps_append]
  constructor <;> rfl

/-- in particular the bytes finally returned are those of a fresh Encoder -/
theorem encoder_reset_forgets_bytes (e₀ : Encoder) (A : List EncOp) (vb : ViewBox F32) (pal : Palette)
    (B : List EncOp) :
    (e₀.runOps (A ++ .call (.reset vb pal) :: B)).1.bytes =
      (({} : Encoder).runOps (.call (.reset vb pal) :: B)).1.bytes := by
  rw [(encoder_reset_forgets e₀ A vb pal B).1]

/-- C17 "calling Bytes twice returns equal bytes" — for every state, and the second call changes
    nothing. -/
theorem bytes_idempotent (e : Encoder) : e.bytes.1.bytes = e.bytes := by
  cases h : e.err with
  | some k => rw [bytes_of_err h, bytes_of_err h]
  | none =>
    rw [bytes_of_ok h]
    have h1 : (norm e).flushDrawOps.err = none := by simp [h]
    have h2 : norm (norm e).flushDrawOps = (norm e).flushDrawOps :=
      norm_of_ne (by rw [flush_mode]; exact norm_mode_ne e)
    rw [bytes_of_ok h1, h2, flush_flush]


/-! ## the zero value behaves as one Reset with the default metadata (C10, last clause)

The zero value `{}` and `Reset(DefaultViewBox, DefaultPalette)` differ in two ways: the zero value is
in `mode = initial` with an empty buffer (every method except the assignment to
`HighResolutionCoordinates` first "normalises" this by writing the default metadata), and its
`lod1` is `0` rather than `+Inf`.  `lod1` is never read except by `LOD()`. -/

def setLod1 (e : Encoder) (x : F32) : Encoder := { e with lod1 := x }

/-- the state up to the two differences -/
def canon (e : Encoder) : Encoder := setLod1 (norm e) F32.zero

@[simp] theorem setLod1_setLod1 (e : Encoder) (x y : F32) : setLod1 (setLod1 e x) y = setLod1 e y := rfl

theorem flush_setLod1 (e : Encoder) (x : F32) : (setLod1 e x).flushDrawOps = setLod1 e.flushDrawOps x := by
  rcases e with ⟨hiRes, hiResLocal, buf, err, lod0, lod1, cSel, nSel, mode, drawOp, drawArgs⟩
  cases drawOp with
  | none => rfl
  | some op =>
    simp only [Encoder.flushDrawOps, setLod1]
    split <;> rfl

theorem norm_setLod1 (e : Encoder) (x : F32) : norm (setLod1 e x) = setLod1 (norm e) x := by
  unfold norm; show (if e.mode = .initial then _ else _) = _; split <;> rfl

theorem cms_setLod1 (e : Encoder) (x : F32) : (setLod1 e x).checkModeStyling = setLod1 e.checkModeStyling x := by
  rcases e with ⟨hiRes, hiResLocal, buf, err, lod0, lod1, cSel, nSel, mode, drawOp, drawArgs⟩
  cases mode <;> rfl


theorem draw_setLod1 (e : Encoder) (x : F32) (op : DrawOp) (args : List F32) :
    (setLod1 e x).draw op args = setLod1 (e.draw op args) x := by
  unfold Encoder.draw
  show (if e.err.isSome then _ else if e.mode ≠ .drawing then _ else _) = _
  split
  · rfl
  · split
    · rfl
    · have h1 : (if (setLod1 e x).drawOp ≠ some op then (setLod1 e x).flushDrawOps else setLod1 e x) =
          setLod1 (if e.drawOp ≠ some op then e.flushDrawOps else e) x := by
        show (if e.drawOp ≠ some op then _ else _) = _
        split
        · exact flush_setLod1 e x
        · rfl
      simp only [h1]
      generalize (if e.drawOp ≠ some op then e.flushDrawOps else e) = e1
      rcases op with v | v | v | v | _ | _ | _ <;> try cases v
      all_goals simp only [opInfo]
      all_goals first | rfl | exact flush_setLod1 _ x


theorem setCSel_setLod1 (e : Encoder) (x : F32) (v : UInt8) :
    (setLod1 e x).setCSel v = setLod1 (e.setCSel v) x := by
  unfold Encoder.setCSel; simp only [cms_setLod1]
  generalize e.checkModeStyling = e'
  show (if e'.err.isSome then _ else _) = _
  split <;> rfl
theorem setNSel_setLod1 (e : Encoder) (x : F32) (v : UInt8) :
    (setLod1 e x).setNSel v = setLod1 (e.setNSel v) x := by
  unfold Encoder.setNSel; simp only [cms_setLod1]
  generalize e.checkModeStyling = e'
  show (if e'.err.isSome then _ else _) = _
  split <;> rfl
theorem setCReg_setLod1 (e : Encoder) (x : F32) (adj : UInt8) (incr : Bool) (c : Color) :
    (setLod1 e x).setCReg adj incr c = setLod1 (e.setCReg adj incr c) x := by
  unfold Encoder.setCReg; simp only [cms_setLod1]
  generalize e.checkModeStyling = e'
  show (if e'.err.isSome then _ else _) = _
  split
  · rfl
  · split
    · rfl
    · cases incr <;> rfl
theorem setNReg_setLod1 (e : Encoder) (x : F32) (adj : UInt8) (incr : Bool) (f : F32) :
    (setLod1 e x).setNReg adj incr f = setLod1 (e.setNReg adj incr f) x := by
  unfold Encoder.setNReg; simp only [cms_setLod1]
  generalize e.checkModeStyling = e'
  show (if e'.err.isSome then _ else _) = _
  split
  · rfl
  · split
    · rfl
    · cases incr <;> rfl
theorem startPath_setLod1 (e : Encoder) (x : F32) (adj : UInt8) (a b : F32) :
    (setLod1 e x).startPath adj a b = setLod1 (e.startPath adj a b) x := by
  unfold Encoder.startPath; simp only [cms_setLod1]
  generalize e.checkModeStyling = e'
  show (if e'.err.isSome then _ else _) = _
  split
  · rfl
  · split <;> rfl
theorem setLOD_setLod1 (e : Encoder) (x y : F32) (a b : F32) :
    setLod1 ((setLod1 e x).setLOD a b) y = setLod1 (e.setLOD a b) y := by
  unfold Encoder.setLOD; simp only [cms_setLod1]
  generalize e.checkModeStyling = e'
  show setLod1 (if e'.err.isSome then _ else _) y = _
  split <;> rfl

/-- `lod1` is irrelevant to everything but itself … -/
theorem step_setLod1 (e : Encoder) (x y : F32) (c : Call F32) :
    setLod1 ((setLod1 e x).step c) y = setLod1 (e.step c) y := by
  cases c <;> simp only [Encoder.step, setCSel_setLod1, setNSel_setLod1, setCReg_setLod1, setNReg_setLod1,
    startPath_setLod1, setLOD_setLod1, draw_setLod1, setLod1_setLod1]
  rfl

theorem bytes_setLod1 (e : Encoder) (x : F32) :
    (setLod1 e x).bytes = (setLod1 e.bytes.1 x, e.bytes.2) := by
  cases h : e.err with
  | some k =>
    have h' : (setLod1 e x).err = some k := h
    rw [bytes_of_err h, bytes_of_err h']
  | none =>
    have h' : (setLod1 e x).err = none := h
    rw [bytes_of_ok h, bytes_of_ok h', norm_setLod1, flush_setLod1]; rfl

/-- … and to every observation except `LOD()`. -/
theorem stepOp_setLod1 (e : Encoder) (x y : F32) (op : EncOp) :
    setLod1 ((setLod1 e x).stepOp op).1 y = setLod1 (e.stepOp op).1 y ∧
    (op ≠ .readLOD → ((setLod1 e x).stepOp op).2 = (e.stepOp op).2) := by
  cases op with
  | call c => exact ⟨step_setLod1 e x y c, fun _ => rfl⟩
  | readCSel =>
    refine ⟨?_, fun _ => ?_⟩
    · show setLod1 (norm (setLod1 e x)) y = setLod1 (norm e) y
      rw [norm_setLod1]; rfl
    · show some (EncObs.sel (norm (setLod1 e x)).cSel) = some (EncObs.sel (norm e).cSel)
      simp; rfl
  | readNSel =>
    refine ⟨?_, fun _ => ?_⟩
    · show setLod1 (norm (setLod1 e x)) y = setLod1 (norm e) y
      rw [norm_setLod1]; rfl
    · show some (EncObs.sel (norm (setLod1 e x)).nSel) = some (EncObs.sel (norm e).nSel)
      simp; rfl
  | readLOD =>
    refine ⟨?_, fun h => absurd rfl h⟩
    show setLod1 (norm (setLod1 e x)) y = setLod1 (norm e) y
    rw [norm_setLod1]; rfl
  | bytes =>
    show setLod1 (setLod1 e x).bytes.1 y = setLod1 e.bytes.1 y ∧
      (_ → some (EncObs.bytes (setLod1 e x).bytes.2) = some (EncObs.bytes e.bytes.2))
    rw [bytes_setLod1]; exact ⟨rfl, fun _ => rfl⟩
  | setHiRes b => exact ⟨rfl, fun _ => rfl⟩


theorem cms_norm (e : Encoder) : (norm e).checkModeStyling = e.checkModeStyling := by
  rcases e with ⟨hiRes, hiResLocal, buf, err, lod0, lod1, cSel, nSel, mode, drawOp, drawArgs⟩
  cases mode <;> rfl

theorem canon_norm (e : Encoder) : canon (norm e) = canon e := by unfold canon; rw [norm_norm]

theorem draw_norm (e : Encoder) (op : DrawOp) (args : List F32) :
    canon ((norm e).draw op args) = canon (e.draw op args) := by
  by_cases hm : e.mode = .initial
  · rcases e with ⟨hiRes, hiResLocal, buf, err, lod0, lod1, cSel, nSel, mode, drawOp, drawArgs⟩
    cases hm
    cases err <;> rfl
  · rw [norm_of_ne hm]

/-- the normalisation every method starts with is invisible -/
theorem step_norm (e : Encoder) (c : Call F32) : canon ((norm e).step c) = canon (e.step c) := by
  cases c
  case reset => rfl
  all_goals simp only [Encoder.step, draw_norm]
  all_goals simp only [Encoder.setCSel, Encoder.setNSel, Encoder.setCReg, Encoder.setNReg, Encoder.setLOD,
    Encoder.startPath, cms_norm]

theorem stepOp_norm (e : Encoder) (op : EncOp) :
    canon ((norm e).stepOp op).1 = canon (e.stepOp op).1 ∧ ((norm e).stepOp op).2 = (e.stepOp op).2 := by
  cases op with
  | call c => exact ⟨step_norm e c, rfl⟩
  | readCSel =>
    show canon (norm (norm e)) = canon (norm e) ∧
      some (EncObs.sel (norm (norm e)).cSel) = some (EncObs.sel (norm e).cSel)
    rw [norm_norm]; exact ⟨rfl, rfl⟩
  | readNSel =>
    show canon (norm (norm e)) = canon (norm e) ∧
      some (EncObs.sel (norm (norm e)).nSel) = some (EncObs.sel (norm e).nSel)
    rw [norm_norm]; exact ⟨rfl, rfl⟩
  | readLOD =>
    show canon (norm (norm e)) = canon (norm e) ∧
      some (EncObs.lod (norm (norm e)).lod0 (norm (norm e)).lod1) = some (EncObs.lod (norm e).lod0 (norm e).lod1)
    rw [norm_norm]; exact ⟨rfl, rfl⟩
  | bytes =>
    show canon (norm e).bytes.1 = canon e.bytes.1 ∧
      some (EncObs.bytes (norm e).bytes.2) = some (EncObs.bytes e.bytes.2)
    cases h : e.err with
    | some k =>
      have h' : (norm e).err = some k := by rw [norm_err]; exact h
      rw [bytes_of_err h, bytes_of_err h']; exact ⟨canon_norm e, rfl⟩
    | none =>
      have h' : (norm e).err = none := by rw [norm_err]; exact h
      rw [bytes_of_ok h, bytes_of_ok h', norm_norm]; exact ⟨rfl, rfl⟩
  | setHiRes b =>
    refine ⟨?_, rfl⟩
    show canon { norm e with hiRes := b } = canon { e with hiRes := b }
    have : ({ norm e with hiRes := b } : Encoder) = norm { e with hiRes := b } := by
      unfold norm; show _ = if e.mode = .initial then _ else _
      split <;> rfl
    rw [this, canon_norm]

theorem canon_eq (e : Encoder) : canon e = norm (setLod1 e F32.zero) := by
  unfold canon; rw [norm_setLod1]

/-- One use of the API cannot tell `e` from `canon e` (except `LOD()`, which reads `lod1`). -/
theorem stepOp_canon (e : Encoder) (op : EncOp) :
    canon ((canon e).stepOp op).1 = canon (e.stepOp op).1 ∧
    (op ≠ .readLOD → ((canon e).stepOp op).2 = (e.stepOp op).2) := by
  have hA := stepOp_setLod1 e F32.zero F32.zero op
  have hB := stepOp_norm (setLod1 e F32.zero) op
  have hc : ∀ a : Encoder, canon a = norm (setLod1 a F32.zero) := canon_eq
  constructor
  · rw [hc e, hB.1, hc, hc, hA.1]
  · intro hop
    rw [hc e, hB.2, hA.2 hop]

theorem canon_canon (e : Encoder) : canon (canon e) = canon e := by
  unfold canon; rw [norm_setLod1, norm_norm]; rfl


/-- forget the second component of a `LOD()` observation -/
def obsErase : EncObs → EncObs
  | .lod a _ => .lod a F32.zero
  | o => o

theorem canon_lod0 (e : Encoder) : (canon e).lod0 = e.lod0 := by
  unfold canon norm; split <;> rfl

theorem stepOp_canon_rel (e₁ e₂ : Encoder) (h : canon e₁ = canon e₂) (op : EncOp) :
    canon (e₁.stepOp op).1 = canon (e₂.stepOp op).1 ∧
    (e₁.stepOp op).2.map obsErase = (e₂.stepOp op).2.map obsErase ∧
    (op ≠ .readLOD → (e₁.stepOp op).2 = (e₂.stepOp op).2) := by
  have h1 := stepOp_canon e₁ op
  have h2 := stepOp_canon e₂ op
  have hne : op ≠ .readLOD → (e₁.stepOp op).2 = (e₂.stepOp op).2 := fun hop => by
    rw [← h1.2 hop, ← h2.2 hop, h]
  refine ⟨by rw [← h1.1, ← h2.1, h], ?_, hne⟩
  cases op with
  | readLOD =>
    show some (obsErase (.lod (norm e₁).lod0 (norm e₁).lod1)) = some (obsErase (.lod (norm e₂).lod0 (norm e₂).lod1))
    have : (norm e₁).lod0 = (norm e₂).lod0 := by
      have := congrArg Encoder.lod0 h
      rw [canon_lod0, canon_lod0] at this
      have n1 : ∀ e : Encoder, (norm e).lod0 = e.lod0 := fun e => by unfold norm; split <;> rfl
      rw [n1, n1]; exact this
    simp [obsErase, this]
  | call c => rw [hne (by simp)]
  | readCSel => rw [hne (by simp)]
  | readNSel => rw [hne (by simp)]
  | bytes => rw [hne (by simp)]
  | setHiRes b => rw [hne (by simp)]

theorem runOps_canon_rel (e₁ e₂ : Encoder) (h : canon e₁ = canon e₂) (ops : List EncOp) :
    canon (e₁.runOps ops).1 = canon (e₂.runOps ops).1 ∧
    (e₁.runOps ops).2.map obsErase = (e₂.runOps ops).2.map obsErase ∧
    ((∀ op ∈ ops, op ≠ .readLOD) → (e₁.runOps ops).2 = (e₂.runOps ops).2) := by
  induction ops generalizing e₁ e₂ with
  | nil => exact ⟨h, rfl, fun _ => rfl⟩
  | cons op ops ih =>
    have hs := stepOp_canon_rel e₁ e₂ h op
    have hr := ih _ _ hs.1
    rw [runOps_cons, runOps_cons]
    refine ⟨hr.1, ?_, fun hno => ?_⟩
    · simp only [List.map_append, hr.2.1]
      congr 1
      have := hs.2.1
      cases h1 : (e₁.stepOp op).2 <;> cases h2 : (e₂.stepOp op).2 <;> simp [h1, h2] at this ⊢
      exact this
    · simp only []
      rw [hs.2.2 (hno op (by simp)), hr.2.2 (fun o ho => hno o (by simp [ho]))]

theorem reset_default (e : Encoder) :
    e.step (.reset defaultViewBox defaultPalette) =
      { buf := magic ++ [0x00], mode := .styling, lod1 := F32.posInf } := by
  have h1 : vbNeDefault defaultViewBox = false := by decide
  have h2 : (defaultPalette != defaultPalette) = false := by simp
  have h3 : encodeNatural 0 = [0x00] := by decide
  simp [Encoder.step, Encoder.reset, h1, h3]

theorem canon_zero_eq_reset_default (e : Encoder) :
    canon ({} : Encoder) = canon (e.step (.reset defaultViewBox defaultPalette)) := by
  rw [reset_default]; rfl


theorem bytes_of_canon_eq (a b : Encoder) (h : canon a = canon b) : a.bytes.2 = b.bytes.2 := by
  have := (stepOp_canon_rel a b h .bytes).2.2 (by simp)
  have h' : some (EncObs.bytes a.bytes.2) = some (EncObs.bytes b.bytes.2) := this
  injection h' with h'; injection h'

/-- C10 "a zero-value Encoder behaves as one reset with the default metadata": for EVERY history `h`
    over the whole API (calls, selector reads, `Bytes()`, assignments to `HighResolutionCoordinates`),
    the zero value and an Encoder (in any state `e₀`) after `Reset(DefaultViewBox, DefaultPalette)`
    yield the same observations — exactly the same if `h` contains no `LOD()` read, and the same up to
    the second component of `LOD()` results otherwise — and `Bytes()` then returns the same result. -/
theorem zero_value_is_default_reset (e₀ : Encoder) (h : List EncOp) :
    ((∀ op ∈ h, op ≠ .readLOD) →
      (({} : Encoder).runOps h).2 = ((e₀.step (.reset defaultViewBox defaultPalette)).runOps h).2) ∧
    (({} : Encoder).runOps h).2.map obsErase =
      ((e₀.step (.reset defaultViewBox defaultPalette)).runOps h).2.map obsErase ∧
    (({} : Encoder).runOps h).1.bytes.2 =
      ((e₀.step (.reset defaultViewBox defaultPalette)).runOps h).1.bytes.2 := by
  have := runOps_canon_rel _ _ (canon_zero_eq_reset_default e₀) h
  exact ⟨this.2.2, this.2.1, bytes_of_canon_eq _ _ this.1⟩

end Ivg.EncoderProto
