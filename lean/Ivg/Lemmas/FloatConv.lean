import Ivg.Lemmas.FloatRound32
/-!
# Format conversion binary32 ↔ binary64 (`Num.convert`, `F64.ofF32`, `F64.toF32`)

* widening is exact: `widen_exact` (finite: same value, same sign bit), `widen_inf`, `widen_nan`;
* narrowing is correctly rounded: `narrow_Rnd` (finite, against `FloatOrder32.Rnd`), `narrow_inf`, `narrow_nan`.
The two value functions `FloatOrder.bval` (binary64) and `FloatOrder32.bval` (binary32) both take values in `ℚ`.
-/
namespace Ivg.FloatConv
open Ivg Num

/-- the two files define the same signed value `±m·2^e` -/
theorem sval_eq (s : Bool) (m : Nat) (e : Int) : FloatOrder32.sval s m e = FloatOrder.sval s m e := rfl

/-! ## widening -/

/-- **binary32 → binary64 is exact** on finite operands: the result is finite, has the same value and the same
    sign bit (so `-0 ↦ -0`) -/
theorem widen_exact (a : Nat) (fa : FloatOrder32.FinB a) :
    FloatOrder.FinB (convert .f32 .f64 a) ∧ FloatOrder.bval (convert .f32 .f64 a) = FloatOrder32.bval a ∧
    FloatOrder.negB64 (convert .f32 .f64 a) = FloatOrder32.negB32 a ∧
    convert .f32 .f64 a < 18446744073709551616 := by
  unfold convert
  rw [FloatOrder32.unpack_fin a fa]
  simp only []
  have h1 := FloatOrder32.mantB_lt a
  have h2 := FloatOrder32.expB_ge a
  have h3 := FloatOrder32.expB_le a fa
  have hL := FloatOrder.bitLen_le (k := 24) (m := FloatOrder32.mantB a) (by omega)
  obtain ⟨r1, r2, r3, r4⟩ := FloatRound.roundPack_exact (FloatOrder32.negB32 a) (FloatOrder32.mantB a)
    (FloatOrder32.expB a) (by omega) (by omega) (by omega)
  exact ⟨r1, by rw [r3]; rfl, r2, r4⟩

/-- an infinite binary32 pattern -/
def InfB32 (a : Nat) : Prop := FloatOrder32.NNB a ∧ ¬ FloatOrder32.FinB a
instance (a : Nat) : Decidable (InfB32 a) := by unfold InfB32; infer_instance

theorem unpack_inf32 (a : Nat) (h : InfB32 a) : unpack .f32 a = .inf (FloatOrder32.negB32 a) := by
  obtain ⟨h1, h2⟩ := h
  unfold FloatOrder32.NNB at h1; unfold FloatOrder32.FinB at h2
  rw [FloatOrder32.unpack_f32, if_pos (by omega), if_pos (by omega)]

/-- `±Inf ↦ ±Inf` -/
theorem widen_inf (a : Nat) (h : InfB32 a) :
    convert .f32 .f64 a = (if FloatOrder32.negB32 a then 0xFFF0000000000000 else 0x7FF0000000000000) := by
  unfold convert; rw [unpack_inf32 a h]
  simp only [FloatOrder.withSign64, FloatOrder.infBits_f64]
  split <;> rfl

theorem unpack_nan32 (a : Nat) (h : ¬ FloatOrder32.NNB a) : unpack .f32 a = .nan a := by
  unfold FloatOrder32.NNB at h
  rw [FloatOrder32.unpack_f32, if_pos (by omega), if_neg (by omega)]

/-- a NaN is converted to the quiet NaN with the same sign and the payload in the top mantissa bits
    (CVTSS2SD) -/
theorem widen_nan (a : Nat) (ha : a < 4294967296) (h : ¬ FloatOrder32.NNB a) :
    convert .f32 .f64 a =
      (if a ≥ 2147483648 then 0x8000000000000000 else 0) + 0x7FF8000000000000 + (a % 4194304) * 536870912 := by
  unfold convert; rw [unpack_nan32 a h]
  unfold FloatOrder32.NNB at h
  simp only [FloatOrder.withSign64, FloatOrder.infBits_f64, FloatOrder32.signBit_f32,
    FloatOrder.mbits_f64, FloatOrder32.mbits_f32, FloatRound.quiet_f64]
  have c1 : (2:Nat) ^ 23 = 8388608 := by decide
  have c2 : (2:Nat) ^ (52 - 23) = 536870912 := by decide
  have c3 : (52 : Nat) ≥ 23 := by decide
  simp only [c1, c2, c3, if_true, beq_iff_eq]
  split <;> split <;> split <;> omega

/-! ## narrowing -/

/-- **binary64 → binary32 is correctly rounded** on finite operands -/
theorem narrow_Rnd (a : Nat) (fa : FloatOrder.FinB a) :
    FloatOrder32.Rnd (FloatOrder.bval a) (convert .f64 .f32 a) := by
  unfold convert
  rw [FloatOrder.unpack_fin a fa]
  simp only []
  have hv : FloatOrder.bval a =
      FloatOrder32.sval (FloatOrder.negB64 a) (FloatOrder.mantB a) (FloatOrder.expB a) := rfl
  rw [hv]
  by_cases h0 : FloatOrder.mantB a = 0
  · rw [h0]
    have : roundPack .f32 (FloatOrder.negB64 a) 0 (FloatOrder.expB a) = withSign .f32 (FloatOrder.negB64 a) 0 := by
      simp [roundPack]
    rw [this]
    have : FloatOrder32.sval (FloatOrder.negB64 a) 0 (FloatOrder.expB a) = 0 := by simp [FloatOrder32.sval]
    rw [this]
    exact FloatOrder32.Rnd_zero _
  · exact FloatOrder32.Rnd_int _ _ _ h0

/-- the sign bit of a narrowed finite number is the operand's (an underflow to zero keeps the sign) -/
theorem narrow_sign (a : Nat) (fa : FloatOrder.FinB a) :
    FloatOrder32.negB32 (convert .f64 .f32 a) = FloatOrder.negB64 a := by
  unfold convert
  rw [FloatOrder.unpack_fin a fa]
  simp only []
  generalize FloatOrder.negB64 a = s
  have hle : ∀ m e st, roundPack .f32 false m e st ≤ 2139095040 := by
    intro m e st
    unfold roundPack
    split
    · simp [withSign]
    · split <;>
      · rw [FloatOrder32.withSign32]; simp only [Bool.false_eq_true, if_false, Nat.zero_add]
        exact FloatOrder32.roundMag_le_inf _ _
  have hs : ∀ m e, roundPack .f32 s m e = (if s then 2147483648 else 0) + roundPack .f32 false m e := by
    intro m e
    unfold roundPack
    simp only [FloatOrder32.withSign32]
    split
    · simp
    · simp
  rw [hs]
  have := hle (FloatOrder.mantB a) (FloatOrder.expB a) false
  unfold FloatOrder32.negB32
  cases s <;> simp <;> omega

/-- `±Inf ↦ ±Inf` -/
theorem narrow_inf (a : Nat) (h : FloatRound.InfB a) :
    convert .f64 .f32 a = (if FloatOrder.negB64 a then 0xFF800000 else 0x7F800000) := by
  unfold convert; rw [FloatRound.unpack_inf a h]
  simp only [FloatOrder32.withSign32, FloatOrder32.infBits_f32]
  split <;> rfl

theorem quiet_f32 (b : Nat) : quiet .f32 b = if b / 4194304 % 2 = 1 then b else b + 4194304 := by
  have : Fmt.f32.quietBit = 4194304 := by decide
  unfold quiet; rw [this]; simp

/-- a NaN is converted to the quiet NaN with the same sign and the top 22 payload bits (CVTSD2SS) -/
theorem narrow_nan (a : Nat) (ha : a < 18446744073709551616) (h : ¬ FloatOrder.NNB a) :
    convert .f64 .f32 a =
      (if a ≥ 9223372036854775808 then 0x80000000 else 0) + 0x7FC00000 + a % 2251799813685248 / 536870912 := by
  unfold convert; rw [FloatMono.unpack_nan a h]
  unfold FloatOrder.NNB at h
  simp only [FloatOrder32.withSign32, FloatOrder32.infBits_f32, FloatOrder.signBit_f64,
    FloatOrder.mbits_f64, FloatOrder32.mbits_f32, quiet_f32]
  have c1 : (2:Nat) ^ 52 = 4503599627370496 := by decide
  have c2 : (2:Nat) ^ (52 - 23) = 536870912 := by decide
  have c3 : ¬ ((23 : Nat) ≥ 52) := by decide
  simp only [c1, c2, c3, if_false, beq_iff_eq]
  split <;> split <;> split <;> omega

/-! ## the wrappers `F64.ofF32` (Go `float64(x)`) and `F64.toF32` (Go `float32(x)`) -/

theorem widen_lt (a : Nat) (ha : a < 4294967296) : convert .f32 .f64 a < 18446744073709551616 := by
  by_cases hn : FloatOrder32.NNB a
  · by_cases hf : FloatOrder32.FinB a
    · exact (widen_exact a hf).2.2.2
    · rw [widen_inf a ⟨hn, hf⟩]; split <;> decide
  · rw [widen_nan a ha hn]; split <;> omega

theorem narrow_lt (a : Nat) (ha : a < 18446744073709551616) : convert .f64 .f32 a < 4294967296 := by
  by_cases hn : FloatOrder.NNB a
  · by_cases hf : FloatOrder.FinB a
    · exact (FloatOrder32.Rnd_lt _ _ (narrow_Rnd a hf)).2
    · rw [narrow_inf a ⟨hn, hf⟩]; split <;> decide
  · rw [narrow_nan a ha hn]; split <;> omega

theorem ofF32_nb (a : F32) : (F64.ofF32 a).nb = convert .f32 .f64 a.nb :=
  FloatMono.nb_ofNatBits _ (widen_lt _ (FloatMono32.nb_lt a))

theorem toF32_nb (a : F64) : (F64.toF32 a).nb = convert .f64 .f32 a.nb :=
  FloatMono32.nb_ofNatBits _ (narrow_lt _ (FloatMono.nb_lt a))

/-- Go `float64(x)` of a finite `float32` is exact -/
theorem ofF32_exact (a : F32) (fa : FloatMono32.Fin a) :
    FloatMono.Fin (F64.ofF32 a) ∧ FloatMono.val (F64.ofF32 a) = FloatMono32.val a := by
  unfold FloatMono.Fin FloatMono.val; rw [ofF32_nb]
  exact ⟨(widen_exact a.nb fa).1, (widen_exact a.nb fa).2.1⟩

/-- Go `float32(x)` of a finite `float64` is the correct rounding of its value -/
theorem toF32_Rnd (a : F64) (fa : FloatMono.Fin a) : FloatOrder32.Rnd (FloatMono.val a) (F64.toF32 a).nb := by
  rw [toF32_nb]; exact narrow_Rnd a.nb fa

/-- widening then narrowing gives the number back (finite operands) -/
theorem toF32_ofF32 (a : F32) (fa : FloatMono32.Fin a) (h0 : FloatMono32.val a ≠ 0) :
    F64.toF32 (F64.ofF32 a) = a := by
  obtain ⟨f1, v1⟩ := ofF32_exact a fa
  have r1 := toF32_Rnd _ f1
  rw [v1] at r1
  have r2 := FloatMono32.Rnd_val fa
  apply FloatMono32.ext_nb
  have k1 := FloatOrder32.Rnd_mono _ _ _ _ r1 r2 (le_refl _)
  have k2 := FloatOrder32.Rnd_mono _ _ _ _ r2 r1 (le_refl _)
  have b1 := FloatOrder32.Rnd_lt _ _ r1
  have b2 := FloatOrder32.Rnd_lt _ _ r2
  rcases FloatOrder32.key_eq _ _ b1.2 b2.2 (by omega) with h | ⟨_, h⟩
  · exact h
  · exact absurd (FloatOrder32.bval_zero _ h) h0

/-! ## `ofRatio`: the correctly rounded decimal → binary conversion (`strconv.ParseFloat`) -/

/-- a numerator scaled so that the quotient has at least `p` bits is an admissible representation -/
theorem quot_big (n d k p : Nat) (hn : 0 < n) (hd : 0 < d) (hk : p + bitLen d ≤ bitLen n - 1 + k) :
    2 ^ p ≤ n * 2 ^ k / d := by
  obtain ⟨h1, _, _⟩ := FloatOrder.bitLen_bounds hn
  have h2 := FloatOrder.bitLen_lt_pow d
  apply (Nat.le_div_iff_mul_le hd).2
  calc 2 ^ p * d ≤ 2 ^ p * 2 ^ bitLen d := Nat.mul_le_mul_left _ (le_of_lt h2)
    _ = 2 ^ (p + bitLen d) := (Nat.pow_add _ _ _).symm
    _ ≤ 2 ^ (bitLen n - 1 + k) := Nat.pow_le_pow_right (by omega) hk
    _ = 2 ^ (bitLen n - 1) * 2 ^ k := Nat.pow_add _ _ _
    _ ≤ n * 2 ^ k := Nat.mul_le_mul_right _ h1

theorem ratio_val (n d k : Nat) :
    ((n * 2 ^ k : Nat) : ℚ) / d * FloatOrder.pow2 (-(k : Int)) = (n : ℚ) / d := by
  have := FloatRound.pow2_neg_mul k
  calc ((n * 2 ^ k : Nat) : ℚ) / d * FloatOrder.pow2 (-(k : Int))
      = (n : ℚ) / d * (FloatOrder.pow2 (-(k : Int)) * ((2 ^ k : Nat) : ℚ)) := by push_cast; ring
    _ = (n : ℚ) / d := by rw [this, mul_one]

/-- **`F64.ofRatio neg n d` is the correct rounding of `±n/d`** -/
theorem ofRatio64_Rnd (neg : Bool) (n d : Nat) (hd : 0 < d) :
    FloatOrder.Rnd ((if neg then -1 else 1) * ((n : ℚ) / d)) (F64.ofRatio neg n d).nb := by
  unfold F64.ofRatio
  by_cases hn : n = 0
  · subst hn
    have hR := FloatOrder.Rnd_zero neg
    simp only [BEq.rfl, if_true, Nat.cast_zero, zero_div, mul_zero]
    rw [FloatMono.nb_ofNatBits _ (FloatOrder.Rnd_lt _ _ hR).2]; exact hR
  · have h1 : (n == 0) = false := by simp [hn]
    simp only [h1, Bool.false_eq_true, if_false]
    have hn0 : 0 < n := by omega
    have hb := (FloatOrder.bitLen_bounds hn0).2.2
    generalize hk : 64 + bitLen d - bitLen n = k
    have hnum : 0 < n * 2 ^ k := Nat.mul_pos hn0 (Nat.two_pow_pos k)
    have hq := quot_big n d k 54 hn0 hd (by show 54 + bitLen d ≤ bitLen n - 1 + k; omega)
    have hOk : FloatOrder.Ok (n * 2 ^ k) d := ⟨hd, hnum, Or.inr (by have := FloatOrder.bitLen_ge hq; omega)⟩
    have hR := FloatOrder.Rnd_ratio neg _ _ (-(k : Int)) hOk
    rw [ratio_val] at hR
    rw [FloatOrder.roundPack_rmag neg _ _ _ hd hnum, FloatMono.nb_ofNatBits _ (FloatOrder.Rnd_lt _ _ hR).2]
    exact hR

theorem ratio_val32 (n d k : Nat) :
    ((n * 2 ^ k : Nat) : ℚ) / d * FloatOrder32.pow2 (-(k : Int)) = (n : ℚ) / d := ratio_val n d k

/-- **`F32.ofRatio neg n d` is the correct rounding of `±n/d`** -/
theorem ofRatio32_Rnd (neg : Bool) (n d : Nat) (hd : 0 < d) :
    FloatOrder32.Rnd ((if neg then -1 else 1) * ((n : ℚ) / d)) (F32.ofRatio neg n d).nb := by
  unfold F32.ofRatio
  by_cases hn : n = 0
  · subst hn
    have hR := FloatOrder32.Rnd_zero neg
    simp only [BEq.rfl, if_true, Nat.cast_zero, zero_div, mul_zero]
    rw [FloatMono32.nb_ofNatBits _ (FloatOrder32.Rnd_lt _ _ hR).2]; exact hR
  · have h1 : (n == 0) = false := by simp [hn]
    simp only [h1, Bool.false_eq_true, if_false]
    have hn0 : 0 < n := by omega
    have hb := (FloatOrder.bitLen_bounds hn0).2.2
    generalize hk : 40 + bitLen d - bitLen n = k
    have hnum : 0 < n * 2 ^ k := Nat.mul_pos hn0 (Nat.two_pow_pos k)
    have hq := quot_big n d k 25 hn0 hd (by show 25 + bitLen d ≤ bitLen n - 1 + k; omega)
    have hOk : FloatOrder32.Ok (n * 2 ^ k) d := ⟨hd, hnum, Or.inr (by have := FloatOrder.bitLen_ge hq; omega)⟩
    have hR := FloatOrder32.Rnd_ratio neg _ _ (-(k : Int)) hOk
    rw [ratio_val32] at hR
    rw [FloatOrder32.roundPack_rmag neg _ _ _ hd hnum, FloatMono32.nb_ofNatBits _ (FloatOrder32.Rnd_lt _ _ hR).2]
    exact hR

example : (F64.ofRatio false 1 10).bits = 0x3FB999999999999A ∧ (F32.ofRatio true 1 10).bits = 0xBDCCCCCD := by
  decide +kernel

-- non-vacuity
example : FloatOrder32.FinB 0x3DCCCCCD ∧ convert .f32 .f64 0x3DCCCCCD = 0x3FB99999A0000000 :=
  ⟨by decide, by decide +kernel⟩                                                   -- float64(float32(0.1))
example : convert .f32 .f64 0x00000001 = 0x36A0000000000000 := by decide +kernel  -- smallest subnormal 2^-149
example : convert .f32 .f64 0x80000000 = 0x8000000000000000 := by decide +kernel  -- -0
example : convert .f32 .f64 0x7F800001 = 0x7FF8000020000000 := by decide +kernel  -- signalling NaN
example : FloatOrder.FinB 0x3FB999999999999A ∧ convert .f64 .f32 0x3FB999999999999A = 0x3DCCCCCD :=
  ⟨by decide, by decide +kernel⟩                                                   -- float32(0.1)
example : convert .f64 .f32 0x47EFFFFFF0000000 = 0x7F800000 := by decide +kernel  -- tie above MaxFloat32 overflows
example : convert .f64 .f32 0x36A0000000000000 = 0x00000001 := by decide +kernel  -- 2^-149 kept
example : convert .f64 .f32 0x3690000000000000 = 0x00000000 := by decide +kernel  -- 2^-150: tie to even, +0
example : convert .f64 .f32 0xB690000000000000 = 0x80000000 := by decide +kernel  -- -2^-150 ↦ -0
example : convert .f64 .f32 0xFFF4000000000001 = 0xFFE00000 := by decide +kernel  -- NaN payload truncated
example : InfB32 0xFF800000 ∧ FloatRound.InfB 0x7FF0000000000000 := by decide

end Ivg.FloatConv
