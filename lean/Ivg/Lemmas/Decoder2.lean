import Ivg.Lemmas.Metadata
/-!
# Decoder lemmas, part 3: the whole run (`loop`) and the entry points (`decodeCore`, `decode`,
`decodeViewBox`, `disassemble`)
-/
namespace Ivg.DecL
open Ivg Num Dec Codec

/-! ## facts about a whole run of the instruction loop -/

/-- a run that ends without error consumed the whole input, printed it exactly once in its byte
    columns, printed one instruction line per call and delivered, for each group of lines, the call
    the group denotes -/
theorem run_ok_spec (m : DMode) (src : Bytes) : (run m src).2 = none →
    bytesOf (run m src).1 = src ∧ instrCount (run m src).1 = (callsOf (run m src).1).length ∧
      Grouped [] (run m src).1 := by
  refine run_induction (P := fun _ src r => r.2 = none →
    bytesOf r.1 = src ∧ instrCount r.1 = (callsOf r.1).length ∧ Grouped [] r.1) ?_ ?_ ?_ m src
  · intro m _; exact ⟨rfl, rfl, .nil⟩
  · intro m src its e _ _ h; simp at h
  · intro m src its m' rest hs ih h
    obtain ⟨h1, h2, h3⟩ := ih h
    obtain ⟨pre, _, rfl, hb, _, _, hi, hg, _⟩ := stepDec_ok hs
    exact ⟨by simp [hb, h1], by simp [hi, h2], hg.append h3⟩

/-- every delivered call consumed at least one input byte -/
theorem run_calls_le (m : DMode) (src : Bytes) : (callsOf (run m src).1).length ≤ src.length := by
  refine run_induction (P := fun _ src r => (callsOf r.1).length ≤ src.length) ?_ ?_ ?_ m src
  · intro m; simp
  · intro m src its e _ hs; exact (stepDec_error hs).1
  · intro m src its m' rest hs ih
    obtain ⟨pre, _, rfl, _, _, hl, _⟩ := stepDec_ok hs
    simp at ih ⊢; omega

/-- the loop never delivers `Reset` -/
theorem run_no_reset (m : DMode) (src : Bytes) : ∀ c ∈ callsOf (run m src).1, isReset c = false := by
  refine run_induction (P := fun _ _ r => ∀ c ∈ callsOf r.1, isReset c = false) ?_ ?_ ?_ m src
  · intro m; simp
  · intro m src its e _ hs; exact (stepDec_error hs).2.1
  · intro m src its m' rest hs ih c hc
    obtain ⟨pre, _, rfl, _, _, _, _, hg, _⟩ := stepDec_ok hs
    simp at hc
    rcases hc with hc | hc
    · exact hg.no_reset c hc
    · exact ih c hc

/-- the calls delivered for an input are a prefix of those delivered for any extension of it -/
theorem run_prefix (m : DMode) (a : Bytes) : ∀ b, callsOf (run m a).1 <+: callsOf (run m (a ++ b)).1 := by
  refine run_induction (P := fun m a r => ∀ b, callsOf r.1 <+: callsOf (run m (a ++ b)).1) ?_ ?_ ?_ m a
  · intro m b; simp
  · intro m src its e hne hs b
    have hp := (stepDec_error hs).2.2 b
    have hne' : src ++ b ≠ [] := by simp [hne]
    rw [run_step hne']
    rcases hq : stepDec m (src ++ b) with ⟨q1, (e' | ⟨m', q2⟩)⟩ <;> rw [hq] at hp <;> simp only at hp ⊢
    · exact hp
    · rw [callsOf_append]
      exact hp.trans (List.prefix_append _ _)
  · intro m src its m' rest hs ih b
    obtain ⟨pre, _, rfl, _, _, _, _, _, happ⟩ := stepDec_ok hs
    rw [run_step_ok (happ b)]
    simp only [callsOf_append]
    exact (List.prefix_append_right_inj _).2 (ih b)

/-! ## the metadata section as a whole -/

/-- "the magic identifier, the chunk count and every metadata chunk of `src` are valid": they are
    printed as `hdr`, yield the metadata `m` (starting from `m0`) and leave `src3` -/
def MetaOk (m0 : Metadata) (src : Bytes) (hdr : List Item) (m : Metadata) (src3 : Bytes) : Prop :=
  ∃ n w src2 its, src.take 4 = Enc.magic ∧ decodeNatural (src.drop 4) = some (n, w, src2) ∧
    decodeChunks (src2.length + 1) n m0 0 src2 = (its, .ok (m, src3)) ∧
    hdr = .line ⟨Enc.magic, .magic⟩ :: .line ⟨consumed (src.drop 4) src2, .nChunks n⟩ :: its

theorem decodeCore_of_metaOk {m0 : Metadata} {src : Bytes} {hdr : List Item} {m : Metadata} {src3 : Bytes}
    (h : MetaOk m0 src hdr m src3) (opts : List DecodeOption) :
    decodeCore true m0 opts src = (⟨hdr, none⟩, applyOptions m opts) ∧
    decodeCore false m0 opts src =
      (⟨hdr ++ [.call (.reset (applyOptions m opts).viewBox (applyOptions m opts).palette)] ++
          (run .styling src3).1, (run .styling src3).2⟩, applyOptions m opts) := by
  obtain ⟨n, w, src2, its, h1, h2, h3, rfl⟩ := h
  constructor
  · simp [decodeCore, h1, h2, h3]
  · simp [decodeCore, h1, h2, h3, run]

/-- if the metadata section is not valid, decoding fails having delivered nothing -/
theorem decodeCore_of_not_metaOk {m0 : Metadata} {src : Bytes}
    (h : ¬ ∃ hdr m src3, MetaOk m0 src hdr m src3) :
    ∃ its e, (∀ (mo : Bool) (opts : List DecodeOption), decodeCore mo m0 opts src = (⟨its, some e⟩, m0)) ∧
      callsOf its = [] ∧
      (e = .invalidMagicIdentifier ∨ e = .invalidNumberOfMetadataChunks ∨
       ∃ n w src2 its', decodeNatural (src.drop 4) = some (n, w, src2) ∧
         decodeChunks (src2.length + 1) n m0 0 src2 = (its', .error e)) := by
  by_cases h1 : src.take 4 = Enc.magic
  · rcases h2 : decodeNatural (src.drop 4) with _ | ⟨n, w, src2⟩
    · exact ⟨[.line ⟨Enc.magic, .magic⟩], .invalidNumberOfMetadataChunks,
        fun _ _ => by simp [decodeCore, h1, h2], rfl, .inr (.inl rfl)⟩
    · rcases h3 : decodeChunks (src2.length + 1) n m0 0 src2 with ⟨its, (e | ⟨m, src3⟩)⟩
      · have hc := decodeChunks_calls (src2.length + 1) n m0 0 src2
        rw [h3] at hc
        exact ⟨.line ⟨Enc.magic, .magic⟩ :: .line ⟨consumed (src.drop 4) src2, .nChunks n⟩ :: its, e,
          fun _ _ => by simp [decodeCore, h1, h2, h3], by simpa using hc,
          .inr (.inr ⟨n, w, src2, its, rfl, h3⟩)⟩
      · exact absurd ⟨_, m, src3, n, w, src2, its, h1, h2, h3, rfl⟩ h
  · exact ⟨[], .invalidMagicIdentifier, fun _ _ => by simp [decodeCore, h1], rfl, .inl rfl⟩

theorem take4_magic {src : Bytes} (h : src.take 4 = Enc.magic) : src = Enc.magic ++ src.drop 4 := by
  rw [← h, List.take_append_drop]

theorem MetaOk.spec {m0 : Metadata} {src : Bytes} {hdr : List Item} {m : Metadata} {src3 : Bytes}
    (h : MetaOk m0 src hdr m src3) :
    ∃ pre, src = pre ++ src3 ∧ bytesOf hdr = pre ∧ callsOf hdr = [] ∧ instrCount hdr = 0 ∧ 5 ≤ pre.length := by
  obtain ⟨n, w, src2, its, h1, h2, h3, rfl⟩ := h
  obtain ⟨p2, hne2, h2'⟩ := decodeNatural_split h2
  have hc := decodeChunks_calls (src2.length + 1) n m0 0 src2
  rw [h3] at hc
  obtain ⟨p3, rfl, hb, hi, _, _⟩ := decodeChunks_ok _ _ _ _ h3
  have l2 : 0 < p2.length := List.length_pos_iff.mpr hne2
  refine ⟨Enc.magic ++ (p2 ++ p3), ?_, ?_, by simpa using hc, by simp [hi], ?_⟩
  · conv => lhs; rw [take4_magic h1, h2']
    simp
  · rw [h2']; simp [hb]
  · simp [Enc.magic]; omega

theorem MetaOk.append {m0 : Metadata} {src : Bytes} {hdr : List Item} {m : Metadata} {src3 : Bytes}
    (h : MetaOk m0 src hdr m src3) (k : Bytes) : MetaOk m0 (src ++ k) hdr m (src3 ++ k) := by
  obtain ⟨n, w, src2, its, h1, h2, h3, rfl⟩ := h
  have hl : 4 ≤ src.length := by
    have := congrArg List.length h1
    simp [Enc.magic] at this
    omega
  obtain ⟨p2, hne2, h2'⟩ := decodeNatural_split h2
  obtain ⟨p3, rfl, hb, hi, _, happ⟩ := decodeChunks_ok _ _ _ _ h3
  refine ⟨n, w, p3 ++ src3 ++ k, its, ?_, ?_, ?_, ?_⟩
  · rw [List.take_append_of_le_length hl, h1]
  · rw [List.drop_append_of_le_length hl]
    exact decodeNatural_append h2 k
  · exact happ _ k (by simp)
  · rw [List.drop_append_of_le_length hl, h2']
    simp

theorem MetaOk.unique {m0 : Metadata} {src : Bytes} {hdr hdr' : List Item} {m m' : Metadata} {src3 src3' : Bytes}
    (h : MetaOk m0 src hdr m src3) (h' : MetaOk m0 src hdr' m' src3') :
    hdr = hdr' ∧ m = m' ∧ src3 = src3' := by
  obtain ⟨n, w, src2, its, h1, h2, h3, rfl⟩ := h
  obtain ⟨n', w', src2', its', _, h2', h3', rfl⟩ := h'
  rw [h2] at h2'
  simp at h2'
  obtain ⟨rfl, rfl, rfl⟩ := h2'
  rw [h3] at h3'
  simp at h3'
  obtain ⟨rfl, rfl, rfl⟩ := h3'
  exact ⟨rfl, rfl, rfl⟩


/-! ## `decode` -/

theorem metaOk_em (m0 : Metadata) (src : Bytes) :
    (∃ hdr m src3, MetaOk m0 src hdr m src3) ∨ ¬ ∃ hdr m src3, MetaOk m0 src hdr m src3 :=
  Classical.em _

theorem decode_of_metaOk {src : Bytes} {hdr : List Item} {m : Metadata} {src3 : Bytes}
    (h : MetaOk {} src hdr m src3) (opts : List DecodeOption) :
    decode opts src =
      (.reset (applyOptions m opts).viewBox (applyOptions m opts).palette :: callsOf (run .styling src3).1,
       (run .styling src3).2) := by
  unfold decode
  rw [(decodeCore_of_metaOk h opts).2]
  simp [h.spec.choose_spec.2.2.1]

theorem decode_of_not_metaOk {src : Bytes} (h : ¬ ∃ hdr m src3, MetaOk {} src hdr m src3)
    (opts : List DecodeOption) : ∃ e, decode opts src = ([], some e) := by
  obtain ⟨its, e, h1, h2, _⟩ := decodeCore_of_not_metaOk h
  exact ⟨e, by unfold decode; rw [h1]; simp [h2]⟩

/-- C02: the calls delivered for any prefix of an input are a prefix of the calls delivered for the
    whole input -/
theorem decode_prefix_monotone (opts : List DecodeOption) (a b : Bytes) :
    (decode opts a).1 <+: (decode opts (a ++ b)).1 := by
  rcases metaOk_em {} a with ⟨hdr, m, src3, h⟩ | h
  · rw [decode_of_metaOk h opts, decode_of_metaOk (h.append b) opts]
    exact (List.prefix_cons_inj _).2 (run_prefix _ _ b)
  · obtain ⟨e, he⟩ := decode_of_not_metaOk h opts
    rw [he]
    exact List.nil_prefix

/-- C02: Reset is paid for by the magic identifier and the chunk-count byte, every other call by at
    least one byte of its own -/
theorem decode_calls_bound (opts : List DecodeOption) (src : Bytes) (h : (decode opts src).1 ≠ []) :
    (decode opts src).1.length + 4 ≤ src.length := by
  rcases metaOk_em {} src with ⟨hdr, m, src3, hm⟩ | hm
  · rw [decode_of_metaOk hm opts]
    obtain ⟨pre, rfl, _, _, _, hl⟩ := hm.spec
    have := run_calls_le .styling src3
    simp; omega
  · obtain ⟨e, he⟩ := decode_of_not_metaOk hm opts
    rw [he] at h
    exact absurd rfl h

/-- C02: nothing is delivered unless the magic and every metadata chunk were valid; the first
    delivered call is Reset with the metadata the model computes, and Reset is never delivered again -/
theorem decode_no_early_delivery (opts : List DecodeOption) (src : Bytes) (c : Call F32) (cs : List (Call F32))
    (h : (decode opts src).1 = c :: cs) :
    ∃ hdr m src3, MetaOk {} src hdr m src3 ∧
      c = .reset (applyOptions m opts).viewBox (applyOptions m opts).palette ∧
      ∀ c' ∈ cs, isReset c' = false := by
  rcases metaOk_em {} src with ⟨hdr, m, src3, hm⟩ | hm
  · rw [decode_of_metaOk hm opts] at h
    simp at h
    obtain ⟨rfl, rfl⟩ := h
    exact ⟨hdr, m, src3, hm, rfl, run_no_reset _ _⟩
  · obtain ⟨e, he⟩ := decode_of_not_metaOk hm opts
    rw [he] at h
    simp at h

/-! ## `decodeViewBox`, `disassemble` -/

theorem decodeViewBox_of_metaOk {src : Bytes} {hdr : List Item} {m : Metadata} {src3 : Bytes}
    (h : MetaOk {} src hdr m src3) : decodeViewBox src = (m.viewBox, none) := by
  unfold decodeViewBox
  rw [(decodeCore_of_metaOk h []).1]
  rfl

theorem decodeViewBox_of_not_metaOk {src : Bytes} (h : ¬ ∃ hdr m src3, MetaOk {} src hdr m src3) :
    ∃ e, (decodeViewBox src).2 = some e ∧ (decode [] src).2 = some e := by
  obtain ⟨its, e, h1, _, _⟩ := decodeCore_of_not_metaOk h
  exact ⟨e, by unfold decodeViewBox; rw [h1], by unfold decode; rw [h1]⟩

theorem disassemble_of_metaOk {src : Bytes} {hdr : List Item} {m : Metadata} {src3 : Bytes}
    (h : MetaOk {} src hdr m src3) :
    disassemble src = match (run .styling src3).2 with
      | some e => .error e
      | none => .ok (linesOf hdr ++ linesOf (run .styling src3).1) := by
  unfold disassemble
  rw [(decodeCore_of_metaOk h []).2]
  simp only
  cases (run .styling src3).2 <;> simp


/-! ## reading a listing back -/

/-- one step of the reader, scanning the listing from the bottom: operand lines are collected until
    the instruction line they belong to is reached -/
def readStep (l : Line) (st : List LineKind × List (Call F32)) : List LineKind × List (Call F32) :=
  if l.isInstr then
    match callOfLines (l.kind :: st.1) with
    | some c => ([], c :: st.2)
    | none => ([], st.2)
  else (l.kind :: st.1, st.2)

/-- the calls denoted by a listing: every instruction line together with the operand lines that
    follow it, read by `callOfLines`; all other lines (the metadata section) are ignored -/
def readCalls (ls : List Line) : List (Call F32) := (ls.foldr readStep ([], [])).2

@[simp] theorem linesOf_map_line (ls : List Line) : linesOf (ls.map Item.line) = ls := by
  induction ls with
  | nil => rfl
  | cons l ls ih => simp [ih]

theorem foldr_noninstr : ∀ (ls : List Line), (∀ l ∈ ls, l.isInstr = false) →
    ∀ st, ls.foldr readStep st = (ls.map (·.kind) ++ st.1, st.2)
  | [], _, st => rfl
  | l :: ls, h, st => by
    rw [List.foldr_cons, foldr_noninstr ls (fun x hx => h x (List.mem_cons_of_mem _ hx)) st]
    simp [readStep, h l List.mem_cons_self]

theorem foldr_grouped {pend : List LineKind} {its : List Item} (h : Grouped pend its) :
    pend = [] → ∀ cs, (linesOf its).foldr readStep ([], cs) = ([], callsOf its ++ cs) := by
  induction h with
  | nil => intro _ cs; rfl
  | @cons pend ls c rest hs hc hn _ ih =>
    rintro rfl cs
    simp only [List.nil_append] at hs hc
    obtain ⟨k, ops, hko, hk, hops⟩ := hs
    cases ls with
    | nil => simp at hko
    | cons l ls' =>
      simp only [List.map_cons, List.cons.injEq] at hko
      obtain ⟨rfl, rfl⟩ := hko
      simp only [linesOf_append, linesOf_map_line, linesOf_call, List.foldr_append, ih rfl cs,
        List.foldr_cons, callsOf_append, callsOf_map_line, callsOf_call, List.nil_append,
        List.cons_append]
      rw [foldr_noninstr ls' (fun x hx => hops _ (List.mem_map_of_mem hx))]
      simp only [List.append_nil, readStep, Line.isInstr, hk, if_true]
      simp only [List.map_cons] at hc
      rw [hc]

/-- the calls of a grouped item list are what the reader reads from its lines, whatever call-free,
    instruction-free lines (the metadata section) precede it -/
theorem readCalls_grouped {hdr body : List Item} (hh : instrCount hdr = 0) (hb : Grouped [] body) :
    readCalls (linesOf hdr ++ linesOf body) = callsOf body := by
  unfold readCalls
  rw [List.foldr_append, foldr_grouped hb rfl [], foldr_noninstr]
  · simp
  · intro l hl
    have := kinds_noninstr hh l.kind (List.mem_map_of_mem hl)
    exact this


/-! ## C11: the disassembler against the decoder -/

theorem disassemble_error_iff (src : Bytes) (e : DecErr) :
    disassemble src = .error e ↔ (decode [] src).2 = some e := by
  unfold disassemble decode
  rcases decodeCore false {} [] src with ⟨⟨items, err⟩, m⟩
  cases err <;> simp

theorem disassemble_ok_iff (src : Bytes) :
    (∃ ls, disassemble src = .ok ls) ↔ (decode [] src).2 = none := by
  unfold disassemble decode
  rcases decodeCore false {} [] src with ⟨⟨items, err⟩, m⟩
  cases err <;> simp

/-- what a successful listing looks like -/
theorem disassemble_ok {src : Bytes} {ls : List Line} (h : disassemble src = .ok ls) :
    ∃ hdr m src3, MetaOk {} src hdr m src3 ∧ (run .styling src3).2 = none ∧
      ls = linesOf hdr ++ linesOf (run .styling src3).1 := by
  rcases metaOk_em {} src with ⟨hdr, m, src3, hm⟩ | hm
  · refine ⟨hdr, m, src3, hm, ?_⟩
    rw [disassemble_of_metaOk hm] at h
    rcases hr : (run .styling src3).2 with _ | e <;> rw [hr] at h <;> simp at h
    exact ⟨rfl, h.symm⟩
  · obtain ⟨e, he⟩ := decode_of_not_metaOk hm []
    have := (disassemble_error_iff src e).2 (by rw [he])
    rw [this] at h
    simp at h

/-- C11: the byte column of a successful listing, concatenated in line order, is the input -/
theorem disassemble_hex_concat {src : Bytes} {ls : List Line} (h : disassemble src = .ok ls) :
    ls.flatMap (·.bytes) = src := by
  obtain ⟨hdr, m, src3, hm, hr, rfl⟩ := disassemble_ok h
  obtain ⟨pre, rfl, hb, _⟩ := hm.spec
  have := (run_ok_spec .styling src3 hr).1
  simp only [bytesOf] at hb this
  simp [hb, this]

/-- C11: one instruction line per delivered operation (all calls but the initial Reset) -/
theorem disassemble_one_line_per_call {src : Bytes} {ls : List Line} (h : disassemble src = .ok ls) :
    (ls.filter Line.isInstr).length + 1 = (decode [] src).1.length := by
  obtain ⟨hdr, m, src3, hm, hr, rfl⟩ := disassemble_ok h
  obtain ⟨pre, rfl, _, _, hi, _⟩ := hm.spec
  have := (run_ok_spec .styling src3 hr).2.1
  rw [decode_of_metaOk hm []]
  simp only [instrCount] at hi this
  simp [hi, this]

/-- C11: the calls the decoder delivers are Reset followed by exactly the calls read back from the
    printed operand values of the listing -/
theorem disassemble_values_agree {src : Bytes} {ls : List Line} (h : disassemble src = .ok ls) :
    ∃ vb pal, (decode [] src).1 = .reset vb pal :: readCalls ls := by
  obtain ⟨hdr, m, src3, hm, hr, rfl⟩ := disassemble_ok h
  obtain ⟨pre, rfl, _, _, hi, _⟩ := hm.spec
  have := (run_ok_spec .styling src3 hr).2.2
  rw [decode_of_metaOk hm [], readCalls_grouped hi this]
  exact ⟨_, _, rfl⟩

/-- the same, structurally: the items of a successful traversal are the metadata lines, the Reset
    call, and then groups "instruction line, operand lines, call" in which the call is the one the
    group's printed values denote -/
theorem decodeCore_grouped {src : Bytes} {items : List Item} {m : Metadata}
    (h : decodeCore false {} [] src = (⟨items, none⟩, m)) :
    ∃ hdr body, items = hdr ++ [.call (.reset m.viewBox m.palette)] ++ body ∧ callsOf hdr = [] ∧
      instrCount hdr = 0 ∧ Grouped [] body := by
  rcases metaOk_em {} src with ⟨hdr, m', src3, hm⟩ | hm
  · rw [(decodeCore_of_metaOk hm []).2] at h
    simp only [Prod.mk.injEq, Result.mk.injEq] at h
    obtain ⟨⟨rfl, hr⟩, rfl⟩ := h
    obtain ⟨pre, rfl, _, hc, hi, _⟩ := hm.spec
    exact ⟨hdr, _, rfl, hc, hi, (run_ok_spec .styling src3 hr).2.2⟩
  · obtain ⟨its, e, h1, _⟩ := decodeCore_of_not_metaOk hm
    rw [h1] at h
    simp at h

/-- the repeat count of a drawing opcode, as `decodeDrawing` computes it -/
def nRepsOf (opcode : UInt8) : Nat :=
  if (opcode >>> 4).toNat < 4 then 1 + (opcode &&& 0x1f).toNat else 1 + (opcode &&& 0x0f).toNat

/-- C11: the repeat count printed on a drawing-opcode line is the number of calls the instruction
    delivers; the first is headed by the opcode line, the others by "implicit" lines -/
theorem decodeDrawing_repeat_count {opcode : UInt8} {rest : Bytes} {its : List Item} {r : DMode × Bytes}
    (h1 : opcode < 0xe0) (h : decodeDrawing (opcode :: rest) = (its, .ok r)) :
    ∃ its', its = .line ⟨[opcode], .drawHdr (repOpOf (opcode >>> 4).toNat) (nRepsOf opcode)⟩ :: its' ∧
      (callsOf its').length = nRepsOf opcode ∧ instrCount its' = nRepsOf opcode - 1 := by
  rw [decodeDrawing_reps opcode rest h1] at h
  simp only at h
  unfold nRepsOf
  generalize (if (opcode >>> 4).toNat < 4 then 1 + (opcode &&& 0x1f).toNat
    else 1 + (opcode &&& 0x0f).toNat) = n at h ⊢
  rcases hr : decodeReps (repOpOf (opcode >>> 4).toNat) n true rest with ⟨its', (e | rest')⟩ <;>
    rw [hr] at h <;> simp only at h
  · simp at h
  · simp only [Prod.mk.injEq] at h
    obtain ⟨rfl, _⟩ := h
    obtain ⟨pre, _, _, hc, _, hi, _⟩ := decodeReps_ok _ n true hr
    exact ⟨its', rfl, hc, by simpa using hi⟩


/-! ## C13: the metadata delivered through Reset -/

theorem MetaOk.chunks {m0 : Metadata} {src : Bytes} {hdr : List Item} {m : Metadata} {src3 : Bytes}
    (h : MetaOk m0 src hdr m src3) :
    ∃ l0 l1 its src2, hdr = l0 :: l1 :: its ∧
      ((m = m0 ∧ its = []) ∨
       (∃ mm', ChunkOk m0 0 src2 its m mm' src3) ∨
       (∃ its1 m1 r1 its2, ChunkOk m0 0 src2 its1 m1 1 r1 ∧ ChunkOk m1 1 r1 its2 m 2 src3 ∧
         its = its1 ++ its2)) := by
  obtain ⟨n, w, src2, its, h1, h2, h3, rfl⟩ := h
  refine ⟨_, _, its, src2, rfl, ?_⟩
  rcases decodeChunks_shapes h3 with ⟨_, rfl, rfl, _⟩ | ⟨_, hc⟩ | ⟨_, hc⟩
  · exact .inl ⟨rfl, rfl⟩
  · exact .inr (.inl hc)
  · exact .inr (.inr hc)

theorem chunkOk_mm {m : Metadata} {minMID : Nat} {src : Bytes} {its : List Item}
    {m' : Metadata} {mm' : Nat} {rest : Bytes} (h : ChunkOk m minMID src its m' mm' rest) :
    mm' = 1 ∨ mm' = 2 := by
  cases h <;> simp

/-- C13: the viewBox handed to Reset is a non-inverted box of finite numbers (the default one if there
    is no viewBox chunk) -/
theorem MetaOk.viewBox_valid {src : Bytes} {hdr : List Item} {m : Metadata} {src3 : Bytes}
    (h : MetaOk {} src hdr m src3) :
    m.viewBox.minX ≤ m.viewBox.maxX ∧ m.viewBox.minY ≤ m.viewBox.maxY ∧
    isNaNOrInfinity m.viewBox.minX = false ∧ isNaNOrInfinity m.viewBox.minY = false ∧
    isNaNOrInfinity m.viewBox.maxX = false ∧ isNaNOrInfinity m.viewBox.maxY = false := by
  have dflt : ∀ m' : Metadata, m'.viewBox = defaultViewBox →
      m'.viewBox.minX ≤ m'.viewBox.maxX ∧ m'.viewBox.minY ≤ m'.viewBox.maxY ∧
      isNaNOrInfinity m'.viewBox.minX = false ∧ isNaNOrInfinity m'.viewBox.minY = false ∧
      isNaNOrInfinity m'.viewBox.maxX = false ∧ isNaNOrInfinity m'.viewBox.maxY = false := by
    intro m' e; rw [e]; decide
  have vb : ∀ {m0 m' : Metadata} {mn : Nat} {s : Bytes} {i : List Item} {r : Bytes},
      ChunkOk m0 mn s i m' 1 r →
      m'.viewBox.minX ≤ m'.viewBox.maxX ∧ m'.viewBox.minY ≤ m'.viewBox.maxY ∧
      isNaNOrInfinity m'.viewBox.minX = false ∧ isNaNOrInfinity m'.viewBox.minY = false ∧
      isNaNOrInfinity m'.viewBox.maxX = false ∧ isNaNOrInfinity m'.viewBox.maxY = false := by
    intro m0 m' mn s i r hc
    obtain ⟨_, _, q1, q2, q3, q4, q5, q6, _⟩ := hc.viewBox_spec
    exact ⟨le_of_not_lt q3 q5 q1, le_of_not_lt q4 q6 q2, q3, q4, q5, q6⟩
  obtain ⟨l0, l1, its, src2, rfl, hs⟩ := h.chunks
  rcases hs with ⟨rfl, _⟩ | ⟨mm', hc⟩ | ⟨its1, m1, r1, its2, hc1, hc2, _⟩
  · exact dflt _ rfl
  · rcases chunkOk_mm hc with rfl | rfl
    · exact vb hc
    · exact dflt _ hc.palette_spec.1
  · have := hc2.palette_spec.1
    rw [this]
    exact vb hc1

/-- C13: defaults for absent chunks — without a chunk of identifier 0 (no "Metadata Identifier: 0"
    line) Reset gets the default viewBox, without one of identifier 1 the default palette -/
theorem MetaOk.defaults {src : Bytes} {hdr : List Item} {m : Metadata} {src3 : Bytes}
    (h : MetaOk {} src hdr m src3) :
    (LineKind.mid 0 ∉ kindsOf hdr → m.viewBox = defaultViewBox) ∧
    (LineKind.mid 1 ∉ kindsOf hdr → m.palette = defaultPalette) := by
  have vbmid : ∀ {m0 m' : Metadata} {mn : Nat} {s : Bytes} {i : List Item} {r : Bytes},
      ChunkOk m0 mn s i m' 1 r → LineKind.mid 0 ∈ kindsOf i ∧ m'.palette = m0.palette := by
    intro m0 m' mn s i r hc
    generalize hone : (1 : Nat) = one at hc
    cases hc with
    | viewBox => exact ⟨by simp, rfl⟩
    | palette => omega
  have palmid : ∀ {m0 m' : Metadata} {mn : Nat} {s : Bytes} {i : List Item} {r : Bytes},
      ChunkOk m0 mn s i m' 2 r → LineKind.mid 1 ∈ kindsOf i ∧ m'.viewBox = m0.viewBox := by
    intro m0 m' mn s i r hc
    generalize htwo : (2 : Nat) = two at hc
    cases hc with
    | viewBox => omega
    | palette => exact ⟨by simp, rfl⟩
  obtain ⟨l0, l1, its, src2, rfl, hs⟩ := h.chunks
  rcases hs with ⟨rfl, _⟩ | ⟨mm', hc⟩ | ⟨its1, m1, r1, its2, hc1, hc2, rfl⟩
  · exact ⟨fun _ => rfl, fun _ => rfl⟩
  · rcases chunkOk_mm hc with rfl | rfl
    · obtain ⟨hm, hp⟩ := vbmid hc
      exact ⟨fun hn => absurd (by cases l0 <;> cases l1 <;> simp [hm]) hn, fun _ => hp⟩
    · obtain ⟨hm, hv⟩ := palmid hc
      exact ⟨fun _ => hv, fun hn => absurd (by cases l0 <;> cases l1 <;> simp [hm]) hn⟩
  · obtain ⟨hm1, _⟩ := vbmid hc1
    obtain ⟨hm2, _⟩ := palmid hc2
    exact ⟨fun hn => absurd (by cases l0 <;> cases l1 <;> simp [hm1]) hn,
      fun hn => absurd (by cases l0 <;> cases l1 <;> simp [hm2]) hn⟩

/-- C13: the suggested palette is either entirely default (no palette chunk) or comes from a palette
    chunk with header byte `hb`: entries `0..N` (`N = hb & 0x3f`) are the `N+1` colours that follow,
    converted by `Color.RGBA()`, and all entries above `N` are opaque black -/
theorem MetaOk.palette_spec {src : Bytes} {hdr : List Item} {m : Metadata} {src3 : Bytes}
    (h : MetaOk {} src hdr m src3) :
    m.palette = defaultPalette ∨
    ∃ (hb : UInt8) (body rest : Bytes) (cols : List Color),
      Item.line ⟨[hb], .palHeader (1 + (hb &&& 0x3f).toNat) (1 + (hb >>> 6).toNat)⟩ ∈ hdr ∧
      decodeColors (palDec (hb >>> 6).toNat) (1 + (hb &&& 0x3f).toNat) body = some (cols, rest) ∧
      cols.length = 1 + (hb &&& 0x3f).toNat ∧
      (∀ j (hj : j < 64), 1 + (hb &&& 0x3f).toNat ≤ j → m.palette[j] = RGBA.black) ∧
      (∀ t (ht : t < cols.length) (hj : t < 64), m.palette[t] = cols[t].toRGBA.1) := by
  have pal : ∀ {m0 m' : Metadata} {mn : Nat} {s : Bytes} {i : List Item} {r : Bytes},
      ChunkOk m0 mn s i m' 2 r → m0.palette = defaultPalette →
      ∃ (hb : UInt8) (body rest : Bytes) (cols : List Color),
      Item.line ⟨[hb], .palHeader (1 + (hb &&& 0x3f).toNat) (1 + (hb >>> 6).toNat)⟩ ∈ i ∧
      decodeColors (palDec (hb >>> 6).toNat) (1 + (hb &&& 0x3f).toNat) body = some (cols, rest) ∧
      cols.length = 1 + (hb &&& 0x3f).toNat ∧
      (∀ j (hj : j < 64), 1 + (hb &&& 0x3f).toNat ≤ j → m'.palette[j] = RGBA.black) ∧
      (∀ t (ht : t < cols.length) (hj : t < 64), m'.palette[t] = cols[t].toRGBA.1) := by
    intro m0 m' mn s i r hc hd
    obtain ⟨_, length, w, src1, w2, hb, src3', cols, _, _, hdc, hcl, hpa, hpb, l0, l1, its4, rfl⟩ :=
      hc.palette_spec
    refine ⟨hb, src3', r, cols, by simp, hdc, hcl, ?_, hpb⟩
    intro j hj hle
    rw [hpa j hj hle]
    simp only [hd]
    exact defaultPalette_getElem j hj
  obtain ⟨l0, l1, its, src2, rfl, hs⟩ := h.chunks
  rcases hs with ⟨rfl, _⟩ | ⟨mm', hc⟩ | ⟨its1, m1, r1, its2, hc1, hc2, rfl⟩
  · exact .inl rfl
  · rcases chunkOk_mm hc with rfl | rfl
    · exact .inl hc.viewBox_spec.1
    · obtain ⟨hb, body, rest, cols, hmem, hrest⟩ := pal hc rfl
      exact .inr ⟨hb, body, rest, cols, List.mem_cons_of_mem _ (List.mem_cons_of_mem _ hmem), hrest⟩
  · obtain ⟨hb, body, rest, cols, hmem, hrest⟩ := pal hc2 hc1.viewBox_spec.1
    exact .inr ⟨hb, body, rest, cols,
      List.mem_cons_of_mem _ (List.mem_cons_of_mem _ (List.mem_append_right _ hmem)), hrest⟩

/-- C13: every palette entry handed to Reset is a valid premultiplied colour, with or without options -/
theorem MetaOk.palValid {src : Bytes} {hdr : List Item} {m : Metadata} {src3 : Bytes}
    (h : MetaOk {} src hdr m src3) (opts : List DecodeOption) : PalValid (applyOptions m opts).palette := by
  obtain ⟨n, w, src2, its, h1, h2, h3, rfl⟩ := h
  exact applyOptions_palValid _ _ (decodeChunks_palValid _ _ _ _ h3 defaultPalette_valid)

/-- C13: metadata-only decoding succeeds exactly when the metadata section is valid … -/
theorem decodeViewBox_ok_iff (src : Bytes) :
    (decodeViewBox src).2 = none ↔ ∃ hdr m src3, MetaOk {} src hdr m src3 := by
  constructor
  · intro h
    rcases metaOk_em {} src with hm | hm
    · exact hm
    · obtain ⟨e, he, _⟩ := decodeViewBox_of_not_metaOk hm
      rw [he] at h
      simp at h
  · rintro ⟨hdr, m, src3, hm⟩
    rw [decodeViewBox_of_metaOk hm]

/-- … and then returns the viewBox that Decode hands to Reset -/
theorem decodeViewBox_same {src : Bytes} {hdr : List Item} {m : Metadata} {src3 : Bytes}
    (h : MetaOk {} src hdr m src3) :
    decodeViewBox src = (m.viewBox, none) ∧
    ∃ cs, (decode [] src).1 = .reset m.viewBox m.palette :: cs := by
  refine ⟨decodeViewBox_of_metaOk h, callsOf (run .styling src3).1, ?_⟩
  rw [decode_of_metaOk h []]
  rfl

end Ivg.DecL
