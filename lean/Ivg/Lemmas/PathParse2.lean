import Ivg.Lemmas.PathParse
/-!
# C20, parsing clauses — the generator's loop (`Gen.pathLoop`) on printed path data

One iteration on an explicit verb (`step_explicit`), on an implicit repetition (`step_implicit`), a whole
command (`loop_cmd`), a list of commands up to the terminating `z` (`loop_cmds`).
-/
namespace Ivg.PathParse
open Ivg Gen Spec.PathData
variable {α : Type} [Arith α]

/-! ## tables -/

theorem arity_eq (v : Char) : arity v = verbArgCount v := by
  unfold arity verbArgCount
  split <;> (try rfl)
  split <;> simp_all

/-- verb letters delimit numerals -/
theorem verb_term (x : Char) (h : verbArgCount x ≠ none) : isSep x = false ∧ isDigit x = false ∧ x ≠ '.' := by
  unfold verbArgCount at h
  split at h <;> first | (refine ⟨?_, ?_, ?_⟩ <;> decide) | exact absurd rfl h

theorem lineVerb_count (v : Char) (n : Nat) (h : verbArgCount v = some n) : verbArgCount (lineVerb v) = some n := by
  unfold lineVerb
  split
  · subst v; cases h; rfl
  · split
    · subst v; cases h; rfl
    · exact h

theorem lineVerb_idem (v : Char) : lineVerb (lineVerb v) = lineVerb v := by
  unfold lineVerb
  split <;> (try rfl)
  split <;> rfl

theorem len1 {β : Type} {a : List β} (h : a.length = 1) : ∃ a0, a = [a0] := by
  match a, h with
  | [a0], _ => exact ⟨a0, rfl⟩
theorem len2 {β : Type} {a : List β} (h : a.length = 2) : ∃ a0 a1, a = [a0, a1] := by
  match a, h with
  | [a0, a1], _ => exact ⟨a0, a1, rfl⟩
theorem len4 {β : Type} {a : List β} (h : a.length = 4) : ∃ a0 a1 a2 a3, a = [a0, a1, a2, a3] := by
  match a, h with
  | [a0, a1, a2, a3], _ => exact ⟨a0, a1, a2, a3, rfl⟩
theorem len6 {β : Type} {a : List β} (h : a.length = 6) :
    ∃ a0 a1 a2 a3 a4 a5, a = [a0, a1, a2, a3, a4, a5] := by
  match a, h with
  | [a0, a1, a2, a3, a4, a5], _ => exact ⟨a0, a1, a2, a3, a4, a5, rfl⟩
theorem len7 {β : Type} {a : List β} (h : a.length = 7) :
    ∃ a0 a1 a2 a3 a4 a5 a6, a = [a0, a1, a2, a3, a4, a5, a6] := by
  match a, h with
  | [a0, a1, a2, a3, a4, a5, a6], _ => exact ⟨a0, a1, a2, a3, a4, a5, a6, rfl⟩

/-- the calls the generator makes for one operand group of a (non-start) verb are the ones the verb
    stands for -/
theorem emit_draw (v : Char) (n : Nat) (hv : verbArgCount v = some n) (hn : n ≠ 0) (adj : UInt8)
    (a : List α) (ha : a.length = n) : emitVerb v adj a = .ok (draw v a) := by
  unfold verbArgCount at hv
  split at hv <;> cases hv <;>
    first
    | exact absurd rfl hn
    | (obtain ⟨a0, rfl⟩ := len1 ha; rfl)
    | (obtain ⟨a0, a1, rfl⟩ := len2 ha; rfl)
    | (obtain ⟨a0, a1, a2, a3, rfl⟩ := len4 ha; rfl)
    | (obtain ⟨a0, a1, a2, a3, a4, a5, rfl⟩ := len6 ha; rfl)
    | (obtain ⟨a0, a1, a2, a3, a4, a5, a6, rfl⟩ := len7 ha; rfl)

theorem normalize_length (a : List α) (n : Nat) (v : Char) (ts : List (Aff3 α)) :
    (normalizeArgs a n v ts).length = a.length := by
  unfold normalizeArgs
  split
  · rfl
  · simp only
    split <;> (try rfl)
    split <;> (try rfl)
    split <;> rfl

theorem normalize_nil (v : Char) (ts : List (Aff3 α)) : normalizeArgs ([] : List α) 0 v ts = [] := by
  have := normalize_length ([] : List α) 0 v ts
  simpa using this

theorem emit_z (v : Char) (hv : verbArgCount v = some 0) (adj : UInt8) :
    emitVerb v adj ([] : List α) = .ok [] := by
  unfold verbArgCount at hv
  split at hv <;> cases hv <;> rfl

theorem normalize_start (a : List α) (ha : a.length = 2) (ts : List (Aff3 α)) :
    normalizeArgs a 2 '@' ts = normalizeArgs a 2 'M' ts := by
  obtain ⟨x, y, rfl⟩ := len2 ha
  simp [normalizeArgs, show isLower '@' = false by decide, show isLower 'M' = false by decide]

/-- the first group: `StartPath` with the given adjustment at the fully transformed point -/
theorem emit_start (adj : UInt8) (a : List α) (ha : a.length = 2) (ts : List (Aff3 α)) :
    emitVerb '@' adj (normalizeArgs a 2 '@' ts) = .ok (start adj (normalizeArgs a 2 'M' ts)) := by
  rw [normalize_start a ha]
  have := normalize_length a 2 'M' ts
  rw [ha] at this
  obtain ⟨p, q, h⟩ := len2 this
  rw [h]; rfl

/-! ## one iteration -/

theorem step_explicit (ts : List (Aff3 α)) (adj : UInt8) (k : Nat) (start : Bool) (pn : Nat) (pv : Option Char)
    (v : Char) (n : Nat) (hv : verbArgCount v = some n) (g : List CTok) (hlen : g.length = n)
    (hg : ∀ t ∈ g, TokOK t) (x : Char) (X : List Char) (hch : ChainTo g x) (hx : isSep x = false) :
    pathLoop ts adj (k + 1) start pn pv (v :: (g.flatMap CTok.render ++ x :: X)) =
      (match emitVerb (if start then '@' else v) adj
          (normalizeArgs (g.map fun t => t.tok.value) n (if start then '@' else v) ts) with
       | .error e => .error e
       | .ok calls =>
         match pathLoop ts adj k false n (some (lineVerb v)) (x :: X) with
         | .error e => .error e
         | .ok rest => .ok (calls ++ rest)) := by
  have hne : ¬ (v :: (g.flatMap CTok.render ++ x :: X) = ['z']) := by simp
  have hs := scan_group (α := α) g hg x X hch hx
  rw [hlen] at hs
  simp only [pathLoop, hne, ↓reduceIte, hv]
  simp only [Bool.false_eq_true, ↓reduceIte, hs, false_and, lineVerb]
  rfl

theorem step_implicit (ts : List (Aff3 α)) (adj : UInt8) (k : Nat) (pv : Char) (n : Nat) (hn : n ≠ 0)
    (g : List CTok) (hlen : g.length = n)
    (hg : ∀ t ∈ g, TokOK t) (x : Char) (X : List Char) (hch : ChainTo g x) (hx : isSep x = false) :
    pathLoop ts adj (k + 1) false n (some pv) (g.flatMap CTok.render ++ x :: X) =
      (match emitVerb pv adj (normalizeArgs (g.map fun t => t.tok.value) n pv ts) with
       | .error e => .error e
       | .ok calls =>
         match pathLoop ts adj k false n (some (lineVerb pv)) (x :: X) with
         | .error e => .error e
         | .ok rest => .ok (calls ++ rest)) := by
  have hs := scan_group (α := α) g hg x X hch hx
  rw [hlen] at hs
  -- the data starts with the first character of a numeral: not a verb letter
  obtain ⟨w, TL, hD, hw⟩ : ∃ w TL, g.flatMap CTok.render ++ x :: X = w :: TL ∧ verbArgCount w = none := by
    cases g with
    | nil => exact absurd hlen.symm hn
    | cons t r =>
      obtain ⟨w, tl, hr, _, hw, _⟩ := tok_first t.tok (hg t List.mem_cons_self).1
      exact ⟨w, _, by simp [CTok.render, hr]; rfl, hw⟩
  rw [hD] at hs ⊢
  have hne : ¬ (w :: TL = ['z']) := by
    intro h
    have : w = 'z' := by injection h
    subst this; cases hw
  simp only [pathLoop, hne, ↓reduceIte, hw]
  simp only [Bool.false_eq_true, ↓reduceIte, hs, true_and, hn, lineVerb]
  rfl

/-! ## delimiting chains -/

theorem firstOf_nil (x : Char) : firstOf [] x = x := rfl

theorem firstOf_append (r l : List CTok) (x : Char) : firstOf (r ++ l) x = firstOf r (firstOf l x) := by
  unfold firstOf
  rw [List.flatMap_append]
  cases h : r.flatMap CTok.render with
  | nil => simp
  | cons c cs => simp

theorem chainTo_append (g l : List CTok) (x : Char) (h : ChainTo (g ++ l) x) :
    ChainTo g (firstOf l x) ∧ ChainTo l x := by
  induction g with
  | nil => exact ⟨trivial, h⟩
  | cons t r ih =>
    obtain ⟨h1, h2⟩ := h
    obtain ⟨i1, i2⟩ := ih h2
    have h1' : Delim t (firstOf (r ++ l) x) := h1
    rw [firstOf_append] at h1'
    exact ⟨⟨h1', i1⟩, i2⟩

theorem chainTo_last (g : List CTok) (hne : g ≠ []) (y : Char) (h : ChainTo g y) : isSep y = false := by
  induction g with
  | nil => exact absurd rfl hne
  | cons t r ih =>
    cases r with
    | nil => exact h.1.1
    | cons t2 r' => exact ih (by simp) h.2

theorem chainTo_of_chainOK (l : List CTok) (hl : ∀ t ∈ l, TokOK t) (h : chainOK l = true) (x : Char)
    (hx : isSep x = false ∧ isDigit x = false ∧ x ≠ '.') : ChainTo l x := by
  induction l with
  | nil => trivial
  | cons t r ih =>
    cases r with
    | nil =>
      exact ⟨⟨hx.1, Or.inr ⟨hx.2.1, fun h => absurd h hx.2.2⟩⟩, trivial⟩
    | cons t2 r' =>
      simp only [chainOK, Bool.and_eq_true] at h
      refine ⟨?_, ih (fun t' h' => hl t' (List.mem_cons_of_mem _ h')) h.2⟩
      obtain ⟨w, tl, hr, hsep, _, hsign, hdot⟩ := tok_first t2.tok (hl t2 (by simp)).1
      have hf : firstOf (t2 :: r') x = w := by simp [firstOf, CTok.render, hr]
      rw [hf]
      refine ⟨hsep, ?_⟩
      have hadj := h.1
      simp only [adjOK, Bool.or_eq_true, Bool.not_eq_true', List.isEmpty_eq_false_iff, bne_iff_ne, ne_eq,
        Bool.and_eq_true, List.isEmpty_iff] at hadj
      rcases hadj with (hadj | hadj) | hadj
      · exact Or.inl hadj
      · have := hsign hadj
        exact Or.inr ⟨this.1, fun h => absurd h this.2⟩
      · by_cases hs : t2.tok.sign = .none
        · have := hdot hs hadj.1
          subst this
          exact Or.inr ⟨by decide, fun _ => hadj.2⟩
        · have := hsign hs
          exact Or.inr ⟨this.1, fun h => absurd h this.2⟩

/-! ## the operand groups that follow the first one (implicit repetition) -/

theorem loop_groups (ts : List (Aff3 α)) (adj : UInt8) (pv : Char) (n : Nat) (hv : verbArgCount pv = some n)
    (hn : n ≠ 0) (hl : lineVerb pv = pv) (x : Char) (X : List Char) (rest : List (Call α))
    (K : Nat) (hk : ∀ k ≥ K, pathLoop ts adj k false n (some pv) (x :: X) = .ok rest) :
    ∀ gs : List (List CTok), (∀ g ∈ gs, g.length = n ∧ ∀ t ∈ g, TokOK t) → ChainTo gs.flatten x →
    ∀ k ≥ K + gs.length,
      pathLoop ts adj k false n (some pv) (gs.flatten.flatMap CTok.render ++ x :: X) =
        .ok (gs.flatMap (fun g => draw pv (normalizeArgs (g.map fun t => t.tok.value) n pv ts)) ++ rest) := by
  intro gs
  induction gs with
  | nil => intro _ _ k hk'; simpa using hk k (by simpa using hk')
  | cons g gs ih =>
    intro hall hch k hk'
    obtain ⟨hglen, hgok⟩ := hall g List.mem_cons_self
    have hgne : g ≠ [] := by intro h; rw [h] at hglen; exact hn hglen.symm
    rw [List.flatten_cons] at hch
    obtain ⟨hc1, hc2⟩ := chainTo_append g gs.flatten x hch
    obtain ⟨W, hW⟩ := firstOf_spec gs.flatten x X
    have hsepW := chainTo_last g hgne _ hc1
    obtain ⟨k', rfl⟩ : ∃ k', k = k' + 1 := ⟨k - 1, by simp only [List.length_cons] at hk'; omega⟩
    have hih := ih (fun g' h' => hall g' (List.mem_cons_of_mem _ h')) hc2 k'
      (by simp only [List.length_cons] at hk'; omega)
    rw [List.flatten_cons, List.flatMap_append, List.append_assoc, hW,
      step_implicit ts adj k' pv n hn g hglen hgok _ W hc1 hsepW, hl, ← hW, hih,
      emit_draw pv n hv hn adj _ (by rw [normalize_length, List.length_map, hglen])]
    simp

/-! ## one command -/

theorem flatMap_flatten_render (gs : List (List CTok)) :
    gs.flatMap (fun g => g.flatMap CTok.render) = gs.flatten.flatMap CTok.render := by
  induction gs with
  | nil => rfl
  | cons g gs ih => simp [List.flatMap_append, ih]

theorem loop_cmd_aux (ts : List (Aff3 α)) (adj : UInt8) (start : Bool) (v : Char) (n : Nat)
    (hv : verbArgCount v = some n) (hn : n ≠ 0) (g : List CTok) (gs : List (List CTok))
    (hall : ∀ g' ∈ g :: gs, g'.length = n ∧ ∀ t ∈ g', TokOK t) (x : Char) (X : List Char)
    (hch : ChainTo (g :: gs).flatten x) (_hx : isSep x = false)
    (first : List (Call α))
    (hfirst : emitVerb (if start then '@' else v) adj
      (normalizeArgs (g.map fun t => t.tok.value) n (if start then '@' else v) ts) = .ok first)
    (rest : List (Call α)) (K : Nat)
    (hk : ∀ k ≥ K, ∀ pn pv, pathLoop ts adj k false pn pv (x :: X) = .ok rest) :
    ∀ k ≥ K + 1 + gs.length, ∀ pn pv,
      pathLoop ts adj k start pn pv (renderCmd ⟨v, g :: gs⟩ ++ x :: X) =
        .ok (first ++ gs.flatMap (fun g => draw (lineVerb v)
          (normalizeArgs (g.map fun t => t.tok.value) n (lineVerb v) ts)) ++ rest) := by
  intro k hk' pn pv
  obtain ⟨hglen, hgok⟩ := hall g List.mem_cons_self
  have hgne : g ≠ [] := by intro h; rw [h] at hglen; exact hn hglen.symm
  rw [List.flatten_cons] at hch
  obtain ⟨hc1, hc2⟩ := chainTo_append g gs.flatten x hch
  obtain ⟨W, hW⟩ := firstOf_spec gs.flatten x X
  have hsepW := chainTo_last g hgne _ hc1
  obtain ⟨k', rfl⟩ : ∃ k', k = k' + 1 := ⟨k - 1, by omega⟩
  have hgroups := loop_groups ts adj (lineVerb v) n (lineVerb_count v n hv) hn (lineVerb_idem v) x X rest K
    (fun k hk'' => hk k hk'' n (some (lineVerb v))) gs (fun g' h' => hall g' (List.mem_cons_of_mem _ h')) hc2 k'
    (by omega)
  have hstr : renderCmd ⟨v, g :: gs⟩ ++ x :: X = v :: (g.flatMap CTok.render ++ firstOf gs.flatten x :: W) := by
    rw [← hW]; simp [renderCmd, flatMap_flatten_render]
  rw [hstr, step_explicit ts adj k' start pn pv v n hv g hglen hgok _ W hc1 hsepW, hfirst, ← hW, hgroups]
  simp

end Ivg.PathParse
