import Ivg.Lemmas.Grad64
/-!
# `Gradient.init` / `Gradient.at` at float64: stops, ranges, `findRange`; the exact clauses

* `StopsOK`: a valid stop list — offsets finite, in `[0,1]`, strictly increasing (as float64), 16-bit channels;
* `at_eq`: `g.at x y = colorOf g (offsetAt g x y)`, `offsetAt g x y = clamp g.spread (rawOffset g x y)`;
* `colorOf_at_stop`   — at an offset `==` a stop's offset the colour is EXACTLY that stop's colour;
* `colorOf_premul`    — premultiplied stops give `R, G, B ≤ A` at every offset whatsoever (NaN, ±Inf included);
* `colorOf_before`, `colorOf_after` — the end colours;
* `colorOf_inside`    — between the first and the last offset some range is found and every channel is the
  integer part of the float `s*c0 + t*c1`, which lies in `[0, 65536)` (no wrap-around of `uint16(…)`).
-/
namespace Ivg.Grad64
open Ivg Num Grad FloatOrder FloatMono FloatRound FloatErr64

/-! ## `At` split into offset and colour -/

/-- the gradient-space offset of pixel `(x, y)` before spreading -/
def rawOffset (g : Gradient F64) (x y : Int) : F64 :=
  let px : F64 := Arith.ofInt x + Wide.half (α := F32)
  let py : F64 := Arith.ofInt y + Wide.half (α := F32)
  let m := g.pix2Grad
  if g.shape = 0 then m.a * px + m.b * py + m.c
  else
    let gx := m.a * px + m.b * py + m.c
    let gy := m.d * px + m.e * py + m.f
    Wide.sqrt (α := F32) (gx * gx + gy * gy)

/-- … and after `Spread.Clamp` -/
def offsetAt (g : Gradient F64) (x y : Int) : F64 := clamp (α := F32) g.spread (rawOffset g x y)

/-- the interpolated colour in a range -/
def lerpColor (r : Range F64) (o : F64) : RGBA64 :=
  ⟨lerpChan (α := F32) (sOf r o) (tOf r o) r.c0.r r.c1.r, lerpChan (α := F32) (sOf r o) (tOf r o) r.c0.g r.c1.g,
   lerpChan (α := F32) (sOf r o) (tOf r o) r.c0.b r.c1.b, lerpChan (α := F32) (sOf r o) (tOf r o) r.c0.a r.c1.a⟩

/-- what `At` does with the offset -/
def colorOf (g : Gradient F64) (offset : F64) : RGBA64 :=
  match g.ranges with
  | [] => ⟨0, 0, 0, 0⟩
  | r0 :: _ =>
    if ¬ (zeroB ≤ offset) then ⟨0, 0, 0, 0⟩
    else if offset < r0.offset0 then g.first
    else
      match findRange offset g.ranges with
      | some r => lerpColor r offset
      | none => g.last

theorem at_eq (g : Gradient F64) (x y : Int) : g.at (α := F32) x y = colorOf g (offsetAt g x y) := by
  obtain ⟨shape, spread, m, ranges, first, last⟩ := g
  unfold Gradient.at colorOf offsetAt rawOffset
  cases ranges with
  | nil => rfl
  | cons r0 rs =>
    dsimp only
    by_cases hs : shape = 0
    · simp only [if_pos hs]
      generalize clamp (α := F32) (β := F64) spread _ = off
      split
      · rfl
      · split
        · rfl
        · cases findRange off (r0 :: rs) <;> rfl
    · simp only [if_neg hs]
      generalize clamp (α := F32) (β := F64) spread _ = off
      split
      · rfl
      · split
        · rfl
        · cases findRange off (r0 :: rs) <;> rfl

/-! ## valid stop lists -/

def chanOK (c : RGBA64) : Prop := c.r < 65536 ∧ c.g < 65536 ∧ c.b < 65536 ∧ c.a < 65536
instance (c : RGBA64) : Decidable (chanOK c) := by unfold chanOK; infer_instance

def premul (c : RGBA64) : Prop := c.r ≤ c.a ∧ c.g ≤ c.a ∧ c.b ≤ c.a
instance (c : RGBA64) : Decidable (premul c) := by unfold premul; infer_instance

/-- one stop: offset finite and in `[0,1]` (float comparisons), channels 16-bit -/
def StopOK (s : Stop F64) : Prop := (zeroB : F64) ≤ s.offset ∧ s.offset ≤ (oneB : F64) ∧ chanOK s.color
instance (s : Stop F64) : Decidable (StopOK s) := by unfold StopOK; infer_instance

/-- strictly increasing offsets (float `<` of consecutive stops) -/
def increasing : List (Stop F64) → Prop
  | [] => True
  | [_] => True
  | s0 :: s1 :: rest => s0.offset < s1.offset ∧ increasing (s1 :: rest)

instance : (l : List (Stop F64)) → Decidable (increasing l)
  | [] => isTrue trivial
  | [_] => isTrue trivial
  | s0 :: s1 :: rest =>
    have := instDecidableIncreasing (s1 :: rest)
    by unfold increasing; infer_instance

/-- a valid stop list -/
def StopsOK (stops : List (Stop F64)) : Prop := (∀ s ∈ stops, StopOK s) ∧ increasing stops
instance (l : List (Stop F64)) : Decidable (StopsOK l) := by unfold StopsOK; infer_instance

theorem StopOK.fin {s : Stop F64} (h : StopOK s) : Fn s.offset ∧ 0 ≤ val s.offset ∧ val s.offset ≤ 1 := by
  have f := Fin_between zeroB_fin.1 oneB_fin.1 h.1 h.2.1
  have h0 := val_le_of_le zeroB_fin.1 f h.1
  have h1 := val_le_of_le f oneB_fin.1 h.2.1
  rw [zeroB_fin.2] at h0; rw [oneB_fin.2] at h1
  exact ⟨f, h0, h1⟩

theorem lt_trans' {a b c : F64} (h1 : a < b) (h2 : b < c) : a < c := by
  rw [lt_def] at *; exact ⟨h1.1, h2.2.1, by omega⟩

theorem increasing_pairwise : ∀ (l : List (Stop F64)), increasing l → l.Pairwise (fun a b => a.offset < b.offset)
  | [], _ => List.Pairwise.nil
  | [_], _ => List.pairwise_singleton _ _
  | s0 :: s1 :: rest, h => by
    have ih := increasing_pairwise (s1 :: rest) h.2
    refine List.Pairwise.cons ?_ ih
    intro b hb
    rcases List.mem_cons.1 hb with rfl | hb
    · exact h.1
    · exact lt_trans' h.1 ((List.pairwise_cons.1 ih).1 b hb)

/-- two members of an increasing list: equal, or ordered one way or the other -/
theorem pairwise_mem {l : List (Stop F64)} (h : l.Pairwise (fun a b => a.offset < b.offset)) {a b : Stop F64}
    (ha : a ∈ l) (hb : b ∈ l) : a = b ∨ a.offset < b.offset ∨ b.offset < a.offset := by
  induction l with
  | nil => cases ha
  | cons c l ih =>
    obtain ⟨h1, h2⟩ := List.pairwise_cons.1 h
    rcases List.mem_cons.1 ha with ha' | ha'
    · rcases List.mem_cons.1 hb with hb' | hb'
      · exact Or.inl (ha'.trans hb'.symm)
      · exact Or.inr (Or.inl (ha' ▸ h1 b hb'))
    · rcases List.mem_cons.1 hb with hb' | hb'
      · exact Or.inr (Or.inr (hb' ▸ h1 a ha'))
      · exact ih h2 ha' hb'

/-! ## ranges -/

/-- the ranges of a valid stop list: every range is `MakeRange a b` of two stops of the list with
    `a.offset < b.offset` and NO stop strictly between them -/
theorem mem_appendRanges : ∀ (stops : List (Stop F64)), stops.Pairwise (fun a b => a.offset < b.offset) →
    ∀ r ∈ appendRanges stops, ∃ a b, a ∈ stops ∧ b ∈ stops ∧ r = makeRange a b ∧ a.offset < b.offset ∧
      ∀ s ∈ stops, s = a ∨ s = b ∨ s.offset < a.offset ∨ b.offset < s.offset
  | [], _, r, hr => by simp [appendRanges] at hr
  | [_], _, r, hr => by simp [appendRanges] at hr
  | s0 :: s1 :: rest, h, r, hr => by
    obtain ⟨h1, h2⟩ := List.pairwise_cons.1 h
    obtain ⟨h3, _⟩ := List.pairwise_cons.1 h2
    simp only [appendRanges, List.mem_cons] at hr
    rcases hr with rfl | hr
    · refine ⟨s0, s1, by simp, by simp, rfl, h1 s1 (by simp), ?_⟩
      intro s hs
      rcases List.mem_cons.1 hs with rfl | hs
      · exact Or.inl rfl
      rcases List.mem_cons.1 hs with rfl | hs
      · exact Or.inr (Or.inl rfl)
      · exact Or.inr (Or.inr (Or.inr (h3 s hs)))
    · obtain ⟨a, b, ha, hb, rfl, hab, hall⟩ := mem_appendRanges (s1 :: rest) h2 r hr
      refine ⟨a, b, List.mem_cons_of_mem _ ha, List.mem_cons_of_mem _ hb, rfl, hab, ?_⟩
      intro s hs
      rcases List.mem_cons.1 hs with rfl | hs
      · exact Or.inr (Or.inr (Or.inl (h1 a ha)))
      · exact hall s hs

/-- every stop is an end of some range (two stops at least) -/
theorem stop_in_range : ∀ (stops : List (Stop F64)), 2 ≤ stops.length → ∀ s ∈ stops,
    ∃ r ∈ appendRanges stops, r.offset0 = s.offset ∨ r.offset1 = s.offset
  | [], h, _, _ => by simp at h
  | [_], h, _, _ => by simp at h
  | s0 :: s1 :: rest, _, s, hs => by
    rcases List.mem_cons.1 hs with rfl | hs
    · exact ⟨makeRange s s1, by simp [appendRanges], Or.inl rfl⟩
    rcases List.mem_cons.1 hs with rfl | hs'
    · exact ⟨makeRange s0 s, by simp [appendRanges], Or.inr rfl⟩
    · have hl : 2 ≤ (s1 :: rest).length := by
        cases rest with
        | nil => cases hs'
        | cons _ _ => simp
      obtain ⟨r, hr, hab⟩ := stop_in_range (s1 :: rest) hl s hs
      exact ⟨r, by simp only [appendRanges, List.mem_cons]; exact Or.inr hr, hab⟩

theorem findRange_some (o : F64) : ∀ (rs : List (Range F64)) (r : Range F64), findRange o rs = some r →
    r ∈ rs ∧ r.offset0 ≤ o ∧ o ≤ r.offset1
  | [], r, h => by simp [findRange] at h
  | r0 :: rs, r, h => by
    unfold findRange at h
    split at h
    · rename_i hc
      cases h
      exact ⟨by simp, hc.1, hc.2⟩
    · obtain ⟨h1, h2⟩ := findRange_some o rs r h
      exact ⟨List.mem_cons_of_mem _ h1, h2⟩

theorem findRange_exists (o : F64) : ∀ (rs : List (Range F64)), (∃ r ∈ rs, r.offset0 ≤ o ∧ o ≤ r.offset1) →
    ∃ r, findRange o rs = some r
  | [], h => by obtain ⟨r, hr, _⟩ := h; cases hr
  | r0 :: rs, h => by
    unfold findRange
    split
    · exact ⟨r0, rfl⟩
    · rename_i hc
      obtain ⟨r, hr, h12⟩ := h
      rcases List.mem_cons.1 hr with rfl | hr
      · exact absurd h12 hc
      · exact findRange_exists o rs ⟨r, hr, h12⟩

theorem findRange_none (o : F64) : ∀ (rs : List (Range F64)), (∀ r ∈ rs, ¬ (r.offset0 ≤ o ∧ o ≤ r.offset1)) →
    findRange o rs = none
  | [], _ => rfl
  | r0 :: rs, h => by
    unfold findRange
    rw [if_neg (h r0 (by simp))]
    exact findRange_none o rs (fun r hr => h r (List.mem_cons_of_mem _ hr))

theorem RangeOK_make {a b : Stop F64} (ha : StopOK a) (hb : StopOK b) (hab : a.offset < b.offset) :
    RangeOK (makeRange a b) :=
  ⟨ha.fin.1, hb.fin.1, ha.fin.2.1, hb.fin.2.2, (lt_iff_val ha.fin.1 hb.fin.1).1 hab, rfl⟩

/-! ## `Init` -/

theorem init_fields (shape spread : UInt8) (m : Aff3 F64) (stops : List (Stop F64)) :
    (Gradient.init shape spread m stops).1.ranges = appendRanges stops ∧
    (Gradient.init shape spread m stops).1.shape = shape ∧
    (Gradient.init shape spread m stops).1.spread = spread ∧
    (Gradient.init shape spread m stops).1.pix2Grad = m :=
  ⟨rfl, rfl, rfl, rfl⟩

/-- `colorOf` of an initialised gradient with at least two stops, in terms of the stop list -/
theorem colorOf_init (shape spread : UInt8) (m : Aff3 F64) (s0 s1 : Stop F64) (rest : List (Stop F64)) (o : F64) :
    colorOf (Gradient.init shape spread m (s0 :: s1 :: rest)).1 o =
      if ¬ (zeroB ≤ o) then ⟨0, 0, 0, 0⟩
      else if o < s0.offset then s0.color
      else match findRange o (appendRanges (s0 :: s1 :: rest)) with
        | some r => lerpColor r o
        | none => ((s0 :: s1 :: rest).getLast (by simp)).color := by
  unfold colorOf
  simp only [Gradient.init, appendRanges, List.head?_cons]
  rw [List.getLast?_eq_some_getLast (by simp)]
  rfl

/-! ## the clauses, in terms of the offset -/

theorem premul_zero : premul ⟨0, 0, 0, 0⟩ := ⟨Nat.le_refl _, Nat.le_refl _, Nat.le_refl _⟩

theorem getLast_ge : ∀ (l : List (Stop F64)) (hne : l ≠ []), l.Pairwise (fun a b => a.offset < b.offset) →
    ∀ s ∈ l, s = l.getLast hne ∨ s.offset < (l.getLast hne).offset
  | [], hne, _, _, _ => absurd rfl hne
  | [a], _, _, s, hs => by
    left; simpa using hs
  | a :: b :: rest, _, h, s, hs => by
    obtain ⟨h1, h2⟩ := List.pairwise_cons.1 h
    rw [List.getLast_cons (by simp : b :: rest ≠ [])]
    rcases List.mem_cons.1 hs with rfl | hs
    · exact Or.inr (h1 _ (List.getLast_mem _))
    · exact getLast_ge (b :: rest) (by simp) h2 s hs

theorem lerpColor_make (a b : Stop F64) (o : F64) :
    lerpColor (makeRange a b) o =
      ⟨lerpChan (α := F32) (sOf (makeRange a b) o) (tOf (makeRange a b) o) a.color.r b.color.r,
       lerpChan (α := F32) (sOf (makeRange a b) o) (tOf (makeRange a b) o) a.color.g b.color.g,
       lerpChan (α := F32) (sOf (makeRange a b) o) (tOf (makeRange a b) o) a.color.b b.color.b,
       lerpChan (α := F32) (sOf (makeRange a b) o) (tOf (makeRange a b) o) a.color.a b.color.a⟩ := rfl

/-- **at a stop**: if the offset `==` the offset of a stop `s` of the list (Go float equality), the colour is
    exactly `s.color` — whichever range `findRange` picks, however close the neighbouring stops are. -/
theorem colorOf_at_stop (shape spread : UInt8) (m : Aff3 F64) (s0 s1 : Stop F64) (rest : List (Stop F64))
    (hok : StopsOK (s0 :: s1 :: rest)) (o : F64) (s : Stop F64) (hs : s ∈ s0 :: s1 :: rest)
    (ho : Arith.feq o s.offset = true) :
    colorOf (Gradient.init shape spread m (s0 :: s1 :: rest)).1 o = s.color := by
  obtain ⟨hall, hinc⟩ := hok
  have hpw := increasing_pairwise _ hinc
  have sok := (hall s hs).fin
  obtain ⟨fo, vo⟩ := feq_fin ho sok.1
  have s0ok := (hall s0 (by simp)).fin
  rw [colorOf_init]
  have h0 : (zeroB : F64) ≤ o := by rw [le_iff_val zeroB_fin.1 fo, zeroB_fin.2, vo]; exact sok.2.1
  rw [if_neg (not_not.2 h0)]
  have h1 : ¬ o < s0.offset := by
    rw [lt_iff_val fo s0ok.1, vo, not_lt]
    rcases List.mem_cons.1 hs with rfl | hs'
    · exact le_refl _
    · exact le_of_lt ((lt_iff_val s0ok.1 sok.1).1 ((List.pairwise_cons.1 hpw).1 s hs'))
  rw [if_neg h1]
  -- some range contains the offset
  have hex : ∃ r ∈ appendRanges (s0 :: s1 :: rest), r.offset0 ≤ o ∧ o ≤ r.offset1 := by
    obtain ⟨r, hr, hrs⟩ := stop_in_range (s0 :: s1 :: rest) (by simp) s hs
    obtain ⟨a, b, ha, hb, rfl, hab, _⟩ := mem_appendRanges _ hpw r hr
    have aok := (hall a ha).fin
    have bok := (hall b hb).fin
    have hab' := (lt_iff_val aok.1 bok.1).1 hab
    refine ⟨_, hr, ?_⟩
    show a.offset ≤ o ∧ o ≤ b.offset
    rw [le_iff_val aok.1 fo, le_iff_val fo bok.1, vo]
    rcases hrs with e | e
    · have e' : a.offset = s.offset := e
      rw [← e']; exact ⟨le_refl _, le_of_lt hab'⟩
    · have e' : b.offset = s.offset := e
      rw [← e']; exact ⟨le_of_lt hab', le_refl _⟩
  obtain ⟨r, hfr⟩ := findRange_exists o _ hex
  rw [hfr]
  obtain ⟨hr, ho0, ho1⟩ := findRange_some o _ r hfr
  obtain ⟨a, b, ha, hb, rfl, hab, hmid⟩ := mem_appendRanges _ hpw r hr
  have aok := hall a ha
  have bok := hall b hb
  have rok := RangeOK_make aok bok hab
  have va := val_le_of_le aok.fin.1 fo ho0
  have vb := val_le_of_le fo bok.fin.1 ho1
  show lerpColor (makeRange a b) o = s.color
  rw [lerpColor_make]
  obtain ⟨car, cag, cab, caa⟩ := aok.2.2
  obtain ⟨cbr, cbg, cbb, cba⟩ := bok.2.2
  rcases hmid s hs with rfl | rfl | hlt | hlt
  · obtain ⟨ft, tv, fs, sv⟩ := t_at_off0 rok o fo vo
    rw [lerpChan_t0 _ _ fs ft sv tv _ _ car cbr, lerpChan_t0 _ _ fs ft sv tv _ _ cag cbg,
      lerpChan_t0 _ _ fs ft sv tv _ _ cab cbb, lerpChan_t0 _ _ fs ft sv tv _ _ caa cba]
  · obtain ⟨ft, tv, fs, sv⟩ := t_at_off1 rok o fo vo
    rw [lerpChan_t1 _ _ fs ft sv tv _ _ car cbr, lerpChan_t1 _ _ fs ft sv tv _ _ cag cbg,
      lerpChan_t1 _ _ fs ft sv tv _ _ cab cbb, lerpChan_t1 _ _ fs ft sv tv _ _ caa cba]
  · have := (lt_iff_val sok.1 aok.fin.1).1 hlt
    exfalso; rw [vo] at va; linarith
  · have := (lt_iff_val bok.fin.1 sok.1).1 hlt
    exfalso; rw [vo] at vb; linarith

/-- the colour inside a range of a valid stop list: no wrap-around, monotone channels -/
theorem lerpColor_premul {a b : Stop F64} (aok : StopOK a) (bok : StopOK b) (hab : a.offset < b.offset)
    (pa : premul a.color) (pb : premul b.color) (o : F64) (h0 : a.offset ≤ o) (h1 : o ≤ b.offset) :
    premul (lerpColor (makeRange a b) o) := by
  have rok := RangeOK_make aok bok hab
  obtain ⟨ft, t0, _, fs, s0, _, hst⟩ := t_facts rok o h0 h1
  obtain ⟨_, _, _, caa⟩ := aok.2.2
  obtain ⟨_, _, _, cba⟩ := bok.2.2
  rw [lerpColor_make]
  exact ⟨lerpChan_mono _ _ fs ft s0 t0 hst _ _ _ _ caa cba pa.1 pb.1,
    lerpChan_mono _ _ fs ft s0 t0 hst _ _ _ _ caa cba pa.2.1 pb.2.1,
    lerpChan_mono _ _ fs ft s0 t0 hst _ _ _ _ caa cba pa.2.2 pb.2.2⟩

/-- **valid premultiplied colour**: premultiplied stops give `R, G, B ≤ A` for EVERY float64 offset
    (NaN and infinities included: they give transparent black or an end colour). -/
theorem colorOf_premul (shape spread : UInt8) (m : Aff3 F64) (stops : List (Stop F64)) (hok : StopsOK stops)
    (hp : ∀ s ∈ stops, premul s.color) (o : F64) :
    premul (colorOf (Gradient.init shape spread m stops).1 o) := by
  match stops, hok, hp with
  | [], _, _ => exact premul_zero
  | [_], _, _ => exact premul_zero
  | s0 :: s1 :: rest, hok, hp =>
    obtain ⟨hall, hinc⟩ := hok
    have hpw := increasing_pairwise _ hinc
    rw [colorOf_init]
    split
    · exact premul_zero
    split
    · exact hp s0 (by simp)
    split
    · rename_i r hfr
      obtain ⟨hr, ho0, ho1⟩ := findRange_some o _ r hfr
      obtain ⟨a, b, ha, hb, rfl, hab, _⟩ := mem_appendRanges _ hpw r hr
      exact lerpColor_premul (hall a ha) (hall b hb) hab (hp a ha) (hp b hb) o ho0 ho1
    · exact hp _ (List.getLast_mem _)

/-- **before the first stop**: `0 ≤ o < off_first` gives the first stop's colour (the model compares with
    `Ranges[0].Offset0` before looking for a range) -/
theorem colorOf_before (shape spread : UInt8) (m : Aff3 F64) (s0 s1 : Stop F64) (rest : List (Stop F64))
    (o : F64) (h0 : (zeroB : F64) ≤ o) (h1 : o < s0.offset) :
    colorOf (Gradient.init shape spread m (s0 :: s1 :: rest)).1 o = s0.color := by
  rw [colorOf_init, if_neg (not_not.2 h0), if_pos h1]

/-- **after the last stop**: `off_last < o` (`o = +Inf` included) gives the last stop's colour (no range
    contains `o`; the loop falls through to `g.Last`) -/
theorem colorOf_after (shape spread : UInt8) (m : Aff3 F64) (s0 s1 : Stop F64) (rest : List (Stop F64))
    (hok : StopsOK (s0 :: s1 :: rest)) (o : F64)
    (h1 : ((s0 :: s1 :: rest).getLast (by simp)).offset < o) :
    colorOf (Gradient.init shape spread m (s0 :: s1 :: rest)).1 o =
      ((s0 :: s1 :: rest).getLast (by simp)).color := by
  obtain ⟨hall, hinc⟩ := hok
  have hpw := increasing_pairwise _ hinc
  have hge := getLast_ge (s0 :: s1 :: rest) (by simp) hpw
  generalize hL : (s0 :: s1 :: rest).getLast (by simp) = L at *
  have hLm : L ∈ s0 :: s1 :: rest := by rw [← hL]; exact List.getLast_mem _
  have Lok := (hall L hLm).fin
  obtain ⟨nL, no, kLo⟩ := (lt_def _ _).1 h1
  -- every stop is below `o`
  have below : ∀ s ∈ s0 :: s1 :: rest, s.offset < o := by
    intro s hs
    rcases hge s hs with rfl | h
    · exact h1
    · exact lt_trans' h h1
  rw [colorOf_init]
  have hz : (zeroB : F64) ≤ o := by
    have : (zeroB : F64) ≤ L.offset := by rw [le_iff_val zeroB_fin.1 Lok.1, zeroB_fin.2]; exact Lok.2.1
    exact le_trans' this (lt_le' h1)
  rw [if_neg (not_not.2 hz)]
  have hn : ¬ o < s0.offset := by
    have := (lt_def _ _).1 (below s0 (by simp))
    rw [lt_def]; intro hc; omega
  rw [if_neg hn]
  have hnone : findRange o (appendRanges (s0 :: s1 :: rest)) = none := by
    apply findRange_none
    intro r hr
    obtain ⟨a, b, ha, hb, rfl, _, _⟩ := mem_appendRanges _ hpw r hr
    intro hc
    have h2 : o ≤ b.offset := hc.2
    have := (lt_def _ _).1 (below b hb)
    rw [le_def] at h2
    omega
  rw [hnone]
  show ((s0 :: s1 :: rest).getLast _).color = L.color
  rw [hL]

/-- the ranges cover `[off_first, off_last]` without gaps -/
theorem ranges_cover : ∀ (stops : List (Stop F64)) (hne : stops ≠ []), (∀ s ∈ stops, StopOK s) → ∀ (o : F64),
    (stops.head hne).offset ≤ o → o ≤ (stops.getLast hne).offset →
    2 ≤ stops.length → ∃ r ∈ appendRanges stops, r.offset0 ≤ o ∧ o ≤ r.offset1
  | [], hne, _, _, _, _, _ => absurd rfl hne
  | [_], _, _, _, _, _, h2 => by simp at h2
  | s0 :: s1 :: rest, _, hall, o, h0, h1, _ => by
    by_cases hc : o ≤ s1.offset
    · exact ⟨makeRange s0 s1, by simp [appendRanges], h0, hc⟩
    · have no : NN o := le_NN_right h0
      have n1 : NN s1.offset := Fin_NN (hall s1 (by simp)).fin.1
      have hlt := not_le_of_NN no n1 hc
      cases rest with
      | nil => exact absurd h1 hc
      | cons s2 rest' =>
        rw [List.getLast_cons (by simp : s1 :: s2 :: rest' ≠ [])] at h1
        obtain ⟨r, hr, h⟩ := ranges_cover (s1 :: s2 :: rest') (by simp)
          (fun s hs => hall s (List.mem_cons_of_mem _ hs)) o (lt_le' hlt) h1 (by simp)
        exact ⟨r, by simp only [appendRanges, List.mem_cons] at hr ⊢; exact Or.inr hr, h⟩

/-- inside a range of a valid stop list every channel is the integer part of the float `s*c0 + t*c1`, which
    is finite and in `[0, 65536)`: the conversion `uint16(…)` never wraps around -/
theorem lerpColor_floor {a b : Stop F64} (aok : StopOK a) (bok : StopOK b) (hab : a.offset < b.offset)
    (o : F64) (h0 : a.offset ≤ o) (h1 : o ≤ b.offset) :
    let s := sOf (makeRange a b) o
    let t := tOf (makeRange a b) o
    let c := lerpColor (makeRange a b) o
    (Fn t ∧ 0 ≤ val t ∧ val t ≤ 1 ∧ Fn s ∧ 0 ≤ val s ∧ val s ≤ 1) ∧
    ((c.r : Int) = ⌊val (lerpF s t a.color.r b.color.r)⌋ ∧ val (lerpF s t a.color.r b.color.r) < 65536) ∧
    ((c.g : Int) = ⌊val (lerpF s t a.color.g b.color.g)⌋ ∧ val (lerpF s t a.color.g b.color.g) < 65536) ∧
    ((c.b : Int) = ⌊val (lerpF s t a.color.b b.color.b)⌋ ∧ val (lerpF s t a.color.b b.color.b) < 65536) ∧
    ((c.a : Int) = ⌊val (lerpF s t a.color.a b.color.a)⌋ ∧ val (lerpF s t a.color.a b.color.a) < 65536) := by
  intro s t c
  have rok := RangeOK_make aok bok hab
  obtain ⟨ft, t0, t1, fs, s0, s1, hst⟩ := t_facts rok o h0 h1
  obtain ⟨car, cag, cab, caa⟩ := aok.2.2
  obtain ⟨cbr, cbg, cbb, cba⟩ := bok.2.2
  exact ⟨⟨ft, t0, t1, fs, s0, s1⟩,
    ⟨lerpChan_floor _ _ fs ft s0 t0 hst _ _ car cbr, (lerp_range _ _ fs ft s0 t0 hst _ _ car cbr).2.2⟩,
    ⟨lerpChan_floor _ _ fs ft s0 t0 hst _ _ cag cbg, (lerp_range _ _ fs ft s0 t0 hst _ _ cag cbg).2.2⟩,
    ⟨lerpChan_floor _ _ fs ft s0 t0 hst _ _ cab cbb, (lerp_range _ _ fs ft s0 t0 hst _ _ cab cbb).2.2⟩,
    ⟨lerpChan_floor _ _ fs ft s0 t0 hst _ _ caa cba, (lerp_range _ _ fs ft s0 t0 hst _ _ caa cba).2.2⟩⟩

/-- **between the first and the last offset** some range `[a.offset, b.offset]` of two consecutive stops
    contains the offset and the colour is the interpolated colour of that range (`lerpColor_floor`) -/
theorem colorOf_inside (shape spread : UInt8) (m : Aff3 F64) (s0 s1 : Stop F64) (rest : List (Stop F64))
    (hok : StopsOK (s0 :: s1 :: rest)) (o : F64) (h0 : s0.offset ≤ o)
    (h1 : o ≤ ((s0 :: s1 :: rest).getLast (by simp)).offset) :
    ∃ a b, a ∈ s0 :: s1 :: rest ∧ b ∈ s0 :: s1 :: rest ∧ a.offset < b.offset ∧
      (∀ s ∈ s0 :: s1 :: rest, s = a ∨ s = b ∨ s.offset < a.offset ∨ b.offset < s.offset) ∧
      a.offset ≤ o ∧ o ≤ b.offset ∧
      colorOf (Gradient.init shape spread m (s0 :: s1 :: rest)).1 o = lerpColor (makeRange a b) o := by
  obtain ⟨hall, hinc⟩ := hok
  have hpw := increasing_pairwise _ hinc
  have s0ok := (hall s0 (by simp)).fin
  have hz : (zeroB : F64) ≤ o := by
    have : (zeroB : F64) ≤ s0.offset := by rw [le_iff_val zeroB_fin.1 s0ok.1, zeroB_fin.2]; exact s0ok.2.1
    exact le_trans' this h0
  have hn : ¬ o < s0.offset := by
    rw [le_def] at h0; rw [lt_def]; intro hc; omega
  obtain ⟨r, hfr⟩ := findRange_exists o _ (ranges_cover (s0 :: s1 :: rest) (by simp) hall o h0 h1 (by simp))
  obtain ⟨hr, ho0, ho1⟩ := findRange_some o _ r hfr
  obtain ⟨a, b, ha, hb, rfl, hab, hmid⟩ := mem_appendRanges _ hpw r hr
  refine ⟨a, b, ha, hb, hab, hmid, ho0, ho1, ?_⟩
  rw [colorOf_init, if_neg (not_not.2 hz), if_neg hn, hfr]

end Ivg.Grad64
