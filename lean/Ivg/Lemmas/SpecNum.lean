import Ivg.Spec.FFV0
import Ivg.Lemmas.Codec
import Ivg.Lemmas.ColorCodec
/-!
# C03, layer 1: number and colour forms — the model decoders equal the specification forms

`Ivg.Spec.FFV0` (written from `spec/iconvg-spec-v0.md`) denotes a short number form by a rational and
delivers the float32 nearest to it (`F32.ofRatio`, one correct rounding of an exact quotient); the model
(`Ivg/Model/DecBuffer.lean`, mirroring `decode/buffer.go`) computes `float32(u)`, `float32(u-64)`,
`float32(u-8192)/64`, `float32(u)/120`, `float32(u)/15120` in float32 arithmetic.  This file proves that
both agree for EVERY byte string, and the same for the five colour forms.

The integer and `/64` forms are proved from the soft-float definitions (exact values).  The `/120` and
`/15120` forms follow from the general theorem of `SpecDiv.lean` ("float32 division of two integers is
correctly rounded"), instantiated in `SpecZ2O.lean` (imported by `SpecInstr.lean`).
-/
namespace Ivg.SpecL
open Ivg Num Codec
open Ivg.Spec

/-! ## naturals -/

/-- `natural_eq`: the spec's natural-number form is the model's `decodeNatural` (value, width, rest),
    for all byte strings. -/
theorem natural_eq (b : Bytes) : FFV0.natural b = Dec.decodeNatural b := by
  rcases b with _ | ⟨x, rest⟩
  · rfl
  · simp only [FFV0.natural, Dec.decodeNatural]
    split
    · rfl
    · split
      · rcases rest with _ | ⟨y, rest⟩
        · rfl
        · simp only [Nat.mul_comm 256]
      · rcases rest with _ | ⟨b1, _ | ⟨b2, _ | ⟨b3, rest⟩⟩⟩
        · rfl
        · rfl
        · rfl
        · simp only [Nat.mul_comm 256, Nat.mul_comm 65536, Nat.mul_comm 16777216]

/-! ## exactly representable rationals: `n / 2^t` -/

theorem bitLen_pow2 (t : Nat) : bitLen (2^t) = t + 1 :=
  bitLen_eq (Nat.le_refl _) (Nat.pow_lt_pow_right (by omega) (by omega))

/-- bits of the float32 nearest to `±n / 2^t` for `n` of `j+1 ≤ 24` bits: exact and normal -/
theorem ofRatio_pow2 (neg : Bool) (n t j k : Nat) (hjk : j + k = 23) (h1 : 2^j ≤ n) (h2 : n < 2^(j+1))
    (ht : t ≤ 100) :
    F32.ofRatio neg n (2^t) =
      F32.ofNatBits ((if neg then 2147483648 else 0) + ((149 - k - t) * 8388608 + n * 2^k)) := by
  have hp := Nat.two_pow_pos j
  have hn0 : n ≠ 0 := by omega
  have hbn : bitLen n = j + 1 := bitLen_eq h1 h2
  obtain ⟨_, hq1, hq2⟩ := roundMag_shl n 0 j k hjk h1 h2 (by omega) (by omega)
  have hK : 40 + bitLen (2^t) - bitLen n = (k + 17) + t := by rw [bitLen_pow2, hbn]; omega
  have hnum : n * 2 ^ (k + 17 + t) = (n * 2^k * 2^17) * 2^t := by
    rw [Nat.pow_add, Nat.pow_add, Nat.mul_assoc, Nat.mul_assoc, Nat.mul_assoc]
  have hpt := Nat.two_pow_pos t
  have hdiv : n * 2 ^ (k + 17 + t) / 2^t = n * 2^k * 2^17 := by
    rw [hnum]; exact Nat.mul_div_cancel _ hpt
  have hmod : n * 2 ^ (k + 17 + t) % 2^t = 0 := by
    rw [hnum]; exact Nat.mul_mod_left _ _
  have hne : n * 2^k * 2^17 ≠ 0 := by
    have : 0 < n * 2^k * 2^17 := Nat.mul_pos (by omega) (Nat.two_pow_pos 17)
    omega
  have hr := roundMag_shr (n * 2^k) (-((k + 17 + t : Nat) : Int)) 17 (by omega) hq1 hq2 (by omega) (by omega)
  have hbeq : (n == 0) = false := by simp [hn0]
  have hst : ((0 : Nat) != 0) = false := rfl
  unfold F32.ofRatio
  simp only [hbeq, Bool.false_eq_true, if_false, hK, hdiv, hmod, hst]
  rw [roundPack_pos _ _ _ _ hne, hr]
  have he : (-((k + 17 + t : Nat) : Int) + ((17 : Nat) : Int) + 149).toNat = 149 - k - t := by omega
  rw [he]
  unfold withSign
  rw [signBit_f32]
  cases neg <;> simp

/-- `float32(i)` is the float32 nearest to the integer `i`, `0 < |i| < 2^24` -/
theorem ofInt_eq_ofRatio (i : Int) (h0 : i ≠ 0) (h : i.natAbs < 16777216) :
    F32.ofInt i = F32.ofRatio (decide (i < 0)) i.natAbs 1 := by
  obtain ⟨j, k, hjk, h1, h2⟩ := exists_jk i.natAbs (by omega) h
  obtain ⟨hb, hq1, hq2⟩ := ofInt_bits i j k hjk h1 h2
  have := ofRatio_pow2 (decide (i < 0)) i.natAbs 0 j k hjk h1 h2 (by omega)
  rw [Nat.pow_zero] at this
  rw [this]
  unfold F32.ofInt
  rw [hb]
  apply congrArg F32.ofNatBits
  by_cases hneg : i < 0
  · simp only [hneg, decide_true, if_true]; omega
  · simp only [hneg, decide_false, if_false, Bool.false_eq_true]; omega

/-- `float32(i) / 64` is the float32 nearest to `i / 64`, `0 < |i| < 2^24` -/
theorem ofInt_div64_eq_ofRatio (i : Int) (h0 : i ≠ 0) (h : i.natAbs < 16777216) :
    F32.ofInt i / F32.ofInt 64 = F32.ofRatio (decide (i < 0)) i.natAbs 64 := by
  obtain ⟨j, k, hjk, h1, h2⟩ := exists_jk i.natAbs (by omega) h
  obtain ⟨hb, hq1, hq2⟩ := ofInt_bits i j k hjk h1 h2
  have hr := ofRatio_pow2 (decide (i < 0)) i.natAbs 6 j k hjk h1 h2 (by omega)
  have c64 : (2:Nat)^6 = 64 := by decide
  rw [c64] at hr
  rw [hr]
  have hnb : (F32.ofInt i).nb = (if i < 0 then 1 else 0) * 2147483648 + (150 - k) * 8388608 +
        (i.natAbs * 2^k - 8388608) := by
    unfold F32.ofInt
    rw [nb_ofNatBits _ (by rw [hb]; split <;> omega), hb]
  have hex : expo (F32.ofInt i) = 150 - k := by
    rw [expo_nb, hnb]; split <;> omega
  have hd := div64_nb (F32.ofInt i) (by omega) (by omega)
  apply F32.ext_nb
  rw [hd, hnb, nb_ofNatBits _ (by split <;> omega)]
  by_cases hneg : i < 0
  · simp only [hneg, decide_true, if_true]; omega
  · simp only [hneg, decide_false, if_false, Bool.false_eq_true]; omega

/-! ## real, coordinate -/

theorem nearest_zero (d : Nat) : FFV0.nearest false 0 d = ⟨0⟩ := by
  simp [FFV0.nearest, F32.ofRatio, withSign, F32.ofNatBits]

/-- the real denoted by a 1- or 2-byte natural -/
theorem real_short (u : Nat) (h : u < 16384) : F32.ofInt u = FFV0.nearest false u 1 := by
  by_cases h0 : u = 0
  · subst h0; rw [nearest_zero]; decide
  · have := ofInt_eq_ofRatio (u : Int) (by omega) (by omega)
    rw [this]
    have hd : decide ((u : Int) < 0) = false := by simp
    rw [hd]; rfl

/-- the coordinate denoted by a 1-byte natural: `u − 64` -/
theorem coord_one (u : Nat) (h : u < 128) : F32.ofInt ((u : Int) - 64) = FFV0.nearestDiff u 64 1 := by
  unfold FFV0.nearestDiff
  by_cases h0 : u = 64
  · subst h0; simp only [ge_iff_le, Nat.le_refl, if_true, Nat.sub_self, nearest_zero]; decide
  · have := ofInt_eq_ofRatio ((u : Int) - 64) (by omega) (by omega)
    rw [this]
    unfold FFV0.nearest
    split
    · have hd : decide ((u : Int) - 64 < 0) = false := by simp; omega
      have hn : ((u : Int) - 64).natAbs = u - 64 := by omega
      rw [hd, hn]
    · have hd : decide ((u : Int) - 64 < 0) = true := by simp; omega
      have hn : ((u : Int) - 64).natAbs = 64 - u := by omega
      rw [hd, hn]

/-- the coordinate denoted by a 2-byte natural: `(u − 8192) / 64` -/
theorem coord_two (u : Nat) (h : u < 16384) :
    F32.ofInt ((u : Int) - 64 * 128) / F32.ofInt 64 = FFV0.nearestDiff u (128 * 64) 64 := by
  unfold FFV0.nearestDiff
  by_cases h0 : u = 8192
  · subst h0; simp only [ge_iff_le, Nat.le_refl, if_true, Nat.sub_self, nearest_zero]; decide
  · have := ofInt_div64_eq_ofRatio ((u : Int) - 64 * 128) (by omega) (by omega)
    rw [this]
    unfold FFV0.nearest
    split
    · have hd : decide ((u : Int) - 64 * 128 < 0) = false := by simp; omega
      have hn : ((u : Int) - 64 * 128).natAbs = u - 128 * 64 := by omega
      rw [hd, hn]
    · have hd : decide ((u : Int) - 64 * 128 < 0) = true := by simp; omega
      have hn : ((u : Int) - 64 * 128).natAbs = 128 * 64 - u := by omega
      rw [hd, hn]

/-- the bounds a width-1 / width-2 natural satisfies -/
theorem decodeNatural_bound {b : Bytes} {u n : Nat} {rest : Bytes}
    (h : Dec.decodeNatural b = some (u, n, rest)) :
    (n = 1 ∧ u < 128) ∨ (n = 2 ∧ u < 16384) ∨ n = 4 := by
  rcases decodeNatural_shape h with ⟨x, _, _, rfl, rfl⟩ | ⟨x, y, _, _, rfl, rfl⟩ | ⟨_, _, _, _, _, _, _, rfl⟩
  · have := x.toNat_lt; left; omega
  · have := x.toNat_lt; have := y.toNat_lt; right; left; omega
  · right; right; rfl

/-- `real_eq`: the spec's real-number form is the model's `decodeReal`, for all byte strings. -/
theorem real_eq (b : Bytes) : FFV0.real b = Dec.decodeReal b := by
  unfold FFV0.real Dec.decodeReal
  rw [natural_eq]
  cases hd : Dec.decodeNatural b with
  | none => rfl
  | some p =>
    obtain ⟨u, n, rest⟩ := p
    rcases decodeNatural_bound hd with ⟨rfl, hu⟩ | ⟨rfl, hu⟩ | rfl
    · simp only [real_short u (by omega)]; rfl
    · simp only [real_short u hu]; rfl
    · rfl

/-- `coordinate_eq`: the spec's coordinate form is the model's `decodeCoordinate`, for all byte strings. -/
theorem coordinate_eq (b : Bytes) : FFV0.coordinate b = Dec.decodeCoordinate b := by
  unfold FFV0.coordinate Dec.decodeCoordinate
  rw [natural_eq]
  cases hd : Dec.decodeNatural b with
  | none => rfl
  | some p =>
    obtain ⟨u, n, rest⟩ := p
    rcases decodeNatural_bound hd with ⟨rfl, hu⟩ | ⟨rfl, hu⟩ | rfl
    · simp only [coord_one u hu]; rfl
    · simp only [coord_two u hu]; rfl
    · rfl

/-- `zeroToOne_eq`, given the two division facts (`z2o_one`, `z2o_two` in `SpecZ2O.lean`) -/
theorem zeroToOne_eq_of (H1 : ∀ u : Nat, u < 128 → F32.ofInt u / F32.ofInt 120 = F32.ofRatio false u 120)
    (H2 : ∀ u : Nat, u < 16384 → F32.ofInt u / F32.ofInt 15120 = F32.ofRatio false u 15120)
    (b : Bytes) : FFV0.zeroToOne b = Dec.decodeZeroToOne b := by
  unfold FFV0.zeroToOne Dec.decodeZeroToOne
  rw [natural_eq]
  cases hd : Dec.decodeNatural b with
  | none => rfl
  | some p =>
    obtain ⟨u, n, rest⟩ := p
    rcases decodeNatural_bound hd with ⟨rfl, hu⟩ | ⟨rfl, hu⟩ | rfl
    · simp only [H1 u hu]; rfl
    · simp only [H2 u hu]; rfl
    · rfl

/-! ## colours -/

set_option maxRecDepth 100000 in
/-- the 1-byte colour table of the spec is `DecodeColor1`, all 256 bytes -/
theorem color1_eq : ∀ x : UInt8, FFV0.color1Of x.toNat = Ivg.decodeColor1 x := by decide +kernel

set_option maxRecDepth 100000 in
/-- nibble duplication: `0x11 * nibble` -/
theorem dup_eq : ∀ x : UInt8,
    FFV0.dup (x.toNat / 16) = (0x11 : UInt8) * (x >>> 4) ∧
    FFV0.dup (x.toNat % 16) = (0x11 : UInt8) * (x &&& 0x0f) := by decide +kernel

/-- the model decoder for a colour form -/
def colorDec : FFV0.ColorForm → Bytes → Option (Color × Bytes)
  | .one => Dec.decodeColor1
  | .two => Dec.decodeColor2
  | .threeDirect => Dec.decodeColor3Direct
  | .four => Dec.decodeColor4
  | .threeIndirect => Dec.decodeColor3Indirect

/-- `color_eq`: each of the five colour forms of the spec is the corresponding model decoder, for all
    byte strings. -/
theorem color_eq (form : FFV0.ColorForm) (b : Bytes) : FFV0.color form b = colorDec form b := by
  cases form
  · rcases b with _ | ⟨x, rest⟩
    · rfl
    · simp only [FFV0.color, colorDec, Dec.decodeColor1, color1_eq]
  · rcases b with _ | ⟨x, _ | ⟨y, rest⟩⟩
    · rfl
    · rfl
    · simp only [FFV0.color, colorDec, Dec.decodeColor2, (dup_eq x).1, (dup_eq x).2, (dup_eq y).1, (dup_eq y).2]
  · rcases b with _ | ⟨x, _ | ⟨y, _ | ⟨z, rest⟩⟩⟩ <;> rfl
  · rcases b with _ | ⟨x, _ | ⟨y, _ | ⟨z, _ | ⟨w, rest⟩⟩⟩⟩ <;> rfl
  · rcases b with _ | ⟨x, _ | ⟨y, _ | ⟨z, rest⟩⟩⟩ <;> rfl

end Ivg.SpecL
