import Ivg.Lemmas.Pow2F32
import Ivg.Lemmas.RenderHist
/-!
# Power-of-two scaling of `F32`, and the Renderer's transform (C16 (b) at float32, stages 1–3)

`F32`-level versions of `Pow2F32.lean`:

* `scale2 n a` — `a·2^n` by exponent adjustment; `Safe n a` — `a` is `±0` or normal with exponent field in
  `[2, 254]` before and after; `scale2_value`;
* `mul_scale2`, `div_scale2`, `add_scale2`, `sub_scale2`, `neg_scale2`, `lt_scale2`, `le_scale2` under the decidable
  hypotheses `MulSafe`, `DivSafe`, `AddSafe`, `SubSafe` on the bit patterns of operands and result;
* the Renderer: `recalc_scF` (the transform computed from the scaled viewBox is `scale / 2^n`, `bias · 2^n`),
  `absX_scF`, `relX_scF`, … (`absX' (x·2^n) = absX x` BIT FOR BIT).
-/
namespace Ivg.Pow2F32
open Ivg Num Ren FloatOrder32 FloatMono32 FloatSpecial32

/-! ## stage 1: the scaling -/

/-- `a · 2^n`: add `n` to the exponent field of a normal number whose exponent field stays in `[2, 254]`; every
    other input (`±0`, subnormals, numbers that would leave the normal range, infinities, NaNs) is returned
    unchanged -/
def scale2 (n : Int) (a : F32) : F32 := F32.ofNatBits (scaleB n a.nb)

/-- `±0` -/
def IsZero (a : F32) : Prop := ZeroB a.nb
/-- normal with exponent field `E`, `2 ≤ E ≤ 254` and `2 ≤ E + n ≤ 254` -/
def Norm (n : Int) (a : F32) : Prop := NormB n a.nb
/-- `±0`, or `Norm n` -/
def Safe (n : Int) (a : F32) : Prop := SafeB n a.nb
instance (a : F32) : Decidable (IsZero a) := by unfold IsZero; infer_instance
instance (n : Int) (a : F32) : Decidable (Norm n a) := by unfold Norm; infer_instance
instance (n : Int) (a : F32) : Decidable (Safe n a) := by unfold Safe; infer_instance

theorem scale2_nb (n : Int) (a : F32) : (scale2 n a).nb = scaleB n a.nb :=
  nb_ofNatBits _ (scaleB_lt n _ (nb_lt a))

theorem norm_safe {n : Int} {a : F32} (h : Norm n a) : Safe n a := Or.inr h
theorem zero_safe {n : Int} {a : F32} (h : IsZero a) : Safe n a := Or.inl h
theorem safe_Fin {n : Int} {a : F32} (h : Safe n a) : FloatMono32.Fin a := safe_fin h

theorem scale2_Fin {n : Int} {a : F32} (h : Safe n a) : FloatMono32.Fin (scale2 n a) := by
  unfold FloatMono32.Fin; rw [scale2_nb]; exact (safe_fields n _ h).2.1

/-- **`scale2_value`**: the value of `scale2 n a` is `2^n` times the value of `a` (`FloatMono32.val`, the
    library's value function; `FloatOrder32.pow2 n = (2:ℚ)^n`) -/
theorem scale2_value (n : Int) (a : F32) (h : Safe n a) : val (scale2 n a) = pow2 n * val a := by
  unfold val; rw [scale2_nb]; exact bval_scaleB n _ h
example : Safe 3 ⟨0x3fc00000⟩ ∧ scale2 3 ⟨0x3fc00000⟩ = ⟨0x41400000⟩ ∧      -- 1.5 · 8 = 12
    Safe (-5) ⟨0xc0e80000⟩ ∧ scale2 (-5) ⟨0xc0e80000⟩ = ⟨0xbe680000⟩ ∧       -- −7.25 / 32
    Safe 100 ⟨0x80000000⟩ ∧ scale2 100 ⟨0x80000000⟩ = ⟨0x80000000⟩ := by decide   -- −0

theorem scale2_0 (a : F32) : scale2 0 a = a := by
  apply ext_nb; rw [scale2_nb, scaleB_0]

theorem scale2_isZero {n : Int} {a : F32} (h : IsZero a) : scale2 n a = a := by
  apply ext_nb; rw [scale2_nb, scaleB_zero h]

/-- the scaled number is safe for the inverse scaling -/
theorem scale2_safe_neg {n : Int} {a : F32} (h : Safe n a) : Safe (-n) (scale2 n a) := by
  unfold Safe; rw [scale2_nb]
  rcases h with h | h
  · rw [scaleB_zero h]; exact Or.inl h
  · exact Or.inr (scaleB_norm_of n (-n) _ h (by unfold NormB at h; omega))

theorem scale2_inv {n : Int} {a : F32} (h : Safe n a) : scale2 (-n) (scale2 n a) = a := by
  apply ext_nb; rw [scale2_nb, scale2_nb]
  rcases h with h | h
  · rw [scaleB_zero h, scaleB_zero h]
  · have h0 : NormB (n + -n) a.nb := by unfold NormB at *; omega
    rw [scaleB_scaleB n (-n) _ h h0]
    have : n + -n = 0 := by omega
    rw [this, scaleB_0]

/-! ## stage 2: the operations commute with the scaling -/

theorem mul_nbE (a b : F32) : (F32.mul a b).nb = Num.mul .f32 a.nb b.nb := (F32_ops a b).2.2.1
theorem div_nbE (a b : F32) : (F32.div a b).nb = Num.div .f32 a.nb b.nb := (F32_ops a b).2.2.2
theorem add_nbE (a b : F32) : (F32.add a b).nb = Num.add .f32 a.nb b.nb := (F32_ops a b).1
theorem sub_nbE (a b : F32) : (F32.sub a b).nb = Num.sub .f32 a.nb b.nb := (F32_ops a b).2.1
theorem neg_nbE (a : F32) : (F32.neg a).nb = Num.neg .f32 a.nb := neg_nb a

/-- safety of a product whose factors are scaled by `2^n` and `2^k`: both factors safe, and the product of the
    UNSCALED factors is normal before and after its scaling by `2^(n+k)` — unless a factor is zero -/
def MulSafe (n k : Int) (a b : F32) : Prop :=
  Safe n a ∧ Safe k b ∧ (IsZero a ∨ IsZero b ∨ Norm (n + k) (F32.mul a b))
instance (n k : Int) (a b : F32) : Decidable (MulSafe n k a b) := by unfold MulSafe; infer_instance

/-- **`mul_scale2`**: `(a·2^n) · (b·2^k) = (a·b)·2^(n+k)`, bit for bit -/
theorem mul_scale2 (n k : Int) (a b : F32) (h : MulSafe n k a b) :
    F32.mul (scale2 n a) (scale2 k b) = scale2 (n + k) (F32.mul a b) := by
  obtain ⟨sa, sb, hr⟩ := h
  apply ext_nb
  unfold Norm at hr
  rw [mul_nbE] at hr
  rw [mul_nbE, scale2_nb, scale2_nb, scale2_nb, mul_nbE]
  exact mul_scaleB n k _ _ sa sb hr
set_option maxRecDepth 100000 in
example : MulSafe 3 (-1) ⟨0x3fc00000⟩ ⟨0xc0e80000⟩ ∧ MulSafe 7 2 ⟨0⟩ ⟨0xc0e80000⟩ := by decide +kernel

/-- scaling the first factor only -/
theorem mul_scale2_left (n : Int) (a b : F32) (h : MulSafe n 0 a b) :
    F32.mul (scale2 n a) b = scale2 n (F32.mul a b) := by
  have := mul_scale2 n 0 a b h
  rwa [scale2_0, Int.add_zero] at this
/-- scaling the second factor only -/
theorem mul_scale2_right (n : Int) (a b : F32) (h : MulSafe 0 n a b) :
    F32.mul a (scale2 n b) = scale2 n (F32.mul a b) := by
  have := mul_scale2 0 n a b h
  rwa [scale2_0, Int.zero_add] at this
/-- scaling one factor by `2^n` and the other by `2^(−n)` leaves the product unchanged -/
theorem mul_scale2_cancel (n : Int) (a b : F32) (h : MulSafe (-n) n a b) :
    F32.mul (scale2 (-n) a) (scale2 n b) = F32.mul a b := by
  have := mul_scale2 (-n) n a b h
  have e : -n + n = 0 := by omega
  rwa [e, scale2_0] at this
set_option maxRecDepth 100000 in
example : MulSafe 4 0 ⟨0x3fc00000⟩ ⟨0xc0e80000⟩ ∧ MulSafe 0 4 ⟨0x3fc00000⟩ ⟨0xc0e80000⟩ ∧
    MulSafe (-4) 4 ⟨0x3fc00000⟩ ⟨0xc0e80000⟩ := by decide +kernel

/-- `2^n` as a float32 (for `−125 ≤ n ≤ 127`): `1.0` with `n` added to its exponent field -/
def pow2F (n : Int) : F32 := scale2 n F32.one
example : pow2F 1 = ⟨0x40000000⟩ ∧ pow2F (-3) = ⟨0x3e000000⟩ ∧ pow2F 127 = ⟨0x7f000000⟩ ∧
    pow2F (-125) = ⟨0x01000000⟩ := by decide

theorem one_norm (n : Int) (hn : -125 ≤ n ∧ n ≤ 127) : Norm n F32.one := by
  have : expF F32.one.nb = 127 := by decide
  unfold Norm NormB; rw [this]; omega

theorem pow2F_value (n : Int) (hn : -125 ≤ n ∧ n ≤ 127) : val (pow2F n) = pow2 n := by
  unfold pow2F
  rw [scale2_value n _ (norm_safe (one_norm n hn))]
  have : val F32.one = 1 := by
    have h1 : negB32 F32.one.nb = false := by decide
    have h2 : mantB F32.one.nb = 8388608 := by decide
    have h3 : expB F32.one.nb = -23 := by decide
    unfold val bval sval; rw [h1, h2, h3]
    have : pow2 (-23) = 1 / 8388608 := by unfold pow2; norm_num
    rw [this]; norm_num
  rw [this, mul_one]

theorem mul_one_F (a : F32) (h : Safe 0 a) : F32.mul a F32.one = a := by
  apply ext_nb; rw [mul_nbE]; exact mul_one_B _ (nb_lt a) h

theorem safe_0 {n : Int} {a : F32} (h : Safe n a) : Safe 0 a := by
  rcases h with h | h
  · exact Or.inl h
  · right; unfold NormB at *; omega

/-- **`scale2` is the float32 multiplication by `2^n`** when `2^n` is a (normal) float32: `a * 2^n` as
    `F32.mul` computes it -/
theorem scale2_eq_mul (n : Int) (a : F32) (h : Safe n a) (hn : -125 ≤ n ∧ n ≤ 127) :
    scale2 n a = F32.mul a (pow2F n) := by
  have h0 := safe_0 h
  have hm : MulSafe 0 n a F32.one := by
    refine ⟨h0, norm_safe (one_norm n hn), ?_⟩
    rcases h with h | h
    · exact Or.inl h
    · right; right; rw [mul_one_F a h0, Int.zero_add]; exact h
  have := mul_scale2 0 n a F32.one hm
  rw [scale2_0, mul_one_F a h0, Int.zero_add] at this
  exact this.symm
example : Safe 5 ⟨0xc0e80000⟩ ∧ F32.mul ⟨0xc0e80000⟩ (pow2F 5) = ⟨0xc3680000⟩ := by decide +kernel   -- −7.25 · 32 = −232

set_option maxRecDepth 100000 in
/-- the hypothesis of `mul_scale2` on the RESULT is needed: both factors below are safe for their scalings, the product of the scaled
    factors underflows into the subnormal range, `MulSafe` fails — and indeed multiplying the scaled factors differs
    (double rounding) from scaling the rounded product by the same two EXACT multiplications by powers of two -/
example : Safe (-100) ⟨0x3f80f779⟩ ∧ Safe (-40) ⟨0x408c786b⟩ ∧ ¬ MulSafe (-100) (-40) ⟨0x3f80f779⟩ ⟨0x408c786b⟩ ∧
    F32.mul (F32.mul ⟨0x3f80f779⟩ (pow2F (-100))) (F32.mul ⟨0x408c786b⟩ (pow2F (-40))) ≠
      F32.mul (F32.mul (F32.mul ⟨0x3f80f779⟩ ⟨0x408c786b⟩) (pow2F (-100))) (pow2F (-40)) := by decide +kernel

/-- safety of a quotient: dividend safe, divisor normal, quotient of the UNSCALED operands normal before and
    after its scaling by `2^(n−k)` — unless the dividend is zero -/
def DivSafe (n k : Int) (a b : F32) : Prop :=
  Safe n a ∧ Norm k b ∧ (IsZero a ∨ Norm (n - k) (F32.div a b))
instance (n k : Int) (a b : F32) : Decidable (DivSafe n k a b) := by unfold DivSafe; infer_instance

/-- **`div_scale2`**: `(a·2^n) / (b·2^k) = (a/b)·2^(n−k)`, bit for bit -/
theorem div_scale2 (n k : Int) (a b : F32) (h : DivSafe n k a b) :
    F32.div (scale2 n a) (scale2 k b) = scale2 (n - k) (F32.div a b) := by
  obtain ⟨sa, sb, hr⟩ := h
  apply ext_nb
  unfold Norm at hr
  rw [div_nbE] at hr
  rw [div_nbE, scale2_nb, scale2_nb, scale2_nb, div_nbE]
  exact div_scaleB n k _ _ sa sb hr
/-- a common scaling of dividend and divisor leaves the quotient unchanged -/
theorem div_scale2_common (n : Int) (a b : F32) (h : DivSafe n n a b) :
    F32.div (scale2 n a) (scale2 n b) = F32.div a b := by
  have := div_scale2 n n a b h
  have e : n - n = 0 := by omega
  rwa [e, scale2_0] at this
/-- scaling the divisor by `2^n` scales the quotient by `2^(−n)` -/
theorem div_scale2_den (n : Int) (a b : F32) (h : DivSafe 0 n a b) :
    F32.div a (scale2 n b) = scale2 (-n) (F32.div a b) := by
  have := div_scale2 0 n a b h
  have e : 0 - n = -n := by omega
  rwa [e, scale2_0] at this
set_option maxRecDepth 100000 in
example : DivSafe 2 5 ⟨0x3fc00000⟩ ⟨0xc0e80000⟩ ∧ DivSafe 9 9 ⟨0x3fc00000⟩ ⟨0xc0e80000⟩ ∧
    DivSafe 0 1 (F32.ofInt 48) ⟨0x42800000⟩ ∧ DivSafe 0 1 (F32.ofInt 0) ⟨0x42800000⟩ := by decide +kernel

/-- safety of a sum whose terms are both scaled by `2^n`: terms and sum of the UNSCALED terms are safe (a zero
    sum of finite numbers is always exact, so `±0` is allowed as a result) -/
def AddSafe (n : Int) (a b : F32) : Prop := Safe n a ∧ Safe n b ∧ Safe n (F32.add a b)
instance (n : Int) (a b : F32) : Decidable (AddSafe n a b) := by unfold AddSafe; infer_instance

/-- **`add_scale2`**: `a·2^n + b·2^n = (a+b)·2^n`, bit for bit -/
theorem add_scale2 (n : Int) (a b : F32) (h : AddSafe n a b) :
    F32.add (scale2 n a) (scale2 n b) = scale2 n (F32.add a b) := by
  obtain ⟨sa, sb, hr⟩ := h
  apply ext_nb
  unfold Safe at hr
  rw [add_nbE] at hr
  rw [add_nbE, scale2_nb, scale2_nb, scale2_nb, add_nbE]
  exact add_scaleB n _ _ sa sb hr
set_option maxRecDepth 100000 in
-- 1.5 + (−7.25); 32 + (−32) = +0; −0 + 1.5
example : AddSafe 6 ⟨0x3fc00000⟩ ⟨0xc0e80000⟩ ∧ AddSafe (-3) ⟨0x42000000⟩ ⟨0xc2000000⟩ ∧
    AddSafe 20 ⟨0x80000000⟩ ⟨0x3fc00000⟩ := by decide +kernel

def SubSafe (n : Int) (a b : F32) : Prop := Safe n a ∧ Safe n b ∧ Safe n (F32.sub a b)
instance (n : Int) (a b : F32) : Decidable (SubSafe n a b) := by unfold SubSafe; infer_instance

/-- **`sub_scale2`**: `a·2^n − b·2^n = (a−b)·2^n`, bit for bit -/
theorem sub_scale2 (n : Int) (a b : F32) (h : SubSafe n a b) :
    F32.sub (scale2 n a) (scale2 n b) = scale2 n (F32.sub a b) := by
  obtain ⟨sa, sb, hr⟩ := h
  apply ext_nb
  unfold Safe at hr
  rw [sub_nbE] at hr
  rw [sub_nbE, scale2_nb, scale2_nb, scale2_nb, sub_nbE]
  exact sub_scaleB n _ _ sa sb hr
set_option maxRecDepth 100000 in
example : SubSafe 1 ⟨0x42000000⟩ ⟨0xc2000000⟩ ∧ SubSafe (-2) ⟨0x3fc00000⟩ ⟨0x3fc00000⟩ := by decide +kernel

/-- **`neg_scale2`** (no hypothesis) -/
theorem neg_scale2 (n : Int) (a : F32) : F32.neg (scale2 n a) = scale2 n (F32.neg a) := by
  apply ext_nb
  rw [neg_nbE, scale2_nb, scale2_nb, neg_nbE]
  exact neg_scaleB n _

theorem neg_safe {n : Int} {a : F32} : Safe n (F32.neg a) ↔ Safe n a := by
  unfold Safe; rw [neg_nbE]; exact neg_safeB n _

/-- **`lt_scale2`**: `<` is invariant under a common scaling -/
theorem lt_scale2 (n : Int) (a b : F32) (sa : Safe n a) (sb : Safe n b) :
    F32.lt (scale2 n a) (scale2 n b) = F32.lt a b := by
  unfold F32.lt; rw [scale2_nb, scale2_nb]
  exact lt_scaleB n _ _ (nb_lt a) (nb_lt b) sa sb
/-- **`le_scale2`**: `≤` is invariant under a common scaling -/
theorem le_scale2 (n : Int) (a b : F32) (sa : Safe n a) (sb : Safe n b) :
    F32.le (scale2 n a) (scale2 n b) = F32.le a b := by
  unfold F32.le; rw [scale2_nb, scale2_nb]
  exact le_scaleB n _ _ (nb_lt a) (nb_lt b) sa sb
theorem lt_scale2_iff (n : Int) (a b : F32) (sa : Safe n a) (sb : Safe n b) :
    scale2 n a < scale2 n b ↔ a < b := by
  show F32.lt _ _ = true ↔ F32.lt _ _ = true
  rw [lt_scale2 n a b sa sb]
theorem le_scale2_iff (n : Int) (a b : F32) (sa : Safe n a) (sb : Safe n b) :
    scale2 n a ≤ scale2 n b ↔ a ≤ b := by
  show F32.le _ _ = true ↔ F32.le _ _ = true
  rw [le_scale2 n a b sa sb]
example : Safe 10 ⟨0xc0e80000⟩ ∧ Safe 10 ⟨0x3fc00000⟩ ∧ Safe 10 ⟨0⟩ := by decide

/-! ## stage 3: the Renderer's transform -/

/-- one axis of `recalcTransform`: the extent `hi − lo` and the quotient `d / (hi − lo)` -/
def RecalcSafe (n : Int) (d : Int) (lo hi : F32) : Prop :=
  SubSafe n hi lo ∧ DivSafe 0 n (F32.ofInt d) (F32.sub hi lo)
instance (n d : Int) (lo hi : F32) : Decidable (RecalcSafe n d lo hi) := by unfold RecalcSafe; infer_instance

/-- the scale factor computed from the scaled viewBox edges is the scale factor divided by `2^n` -/
theorem scale_scale2 (n d : Int) (lo hi : F32) (h : RecalcSafe n d lo hi) :
    F32.div (F32.ofInt d) (F32.sub (scale2 n hi) (scale2 n lo)) =
      scale2 (-n) (F32.div (F32.ofInt d) (F32.sub hi lo)) := by
  rw [sub_scale2 n hi lo h.1, div_scale2_den n _ _ h.2]

/-- one absolute coordinate: the sum `x + bias` and the product `scale · (x + bias)` -/
def AbsSafe (n : Int) (s b x : F32) : Prop := AddSafe n x b ∧ MulSafe (-n) n s (F32.add x b)
instance (n : Int) (s b x : F32) : Decidable (AbsSafe n s b x) := by unfold AbsSafe; infer_instance

/-- `(scale/2^n) · (x·2^n + bias·2^n) = scale · (x + bias)`, bit for bit -/
theorem abs_scale2 (n : Int) (s b x : F32) (h : AbsSafe n s b x) :
    F32.mul (scale2 (-n) s) (F32.add (scale2 n x) (scale2 n b)) = F32.mul s (F32.add x b) := by
  rw [add_scale2 n x b h.1, mul_scale2_cancel n _ _ h.2]

/-- one relative coordinate: the product `scale · x` -/
def RelSafe (n : Int) (s x : F32) : Prop := MulSafe (-n) n s x
instance (n : Int) (s x : F32) : Decidable (RelSafe n s x) := by unfold RelSafe; infer_instance

/-- `(scale/2^n) · (x·2^n) = scale · x`, bit for bit -/
theorem rel_scale2 (n : Int) (s x : F32) (h : RelSafe n s x) :
    F32.mul (scale2 (-n) s) (scale2 n x) = F32.mul s x := mul_scale2_cancel n _ _ h

/-- pixel space back to viewBox space (`unabsX`, used by relative arcs only): the quotient `p / scale` and the
    difference `p / scale − bias` -/
def UnabsSafe (n : Int) (s b p : F32) : Prop := DivSafe 0 (-n) p s ∧ SubSafe n (F32.div p s) b
instance (n : Int) (s b p : F32) : Decidable (UnabsSafe n s b p) := by unfold UnabsSafe; infer_instance

/-- `p / (scale/2^n) − bias·2^n = (p / scale − bias)·2^n`, bit for bit (the pixel `p` is NOT scaled) -/
theorem unabs_scale2 (n : Int) (s b p : F32) (h : UnabsSafe n s b p) :
    F32.sub (F32.div p (scale2 (-n) s)) (scale2 n b) = scale2 n (F32.sub (F32.div p s) b) := by
  have e := div_scale2_den (-n) p s h.1
  rw [Int.neg_neg] at e
  rw [e, sub_scale2 n _ _ h.2]

/-- the viewBox with every edge multiplied by `2^n` -/
def scaleVBF (n : Int) (vb : ViewBox F32) : ViewBox F32 :=
  ⟨scale2 n vb.minX, scale2 n vb.minY, scale2 n vb.maxX, scale2 n vb.maxY⟩

/-- the Renderer state that corresponds to `z` when the graphic is expressed `2^n` times larger: viewBox edges
    `· 2^n`, hence scale `/ 2^n` and bias `· 2^n` (`recalc_scF`); everything else — rectangle, pen, sub-path start,
    smooth point (they live in PIXEL space), selectors, registers, palette, LOD, paint, flags — is the same -/
def scF (n : Int) (z : Renderer F32 F64) : Renderer F32 F64 :=
  { z with viewBox := scaleVBF n z.viewBox, scaleX := scale2 (-n) z.scaleX, biasX := scale2 n z.biasX,
           scaleY := scale2 (-n) z.scaleY, biasY := scale2 n z.biasY }

/-- safety of `recalcTransform` for rectangle `r` and viewBox `vb` -/
def TransformSafe (n : Int) (r : Rect) (vb : ViewBox F32) : Prop :=
  RecalcSafe n r.dx vb.minX vb.maxX ∧ RecalcSafe n r.dy vb.minY vb.maxY
instance (n : Int) (r : Rect) (vb : ViewBox F32) : Decidable (TransformSafe n r vb) := by
  unfold TransformSafe; infer_instance

/-- **the transform of the scaled viewBox**: `recalcTransform` on the state with the viewBox scaled by `2^n`
    yields `scaleX' = scale2 (−n) scaleX`, `biasX' = scale2 n biasX` (same for Y), bit for bit -/
theorem recalc_scF (n : Int) (z : Renderer F32 F64) (h : TransformSafe n z.r z.viewBox) :
    ({ z with viewBox := scaleVBF n z.viewBox } : Renderer F32 F64).recalcTransform = scF n z.recalcTransform := by
  obtain ⟨hx, hy⟩ := h
  have ex := scale_scale2 n z.r.dx z.viewBox.minX z.viewBox.maxX hx
  have ey := scale_scale2 n z.r.dy z.viewBox.minY z.viewBox.maxY hy
  have hbx := neg_scale2 n z.viewBox.minX
  have hby := neg_scale2 n z.viewBox.minY
  rcases z with ⟨r, sx, bx, sy, by_, vb, pal, l0, l1, cs, ns, dis, pst, psx, psy, fill, cr, nr, px, py, fx, fy⟩
  simp only [Renderer.recalcTransform, scF, scaleVBF, Renderer.mk.injEq, true_and, and_true]
  exact ⟨ex, hbx, ey, hby⟩

/-- the relation between the two transforms is the one `recalcTransform` produces: if `z` has the recalculated
    transform of its rectangle and viewBox (`RenderHist.TransformOK`), so has `scF n z` -/
theorem scF_transformOK (n : Int) (z : Renderer F32 F64) (hz : RenderHist.TransformOK z)
    (h : TransformSafe n z.r z.viewBox) : RenderHist.TransformOK (scF n z) := by
  have e := (RenderHist.transformOK_iff z).1 hz
  have := recalc_scF n z h
  rw [e] at this
  rw [← this]
  exact RenderHist.transformOK_recalc _

/-- **`absX' (x·2^n) = absX x`** bit for bit -/
theorem absX_scF (n : Int) (z : Renderer F32 F64) (x : F32) (h : AbsSafe n z.scaleX z.biasX x) :
    (scF n z).absX (scale2 n x) = z.absX x := abs_scale2 n z.scaleX z.biasX x h
theorem absY_scF (n : Int) (z : Renderer F32 F64) (y : F32) (h : AbsSafe n z.scaleY z.biasY y) :
    (scF n z).absY (scale2 n y) = z.absY y := abs_scale2 n z.scaleY z.biasY y h
/-- **`relX' (x·2^n) = relX x`** bit for bit -/
theorem relX_scF (n : Int) (z : Renderer F32 F64) (x : F32) (h : RelSafe n z.scaleX x) :
    (scF n z).relX (scale2 n x) = z.relX x := rel_scale2 n z.scaleX x h
theorem relY_scF (n : Int) (z : Renderer F32 F64) (y : F32) (h : RelSafe n z.scaleY y) :
    (scF n z).relY (scale2 n y) = z.relY y := rel_scale2 n z.scaleY y h
theorem relVecX_scF (n : Int) (z : Renderer F32 F64) (x : F32) (h : RelSafe n z.scaleX x) :
    (scF n z).relVecX (scale2 n x) = z.relVecX x := by
  show (scF n z).penX + (scF n z).relX (scale2 n x) = z.penX + z.relX x
  rw [relX_scF n z x h]; rfl
theorem relVecY_scF (n : Int) (z : Renderer F32 F64) (y : F32) (h : RelSafe n z.scaleY y) :
    (scF n z).relVecY (scale2 n y) = z.relVecY y := by
  show (scF n z).penY + (scF n z).relY (scale2 n y) = z.penY + z.relY y
  rw [relY_scF n z y h]; rfl

/-- **`unabsX' p = (unabsX p)·2^n`** bit for bit: a pixel-space coordinate maps back to the scaled viewBox space -/
theorem unabsX_scF (n : Int) (z : Renderer F32 F64) (p : F32) (h : UnabsSafe n z.scaleX z.biasX p) :
    (scF n z).unabsX p = scale2 n (z.unabsX p) := unabs_scale2 n z.scaleX z.biasX p h
theorem unabsY_scF (n : Int) (z : Renderer F32 F64) (p : F32) (h : UnabsSafe n z.scaleY z.biasY p) :
    (scF n z).unabsY p = scale2 n (z.unabsY p) := unabs_scale2 n z.scaleY z.biasY p h

/-! ### a concrete instance: viewBox (−32, −32, 32, 32) against (−64, −64, 64, 64), 48 × 48 pixels -/
namespace Ex
open Ivg.Lemmas.RendererVM.Ex (posInf)

/-- viewBox (−32, −32, 32, 32) -/
def vb32 : ViewBox F32 := ⟨⟨0xc2000000⟩, ⟨0xc2000000⟩, ⟨0x42000000⟩, ⟨0x42000000⟩⟩
/-- viewBox (−64, −64, 64, 64) -/
def vb64 : ViewBox F32 := ⟨⟨0xc2800000⟩, ⟨0xc2800000⟩, ⟨0x42800000⟩, ⟨0x42800000⟩⟩
/-- 1.5, −7.25, 3, 12.75 -/
def c1_5 : F32 := ⟨0x3fc00000⟩
def cm7_25 : F32 := ⟨0xc0e80000⟩
def c3 : F32 := ⟨0x40400000⟩
def c12_75 : F32 := ⟨0x414c0000⟩

/-- a fresh Renderer pointed at a 48 × 48 rectangle at offset (10, 20), after `Reset` with viewBox `vb32` -/
def z48 : Renderer F32 F64 :=
  ((Renderer.zero (α := F32) (β := F64)).setRasterizer ⟨10, 20, 58, 68⟩).reset posInf vb32 defaultPalette

theorem vb_scaled : scaleVBF 1 vb32 = vb64 := by decide
set_option maxRecDepth 100000 in
theorem z48_transformSafe : TransformSafe 1 z48.r z48.viewBox := by decide +kernel
set_option maxRecDepth 100000 in
/-- scale 48/64 = 0.75 and bias 32 against 0.375 and 64 -/
theorem z48_transform : z48.scaleX = ⟨0x3f400000⟩ ∧ z48.biasX = ⟨0x42000000⟩ ∧
    (scF 1 z48).scaleX = ⟨0x3ec00000⟩ ∧ (scF 1 z48).biasX = ⟨0x42800000⟩ := by decide +kernel
set_option maxRecDepth 100000 in
theorem z48_abs_rel : AbsSafe 1 z48.scaleX z48.biasX c1_5 ∧ AbsSafe 1 z48.scaleY z48.biasY cm7_25 ∧
    AbsSafe 1 z48.scaleX z48.biasX z48.viewBox.minX ∧
    RelSafe 1 z48.scaleX c1_5 ∧ RelSafe 1 z48.scaleY cm7_25 := by decide +kernel
set_option maxRecDepth 100000 in
/-- pixel 12.75 back to viewBox space: 12.75 / 0.75 − 32 = −15 -/
theorem z48_unabs : UnabsSafe 1 z48.scaleX z48.biasX c12_75 ∧ z48.unabsX c12_75 = F32.ofInt (-15) := by decide +kernel
end Ex

example : TransformSafe 1 Ex.z48.r Ex.z48.viewBox ∧ RenderHist.TransformOK Ex.z48 :=
  ⟨Ex.z48_transformSafe, RenderHist.transformOK_reset _ _ _ _⟩

end Ivg.Pow2F32
