import Ivg.Lemmas.Mix32
import Ivg.Model.Generator
import Batteries.Tactic.OpenPrivate
/-!
# C19 at `F32`: rounding-error analysis of `SetLinearGradient`'s matrix

`linearMatrix x1 y1 x2 y2 = [a b c; 0 0 0]` with, in float32 (every operation rounded, no FMA),

    dx = x2 − x1,  dy = y2 − y1,  d = dx·dx + dy·dy,  a = dx/d,  b = dy/d,  c = (−a)·x1 − b·y1.

The OFFSET of a viewBox point is `off M p = a·px + b·py + c`, evaluated exactly (in `ℚ`) from the float32
entries (what a renderer working at higher precision sees).  Against the exact projection
`((p − p1)·(p2 − p1)) / |p2 − p1|²` of the float input points:

* `a`, `b` are within relative `8u` (+ `2^-150` if the quotient underflows) of `DX/D`, `DY/D` (`lin_entries`);
* `c` is computed from `a`, `b` by two products and a difference, whose rounding errors are relative to
  `|a·x1| + |b·y1|`, NOT to their difference: `|off M p1| ≤ 3u·(|A·X1| + |B·Y1|) + 3·2^-150`.
  This is the condition number `K = 1 + (|DX·X1| + |DY·Y1|)/D ≤ 1 + |p1|/|p2 − p1|`;
* everything else is well conditioned: `|off M p2 − 1| ≤ 9u + |off M p1|`, and a step `s·(DY, −DX)` along the
  perpendicular changes the offset by at most `9u·|s|` (`linearMatrix_f32`).
-/
namespace Ivg.Gen32
open Ivg Num Gen FloatOrder32 FloatMono32 FloatErr Geom32 Mix32
open private i from Ivg.Model.Generator

/-- the offset a linear gradient with matrix `M` gives the viewBox point `(px, py)`: first row of `M`,
    evaluated exactly from the float entries -/
def off (M : Aff3 F32) (px py : ℚ) : ℚ := val M.a0 * px + val M.a1 * py + val M.a2
/-- second row (the second gradient-space coordinate, used by the radial shape) -/
def off2 (M : Aff3 F32) (px py : ℚ) : ℚ := val M.a3 * px + val M.a4 * py + val M.a5

/-! ## two building blocks shared with the circular helper -/

/-- `fl(fl(dx·dx) + fl(dy·dy))` for `dx`, `dy` within relative `u` of `DX`, `DY` (magnitudes at most `2^21`,
    `DX² + DY² ≥ 2^-40`): relative error `5u`; underflow of a square is absorbed -/
theorem sumsq {dx dy : F32} {DX DY : ℚ} (fdx : Fn dx) (fdy : Fn dy)
    (hdx : Rel u (val dx) DX) (hdy : Rel u (val dy) DY)
    (bX : |DX| ≤ 2097152) (bY : |DY| ≤ 2097152)
    (sep : 1 / 1099511627776 ≤ DX * DX + DY * DY) :
    Fn (dx * dx + dy * dy) ∧ Rel (5 * u) (val (dx * dx + dy * dy)) (DX * DX + DY * DY) := by
  have hu : u = 1 / 16777216 := rfl
  have hPX : Rel (u + u + u * u) (val dx * val dx) (DX * DX) := Rel.mul hdx hdx u_pos.le
  have hPY : Rel (u + u + u * u) (val dy * val dy) (DY * DY) := Rel.mul hdy hdy u_pos.le
  unfold Rel at hPX hPY
  rw [abs_mul_self] at hPX hPY
  have nP : 0 ≤ val dx * val dx := mul_self_nonneg _
  have nQ : 0 ≤ val dy * val dy := mul_self_nonneg _
  have nX := mul_self_nonneg DX
  have nY := mul_self_nonneg DY
  have bXX : DX * DX ≤ 4398046511104 := by have := abs_le.1 bX; nlinarith
  have bYY : DY * DY ≤ 4398046511104 := by have := abs_le.1 bY; nlinarith
  obtain ⟨pX1, pX2⟩ := abs_le.1 hPX
  obtain ⟨pY1, pY2⟩ := abs_le.1 hPY
  rw [hu] at pX1 pX2 pY1 pY2
  have cP : |val dx * val dx| ≤ cap := by rw [abs_of_nonneg nP]; unfold cap; linarith
  have cQ : |val dy * val dy| ≤ cap := by rw [abs_of_nonneg nQ]; unfold cap; linarith
  obtain ⟨fs, hs⟩ := dot2_add fdx fdx fdy fdy cP cQ
  refine ⟨fs, ?_⟩
  rw [abs_of_nonneg nP, abs_of_nonneg nQ] at hs
  have ht := tiny_le
  have ht0 := tiny_pos
  unfold Rel
  rw [abs_of_nonneg (by linarith : 0 ≤ DX * DX + DY * DY)]
  obtain ⟨s1, s2⟩ := abs_le.1 hs
  rw [hu] at s1 s2 ht ⊢
  rw [abs_le]
  constructor <;> linarith

/-- `fl(n / d)` for `n` within relative `u` of `N` and `d` within relative `5u` of `D`, `|N/D| ≤ 2^20`:
    relative error `8u`, or the absolute error `2^-150` of an underflowing quotient -/
theorem quot_entry {n d : F32} {N D : ℚ} (fn : Fn n) (fd : Fn d) (hn : Rel u (val n) N)
    (hd : Rel (5 * u) (val d) D) (hD : D ≠ 0) (hA : |N / D| ≤ 1048576) :
    Fn (n / d) ∧ |val (n / d) - N / D| ≤ 8 * u * |N / D| + tiny := by
  have hu : u = 1 / 16777216 := rfl
  obtain ⟨hd0, hinv⟩ := Rel.div_left 1 hd (by rw [hu]; norm_num) (by rw [hu]; norm_num) hD
  have hq := Rel.mul hn hinv u_pos.le
  have e1 : val n * (1 / val d) = val n / val d := by ring
  have e2 : N * (1 / D) = N / D := by ring
  rw [e1, e2] at hq
  have hq' : Rel (13 / 2 * u) (val n / val d) (N / D) := hq.mono (by rw [hu]; norm_num)
  have sz := hq'.abs_le
  have hA0 := abs_nonneg (N / D)
  have hr : |val n / val d| ≤ maxv := by
    apply le_maxv; rw [hu] at sz; linarith
  obtain ⟨fq, hm⟩ := div_mix fn fd hd0 hr
  refine ⟨fq, ?_⟩
  have h3 := abs_sub_le (val (n / d)) (val n / val d) (N / D)
  unfold Rel at hq'
  have h4 : u * |val n / val d| ≤ u * ((1 + 13 / 2 * u) * |N / D|) :=
    mul_le_mul_of_nonneg_left sz u_pos.le
  rw [hu] at h4 hm hq' ⊢
  linarith

/-! ## pure algebra -/

theorem quot_bound (DX DY : ℚ) (h : 1 / 1099511627776 ≤ DX * DX + DY * DY) :
    |DX / (DX * DX + DY * DY)| ≤ 1048576 := by
  have nY := mul_self_nonneg DY
  have hD : 0 < DX * DX + DY * DY := by linarith
  rw [abs_div, abs_of_pos hD, div_le_iff₀ hD]
  by_contra hc
  have hc' : 1048576 * (DX * DX + DY * DY) < |DX| := not_le.1 hc
  have ha : 0 ≤ |DX| := abs_nonneg _
  have hsq : |DX| * |DX| = DX * DX := abs_mul_abs_self DX
  nlinarith

theorem proj_one (DX DY : ℚ) (hD : 0 < DX * DX + DY * DY) :
    |DX / (DX * DX + DY * DY) * DX| + |DY / (DX * DX + DY * DY) * DY| = 1 := by
  have e1 : DX / (DX * DX + DY * DY) * DX = DX * DX / (DX * DX + DY * DY) := by ring
  have e2 : DY / (DX * DX + DY * DY) * DY = DY * DY / (DX * DX + DY * DY) := by ring
  rw [e1, e2, abs_of_nonneg (div_nonneg (mul_self_nonneg _) hD.le),
    abs_of_nonneg (div_nonneg (mul_self_nonneg _) hD.le), ← add_div, div_self (ne_of_gt hD)]

theorem cross_half (DX DY : ℚ) (hD : 0 < DX * DX + DY * DY) :
    |DX / (DX * DX + DY * DY) * DY| + |DY / (DX * DX + DY * DY) * DX| ≤ 1 := by
  have e1 : DX / (DX * DX + DY * DY) * DY = DX * DY / (DX * DX + DY * DY) := by ring
  have e2 : DY / (DX * DX + DY * DY) * DX = DX * DY / (DX * DX + DY * DY) := by ring
  rw [e1, e2, abs_div, abs_of_pos hD, ← add_div, div_le_one hD]
  have h1 : |DX * DY| = |DX| * |DY| := abs_mul _ _
  have h2 : |DX| * |DX| = DX * DX := abs_mul_abs_self DX
  have h3 : |DY| * |DY| = DY * DY := abs_mul_abs_self DY
  nlinarith [mul_self_nonneg (|DX| - |DY|)]

/-! ## `linearMatrix` -/

/-- **the range hypothesis** (a simple sufficient condition): finite coordinates in `[−2^20, 2^20]` and the two
    points at least `2^-20` apart (`|p2 − p1|² ≥ 2^-40`).  No intermediate result then overflows, and the
    underflow of a product or quotient (e.g. `dx·dx` for a nearly vertical gradient) is accounted for. -/
structure LinOK (x1 y1 x2 y2 : F32) : Prop where
  fx1 : Fn x1
  fy1 : Fn y1
  fx2 : Fn x2
  fy2 : Fn y2
  bx1 : |val x1| ≤ 1048576
  by1 : |val y1| ≤ 1048576
  bx2 : |val x2| ≤ 1048576
  by2 : |val y2| ≤ 1048576
  sep : 1 / 1099511627776 ≤
    (val x2 - val x1) * (val x2 - val x1) + (val y2 - val y1) * (val y2 - val y1)

/-- the exact squared distance `D = DX² + DY²` of the two (float) points -/
def linD (x1 y1 x2 y2 : F32) : ℚ :=
  (val x2 - val x1) * (val x2 - val x1) + (val y2 - val y1) * (val y2 - val y1)
/-- the exact matrix entries `A = DX/D`, `B = DY/D` -/
def linA (x1 y1 x2 y2 : F32) : ℚ := (val x2 - val x1) / linD x1 y1 x2 y2
def linB (x1 y1 x2 y2 : F32) : ℚ := (val y2 - val y1) / linD x1 y1 x2 y2
/-- the exact offset: the projection of `p − p1` on `p2 − p1`, over `|p2 − p1|²` -/
def linExact (x1 y1 x2 y2 : F32) (px py : ℚ) : ℚ :=
  linA x1 y1 x2 y2 * (px - val x1) + linB x1 y1 x2 y2 * (py - val y1)
/-- **the condition number** of the helper: `1 + (|DX·X1| + |DY·Y1|)/D` — at most
    `1 + |p1|/|p2 − p1|` (Cauchy–Schwarz): the distance of the first point from the origin in units of the
    distance between the points -/
def linK (x1 y1 x2 y2 : F32) : ℚ :=
  1 + (|linA x1 y1 x2 y2 * val x1| + |linB x1 y1 x2 y2 * val y1|)

theorem linearMatrix_eq (x1 y1 x2 y2 : F32) :
    linearMatrix x1 y1 x2 y2 =
      ⟨(x2 - x1) / ((x2 - x1) * (x2 - x1) + (y2 - y1) * (y2 - y1)),
       (y2 - y1) / ((x2 - x1) * (x2 - x1) + (y2 - y1) * (y2 - y1)),
       -((x2 - x1) / ((x2 - x1) * (x2 - x1) + (y2 - y1) * (y2 - y1))) * x1 -
         (y2 - y1) / ((x2 - x1) * (x2 - x1) + (y2 - y1) * (y2 - y1)) * y1,
       F32.ofInt 0, F32.ofInt 0, F32.ofInt 0⟩ := rfl

variable {x1 y1 x2 y2 : F32}

theorem LinOK.D_pos (h : LinOK x1 y1 x2 y2) : 0 < linD x1 y1 x2 y2 := by
  have := h.sep; unfold linD; linarith

/-- **the entries**: all finite; `a`, `b` within `8u` (relative) `+ 2^-150` of `DX/D`, `DY/D`; `c` within
    `3u·(|A·X1| + |B·Y1|) + 3·2^-150` of `−a·X1 − b·Y1` (with the COMPUTED `a`, `b`); second row zero -/
theorem lin_entries (h : LinOK x1 y1 x2 y2) :
    let M := linearMatrix x1 y1 x2 y2
    (Fn M.a0 ∧ Fn M.a1 ∧ Fn M.a2) ∧
    |val M.a0 - linA x1 y1 x2 y2| ≤ 8 * u * |linA x1 y1 x2 y2| + tiny ∧
    |val M.a1 - linB x1 y1 x2 y2| ≤ 8 * u * |linB x1 y1 x2 y2| + tiny ∧
    |off M (val x1) (val y1)| ≤
      3 * u * (|linA x1 y1 x2 y2 * val x1| + |linB x1 y1 x2 y2 * val y1|) + 3 * tiny ∧
    (val M.a3 = 0 ∧ val M.a4 = 0 ∧ val M.a5 = 0) := by
  have hu : u = 1 / 16777216 := rfl
  intro M
  obtain ⟨fx1, fy1, fx2, fy2, bx1, by1, bx2, by2, sep⟩ := h
  have ax1 := abs_le.1 bx1
  have ay1 := abs_le.1 by1
  have ax2 := abs_le.1 bx2
  have ay2 := abs_le.1 by2
  have bDX : |val x2 - val x1| ≤ 2097152 := abs_le.2 ⟨by linarith, by linarith⟩
  have bDY : |val y2 - val y1| ≤ 2097152 := abs_le.2 ⟨by linarith, by linarith⟩
  obtain ⟨fdx, hdx⟩ := sub_err fx2 fx1 (le_maxv (by linarith))
  obtain ⟨fdy, hdy⟩ := sub_err fy2 fy1 (le_maxv (by linarith))
  obtain ⟨fd, hd⟩ := sumsq fdx fdy hdx hdy bDX bDY sep
  have hD : (val x2 - val x1) * (val x2 - val x1) + (val y2 - val y1) * (val y2 - val y1) ≠ 0 := by
    intro h0; rw [h0] at sep; norm_num at sep
  have qA := quot_bound (val x2 - val x1) (val y2 - val y1) sep
  have qB : |(val y2 - val y1) /
      ((val x2 - val x1) * (val x2 - val x1) + (val y2 - val y1) * (val y2 - val y1))| ≤ 1048576 := by
    have := quot_bound (val y2 - val y1) (val x2 - val x1) (by linarith)
    rwa [add_comm] at this
  obtain ⟨fa, ha⟩ := quot_entry fdx fd hdx hd hD qA
  obtain ⟨fb, hb⟩ := quot_entry fdy fd hdy hd hD qB
  -- the names of the statement
  change |val M.a0 - linA x1 y1 x2 y2| ≤ 8 * u * |linA x1 y1 x2 y2| + tiny at ha
  change |val M.a1 - linB x1 y1 x2 y2| ≤ 8 * u * |linB x1 y1 x2 y2| + tiny at hb
  change |linA x1 y1 x2 y2| ≤ 1048576 at qA
  change |linB x1 y1 x2 y2| ≤ 1048576 at qB
  have fa' : Fn M.a0 := fa
  have fb' : Fn M.a1 := fb
  generalize linA x1 y1 x2 y2 = A at *
  generalize linB x1 y1 x2 y2 = B at *
  -- sizes of the computed entries
  have ht1 := tiny_le_one
  have ht0 := tiny_pos
  have sa : |val M.a0| ≤ (1 + 8 * u) * |A| + tiny := by
    have := abs_sub_abs_le_abs_sub (val M.a0) A; linarith
  have sb : |val M.a1| ≤ (1 + 8 * u) * |B| + tiny := by
    have := abs_sub_abs_le_abs_sub (val M.a1) B; linarith
  have hA0 := abs_nonneg A
  have hB0 := abs_nonneg B
  have hX0 := abs_nonneg (val x1)
  have hY0 := abs_nonneg (val y1)
  -- |a·X1| ≤ (1+8u)|A·X1| + 2^20·tiny
  have pa : |val M.a0 * val x1| ≤ (1 + 8 * u) * |A * val x1| + 1048576 * tiny := by
    rw [abs_mul, abs_mul]
    have h1 := mul_le_mul_of_nonneg_right sa hX0
    have h2 := mul_le_mul_of_nonneg_left bx1 ht0.le
    have e : ((1 + 8 * u) * |A| + tiny) * |val x1| = (1 + 8 * u) * (|A| * |val x1|) + tiny * |val x1| := by ring
    rw [e] at h1
    linarith
  have pb : |val M.a1 * val y1| ≤ (1 + 8 * u) * |B * val y1| + 1048576 * tiny := by
    rw [abs_mul, abs_mul]
    have h1 := mul_le_mul_of_nonneg_right sb hY0
    have h2 := mul_le_mul_of_nonneg_left by1 ht0.le
    have e : ((1 + 8 * u) * |B| + tiny) * |val y1| = (1 + 8 * u) * (|B| * |val y1|) + tiny * |val y1| := by ring
    rw [e] at h1
    linarith
  have mAX : |A * val x1| ≤ 1048576 * 1048576 := by
    rw [abs_mul]; exact mul_le_mul qA bx1 hX0 (by norm_num)
  have mBY : |B * val y1| ≤ 1048576 * 1048576 := by
    rw [abs_mul]; exact mul_le_mul qB by1 hY0 (by norm_num)
  obtain ⟨fna, vna⟩ := neg_val fa'
  have c1 : |val (-M.a0) * val x1| ≤ cap := by
    rw [vna, neg_mul, abs_neg]; rw [hu] at pa; unfold cap; linarith
  have c2 : |val M.a1 * val y1| ≤ cap := by
    rw [hu] at pb; unfold cap; linarith
  obtain ⟨fc, hc⟩ := dot2_sub fna fx1 fb' fy1 c1 c2
  have fc' : Fn M.a2 := fc
  change |val M.a2 - (val (-M.a0) * val x1 - val M.a1 * val y1)| ≤ _ at hc
  rw [vna, neg_mul, abs_neg] at hc
  obtain ⟨z0, z1⟩ := zero_val
  refine ⟨⟨fa', fb', fc'⟩, ha, hb, ?_, z1, z1, z1⟩
  have e : off M (val x1) (val y1) = val M.a2 - (-(val M.a0 * val x1) - val M.a1 * val y1) := by
    unfold off; ring
  rw [e]
  refine le_trans hc ?_
  have hAX0 := abs_nonneg (A * val x1)
  have hBY0 := abs_nonneg (B * val y1)
  rw [hu] at pa pb ⊢
  nlinarith

/-- for every viewBox point, the offset read from the float matrix against the exact projection -/
theorem linear_offset_err (h : LinOK x1 y1 x2 y2) (px py : ℚ) :
    let M := linearMatrix x1 y1 x2 y2
    |off M px py - linExact x1 y1 x2 y2 px py| ≤
      (8 * u * |linA x1 y1 x2 y2| + tiny) * |px - val x1| +
      (8 * u * |linB x1 y1 x2 y2| + tiny) * |py - val y1| + |off M (val x1) (val y1)| := by
  intro M
  obtain ⟨_, ha, hb, _, _⟩ := lin_entries h
  have e : off M px py - linExact x1 y1 x2 y2 px py =
      (val M.a0 - linA x1 y1 x2 y2) * (px - val x1) + (val M.a1 - linB x1 y1 x2 y2) * (py - val y1) +
        off M (val x1) (val y1) := by
    unfold off linExact; ring
  rw [e]
  refine le_trans (abs_add_le _ _) ?_
  refine add_le_add (le_trans (abs_add_le _ _) (add_le_add ?_ ?_)) (le_refl _)
  · rw [abs_mul]; exact mul_le_mul_of_nonneg_right ha (abs_nonneg _)
  · rw [abs_mul]; exact mul_le_mul_of_nonneg_right hb (abs_nonneg _)

theorem linExact_p1 (x1 y1 x2 y2 : F32) : linExact x1 y1 x2 y2 (val x1) (val y1) = 0 := by
  unfold linExact; ring

theorem linExact_p2 (h : LinOK x1 y1 x2 y2) : linExact x1 y1 x2 y2 (val x2) (val y2) = 1 := by
  have hD := h.D_pos
  unfold linExact linA linB
  rw [div_mul_eq_mul_div, div_mul_eq_mul_div, ← add_div]
  exact div_self (ne_of_gt hD)

theorem linK_ge_one (x1 y1 x2 y2 : F32) : 1 ≤ linK x1 y1 x2 y2 := by
  unfold linK
  have := abs_nonneg (linA x1 y1 x2 y2 * val x1)
  have := abs_nonneg (linB x1 y1 x2 y2 * val y1)
  linarith

/-- **`linearMatrix_f32`** — C19 "linear has offset 0 at (x1,y1), 1 at (x2,y2) and is constant along
    perpendiculars", at float32: with `M` the matrix `SetLinearGradient` computes in float32 and the offset
    `off M p = a·px + b·py + c` evaluated exactly from its entries, and `K = linK = 1 + (|DX·X1| + |DY·Y1|)/D`
    (`≤ 1 + |p1|/|p2 − p1|`):

    * `|off M p1| ≤ 3u·K`,  `|off M p2 − 1| ≤ 9u + |off M p1| ≤ 12u·K`;
    * a step of `s` times the perpendicular vector `(DY, −DX)` — of the EXACT difference of the float
      points — from ANY point changes the offset by at most `9u·|s|` (no condition number: for `|s| ≤ 1`, a
      step no longer than the gradient itself, `9u`);
    * hence on the two perpendiculars through the end points the offset is within `3u·K + 9u·|s|` of 0 and
      `12u·K + 9u·|s|` of 1. -/
theorem linearMatrix_f32 (h : LinOK x1 y1 x2 y2) :
    let M := linearMatrix x1 y1 x2 y2
    let K := linK x1 y1 x2 y2
    let DX := val x2 - val x1
    let DY := val y2 - val y1
    (Fn M.a0 ∧ Fn M.a1 ∧ Fn M.a2) ∧
    |off M (val x1) (val y1)| ≤ 3 * u * K ∧
    |off M (val x2) (val y2) - 1| ≤ 9 * u + |off M (val x1) (val y1)| ∧
    |off M (val x2) (val y2) - 1| ≤ 12 * u * K ∧
    (∀ px py s, |off M (px + s * DY) (py - s * DX) - off M px py| ≤ 9 * u * |s|) ∧
    (∀ s, |off M (val x1 + s * DY) (val y1 - s * DX)| ≤ 3 * u * K + 9 * u * |s|) ∧
    (∀ s, |off M (val x2 + s * DY) (val y2 - s * DX) - 1| ≤ 12 * u * K + 9 * u * |s|) := by
  have hu : u = 1 / 16777216 := rfl
  intro M K DX DY
  obtain ⟨hf, ha, hb, hc, _⟩ := lin_entries h
  have hD := h.D_pos
  have ht := tiny_le
  have ht0 := tiny_pos
  have ax1 := abs_le.1 h.bx1
  have ay1 := abs_le.1 h.by1
  have ax2 := abs_le.1 h.bx2
  have ay2 := abs_le.1 h.by2
  have bDX : |DX| ≤ 2097152 := abs_le.2 ⟨by show -2097152 ≤ val x2 - val x1; linarith,
    by show val x2 - val x1 ≤ 2097152; linarith⟩
  have bDY : |DY| ≤ 2097152 := abs_le.2 ⟨by show -2097152 ≤ val y2 - val y1; linarith,
    by show val y2 - val y1 ≤ 2097152; linarith⟩
  have hK1 : 1 ≤ K := linK_ge_one x1 y1 x2 y2
  -- offset at p1
  have h1 : |off M (val x1) (val y1)| ≤ 3 * u * K := by
    refine le_trans hc ?_
    show _ ≤ 3 * u * (1 + (|linA x1 y1 x2 y2 * val x1| + |linB x1 y1 x2 y2 * val y1|))
    rw [hu] at ht ⊢
    linarith
  -- offset at p2
  have h2 : |off M (val x2) (val y2) - 1| ≤ 9 * u + |off M (val x1) (val y1)| := by
    have := linear_offset_err h (val x2) (val y2)
    rw [linExact_p2 h] at this
    refine le_trans this ?_
    have p1 := proj_one DX DY hD
    change |linA x1 y1 x2 y2 * DX| + |linB x1 y1 x2 y2 * DY| = 1 at p1
    rw [abs_mul, abs_mul] at p1
    change (8 * u * |linA x1 y1 x2 y2| + tiny) * |DX| + (8 * u * |linB x1 y1 x2 y2| + tiny) * |DY| +
      |off M (val x1) (val y1)| ≤ _
    have e : (8 * u * |linA x1 y1 x2 y2| + tiny) * |DX| + (8 * u * |linB x1 y1 x2 y2| + tiny) * |DY| =
        8 * u * (|linA x1 y1 x2 y2| * |DX| + |linB x1 y1 x2 y2| * |DY|) + tiny * (|DX| + |DY|) := by ring
    rw [e, p1]
    have : tiny * (|DX| + |DY|) ≤ tiny * 4194304 := mul_le_mul_of_nonneg_left (by linarith) ht0.le
    rw [hu] at ht ⊢
    linarith
  have h2' : |off M (val x2) (val y2) - 1| ≤ 12 * u * K := by
    refine le_trans h2 ?_
    rw [hu] at h1 ⊢; linarith
  -- perpendicular steps
  have h3 : ∀ px py s, |off M (px + s * DY) (py - s * DX) - off M px py| ≤ 9 * u * |s| := by
    intro px py s
    have hAB : linA x1 y1 x2 y2 * DY - linB x1 y1 x2 y2 * DX = 0 := by
      unfold linA linB; show (val x2 - val x1) / _ * (val y2 - val y1) - (val y2 - val y1) / _ * (val x2 - val x1) = 0
      ring
    have e : off M (px + s * DY) (py - s * DX) - off M px py =
        s * ((val M.a0 - linA x1 y1 x2 y2) * DY - (val M.a1 - linB x1 y1 x2 y2) * DX) := by
      unfold off
      have : s * ((val M.a0 - linA x1 y1 x2 y2) * DY - (val M.a1 - linB x1 y1 x2 y2) * DX) =
          s * (val M.a0 * DY - val M.a1 * DX) - s * (linA x1 y1 x2 y2 * DY - linB x1 y1 x2 y2 * DX) := by ring
      rw [this, hAB]; ring
    rw [e, abs_mul, mul_comm (9 * u)]
    refine mul_le_mul_of_nonneg_left ?_ (abs_nonneg s)
    refine le_trans (abs_sub _ _) ?_
    rw [abs_mul, abs_mul]
    have q1 := mul_le_mul_of_nonneg_right ha (abs_nonneg DY)
    have q2 := mul_le_mul_of_nonneg_right hb (abs_nonneg DX)
    have cr := cross_half DX DY hD
    change |linA x1 y1 x2 y2 * DY| + |linB x1 y1 x2 y2 * DX| ≤ 1 at cr
    rw [abs_mul, abs_mul] at cr
    have e1 : (8 * u * |linA x1 y1 x2 y2| + tiny) * |DY| + (8 * u * |linB x1 y1 x2 y2| + tiny) * |DX| =
        8 * u * (|linA x1 y1 x2 y2| * |DY| + |linB x1 y1 x2 y2| * |DX|) + tiny * (|DX| + |DY|) := by ring
    have : tiny * (|DX| + |DY|) ≤ tiny * 4194304 := mul_le_mul_of_nonneg_left (by linarith) ht0.le
    have q3 : 8 * u * (|linA x1 y1 x2 y2| * |DY| + |linB x1 y1 x2 y2| * |DX|) ≤ 8 * u * 1 :=
      mul_le_mul_of_nonneg_left cr (by rw [hu]; norm_num)
    rw [hu] at ht q3 e1 q1 q2 ⊢
    linarith
  refine ⟨hf, h1, h2, h2', h3, ?_, ?_⟩
  · intro s
    have a := h3 (val x1) (val y1) s
    have b := abs_sub_le (off M (val x1 + s * DY) (val y1 - s * DX)) (off M (val x1) (val y1)) 0
    simp only [sub_zero] at b
    linarith
  · intro s
    have a := h3 (val x2) (val y2) s
    have b := abs_sub_le (off M (val x2 + s * DY) (val y2 - s * DX)) (off M (val x2) (val y2)) 1
    linarith

/-- the condition number in terms of a length: for every rational `L > 0` with `L² ≤ |p2 − p1|²`,
    `K ≤ 1 + (|X1| + |Y1|)/L` -/
theorem linK_le (h : LinOK x1 y1 x2 y2) (L : ℚ) (hL : 0 < L)
    (hLD : L * L ≤ linD x1 y1 x2 y2) :
    linK x1 y1 x2 y2 ≤ 1 + (|val x1| + |val y1|) / L := by
  have hD := h.D_pos
  have key : ∀ DX DY : ℚ, DX * DX + DY * DY = linD x1 y1 x2 y2 → |DX / linD x1 y1 x2 y2| ≤ 1 / L := by
    intro DX DY hd
    rw [abs_div, abs_of_pos hD, div_le_div_iff₀ hD hL, one_mul]
    have h2 : |DX| * |DX| = DX * DX := abs_mul_abs_self DX
    have h0 := abs_nonneg DX
    have nY := mul_self_nonneg DY
    by_contra hc
    have hc' : linD x1 y1 x2 y2 < |DX| * L := not_le.1 hc
    nlinarith
  have kA := key (val x2 - val x1) (val y2 - val y1) rfl
  have kB := key (val y2 - val y1) (val x2 - val x1) (by unfold linD; ring)
  unfold linK
  change |(val x2 - val x1) / linD x1 y1 x2 y2| ≤ 1 / L at kA
  change |(val y2 - val y1) / linD x1 y1 x2 y2| ≤ 1 / L at kB
  have e : (|val x1| + |val y1|) / L = 1 / L * |val x1| + 1 / L * |val y1| := by ring
  rw [e, abs_mul, abs_mul]
  have := mul_le_mul_of_nonneg_right kA (abs_nonneg (val x1))
  have := mul_le_mul_of_nonneg_right kB (abs_nonneg (val y1))
  unfold linA linB
  linarith

end Ivg.Gen32
